#!/bin/sh
# run the pinned suite with the guard OFF and print a one-line summary
cd /repo && CARGO_NET_OFFLINE=true cargo test --workspace --no-fail-fast --offline 2>&1 | awk '/^test result/ {p+=$4; f+=$6} /^error/ {e++} END {print "passed=" p " failed=" f " build_errors=" e+0}'
