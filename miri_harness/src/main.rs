//! Runs `api` histories (the same `api.rs` as the correspondence harness) — meant for
//! `cargo +nightly miri run`: a memory-safety violation in the self-referential schema, the
//! container reader or a drop order makes Miri stop with an error.
#[path = "../../harness/src/streams/api.rs"]
mod api;

use std::io::BufRead;

fn main() {
	let args: Vec<String> = std::env::args().collect();
	if args.get(1).map(|s| s.as_str()) == Some("gen") {
		let seed: u64 = args[2].parse().unwrap();
		let n: usize = args[3].parse().unwrap();
		api::generate(seed, n, &mut |l| println!("{l}"));
		return;
	}
	if args.get(1).map(|s| s.as_str()) == Some("run-gen") {
		// generate and run in one process (no stdin under Miri's isolation)
		let seed: u64 = args[2].parse().unwrap();
		let n: usize = args[3].parse().unwrap();
		let mut cases = vec![];
		api::generate(seed, n, &mut |l| cases.push(l));
		for c in cases {
			println!("{c} => {}", api::run_history(&c));
		}
		return;
	}
	let stdin = std::io::stdin();
	for line in stdin.lock().lines() {
		let line = line.unwrap();
		if line.trim().is_empty() {
			continue;
		}
		println!("{}", api::run_history(&line));
	}
}
