#!/usr/bin/env python3
"""ad-hoc: ./adhoc.py <stream> <seed> <n> [show] — run a stream through both sides and summarise"""
import subprocess, sys, collections
stream, seed, n = sys.argv[1], sys.argv[2], sys.argv[3]
show = int(sys.argv[4]) if len(sys.argv) > 4 else 3
H = "/verif/harness/target/debug/harness"
D = "/verif/lean/.lake/build/bin/avro_driver"
cases = subprocess.run([H, "gen", stream, seed, n], stdout=subprocess.PIPE).stdout
rust = subprocess.run([H, "run"], input=cases, stdout=subprocess.PIPE, stderr=subprocess.DEVNULL).stdout.decode(errors="replace").split("\n")
lean = subprocess.run([D], input=cases, stdout=subprocess.PIPE).stdout.decode(errors="replace").split("\n")
cl = cases.decode().split("\n")
cnt = collections.Counter()
diffs = []
verd = collections.Counter()
for c, r, l in zip(cl, rust, lean):
    if not c:
        continue
    lo, _, v = l.partition(" # ")
    cnt[" ".join(r.split(" ")[:2]) if r.startswith("err") else r.split(" ")[0]] += 1
    if v:
        verd[v[:80]] += 1
    if r != lo and not lo.startswith("skip"):
        diffs.append((c, r, lo))
print(f"{stream}: cases={len([c for c in cl if c])} rust={dict(cnt)} diffs={len(diffs)} rustlines={len(rust)} leanlines={len(lean)}")
for k, v in verd.items():
    print("   verdict", v, k)
for c, r, l in diffs[:show]:
    print("  CASE", c[:700])
    print("   RUST", r[:300])
    print("   LEAN", l[:300])
