use serde::ser::{Serialize, SerializeSeq, Serializer};
use serde_avro_fast::object_container_file_encoding::{Compression, WriterBuilder, Reader};
struct Bad;
impl Serialize for Bad {
    fn serialize<S: Serializer>(&self, s: S) -> Result<S::Ok, S::Error> {
        let mut seq = s.serialize_seq(Some(2))?;
        seq.serialize_element(&7i64)?;
        panic!("user impl panics half-way");
    }
}
fn main() {
    let schema: serde_avro_fast::Schema = r#"{"type":"array","items":"long"}"#.parse().unwrap();
    let mut sink: Vec<u8> = Vec::new();
    let r = std::panic::catch_unwind(std::panic::AssertUnwindSafe(|| {
        let mut cfg = serde_avro_fast::ser::SerializerConfig::new(&schema);
        let mut w = WriterBuilder::new(&mut cfg).compression(Compression::Null).build(&mut sink).unwrap();
        w.serialize(&vec![1i64, 2]).unwrap();
        w.serialize(&Bad).unwrap();
    }));
    println!("panicked: {}", r.is_err());
    println!("sink len {}", sink.len());
    let mut rd = Reader::from_slice(&sink).unwrap();
    for v in rd.deserialize::<Vec<i64>>() { println!("{:?}", v); }
}
