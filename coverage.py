#!/usr/bin/env python3
"""Which lines of /repo/serde_avro_fast/src do the correspondence streams (quick tier) execute?
Not a check: a measuring tool for the generators (section 11.5 of DESIGN.md: every seeded change
that escaped did so through an entry point, option or input spelling no stream presented).
Builds the harness with -C instrument-coverage on the nightly toolchain (its llvm-tools) in a
scratch directory outside /verif and /repo, runs every stream of properties_config.json at its
quick count, and prints the lines never executed.  usage: ./coverage.py [scratch-dir]"""
import json, os, re, subprocess, sys, glob, shutil
ROOT = os.path.dirname(os.path.abspath(__file__))
SCR = sys.argv[1] if len(sys.argv) > 1 else "/root/cov"
BIN = "/root/.rustup/toolchains/nightly-x86_64-unknown-linux-gnu/lib/rustlib/x86_64-unknown-linux-gnu/bin"
os.makedirs(SCR + "/prof", exist_ok=True)
for f in glob.glob(SCR + "/prof/*.profraw"):
    os.remove(f)
# (LLVM_PROFILE_FILE also during the build: an instrumented proc-macro otherwise drops its
# profile into the crate directory it is compiled in, i.e. into /repo)
env = dict(os.environ, CARGO_TARGET_DIR=SCR + "/target", CARGO_NET_OFFLINE="true", LLVM_PROFILE_FILE=SCR + "/prof/build-%p-%m.profraw",
           RUSTFLAGS="-C instrument-coverage --cfg ten0_serde_avro_fast_verif")
subprocess.run(["cargo", "+nightly", "build", "--offline", "--quiet"], cwd=ROOT + "/harness", env=env, check=True)
H = SCR + "/target/debug/harness"
cfg = json.load(open(ROOT + "/properties_config.json"))
streams = {}
for e in cfg.values():
    for s in e.get("streams", []):
        if s["name"] != "derive":
            streams[s["name"]] = max(streams.get(s["name"], 0), s.get("quick", 0))
penv = dict(os.environ, LLVM_PROFILE_FILE=SCR + "/prof/%p-%m.profraw")
for name, n in sorted(streams.items()):
    g = subprocess.run([H, "gen", name, "1", str(n)], stdout=subprocess.PIPE, stderr=subprocess.DEVNULL, env=penv)
    subprocess.run([H, "run"], input=g.stdout, stdout=subprocess.DEVNULL, stderr=subprocess.DEVNULL, env=penv)
subprocess.run([BIN + "/llvm-profdata", "merge", "-sparse"] + glob.glob(SCR + "/prof/*.profraw") + ["-o", SCR + "/all.profdata"], check=True)
show = subprocess.run([BIN + "/llvm-cov", "show", H, "-instr-profile=" + SCR + "/all.profdata", "--sources", "/repo/serde_avro_fast/src"],
                      stdout=subprocess.PIPE, stderr=subprocess.DEVNULL).stdout.decode(errors="replace")
cur, out, total = None, {}, {}
for l in show.splitlines():
    if l.startswith("/repo/"):
        cur = l.strip().rstrip(":").replace("/repo/serde_avro_fast/src/", ""); out[cur] = []; total[cur] = 0; continue
    m = re.match(r"\s*(\d+)\|\s*([0-9.kMG]+)\|(.*)", l)
    if m and cur:
        total[cur] += 1
        if m.group(2) == "0":
            out[cur].append((int(m.group(1)), m.group(3).strip()))
miss = sum(len(v) for v in out.values()); tot = sum(total.values())
print(f"lines with code: {tot}, never executed: {miss} ({100 * (tot - miss) / tot:.2f}% executed)")
for f, ls in sorted(out.items()):
    if ls:
        print(f"== {f}: {len(ls)} of {total[f]}")
        for n, t in ls:
            print(f"   {n}: {t[:110]}")
