#!/usr/bin/env python3
"""Orchestrator: decides one property per invocation (DESIGN.md section 6).

  ./check.py C08 [--tier quick|thorough] [--replay FILE]

Steps: build the harness against /repo's working tree (hooks on) -> regenerate
lean/AvroModel/Generated/* from the running code -> lake build the property's theorem module and
the driver -> audit axioms / forbidden constructs -> run the property's correspondence streams
through the Rust crate and through the Lean model, diff, and judge every case with the spec
oracle -> match violations against known_findings.json -> write evidence/<id>.json.

Exit 0: property held on everything explored (known findings are printed as KNOWN-FINDING).
Exit 1: a line `VIOLATION property=<id> replay=<path>` was printed.
"""
import argparse, fcntl, hashlib, json, os, re, subprocess, sys, time

ROOT = os.path.dirname(os.path.abspath(__file__))
LEAN = os.path.join(ROOT, "lean")
HARNESS = os.path.join(ROOT, "harness")
WORK = os.path.join(ROOT, "work")
DRIVER = os.path.join(LEAN, ".lake", "build", "bin", "avro_driver")
HARNESS_BIN = os.path.join(HARNESS, "target", "debug", "harness")
ENV = dict(os.environ, CARGO_NET_OFFLINE="true")

ALLOWED_AXIOMS = {"propext", "Classical.choice", "Quot.sound"}
FORBIDDEN = re.compile(r"\bsorry\b|\badmit\b|^\s*axiom\s|native_decide|implemented_by|\bunsafe\s|maxHeartbeats\s+0|bv_decide")

TRUSTED_BASE = [
    "Lean 4.33.0 kernel (thorough tier: re-checked with leanchecker)",
    "axioms propext, Classical.choice, Quot.sound only (audited with #print axioms on every registered theorem)",
    "Spec.* transcribes the Avro specification",
    "correspondence harness + driver line protocol + canonicalisation (this script); generator coverage is finite",
    "external code modelled as parameters: serde/serde_derive, serde_json, rust_decimal, f64-as-f32, std::io, codec libraries, rand",
]


def sh(cmd, cwd=None, inp=None, timeout=None):
    p = subprocess.run(cmd, cwd=cwd, input=inp, stdout=subprocess.PIPE, stderr=subprocess.STDOUT,
                       env=ENV, timeout=timeout)
    return p.returncode, p.stdout


class Lock:
    """Serialise builds when several checks run at once."""
    def __enter__(self):
        os.makedirs(WORK, exist_ok=True)
        self.f = open(os.path.join(WORK, ".buildlock"), "w")
        fcntl.flock(self.f, fcntl.LOCK_EX)
        return self
    def __exit__(self, *a):
        fcntl.flock(self.f, fcntl.LOCK_UN)
        self.f.close()


def load_config():
    with open(os.path.join(ROOT, "properties_config.json")) as f:
        return json.load(f)


def build_harness(log):
    if not os.path.exists(os.path.join(HARNESS, "Cargo.lock")):
        subprocess.run(["cp", "/repo/Cargo.lock", os.path.join(HARNESS, "Cargo.lock")])
    rc, out = sh(["cargo", "build", "--offline", "--quiet"], cwd=HARNESS)
    log.append(("cargo build", rc))
    if rc != 0:
        sys.stderr.write(out.decode(errors="replace")[-4000:])
    return rc == 0


def regenerate(log):
    rc, out = sh([HARNESS_BIN, "dump-constants"])
    if rc != 0:
        log.append(("dump-constants", rc))
        return False, "dump-constants failed"
    rc, out2 = sh([sys.executable, os.path.join(ROOT, "gen_constants.py")], inp=out)
    log.append(("gen_constants", out2.decode().strip()))
    return rc == 0, out2.decode().strip()


def lake_build(targets):
    rc, out = sh(["lake", "build"] + targets, cwd=LEAN)
    return rc == 0, out.decode(errors="replace")


def audit(prop, theorems, module):
    """#print axioms on every registered theorem. Returns (per-theorem dict, problems list)."""
    os.makedirs(WORK, exist_ok=True)
    path = os.path.join(WORK, f"Audit_{prop}.lean")
    with open(path, "w") as f:
        f.write(f"import {module}\n")
        for t in theorems:
            f.write(f"#print axioms {t}\n")
    rc, out = sh(["lake", "env", "lean", path], cwd=LEAN)
    text = out.decode(errors="replace")
    res, problems = {}, []
    # output blocks: "'name' depends on axioms: [a, b]" (may wrap lines) or "'name' does not depend on any axioms"
    flat = re.sub(r"\s+", " ", text)
    for t in theorems:
        m = re.search(r"'" + re.escape(t) + r"' depends on axioms: \[([^\]]*)\]", flat)
        if m:
            axs = [a.strip() for a in m.group(1).split(",") if a.strip()]
            res[t] = axs
            bad = [a for a in axs if a not in ALLOWED_AXIOMS]
            if bad:
                problems.append(f"{t}: non-standard axioms {bad}")
        elif re.search(r"'" + re.escape(t) + r"' does not depend on any axioms", flat):
            res[t] = []
        else:
            res[t] = None
            problems.append(f"{t}: not found / does not check")
    if rc != 0 and not problems:
        problems.append("audit file failed to elaborate: " + text[-500:])
    return res, problems


def grep_forbidden():
    hits = []
    for base, _, files in os.walk(os.path.join(LEAN, "AvroModel")):
        for fn in files:
            if not fn.endswith(".lean"):
                continue
            p = os.path.join(base, fn)
            in_block = False
            for i, line in enumerate(open(p, errors="replace"), 1):
                s = line
                # strip comments (line and simple block comments)
                if in_block:
                    if "-/" in s:
                        s = s.split("-/", 1)[1]
                        in_block = False
                    else:
                        continue
                while "/-" in s:
                    pre, post = s.split("/-", 1)
                    if "-/" in post:
                        s = pre + post.split("-/", 1)[1]
                    else:
                        s = pre
                        in_block = True
                        break
                s = s.split("--", 1)[0]
                if FORBIDDEN.search(s):
                    hits.append(f"{os.path.relpath(p, LEAN)}:{i}: {line.strip()}")
    return hits


def run_harness(cases):
    """Run cases through the Rust harness; an abort (stack overflow, OOM) is attributed to the
    case that caused it and the rest continues in a new process."""
    results = []
    remaining = cases
    aborts = 0
    while remaining:
        inp = ("\n".join(remaining) + "\n").encode()
        p = subprocess.run([HARNESS_BIN, "run"], input=inp, stdout=subprocess.PIPE, stderr=subprocess.DEVNULL, env=ENV)
        lines = p.stdout.decode(errors="replace").split("\n")
        if lines and lines[-1] == "":
            lines.pop()
        if p.returncode == 0 and len(lines) == len(remaining):
            results.extend(lines)
            break
        # crashed while executing case number len(lines) (0-based) — partial line possible
        done = min(len(lines), len(remaining) - 1)
        if p.returncode == 0:
            # exited normally but short output: treat missing as protocol error
            results.extend(lines)
            results.extend(["bad-case missing output"] * (len(remaining) - len(lines)))
            break
        results.extend(lines[:done])
        results.append("abort")
        aborts += 1
        remaining = remaining[done + 1:]
        if aborts > 50:
            results.extend(["abort-skipped"] * len(remaining))
            break
    return results


DERIVE_GEN = os.path.join(ROOT, "derive_gen")


def run_derive(seed, n):
    """C20: generate `n` families of type definitions, compile them against /repo's derive macro
    and run them. Returns (cases, rust outcomes, error). A family list that does not compile is an
    outcome of its own (deriving on a supported shape must compile)."""
    gen = os.path.join(DERIVE_GEN, "src", "generated.rs")
    rc, out = sh([HARNESS_BIN, "gen-derive", str(seed), str(n), gen])
    if rc != 0:
        return [], [], "generator failed: " + out.decode(errors="replace")[-400:]
    if not os.path.exists(os.path.join(DERIVE_GEN, "Cargo.lock")):
        subprocess.run(["cp", "/repo/Cargo.lock", os.path.join(DERIVE_GEN, "Cargo.lock")])
    p = subprocess.run(["cargo", "build", "--offline", "--quiet"], cwd=DERIVE_GEN, stdout=subprocess.PIPE,
                       stderr=subprocess.STDOUT, env=ENV)
    if p.returncode != 0:
        msg = p.stdout.decode(errors="replace")
        errs = [l for l in msg.split("\n") if l.startswith("error")]
        return [], [], "the generated type definitions do not compile: " + " | ".join(errs[:3])[:600]
    p = subprocess.run([os.path.join(DERIVE_GEN, "target", "debug", "derive_gen")], stdout=subprocess.PIPE,
                       stderr=subprocess.DEVNULL, env=ENV)
    lines = p.stdout.decode(errors="replace").split("\n")
    if lines and lines[-1] == "":
        lines.pop()
    if p.returncode != 0 or len(lines) % 2 != 0:
        return lines[0::2], (lines[1::2] + ["abort"])[: len(lines[0::2])], None
    return lines[0::2], lines[1::2], None


def run_driver(cases, budget=None):
    """Run cases through the Lean driver. The model is executable but not fast: a case whose
    evaluation takes very long (a loop the limits allow to run a billion times) must not hang the
    check - on a time-out the batch is bisected down to the case, which gets `driver-timeout`."""
    if not cases:
        return []
    inp = ("\n".join(cases) + "\n").encode()
    if budget is None:
        budget = 300 + len(cases) // 20
    try:
        p = subprocess.run([DRIVER], input=inp, stdout=subprocess.PIPE, stderr=subprocess.PIPE, timeout=budget)
    except subprocess.TimeoutExpired:
        if len(cases) == 1:
            # one case alone: the time the model needs depends on the input and on the load of the
            # machine, never on the code under check - give it one long second chance
            if budget < 1200:
                return run_driver(cases, 1200)
            return ["driver-timeout"]
        h = len(cases) // 2
        return run_driver(cases[:h], max(60, budget // 2)) + run_driver(cases[h:], max(60, budget // 2))
    lines = p.stdout.decode(errors="replace").split("\n")
    if lines and lines[-1] == "":
        lines.pop()
    if len(lines) < len(cases):
        # the driver stopped (stack overflow, out of memory) at case len(lines): mark it, go on
        k = len(lines)
        return lines + ["driver-died"] + run_driver(cases[k + 1:], budget)
    return lines


def in_parallel(fn, cases, min_chunk=1000):
    """Cases are independent lines (each carries its whole input; harness and driver keep no state
    between lines), so a long list is run in several processes at once, order preserved."""
    n = len(cases)
    cpus = max(1, (os.cpu_count() or 2) - 2)
    # many lines, or few but large ones (container files of hundreds of kilobytes)
    nbytes = sum(len(c) for c in cases)
    workers = min(cpus, max(n // min_chunk, min(n // 4, nbytes // 2_000_000)))
    if workers < 2:
        return fn(cases)
    size = (n + workers - 1) // workers
    chunks = [cases[i:i + size] for i in range(0, n, size)]
    from concurrent.futures import ThreadPoolExecutor
    with ThreadPoolExecutor(len(chunks)) as ex:
        parts = list(ex.map(fn, chunks))
    return [x for part in parts for x in part]


def gen_cases(stream, seed, n):
    # (generators call the crate too - to write the files they then damage, to pick conforming
    # values -: a time limit, so that code under test that loops there is a reported failure of
    # the stream and not a hung check)
    try:
        rc, out = sh([HARNESS_BIN, "gen", stream, str(seed), str(n)], timeout=900 + n // 10)
    except subprocess.TimeoutExpired:
        raise RuntimeError(f"generator for {stream} did not finish within its time limit (the crate is used by the generator: "
                           f"writing the files to read, serializing the values)")
    if rc != 0:
        raise RuntimeError(f"generator for {stream} failed: {out[-500:]}")
    return [l for l in out.decode().split("\n") if l]


def corpus_cases(stream):
    d = os.path.join(ROOT, "corpus", stream)
    cases = []
    if os.path.isdir(d):
        for fn in sorted(os.listdir(d)):
            for l in open(os.path.join(d, fn)):
                l = l.strip()
                if l and not l.startswith("#"):
                    cases.append(l)
    return cases


def split_out(line):
    """driver output: '<outcome> # <oracle verdict>'"""
    if " # " in line:
        a, b = line.split(" # ", 1)
        return a, b
    return line, ""


def load_known():
    p = os.path.join(ROOT, "known_findings.json")
    if os.path.exists(p):
        return json.load(open(p)).get("findings", [])
    return []


def match_known(known, prop, case, rust, model, verdict):
    for k in known:
        if k.get("status", "open") != "open":
            continue
        if prop not in k["properties"]:
            continue
        m = k["match"]
        blob = " ".join([case, "RUST:", rust, "MODEL:", model, "VERDICT:", verdict])
        if all(re.search(pat, blob) for pat in m.get("all", [])):
            return k
    return None


HEXTOK = re.compile(r"^x[0-9a-f]*$")
INTERIOR = re.compile(r"\b(Cell|RefCell|UnsafeCell|OnceCell|OnceLock|Mutex|RwLock|Atomic[A-Za-z0-9]+|LazyCell|LazyLock)\b")


def rust_items(text, names):
    """bodies of `struct X {…}` / `enum X {…}` items by name (brace matching)"""
    text = re.sub(r"//[^\n]*", "", text)
    out = {}
    for m in re.finditer(r"\b(?:pub(?:\([a-z:]+\))?\s+)?(struct|enum)\s+([A-Za-z0-9_]+)[^;{]*\{", text):
        name = m.group(2)
        if name not in names:
            continue
        i = m.end()
        depth = 1
        while i < len(text) and depth:
            depth += {"{": 1, "}": -1}.get(text[i], 0)
            i += 1
        out[name] = text[m.end():i - 1]
    return out


def c10_source_scan(tier, seed):
    """Structural preconditions the C10 theorems rest on, re-checked on the current source:
    no interior mutability inside the frozen schema types (so shared read-only use from several
    threads is use of an immutable value), and the container reader declares the state that
    points into the schema BEFORE the Arc that keeps it alive (fields drop in declaration order)."""
    base = "/repo/serde_avro_fast/src"
    probs, info = [], {}
    def rd(p):
        return open(os.path.join(base, p)).read()
    sr = rd("schema/self_referential.rs")
    lk = rd("schema/union_variants_per_type_lookup.rs")
    md = rd("schema/mod.rs")
    items = {}
    items.update(rust_items(sr, {"Schema", "NodeRef", "SchemaNode", "Union", "Record", "RecordField", "Enum", "Decimal", "DecimalRepr"}))
    items.update(rust_items(lk, {"PerTypeLookup"}))
    items.update(rust_items(md, {"Fixed", "Name"}))
    info["types_scanned"] = sorted(items)
    for need in ["Schema", "SchemaNode", "Union", "Record", "PerTypeLookup", "NodeRef"]:
        if need not in items:
            probs.append(f"C10 source scan: type {need} not found (anchor moved?)")
    for name, body in items.items():
        body_nc = re.sub(r"//[^\n]*", "", body)
        m = INTERIOR.search(body_nc)
        if m:
            probs.append(f"C10 source scan: interior mutability ({m.group(1)}) inside frozen schema type {name}: "
                         "C10_threads_commute no longer applies")
    rdr = rust_items(rd("object_container_file_encoding/reader/mod.rs"), {"Reader"}).get("Reader")
    if rdr is None:
        probs.append("C10 source scan: struct Reader not found")
    else:
        fields = re.findall(r"^\s*(?:pub(?:\([a-z:]+\))?\s+)?([a-z_]+)\s*:", re.sub(r"//[^\n]*", "", rdr), re.M)
        info["reader_fields"] = fields
        if "reader_state" not in fields or "schema" not in fields or fields.index("reader_state") > fields.index("schema"):
            probs.append("C10 source scan: Reader must declare reader_state before schema (drop order); "
                         "the model's dropReader order (C10_no_use_after_free) no longer matches, cf. C10_wrong_order_is_unsafe")
    return info, probs, []


def c10_miri(tier, seed):
    """thorough tier: the api histories under Miri (default features: the C codecs are FFI)."""
    if tier != "thorough":
        return {"skipped": "quick tier"}, [], []
    d = os.path.join(ROOT, "miri_harness")
    if not os.path.exists(os.path.join(d, "Cargo.lock")):
        subprocess.run(["cp", "/repo/Cargo.lock", os.path.join(d, "Cargo.lock")])
    n = int(os.environ.get("VERIF_MIRI_HISTORIES", "24"))
    try:
        p = subprocess.run(["cargo", "+nightly", "miri", "run", "--offline", "--", "run-gen", str(seed), str(n)],
                           cwd=d, stdout=subprocess.PIPE, stderr=subprocess.PIPE, env=ENV, timeout=3600)
    except subprocess.TimeoutExpired:
        return {"timeout": True}, ["Miri run timed out"], []
    lines = [l for l in p.stdout.decode(errors="replace").split("\n") if " => " in l]
    info = {"histories_completed": len(lines), "requested": n, "exit": p.returncode}
    viol = []
    if p.returncode != 0:
        err = p.stderr.decode(errors="replace")
        m = re.search(r"error: (Undefined Behavior[^\n]*|[^\n]*)", err)
        # the history that was running when Miri stopped is the next one
        rcg = subprocess.run([os.path.join(d, "target", "debug", "miri_harness"), "gen", str(seed), str(n)],
                             stdout=subprocess.PIPE, env=ENV)
        cases = [l for l in rcg.stdout.decode().split("\n") if l]
        culprit = cases[len(lines)] if len(lines) < len(cases) else "(unknown)"
        viol.append({"stream": "miri", "kind": "oracle", "detail": "Miri: " + (m.group(1) if m else "error"),
                     "case": culprit, "rust": "abort", "model": ""})
    return info, [], viol


EXTRA_STEPS = {"c10_source_scan": c10_source_scan, "c10_miri": c10_miri}


def main():
    ap = argparse.ArgumentParser()
    ap.add_argument("prop")
    ap.add_argument("--tier", default=os.environ.get("VERIF_TIER", "quick"))
    ap.add_argument("--replay")
    args = ap.parse_args()
    prop = args.prop
    tier = args.tier if args.tier in ("quick", "thorough") else "quick"
    seed = int(os.environ.get("VERIF_SEED", "1"))
    t0 = time.time()
    cfg_all = load_config()
    if prop not in cfg_all:
        print(f"unknown property {prop}")
        sys.exit(2)
    cfg = cfg_all[prop]
    os.makedirs(WORK, exist_ok=True)
    os.makedirs(os.path.join(ROOT, "evidence"), exist_ok=True)
    os.makedirs(os.path.join(ROOT, "replays"), exist_ok=True)
    # a replay file left by an earlier run of this check does not describe this run
    for fn in os.listdir(os.path.join(ROOT, "replays")):
        if fn.startswith(f"{prop}_{tier}_") and not args.replay:
            os.remove(os.path.join(ROOT, "replays", fn))
    log = []
    shapes = {}          # stream -> protocol word -> number of cases it occurs in
    violations = []      # dicts: kind, detail, case...
    unchecked = []       # theorems / streams that no longer check

    with Lock():
        ok = build_harness(log)
        if not ok:
            # the tree does not build with hooks on: nothing can be shown
            unchecked.append("harness build (cargo) failed")
        else:
            regenerate(log)
        module = cfg["module"]
        # further theorem modules that cannot be imported next to `module` (two lemma files declare
        # the same names): {module: [theorems]}, built and audited on their own
        extra_modules = cfg.get("extra_modules", {})
        lake_ok, lake_out = lake_build([module] + list(extra_modules) + ["avro_driver"])
        if not lake_ok:
            # try to at least get the driver for the search
            unchecked.append(f"lake build {module} failed")
            lake_build(["avro_driver"])
            log.append(("lake", lake_out[-3000:]))
        theorems = cfg["theorems"] + [t for ts in extra_modules.values() for t in ts]
        ax, problems = ({}, [])
        if lake_ok:
            ax, problems = audit(prop, cfg["theorems"], module)
            for k, (m2, ts) in enumerate(sorted(extra_modules.items())):
                ax2, problems2 = audit(f"{prop}_x{k}", ts, m2)
                ax.update(ax2)
                problems += problems2
            for p in problems:
                unchecked.append(p)
        forb = grep_forbidden()
        for h in forb:
            unchecked.append("forbidden construct: " + h)
        if tier == "thorough" and lake_ok:
            for m2 in [module] + sorted(extra_modules):
                rc, out = sh(["lake", "env", "leanchecker", m2], cwd=LEAN)
                if rc != 0:
                    unchecked.append("leanchecker rejected " + m2 + ": " + out.decode(errors="replace")[-300:])

    discharged = sum(1 for t in theorems if ax.get(t) is not None and all(a in ALLOWED_AXIOMS for a in ax[t])) if lake_ok else 0

    # ---- property-specific extra steps ----
    extra_info = {}
    for name in cfg.get("extra", []):
        fn = EXTRA_STEPS[name]
        info, probs, viol = fn(tier, seed)
        extra_info[name] = info
        unchecked.extend(probs)
        violations.extend(viol)

    # ---- correspondence + oracle ----
    known = load_known()
    evaluations = 0
    distinct = set()
    samples = []
    dist = {}
    known_hits = {}
    stream_stats = {}
    driver_timeouts = {}
    if os.path.exists(HARNESS_BIN) and os.path.exists(DRIVER):
        streams = cfg["streams"]
        if args.replay:
            rp = json.load(open(args.replay))
            streams = [{"name": "replay", "cases": rp.get("cases", [])}]
            if any(c.startswith(("derive ", "gen-derive ")) for c in rp.get("cases", [])):
                # the type families are regenerated (same seed) and recompiled against /repo
                seed = rp.get("seed", seed)
                streams = [s for s in cfg["streams"] if s["name"] == "derive"]
        for st in streams:
            name = st["name"]
            rust = None
            if "cases" in st:
                cases = st["cases"]
            elif name == "derive":
                cases, rust, err = run_derive(seed, st[tier])
                if err:
                    violations.append({"stream": name, "kind": "oracle", "detail": err, "case": f"gen-derive {seed} {st[tier]}",
                                       "rust": "build-failed", "model": ""})
                    continue
            else:
                n = st[tier]
                try:
                    cases = corpus_cases(name) + gen_cases(name, seed, n)
                except RuntimeError as e:
                    # generators use the crate too (to write the files they then damage, to pick
                    # conforming values): if that fails the stream cannot be produced and nothing is
                    # shown for it - reported, not skipped
                    unchecked.append(f"stream {name}: " + str(e)[:400])
                    cases = corpus_cases(name)
            if not cases:
                continue
            if rust is None:
                rust = in_parallel(run_harness, cases)
            model = in_parallel(run_driver, cases)
            nd = 0
            for c, r, m in zip(cases, rust, model):
                evaluations += 1
                mo, verdict = split_out(m)
                if mo == "rust-judged":
                    # streams the model cannot express (compressed codecs on damaged files): the
                    # harness judged the implementation's outcome directly against the property
                    r, verdict = split_out(r)
                    mo = r
                tag = (r.split(" ", 1)[0], verdict.split(" ", 1)[0] if verdict else "")
                dist[f"{name}:{tag[0]}"] = dist.get(f"{name}:{tag[0]}", 0) + 1
                # what the inputs are made of: protocol words (node kinds, presentations, back-ends,
                # operations ...) by number of cases they occur in, and case sizes
                th = shapes.setdefault(name, {})
                for w_ in set(t_ for t_ in c.split() if t_[:1].isalpha() and len(t_) <= 18 and not (t_[0] == "x" and HEXTOK.match(t_))):
                    th[w_] = th.get(w_, 0) + 1
                sz = "size<64" if len(c) < 64 else "size<256" if len(c) < 256 else "size<1k" if len(c) < 1024 else "size<8k" if len(c) < 8192 else "size>=8k"
                th[sz] = th.get(sz, 0) + 1
                if not r.startswith(("bad-case", "skip")) and len(c) > 12:
                    distinct.add(hashlib.sha1(c.encode()).digest()[:8])
                if len(samples) < 6 and evaluations % 97 == 1:
                    samples.append({"stream": name, "case": c[:600], "rust": r[:200], "model": m[:300]})
                if r.startswith("skip") or mo.startswith("skip"):
                    continue
                if mo == "driver-timeout":
                    # the model did not answer within twenty minutes on this one input (its running
                    # time is a function of the input alone): the case is not compared, and counted.
                    # (When the code times out as well, both need longer than the case time limit:
                    # the work is what the configured limits allow, not a hang.)
                    driver_timeouts[name] = driver_timeouts.get(name, 0) + 1
                    continue
                problem = None
                if mo.startswith("bad-case") or r.startswith("bad-case") or mo == "driver-died":
                    problem = ("protocol", f"rust={r[:200]} model={m[:200]}")
                elif r != mo:
                    problem = ("disagreement", f"rust={r[:300]} model={mo[:300]}")
                elif verdict.startswith("VIOLATION") and not any(pat in verdict for pat in st.get("other_property_verdicts", [])):
                    # (a stream shared by several properties carries each one's verdicts; those
                    # listed under other_property_verdicts are judged by the other property's check)
                    problem = ("oracle", verdict[:300])
                if problem is None:
                    continue
                k = match_known(known, prop, c, r, mo, verdict)
                if k is not None:
                    known_hits.setdefault(k["id"], {"finding": k, "count": 0, "example": c})["count"] += 1
                    continue
                nd += 1
                if len(violations) < 20:
                    violations.append({"stream": name, "kind": problem[0], "detail": problem[1], "case": c,
                                       "rust": r, "model": m})
            stream_stats[name] = {"cases": len(cases), "problems": nd, "model_timeouts_not_compared": driver_timeouts.get(name, 0)}

    # ---- search for a failing input: a model/code disagreement is not by itself a violation of
    # the property, so the property's oracle (Lean, specification side) is applied to the
    # implementation's own outcome on each disagreeing case ----
    JUDGED = {"ser", "de", "rt", "graph", "schema", "c11", "skip", "ocfw"}
    todo = []
    for v in violations:
        cmd = v["case"].split(" ", 1)[0]
        if v["kind"] == "disagreement" and cmd in JUDGED and not v["rust"].startswith(("panic", "abort")):
            rtoks = v["rust"].split()
            rest = v["case"].split(" ", 1)[1] if " " in v["case"] else ""
            todo.append((v, f"judge-{cmd} {len(rtoks)} {' '.join(rtoks)} {rest}"))
    for v in violations:
        # container writer: what reached the sink (as parsed by the harness's independent parser)
        # against the content the model writes, which the C15/C16/C17 theorems show is the same for
        # every write schedule and fault-free history
        if v["kind"] == "disagreement" and v["case"].startswith("ocfw ") and " ; " in v["rust"] and " ; " in v["model"]:
            rv = v["rust"].split(" ; ", 1)[1]
            mv = split_out(v["model"])[0].split(" ; ", 1)[1]
            rcalls = v["rust"].split(" ; ", 1)[0].split()
            mcalls = split_out(v["model"])[0].split(" ; ", 1)[0].split()
            same_results = [c.split("@")[0] for c in rcalls] == [c.split("@")[0] for c in mcalls]
            if rv != mv and rcalls and (all(c.startswith("ok") for c in rcalls) or (same_results and v["stream"] != "ocfw-sink")):
                v["kind"] = "oracle"
                v["detail"] = ("every call returned what the model returns (Ok, or Err for a value that does not fit) but "
                               "the sink holds other bytes than the content these calls determine (blocks lost, "
                               "duplicated or damaged, or a rejected value left a trace) | " + v["detail"])
    for v in violations:
        if v["kind"] != "disagreement":
            continue
        rt = v["rust"].split()
        if any(t == "panic" or t == "abort" or t.startswith(("panic@", "abort@")) for t in rt):
            v["kind"] = "oracle"
            v["detail"] = "the implementation panicked or aborted | " + v["detail"]
        elif v["case"].startswith("perm ") and v["rust"].count(" | ") == 2:
            # C13: every presentation of the first group gives the bytes of the first, before and
            # after the rejected ones
            a, _b, a2 = [[x.strip() for x in g.split(" ; ")] for g in v["rust"].split(" | ")]
            if a and a[0].startswith("ok") and any(x != a[0] for x in a + a2):
                v["kind"] = "oracle"
                v["detail"] = "record bytes depend on the order / shape in which fields are presented | " + v["detail"]
            elif a and a[0].startswith("ok") and any(x.startswith("ok") for x in _b if x):
                v["kind"] = "oracle"
                v["detail"] = "a presentation with an unknown, repeated or missing field was accepted | " + v["detail"]
        elif v["case"].startswith("single ") and rt[:1] == ["ser"] and len(rt) > 1:
            # C18: marker C3 01 + little-endian CRC-64-AVRO of the canonical form; the model's
            # header passed that oracle (computed with the specification's CRC), so a different
            # header is not the schema's fingerprint
            mt = split_out(v["model"])[0].split()
            if mt[:1] == ["ser"] and len(mt) > 1 and rt[1][:20] != mt[1][:20]:
                v["kind"] = "oracle"
                v["detail"] = ("the 10-byte header is not C3 01 + the CRC-64-AVRO fingerprint of the schema's "
                               "canonical form | " + v["detail"])
            else:
                # the first entry after `ser` reads the message just written, from a slice / from a
                # reader: it must succeed from both and give the same value
                parts = v["rust"].split(" ; ")
                if len(parts) > 1 and " / " in parts[1]:
                    a, b = [x.strip() for x in parts[1].split(" / ", 1)]
                    strip = lambda x: " ".join(t for t in x.split())
                    if a.startswith("err") or b.startswith("err"):
                        v["kind"] = "oracle"
                        v["detail"] = "a message written under the schema is rejected when read back under it | " + v["detail"]
                    elif strip(a).replace(" 1", " 0") != strip(b).replace(" 1", " 0"):
                        v["kind"] = "oracle"
                        v["detail"] = "slice and reader entry points give different values for one message | " + v["detail"]
                if v["kind"] != "oracle":
                    # the later entries read the message under another schema and damaged variants of
                    # it: where the model (oracle passed) refuses from both entry points, so must the code
                    mparts = split_out(v["model"])[0].split(" ; ")
                    for k in range(2, min(len(parts), len(mparts))):
                        if " / " not in parts[k] or " / " not in mparts[k]:
                            continue
                        ra, rb2 = [x.strip() for x in parts[k].split(" / ", 1)]
                        ma, mb2 = [x.strip() for x in mparts[k].split(" / ", 1)]
                        if ma.startswith("err") and mb2.startswith("err") and (ra.startswith("ok") or rb2.startswith("ok")):
                            v["kind"] = "oracle"
                            v["detail"] = ("a message with a damaged header, or written under a schema with another canonical "
                                           "form, was decoded | " + v["detail"])
                            break
                        if ra.startswith("ok") != rb2.startswith("ok"):
                            v["kind"] = "oracle"
                            v["detail"] = "slice and reader entry points disagree on whether a message is accepted | " + v["detail"]
                            break
        elif "READER-DIFFERS" in rt:
            v["kind"] = "oracle"
            v["detail"] = "the bytes just written decode to another value (or fail) through the reader entry point than from the slice | " + v["detail"]
        elif rt[:1] == ["GENERATOR-WRITE-FAILED"]:
            v["kind"] = "oracle"
            v["detail"] = "the container writer returned an error on conforming values | " + v["detail"]
        elif rt[:1] == ["timeout"]:
            v["kind"] = "oracle"
            v["detail"] = "the call did not return within its time limit (work not bounded by the size of the input) | " + v["detail"]
        elif v["case"].startswith("dealloc ") and rt[:1] == ["ok"] and any(t.startswith("allocs=") and t != "allocs=0" for t in rt):
            v["kind"] = "oracle"
            v["detail"] = "the slice path made heap allocations of its own on a successful decode | " + v["detail"]
        elif "FRESH-DIFFERS" in rt or "INTERFERENCE-UNEXPECTED" in rt:
            v["kind"] = "oracle"
            v["detail"] = ("a configuration used before (incl. lent to a container-writer build that failed) gives another "
                           "result than a fresh one for the same value | " + v["detail"])
        elif "THREADS-DIFFER" in rt:
            v["kind"] = "oracle"
            v["detail"] = ("three threads using one schema concurrently observed something else (a result, the schema's "
                           "rendering or an error text) than sequential use | " + v["detail"])
        elif v["case"].startswith("derive "):
            # C20 on the implementation's own outcome for this family of types
            bad = [t for t in rt if t in ("NONDET", "json-REJECTED", "json-err", "schema-err", "err", "rt-NE", "rt-err")]
            if bad:
                v["kind"] = "oracle"
                v["detail"] = ("derived schema / round trip of the generated types: " + " ".join(sorted(set(bad))) + " | " + v["detail"])
        elif v["case"].startswith("ocfr cap "):
            # C04 on the implementation's own outcome: a reader whose source never hands out more
            # than `cap` bytes at a time cannot have had a longer field buffered, so every field
            # longer than the caller's allocation cap must have been refused by it
            ct = v["case"].split()
            backs = []
            try:
                j = ct.index("reader")
                while j < len(ct) and ct[j] == "reader":
                    last, n = int(ct[j + 1]), int(ct[j + 2])
                    sched = [int(x) for x in ct[j + 3:j + 3 + n]]
                    backs.append((max([last] + sched), int(ct[j + 3 + n])))
                    j += 4 + n
            except (ValueError, IndexError):
                backs = []
            for (maxchunk, cap), r in zip(backs, v["rust"].split(" ; ")):
                t = r.split()
                if maxchunk > cap or t[:1] == ["init-err"]:
                    continue
                big = [x for k, x in enumerate(t[1:], 1) if t[k - 1] in ("str", "bytes") and x.startswith("x") and (len(x) - 1) // 2 > cap]
                if big:
                    v["kind"] = "oracle"
                    v["detail"] = (f"a field of {(len(big[0]) - 1) // 2} bytes was accepted from a reader whose allocation cap is {cap} "
                                   f"and whose source never buffers more than {maxchunk} bytes | " + v["detail"])
                    break
        elif v["case"].startswith("ocfr ") and " ; " in v["rust"]:
            # C17 on the implementation's outcome, per back-end: the yields end with end of stream;
            # an I/O error is followed by nothing but end of stream; where the model (whose outcome
            # passed the oracle) reports a framing error once and then end of stream, so must the code
            rb = v["rust"].split(" ; ")
            mb = split_out(v["model"])[0].split(" ; ")
            why = None
            for i, r in enumerate(rb):
                t = r.split()
                if t[:1] == ["init-err"]:
                    continue
                if t[-1:] != ["eof"]:
                    why = "the reader does not reach end of stream"
                elif "io" in t and any(x != "eof" for x in t[t.index("io") + 1:]):
                    why = "an I/O error was not followed by end of stream"
                elif i < len(mb):
                    m = mb[i].split()
                    if m.count("e") == 1 and m[-2:] == ["eof", "eof"] and m[m.index("e") + 2:] == ["eof", "eof"] and t.count("e") > 1:
                        why = "a framing error is reported more than once (the reader carries on after it)"
                if why:
                    break
            if why is None and v["case"].startswith("ocfr valid ") and split_out(v["model"])[1].startswith("ok"):
                # a well-formed file: the model's outcome passed the oracle "the values read back are
                # the values written", so a back-end whose yields differ from it (other than in the
                # `borrowed` flags) does not read the file back as written
                def strip_flags(x):
                    t = x.split()
                    for k in range(2, len(t)):
                        if t[k - 2] in ("str", "bytes") and t[k - 1].startswith("x") and t[k] in ("0", "1"):
                            t[k] = "0"
                    return " ".join(t)
                for i, r in enumerate(rb):
                    if i < len(mb) and not r.startswith("init-err") and strip_flags(r) != strip_flags(mb[i]):
                        why = f"a well-formed container file is not read back as written (back-end {i})"
                        break
            if why:
                v["kind"] = "oracle"
                v["detail"] = why + " | " + v["detail"]
        elif v["case"].startswith("ocfw ") and rt[:1] == ["build-err"] and split_out(v["model"])[0].split()[:1] != ["build-err"]:
            v["kind"] = "oracle"
            v["detail"] = "the container writer could not be started on a valid schema and metadata | " + v["detail"]
        elif v.get("stream") in ("de-valid", "de-canon") and rt[:1] == ["err"] and split_out(v["model"])[0].startswith("ok ") \
                and not split_out(v["model"])[1].startswith("VIOLATION"):
            v["kind"] = "oracle"
            v["detail"] = "a valid encoding, which the target's entry points accept (model outcome Ok, oracle passed), was rejected | " + v["detail"]
        elif v["case"].startswith("reuse "):
            # C14: after every call, successful or not, every pooled buffer is empty
            for i, t in enumerate(rt):
                if t == "pool" and i + 1 < len(rt) and any(x not in ("", "0") for x in rt[i + 1].split(",")):
                    v["kind"] = "oracle"
                    v["detail"] = "a call left a non-empty buffer in the configuration's pool | " + v["detail"]
                    break
    if todo and os.path.exists(DRIVER):
        outs = run_driver([l for _, l in todo])
        for (v, _), o in zip(todo, outs):
            _, verdict = split_out(o)
            v["judged"] = o[:300]
            if verdict.startswith("VIOLATION"):
                v["kind"] = "oracle"
                v["detail"] = "the property's oracle on the implementation's outcome: " + verdict[:300] + " | " + v["detail"]

    # ---- verdict ----
    for kid, h in known_hits.items():
        print(f"KNOWN-FINDING: property={prop} {kid}: {h['finding']['what']} (seen {h['count']}x)")
    rc = 0
    replay_path = None
    if violations or unchecked:
        rc = 1
        replay_path = os.path.join(ROOT, "replays", f"{prop}_{tier}_{seed}.json")
        concrete = [v for v in violations if v["kind"] in ("oracle", "disagreement", "protocol")]
        # a concrete failing input of the *property* is an oracle violation or an abort/panic
        failing = [v for v in violations if v["kind"] == "oracle" or v["rust"].startswith(("abort", "panic"))]
        with open(replay_path, "w") as f:
            json.dump({"property": prop, "tier": tier, "seed": seed,
                       "unchecked": unchecked,
                       "cases": [v["case"] for v in (failing or concrete)][:10],
                       "violations": violations[:10]}, f, indent=1)
        suffix = "" if failing else " no-failing-input-found"
        print(f"VIOLATION property={prop} replay={replay_path}{suffix}")
        for u in unchecked[:5]:
            print("  unchecked:", u)
        for v in violations[:3]:
            print("  ", v["kind"], v["stream"], v["detail"][:300])
            print("    case:", v["case"][:300])

    evidence = {
        "property_id": prop,
        "tier": tier,
        "seed": seed,
        "level": "proof",
        "coverage": {
            "obligations": len(theorems),
            "discharged": discharged,
            "checker_cmd": f"cd lean && lake build {cfg['module']} && lake env lean work/Audit_{prop}.lean  (#print axioms)",
            "trusted_base": TRUSTED_BASE + cfg.get("trusted_extra", []),
            "theorems": {t: ax.get(t) for t in theorems},
            "partial": cfg.get("partial", []),
            "evaluations": evaluations,
            "distinct_nontrivial": len(distinct),
            "rule": cfg.get("rule", "cases generated type-directed from one seeded PRNG; distinct = distinct case lines; "
                                    "non-trivial = executed by both the Rust crate and the Lean model (not skipped / not a protocol error)"),
            "samples": samples,
            "distribution": dist,
            "input_shapes": {k: dict(sorted(v.items(), key=lambda kv: -kv[1])[:60]) for k, v in shapes.items()},
            "streams": stream_stats,
            "known_findings_seen": {k: v["count"] for k, v in known_hits.items()},
            "extra_steps": extra_info,
            "unchecked": unchecked,
        },
        "assumptions": cfg.get("assumptions", []),
        "wall_s": round(time.time() - t0, 2),
        "violations": len(violations) + len(unchecked),
    }
    with open(os.path.join(ROOT, "evidence", f"{prop}.json"), "w") as f:
        json.dump(evidence, f, indent=1)
    sys.exit(rc)


if __name__ == "__main__":
    main()
