#!/bin/sh
# Build the framework from files on disk only (offline).
set -e
cd "$(dirname "$0")"
export CARGO_NET_OFFLINE=true
[ -f harness/Cargo.lock ] || cp /repo/Cargo.lock harness/Cargo.lock
(cd harness && cargo build --offline --quiet)
mkdir -p work evidence replays
harness/target/debug/harness dump-constants | python3 gen_constants.py
(cd lean && lake build AvroModel avro_driver)
