#!/usr/bin/env python3
"""Regenerates the per-property table of DESIGN.md section 11.7 from properties_config.json."""
import json, re
c = json.load(open('/verif/properties_config.json'))
rows = ["| property | theorem module | theorems | streams (quick / thorough cases; E = exhaustive table) | proved part stated as partial? |", "|---|---|---|---|---|"]
for k in sorted(c):
    v = c[k]
    st = ", ".join(f"{s['name']} ({'E' if s.get('exhaustive') else str(s.get('quick'))+' / '+str(s.get('thorough'))})" for s in v['streams'])
    extra = ("; + " + ", ".join(v['extra'])) if v.get('extra') else ""
    rows.append(f"| {k} | `{v['module'].split('.')[-1]}` | {len(v['theorems'])} | {st}{extra} | {'yes, ' + str(len(v.get('partial', []))) + ' note(s) in evidence `coverage.partial`' if v.get('partial') else 'no'} |")
table = "\n".join(rows)
p = '/verif/DESIGN.md'
s = open(p).read()
begin, end = "<!-- BEGIN property table -->", "<!-- END property table -->"
block = f"{begin}\n{table}\n{end}"
if begin in s:
    s = re.sub(re.escape(begin) + r".*?" + re.escape(end), lambda m: block, s, flags=re.S)
else:
    s += f"\n### 11.7 Per-property summary (generated from properties_config.json by mkdesign_table.py)\n\n{block}\n"
open(p, 'w').write(s)
print(table)
