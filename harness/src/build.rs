//! RawSchema → the crate's `SchemaMut` through the public builder API.
use crate::proto::*;
use serde_avro_fast::schema::{self as s, SchemaKey, SchemaMut, SchemaNode};

pub fn to_schema_mut(raw: &RawSchema) -> SchemaMut {
	let k = SchemaKey::from_idx;
	let nodes = raw
		.iter()
		.map(|n| {
			let reg = match &n.reg {
				Reg::Null => s::RegularType::Null,
				Reg::Boolean => s::RegularType::Boolean,
				Reg::Int => s::RegularType::Int,
				Reg::Long => s::RegularType::Long,
				Reg::Float => s::RegularType::Float,
				Reg::Double => s::RegularType::Double,
				Reg::Bytes => s::RegularType::Bytes,
				Reg::String => s::RegularType::String,
				Reg::Array(i) => s::RegularType::Array(s::Array::new(k(*i))),
				Reg::Map(i) => s::RegularType::Map(s::Map::new(k(*i))),
				Reg::Union(vs) => s::RegularType::Union(s::Union::new(vs.iter().map(|v| k(*v)).collect())),
				Reg::Record(name, fields) => s::RegularType::Record(s::Record::new(
					s::Name::from_fully_qualified_name(name.clone()),
					fields.iter().map(|(f, i)| s::RecordField::new(f.clone(), k(*i))).collect(),
				)),
				Reg::Enum(name, syms) => s::RegularType::Enum(s::Enum::new(
					s::Name::from_fully_qualified_name(name.clone()),
					syms.clone(),
				)),
				Reg::Fixed(name, size) => s::RegularType::Fixed(s::Fixed::new(
					s::Name::from_fully_qualified_name(name.clone()),
					*size,
				)),
			};
			match &n.logical {
				None => SchemaNode::new(reg),
				Some(l) => SchemaNode::with_logical_type(
					reg,
					match l {
						Logical::Decimal(sc, p) => s::LogicalType::Decimal(s::Decimal::new(*sc, *p)),
						Logical::Uuid => s::LogicalType::Uuid,
						Logical::Date => s::LogicalType::Date,
						Logical::TimeMillis => s::LogicalType::TimeMillis,
						Logical::TimeMicros => s::LogicalType::TimeMicros,
						Logical::TimestampMillis => s::LogicalType::TimestampMillis,
						Logical::TimestampMicros => s::LogicalType::TimestampMicros,
						Logical::Duration => s::LogicalType::Duration,
						Logical::BigDecimal => s::LogicalType::BigDecimal,
						Logical::Unknown(n) => s::LogicalType::Unknown(s::UnknownLogicalType::new(n.clone())),
					},
				),
			}
		})
		.collect();
	SchemaMut::from_nodes(nodes)
}

/// The same graph, obtained by editing (through `nodes_mut`) a schema parsed from another
/// document - what such a schema reports afterwards (its JSON, hence a container header) must
/// describe the edited graph, not the document it once came from.
pub fn to_schema_mut_edited(raw: &RawSchema) -> SchemaMut {
	let mut parsed: SchemaMut = "\"null\"".parse().expect("the document \"null\" parses");
	// everything the schema can be asked before the edit is asked (fingerprint, JSON, a clone, a
	// frozen copy): whatever such a call may cache must not outlive the edit
	let _ = parsed.canonical_form_rabin_fingerprint();
	let _ = serde_json::to_string(&parsed);
	let _ = parsed.clone().freeze();
	let mut built = to_schema_mut(raw);
	std::mem::swap(parsed.nodes_mut(), built.nodes_mut());
	parsed
}

/// `to_schema_mut`, or `to_schema_mut_edited` for one case in three (`sel` = length of the case line)
pub fn to_schema_mut_sel(raw: &RawSchema, sel: usize) -> SchemaMut {
	if sel % 3 == 1 {
		to_schema_mut_edited(raw)
	} else {
		to_schema_mut(raw)
	}
}
