//! Line protocol shared with the Lean driver (DESIGN.md 4.1/4.2): prefix notation, explicit
//! counts, hex strings with an `x` prefix.
use std::fmt::Write as _;

#[derive(Clone, Copy, Debug, PartialEq, Eq, Hash)]
pub enum IntTy {
	I8,
	I16,
	I32,
	I64,
	I128,
	U8,
	U16,
	U32,
	U64,
	U128,
}
impl IntTy {
	pub const ALL: [IntTy; 10] = [
		IntTy::I8,
		IntTy::I16,
		IntTy::I32,
		IntTy::I64,
		IntTy::I128,
		IntTy::U8,
		IntTy::U16,
		IntTy::U32,
		IntTy::U64,
		IntTy::U128,
	];
	pub fn tag(self) -> &'static str {
		match self {
			IntTy::I8 => "i8",
			IntTy::I16 => "i16",
			IntTy::I32 => "i32",
			IntTy::I64 => "i64",
			IntTy::I128 => "i128",
			IntTy::U8 => "u8",
			IntTy::U16 => "u16",
			IntTy::U32 => "u32",
			IntTy::U64 => "u64",
			IntTy::U128 => "u128",
		}
	}
	pub fn from_tag(t: &str) -> Option<IntTy> {
		IntTy::ALL.iter().copied().find(|x| x.tag() == t)
	}
	/// inclusive range as (min, max) in i128 / u128 split: returns (min as i128, max as u128)
	pub fn range(self) -> (i128, u128) {
		match self {
			IntTy::I8 => (i8::MIN as i128, i8::MAX as u128),
			IntTy::I16 => (i16::MIN as i128, i16::MAX as u128),
			IntTy::I32 => (i32::MIN as i128, i32::MAX as u128),
			IntTy::I64 => (i64::MIN as i128, i64::MAX as u128),
			IntTy::I128 => (i128::MIN, i128::MAX as u128),
			IntTy::U8 => (0, u8::MAX as u128),
			IntTy::U16 => (0, u16::MAX as u128),
			IntTy::U32 => (0, u32::MAX as u128),
			IntTy::U64 => (0, u64::MAX as u128),
			IntTy::U128 => (0, u128::MAX),
		}
	}
}

/// An integer that covers both i128 and u128
#[derive(Clone, Copy, Debug, PartialEq, Eq, Hash)]
pub enum BigI {
	Neg(i128), // strictly negative
	Pos(u128),
}
impl BigI {
	pub fn from_i128(v: i128) -> Self {
		if v < 0 {
			BigI::Neg(v)
		} else {
			BigI::Pos(v as u128)
		}
	}
	pub fn fits(self, t: IntTy) -> bool {
		let (lo, hi) = t.range();
		match self {
			BigI::Neg(v) => v >= lo,
			BigI::Pos(v) => v <= hi,
		}
	}
	pub fn to_string(self) -> String {
		match self {
			BigI::Neg(v) => v.to_string(),
			BigI::Pos(v) => v.to_string(),
		}
	}
	pub fn parse(s: &str) -> Option<Self> {
		if let Some(_) = s.strip_prefix('-') {
			s.parse::<i128>().ok().map(BigI::from_i128)
		} else {
			s.parse::<u128>().ok().map(BigI::Pos)
		}
	}
	pub fn as_i128(self) -> Option<i128> {
		match self {
			BigI::Neg(v) => Some(v),
			BigI::Pos(v) => i128::try_from(v).ok(),
		}
	}
}

#[derive(Clone, Debug, PartialEq)]
pub enum SV {
	Bool(bool),
	Int(IntTy, BigI),
	F32(u32),
	F64(u64),
	Char(char),
	Str(String),
	Bytes(Vec<u8>),
	None,
	Some(Box<SV>),
	Unit,
	UnitStruct(String),
	UnitVariant(String, u32, String),
	NewtypeStruct(String, Box<SV>),
	NewtypeVariant(String, u32, String, Box<SV>),
	Seq(Option<usize>, Vec<SV>),
	Tuple(Vec<SV>),
	TupleStruct(String, Vec<SV>),
	TupleVariant(String, u32, String, Vec<SV>),
	/// the bool: use `serialize_entry` (true) or `serialize_key` + `serialize_value` (false);
	/// not transmitted (the model has one behaviour for both)
	Map(Option<usize>, Vec<(SV, SV)>, bool),
	Struct(String, Vec<(String, SV)>),
	StructVariant(String, u32, String, Vec<(String, SV)>),
}

#[derive(Clone, Debug, PartialEq)]
pub enum Reg {
	Null,
	Boolean,
	Int,
	Long,
	Float,
	Double,
	Bytes,
	String,
	Array(usize),
	Map(usize),
	Union(Vec<usize>),
	Record(String, Vec<(String, usize)>),
	Enum(String, Vec<String>),
	Fixed(String, usize),
}

#[derive(Clone, Debug, PartialEq)]
pub enum Logical {
	Decimal(u32, usize),
	Uuid,
	Date,
	TimeMillis,
	TimeMicros,
	TimestampMillis,
	TimestampMicros,
	Duration,
	BigDecimal,
	Unknown(String),
}

#[derive(Clone, Debug, PartialEq)]
pub struct RawNode {
	pub reg: Reg,
	pub logical: Option<Logical>,
}

pub type RawSchema = Vec<RawNode>;

pub fn hex(bs: &[u8]) -> String {
	let mut s = String::with_capacity(bs.len() * 2);
	for b in bs {
		write!(s, "{:02x}", b).unwrap();
	}
	s
}
pub fn unhex(s: &str) -> Option<Vec<u8>> {
	if s.len() % 2 != 0 {
		return None;
	}
	(0..s.len() / 2)
		.map(|i| u8::from_str_radix(&s[2 * i..2 * i + 2], 16).ok())
		.collect()
}

/// Token writer
#[derive(Default)]
pub struct W {
	pub s: String,
}
impl W {
	pub fn t(&mut self, t: &str) -> &mut Self {
		if !self.s.is_empty() {
			self.s.push(' ');
		}
		self.s.push_str(t);
		self
	}
	pub fn n(&mut self, n: usize) -> &mut Self {
		self.t(&n.to_string())
	}
	pub fn xs(&mut self, s: &str) -> &mut Self {
		self.xb(s.as_bytes())
	}
	pub fn xb(&mut self, b: &[u8]) -> &mut Self {
		self.t(&format!("x{}", hex(b)))
	}
	pub fn optn(&mut self, n: Option<usize>) -> &mut Self {
		match n {
			None => self.t("-"),
			Some(n) => self.n(n),
		}
	}
	pub fn schema(&mut self, s: &RawSchema) -> &mut Self {
		self.n(s.len());
		for node in s {
			match &node.reg {
				Reg::Null => self.t("null"),
				Reg::Boolean => self.t("boolean"),
				Reg::Int => self.t("int"),
				Reg::Long => self.t("long"),
				Reg::Float => self.t("float"),
				Reg::Double => self.t("double"),
				Reg::Bytes => self.t("bytes"),
				Reg::String => self.t("string"),
				Reg::Array(i) => self.t("array").n(*i),
				Reg::Map(i) => self.t("map").n(*i),
				Reg::Union(vs) => {
					self.t("union").n(vs.len());
					for v in vs {
						self.n(*v);
					}
					&mut *self
				}
				Reg::Record(name, fields) => {
					self.t("record").xs(name).n(fields.len());
					for (f, k) in fields {
						self.xs(f).n(*k);
					}
					&mut *self
				}
				Reg::Enum(name, syms) => {
					self.t("enum").xs(name).n(syms.len());
					for s in syms {
						self.xs(s);
					}
					&mut *self
				}
				Reg::Fixed(name, size) => self.t("fixed").xs(name).n(*size),
			};
			match &node.logical {
				None => self.t("-"),
				Some(Logical::Decimal(s, p)) => self.t("decimal").n(*s as usize).n(*p),
				Some(Logical::Uuid) => self.t("uuid"),
				Some(Logical::Date) => self.t("date"),
				Some(Logical::TimeMillis) => self.t("time-millis"),
				Some(Logical::TimeMicros) => self.t("time-micros"),
				Some(Logical::TimestampMillis) => self.t("timestamp-millis"),
				Some(Logical::TimestampMicros) => self.t("timestamp-micros"),
				Some(Logical::Duration) => self.t("duration"),
				Some(Logical::BigDecimal) => self.t("big-decimal"),
				Some(Logical::Unknown(n)) => self.t("unknown").xs(n),
			};
		}
		self
	}
	pub fn sv(&mut self, v: &SV) -> &mut Self {
		match v {
			SV::Bool(b) => self.t("bool").n(*b as usize),
			SV::Int(t, v) => self.t(t.tag()).t(&v.to_string()),
			SV::F32(b) => self.t("f32").t(&format!("{:08x}", b)),
			SV::F64(b) => self.t("f64").t(&format!("{:016x}", b)),
			SV::Char(c) => self.t("char").n(*c as usize),
			SV::Str(s) => self.t("str").xs(s),
			SV::Bytes(b) => self.t("bytes").xb(b),
			SV::None => self.t("none"),
			SV::Some(v) => self.t("some").sv(v),
			SV::Unit => self.t("unit"),
			SV::UnitStruct(n) => self.t("ustruct").xs(n),
			SV::UnitVariant(n, i, v) => self.t("uvar").xs(n).n(*i as usize).xs(v),
			SV::NewtypeStruct(n, v) => self.t("nstruct").xs(n).sv(v),
			SV::NewtypeVariant(n, i, var, v) => self.t("nvar").xs(n).n(*i as usize).xs(var).sv(v),
			SV::Seq(l, es) => {
				self.t("seq").optn(*l).n(es.len());
				for e in es {
					self.sv(e);
				}
				self
			}
			SV::Tuple(es) => {
				self.t("tuple").n(es.len());
				for e in es {
					self.sv(e);
				}
				self
			}
			SV::TupleStruct(n, es) => {
				self.t("tstruct").xs(n).n(es.len());
				for e in es {
					self.sv(e);
				}
				self
			}
			SV::TupleVariant(n, i, var, es) => {
				self.t("tvar").xs(n).n(*i as usize).xs(var).n(es.len());
				for e in es {
					self.sv(e);
				}
				self
			}
			SV::Map(l, es, entry) => {
				// `mapkv`: presented through the split serialize_key / serialize_value calls
				self.t(if *entry { "map" } else { "mapkv" }).optn(*l).n(es.len());
				for (k, v) in es {
					self.sv(k).sv(v);
				}
				self
			}
			SV::Struct(n, fs) => {
				self.t("struct").xs(n).n(fs.len());
				for (k, v) in fs {
					self.xs(k).sv(v);
				}
				self
			}
			SV::StructVariant(n, i, var, fs) => {
				self.t("svar").xs(n).n(*i as usize).xs(var).n(fs.len());
				for (k, v) in fs {
					self.xs(k).sv(v);
				}
				self
			}
		}
	}
}

/// Token reader
pub struct R<'a> {
	toks: std::str::SplitAsciiWhitespace<'a>,
	peeked: Option<&'a str>,
}
pub type PResult<T> = Result<T, String>;
impl<'a> R<'a> {
	pub fn new(line: &'a str) -> Self {
		R {
			toks: line.split_ascii_whitespace(),
			peeked: None,
		}
	}
	pub fn tok(&mut self) -> PResult<&'a str> {
		if let Some(t) = self.peeked.take() {
			return Ok(t);
		}
		self.toks.next().ok_or_else(|| "unexpected end of line".to_string())
	}
	pub fn peek(&mut self) -> Option<&'a str> {
		if self.peeked.is_none() {
			self.peeked = self.toks.next();
		}
		self.peeked
	}
	pub fn n(&mut self) -> PResult<usize> {
		let t = self.tok()?;
		t.parse().map_err(|_| format!("expected nat, got {t}"))
	}
	pub fn optn(&mut self) -> PResult<Option<usize>> {
		let t = self.tok()?;
		if t == "-" {
			Ok(None)
		} else {
			t.parse().map(Some).map_err(|_| format!("expected nat or -, got {t}"))
		}
	}
	pub fn xb(&mut self) -> PResult<Vec<u8>> {
		let t = self.tok()?;
		let h = t.strip_prefix('x').ok_or_else(|| format!("expected x-hex, got {t}"))?;
		unhex(h).ok_or_else(|| format!("bad hex {t}"))
	}
	pub fn xs(&mut self) -> PResult<String> {
		String::from_utf8(self.xb()?).map_err(|_| "string token is not utf-8".to_string())
	}
	pub fn hexnum(&mut self) -> PResult<u64> {
		let t = self.tok()?;
		u64::from_str_radix(t, 16).map_err(|_| format!("expected hex number, got {t}"))
	}
	pub fn list<T>(&mut self, mut f: impl FnMut(&mut Self) -> PResult<T>) -> PResult<Vec<T>> {
		let n = self.n()?;
		(0..n).map(|_| f(self)).collect()
	}
	pub fn schema(&mut self) -> PResult<RawSchema> {
		self.list(|r| {
			let t = r.tok()?;
			let reg = match t {
				"null" => Reg::Null,
				"boolean" => Reg::Boolean,
				"int" => Reg::Int,
				"long" => Reg::Long,
				"float" => Reg::Float,
				"double" => Reg::Double,
				"bytes" => Reg::Bytes,
				"string" => Reg::String,
				"array" => Reg::Array(r.n()?),
				"map" => Reg::Map(r.n()?),
				"union" => Reg::Union(r.list(|r| r.n())?),
				"record" => {
					let name = r.xs()?;
					Reg::Record(name, r.list(|r| Ok((r.xs()?, r.n()?)))?)
				}
				"enum" => {
					let name = r.xs()?;
					Reg::Enum(name, r.list(|r| r.xs())?)
				}
				"fixed" => Reg::Fixed(r.xs()?, r.n()?),
				_ => return Err(format!("unknown regular type {t}")),
			};
			let t = r.tok()?;
			let logical = match t {
				"-" => None,
				"decimal" => Some(Logical::Decimal(r.n()? as u32, r.n()?)),
				"uuid" => Some(Logical::Uuid),
				"date" => Some(Logical::Date),
				"time-millis" => Some(Logical::TimeMillis),
				"time-micros" => Some(Logical::TimeMicros),
				"timestamp-millis" => Some(Logical::TimestampMillis),
				"timestamp-micros" => Some(Logical::TimestampMicros),
				"duration" => Some(Logical::Duration),
				"big-decimal" => Some(Logical::BigDecimal),
				"unknown" => Some(Logical::Unknown(r.xs()?)),
				_ => return Err(format!("unknown logical type {t}")),
			};
			Ok(RawNode { reg, logical })
		})
	}
	pub fn sv(&mut self) -> PResult<SV> {
		let t = self.tok()?;
		if let Some(ty) = IntTy::from_tag(t) {
			let v = self.tok()?;
			return Ok(SV::Int(ty, BigI::parse(v).ok_or_else(|| format!("bad int {v}"))?));
		}
		Ok(match t {
			"bool" => SV::Bool(self.n()? != 0),
			"f32" => SV::F32(self.hexnum()? as u32),
			"f64" => SV::F64(self.hexnum()?),
			"char" => SV::Char(char::from_u32(self.n()? as u32).ok_or("bad char")?),
			"str" => SV::Str(self.xs()?),
			"bytes" => SV::Bytes(self.xb()?),
			"none" => SV::None,
			"some" => SV::Some(Box::new(self.sv()?)),
			"unit" => SV::Unit,
			"ustruct" => SV::UnitStruct(self.xs()?),
			"uvar" => SV::UnitVariant(self.xs()?, self.n()? as u32, self.xs()?),
			"nstruct" => SV::NewtypeStruct(self.xs()?, Box::new(self.sv()?)),
			"nvar" => SV::NewtypeVariant(self.xs()?, self.n()? as u32, self.xs()?, Box::new(self.sv()?)),
			"seq" => SV::Seq(self.optn()?, self.list(|r| r.sv())?),
			"tuple" => SV::Tuple(self.list(|r| r.sv())?),
			"tstruct" => SV::TupleStruct(self.xs()?, self.list(|r| r.sv())?),
			"tvar" => SV::TupleVariant(self.xs()?, self.n()? as u32, self.xs()?, self.list(|r| r.sv())?),
			"map" => SV::Map(self.optn()?, self.list(|r| Ok((r.sv()?, r.sv()?)))?, true),
			"mapkv" => SV::Map(self.optn()?, self.list(|r| Ok((r.sv()?, r.sv()?)))?, false),
			"struct" => SV::Struct(self.xs()?, self.list(|r| Ok((r.xs()?, r.sv()?)))?),
			"svar" => SV::StructVariant(
				self.xs()?,
				self.n()? as u32,
				self.xs()?,
				self.list(|r| Ok((r.xs()?, r.sv()?)))?,
			),
			_ => return Err(format!("unknown serde value tag {t}")),
		})
	}
}

// ---------------------------------------------------------------------------------------------
// Deserializer side: Hint (requests) and Out (visitor calls received)

#[derive(Clone, Debug, PartialEq)]
pub enum Hint {
	Any,
	U64,
	I64,
	U128,
	I128,
	F64,
	Str,
	Bytes,
	Identifier,
	Ignored,
	Option(Box<Hint>),
	Seq(Box<Hint>),
	Tuple(usize, Box<Hint>),
	Map(Box<Hint>, Box<Hint>),
	Struct(Vec<(String, Hint)>),
	Enum(Vec<(String, VariantHint)>),
}
#[derive(Clone, Debug, PartialEq)]
pub enum VariantHint {
	Unit,
	Newtype(Hint),
	Tuple(usize, Hint),
	Struct(Vec<(String, Hint)>),
}

#[derive(Clone, Debug, PartialEq)]
pub enum Out {
	Unit,
	Bool(bool),
	I32(i32),
	I64(i64),
	I128(i128),
	U32(u32),
	U64(u64),
	U128(u128),
	F32(u32),
	F64(u64),
	Str(String, bool),
	Bytes(Vec<u8>, bool),
	None,
	Some(Box<Out>),
	Seq(Vec<Out>),
	Map(Vec<(Out, Out)>),
	Variant(Box<Out>, Box<Out>),
	/// anything the harness visitor does not model (i8, char, …): never produced by this crate
	Other(&'static str),
}

impl W {
	pub fn hint(&mut self, h: &Hint) -> &mut Self {
		match h {
			Hint::Any => self.t("any"),
			Hint::U64 => self.t("u64"),
			Hint::I64 => self.t("i64"),
			Hint::U128 => self.t("u128"),
			Hint::I128 => self.t("i128"),
			Hint::F64 => self.t("f64"),
			Hint::Str => self.t("str"),
			Hint::Bytes => self.t("bytes"),
			Hint::Identifier => self.t("identifier"),
			Hint::Ignored => self.t("ignored"),
			Hint::Option(h) => self.t("option").hint(h),
			Hint::Seq(h) => self.t("seq").hint(h),
			Hint::Tuple(n, h) => self.t("tuple").n(*n).hint(h),
			Hint::Map(k, v) => self.t("map").hint(k).hint(v),
			Hint::Struct(fs) => {
				self.t("struct").n(fs.len());
				for (k, h) in fs {
					self.xs(k).hint(h);
				}
				self
			}
			Hint::Enum(vs) => {
				self.t("enum").n(vs.len());
				for (k, v) in vs {
					self.xs(k);
					match v {
						VariantHint::Unit => self.t("unit"),
						VariantHint::Newtype(h) => self.t("newtype").hint(h),
						VariantHint::Tuple(n, h) => self.t("tuple").n(*n).hint(h),
						VariantHint::Struct(fs) => {
							self.t("struct").n(fs.len());
							for (k, h) in fs {
								self.xs(k).hint(h);
							}
							&mut *self
						}
					};
				}
				self
			}
		}
	}
	pub fn out(&mut self, o: &Out) -> &mut Self {
		match o {
			Out::Unit => self.t("unit"),
			Out::Bool(b) => self.t("bool").n(*b as usize),
			Out::I32(v) => self.t("i32").t(&v.to_string()),
			Out::I64(v) => self.t("i64").t(&v.to_string()),
			Out::I128(v) => self.t("i128").t(&v.to_string()),
			Out::U32(v) => self.t("u32").t(&v.to_string()),
			Out::U64(v) => self.t("u64").t(&v.to_string()),
			Out::U128(v) => self.t("u128").t(&v.to_string()),
			Out::F32(b) => self.t("f32").t(&format!("{:08x}", b)),
			Out::F64(b) => self.t("f64").t(&format!("{:016x}", b)),
			Out::Str(s, b) => self.t("str").xs(s).n(*b as usize),
			Out::Bytes(s, b) => self.t("bytes").xb(s).n(*b as usize),
			Out::None => self.t("none"),
			Out::Some(o) => self.t("some").out(o),
			Out::Seq(os) => {
				self.t("seq").n(os.len());
				for o in os {
					self.out(o);
				}
				self
			}
			Out::Map(es) => {
				self.t("map").n(es.len());
				for (k, v) in es {
					self.out(k).out(v);
				}
				self
			}
			Out::Variant(n, p) => self.t("variant").out(n).out(p),
			Out::Other(what) => self.t("other").t(what),
		}
	}
}

impl<'a> R<'a> {
	pub fn hint(&mut self) -> PResult<Hint> {
		let t = self.tok()?;
		Ok(match t {
			"any" => Hint::Any,
			"u64" => Hint::U64,
			"i64" => Hint::I64,
			"u128" => Hint::U128,
			"i128" => Hint::I128,
			"f64" => Hint::F64,
			"str" => Hint::Str,
			"bytes" => Hint::Bytes,
			"identifier" => Hint::Identifier,
			"ignored" => Hint::Ignored,
			"option" => Hint::Option(Box::new(self.hint()?)),
			"seq" => Hint::Seq(Box::new(self.hint()?)),
			"tuple" => Hint::Tuple(self.n()?, Box::new(self.hint()?)),
			"map" => Hint::Map(Box::new(self.hint()?), Box::new(self.hint()?)),
			"struct" => Hint::Struct(self.list(|r| Ok((r.xs()?, r.hint()?)))?),
			"enum" => Hint::Enum(self.list(|r| {
				let k = r.xs()?;
				let t = r.tok()?;
				let v = match t {
					"unit" => VariantHint::Unit,
					"newtype" => VariantHint::Newtype(r.hint()?),
					"tuple" => VariantHint::Tuple(r.n()?, r.hint()?),
					"struct" => VariantHint::Struct(r.list(|r| Ok((r.xs()?, r.hint()?)))?),
					_ => return Err(format!("unknown variant hint {t}")),
				};
				Ok((k, v))
			})?),
			_ => return Err(format!("unknown hint {t}")),
		})
	}
}
