//! `DeserializeSeed for &Hint`: asks the deserializer what the hint says and records every
//! visitor call it receives as an `Out` tree. The visitor accepts every `visit_*`.
use crate::proto::*;
use serde::de::*;
use std::fmt;

pub struct HS<'h>(pub &'h Hint);

static ANY: Hint = Hint::Any;
static IGNORED: Hint = Hint::Ignored;
static IDENT: Hint = Hint::Identifier;

fn elem(h: &Hint) -> &Hint {
	match h {
		Hint::Seq(e) | Hint::Tuple(_, e) => e,
		Hint::Ignored => &IGNORED,
		_ => &ANY,
	}
}
fn key(h: &Hint) -> &Hint {
	match h {
		Hint::Map(k, _) => k,
		Hint::Struct(_) => &IDENT,
		Hint::Ignored => &IGNORED,
		_ => &ANY,
	}
}
fn val_for<'h>(h: &'h Hint, name: Option<&str>) -> &'h Hint {
	match h {
		Hint::Map(_, v) => v,
		Hint::Struct(fs) => match name {
			Some(n) => fs.iter().find(|(k, _)| k == n).map(|(_, h)| h).unwrap_or(&IGNORED),
			None => &IGNORED,
		},
		Hint::Ignored => &IGNORED,
		_ => &ANY,
	}
}
fn inner(h: &Hint) -> &Hint {
	match h {
		Hint::Option(i) => i,
		Hint::Ignored => &IGNORED,
		_ => &ANY,
	}
}

impl<'de, 'h> DeserializeSeed<'de> for HS<'h> {
	type Value = Out;
	fn deserialize<D: Deserializer<'de>>(self, d: D) -> Result<Out, D::Error> {
		let v = RV(self.0);
		match self.0 {
			Hint::Any => d.deserialize_any(v),
			Hint::U64 => d.deserialize_u64(v),
			Hint::I64 => d.deserialize_i64(v),
			Hint::U128 => d.deserialize_u128(v),
			Hint::I128 => d.deserialize_i128(v),
			Hint::F64 => d.deserialize_f64(v),
			Hint::Str => d.deserialize_str(v),
			Hint::Bytes => d.deserialize_bytes(v),
			Hint::Identifier => d.deserialize_identifier(v),
			Hint::Ignored => IgnoredAny::deserialize(d).map(|_| Out::Unit),
			Hint::Option(_) => d.deserialize_option(v),
			Hint::Seq(_) => d.deserialize_seq(v),
			Hint::Tuple(n, _) => d.deserialize_tuple(*n, v),
			Hint::Map(..) => d.deserialize_map(v),
			Hint::Struct(_) => d.deserialize_struct("S", &[], v),
			Hint::Enum(_) => d.deserialize_enum("E", &[], v),
		}
	}
}

struct RV<'h>(&'h Hint);

impl<'de, 'h> Visitor<'de> for RV<'h> {
	type Value = Out;
	fn expecting(&self, f: &mut fmt::Formatter) -> fmt::Result {
		f.write_str("anything")
	}
	fn visit_bool<E>(self, v: bool) -> Result<Out, E> {
		Ok(Out::Bool(v))
	}
	fn visit_i8<E>(self, _: i8) -> Result<Out, E> {
		Ok(Out::Other("i8"))
	}
	fn visit_i16<E>(self, _: i16) -> Result<Out, E> {
		Ok(Out::Other("i16"))
	}
	fn visit_i32<E>(self, v: i32) -> Result<Out, E> {
		Ok(Out::I32(v))
	}
	fn visit_i64<E>(self, v: i64) -> Result<Out, E> {
		Ok(Out::I64(v))
	}
	fn visit_i128<E>(self, v: i128) -> Result<Out, E> {
		Ok(Out::I128(v))
	}
	fn visit_u8<E>(self, _: u8) -> Result<Out, E> {
		Ok(Out::Other("u8"))
	}
	fn visit_u16<E>(self, _: u16) -> Result<Out, E> {
		Ok(Out::Other("u16"))
	}
	fn visit_u32<E>(self, v: u32) -> Result<Out, E> {
		Ok(Out::U32(v))
	}
	fn visit_u64<E>(self, v: u64) -> Result<Out, E> {
		Ok(Out::U64(v))
	}
	fn visit_u128<E>(self, v: u128) -> Result<Out, E> {
		Ok(Out::U128(v))
	}
	fn visit_f32<E>(self, v: f32) -> Result<Out, E> {
		Ok(Out::F32(v.to_bits()))
	}
	fn visit_f64<E>(self, v: f64) -> Result<Out, E> {
		Ok(Out::F64(v.to_bits()))
	}
	fn visit_char<E>(self, _: char) -> Result<Out, E> {
		Ok(Out::Other("char"))
	}
	fn visit_str<E>(self, v: &str) -> Result<Out, E> {
		Ok(Out::Str(v.to_owned(), false))
	}
	fn visit_borrowed_str<E>(self, v: &'de str) -> Result<Out, E> {
		Ok(Out::Str(v.to_owned(), true))
	}
	fn visit_string<E>(self, v: String) -> Result<Out, E> {
		Ok(Out::Str(v, false))
	}
	fn visit_bytes<E>(self, v: &[u8]) -> Result<Out, E> {
		Ok(Out::Bytes(v.to_owned(), false))
	}
	fn visit_borrowed_bytes<E>(self, v: &'de [u8]) -> Result<Out, E> {
		Ok(Out::Bytes(v.to_owned(), true))
	}
	fn visit_byte_buf<E>(self, v: Vec<u8>) -> Result<Out, E> {
		Ok(Out::Bytes(v, false))
	}
	fn visit_none<E>(self) -> Result<Out, E> {
		Ok(Out::None)
	}
	fn visit_some<D: Deserializer<'de>>(self, d: D) -> Result<Out, D::Error> {
		Ok(Out::Some(Box::new(HS(inner(self.0)).deserialize(d)?)))
	}
	fn visit_unit<E>(self) -> Result<Out, E> {
		Ok(Out::Unit)
	}
	fn visit_newtype_struct<D: Deserializer<'de>>(self, d: D) -> Result<Out, D::Error> {
		HS(inner(self.0)).deserialize(d)
	}
	fn visit_seq<A: SeqAccess<'de>>(self, mut a: A) -> Result<Out, A::Error> {
		let mut items = vec![];
		let max = match self.0 {
			Hint::Tuple(n, _) => Some(*n),
			_ => None,
		};
		loop {
			if max.map_or(false, |m| items.len() >= m) {
				break;
			}
			match a.next_element_seed(HS(elem(self.0)))? {
				Some(o) => items.push(o),
				None => break,
			}
		}
		Ok(Out::Seq(items))
	}
	fn visit_map<A: MapAccess<'de>>(self, mut a: A) -> Result<Out, A::Error> {
		let mut entries = vec![];
		while let Some(k) = a.next_key_seed(HS(key(self.0)))? {
			let name = match &k {
				Out::Str(s, _) => Some(s.clone()),
				_ => None,
			};
			let v = a.next_value_seed(HS(val_for(self.0, name.as_deref())))?;
			entries.push((k, v));
		}
		Ok(Out::Map(entries))
	}
	fn visit_enum<A: EnumAccess<'de>>(self, a: A) -> Result<Out, A::Error> {
		let (ident, variant) = a.variant_seed(HS(&IDENT))?;
		let variants = match self.0 {
			Hint::Enum(vs) => vs,
			_ => return Err(A::Error::custom("harness: visit_enum on a non-enum hint")),
		};
		let sel = match &ident {
			Out::Str(s, _) => variants.iter().find(|(k, _)| k == s).map(|(_, v)| v),
			Out::Bytes(b, _) => std::str::from_utf8(b)
				.ok()
				.and_then(|s| variants.iter().find(|(k, _)| k == s))
				.map(|(_, v)| v),
			Out::U64(i) => variants.get(*i as usize).map(|(_, v)| v),
			_ => None,
		};
		let payload = match sel {
			None => return Err(A::Error::custom("harness: unknown variant")),
			Some(VariantHint::Unit) => {
				variant.unit_variant()?;
				Out::Unit
			}
			Some(VariantHint::Newtype(h)) => variant.newtype_variant_seed(HS(h))?,
			Some(VariantHint::Tuple(n, h)) => {
				let th = Hint::Tuple(*n, Box::new(h.clone()));
				variant.tuple_variant(*n, RV(&th))?
			}
			Some(VariantHint::Struct(fs)) => {
				let sh = Hint::Struct(fs.clone());
				variant.struct_variant(&[], RV(&sh))?
			}
		};
		Ok(Out::Variant(Box::new(ident), Box::new(payload)))
	}
}
