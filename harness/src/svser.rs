//! `impl Serialize for SV`: issues exactly the serializer calls the tree describes.
use crate::proto::*;
use serde::ser::*;
use std::{collections::HashMap, sync::Mutex};

/// serde wants `&'static str` names; leak each distinct name once.
thread_local! {
	/// Field names the schema of the current case knows: a struct presentation that omits one of
	/// them says so through `SerializeStruct::skip_field` (what `#[serde(skip_serializing_if)]`
	/// does), at a position derived from the name - serde's default for it is a no-op, so this
	/// changes nothing unless the serializer under test gives it a meaning
	pub static SKIP_NAMES: std::cell::RefCell<Vec<String>> = const { std::cell::RefCell::new(Vec::new()) };
}
pub fn set_skip_names(schema: &crate::proto::RawSchema) {
	let mut names = vec![];
	for n in schema {
		if let crate::proto::Reg::Record(_, fs) = &n.reg {
			for (f, _) in fs {
				if !names.contains(f) {
					names.push(f.clone());
				}
			}
		}
	}
	SKIP_NAMES.with(|s| *s.borrow_mut() = names);
}
fn skips_for(fs: &[(String, SV)]) -> Vec<(&'static str, usize)> {
	SKIP_NAMES.with(|s| {
		s.borrow()
			.iter()
			.filter(|n| !fs.iter().any(|(k, _)| k == *n))
			.map(|n| (leak(n), n.bytes().map(|b| b as usize).sum::<usize>() % (fs.len() + 1)))
			.collect()
	})
}

pub fn leak(s: &str) -> &'static str {
	static CACHE: Mutex<Option<HashMap<String, &'static str>>> = Mutex::new(None);
	let mut g = CACHE.lock().unwrap();
	let m = g.get_or_insert_with(HashMap::new);
	if let Some(r) = m.get(s) {
		return r;
	}
	let l: &'static str = Box::leak(s.to_owned().into_boxed_str());
	m.insert(s.to_owned(), l);
	l
}

fn ser_int<S: Serializer>(t: IntTy, v: BigI, s: S) -> Result<S::Ok, S::Error> {
	let bad = || S::Error::custom("harness: integer does not fit its declared type");
	if !v.fits(t) {
		return Err(bad());
	}
	match (t, v) {
		(IntTy::I8, v) => s.serialize_i8(v.as_i128().unwrap() as i8),
		(IntTy::I16, v) => s.serialize_i16(v.as_i128().unwrap() as i16),
		(IntTy::I32, v) => s.serialize_i32(v.as_i128().unwrap() as i32),
		(IntTy::I64, v) => s.serialize_i64(v.as_i128().unwrap() as i64),
		(IntTy::I128, v) => s.serialize_i128(v.as_i128().unwrap()),
		(IntTy::U8, BigI::Pos(v)) => s.serialize_u8(v as u8),
		(IntTy::U16, BigI::Pos(v)) => s.serialize_u16(v as u16),
		(IntTy::U32, BigI::Pos(v)) => s.serialize_u32(v as u32),
		(IntTy::U64, BigI::Pos(v)) => s.serialize_u64(v as u64),
		(IntTy::U128, BigI::Pos(v)) => s.serialize_u128(v),
		_ => Err(bad()),
	}
}

impl Serialize for SV {
	fn serialize<S: Serializer>(&self, s: S) -> Result<S::Ok, S::Error> {
		match self {
			SV::Bool(b) => s.serialize_bool(*b),
			SV::Int(t, v) => ser_int(*t, *v, s),
			SV::F32(b) => s.serialize_f32(f32::from_bits(*b)),
			SV::F64(b) => s.serialize_f64(f64::from_bits(*b)),
			SV::Char(c) => s.serialize_char(*c),
			SV::Str(x) => s.serialize_str(x),
			SV::Bytes(b) => s.serialize_bytes(b),
			SV::None => s.serialize_none(),
			SV::Some(v) => s.serialize_some(&**v),
			SV::Unit => s.serialize_unit(),
			SV::UnitStruct(n) => s.serialize_unit_struct(leak(n)),
			SV::UnitVariant(n, i, v) => s.serialize_unit_variant(leak(n), *i, leak(v)),
			SV::NewtypeStruct(n, v) => s.serialize_newtype_struct(leak(n), &**v),
			SV::NewtypeVariant(n, i, var, v) => s.serialize_newtype_variant(leak(n), *i, leak(var), &**v),
			SV::Seq(l, es) => {
				let mut q = s.serialize_seq(*l)?;
				for e in es {
					q.serialize_element(e)?;
				}
				q.end()
			}
			SV::Tuple(es) => {
				let mut q = s.serialize_tuple(es.len())?;
				for e in es {
					q.serialize_element(e)?;
				}
				q.end()
			}
			SV::TupleStruct(n, es) => {
				let mut q = s.serialize_tuple_struct(leak(n), es.len())?;
				for e in es {
					q.serialize_field(e)?;
				}
				q.end()
			}
			SV::TupleVariant(n, i, var, es) => {
				let mut q = s.serialize_tuple_variant(leak(n), *i, leak(var), es.len())?;
				for e in es {
					q.serialize_field(e)?;
				}
				q.end()
			}
			SV::Map(l, es, entry) => {
				let mut q = s.serialize_map(*l)?;
				for (k, v) in es {
					if *entry {
						q.serialize_entry(k, v)?;
					} else {
						q.serialize_key(k)?;
						q.serialize_value(v)?;
					}
				}
				q.end()
			}
			SV::Struct(n, fs) => {
				let mut q = s.serialize_struct(leak(n), fs.len())?;
				let skips = skips_for(fs);
				for (idx, (k, v)) in fs.iter().enumerate() {
					for (sk, at) in &skips {
						if *at == idx {
							q.skip_field(sk)?;
						}
					}
					q.serialize_field(leak(k), v)?;
				}
				for (sk, at) in &skips {
					if *at == fs.len() {
						q.skip_field(sk)?;
					}
				}
				q.end()
			}
			SV::StructVariant(n, i, var, fs) => {
				let mut q = s.serialize_struct_variant(leak(n), *i, leak(var), fs.len())?;
				let skips = skips_for(fs);
				for (idx, (k, v)) in fs.iter().enumerate() {
					for (sk, at) in &skips {
						if *at == idx {
							q.skip_field(sk)?;
						}
					}
					q.serialize_field(leak(k), v)?;
				}
				for (sk, at) in &skips {
					if *at == fs.len() {
						q.skip_field(sk)?;
					}
				}
				q.end()
			}
		}
	}
}
