mod build;
mod gen;
mod hintde;
mod proto;
mod streams;
mod svser;

use std::io::{BufRead, Write};

fn main() {
	let args: Vec<String> = std::env::args().collect();
	let usage = "usage: harness gen <stream> <seed> <n> | run | dump-constants";
	match args.get(1).map(|s| s.as_str()) {
		Some("gen") => {
			let stream = args.get(2).expect(usage);
			let seed: u64 = args.get(3).expect(usage).parse().expect("seed");
			let n: usize = args.get(4).expect(usage).parse().expect("n");
			let out = std::io::stdout();
			let mut out = std::io::BufWriter::new(out.lock());
			streams::generate(stream, seed, n, &mut |line: String| {
				writeln!(out, "{line}").unwrap();
			});
		}
		Some("run") => {
			// silence the default panic message: panics are results here
			std::panic::set_hook(Box::new(|_| {}));
			let stdin = std::io::stdin();
			let out = std::io::stdout();
			let mut out = std::io::BufWriter::new(out.lock());
			for line in stdin.lock().lines() {
				let line = line.unwrap();
				let res = streams::run_line(&line);
				writeln!(out, "{res}").unwrap();
				out.flush().unwrap();
			}
		}
		Some("dump-constants") => streams::dump_constants(),
		_ => {
			eprintln!("{usage}");
			std::process::exit(2);
		}
	}
}
