mod build;
mod gen;
mod hintde;
mod proto;
mod streams;
mod svcap;
mod svser;

use std::io::{BufRead, Write};

fn main() {
	let args: Vec<String> = std::env::args().collect();
	let usage = "usage: harness gen <stream> <seed> <n> | run | dump-constants";
	match args.get(1).map(|s| s.as_str()) {
		Some("gen") => {
			let stream = args.get(2).expect(usage);
			let seed: u64 = args.get(3).expect(usage).parse().expect("seed");
			let n: usize = args.get(4).expect(usage).parse().expect("n");
			let out = std::io::stdout();
			let mut out = std::io::BufWriter::new(out.lock());
			streams::generate(stream, seed, n, &mut |line: String| {
				writeln!(out, "{line}").unwrap();
			});
		}
		Some("run") => {
			// silence the default panic message: panics are results here
			std::panic::set_hook(Box::new(|_| {}));
			let stdin = std::io::stdin();
			let out = std::io::stdout();
			let mut out = std::io::BufWriter::new(out.lock());
			// Each case runs on a worker thread and is given a time limit: code under test that loops
			// forever must show as the outcome `timeout` of ONE case, not hang the whole run. A worker
			// that overruns is abandoned (it cannot be killed) and a fresh one takes over.
			let limit = std::time::Duration::from_secs(
				std::env::var("VERIF_CASE_TIMEOUT_S").ok().and_then(|s| s.parse().ok()).unwrap_or(60),
			);
			let spawn_worker = || {
				let (tx_line, rx_line) = std::sync::mpsc::channel::<String>();
				let (tx_res, rx_res) = std::sync::mpsc::channel::<String>();
				std::thread::Builder::new()
					.stack_size(8 * 1024 * 1024)
					.spawn(move || {
						while let Ok(line) = rx_line.recv() {
							if tx_res.send(streams::run_line(&line)).is_err() {
								break;
							}
						}
					})
					.expect("spawn worker");
				(tx_line, rx_res)
			};
			let (mut tx_line, mut rx_res) = spawn_worker();
			let mut overruns = 0;
			for line in stdin.lock().lines() {
				let line = line.unwrap();
				let res = if overruns >= 8 {
					// too many abandoned workers still spinning: stop starting new work
					"timeout".to_string()
				} else {
					tx_line.send(line).expect("worker alive");
					match rx_res.recv_timeout(limit) {
						Ok(r) => r,
						Err(_) => {
							overruns += 1;
							let fresh = spawn_worker();
							tx_line = fresh.0;
							rx_res = fresh.1;
							"timeout".to_string()
						}
					}
				};
				writeln!(out, "{res}").unwrap();
				out.flush().unwrap();
			}
		}
		Some("dump-constants") => streams::dump_constants(),
		Some("schema-case") => {
			// one `schema` case line per line of stdin: `<ok|err|any> <JSON text of a schema document>`
			// (hand-written documents for the corpus and for replaying findings)
			let stdin = std::io::stdin();
			for line in stdin.lock().lines() {
				let line = line.unwrap();
				let Some((expect, text)) = line.split_once(' ') else { continue };
				let mut w = proto::W::default();
				w.t("schema").t(expect).xs(text);
				let mut jw = proto::W::default();
				if streams::schema::json_tokens(&mut jw, text) {
					w.t(&jw.s).t("-");
					println!("{}", w.s);
				} else {
					eprintln!("not JSON: {text}");
				}
			}
		}
		Some("gen-derive") => {
			let seed: u64 = args.get(2).expect(usage).parse().expect("seed");
			let n: usize = args.get(3).expect(usage).parse().expect("n");
			let path = args.get(4).expect(usage);
			std::fs::write(path, streams::derive::generate_source(seed, n)).expect("write generated source");
		}
		_ => {
			eprintln!("{usage}");
			std::process::exit(2);
		}
	}
}

/// Counting global allocator: lets the `de-alloc` stream observe heap allocations made while
/// a datum is deserialized from a slice (C04: "the slice path performs no heap allocation of its
/// own on success").
pub mod alloc_count {
	use std::alloc::{GlobalAlloc, Layout, System};
	use std::sync::atomic::{AtomicUsize, Ordering};
	pub static ALLOCS: AtomicUsize = AtomicUsize::new(0);
	pub struct Counting;
	unsafe impl GlobalAlloc for Counting {
		unsafe fn alloc(&self, l: Layout) -> *mut u8 {
			ALLOCS.fetch_add(1, Ordering::Relaxed);
			System.alloc(l)
		}
		unsafe fn dealloc(&self, p: *mut u8, l: Layout) {
			System.dealloc(p, l)
		}
		unsafe fn realloc(&self, p: *mut u8, l: Layout, n: usize) -> *mut u8 {
			ALLOCS.fetch_add(1, Ordering::Relaxed);
			System.realloc(p, l, n)
		}
	}
	pub fn count() -> usize {
		ALLOCS.load(Ordering::Relaxed)
	}
}
#[global_allocator]
static GLOBAL: alloc_count::Counting = alloc_count::Counting;
