//! Type-directed generators: schema graphs, then mostly-valid values in a random serde
//! presentation, then mutations. Every random choice derives from one seeded PRNG.
use crate::proto::*;
use rand::{rngs::StdRng, seq::SliceRandom, Rng, SeedableRng};

pub fn rng_from(seed: u64, stream: &str) -> StdRng {
	let mut h: u64 = 0xcbf29ce484222325;
	for b in stream.bytes() {
		h = (h ^ b as u64).wrapping_mul(0x100000001b3);
	}
	StdRng::seed_from_u64(seed ^ h)
}

/// Frozen node kind, as `TryFrom<SchemaMut> for Schema` decides it (used only to steer
/// generation; never to judge results).
#[derive(Clone, Debug, PartialEq)]
pub enum Kind {
	Null,
	Boolean,
	Int,
	Long,
	Float,
	Double,
	Bytes,
	String,
	Array(usize),
	Map(usize),
	Union(Vec<usize>),
	Record(String, Vec<(String, usize)>),
	Enum(String, Vec<String>),
	Fixed(String, usize),
	Decimal(u32, Option<usize>, Option<String>),
	BigDecimal,
	Uuid,
	Date,
	TimeMillis,
	TimeMicros,
	TimestampMillis,
	TimestampMicros,
	Duration,
}

pub fn kind_of(n: &RawNode) -> Kind {
	match (&n.logical, &n.reg) {
		(Some(Logical::Decimal(s, _)), Reg::Bytes) => Kind::Decimal(*s, None, None),
		(Some(Logical::Decimal(s, _)), Reg::Fixed(name, sz)) => Kind::Decimal(*s, Some(*sz), Some(name.clone())),
		(Some(Logical::Uuid), Reg::String) => Kind::Uuid,
		(Some(Logical::Date), Reg::Int) => Kind::Date,
		(Some(Logical::TimeMillis), Reg::Int) => Kind::TimeMillis,
		(Some(Logical::TimeMicros), Reg::Long) => Kind::TimeMicros,
		(Some(Logical::TimestampMillis), Reg::Long) => Kind::TimestampMillis,
		(Some(Logical::TimestampMicros), Reg::Long) => Kind::TimestampMicros,
		(Some(Logical::Duration), Reg::Fixed(_, 12)) => Kind::Duration,
		(Some(Logical::BigDecimal), Reg::Bytes) => Kind::BigDecimal,
		(_, r) => match r {
			Reg::Null => Kind::Null,
			Reg::Boolean => Kind::Boolean,
			Reg::Int => Kind::Int,
			Reg::Long => Kind::Long,
			Reg::Float => Kind::Float,
			Reg::Double => Kind::Double,
			Reg::Bytes => Kind::Bytes,
			Reg::String => Kind::String,
			Reg::Array(i) => Kind::Array(*i),
			Reg::Map(i) => Kind::Map(*i),
			Reg::Union(v) => Kind::Union(v.clone()),
			Reg::Record(n, f) => Kind::Record(n.clone(), f.clone()),
			Reg::Enum(n, s) => Kind::Enum(n.clone(), s.clone()),
			Reg::Fixed(n, s) => Kind::Fixed(n.clone(), *s),
		},
	}
}

/// `Name::from_fully_qualified_name(..).name()` / `.fully_qualified_name()`
pub fn split_name(fq: &str) -> (String, String) {
	match fq.rfind('.') {
		Some(0) => (fq[1..].to_string(), fq[1..].to_string()),
		Some(i) => (fq[i + 1..].to_string(), fq.to_string()),
		None => (fq.to_string(), fq.to_string()),
	}
}

/// The name a union branch of this kind is reachable under (`per_name` / enum variant name)
pub fn branch_name(k: &Kind, rng: &mut StdRng) -> Option<String> {
	let named = |fq: &str, rng: &mut StdRng| {
		let (short, full) = split_name(fq);
		if rng.gen_bool(0.5) {
			short
		} else {
			full
		}
	};
	Some(match k {
		Kind::Null => "Null".into(),
		Kind::Boolean => "Boolean".into(),
		Kind::Int => "Int".into(),
		Kind::Long => "Long".into(),
		Kind::Float => "Float".into(),
		Kind::Double => "Double".into(),
		Kind::Bytes => "Bytes".into(),
		Kind::String => "String".into(),
		Kind::Array(_) => "Array".into(),
		Kind::Map(_) => "Map".into(),
		Kind::Union(_) => "Union".into(),
		Kind::Record(n, _) | Kind::Enum(n, _) | Kind::Fixed(n, _) => named(n, rng),
		Kind::Decimal(_, _, Some(n)) => {
			if rng.gen_bool(0.3) {
				"Decimal".into()
			} else {
				named(n, rng)
			}
		}
		Kind::Decimal(_, _, None) => "Decimal".into(),
		Kind::BigDecimal => "BigDecimal".into(),
		Kind::Uuid => "Uuid".into(),
		Kind::Date => "Date".into(),
		Kind::TimeMillis => "TimeMillis".into(),
		Kind::TimeMicros => "TimeMicros".into(),
		Kind::TimestampMillis => "TimestampMillis".into(),
		Kind::TimestampMicros => "TimestampMicros".into(),
		Kind::Duration => return None,
	})
}

pub struct SchemaGen<'r> {
	pub rng: &'r mut StdRng,
	pub nodes: Vec<RawNode>,
	pub max_nodes: usize,
	next_name: usize,
	/// allow shapes the Avro specification forbids (duplicate kinds in unions, nested unions,
	/// odd logical-type placements)
	pub wild: bool,
	/// names outside the ASCII alphabet now and then (off for the interop stream: the other
	/// implementation refuses - or panics on - them)
	pub odd_names: bool,
	/// include decimal logical types (they need the decimal oracle for str/f64 presentations)
	pub decimals: bool,
	/// keep decimals within the documented limits (fixed size 1..16, scale ≤ 28)
	pub decimal_limits: bool,
}

const NAMESPACES: [&str; 5] = ["", "", "a", "a.b", "c"];

impl<'r> SchemaGen<'r> {
	pub fn new(rng: &'r mut StdRng, max_nodes: usize, wild: bool) -> Self {
		SchemaGen {
			rng,
			nodes: vec![],
			max_nodes,
			next_name: 0,
			wild,
			odd_names: true,
			decimals: true,
			decimal_limits: false,
		}
	}

	fn fresh_name(&mut self) -> String {
		let n = self.next_name;
		self.next_name += 1;
		let ns = *NAMESPACES.choose(self.rng).unwrap();
		let odd = if self.odd_names { odd_name_suffix(self.rng) } else { "" };
		if ns.is_empty() {
			format!("T{n}{odd}")
		} else {
			format!("{ns}.T{n}{odd}")
		}
	}

	fn push(&mut self, reg: Reg, logical: Option<Logical>) -> usize {
		self.nodes.push(RawNode { reg, logical });
		self.nodes.len() - 1
	}

	pub fn gen_root(mut self) -> RawSchema {
		self.gen_type(0, &[], false);
		// sometimes the *last* node of the vector is a union reached from a record field (freeze
		// walks the vector twice; the ends of the vector are where an off-by-one hides)
		if self.rng.gen_bool(0.15) {
			if let Some(r) = (0..self.nodes.len()).find(|&k| matches!(self.nodes[k].reg, Reg::Record(..))) {
				let other = match self.rng.gen_range(0..3) {
					0 => self.push(Reg::Int, None),
					1 => self.push(Reg::String, None),
					_ => self.push(Reg::Boolean, None),
				};
				let null = self.push(Reg::Null, None);
				let branches = if self.rng.gen_bool(0.5) { vec![null, other] } else { vec![other, null] };
				let u = self.push(Reg::Union(branches), None);
				if let Reg::Record(_, fs) = &mut self.nodes[r].reg {
					fs.push(("tail".into(), u));
				}
			}
		}
		self.nodes
	}

	fn leaf(&mut self) -> usize {
		let c = self.rng.gen_range(0..22);
		match c {
			0 => self.push(Reg::Null, None),
			1 => self.push(Reg::Boolean, None),
			2 => self.push(Reg::Int, None),
			3 => self.push(Reg::Long, None),
			4 => self.push(Reg::Float, None),
			5 => self.push(Reg::Double, None),
			6 => self.push(Reg::Bytes, None),
			7 => self.push(Reg::String, None),
			8 => {
				let name = self.fresh_name();
				// (an enum without symbols is legal in a schema, though no value inhabits it)
				let n = if self.wild && self.rng.gen_bool(0.15) { 0 } else { self.rng.gen_range(1..4) };
				let mut syms: Vec<String> = (0..n).map(|i| format!("S{i}")).collect();
				if self.wild && self.rng.gen_bool(0.1) {
					syms.push("S0".into());
				}
				if self.rng.gen_bool(0.2) {
					syms.push("Null".into());
				}
				self.push(Reg::Enum(name, syms), None)
			}
			9 => {
				let name = self.fresh_name();
				let size = if self.rng.gen_bool(0.2) {
					*[9usize, 10, 11, 99, 100, 101, 105, 110, 1000, 1024].choose(self.rng).unwrap()
				} else {
					*[0usize, 1, 2, 3, 4, 8, 12, 16, 17].choose(self.rng).unwrap()
				};
				self.push(Reg::Fixed(name, size), None)
			}
			10 if self.decimals => {
				let scale = if self.decimal_limits { *[0u32, 0, 1, 2, 5, 10, 28].choose(self.rng).unwrap() } else { *[0u32, 0, 1, 2, 5, 10, 28, 38, 39].choose(self.rng).unwrap() };
				self.push(Reg::Bytes, Some(Logical::Decimal(scale, 20)))
			}
			11 if self.decimals => {
				let name = self.fresh_name();
				let scale = *[0u32, 0, 1, 2, 5].choose(self.rng).unwrap();
				let size = if self.decimal_limits { *[1usize, 2, 3, 4, 8, 15, 16].choose(self.rng).unwrap() } else { *[0usize, 1, 2, 3, 4, 8, 15, 16, 17, 20].choose(self.rng).unwrap() };
				self.push(Reg::Fixed(name, size), Some(Logical::Decimal(scale, 20)))
			}
			12 => self.push(Reg::String, Some(Logical::Uuid)),
			13 => self.push(Reg::Int, Some(Logical::Date)),
			14 => self.push(Reg::Int, Some(Logical::TimeMillis)),
			15 => self.push(Reg::Long, Some(Logical::TimeMicros)),
			16 => self.push(Reg::Long, Some(Logical::TimestampMillis)),
			17 => self.push(Reg::Long, Some(Logical::TimestampMicros)),
			18 => {
				let name = self.fresh_name();
				self.push(Reg::Fixed(name, 12), Some(Logical::Duration))
			}
			19 if self.decimals => self.push(Reg::Bytes, Some(Logical::BigDecimal)),
			20 if self.wild => {
				// logical type on a base it does not apply to: falls back to the base type
				let l = [Logical::Date, Logical::Uuid, Logical::Duration, Logical::Unknown("foo".into())]
					.choose(self.rng)
					.unwrap()
					.clone();
				let r = [Reg::Long, Reg::Bytes, Reg::String, Reg::Double].choose(self.rng).unwrap().clone();
				self.push(r, Some(l))
			}
			_ => self.push(Reg::Int, None),
		}
	}

	/// `recursable`: records that may be referenced from here without creating an unconditional
	/// cycle (we are below an array, a map or a union with null)
	fn gen_type(&mut self, depth: usize, recursable: &[usize], in_union: bool) -> usize {
		if self.nodes.len() + 1 >= self.max_nodes || depth > 4 {
			return self.leaf();
		}
		// reference to an existing named type (sharing / recursion)
		if !recursable.is_empty() && self.rng.gen_bool(0.15) {
			return *recursable.choose(self.rng).unwrap();
		}
		if self.rng.gen_bool(0.1) {
			let named: Vec<usize> = self
				.nodes
				.iter()
				.enumerate()
				.filter(|(_, n)| matches!(n.reg, Reg::Enum(..) | Reg::Fixed(..)))
				.map(|(i, _)| i)
				.collect();
			if let Some(i) = named.choose(self.rng) {
				return *i;
			}
		}
		let c = self.rng.gen_range(0..10);
		match c {
			0 | 1 => {
				let me = self.push(Reg::Null, None);
				let items = self.gen_type(depth + 1, recursable, false);
				self.nodes[me].reg = Reg::Array(items);
				me
			}
			2 => {
				let me = self.push(Reg::Null, None);
				let values = self.gen_type(depth + 1, recursable, false);
				self.nodes[me].reg = Reg::Map(values);
				me
			}
			3 | 4 if !in_union || self.wild => {
				let me = self.push(Reg::Null, None);
				let n = self.rng.gen_range(1..5);
				let with_null = self.rng.gen_bool(0.6);
				let mut vs = vec![];
				if with_null {
					vs.push(self.push(Reg::Null, None));
				}
				for _ in 0..n {
					let rec: &[usize] = if with_null { recursable } else { &[] };
					let b = self.gen_type(depth + 1, rec, true);
					vs.push(b);
				}
				if !self.wild {
					// the specification: at most one branch per unnamed kind, no nested unions
					let mut seen: Vec<String> = vec![];
					vs.retain(|&b| {
						let key = match kind_of(&self.nodes[b]) {
							Kind::Record(n, _) | Kind::Enum(n, _) | Kind::Fixed(n, _) => format!("named:{n}"),
							Kind::Decimal(_, _, Some(n)) => format!("named:{n}"),
							Kind::Union(_) => return false,
							k => {
								// by base type
								let n = &self.nodes[b];
								let _ = k;
								format!("{:?}", std::mem::discriminant(&n.reg))
							}
						};
						if seen.contains(&key) {
							false
						} else {
							seen.push(key);
							true
						}
					});
				}
				vs.shuffle(self.rng);
				self.nodes[me].reg = Reg::Union(vs);
				me
			}
			5 | 6 | 7 => {
				let me = self.push(Reg::Null, None);
				let name = self.fresh_name();
				let n = self.rng.gen_range(0..5);
				let mut rec: Vec<usize> = recursable.to_vec();
				let mut fields = vec![];
				for i in 0..n {
					// a field may refer back to this record only below an array/map/nullable union;
					// `gen_type` re-enables `rec` there
					let f = self.gen_field_type(depth + 1, &rec, me);
					fields.push((format!("f{i}"), f));
				}
				rec.push(me);
				if self.wild && n > 0 && self.rng.gen_bool(0.05) {
					let dup = fields[0].clone();
					fields.push(dup);
				}
				self.nodes[me].reg = Reg::Record(name, fields);
				me
			}
			_ => self.leaf(),
		}
	}

	fn gen_field_type(&mut self, depth: usize, recursable: &[usize], me: usize) -> usize {
		// direct field: cannot recurse to `me` nor to ancestors unconditionally, except through a
		// container; implement by wrapping: array/map/nullable-union of (possibly me)
		if self.rng.gen_bool(0.12) && self.nodes.len() + 3 < self.max_nodes {
			let mut rec = recursable.to_vec();
			rec.push(me);
			let c = self.rng.gen_range(0..3);
			let wrapper = self.push(Reg::Null, None);
			match c {
				0 => {
					let t = *rec.choose(self.rng).unwrap();
					self.nodes[wrapper].reg = Reg::Array(t);
				}
				1 => {
					let t = *rec.choose(self.rng).unwrap();
					self.nodes[wrapper].reg = Reg::Map(t);
				}
				_ => {
					let null = self.push(Reg::Null, None);
					let t = *rec.choose(self.rng).unwrap();
					self.nodes[wrapper].reg = Reg::Union(vec![null, t]);
				}
			}
			return wrapper;
		}
		self.gen_type(depth, &[], false)
	}
}

pub fn gen_schema(rng: &mut StdRng, max_nodes: usize, wild: bool) -> RawSchema {
	SchemaGen::new(rng, max_nodes, wild).gen_root()
}

pub const I_POOL: [i128; 47] = [
	0,
	1,
	-1,
	2,
	-2,
	63,
	64,
	-64,
	-65,
	127,
	128,
	-128,
	-129,
	255,
	256,
	8191,
	8192,
	-8192,
	-8193,
	32767,
	32768,
	-32768,
	65535,
	65536,
	1 << 20,
	-(1 << 20) - 1,
	i32::MAX as i128,
	i32::MIN as i128,
	i32::MAX as i128 + 1,
	i32::MIN as i128 - 1,
	u32::MAX as i128,
	u32::MAX as i128 + 1,
	i64::MAX as i128,
	i64::MIN as i128,
	i64::MAX as i128 + 1,
	i64::MIN as i128 - 1,
	u64::MAX as i128,
	(1i128 << 96) - 1,
	-(1i128 << 96),
	i128::MAX,
	// values a lossy `as` conversion between same-width integer types would wrap to something
	// small (`u64 as i64`, `u32 as i32`)
	u64::MAX as i128 - 6,
	u64::MAX as i128 - (1 << 31),
	(1i128 << 63) + 5,
	u32::MAX as i128 - 6,
	(1i128 << 31) + 5,
	u16::MAX as i128 - 6,
	(1i128 << 15) + 5,
];

/// `u128` values at or above 2^127: the ones a `u128 as i128` reinterpretation sends to
/// representable negatives (close to 2^128) and to the extremes.
pub fn gen_wrapping_u128(rng: &mut StdRng) -> u128 {
	let k: u128 = match rng.gen_range(0..10) {
		0 => 0,
		1 => rng.gen_range(1..300),
		2 => (1 << 31) - 1,
		3 => 1 << 31,
		4 => (1 << 31) + 1,
		5 => (1 << 63) - 1,
		6 => 1 << 63,
		7 => (1 << 63) + 1,
		8 => rng.gen::<u64>() as u128,
		_ => return (1u128 << 127) + if rng.gen() { 0 } else { rng.gen_range(0..300) },
	};
	u128::MAX - k
}

/// Now and then a name outside the ASCII alphabet the specification asks for but the crate does
/// not enforce: letters, and characters that Rust's `{:?}` of a string escapes although neither
/// JSON nor the canonical form does (combining marks, zero-width and soft-hyphen characters).
pub fn odd_name_suffix(rng: &mut StdRng) -> &'static str {
	if !rng.gen_bool(0.08) {
		return "";
	}
	*["é", "e\u{301}", "\u{200b}", "名", "\u{ad}x", "\u{e33}"].choose(rng).unwrap()
}

pub fn gen_int_in(rng: &mut StdRng, lo: i128, hi: i128) -> i128 {
	if rng.gen_bool(0.5) {
		let cands: Vec<i128> = I_POOL.iter().copied().filter(|v| *v >= lo && *v <= hi).collect();
		if let Some(v) = cands.choose(rng) {
			return *v;
		}
	}
	if rng.gen_bool(0.5) {
		let v = rng.gen_range(-300i128..300);
		if v >= lo && v <= hi {
			return v;
		}
	}
	// uniform over magnitude classes
	let bits = rng.gen_range(0..127);
	let m: i128 = (rng.gen::<u128>() >> (127 - bits)) as i128 >> 1;
	let v = if rng.gen_bool(0.5) { m } else { -m };
	v.clamp(lo, hi)
}

pub fn gen_utf8(rng: &mut StdRng) -> String {
	let n = *[0usize, 0, 1, 2, 3, 5, 12, 63, 64, 65].choose(rng).unwrap();
	let n = if rng.gen_bool(0.9) { n.min(12) } else { n };
	(0..n)
		.map(|_| match rng.gen_range(0..10) {
			0 => 'é',
			1 => '€',
			2 => '𝄞',
			3 => '\u{0}',
			4 => ' ',
			_ => (b'a' + rng.gen_range(0..26)) as char,
		})
		.collect()
}

pub fn gen_bytes(rng: &mut StdRng) -> Vec<u8> {
	let n = *[0usize, 0, 1, 2, 3, 5, 12, 63, 64, 65].choose(rng).unwrap();
	let n = if rng.gen_bool(0.9) { n.min(12) } else { n };
	(0..n)
		.map(|_| match rng.gen_range(0..6) {
			0 => 0u8,
			1 => 0xff,
			2 => 0x80,
			_ => rng.gen(),
		})
		.collect()
}

pub const F32_POOL: [u32; 12] = [
	0, 0x8000_0000, 0x3f80_0000, 0x7f80_0000, 0xff80_0000, 0x7fc0_0000, 0x7fc0_0001, 0xffc1_2345, 0x7f80_0001,
	0x0000_0001, 0x7f7f_ffff, 0x0080_0000,
];
pub const F64_POOL: [u64; 14] = [
	0,
	0x8000_0000_0000_0000,
	0x3ff0_0000_0000_0000,
	0x7ff0_0000_0000_0000,
	0xfff0_0000_0000_0000,
	0x7ff8_0000_0000_0000,
	0x7ff8_0000_0000_0001,
	0xfff8_1234_5678_9abc,
	0x7ff0_0000_0000_0001,
	0x0000_0000_0000_0001,
	0x7fef_ffff_ffff_ffff,
	0x3ff0_0000_0000_0001,
	0x47ef_ffff_f000_0000,
	0x36a0_0000_0000_0000,
];

pub struct ValueGen<'a> {
	pub rng: &'a mut StdRng,
	pub schema: &'a RawSchema,
	pub allow_slow: bool,
	/// probability of choosing an exotic presentation
	pub exotic: f64,
	/// probability of a deliberate mismatch at a node
	pub invalid: f64,
	/// select union branches by name only (presentations that determine the branch)
	pub by_name_only: bool,
	/// set when a choice was made that may make serialization fail or pick another branch
	pub maybe_invalid: bool,
	/// avoid presentations needing the rust_decimal oracle
	pub no_decimal_oracle: bool,
}

impl<'a> ValueGen<'a> {
	fn int_sv(&mut self, v: i128) -> SV {
		let b = BigI::from_i128(v);
		let tys: Vec<IntTy> = IntTy::ALL.iter().copied().filter(|t| b.fits(*t)).collect();
		SV::Int(*tys.choose(self.rng).unwrap(), b)
	}

	fn random_sv(&mut self, depth: usize) -> SV {
		let c = self.rng.gen_range(0..16);
		match c {
			0 => SV::Bool(self.rng.gen()),
			1 => {
				let v = gen_int_in(self.rng, i128::MIN, i128::MAX);
				self.int_sv(v)
			}
			2 if self.rng.gen() => SV::Int(IntTy::U128, BigI::Pos(gen_wrapping_u128(self.rng))),
			2 => SV::Int(IntTy::U128, BigI::Pos(self.rng.gen::<u128>() | (1 << 127))),
			3 => SV::F32(*F32_POOL.choose(self.rng).unwrap()),
			4 => SV::F64(*F64_POOL.choose(self.rng).unwrap()),
			5 => SV::Str(gen_utf8(self.rng)),
			6 => SV::Bytes(gen_bytes(self.rng)),
			7 => SV::None,
			8 => SV::Unit,
			9 => SV::UnitStruct("U".into()),
			10 => SV::UnitVariant("E".into(), 0, "Null".into()),
			11 if depth < 3 => SV::Some(Box::new(self.random_sv(depth + 1))),
			12 if depth < 3 => {
				let n = self.rng.gen_range(0..3);
				SV::Seq(Some(n), (0..n).map(|_| self.random_sv(depth + 1)).collect())
			}
			13 if depth < 3 => {
				let n = self.rng.gen_range(0..3);
				SV::Struct("S".into(), (0..n).map(|i| (format!("f{i}"), self.random_sv(depth + 1))).collect())
			}
			14 if depth < 3 => {
				let n = self.rng.gen_range(0..3);
				SV::Map(
					Some(n),
					(0..n).map(|i| (SV::Str(format!("k{i}")), self.random_sv(depth + 1))).collect(),
					self.rng.gen(),
				)
			}
			_ => SV::Char(*['a', 'é', '𝄞'].choose(self.rng).unwrap()),
		}
	}

	pub fn gen(&mut self, idx: usize, depth: usize) -> SV {
		if self.rng.gen_bool(self.invalid) {
			self.maybe_invalid = true;
			return self.random_sv(0);
		}
		let kind = kind_of(&self.schema[idx]);
		let ex = self.rng.gen_bool(self.exotic);
		let v = self.gen_kind(&kind, depth, ex);
		// transparent wrappers
		if ex && self.rng.gen_bool(0.3) {
			SV::Some(Box::new(v))
		} else if ex && self.rng.gen_bool(0.1) && !matches!(kind, Kind::Union(_)) {
			// a newtype struct whose name does not matter on a non-union node
			SV::NewtypeStruct("Wrapper".into(), Box::new(v))
		} else {
			v
		}
	}

	fn gen_kind(&mut self, kind: &Kind, depth: usize, ex: bool) -> SV {
		let rng = &mut *self.rng;
		match kind {
			Kind::Null => match if ex { rng.gen_range(0..4) } else { 0 } {
				0 => SV::Unit,
				1 => SV::None,
				2 => SV::UnitStruct("Anything".into()),
				_ => SV::UnitVariant("E".into(), 3, "Null".into()),
			},
			Kind::Boolean => SV::Bool(rng.gen()),
			Kind::Int | Kind::Date | Kind::TimeMillis => {
				let v = gen_int_in(rng, i32::MIN as i128, i32::MAX as i128);
				if ex {
					self.int_sv(v)
				} else {
					SV::Int(IntTy::I32, BigI::from_i128(v))
				}
			}
			Kind::Long | Kind::TimeMicros | Kind::TimestampMillis | Kind::TimestampMicros => {
				let v = gen_int_in(rng, i64::MIN as i128, i64::MAX as i128);
				if ex {
					self.int_sv(v)
				} else {
					SV::Int(IntTy::I64, BigI::from_i128(v))
				}
			}
			Kind::Float => {
				if ex && rng.gen_bool(0.5) {
					SV::F64(if rng.gen_bool(0.5) { *F64_POOL.choose(rng).unwrap() } else { rng.gen() })
				} else {
					SV::F32(if rng.gen_bool(0.5) { *F32_POOL.choose(rng).unwrap() } else { rng.gen() })
				}
			}
			Kind::Double => SV::F64(if rng.gen_bool(0.5) { *F64_POOL.choose(rng).unwrap() } else { rng.gen() }),
			Kind::Bytes => match if ex { rng.gen_range(0..5) } else { 0 } {
				0 => SV::Bytes(gen_bytes(rng)),
				1 => SV::Str(gen_utf8(rng)),
				2 | 3 if !self.allow_slow && self.by_name_only => SV::Bytes(gen_bytes(rng)),
				2 => {
					let b = gen_bytes(rng);
					let len = if rng.gen_bool(0.5) { Some(b.len()) } else { None };
					SV::Seq(len, b.into_iter().map(|x| SV::Int(IntTy::U8, BigI::Pos(x as u128))).collect())
				}
				3 => {
					let b = gen_bytes(rng);
					SV::Tuple(b.into_iter().map(|x| self.int_sv(x as i128)).collect())
				}
				_ => SV::UnitStruct("Name".into()),
			},
			Kind::String | Kind::Uuid => match if ex { rng.gen_range(0..5) } else { 0 } {
				0 => SV::Str(gen_utf8(rng)),
				1 => SV::Char(*['a', 'é', '€', '𝄞', '\0'].choose(rng).unwrap()),
				2 if *kind == Kind::String => SV::Bytes(gen_utf8(rng).into_bytes()),
				3 if *kind == Kind::String => SV::UnitVariant("E".into(), 1, "Variant".into()),
				4 if *kind == Kind::String => SV::UnitStruct("Name".into()),
				_ => SV::Str(gen_utf8(rng)),
			},
			Kind::Array(items) => {
				let n = if depth > 5 { 0 } else { *[0usize, 0, 1, 2, 3, 5].choose(rng).unwrap() };
				let es: Vec<SV> = (0..n).map(|_| self.gen(*items, depth + 1)).collect();
				let rng = &mut *self.rng;
				match if ex { rng.gen_range(0..4) } else { 0 } {
					0 => SV::Seq(Some(n), es),
					1 => SV::Seq(None, es),
					2 => SV::Tuple(es),
					_ => SV::TupleStruct("TS".into(), es),
				}
			}
			Kind::Map(values) => {
				let n = if depth > 5 { 0 } else { *[0usize, 0, 1, 2, 3].choose(rng).unwrap() };
				let mut es = vec![];
				for i in 0..n {
					let k = if self.rng.gen_bool(0.7) { format!("k{i}") } else { gen_utf8(self.rng) };
					es.push((k, self.gen(*values, depth + 1)));
				}
				let rng = &mut *self.rng;
				match if ex { rng.gen_range(0..4) } else { 0 } {
					0 => SV::Map(Some(n), es.into_iter().map(|(k, v)| (SV::Str(k), v)).collect(), rng.gen()),
					1 => SV::Map(None, es.into_iter().map(|(k, v)| (SV::Str(k), v)).collect(), rng.gen()),
					2 => SV::Struct("AnyStruct".into(), es),
					_ => SV::Map(
						Some(n),
						es.into_iter()
							.map(|(k, v)| {
								(if k.chars().count() == 1 { SV::Char(k.chars().next().unwrap()) } else { SV::Str(k) }, v)
							})
							.collect(),
						rng.gen(),
					),
				}
			}
			Kind::Union(vs) => {
				if vs.is_empty() {
					self.maybe_invalid = true;
					return SV::Unit;
				}
				// prefer terminating branches when deep
				let null_branch = vs.iter().position(|&b| kind_of(&self.schema[b]) == Kind::Null);
				let b = if depth > 5 && null_branch.is_some() {
					null_branch.unwrap()
				} else {
					self.rng.gen_range(0..vs.len())
				};
				let bk = kind_of(&self.schema[vs[b]]);
				let inner = self.gen(vs[b], depth + 1);
				let by_name = self.by_name_only || self.rng.gen_bool(0.5);
				if bk == Kind::Null && !by_name {
					return inner;
				}
				if by_name {
					match branch_name(&bk, self.rng) {
						Some(name) => {
							// names may collide between branches: then the presentation does not
							// determine the branch
							let collides = vs.iter().enumerate().any(|(j, &o)| {
								j != b && {
									let ok = kind_of(&self.schema[o]);
									let names: Vec<String> = match &ok {
										Kind::Record(n, _) | Kind::Enum(n, _) | Kind::Fixed(n, _) => {
											let (s, f) = split_name(n);
											vec![s, f]
										}
										Kind::Decimal(_, _, Some(n)) => {
											let (s, f) = split_name(n);
											vec![s, f, "Decimal".into()]
										}
										k => branch_name(k, self.rng).into_iter().collect(),
									};
									names.contains(&name)
								}
							});
							if collides {
								self.maybe_invalid = true;
							}
							match self.rng.gen_range(0..3) {
								0 => SV::NewtypeVariant("U".into(), b as u32, name, Box::new(inner)),
								1 => SV::NewtypeStruct(name, Box::new(inner)),
								_ => SV::NewtypeVariant("U".into(), 0, name, Box::new(inner)),
							}
						}
						None => {
							self.maybe_invalid = true;
							inner
						}
					}
				} else {
					// type-directed selection: may be ambiguous or pick another branch
					let simple_nullable = vs.len() == 2 && null_branch.is_some();
					if !simple_nullable {
						self.maybe_invalid = true;
					}
					inner
				}
			}
			Kind::Record(name, fields) => {
				let mut present: Vec<(String, SV)> = vec![];
				for (f, k) in fields {
					let fk = kind_of(&self.schema[*k]);
					let nullable = match &fk {
						Kind::Null => true,
						Kind::Union(vs) => vs.iter().any(|&b| kind_of(&self.schema[b]) == Kind::Null),
						_ => false,
					};
					if nullable && ex && self.rng.gen_bool(0.4) {
						// omitted: encoded as null (valid only if the null lookup resolves)
						continue;
					}
					// when omitting is possible and we are deep, a nullable union field gets null
					present.push((f.clone(), self.gen(*k, depth + 1)));
				}
				let rng = &mut *self.rng;
				if ex || rng.gen_bool(0.3) {
					present.shuffle(rng);
				}
				let (short, full) = split_name(name);
				let sname = match rng.gen_range(0..3) {
					0 => short,
					1 => full,
					_ => "Other".into(),
				};
				match if ex { rng.gen_range(0..3) } else { 0 } {
					0 => SV::Struct(sname, present),
					1 => SV::Map(
						if rng.gen_bool(0.5) { Some(present.len()) } else { None },
						present.into_iter().map(|(k, v)| (SV::Str(k), v)).collect(),
						rng.gen(),
					),
					_ => SV::StructVariant("E".into(), 0, sname, present),
				}
			}
			Kind::Enum(_, syms) => {
				if syms.is_empty() {
					self.maybe_invalid = true;
					return SV::Str("x".into());
				}
				let i = rng.gen_range(0..syms.len());
				match if ex { rng.gen_range(0..4) } else { 0 } {
					0 => SV::UnitVariant("E".into(), i as u32, syms[i].clone()),
					1 => SV::Str(syms[i].clone()),
					2 => SV::UnitStruct(syms[i].clone()),
					_ => self.int_sv(i as i128),
				}
			}
			Kind::Fixed(_, size) => match if ex { rng.gen_range(0..4) } else { 0 } {
				0 => SV::Bytes((0..*size).map(|_| rng.gen()).collect()),
				2 | 3 if !self.allow_slow && self.by_name_only => SV::Bytes((0..*size).map(|_| rng.gen()).collect()),
				1 => SV::Str((0..*size).map(|_| (b'a' + rng.gen_range(0..26)) as char).collect()),
				2 => SV::Seq(
					if rng.gen_bool(0.5) { Some(*size) } else { None },
					(0..*size).map(|_| SV::Int(IntTy::U8, BigI::Pos(rng.gen::<u8>() as u128))).collect(),
				),
				_ => SV::Tuple((0..*size).map(|_| SV::Int(IntTy::I64, BigI::Pos(rng.gen::<u8>() as u128))).collect()),
			},
			Kind::Decimal(scale, fixed, _) => {
				// choose the unscaled value within the fixed size and the 96-bit mantissa
				let bits = match fixed {
					Some(sz) if *sz < 12 => 8 * (*sz).max(1) as u32 - 1,
					_ => 95,
				};
				let lim: i128 = (1i128 << bits) - 1;
				if self.invalid > 0.0 && !self.no_decimal_oracle && rng.gen_bool(0.2) {
					// just outside: one more than the fixed size holds, a byte too long, or a
					// mantissa that cannot be rescaled to the schema's scale within 96 bits
					self.maybe_invalid = true;
					let big: i128 = match rng.gen_range(0..4) {
						0 => lim + 1,
						1 => -lim - 2,
						2 => (lim + 1).saturating_mul(256).min((1i128 << 95) - 1),
						_ => (1i128 << 95) - 1 - rng.gen_range(0..1000),
					};
					return match rng.gen_range(0..3) {
						0 if *scale <= 28 => SV::Str(dec_string(rng, big, *scale)),
						1 => SV::Str(big.to_string()),
						_ => self.int_sv(big),
					};
				}
				let u = gen_int_in(rng, -lim - 1, lim);
				let pow = 10i128.checked_pow(*scale);
				let integral = pow.map_or(false, |p| u % p == 0);
				if integral && (self.no_decimal_oracle || rng.gen_bool(0.5)) {
					return self.int_sv(u / pow.unwrap());
				}
				if self.no_decimal_oracle {
					// integers only: pick a multiple
					let p = pow.unwrap_or(1).max(1);
					let v = if p > lim { 0 } else { gen_int_in(rng, -(lim / p), lim / p) };
					return self.int_sv(v);
				}
				if *scale <= 28 {
					return SV::Str(dec_string(rng, u, *scale));
				}
				self.int_sv(0)
			}
			Kind::BigDecimal => {
				let v = gen_int_in(rng, -(1i128 << 95), 1i128 << 95);
				if self.no_decimal_oracle {
					return self.int_sv(v);
				}
				if rng.gen_bool(0.8) {
					let sc = rng.gen_range(0..6);
					SV::Str(dec_string(rng, v, sc))
				} else {
					SV::F64((v as f64 / 8.0).to_bits())
				}
			}
			Kind::Duration => {
				let vals: Vec<u32> =
					(0..3).map(|_| *[0u32, 1, 255, 256, 65536, u32::MAX, 12345678].choose(rng).unwrap()).collect();
				let u = |x: u32| SV::Int(IntTy::U32, BigI::Pos(x as u128));
				match if ex { rng.gen_range(0..6) } else { 0 } {
					0 => SV::Tuple(vals.iter().map(|x| u(*x)).collect()),
					1 => SV::Seq(Some(3), vals.iter().map(|x| u(*x)).collect()),
					2 => {
						let mut fs = vec![
							("months".to_string(), u(vals[0])),
							("days".to_string(), u(vals[1])),
							("milliseconds".to_string(), u(vals[2])),
						];
						fs.shuffle(rng);
						SV::Struct("Duration".into(), fs)
					}
					3 => {
						let mut fs = vec![
							(SV::Str("months".into()), u(vals[0])),
							(SV::Str("days".into()), u(vals[1])),
							(SV::Str("milliseconds".into()), u(vals[2])),
						];
						fs.shuffle(rng);
						SV::Map(Some(3), fs, rng.gen())
					}
					4 => SV::Seq(None, vals.iter().map(|x| u(*x)).collect()),
					_ => SV::Bytes(vals.iter().flat_map(|x| x.to_le_bytes()).collect()),
				}
			}
		}
	}
}

/// decimal string with the given number of fractional digits
pub fn dec_string(rng: &mut StdRng, unscaled: i128, scale: u32) -> String {
	let neg = unscaled < 0;
	let mut digits = unscaled.unsigned_abs().to_string();
	let scale = scale as usize;
	if scale > 0 {
		while digits.len() <= scale {
			digits.insert(0, '0');
		}
		digits.insert(digits.len() - scale, '.');
		if rng.gen_bool(0.2) {
			digits.push('0');
		}
	}
	if neg {
		digits.insert(0, '-');
	}
	digits
}

/// Single-point mutation of a value tree (the malformed stream)
pub fn mutate(rng: &mut StdRng, v: &mut SV) {
	fn count(v: &SV) -> usize {
		1 + match v {
			SV::Some(x) | SV::NewtypeStruct(_, x) | SV::NewtypeVariant(_, _, _, x) => count(x),
			SV::Seq(_, es) | SV::Tuple(es) | SV::TupleStruct(_, es) | SV::TupleVariant(_, _, _, es) => {
				es.iter().map(count).sum()
			}
			SV::Map(_, es, _) => es.iter().map(|(k, v)| count(k) + count(v)).sum(),
			SV::Struct(_, fs) | SV::StructVariant(_, _, _, fs) => fs.iter().map(|(_, v)| count(v)).sum(),
			_ => 0,
		}
	}
	fn at<'a>(v: &'a mut SV, mut i: usize) -> Result<&'a mut SV, usize> {
		if i == 0 {
			return Ok(v);
		}
		i -= 1;
		let kids: Vec<&mut SV> = match v {
			SV::Some(x) | SV::NewtypeStruct(_, x) | SV::NewtypeVariant(_, _, _, x) => vec![&mut **x],
			SV::Seq(_, es) | SV::Tuple(es) | SV::TupleStruct(_, es) | SV::TupleVariant(_, _, _, es) => {
				es.iter_mut().collect()
			}
			SV::Map(_, es, _) => es.iter_mut().flat_map(|(k, v)| [k, v]).collect(),
			SV::Struct(_, fs) | SV::StructVariant(_, _, _, fs) => fs.iter_mut().map(|(_, v)| v).collect(),
			_ => vec![],
		};
		for k in kids {
			match at(k, i) {
				Ok(r) => return Ok(r),
				Err(rest) => i = rest,
			}
		}
		Err(i)
	}
	let n = count(v);
	let target = at(v, rng.gen_range(0..n)).ok().unwrap();
	match target {
		SV::Int(t, val) => match rng.gen_range(0..3) {
			0 => {
				*t = *IntTy::ALL.choose(rng).unwrap();
				if !val.fits(*t) {
					*val = BigI::Pos(0);
				}
			}
			1 if rng.gen_bool(0.25) => {
				*t = IntTy::U128;
				*val = BigI::Pos(gen_wrapping_u128(rng));
			}
			1 => {
				let nv = BigI::from_i128(*I_POOL.choose(rng).unwrap());
				*t = *IntTy::ALL.iter().filter(|t| nv.fits(**t)).collect::<Vec<_>>().choose(rng).unwrap().clone();
				*val = nv;
			}
			_ => {
				*target = SV::Str("x".into());
			}
		},
		SV::Seq(l, es) => match rng.gen_range(0..4) {
			0 => *l = Some(es.len() + 1),
			1 => *l = Some(es.len().saturating_sub(1)),
			2 => {
				es.pop();
			}
			_ => {
				let e = es.first().cloned().unwrap_or(SV::Unit);
				es.push(e);
			}
		},
		SV::Tuple(es) => {
			if rng.gen_bool(0.5) {
				es.pop();
			} else {
				let e = es.first().cloned().unwrap_or(SV::Unit);
				es.push(e);
			}
		}
		SV::Struct(_, fs) | SV::StructVariant(_, _, _, fs) => match rng.gen_range(0..4) {
			0 => {
				if !fs.is_empty() {
					let i = rng.gen_range(0..fs.len());
					fs.remove(i);
				}
			}
			1 => {
				if !fs.is_empty() {
					let i = rng.gen_range(0..fs.len());
					let d = fs[i].clone();
					let j = rng.gen_range(0..=fs.len());
					fs.insert(j, d);
				}
			}
			2 => {
				let j = rng.gen_range(0..=fs.len());
				fs.insert(j, ("unknown_field".into(), SV::Unit));
			}
			_ => fs.reverse(),
		},
		SV::Map(l, es, _) => match rng.gen_range(0..4) {
			0 => {
				es.pop();
			}
			1 => {
				if let Some(e) = es.first().cloned() {
					es.push(e);
				}
			}
			2 => *l = Some(es.len() + 1),
			_ => es.push((SV::Int(IntTy::I32, BigI::Pos(1)), SV::Unit)),
		},
		SV::Str(s) => match rng.gen_range(0..3) {
			0 => s.push('x'),
			1 => {
				s.pop();
			}
			_ => *target = SV::Bytes(vec![0xff, 0xfe]),
		},
		SV::Bytes(b) => match rng.gen_range(0..3) {
			0 => b.push(0xff),
			1 => {
				b.pop();
			}
			_ => *target = SV::Unit,
		},
		SV::UnitVariant(_, _, var) => *var = "Nope".into(),
		SV::NewtypeVariant(_, _, var, _) => *var = "Nope".into(),
		other => {
			*other = match rng.gen_range(0..5) {
				0 => SV::Unit,
				1 => SV::Bool(true),
				2 => SV::Int(IntTy::I64, BigI::Pos(7)),
				3 => SV::Str("zz".into()),
				_ => SV::F64(0x3ff0_0000_0000_0000),
			}
		}
	}
}

// ---------------------------------------------------------------------------------------------
// Datum bytes with arbitrary legal layouts (blocks, negative counts, non-minimal varints)

pub fn zigzag(v: i64) -> u64 {
	((v << 1) ^ (v >> 63)) as u64
}
pub fn varint_u(mut n: u64, out: &mut Vec<u8>) {
	while n >= 0x80 {
		out.push(0x80 | (n as u8));
		n >>= 7;
	}
	out.push(n as u8);
}

pub struct DatumGen<'a> {
	pub rng: &'a mut StdRng,
	pub schema: &'a RawSchema,
	/// split arrays/maps into several blocks, use negative counts with byte sizes
	pub fancy_layout: bool,
	/// pad varints with redundant continuation bytes (still ≤ 10 bytes)
	pub nonminimal: f64,
}

impl<'a> DatumGen<'a> {
	pub fn long(&mut self, v: i64, out: &mut Vec<u8>) {
		let start = out.len();
		varint_u(zigzag(v), out);
		if self.nonminimal > 0.0 && self.rng.gen_bool(self.nonminimal) {
			let len = out.len() - start;
			let max_extra = 10usize.saturating_sub(len).min(if v >= i32::MIN as i64 && v <= i32::MAX as i64 { 6 } else { 3 });
			if max_extra > 0 {
				let extra = self.rng.gen_range(1..=max_extra);
				let last = out.len() - 1;
				out[last] |= 0x80;
				for i in 0..extra {
					out.push(if i + 1 == extra { 0x00 } else { 0x80 });
				}
			}
		}
	}

	fn blocks(&mut self, items: Vec<Vec<u8>>, out: &mut Vec<u8>) {
		let n = items.len();
		if !self.fancy_layout {
			if n > 0 {
				self.long(n as i64, out);
				for it in &items {
					out.extend_from_slice(it);
				}
			}
			self.long(0, out);
			return;
		}
		let mut i = 0;
		while i < n {
			let c = self.rng.gen_range(1..=(n - i));
			let body: Vec<u8> = items[i..i + c].concat();
			if self.rng.gen_bool(0.5) {
				self.long(-(c as i64), out);
				self.long(body.len() as i64, out);
			} else {
				self.long(c as i64, out);
			}
			out.extend_from_slice(&body);
			i += c;
		}
		self.long(0, out);
	}

	pub fn gen(&mut self, idx: usize, depth: usize, out: &mut Vec<u8>) {
		let kind = kind_of(&self.schema[idx]);
		match kind {
			Kind::Null => {}
			Kind::Boolean => out.push(self.rng.gen_range(0..2)),
			Kind::Int | Kind::Date | Kind::TimeMillis => {
				let v = gen_int_in(self.rng, i32::MIN as i128, i32::MAX as i128) as i64;
				self.long(v, out)
			}
			Kind::Long | Kind::TimeMicros | Kind::TimestampMillis | Kind::TimestampMicros => {
				let v = gen_int_in(self.rng, i64::MIN as i128, i64::MAX as i128) as i64;
				self.long(v, out)
			}
			Kind::Float => {
				let b: u32 = if self.rng.gen_bool(0.5) { *F32_POOL.choose(self.rng).unwrap() } else { self.rng.gen() };
				out.extend_from_slice(&b.to_le_bytes())
			}
			Kind::Double => {
				let b: u64 = if self.rng.gen_bool(0.5) { *F64_POOL.choose(self.rng).unwrap() } else { self.rng.gen() };
				out.extend_from_slice(&b.to_le_bytes())
			}
			Kind::Bytes => {
				let b = gen_bytes(self.rng);
				self.long(b.len() as i64, out);
				out.extend_from_slice(&b)
			}
			Kind::String | Kind::Uuid => {
				let s = gen_utf8(self.rng);
				self.long(s.len() as i64, out);
				out.extend_from_slice(s.as_bytes())
			}
			Kind::Array(items) => {
				let n = if depth > 5 { 0 } else { *[0usize, 0, 1, 2, 3, 5].choose(self.rng).unwrap() };
				let its: Vec<Vec<u8>> = (0..n)
					.map(|_| {
						let mut b = vec![];
						self.gen(items, depth + 1, &mut b);
						b
					})
					.collect();
				self.blocks(its, out)
			}
			Kind::Map(values) => {
				let n = if depth > 5 { 0 } else { *[0usize, 0, 1, 2, 3].choose(self.rng).unwrap() };
				let its: Vec<Vec<u8>> = (0..n)
					.map(|i| {
						let mut b = vec![];
						let k = if self.rng.gen_bool(0.7) { format!("k{i}") } else { gen_utf8(self.rng) };
						self.long(k.len() as i64, &mut b);
						b.extend_from_slice(k.as_bytes());
						self.gen(values, depth + 1, &mut b);
						b
					})
					.collect();
				self.blocks(its, out)
			}
			Kind::Union(vs) => {
				if vs.is_empty() {
					self.long(0, out);
					return;
				}
				let null_branch = vs.iter().position(|&b| kind_of(&self.schema[b]) == Kind::Null);
				let b = if depth > 5 && null_branch.is_some() { null_branch.unwrap() } else { self.rng.gen_range(0..vs.len()) };
				self.long(b as i64, out);
				self.gen(vs[b], depth + 1, out)
			}
			Kind::Record(_, fields) => {
				for (_, k) in &fields {
					self.gen(*k, depth + 1, out);
				}
			}
			Kind::Enum(_, syms) => {
				let i = if syms.is_empty() { 0 } else { self.rng.gen_range(0..syms.len()) };
				self.long(i as i64, out)
			}
			Kind::Fixed(_, size) => {
				for _ in 0..size {
					out.push(self.rng.gen());
				}
			}
			Kind::Decimal(_, fixed, _) => {
				let v = gen_int_in(self.rng, -(1i128 << 100), 1i128 << 100);
				match fixed {
					None => {
						let be = v.to_be_bytes();
						// minimal two's complement, sometimes with redundant sign bytes
						let mut start = 0;
						while start < 15
							&& ((be[start] == 0 && be[start + 1] & 0x80 == 0) || (be[start] == 0xff && be[start + 1] & 0x80 != 0))
						{
							start += 1;
						}
						if self.rng.gen_bool(0.2) {
							start = start.saturating_sub(self.rng.gen_range(0..3));
						}
						if v == 0 && self.rng.gen_bool(0.2) {
							start = 16;
						}
						self.long((16 - start) as i64, out);
						out.extend_from_slice(&be[start..])
					}
					Some(size) => {
						let sign = if v < 0 { 0xffu8 } else { 0 };
						let be = v.to_be_bytes();
						if size >= 16 {
							for _ in 16..size {
								out.push(sign);
							}
							out.extend_from_slice(&be)
						} else {
							out.extend_from_slice(&be[16 - size..])
						}
					}
				}
			}
			Kind::BigDecimal => {
				let v = gen_int_in(self.rng, -(1i128 << 95), 1i128 << 95);
				let be = v.to_be_bytes();
				let mut start = 0;
				while start < 15
					&& ((be[start] == 0 && be[start + 1] & 0x80 == 0) || (be[start] == 0xff && be[start + 1] & 0x80 != 0))
				{
					start += 1;
				}
				let mut inner = vec![];
				self.long((16 - start) as i64, &mut inner);
				inner.extend_from_slice(&be[start..]);
				let scale = *[0i64, 0, 1, 2, 5, 28, 29].choose(self.rng).unwrap();
				self.long(scale, &mut inner);
				self.long(inner.len() as i64, out);
				out.extend_from_slice(&inner)
			}
			Kind::Duration => {
				for _ in 0..3 {
					let v: u32 = *[0u32, 1, 255, 256, 65536, u32::MAX, 12345678].choose(self.rng).unwrap();
					out.extend_from_slice(&v.to_le_bytes());
				}
			}
		}
	}
}

/// A target shaped like the schema (what a derived `Deserialize` would ask), with random
/// departures: ignored sub-trees, field subsets, raw hints.
pub fn shape_hint(rng: &mut StdRng, schema: &RawSchema, idx: usize, depth: usize, noise: f64) -> Hint {
	if depth > 8 {
		return Hint::Any;
	}
	if rng.gen_bool(noise) {
		return match rng.gen_range(0..14) {
			0 => Hint::Ignored,
			1 => Hint::Any,
			2 => Hint::U64,
			3 => Hint::I64,
			4 => Hint::Str,
			5 => Hint::Bytes,
			6 => Hint::Option(Box::new(Hint::Any)),
			7 => Hint::Seq(Box::new(Hint::Any)),
			8 => Hint::Tuple(rng.gen_range(0..4), Box::new(Hint::Any)),
			9 => Hint::Identifier,
			10 => Hint::I128,
			11 => Hint::U128,
			12 => Hint::Enum(vec![("Null".into(), VariantHint::Unit), ("Int".into(), VariantHint::Newtype(Hint::Any))]),
			_ => Hint::Map(Box::new(Hint::Any), Box::new(Hint::Any)),
		};
	}
	let kind = kind_of(&schema[idx]);
	match kind {
		Kind::Null | Kind::Boolean | Kind::Int | Kind::Float | Kind::Date | Kind::TimeMillis => Hint::Any,
		Kind::Long | Kind::TimeMicros | Kind::TimestampMillis | Kind::TimestampMicros => {
			if rng.gen_bool(0.5) {
				Hint::I64
			} else {
				Hint::Any
			}
		}
		Kind::Double => {
			if rng.gen_bool(0.5) {
				Hint::F64
			} else {
				Hint::Any
			}
		}
		Kind::Bytes => [Hint::Bytes, Hint::Any, Hint::Str].choose(rng).unwrap().clone(),
		Kind::String | Kind::Uuid => [Hint::Str, Hint::Any].choose(rng).unwrap().clone(),
		Kind::Array(items) => {
			let e = shape_hint(rng, schema, items, depth + 1, noise);
			match rng.gen_range(0..5) {
				0 => Hint::Tuple(rng.gen_range(0..4), Box::new(e)),
				1 => Hint::Any,
				_ => Hint::Seq(Box::new(e)),
			}
		}
		Kind::Map(values) => {
			let v = shape_hint(rng, schema, values, depth + 1, noise);
			let k = [Hint::Str, Hint::Any, Hint::Ignored].choose(rng).unwrap().clone();
			Hint::Map(Box::new(k), Box::new(v))
		}
		Kind::Union(vs) => {
			let null_branch = vs.iter().position(|&b| kind_of(&schema[b]) == Kind::Null);
			if vs.len() == 2 && null_branch.is_some() && rng.gen_bool(0.7) {
				let other = vs[1 - null_branch.unwrap()];
				return Hint::Option(Box::new(shape_hint(rng, schema, other, depth + 1, noise)));
			}
			match rng.gen_range(0..4) {
				0 => Hint::Any,
				// (an `Option` target is also legal on a union without a null branch, of any size:
				// the value is then always `Some`)
				1 if null_branch.is_some() || rng.gen_bool(0.6) => {
					// the inner target asks for one specific entry point (`Option<i128>`, `Option<&str>`
					// …) whatever branch comes: the wrapper handed to `visit_some` on such a union
					// has to forward every one of them
					// (not `f64` where a decimal may come: `rust_decimal::Decimal::to_f64` has no executable
					// stand-in in the model - the same exclusion as for a top-level `f64` target)
					let has_decimal = schema.iter().any(|n| matches!(n.logical, Some(Logical::Decimal(..)) | Some(Logical::BigDecimal)));
					let inner = if rng.gen_bool(0.5) {
						Hint::Any
					} else {
						[Hint::I64, Hint::U64, Hint::I128, Hint::U128, Hint::F64, Hint::Str, Hint::Bytes, Hint::Ignored]
							.iter()
							.filter(|h| !(has_decimal && **h == Hint::F64))
							.collect::<Vec<_>>()
							.choose(rng)
							.unwrap()
							.clone()
							.clone()
					};
					Hint::Option(Box::new(inner))
				}
				_ => {
					let mut variants = vec![];
					for &b in &vs {
						let bk = kind_of(&schema[b]);
						let name = match &bk {
							Kind::Record(n, _) | Kind::Enum(n, _) | Kind::Fixed(n, _) => split_name(n).1,
							Kind::Decimal(_, _, Some(n)) => split_name(n).1,
							k => match branch_name(k, rng) {
								Some(n) => n,
								None => "Duration".into(),
							},
						};
						let vh = if bk == Kind::Null || rng.gen_bool(0.15) {
							VariantHint::Unit
						} else {
							match rng.gen_range(0..8) {
								0 => VariantHint::Tuple(2, Hint::Any),
								1 => VariantHint::Struct(vec![("f0".into(), Hint::Any)]),
								_ => VariantHint::Newtype(shape_hint(rng, schema, b, depth + 1, noise)),
							}
						};
						variants.push((name, vh));
					}
					let e = Hint::Enum(variants);
					if null_branch.is_some() && rng.gen_bool(0.3) {
						Hint::Option(Box::new(e))
					} else {
						e
					}
				}
			}
		}
		Kind::Record(_, fields) => {
			let mut fs = vec![];
			for (f, k) in &fields {
				if rng.gen_bool(0.15) {
					continue; // a struct lacking this field: it gets ignored
				}
				fs.push((f.clone(), shape_hint(rng, schema, *k, depth + 1, noise)));
			}
			if rng.gen_bool(0.1) {
				fs.push(("extra".into(), Hint::Any));
			}
			match rng.gen_range(0..6) {
				0 => Hint::Any,
				1 => Hint::Map(Box::new(Hint::Any), Box::new(Hint::Any)),
				_ => Hint::Struct(fs),
			}
		}
		Kind::Enum(_, syms) => match rng.gen_range(0..4) {
			0 => Hint::Any,
			1 => Hint::U64,
			2 => Hint::Str,
			_ => Hint::Enum(syms.iter().map(|s| (s.clone(), VariantHint::Unit)).collect()),
		},
		Kind::Fixed(..) => [Hint::Bytes, Hint::Any, Hint::Str].choose(rng).unwrap().clone(),
		Kind::Decimal(..) | Kind::BigDecimal => {
			[Hint::Any, Hint::Str, Hint::I64, Hint::U64, Hint::I128, Hint::U128].choose(rng).unwrap().clone()
		}
		Kind::Duration => match rng.gen_range(0..5) {
			0 => Hint::Tuple(3, Box::new(Hint::Any)),
			1 => Hint::Seq(Box::new(Hint::Any)),
			2 => Hint::Bytes,
			3 => Hint::Struct(vec![("months".into(), Hint::Any), ("milliseconds".into(), Hint::Any)]),
			_ => Hint::Any,
		},
	}
}

/// A target that reads the datum in its schema shape but ignores some sub-trees: struct lacking
/// fields, ignored map values, unit enum variants for union branches (C12)
pub fn skip_hint(rng: &mut StdRng, schema: &RawSchema, idx: usize, depth: usize) -> Hint {
	if depth > 8 {
		return Hint::Any;
	}
	if rng.gen_bool(0.12) {
		return Hint::Ignored;
	}
	match kind_of(&schema[idx]) {
		Kind::Array(items) => Hint::Seq(Box::new(skip_hint(rng, schema, items, depth + 1))),
		Kind::Map(values) => {
			let k = if rng.gen_bool(0.3) { Hint::Ignored } else { Hint::Any };
			Hint::Map(Box::new(k), Box::new(skip_hint(rng, schema, values, depth + 1)))
		}
		Kind::Record(_, fields) => {
			let mut fs = vec![];
			for (f, k) in &fields {
				if rng.gen_bool(0.35) {
					continue;
				}
				fs.push((f.clone(), skip_hint(rng, schema, *k, depth + 1)));
			}
			Hint::Struct(fs)
		}
		Kind::Union(vs) => {
			let mut variants = vec![];
			let mut names = vec![];
			for &b in &vs {
				let bk = kind_of(&schema[b]);
				let name = match &bk {
					Kind::Record(n, _) | Kind::Enum(n, _) | Kind::Fixed(n, _) => split_name(n).1,
					Kind::Decimal(_, _, Some(n)) => split_name(n).1,
					Kind::Decimal(_, _, None) => "Decimal".to_string(),
					Kind::Duration => "Duration".to_string(),
					k => branch_name(k, rng).unwrap_or_else(|| "X".into()),
				};
				if names.contains(&name) {
					return Hint::Any;
				}
				names.push(name.clone());
				let vh = if rng.gen_bool(0.4) { VariantHint::Unit } else { VariantHint::Newtype(skip_hint(rng, schema, b, depth + 1)) };
				variants.push((name, vh));
			}
			Hint::Enum(variants)
		}
		_ => Hint::Any,
	}
}
