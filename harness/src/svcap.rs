//! A `serde::Serializer` that records the tree of serializer calls a value makes as an `SV`
//! (the inverse of `svser.rs`). Used by the derive stream: the model is given exactly what
//! `serde_derive`'s generated `Serialize` presents.
use crate::proto::{BigI, IntTy, SV};
use serde::ser::{self, Serialize};

#[derive(Debug)]
pub struct CapErr(pub String);
impl std::fmt::Display for CapErr {
	fn fmt(&self, f: &mut std::fmt::Formatter) -> std::fmt::Result {
		f.write_str(&self.0)
	}
}
impl std::error::Error for CapErr {}
impl ser::Error for CapErr {
	fn custom<T: std::fmt::Display>(msg: T) -> Self {
		CapErr(msg.to_string())
	}
}

pub fn capture<T: Serialize + ?Sized>(v: &T) -> Result<SV, CapErr> {
	v.serialize(Cap)
}

pub struct Cap;

fn int(t: IntTy, v: i128) -> SV {
	SV::Int(t, if v < 0 { BigI::Neg(v) } else { BigI::Pos(v as u128) })
}

pub struct SeqCap {
	kind: u8,
	name: String,
	idx: u32,
	variant: String,
	len: Option<usize>,
	items: Vec<SV>,
}
pub struct MapCap {
	len: Option<usize>,
	entries: Vec<(SV, SV)>,
	key: Option<SV>,
}
pub struct StructCap {
	name: String,
	idx: u32,
	variant: Option<String>,
	fields: Vec<(String, SV)>,
}

impl ser::Serializer for Cap {
	type Ok = SV;
	type Error = CapErr;
	type SerializeSeq = SeqCap;
	type SerializeTuple = SeqCap;
	type SerializeTupleStruct = SeqCap;
	type SerializeTupleVariant = SeqCap;
	type SerializeMap = MapCap;
	type SerializeStruct = StructCap;
	type SerializeStructVariant = StructCap;

	fn serialize_bool(self, v: bool) -> Result<SV, CapErr> {
		Ok(SV::Bool(v))
	}
	fn serialize_i8(self, v: i8) -> Result<SV, CapErr> {
		Ok(int(IntTy::I8, v as i128))
	}
	fn serialize_i16(self, v: i16) -> Result<SV, CapErr> {
		Ok(int(IntTy::I16, v as i128))
	}
	fn serialize_i32(self, v: i32) -> Result<SV, CapErr> {
		Ok(int(IntTy::I32, v as i128))
	}
	fn serialize_i64(self, v: i64) -> Result<SV, CapErr> {
		Ok(int(IntTy::I64, v as i128))
	}
	fn serialize_i128(self, v: i128) -> Result<SV, CapErr> {
		Ok(int(IntTy::I128, v))
	}
	fn serialize_u8(self, v: u8) -> Result<SV, CapErr> {
		Ok(int(IntTy::U8, v as i128))
	}
	fn serialize_u16(self, v: u16) -> Result<SV, CapErr> {
		Ok(int(IntTy::U16, v as i128))
	}
	fn serialize_u32(self, v: u32) -> Result<SV, CapErr> {
		Ok(int(IntTy::U32, v as i128))
	}
	fn serialize_u64(self, v: u64) -> Result<SV, CapErr> {
		Ok(int(IntTy::U64, v as i128))
	}
	fn serialize_u128(self, v: u128) -> Result<SV, CapErr> {
		Ok(SV::Int(IntTy::U128, BigI::Pos(v)))
	}
	fn serialize_f32(self, v: f32) -> Result<SV, CapErr> {
		Ok(SV::F32(v.to_bits()))
	}
	fn serialize_f64(self, v: f64) -> Result<SV, CapErr> {
		Ok(SV::F64(v.to_bits()))
	}
	fn serialize_char(self, v: char) -> Result<SV, CapErr> {
		Ok(SV::Char(v))
	}
	fn serialize_str(self, v: &str) -> Result<SV, CapErr> {
		Ok(SV::Str(v.to_string()))
	}
	fn serialize_bytes(self, v: &[u8]) -> Result<SV, CapErr> {
		Ok(SV::Bytes(v.to_vec()))
	}
	fn serialize_none(self) -> Result<SV, CapErr> {
		Ok(SV::None)
	}
	fn serialize_some<T: Serialize + ?Sized>(self, v: &T) -> Result<SV, CapErr> {
		Ok(SV::Some(Box::new(v.serialize(Cap)?)))
	}
	fn serialize_unit(self) -> Result<SV, CapErr> {
		Ok(SV::Unit)
	}
	fn serialize_unit_struct(self, name: &'static str) -> Result<SV, CapErr> {
		Ok(SV::UnitStruct(name.to_string()))
	}
	fn serialize_unit_variant(self, name: &'static str, idx: u32, variant: &'static str) -> Result<SV, CapErr> {
		Ok(SV::UnitVariant(name.to_string(), idx, variant.to_string()))
	}
	fn serialize_newtype_struct<T: Serialize + ?Sized>(self, name: &'static str, v: &T) -> Result<SV, CapErr> {
		Ok(SV::NewtypeStruct(name.to_string(), Box::new(v.serialize(Cap)?)))
	}
	fn serialize_newtype_variant<T: Serialize + ?Sized>(
		self,
		name: &'static str,
		idx: u32,
		variant: &'static str,
		v: &T,
	) -> Result<SV, CapErr> {
		Ok(SV::NewtypeVariant(name.to_string(), idx, variant.to_string(), Box::new(v.serialize(Cap)?)))
	}
	fn serialize_seq(self, len: Option<usize>) -> Result<SeqCap, CapErr> {
		Ok(SeqCap { kind: 0, name: String::new(), idx: 0, variant: String::new(), len, items: vec![] })
	}
	fn serialize_tuple(self, len: usize) -> Result<SeqCap, CapErr> {
		Ok(SeqCap { kind: 1, name: String::new(), idx: 0, variant: String::new(), len: Some(len), items: vec![] })
	}
	fn serialize_tuple_struct(self, name: &'static str, len: usize) -> Result<SeqCap, CapErr> {
		Ok(SeqCap { kind: 2, name: name.to_string(), idx: 0, variant: String::new(), len: Some(len), items: vec![] })
	}
	fn serialize_tuple_variant(
		self,
		name: &'static str,
		idx: u32,
		variant: &'static str,
		len: usize,
	) -> Result<SeqCap, CapErr> {
		Ok(SeqCap { kind: 3, name: name.to_string(), idx, variant: variant.to_string(), len: Some(len), items: vec![] })
	}
	fn serialize_map(self, len: Option<usize>) -> Result<MapCap, CapErr> {
		Ok(MapCap { len, entries: vec![], key: None })
	}
	fn serialize_struct(self, name: &'static str, _len: usize) -> Result<StructCap, CapErr> {
		Ok(StructCap { name: name.to_string(), idx: 0, variant: None, fields: vec![] })
	}
	fn serialize_struct_variant(
		self,
		name: &'static str,
		idx: u32,
		variant: &'static str,
		_len: usize,
	) -> Result<StructCap, CapErr> {
		Ok(StructCap { name: name.to_string(), idx, variant: Some(variant.to_string()), fields: vec![] })
	}
}

impl SeqCap {
	fn finish(self) -> SV {
		match self.kind {
			0 => SV::Seq(self.len, self.items),
			1 => SV::Tuple(self.items),
			2 => SV::TupleStruct(self.name, self.items),
			_ => SV::TupleVariant(self.name, self.idx, self.variant, self.items),
		}
	}
}
impl ser::SerializeSeq for SeqCap {
	type Ok = SV;
	type Error = CapErr;
	fn serialize_element<T: Serialize + ?Sized>(&mut self, v: &T) -> Result<(), CapErr> {
		self.items.push(v.serialize(Cap)?);
		Ok(())
	}
	fn end(self) -> Result<SV, CapErr> {
		Ok(self.finish())
	}
}
impl ser::SerializeTuple for SeqCap {
	type Ok = SV;
	type Error = CapErr;
	fn serialize_element<T: Serialize + ?Sized>(&mut self, v: &T) -> Result<(), CapErr> {
		self.items.push(v.serialize(Cap)?);
		Ok(())
	}
	fn end(self) -> Result<SV, CapErr> {
		Ok(self.finish())
	}
}
impl ser::SerializeTupleStruct for SeqCap {
	type Ok = SV;
	type Error = CapErr;
	fn serialize_field<T: Serialize + ?Sized>(&mut self, v: &T) -> Result<(), CapErr> {
		self.items.push(v.serialize(Cap)?);
		Ok(())
	}
	fn end(self) -> Result<SV, CapErr> {
		Ok(self.finish())
	}
}
impl ser::SerializeTupleVariant for SeqCap {
	type Ok = SV;
	type Error = CapErr;
	fn serialize_field<T: Serialize + ?Sized>(&mut self, v: &T) -> Result<(), CapErr> {
		self.items.push(v.serialize(Cap)?);
		Ok(())
	}
	fn end(self) -> Result<SV, CapErr> {
		Ok(self.finish())
	}
}
impl ser::SerializeMap for MapCap {
	type Ok = SV;
	type Error = CapErr;
	fn serialize_key<T: Serialize + ?Sized>(&mut self, k: &T) -> Result<(), CapErr> {
		self.key = Some(k.serialize(Cap)?);
		Ok(())
	}
	fn serialize_value<T: Serialize + ?Sized>(&mut self, v: &T) -> Result<(), CapErr> {
		let k = self.key.take().ok_or_else(|| CapErr("value before key".into()))?;
		self.entries.push((k, v.serialize(Cap)?));
		Ok(())
	}
	fn end(self) -> Result<SV, CapErr> {
		Ok(SV::Map(self.len, self.entries, true))
	}
}
impl ser::SerializeStruct for StructCap {
	type Ok = SV;
	type Error = CapErr;
	fn serialize_field<T: Serialize + ?Sized>(&mut self, key: &'static str, v: &T) -> Result<(), CapErr> {
		self.fields.push((key.to_string(), v.serialize(Cap)?));
		Ok(())
	}
	fn end(self) -> Result<SV, CapErr> {
		Ok(match self.variant {
			None => SV::Struct(self.name, self.fields),
			Some(v) => SV::StructVariant(self.name, self.idx, v, self.fields),
		})
	}
}
impl ser::SerializeStructVariant for StructCap {
	type Ok = SV;
	type Error = CapErr;
	fn serialize_field<T: Serialize + ?Sized>(&mut self, key: &'static str, v: &T) -> Result<(), CapErr> {
		self.fields.push((key.to_string(), v.serialize(Cap)?));
		Ok(())
	}
	fn end(self) -> Result<SV, CapErr> {
		Ok(match self.variant {
			None => SV::Struct(self.name, self.fields),
			Some(v) => SV::StructVariant(self.name, self.idx, v, self.fields),
		})
	}
}
