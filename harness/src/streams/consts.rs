//! Behavioural extraction of the constants the Lean proofs depend on (DESIGN.md 6.1).
use serde_avro_fast::schema::verif;

pub fn dump_constants() {
	let e = u64::from_le_bytes(verif::rabin(b""));
	let mut table = vec![0u64; 256];
	for b in 0..=255u8 {
		let r = u64::from_le_bytes(verif::rabin(&[b]));
		// r = (E >> 8) ^ T[(E ^ b) & 0xff]
		let idx = ((e ^ b as u64) & 0xff) as usize;
		table[idx] = r ^ (e >> 8);
	}
	let schema: serde_avro_fast::Schema = "\"int\"".parse().unwrap();
	let cfg = serde_avro_fast::de::DeserializerConfig::new(&schema);
	let rr = serde_avro_fast::de::read::ReaderRead::new(&b""[..]);
	println!("{{");
	println!("  \"rabin_empty\": \"{:016x}\",", e);
	println!(
		"  \"rabin_table\": [{}],",
		table.iter().map(|t| format!("\"{:016x}\"", t)).collect::<Vec<_>>().join(", ")
	);
	println!("  \"max_seq_size\": {},", cfg.max_seq_size);
	println!("  \"allowed_depth\": {},", cfg.allowed_depth);
	println!("  \"max_alloc_size\": {}", rr.max_alloc_size);
	println!("}}");
}
