//! Stream `api` (C10): histories of safe public API calls around the self-referential schema and
//! container readers. Self-contained (only `serde_avro_fast` + `serde`), so that the very same
//! file is also compiled into `/verif/miri_harness` and run under Miri on the same histories.
//!
//! case: `api <op>*` with ops
//!   `new<k>`      parse schema number k (mod the table), freeze, wrap in an `Arc` → new handle
//!   `bad`         build a graph with a dangling key and freeze it (error path of the unsafe init)
//!   `cyc`         build a recursive graph through the builder API and freeze it → new handle
//!   `clone<h>`    `Arc::clone` of handle h → new handle
//!   `drop<h>`     drop handle h
//!   `use<h>`      serialize a value with handle h, deserialize it back borrowing from the bytes
//!   `thr<h>`      3 threads use handle h concurrently; results compared with the sequential one
//!   `open<k>`     write a container file with schema k, open a `Reader` on it → new reader
//!   `rs<r>`       `reader.schema().clone()` → new handle
//!   `read<r>`     `deserialize_next` on reader r
//!   `dropr<r>`    drop reader r
//! Ops naming a dropped / missing handle are skipped (`-`), as safe code could not express them.
use serde_avro_fast::{
	object_container_file_encoding::{Compression, Reader, WriterBuilder},
	schema::{self, SchemaMut},
	ser::SerializerConfig,
	Schema,
};
use std::sync::Arc;

const SCHEMAS: [&str; 4] = [
	r#"{"type":"record","name":"R","fields":[{"name":"a","type":"string"},{"name":"b","type":["null","R"]},{"name":"e","type":{"type":"enum","name":"E","symbols":["X","Y"]}}]}"#,
	r#"{"type":"array","items":{"type":"map","values":["null","long",{"type":"fixed","name":"F","size":3}]}}"#,
	r#"["null","string",{"type":"record","name":"a.P","fields":[{"name":"x","type":"int"},{"name":"y","type":{"type":"array","items":"a.P"}}]}]"#,
	r#"{"type":"record","name":"D","fields":[{"name":"d","type":{"type":"bytes","logicalType":"decimal","precision":5,"scale":1}},{"name":"u","type":{"type":"string","logicalType":"uuid"}}]}"#,
];

#[derive(serde_derive::Serialize, serde_derive::Deserialize, Debug, PartialEq, Clone)]
struct R<'a> {
	a: &'a str,
	b: Option<Box<R<'a>>>,
	e: E,
}
#[derive(serde_derive::Serialize, serde_derive::Deserialize, Debug, PartialEq, Clone, Copy)]
enum E {
	X,
	Y,
}

fn schema(k: usize) -> Arc<Schema> {
	Arc::new(SCHEMAS[k % SCHEMAS.len()].parse().expect("schema table parses"))
}

/// serialize + deserialize (borrowing from the bytes) with one schema; returns a digest
fn use_schema(s: &Schema, k: usize) -> String {
	let mut config = SerializerConfig::new(s);
	match k % SCHEMAS.len() {
		0 => {
			let v = R { a: "hello", b: Some(Box::new(R { a: "inner", b: None, e: E::Y })), e: E::X };
			let bytes = serde_avro_fast::to_datum_vec(&v, &mut config).expect("serialize R");
			let back: R = serde_avro_fast::from_datum_slice(&bytes, s).expect("deserialize R");
			format!("u{}", (back == v && !bytes.is_empty()) as u8)
		}
		1 => {
			let mut m = std::collections::BTreeMap::new();
			m.insert("k".to_string(), Some(7i64));
			m.insert("n".to_string(), None);
			let v = vec![m];
			let bytes = serde_avro_fast::to_datum_vec(&v, &mut config).expect("serialize");
			let back: Vec<std::collections::BTreeMap<String, Option<i64>>> =
				serde_avro_fast::from_datum_slice(&bytes, s).expect("deserialize");
			format!("u{}", (back == v && !bytes.is_empty()) as u8)
		}
		2 => {
			let v: Option<&str> = Some("text");
			let bytes = serde_avro_fast::to_datum_vec(&v, &mut config).expect("serialize");
			let back: Option<&str> = serde_avro_fast::from_datum_slice(&bytes, s).expect("deserialize");
			format!("u{}", (back == v && !bytes.is_empty()) as u8)
		}
		_ => {
			#[derive(serde_derive::Serialize, serde_derive::Deserialize, Debug, PartialEq)]
			struct D<'a> {
				d: i64,
				u: &'a str,
			}
			let v = D { d: 42, u: "550e8400-e29b-41d4-a716-446655440000" };
			let bytes = serde_avro_fast::to_datum_vec(&v, &mut config).expect("serialize");
			// decimal comes back as text for a dynamically typed target; read the raw pieces
			let back: (String, String) = {
				#[derive(serde_derive::Deserialize)]
				struct DB {
					d: String,
					u: String,
				}
				let b: DB = serde_avro_fast::from_datum_slice(&bytes, s).expect("deserialize");
				(b.d, b.u)
			};
			format!("u{}", (back.0 == "42.0" && back.1 == v.u && !bytes.is_empty()) as u8)
		}
	}
}

fn container_file(k: usize) -> Vec<u8> {
	let s: Schema = SCHEMAS[0].parse().unwrap();
	let mut config = SerializerConfig::new(&s);
	let mut w = WriterBuilder::new(&mut config)
		.compression(if k % 2 == 0 { Compression::Null } else { Compression::Deflate { level: Default::default() } })
		.sync_marker([7; 16])
		.approx_block_size(if k % 3 == 0 { 0 } else { 64 })
		.build(Vec::new())
		.expect("writer");
	for i in 0..3 {
		let v = R { a: ["x", "yy", "zzz"][i], b: None, e: if i == 1 { E::Y } else { E::X } };
		w.serialize(&v).expect("serialize into container");
	}
	w.into_inner().expect("finish")
}

fn num(op: &str, prefix: &str) -> Option<usize> {
	op.strip_prefix(prefix).and_then(|s| s.parse().ok())
}

/// A value no schema accepts (a tuple struct of two units under a name no schema has): its
/// serialization always fails, with a message that embeds the rendering of the schema node.
struct ImpossibleValue;
impl serde::Serialize for ImpossibleValue {
	fn serialize<S: serde::Serializer>(&self, serializer: S) -> Result<S::Ok, S::Error> {
		use serde::ser::SerializeTupleVariant;
		let mut t = serializer.serialize_tuple_variant("NoSuchEnum", 7, "NoSuchVariant", 2)?;
		t.serialize_field(&())?;
		t.serialize_field(&())?;
		t.end()
	}
}

pub fn run_history(line: &str) -> String {
	let mut handles: Vec<Option<(Arc<Schema>, usize)>> = vec![];
	// the reader borrows the file bytes: keep them alive for the whole history
	let files: Vec<Vec<u8>> = (0..6).map(container_file).collect();
	let mut readers: Vec<Option<(Reader<serde_avro_fast::de::read::SliceRead<'_>>, usize)>> = vec![];
	let mut out = vec![];
	for op in line.split_ascii_whitespace().skip(1) {
		let res: String = if let Some(k) = num(op, "new") {
			handles.push(Some((schema(k), k)));
			"ok".into()
		} else if op == "bad" {
			// error path of the two-phase initialisation: the second node has a dangling key
			let g = SchemaMut::from_nodes(vec![
				schema::SchemaNode::new(schema::RegularType::Array(schema::Array::new(schema::SchemaKey::from_idx(1)))),
				schema::SchemaNode::new(schema::RegularType::Map(schema::Map::new(schema::SchemaKey::from_idx(7)))),
			]);
			match g.freeze() {
				Ok(_) => "frozen".into(),
				Err(_) => "err".into(),
			}
		} else if op == "cyc" {
			let g = SchemaMut::from_nodes(vec![
				schema::SchemaNode::new(schema::RegularType::Record(schema::Record::new(
					schema::Name::from_fully_qualified_name("ns.Node"),
					vec![
						schema::RecordField::new("next", schema::SchemaKey::from_idx(1)),
						schema::RecordField::new("v", schema::SchemaKey::from_idx(3)),
					],
				))),
				schema::SchemaNode::new(schema::RegularType::Union(schema::Union::new(vec![
					schema::SchemaKey::from_idx(2),
					schema::SchemaKey::from_idx(0),
				]))),
				schema::SchemaNode::new(schema::RegularType::Null),
				schema::SchemaNode::new(schema::RegularType::Long),
			]);
			match g.freeze() {
				Ok(s) => {
					// moving the frozen schema (into the Arc) must not invalidate its node pointers
					let moved = Box::new(s);
					let s = *moved;
					handles.push(Some((Arc::new(s), 100)));
					"ok".into()
				}
				Err(_) => "err".into(),
			}
		} else if let Some(h) = num(op, "clone") {
			match handles.get(h).cloned().flatten() {
				Some(x) => {
					handles.push(Some(x));
					"ok".into()
				}
				None => "-".into(),
			}
		} else if let Some(h) = num(op, "drop") {
			match handles.get_mut(h) {
				Some(slot) if slot.is_some() => {
					*slot = None;
					"ok".into()
				}
				_ => "-".into(),
			}
		} else if let Some(h) = num(op, "use") {
			match handles.get(h).and_then(|x| x.as_ref()) {
				Some((s, k)) if *k < 100 => use_schema(s, *k),
				Some((s, _)) => {
					// the builder-made recursive schema: dynamic value
					let mut config = SerializerConfig::new(s);
					#[derive(serde_derive::Serialize, serde_derive::Deserialize, PartialEq, Debug)]
					struct Node {
						next: Option<Box<Node>>,
						v: i64,
					}
					let v = Node { next: Some(Box::new(Node { next: None, v: 2 })), v: 1 };
					let bytes = serde_avro_fast::to_datum_vec(&v, &mut config).expect("serialize Node");
					let back: Node = serde_avro_fast::from_datum_slice(&bytes, s).expect("deserialize Node");
					format!("u{}", (back == v && !bytes.is_empty()) as u8)
				}
				None => "-".into(),
			}
		} else if let Some(h) = num(op, "thr") {
			match handles.get(h).and_then(|x| x.as_ref()) {
				Some((s, k)) if *k < 100 => {
					let seq = use_schema(s, *k);
					let k = *k;
					// what a thread observes of the schema includes its rendering (`{:?}`, which
					// the serializer's error messages embed) and the text of an error
					let observe_text = |s: &Arc<serde_avro_fast::Schema>| -> String {
						let mut config = SerializerConfig::new(s);
						let e = serde_avro_fast::to_datum_vec(&ImpossibleValue, &mut config).err().map(|e| e.to_string());
						format!("{:?} | {:?}", s, e)
					};
					// a rendering that its sink refuses part-way (a bounded buffer, a closed pipe) is
					// part of a thread's history: it must leave nothing behind that changes the next one
					struct Limited(usize);
					impl std::fmt::Write for Limited {
						fn write_str(&mut self, x: &str) -> std::fmt::Result {
							if x.len() > self.0 {
								return Err(std::fmt::Error);
							}
							self.0 -= x.len();
							Ok(())
						}
					}
					{
						use std::fmt::Write as _;
						for cap in [0usize, 9, 40, 120] {
							let _ = write!(Limited(cap + k % 7), "{:?}", s);
						}
					}
					let seq_text = observe_text(s);
					let iters = if cfg!(miri) { 3 } else { 150 };
					let results: Vec<String> = std::thread::scope(|scope| {
						let hs: Vec<_> = (0..3)
							.map(|_| {
								scope.spawn(|| {
									let r = use_schema(s, k);
									for _ in 0..iters {
										if observe_text(s) != seq_text {
											return "TEXT-DIFFERS".to_string();
										}
									}
									r
								})
							})
							.collect();
						hs.into_iter().map(|h| h.join().expect("thread")).collect()
					});
					if results.iter().all(|r| *r == seq) {
						seq
					} else {
						"THREADS-DIFFER".into()
					}
				}
				Some(_) => "-".into(),
				None => "-".into(),
			}
		} else if let Some(k) = num(op, "open") {
			// SAFETY-free: `files` outlives `readers` (declared before it, dropped after it)
			let bytes: &[u8] = &files[k % files.len()];
			match Reader::from_slice(bytes) {
				Ok(r) => {
					readers.push(Some((r, k)));
					"ok".into()
				}
				Err(_) => "init-err".into(),
			}
		} else if let Some(r) = num(op, "rs") {
			match readers.get(r).and_then(|x| x.as_ref()) {
				Some((rd, _)) => {
					handles.push(Some((rd.schema().clone(), 0)));
					"ok".into()
				}
				None => "-".into(),
			}
		} else if let Some(r) = num(op, "read") {
			match readers.get_mut(r).and_then(|x| x.as_mut()) {
				// values may borrow from the input only when the block data is the input itself
				// (null codec); from a compressed block they are owned
				Some((rd, k)) if *k % 2 == 0 => match rd.deserialize_next_borrowed::<R>() {
					Ok(Some(v)) => format!("v{}", v.a.len()),
					Ok(None) => "eof".into(),
					Err(_) => "err".into(),
				},
				Some((rd, _)) => {
					#[derive(serde_derive::Deserialize)]
					struct RO {
						a: String,
					}
					match rd.deserialize_next::<RO>() {
						Ok(Some(v)) => format!("v{}", v.a.len()),
						Ok(None) => "eof".into(),
						Err(_) => "err".into(),
					}
				}
				None => "-".into(),
			}
		} else if let Some(r) = num(op, "dropr") {
			match readers.get_mut(r) {
				Some(slot) if slot.is_some() => {
					*slot = None;
					"ok".into()
				}
				_ => "-".into(),
			}
		} else {
			"bad-op".into()
		};
		out.push(res);
	}
	// drop order at the end of the history: readers first, then handles (and the reverse is
	// exercised by explicit `dropr` / `drop` ops)
	drop(readers);
	drop(handles);
	out.join(" ")
}

/// deterministic generator (xorshift), so that the Miri binary needs no `rand`
pub fn generate(seed: u64, n: usize, emit: &mut dyn FnMut(String)) {
	let mut x = seed.wrapping_mul(0x9E3779B97F4A7C15) | 1;
	let mut next = move |m: usize| {
		x ^= x << 13;
		x ^= x >> 7;
		x ^= x << 17;
		(x >> 11) as usize % m
	};
	for _ in 0..n {
		let len = 3 + next(10);
		let mut ops = vec!["api".to_string()];
		let mut nh = 0usize;
		let mut nr = 0usize;
		for _ in 0..len {
			let op = match next(14) {
				0 | 1 => {
					nh += 1;
					format!("new{}", next(4))
				}
				2 => "bad".into(),
				3 => {
					nh += 1;
					"cyc".into()
				}
				4 if nh > 0 => {
					let h = next(nh);
					nh += 1;
					format!("clone{h}")
				}
				5 | 6 if nh > 0 => format!("drop{}", next(nh)),
				7 | 8 if nh > 0 => format!("use{}", next(nh)),
				9 if nh > 0 => format!("thr{}", next(nh)),
				10 => {
					nr += 1;
					format!("open{}", next(6))
				}
				11 if nr > 0 => {
					nh += 1;
					format!("rs{}", next(nr))
				}
				12 if nr > 0 => format!("read{}", next(nr)),
				13 if nr > 0 => format!("dropr{}", next(nr)),
				_ => {
					nh += 1;
					format!("new{}", next(4))
				}
			};
			ops.push(op);
		}
		// make sure readers get read after schema handles were dropped
		if nr > 0 {
			ops.push(format!("read{}", next(nr)));
		}
		emit(ops.join(" "));
	}
}
