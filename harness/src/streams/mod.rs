//! One module per correspondence stream. `generate` writes case lines, `run_line` executes one
//! case against the real crate and prints its canonicalised outcome.
pub mod api;
pub mod consts;
pub mod crc;
pub mod de;
pub mod derive;
pub mod ocf;
pub mod schema;
pub mod ser;

pub use consts::dump_constants;

pub fn generate(stream: &str, seed: u64, n: usize, emit: &mut dyn FnMut(String)) {
	match stream {
		"ser" | "ser-valid" | "ser-mut" | "ser-sink" => ser::generate(stream, seed, n, emit),
		"crc" => crc::generate(seed, n, emit),
		"api" => api::generate(seed, n, emit),
		"rt" => ser::generate_rt(seed, n, emit),
		"rt-td" => ser::generate_rt_td(seed, n, emit),
		"prio" => ser::generate_prio(seed, n, emit),
		"freeze-table" => ser::generate_freeze_table(emit),
		"leaf-table" => ser::generate_leaf_table(emit),
		"chain" => schema::generate_chain(emit),
		"single" => ser::generate_single(seed, n, emit),
		"schema" | "schema-bad" | "names-table" => schema::generate(stream, seed, n, emit),
		"graph" | "graph-wild" => schema::generate_graph(stream, seed, n, emit),
		"graph-names" => schema::generate_graph_names(emit),
		"reuse" => ser::generate_reuse(seed, n, emit),
		"reuse-table" => ser::generate_reuse_table(emit),
		"perm" => ser::generate_perm(seed, n, emit),
		"c11" => de::generate_c11(seed, n, emit),
		"skip" => de::generate_skip(seed, n, emit),
		"de-alloc" => de::generate_alloc(seed, n, emit),
		"ocfw" | "ocfw-sink" | "ocfw-big" => ocf::generate_w(stream, seed, n, emit),
		"ocfx" => ocf::generate_x(seed, n, emit),
		"ocfr" | "ocfr-null" | "ocfr-big" | "ocfr-damage" | "ocfr-cap" | "ocfr-skip" | "ocfr-skipd" | "ocfd" => ocf::generate_r(stream, seed, n, emit),
		s if s.starts_with("de") => de::generate(stream, seed, n, emit),
		_ => panic!("unknown stream {stream}"),
	}
}

pub fn run_line(line: &str) -> String {
	crate::svser::SKIP_NAMES.with(|s| s.borrow_mut().clear());
	let cmd = line.split_ascii_whitespace().next().unwrap_or("");
	let r = std::panic::catch_unwind(|| match cmd {
		"" => Ok(String::new()),
		"ser" => ser::run(line),
		"crc" => crc::run(line),
		"api" => Ok(api::run_history(line)),
		"rt" => ser::run_rt(line),
		"genfail" => Ok("GENERATOR-WRITE-FAILED".into()),
		"chain" => schema::run_chain(line),
		"diamond" => schema::run_diamond(line),
		"single" => ser::run_single(line),
		"schema" => schema::run(line),
		"graph" => schema::run_graph(line),
		"reuse" => ser::run_reuse(line),
		"perm" => ser::run_perm(line),
		"de" => de::run(line),
		"c11" => de::run_c11(line),
		"skip" => de::run_skip(line),
		"dealloc" => de::run_alloc(line),
		"ocfw" => ocf::run_w(line),
		"ocfr" | "ocfd" => ocf::run_r(line),
		"ocfx" => ocf::run_x(line),
		_ => Err(format!("unknown stream {cmd}")),
	});
	match r {
		Ok(Ok(s)) => s,
		Ok(Err(e)) => format!("bad-case {e}"),
		Err(_) => "panic".to_string(),
	}
}
