//! Container-file streams: writer histories against scheduled sinks (`ocfw`), reader runs on
//! valid / damaged files over several back-ends (`ocfr`).
use crate::{build, gen::*, proto::*, streams::de::*};
use rand::{seq::SliceRandom, Rng};
use serde_avro_fast::object_container_file_encoding::{Compression, CompressionLevel, WriterBuilder};
use std::io::{Read, Write};

#[derive(Clone, Debug, PartialEq)]
pub enum SinkResp {
	Accept(usize),
	Interrupted,
	HardError,
}

/// A sink that answers each write call according to a schedule, then accepts everything
pub struct SchedSink {
	/// shared so that the harness can look at what the sink has received between calls
	pub data: std::rc::Rc<std::cell::RefCell<Vec<u8>>>,
	pub sched: std::collections::VecDeque<SinkResp>,
}
impl SchedSink {
	fn respond(&mut self, offered: &[&[u8]]) -> std::io::Result<usize> {
		match self.sched.pop_front() {
			None => {
				let mut n = 0;
				for b in offered {
					self.data.borrow_mut().extend_from_slice(b);
					n += b.len();
				}
				Ok(n)
			}
			Some(SinkResp::Accept(k)) => {
				let mut left = k;
				let mut n = 0;
				for b in offered {
					let m = left.min(b.len());
					self.data.borrow_mut().extend_from_slice(&b[..m]);
					left -= m;
					n += m;
				}
				Ok(n)
			}
			Some(SinkResp::Interrupted) => Err(std::io::Error::new(std::io::ErrorKind::Interrupted, "interrupted")),
			Some(SinkResp::HardError) => Err(std::io::Error::new(std::io::ErrorKind::Other, "sink failed")),
		}
	}
}
impl Write for SchedSink {
	fn write(&mut self, buf: &[u8]) -> std::io::Result<usize> {
		self.respond(&[buf])
	}
	fn write_vectored(&mut self, bufs: &[std::io::IoSlice<'_>]) -> std::io::Result<usize> {
		let v: Vec<&[u8]> = bufs.iter().map(|b| &**b).collect();
		self.respond(&v)
	}
	fn flush(&mut self) -> std::io::Result<()> {
		Ok(())
	}
}

pub const CODECS: [&str; 6] = ["null", "deflate", "bzip2", "snappy", "xz", "zstandard"];

pub fn compression(name: &str, level: Option<u8>) -> Compression {
	let l = match level {
		None => CompressionLevel::default(),
		Some(l) => CompressionLevel::new(l),
	};
	match name {
		"null" => Compression::Null,
		"deflate" => Compression::Deflate { level: l },
		"bzip2" => Compression::Bzip2 { level: l },
		"snappy" => Compression::Snappy,
		"xz" => Compression::Xz { level: l },
		"zstandard" => Compression::Zstandard { level: l },
		_ => panic!("codec {name}"),
	}
}

/// Independent decompression of one block (different API of the codec libraries than the crate
/// uses; checks law L1 on every block)
pub fn decompress(codec: &str, data: &[u8]) -> Option<Vec<u8>> {
	let mut out = vec![];
	match codec {
		"null" => return Some(data.to_vec()),
		"deflate" => {
			flate2::read::DeflateDecoder::new(data).read_to_end(&mut out).ok()?;
		}
		"bzip2" => {
			bzip2::read::BzDecoder::new(data).read_to_end(&mut out).ok()?;
		}
		"xz" => {
			xz2::read::XzDecoder::new(data).read_to_end(&mut out).ok()?;
		}
		"zstandard" => {
			out = zstd::stream::decode_all(data).ok()?;
		}
		"snappy" => {
			if data.len() < 4 {
				return None;
			}
			let (body, crc) = data.split_at(data.len() - 4);
			out = snap::raw::Decoder::new().decompress_vec(body).ok()?;
			if crc32fast::hash(&out).to_be_bytes() != crc {
				return None;
			}
		}
		_ => return None,
	}
	Some(out)
}

fn dec_long(b: &[u8]) -> Option<(i64, &[u8])> {
	let mut v: u64 = 0;
	for (i, &x) in b.iter().enumerate().take(10) {
		v |= ((x & 0x7f) as u64) << (7 * i);
		if x & 0x80 == 0 {
			let s = ((v >> 1) as i64) ^ -((v & 1) as i64);
			return Some((s, &b[i + 1..]));
		}
	}
	None
}
fn dec_bytes(b: &[u8]) -> Option<(&[u8], &[u8])> {
	let (n, rest) = dec_long(b)?;
	if n < 0 || (n as usize) > rest.len() {
		return None;
	}
	Some(rest.split_at(n as usize))
}

pub struct View {
	pub meta: Vec<(Vec<u8>, Vec<u8>)>,
	pub sync: Vec<u8>,
	/// (count, raw block data, decompressed data or None)
	pub blocks: Vec<(u64, Vec<u8>, Option<Vec<u8>>)>,
	pub trailing: usize,
	pub bad_sync: bool,
}

/// The harness's own container parser (from the specification)
pub fn parse_view(codec: &str, file: &[u8]) -> Option<View> {
	if file.len() < 4 || &file[..4] != b"Obj\x01" {
		return None;
	}
	let mut b = &file[4..];
	let mut meta = vec![];
	loop {
		let (mut c, rest) = dec_long(b)?;
		b = rest;
		if c == 0 {
			break;
		}
		if c < 0 {
			let (size, rest) = dec_long(b)?;
			if size < 0 {
				return None;
			}
			b = rest;
			c = -c;
		}
		for _ in 0..c {
			let (k, rest) = dec_bytes(b)?;
			let (v, rest) = dec_bytes(rest)?;
			meta.push((k.to_vec(), v.to_vec()));
			b = rest;
		}
	}
	if b.len() < 16 {
		return None;
	}
	let sync = b[..16].to_vec();
	b = &b[16..];
	let mut blocks = vec![];
	let mut bad_sync = false;
	loop {
		if b.is_empty() {
			break;
		}
		let Some((count, rest)) = dec_long(b) else { break };
		if count < 0 {
			break;
		}
		let Some((size, rest)) = dec_long(rest) else { break };
		if size < 0 || rest.len() < size as usize + 16 {
			break;
		}
		let data = &rest[..size as usize];
		if rest[size as usize..size as usize + 16] != sync[..] {
			bad_sync = true;
			break;
		}
		blocks.push((count as u64, data.to_vec(), decompress(codec, data)));
		b = &rest[size as usize + 16..];
	}
	Some(View { meta, sync, blocks, trailing: b.len(), bad_sync })
}

pub fn sink_status(codec: &str, sink: &[u8]) -> String {
	let is_null = codec == "null";
	let l = if is_null { format!("L{}", sink.len()) } else { String::new() };
	match parse_view(codec, sink) {
		None => format!("unparseable{l}"),
		Some(v) => {
			let vals: u64 = v.blocks.iter().map(|b| b.0).sum();
			format!(
				"B{}V{}T{}{}{}",
				v.blocks.len(),
				vals,
				if v.trailing == 0 { 0 } else { 1 },
				if v.bad_sync { "X" } else { "" },
				l
			)
		}
	}
}

pub fn view_string(v: &View) -> String {
	let mut w = W::default();
	w.t("H").n(v.meta.len());
	for (k, x) in &v.meta {
		w.xb(k).xb(x);
	}
	w.t("S").xb(&v.sync).t("B").n(v.blocks.len());
	for (c, raw, plain) in &v.blocks {
		w.n(*c as usize);
		match plain {
			Some(p) => w.xb(p),
			None => w.t(&format!("undecodable{}", raw.len())),
		};
	}
	w.t("T").n(v.trailing);
	w.s
}

#[derive(Clone, Debug)]
pub enum WOp {
	Val(SV),
	Push(Vec<u8>, u64),
	Finish,
	Into,
	Drop,
}

/// blocks whose uncompressed / compressed sizes sit on the internal buffer boundaries (8 KiB
/// `BufReader`, 32 KiB starting output vector and its doublings): incompressible payloads
pub fn generate_big(seed: u64, n: usize, emit: &mut dyn FnMut(String)) {
	let mut rng = rng_from(seed, "ocfw-big");
	let raw: RawSchema = vec![RawNode { reg: Reg::Bytes, logical: None }];
	let schema = build::to_schema_mut(&raw).freeze().unwrap();
	for i in 0..n {
		let codec = CODECS[i % CODECS.len()];
		let approx = *[65536usize, 0, 1 << 20, 32768].choose(&mut rng).unwrap();
		let k = rng.gen_range(1..3);
		let sync: Vec<u8> = (0..16).map(|_| rng.gen()).collect();
		let mut w = W::default();
		w.t("ocfw").t(codec).n(approx).n(cfg!(debug_assertions) as usize).schema(&raw).xs(schema.json()).n(0).xb(&sync).n(0);
		w.n(k + 1);
		for _ in 0..k {
			let len = *[8191usize, 8192, 8193, 32765, 32767, 32768, 32769, 40000, 65535, 65536, 65537, 70000].choose(&mut rng).unwrap();
			let payload: Vec<u8> = if rng.gen_bool(0.8) { (0..len).map(|_| rng.gen()).collect() } else { vec![7u8; len] };
			w.t("val").sv(&SV::Bytes(payload));
		}
		w.t("into");
		emit(w.s);
	}
}

pub fn generate_w(stream: &str, seed: u64, n: usize, emit: &mut dyn FnMut(String)) {
	if stream == "ocfw-big" {
		return generate_big(seed, n, emit);
	}
	let mut rng = rng_from(seed, stream);
	// (a second generator for the families added later, so that the cases of the first keep
	// their place in the sequence)
	let mut rng2 = rng_from(seed, "ocfw-sink-recover");
	for _ in 0..n {
		let mut sg = SchemaGen::new(&mut rng, 8, false);
		sg.decimals = false;
		let raw = sg.gen_root();
		let Ok(schema) = build::to_schema_mut(&raw).freeze() else { continue };
		let codec = if stream == "ocfw-sink" { "null" } else { *CODECS.choose(&mut rng).unwrap() };
		let approx = *[0usize, 1, 7, 30, 64, 65536].choose(&mut rng).unwrap();
		let nops = rng.gen_range(1..9);
		let mut ops = vec![];
		for i in 0..nops {
			let c = rng.gen_range(0..10);
			ops.push(match c {
				0 => WOp::Finish,
				1 if i + 1 == nops => WOp::Into,
				2 if i + 1 == nops => WOp::Drop,
				3 => {
					// pre-serialized objects
					let k = rng.gen_range(1..3);
					let mut bytes = vec![];
					for _ in 0..k {
						DatumGen { rng: &mut rng, schema: &raw, fancy_layout: false, nonminimal: 0.0 }.gen(0, 0, &mut bytes);
					}
					WOp::Push(bytes, k)
				}
				4 => {
					// a value that does not fit the schema (at some depth)
					let mut vg = ValueGen {
						rng: &mut rng,
						schema: &raw,
						allow_slow: false,
						// (out-of-order and map presentations too: a failure while fields are set aside
						// in pooled buffers is what must leave no trace for the next value)
						exotic: 0.5,
						invalid: 0.25,
						by_name_only: false,
						maybe_invalid: false,
						no_decimal_oracle: true,
					};
					WOp::Val(vg.gen(0, 0))
				}
				_ => {
					let mut vg = ValueGen {
						rng: &mut rng,
						schema: &raw,
						allow_slow: false,
						exotic: 0.1,
						invalid: 0.0,
						by_name_only: true,
						maybe_invalid: false,
						no_decimal_oracle: true,
					};
					WOp::Val(vg.gen(0, 0))
				}
			});
		}
		if !matches!(ops.last(), Some(WOp::Into | WOp::Drop)) {
			ops.push(if rng.gen_bool(0.5) { WOp::Into } else { WOp::Drop });
		}
		// a block filled to *exactly* the threshold by the first k operations, then (often) a value
		// that fails part-way: the boundary where "flush after" and "flush before" meet
		let mut approx = approx;
		if rng.gen_bool(0.3) {
			let mut config = serde_avro_fast::ser::SerializerConfig::new(&schema);
			let mut cum = vec![];
			let mut total = 0usize;
			for op in &ops {
				match op {
					WOp::Val(v) => match serde_avro_fast::to_datum_vec(v, &mut config) {
						Ok(b) => {
							total += b.len();
							cum.push(total);
						}
						Err(_) => break,
					},
					WOp::Push(b, _) => {
						total += b.len();
						cum.push(total);
					}
					_ => break,
				}
			}
			if let Some(&c) = cum.choose(&mut rng) {
				approx = c;
				let k = cum.iter().position(|&x| x == c).unwrap() + 1;
				if rng.gen_bool(0.7) {
					let mut vg = ValueGen {
						rng: &mut rng,
						schema: &raw,
						allow_slow: false,
						exotic: 0.0,
						invalid: 0.6,
						by_name_only: false,
						maybe_invalid: false,
						no_decimal_oracle: true,
					};
					let bad = WOp::Val(vg.gen(0, 0));
					ops.insert(k.min(ops.len() - 1), bad);
				}
			}
		}
		// a sink that fails ONCE, on a block, and then recovers - and a caller that carries on with
		// every kind of call: the header is taken whole, the j-th call after it is refused (hard
		// error, or zero bytes accepted), everything later is accepted; a `finish` followed by a
		// pre-serialized push is placed somewhere in the history (each entry point must first
		// write out a block that was closed but refused)
		let recover = stream == "ocfw-sink" && rng2.gen_bool(0.35);
		if recover {
			let at = rng2.gen_range(1..ops.len().max(2)).min(ops.len() - 1);
			let k = rng2.gen_range(1..3);
			let mut bytes = vec![];
			for _ in 0..k {
				DatumGen { rng: &mut rng2, schema: &raw, fancy_layout: false, nonminimal: 0.0 }.gen(0, 0, &mut bytes);
			}
			ops.insert(at, WOp::Push(bytes, k));
			ops.insert(at, WOp::Finish);
			if rng2.gen_bool(0.5) {
				approx = 65536;
			}
		}
		let sched: Vec<SinkResp> = if recover {
			let mut s = vec![SinkResp::Accept(1 << 24)];
			for _ in 0..rng2.gen_range(0..3) {
				s.push(SinkResp::Accept(1 << 24));
			}
			s.push(if rng2.gen_bool(0.7) { SinkResp::HardError } else { SinkResp::Accept(0) });
			s
		} else if stream == "ocfw-sink" {
			let k = rng.gen_range(0..12);
			(0..k)
				.map(|_| match rng.gen_range(0..12) {
					0 => SinkResp::Interrupted,
					1 => SinkResp::HardError,
					2 => SinkResp::Accept(0),
					_ => SinkResp::Accept(*[1usize, 1, 2, 3, 5, 16, 17, 40, 1000].choose(&mut rng).unwrap()),
				})
				.collect()
		} else {
			vec![]
		};
		let nmeta = rng.gen_range(0..3);
		let meta: Vec<(String, Vec<u8>)> = (0..nmeta).map(|i| (format!("user.k{i}"), gen_bytes(&mut rng))).collect();
		let sync: Vec<u8> = (0..16).map(|_| rng.gen()).collect();
		let mut w = W::default();
		w.t("ocfw").t(codec).n(approx).n(cfg!(debug_assertions) as usize).schema(&raw).xs(schema.json()).n(meta.len());
		for (k, v) in &meta {
			w.xs(k).xb(v);
		}
		w.xb(&sync).n(sched.len());
		for r in &sched {
			match r {
				SinkResp::Accept(k) => w.t(&format!("a{k}")),
				SinkResp::Interrupted => w.t("i"),
				SinkResp::HardError => w.t("e"),
			};
		}
		w.n(ops.len());
		let mut all = SV::Unit;
		let mut vals = vec![];
		for op in &ops {
			match op {
				WOp::Val(v) => {
					w.t("val").sv(v);
					vals.push(v.clone());
				}
				WOp::Push(b, k) => {
					w.t("push").xb(b).n(*k as usize);
				}
				WOp::Finish => {
					w.t("finish");
				}
				WOp::Into => {
					w.t("into");
				}
				WOp::Drop => {
					w.t("drop");
				}
			}
		}
		// oracle entries for f64 -> f32 on all values
		all = SV::Seq(None, vals);
		crate::streams::ser::ext_entries(&mut w, &raw, &all);
		emit(w.s);
	}
}

pub fn run_w(line: &str) -> Result<String, String> {
	let mut r = R::new(line);
	let _ = r.tok()?;
	let codec = r.tok()?.to_string();
	let approx = r.n()?;
	let _debug = r.n()?;
	let raw = r.schema()?;
	let _json = r.xb()?;
	let meta: Vec<(String, Vec<u8>)> = r.list(|r| Ok((r.xs()?, r.xb()?)))?;
	let sync = r.xb()?;
	let sched: Vec<SinkResp> = r.list(|r| {
		let t = r.tok()?;
		Ok(match t {
			"i" => SinkResp::Interrupted,
			"e" => SinkResp::HardError,
			_ => SinkResp::Accept(t[1..].parse().map_err(|_| format!("bad resp {t}"))?),
		})
	})?;
	let ops: Vec<WOp> = r.list(|r| {
		Ok(match r.tok()? {
			"val" => WOp::Val(r.sv()?),
			"push" => WOp::Push(r.xb()?, r.n()? as u64),
			"finish" => WOp::Finish,
			"into" => WOp::Into,
			"drop" => WOp::Drop,
			t => return Err(format!("unknown writer op {t}")),
		})
	})?;
	let schema = match build::to_schema_mut_sel(&raw, line.len()).freeze() {
		Ok(s) => s,
		Err(_) => return Ok("freeze-err".into()),
	};
	let shared = std::rc::Rc::new(std::cell::RefCell::new(vec![]));
	// (a sink that accepts everything cannot make the flush of `Drop` fail: only then is the drop
	// also exercised while the thread is unwinding, where a failure would be swallowed)
	let drop_while_unwinding = sched.is_empty() && line.len() % 2 == 1;
	let sink = SchedSink { data: shared.clone(), sched: sched.into_iter().collect() };
	let mut config = serde_avro_fast::ser::SerializerConfig::new(&schema);
	let sync_arr: [u8; 16] = sync.clone().try_into().map_err(|_| "sync marker must be 16 bytes")?;
	// user metadata as a map with deterministic order
	let meta_map: std::collections::BTreeMap<String, serde_bytes::ByteBuf> =
		meta.iter().map(|(k, v)| (k.clone(), serde_bytes::ByteBuf::from(v.clone()))).collect();
	// the builder borrows the caller's configuration, or owns one (odd case lines)
	let builder = if line.len() % 2 == 1 {
		WriterBuilder::with_owned_config(serde_avro_fast::ser::SerializerConfig::new(&schema))
	} else {
		WriterBuilder::new(&mut config)
	};
	let built = builder
		.compression(compression(&codec, None))
		.approx_block_size(approx as u32)
		.sync_marker(sync_arr)
		.build_with_user_metadata(sink, meta_map);
	let peek = || shared.borrow().clone();
	let mut writer = match built {
		Ok(w) => Some(w),
		Err(_) => {
			return Ok(format!("build-err {}", sink_status(&codec, &peek())));
		}
	};
	let mut outs = vec![];
	for op in &ops {
		let Some(w) = writer.as_mut() else { break };
		let res = std::panic::catch_unwind(std::panic::AssertUnwindSafe(|| match op {
			WOp::Val(v) => w.serialize(v).map_err(|_| ()),
			WOp::Push(b, k) => w.push_serialized(b, *k).map_err(|_| ()),
			WOp::Finish => w.finish_block().map_err(|_| ()),
			WOp::Into | WOp::Drop => Ok(()),
		}));
		let res = match op {
			WOp::Into => {
				let w = writer.take().unwrap();
				std::panic::catch_unwind(std::panic::AssertUnwindSafe(|| w.into_inner().map(|_| ()).map_err(|_| ())))
			}
			WOp::Drop if drop_while_unwinding => {
				// the writer goes out of scope because a panic unwinds through its owner (a value
				// that was `unwrap`ped, an unrelated bug): what was serialized must still reach the sink
				let w = writer.take().unwrap();
				let _ = std::panic::catch_unwind(std::panic::AssertUnwindSafe(move || {
					let _owner = w;
					std::panic::resume_unwind(Box::new(()));
				}));
				Ok(Ok(()))
			}
			WOp::Drop => {
				let w = writer.take().unwrap();
				std::panic::catch_unwind(std::panic::AssertUnwindSafe(|| {
					drop(w);
					Ok(())
				}))
			}
			_ => res,
		};
		let rs = match res {
			Ok(Ok(())) => "ok",
			Ok(Err(())) => "err",
			Err(_) => "panic",
		};
		outs.push(format!("{rs}@{}", sink_status(&codec, &peek())));
		if rs == "panic" {
			// the writer may be in an arbitrary state: stop the history (leak it to avoid Drop)
			if let Some(w) = writer.take() {
				std::mem::forget(w);
			}
		}
	}
	if let Some(w) = writer.take() {
		std::mem::forget(w);
	}
	let fin = match parse_view(&codec, &peek()) {
		None => "unparseable".to_string(),
		Some(v) => view_string(&v),
	};
	Ok(format!("{} ; {}", outs.join(" "), fin))
}

// ---------------------------------------------------------------------------------------------
// Reader runs

/// One-shot compression through the libraries' own encoders (an independent conforming writer)
pub fn compress_block(codec: &str, data: &[u8]) -> Vec<u8> {
	match codec {
		"null" => data.to_vec(),
		"deflate" => {
			let mut e = flate2::write::DeflateEncoder::new(vec![], flate2::Compression::default());
			e.write_all(data).unwrap();
			e.finish().unwrap()
		}
		"bzip2" => {
			let mut e = bzip2::write::BzEncoder::new(vec![], bzip2::Compression::default());
			e.write_all(data).unwrap();
			e.finish().unwrap()
		}
		"xz" => {
			let mut e = xz2::write::XzEncoder::new(vec![], 6);
			e.write_all(data).unwrap();
			e.finish().unwrap()
		}
		"zstandard" => zstd::encode_all(data, 0).unwrap(),
		"snappy" => {
			let mut out = snap::raw::Encoder::new().compress_vec(data).unwrap();
			out.extend_from_slice(&crc32fast::hash(data).to_be_bytes());
			out
		}
		_ => panic!("codec"),
	}
}

fn put_long(v: i64, out: &mut Vec<u8>) {
	varint_u(zigzag(v), out)
}
fn put_bytes(b: &[u8], out: &mut Vec<u8>) {
	put_long(b.len() as i64, out);
	out.extend_from_slice(b);
}

/// A conforming file assembled by the harness itself: any metadata order, extra keys, metadata
/// split in blocks (also with negative counts), codec key absent for null, any block partition.
pub fn independent_file(
	rng: &mut rand::rngs::StdRng,
	codec: &str,
	json: &str,
	datums: &[Vec<u8>],
	sync: &[u8],
) -> Vec<u8> {
	independent_file_with(rng, codec, json, datums, sync, None)
}

/// `bulk = Some(n)`: `n` extra user entries `bulk.k0` … and the codec entry always present, so the
/// metadata map has `n + 2` entries - around the 1000 the reader's header configuration allows
/// (`max_seq_size = 1_000`, reader/mod.rs; theorems `C06_header_bytes_needs_max_seq` / `_sharp`)
pub fn independent_file_with(
	rng: &mut rand::rngs::StdRng,
	codec: &str,
	json: &str,
	datums: &[Vec<u8>],
	sync: &[u8],
	bulk: Option<usize>,
) -> Vec<u8> {
	let mut f = b"Obj\x01".to_vec();
	let mut entries: Vec<(Vec<u8>, Vec<u8>)> = vec![(b"avro.schema".to_vec(), json.as_bytes().to_vec())];
	if codec != "null" || bulk.is_some() || rng.gen_bool(0.5) {
		entries.push((b"avro.codec".to_vec(), codec.as_bytes().to_vec()));
	}
	if let Some(n) = bulk {
		for i in 0..n {
			entries.push((format!("bulk.k{i}").into_bytes(), vec![i as u8]));
		}
	} else {
		for i in 0..rng.gen_range(0..3) {
			entries.push((format!("extra.key{i}").into_bytes(), gen_bytes(rng)));
		}
	}
	entries.shuffle(rng);
	let mut i = 0;
	while i < entries.len() {
		let c = rng.gen_range(1..=(entries.len() - i));
		let mut body = vec![];
		for (k, v) in &entries[i..i + c] {
			put_bytes(k, &mut body);
			put_bytes(v, &mut body);
		}
		if rng.gen_bool(0.4) {
			put_long(-(c as i64), &mut f);
			put_long(body.len() as i64, &mut f);
		} else {
			put_long(c as i64, &mut f);
		}
		f.extend_from_slice(&body);
		i += c;
	}
	put_long(0, &mut f);
	f.extend_from_slice(sync);
	let mut i = 0;
	while i < datums.len() {
		let c = rng.gen_range(1..=(datums.len() - i));
		let body: Vec<u8> = datums[i..i + c].concat();
		let data = compress_block(codec, &body);
		put_long(c as i64, &mut f);
		put_long(data.len() as i64, &mut f);
		f.extend_from_slice(&data);
		f.extend_from_slice(sync);
		i += c;
	}
	f
}

pub fn crate_file(
	rng: &mut rand::rngs::StdRng,
	codec: &str,
	schema: &serde_avro_fast::Schema,
	values: &[SV],
	sync: &[u8],
) -> Option<Vec<u8>> {
	let approx = *[0u32, 7, 30, 65536].choose(rng).unwrap();
	let level = if rng.gen_bool(0.5) { None } else { Some(*[1u8, 3, 9, 10, 22, 200, 255].choose(rng).unwrap()) };
	// the one-call entry point (its own configuration, default block size, a sync marker of its
	// own choosing - the reader takes the marker from the header)
	if rng.gen_bool(0.15) {
		return serde_avro_fast::object_container_file_encoding::write_all(schema, compression(codec, level), Vec::new(), values.iter()).ok();
	}
	let mut config = serde_avro_fast::ser::SerializerConfig::new(schema);
	let mut w = WriterBuilder::new(&mut config)
		.compression(compression(codec, level))
		.approx_block_size(approx)
		.sync_marker(sync.try_into().unwrap())
		.build(Vec::new())
		.ok()?;
	if rng.gen_bool(0.2) {
		// all values through `serialize_all`, the sink looked at through the accessors
		w.serialize_all(values.iter()).ok()?;
		let seen = w.inner().len();
		let seen_mut = w.inner_mut().len();
		if seen != seen_mut {
			return None;
		}
		return w.into_inner().ok();
	}
	for v in values {
		w.serialize(v).ok()?;
		if rng.gen_bool(0.2) {
			w.finish_block().ok()?;
		}
	}
	w.into_inner().ok()
}

/// (offset of the count, of the size, of the data, end of the data) of every well-framed block
fn block_offsets(file: &[u8]) -> Vec<(usize, usize, usize, usize)> {
	let mut out = vec![];
	let Some(view) = parse_view("null", file) else { return out };
	// header length: everything before the first block
	let blocks_len: usize = view
		.blocks
		.iter()
		.map(|(c, data, _)| {
			let mut h = vec![];
			put_long(*c as i64, &mut h);
			put_long(data.len() as i64, &mut h);
			h.len() + data.len() + 16
		})
		.sum();
	let mut pos = file.len() - view.trailing - blocks_len;
	for (c, data, _) in &view.blocks {
		let mut h = vec![];
		put_long(*c as i64, &mut h);
		let size_off = pos + h.len();
		put_long(data.len() as i64, &mut h);
		let data_off = pos + h.len();
		out.push((pos, size_off, data_off, data_off + data.len()));
		pos = data_off + data.len() + 16;
	}
	out
}

/// `ocfr cap …`: null-codec files of several blocks read through `Reader::new(ReaderRead { max_alloc_size, .. })`
/// with a cap the caller set just above the header's largest field; length-delimited fields sit
/// around that cap, in the first block and - what matters - in later ones (the per-block reader
/// and the reader it is turned back into between blocks must both carry the cap).
fn generate_cap(seed: u64, n: usize, emit: &mut dyn FnMut(String)) {
	let mut rng = rng_from(seed, "ocfr-cap");
	let nd = |reg: Reg| RawNode { reg, logical: None };
	for _ in 0..n {
		let shape = rng.gen_range(0..5);
		let raw: RawSchema = match shape {
			0 => vec![nd(Reg::String)],
			1 => vec![nd(Reg::Bytes)],
			2 => vec![nd(Reg::Record("R".into(), vec![("a".into(), 1), ("s".into(), 2)])), nd(Reg::Int), nd(Reg::String)],
			3 => vec![nd(Reg::Array(1)), nd(Reg::Bytes)],
			_ => vec![nd(Reg::Union(vec![1, 2])), nd(Reg::Null), nd(Reg::String)],
		};
		let Ok(schema) = build::to_schema_mut(&raw).freeze() else { continue };
		let cap = schema.json().len() + rng.gen_range(0..6);
		let k = rng.gen_range(3..7);
		let big_at = rng.gen_range(0..k);
		let mut config = serde_avro_fast::ser::SerializerConfig::new(&schema);
		let mut datums = vec![];
		for i in 0..k {
			let len = if i == big_at || rng.gen_bool(0.15) {
				*[cap - 1, cap, cap + 1, cap + 40, 2 * cap].choose(&mut rng).unwrap()
			} else {
				rng.gen_range(0..6)
			};
			let text: String = (0..len).map(|_| (b'a' + rng.gen_range(0..26)) as char).collect();
			let v = match shape {
				0 => SV::Str(text),
				1 => SV::Bytes(text.into_bytes()),
				2 => SV::Struct("R".into(), vec![("a".into(), SV::Int(IntTy::I32, crate::proto::BigI::Pos(i as u128))), ("s".into(), SV::Str(text))]),
				3 => SV::Seq(Some(2), vec![SV::Bytes(vec![1, 2]), SV::Bytes(text.into_bytes())]),
				_ if rng.gen_bool(0.3) => SV::None,
				_ => SV::Some(Box::new(SV::Str(text))),
			};
			datums.push(serde_avro_fast::to_datum_vec(&v, &mut config).expect("conforming value"));
		}
		let sync: Vec<u8> = (0..16).map(|_| rng.gen()).collect();
		let file = independent_file(&mut rng, "null", schema.json(), &datums, &sync);
		// With a cap in place what a reader accepts depends on what its source has buffered: the
		// model tracks the source's buffer exactly, across blocks too. Half of the schedules are
		// arbitrary, half put a chunk boundary at the end of every block's data.
		let mut bounds: Vec<usize> = block_offsets(&file).iter().map(|o| o.3).collect();
		bounds.push(file.len());
		let mut backends = vec![];
		for _ in 0..rng.gen_range(2..5) {
			let unit = *[1usize, 2, 3, 7, 16, 64, 300, 8192].choose(&mut rng).unwrap();
			let mut sched = vec![];
			if rng.gen_bool(0.5) {
				let mut pos = 0;
				for &b in &bounds {
					while pos < b {
						let c = (if rng.gen_bool(0.7) { unit } else { rng.gen_range(1..=40) }).min(b - pos);
						sched.push(c);
						pos += c;
					}
				}
			} else {
				for _ in 0..rng.gen_range(0..8) {
					sched.push(rng.gen_range(1..=file.len() + 2));
				}
			}
			backends.push(Backend::Reader { last: unit, sched, max_alloc: cap });
		}
		let mut w = W::default();
		w.t("ocfr").t("cap").t("null").schema(&raw).xs(schema.json()).hint(&Hint::Any).n(backends.len());
		for b in &backends {
			write_backend(&mut w, b);
		}
		w.xb(&file).n(datums.len());
		for d in &datums {
			w.xb(d);
		}
		w.n(0);
		emit(w.s);
	}
}

pub fn generate_r(stream: &str, seed: u64, n: usize, emit: &mut dyn FnMut(String)) {
	if stream == "ocfr-cap" {
		return generate_cap(seed, n, emit);
	}
	let mut rng = rng_from(seed, stream);
	let mut produced = 0;
	let mut files = 0usize;
	while produced < n {
		if stream == "ocfd" && files < CODECS.len() {
			// A block of 1024 16-byte objects (two internal 8 KiB buffers of decompressed data) that
			// declares fewer objects than it holds - exactly one buffer's worth (512), one less, one
			// more, all but one -, followed by a well-formed block: the reader must report the
			// mismatch, whatever the codec and wherever the declared objects happen to end.
			// (first thing in the stream, one family per codec: a short run must not depend on luck
			// to meet it)
			let codec = CODECS[files];
			files += 1;
			let raw: RawSchema = vec![RawNode { reg: Reg::Fixed("F".into(), 16), logical: None }];
			let schema = build::to_schema_mut(&raw).freeze().expect("fixed schema");
			let sync: Vec<u8> = (0..16).map(|_| rng.gen()).collect();
			let datums: Vec<Vec<u8>> = (0..1026).map(|_| (0..16).map(|_| rng.gen()).collect()).collect();
			let header = independent_file(&mut rng, codec, schema.json(), &[], &sync);
			for declared in [512i64, 511, 513, 1023, 1] {
				let mut f = header.clone();
				let data = compress_block(codec, &datums[..1024].concat());
				put_long(declared, &mut f);
				put_long(data.len() as i64, &mut f);
				f.extend_from_slice(&data);
				f.extend_from_slice(&sync);
				let data2 = compress_block(codec, &datums[1024..].concat());
				put_long(2, &mut f);
				put_long(data2.len() as i64, &mut f);
				f.extend_from_slice(&data2);
				f.extend_from_slice(&sync);
				let backends = vec![Backend::Slice, Backend::Reader { last: 8192, sched: vec![], max_alloc: 512 * 1024 * 1024 }, Backend::Reader { last: 7, sched: vec![], max_alloc: 512 * 1024 * 1024 }];
				let mut w = W::default();
				w.t("ocfd").t("countlow").t(codec).schema(&raw).xs(schema.json()).hint(&Hint::Any).n(backends.len());
				for b in &backends {
					write_backend(&mut w, b);
				}
				w.xb(&f).n(datums.len());
				for d in &datums {
					w.xb(d);
				}
				w.n(0);
				emit(w.s);
				produced += 1;
			}
			continue;
		}
		if stream == "ocfr-damage" && files < 4 {
			// a value the TARGET rejects in the middle of a block whose framing is intact (a string
			// that is not UTF-8): the bytes of the rejected field are consumed all the same, so the
			// slice back-end carries on with the following objects of the block from the right place
			let fam = files;
			let mut rng2 = rng_from(seed ^ fam as u64, "ocfr-damage-utf8");
			files += 1;
			let raw: RawSchema = if fam % 2 == 0 {
				vec![RawNode { reg: Reg::String, logical: None }]
			} else {
				vec![
					RawNode { reg: Reg::Record("R".into(), vec![("a".into(), 1), ("b".into(), 2), ("c".into(), 1)]), logical: None },
					RawNode { reg: Reg::String, logical: None },
					RawNode { reg: Reg::Long, logical: None },
				]
			};
			let schema = build::to_schema_mut(&raw).freeze().expect("string schema");
			let sync: Vec<u8> = (0..16).map(|_| rng2.gen()).collect();
			let mut config = serde_avro_fast::ser::SerializerConfig::new(&schema);
			let texts = ["first", "second-value", "third", "fourth!"];
			let mut datums: Vec<Vec<u8>> = vec![];
			for (i, s) in texts.iter().enumerate() {
				let v = if fam % 2 == 0 {
					SV::Str(s.to_string())
				} else {
					SV::Struct("R".into(), vec![("a".into(), SV::Str(s.to_string())), ("b".into(), SV::Int(IntTy::I64, crate::proto::BigI::Pos(40 + i as u128))), ("c".into(), SV::Str("ok".into()))])
				};
				datums.push(serde_avro_fast::to_datum_vec(&v, &mut config).unwrap());
			}
			let mut f = independent_file(&mut rng2, "null", schema.json(), &[], &sync);
			let mut data = datums.concat();
			// the second object's first string: its second byte becomes 0xFF
			let at = datums[0].len() + 2 + (fam / 2);
			data[at] = 0xff;
			put_long(datums.len() as i64, &mut f);
			put_long(data.len() as i64, &mut f);
			f.extend_from_slice(&data);
			f.extend_from_slice(&sync);
			let backends = vec![Backend::Slice, Backend::Reader { last: 8192, sched: vec![], max_alloc: 512 * 1024 * 1024 }, Backend::Reader { last: 3, sched: vec![], max_alloc: 512 * 1024 * 1024 }];
			let mut w = W::default();
			w.t("ocfr").t("flip").t("null").schema(&raw).xs(schema.json()).hint(&Hint::Any).n(backends.len());
			for b in &backends {
				write_backend(&mut w, b);
			}
			w.xb(&f).n(datums.len());
			for d in &datums {
				w.xb(d);
			}
			w.n(0);
			emit(w.s);
			produced += 1;
			continue;
		}
		let big = stream == "ocfr-big";
		let mut sg = SchemaGen::new(&mut rng, 8, false);
		// decimals only where the file is damaged on purpose (an I/O error met while the bytes of a
		// decimal are read must stop the reader like any other)
		sg.decimals = stream == "ocfr-damage";
		// big files: long byte strings, or - every third one - long arrays (more items than the
		// limit the reader sets for the *header's* metadata map, which must not apply to the data)
		let long_arrays = big && produced % 3 == 2;
		let raw = if long_arrays {
			vec![RawNode { reg: Reg::Array(1), logical: None }, RawNode { reg: Reg::Int, logical: None }]
		} else if big {
			vec![RawNode { reg: Reg::Bytes, logical: None }]
		} else {
			sg.gen_root()
		};
		let Ok(schema) = build::to_schema_mut(&raw).freeze() else { continue };
		let codec = match stream {
			// (damaged input is only modelled for the null codec: the compressed ones are judged on
			// the real code by `ocfd`)
			"ocfr-null" | "ocfr-damage" | "ocfr-skipd" => "null",
			// (null twice as often: the slice door reads its blocks in place)
			"ocfr-skip" => {
				files += 1;
				if files % 2 == 0 {
					"null"
				} else {
					CODECS[files % CODECS.len()]
				}
			}
			"ocfr-big" => CODECS[produced % CODECS.len()],
			// a damaged file gives a dozen cases: take the codecs in turn, so that a short run
			// still meets every one of them
			"ocfd" => {
				files += 1;
				CODECS[files % CODECS.len()]
			}
			_ => *CODECS.choose(&mut rng).unwrap(),
		};
		let k = if big { rng.gen_range(1..3) } else { rng.gen_range(0..7) };
		let mut values = vec![];
		let mut datums = vec![];
		let mut config = serde_avro_fast::ser::SerializerConfig::new(&schema);
		let mut ok = true;
		for _ in 0..k {
			if stream == "ocfr-skip" || stream == "ocfr-skipd" {
				// every legal layout of the datum: blocks with and without byte sizes (which this
				// crate's serializer never writes, and which let an ignoring target jump)
				let mut b = vec![];
				DatumGen { rng: &mut rng, schema: &raw, fancy_layout: true, nonminimal: 0.0 }.gen(0, 0, &mut b);
				datums.push(b);
				continue;
			}
			if long_arrays {
				let n = *[999usize, 1000, 1001, 2500].choose(&mut rng).unwrap();
				let v = SV::Seq(Some(n), (0..n).map(|k| SV::Int(IntTy::I32, crate::proto::BigI::Pos((k % 100) as u128))).collect());
				datums.push(serde_avro_fast::to_datum_vec(&v, &mut config).unwrap());
				values.push(v);
				continue;
			}
			if big {
				let len = *[8191usize, 8192, 8193, 32765, 32768, 32769, 40000, 65536, 65537].choose(&mut rng).unwrap();
				let payload: Vec<u8> = if rng.gen_bool(0.8) { (0..len).map(|_| rng.gen()).collect() } else { vec![7u8; len] };
				let v = SV::Bytes(payload);
				datums.push(serde_avro_fast::to_datum_vec(&v, &mut config).unwrap());
				values.push(v);
				continue;
			}
			let mut vg = ValueGen {
				rng: &mut rng,
				schema: &raw,
				allow_slow: false,
				exotic: 0.0,
				invalid: 0.0,
				by_name_only: true,
				maybe_invalid: false,
				no_decimal_oracle: true,
			};
			let v = vg.gen(0, 0);
			match serde_avro_fast::to_datum_vec(&v, &mut config) {
				Ok(d) => {
					datums.push(d);
					values.push(v);
				}
				Err(_) => ok = false,
			}
		}
		if !ok {
			continue;
		}
		let sync: Vec<u8> = (0..16).map(|_| rng.gen()).collect();
		let file = if stream != "ocfr-skip" && stream != "ocfr-skipd" && rng.gen_bool(0.5) {
			match crate_file(&mut rng, codec, &schema, &values, &sync) {
				Some(f) => f,
				None => {
					// the crate's own writer refused values that each serialize as a datum: that is a
					// failure of the property this stream is about, not a case to drop silently
					emit(format!("genfail {codec} the container writer returned an error on conforming values"));
					produced += 1;
					continue;
				}
			}
		} else if stream == "ocfr" && rng.gen_ratio(1, 16) {
			// a metadata map of 999 … 1002 entries: the header configuration's limit of 1000
			let n = *[997usize, 998, 999, 1000].choose(&mut rng).unwrap();
			independent_file_with(&mut rng, codec, schema.json(), &datums, &sync, Some(n))
		} else {
			independent_file(&mut rng, codec, schema.json(), &datums, &sync)
		};
		let hint = if stream == "ocfr-skip" || stream == "ocfr-skipd" {
			// a target that ignores parts of each object (a struct lacking fields, an ignored map
			// value, a unit variant for a union branch)
			crate::gen::skip_hint(&mut rng, &raw, 0, 0)
		} else if rng.gen_bool(0.7) {
			Hint::Any
		} else {
			shape_hint(&mut rng, &raw, 0, 0, 0.0)
		};
		let variants: Vec<(String, Vec<u8>)> = match stream {
			"ocfr-damage" | "ocfd" | "ocfr-skipd" => {
				let mut v = vec![];
				// every truncation offset would be thorough; sample offsets, always include the
				// block boundaries' neighbourhoods
				let cuts = 6.min(file.len());
				for _ in 0..cuts {
					let at = rng.gen_range(0..file.len());
					v.push(("trunc".to_string(), file[..at].to_vec()));
				}
				for _ in 0..4 {
					let mut f = file.clone();
					let at = rng.gen_range(0..f.len());
					f[at] ^= 1 << rng.gen_range(0..8);
					v.push(("flip".to_string(), f));
				}
				// targeted damage of the framing itself: a block's object count or byte size made
				// negative or huge, cuts inside the count / size varints, at the start of the data,
				// and inside the sync marker
				let offs = block_offsets(&file);
				if !offs.is_empty() {
					let (count_off, size_off, data_off, data_end) = offs[rng.gen_range(0..offs.len())];
					let at = *[count_off, size_off].choose(&mut rng).unwrap();
					let mut f = file.clone();
					match rng.gen_range(0..3) {
						0 => f[at] ^= 1,
						1 => f[at] |= 0x80,
						_ => f[at] = 0x7f,
					}
					v.push(("flip".to_string(), f));
					// the object count one less / one more than the block holds (still a well-formed
					// varint): data left in the block after the declared objects, resp. an object
					// missing - with every codec
					for &(count_off, _, data_off, data_end) in offs.iter().take(3) {
						let c = file[count_off];
						if c & 0x80 == 0 && c >= 4 && c & 1 == 0 && c < 0x7e {
							let mut f = file.clone();
							f[count_off] = if rng.gen_bool(0.7) { c - 2 } else { c + 2 };
							v.push(("flip".to_string(), f));
						}
						// snappy: the trailing CRC-32 of the plain data, and the length the compressed
						// stream announces for it
						if codec == "snappy" && data_end >= data_off + 5 && rng.gen_bool(0.5) {
							let mut f = file.clone();
							f[data_end - 1 - rng.gen_range(0..4)] ^= 1 << rng.gen_range(0..8);
							v.push(("flip".to_string(), f));
							let mut f = file.clone();
							f[data_off] ^= 1 << rng.gen_range(0..7);
							v.push(("flip".to_string(), f));
						}
					}
					// cuts inside the block's data: every value kind has its own read path and its own
					// conversion of "the input ended here" into an error
					if data_end > data_off + 1 {
						for _ in 0..8 {
							let at = rng.gen_range(data_off + 1..data_end);
							v.push(("trunc".to_string(), file[..at].to_vec()));
						}
					}
					let mut cuts = vec![count_off, size_off, data_off, data_end, data_end + 1, data_end + 15];
					for o in size_off + 1..data_off {
						cuts.push(o);
					}
					for _ in 0..3 {
						let at = *cuts.choose(&mut rng).unwrap();
						if at < file.len() {
							v.push(("trunc".to_string(), file[..at].to_vec()));
						}
					}
				}
				v
			}
			_ => vec![("valid".to_string(), file.clone())],
		};
		let mut variants = variants;
		if stream == "ocfd" {
			// a transient fault of the source at its k-th refill, of every error kind a socket, a
			// pipe or a signal produces: reported once, then end of stream - whatever the kind
			for _ in 0..4 {
				let kname = *["other", "interrupted", "wouldblock", "timedout", "unexpectedeof", "invaliddata", "brokenpipe"].choose(&mut rng).unwrap();
				let at = rng.gen_range(0..(file.len() / 3).max(2));
				variants.push((format!("fault:{kname}:{at}"), file.clone()));
			}
		}
		for (kind, f) in variants {
			let mut backends = vec![Backend::Slice];
			for c in [1usize, 2, 3, 7, 64, 8192] {
				if rng.gen_bool(0.5) {
					backends.push(Backend::Reader { last: c, sched: vec![], max_alloc: 512 * 1024 * 1024 });
				}
			}
			let mut b = random_backend(&mut rng, f.len());
			if let Backend::Reader { max_alloc, .. } = &mut b {
				*max_alloc = 512 * 1024 * 1024;
			}
			backends.push(b);
			let mut w = W::default();
			w.t(if stream == "ocfd" { "ocfd" } else { "ocfr" }).t(&kind).t(codec).schema(&raw).xs(schema.json()).hint(&hint).n(backends.len());
			for b in &backends {
				write_backend(&mut w, b);
			}
			w.xb(&f).n(datums.len());
			for d in &datums {
				w.xb(d);
			}
			// decompression table for the blocks the harness's parser finds
			let table: Vec<(Vec<u8>, Option<Vec<u8>>)> = if codec == "null" {
				vec![]
			} else {
				parse_view(codec, &f).map(|v| v.blocks.into_iter().map(|(_, raw, plain)| (raw, plain)).collect()).unwrap_or_default()
			};
			w.n(table.len());
			for (raw, plain) in &table {
				w.xb(raw);
				match plain {
					Some(p) => w.xb(p),
					None => w.t("none"),
				};
			}
			emit(w.s);
			produced += 1;
		}
	}
}

fn read_all<'de, R>(mut reader: serde_avro_fast::object_container_file_encoding::Reader<R>, hint: &Hint, file_len: usize) -> Vec<String>
where
	R: serde_avro_fast::de::read::ReadSlice<'de> + serde_avro_fast::de::read::take::Take + std::io::BufRead,
	<R as serde_avro_fast::de::read::take::Take>::Take: serde_avro_fast::de::read::ReadSlice<'de> + std::io::BufRead,
{
	let mut outs = vec![];
	let mut eofs = 0;
	// the iterator entry point (`Reader::deserialize`) instead of `deserialize_seed_next`, for
	// files of an even length read without a shape hint: it must yield the same sequence
	if *hint == Hint::Any && file_len % 2 == 0 {
		let mut it = reader.deserialize::<crate::streams::ser::AnyOut>();
		for _ in 0..(400 + file_len / 16) {
			match it.next() {
				None => {
					outs.push("eof".to_string());
					eofs += 1;
					if eofs >= 2 {
						break;
					}
				}
				Some(Ok(o)) => {
					eofs = 0;
					let mut w = W::default();
					w.t("v").out(&o.0);
					outs.push(w.s);
				}
				Some(Err(e)) => {
					eofs = 0;
					outs.push(if e.io_error().is_some() { "e io".into() } else { "e custom".into() });
				}
			}
		}
		return outs;
	}
	for _ in 0..(400 + file_len / 16) {
		match reader.deserialize_seed_next(crate::hintde::HS(hint)) {
			Ok(None) => {
				outs.push("eof".to_string());
				eofs += 1;
				if eofs >= 2 {
					break;
				}
			}
			Ok(Some(o)) => {
				eofs = 0;
				let mut w = W::default();
				w.t("v").out(&o);
				outs.push(w.s);
			}
			Err(e) => {
				eofs = 0;
				outs.push(if e.io_error().is_some() { "e io".into() } else { "e custom".into() });
			}
		}
	}
	outs
}

/// A `BufRead` that fails ONCE, at its k-th `fill_buf` call, with an error of the given kind, and
/// works normally before and after (a transient fault of the underlying source).
pub struct FaultReader<R> {
	pub inner: R,
	pub calls: usize,
	pub at: usize,
	pub kind: std::io::ErrorKind,
	pub fired: bool,
}
impl<R: std::io::BufRead> std::io::BufRead for FaultReader<R> {
	fn fill_buf(&mut self) -> std::io::Result<&[u8]> {
		self.calls += 1;
		if !self.fired && self.calls > self.at {
			self.fired = true;
			return Err(std::io::Error::new(self.kind, "injected fault"));
		}
		self.inner.fill_buf()
	}
	fn consume(&mut self, n: usize) {
		self.inner.consume(n)
	}
}
impl<R: std::io::BufRead> std::io::Read for FaultReader<R> {
	fn read(&mut self, buf: &mut [u8]) -> std::io::Result<usize> {
		use std::io::BufRead;
		if buf.is_empty() {
			return Ok(0);
		}
		let b = self.fill_buf()?;
		let m = b.len().min(buf.len());
		buf[..m].copy_from_slice(&b[..m]);
		self.consume(m);
		Ok(m)
	}
}

pub fn parse_fault(kind: &str) -> Option<(usize, std::io::ErrorKind)> {
	use std::io::ErrorKind as K;
	let mut it = kind.strip_prefix("fault:")?.split(':');
	let k = match it.next()? {
		"other" => K::Other,
		"interrupted" => K::Interrupted,
		"wouldblock" => K::WouldBlock,
		"timedout" => K::TimedOut,
		"unexpectedeof" => K::UnexpectedEof,
		"invaliddata" => K::InvalidData,
		"brokenpipe" => K::BrokenPipe,
		_ => return None,
	};
	Some((it.next()?.parse().ok()?, k))
}

pub fn run_backend_on_file_fault(b: &Backend, file: &[u8], hint: &Hint, fault: (usize, std::io::ErrorKind)) -> String {
	use serde_avro_fast::object_container_file_encoding::Reader;
	match b.clone() {
		Backend::Slice => run_backend_on_file(b, file, hint),
		Backend::Reader { last, sched, .. } => {
			let cr = ChunkReader { data: file.to_vec(), pos: 0, avail: 0, sched: sched.into_iter().collect(), last };
			let fr = FaultReader { inner: cr, calls: 0, at: fault.0, kind: fault.1, fired: false };
			match Reader::from_reader(fr) {
				Err(_) => "init-err header".to_string(),
				Ok(r) => read_all(r, hint, file.len()).join(" "),
			}
		}
	}
}

pub fn run_backend_on_file(b: &Backend, file: &[u8], hint: &Hint) -> String {
	use serde_avro_fast::object_container_file_encoding::{FailedToInitializeReader as F, Reader};
	let init_err = |e: F| match e {
		F::NotAvroObjectContainerFile => "init-err notavro".to_string(),
		F::FailedToDeserializeHeader(_) => "init-err header".to_string(),
		F::FailedToParseSchema(_) => "init-err schema".to_string(),
	};
	match b.clone() {
		Backend::Slice => match Reader::from_slice(file) {
			Err(e) => init_err(e),
			Ok(r) => read_all(r, hint, file.len()).join(" "),
		},
		Backend::Reader { last, sched, max_alloc } => {
			let cr = ChunkReader { data: file.to_vec(), pos: 0, avail: 0, sched: sched.into_iter().collect(), last };
			if max_alloc != 512 * 1024 * 1024 {
				// the allocation cap is the caller's
				let mut rr = serde_avro_fast::de::read::ReaderRead::new(cr);
				rr.max_alloc_size = max_alloc;
				return match Reader::new(rr) {
					Err(e) => init_err(e),
					Ok(r) => read_all(r, hint, file.len()).join(" "),
				};
			}
			match Reader::from_reader(cr) {
				Err(e) => init_err(e),
				Ok(r) => read_all(r, hint, file.len()).join(" "),
			}
		}
	}
}

pub fn run_r(line: &str) -> Result<String, String> {
	let mut r = R::new(line);
	let cmd = r.tok()?;
	let kind = r.tok()?.to_string();
	let _codec = r.tok()?;
	let raw = r.schema()?;
	let _json = r.xb()?;
	let hint = r.hint()?;
	let backends = r.list(|r| read_backend(r))?;
	let file = r.xb()?;
	let origs = r.list(|r| r.xb())?;
	let fault = parse_fault(&kind);
	let outs: Vec<String> = backends
		.iter()
		.map(|b| {
			std::panic::catch_unwind(std::panic::AssertUnwindSafe(|| match fault {
				Some(f) => run_backend_on_file_fault(b, &file, &hint, f),
				None => run_backend_on_file(b, &file, &hint),
			}))
			.unwrap_or_else(|_| "panic".into())
		})
		.collect();
	if cmd == "ocfd" {
		// damaged files with compressed codecs: judged here, directly against the property
		// (C17): the values yielded before the first error are a prefix of the written values;
		// an I/O error or framing error is reported once, then end of stream; the reader
		// terminates
		let schema = build::to_schema_mut(&raw).freeze().map_err(|_| "freeze")?;
		let strip = |s: &str| -> String {
			// drop the `borrowed` flag tokens of str/bytes entries
			let toks: Vec<&str> = s.split(' ').collect();
			let mut out = vec![];
			let mut i = 0;
			while i < toks.len() {
				out.push(toks[i]);
				if (toks[i] == "str" || toks[i] == "bytes") && i + 2 < toks.len() + 1 {
					if i + 1 < toks.len() {
						out.push(toks[i + 1]);
					}
					i += 3;
					continue;
				}
				i += 1;
			}
			out.join(" ")
		};
		let expected: Vec<Option<String>> = origs
			.iter()
			.map(|d| {
				let res = run_one(&Backend::Slice, 1_000_000_000, 64, &schema, &hint, d);
				res.strip_prefix("ok ")
					.and_then(|s| s.rsplit_once(" left "))
					.filter(|(_, left)| *left == "0")
					.map(|(o, _)| strip(&format!("v {o}")))
			})
			.collect();
		if expected.iter().any(|e| e.is_none()) {
			return Ok("judged # n/a the target does not consume whole datums".into());
		}
		for o in &outs {
			if o == "panic" {
				return Ok("judged # VIOLATION panic".into());
			}
			if o.starts_with("init-err") {
				continue;
			}
			let toks: Vec<&str> = o.split(' ').collect();
			let mut yields: Vec<String> = vec![];
			let mut cur: Vec<&str> = vec![];
			for t in toks {
				if (t == "v" || t == "e" || t == "eof") && !cur.is_empty() {
					yields.push(cur.join(" "));
					cur = vec![];
				}
				cur.push(t);
			}
			if !cur.is_empty() {
				yields.push(cur.join(" "));
			}
			if yields.last().map(|s| s.as_str()) != Some("eof") {
				let n = yields.len();
				if kind == "flip" && n >= 100 && yields[n - 100..].iter().all(|y| *y == yields[n - 1]) {
					return Ok("judged # VIOLATION D27-shape corrupted object count: one datum error (or one zero-size value) per claimed object, no end of stream within 400 calls".into());
				}
				return Ok("judged # VIOLATION the reader does not reach end of stream".into());
			}
			if kind == "countlow" && !yields.iter().any(|y| y.starts_with("e")) {
				return Ok("judged # VIOLATION a block holding more objects than it declares was read without any error (the undeclared objects are silently lost)".into());
			}
			if kind == "trunc" || kind == "countlow" || kind.starts_with("fault:") {
				let vals: Vec<String> = yields.iter().take_while(|y| y.starts_with("v ")).map(|y| strip(y)).collect();
				let rest: Vec<&String> = yields.iter().skip(vals.len()).collect();
				let prefix_ok = vals.len() <= expected.len()
					&& vals.iter().zip(expected.iter()).all(|(a, b)| Some(a) == b.as_ref());
				if !prefix_ok {
					return Ok(format!(
						"judged # VIOLATION truncated file: a value was yielded that was not written (before any error): {}",
						&o[..o.len().min(300)]
					));
				}
				// an I/O error must be followed by end of stream
				if let Some(pos) = rest.iter().position(|y| y.as_str() == "e io") {
					if rest[pos + 1..].iter().any(|y| y.as_str() != "eof") {
						return Ok("judged # VIOLATION an I/O error was not followed by end of stream".into());
					}
				}
				// after a first (recoverable) error nothing but errors and end of stream may follow
				if rest.iter().any(|y| y.starts_with("v ")) {
					return Ok(format!(
						"judged # VIOLATION truncated file: values yielded after an error: {}",
						&o[..o.len().min(300)]
					));
				}
			}
		}
		return Ok("judged # ok".into());
	}
	Ok(outs.join(" ; "))
}

// ---------------------------------------------------------------------------------------------
// `ocfx`: interoperability with a third implementation (apache-avro, the Rust implementation of
// the Apache project), in both directions (C06). Judged here: the model has nothing to add to
// "an independent implementation reads the same values".

fn apache_codec(name: &str) -> Option<apache_avro::Codec> {
	Some(match name {
		"null" => apache_avro::Codec::Null,
		"deflate" => apache_avro::Codec::Deflate,
		"snappy" => apache_avro::Codec::Snappy,
		"zstandard" => apache_avro::Codec::Zstandard,
		"bzip2" => apache_avro::Codec::Bzip2,
		"xz" => apache_avro::Codec::Xz,
		_ => return None,
	})
}

pub fn generate_x(seed: u64, n: usize, emit: &mut dyn FnMut(String)) {
	let mut rng = rng_from(seed, "ocfx");
	let mut produced = 0;
	let mut attempts = 0;
	while produced < n && attempts < 50 * n + 100 {
		attempts += 1;
		let mut sg = SchemaGen::new(&mut rng, 8, false);
		sg.decimals = false;
		sg.odd_names = false;
		let raw = sg.gen_root();
		let Ok(schema) = build::to_schema_mut(&raw).freeze() else { continue };
		// only schemas the other implementation accepts; it renames a `duration` fixed to
		// "duration" and writes it in a nested `"type": {…}` form, and it validates the text of
		// `uuid` strings: both kinds of schema are left to the harness's own independent
		// reader/writer (ocfr / ocfw)
		if raw.iter().any(|n| matches!(n.logical, Some(Logical::Duration) | Some(Logical::Uuid))) {
			continue;
		}
		if apache_avro::Schema::parse_str(schema.json()).is_err() {
			continue;
		}
		let codec = *CODECS.choose(&mut rng).unwrap();
		let k = rng.gen_range(1..7);
		let mut values = vec![];
		let mut config = serde_avro_fast::ser::SerializerConfig::new(&schema);
		let mut ok = true;
		for _ in 0..k {
			let mut vg = ValueGen {
				rng: &mut rng,
				schema: &raw,
				allow_slow: false,
				exotic: 0.0,
				invalid: 0.0,
				by_name_only: true,
				maybe_invalid: false,
				no_decimal_oracle: true,
			};
			let v = vg.gen(0, 0);
			if serde_avro_fast::to_datum_vec(&v, &mut config).is_err() {
				ok = false;
			}
			values.push(v);
		}
		if !ok {
			continue;
		}
		let approx = *[0usize, 7, 30, 65536].choose(&mut rng).unwrap();
		let level = if rng.gen_bool(0.5) { 0 } else { *[1usize, 3, 9].choose(&mut rng).unwrap() };
		let mut w = W::default();
		w.t("ocfx").t(codec).n(approx).n(level).schema(&raw).n(values.len());
		for v in &values {
			w.n(rng.gen_bool(0.2) as usize).sv(v);
		}
		let all = SV::Seq(None, values);
		crate::streams::ser::ext_entries(&mut w, &raw, &all);
		emit(w.s);
		produced += 1;
	}
}

pub fn run_x(line: &str) -> Result<String, String> {
	let mut r = R::new(line);
	let _ = r.tok()?;
	let codec = r.tok()?.to_string();
	let approx = r.n()?;
	let level = r.n()?;
	let raw = r.schema()?;
	let vals = r.list(|r| {
		let flush = r.n()? != 0;
		Ok((flush, r.sv()?))
	})?;
	let schema = build::to_schema_mut(&raw).freeze().map_err(|_| "freeze")?;
	let Ok(aschema) = apache_avro::Schema::parse_str(schema.json()) else {
		return Ok("judged # n/a the other implementation rejects the schema".into());
	};
	let Some(acodec) = apache_codec(&codec) else { return Err("codec".into()) };
	let mut config = serde_avro_fast::ser::SerializerConfig::new(&schema);
	let mut datums = vec![];
	for (_, v) in &vals {
		datums.push(serde_avro_fast::to_datum_vec(v, &mut config).map_err(|_| "value does not serialize")?);
	}
	if datums.iter().all(|d| d.is_empty()) {
		return Ok("judged # n/a zero-size values (the other implementation rejects empty blocks)".into());
	}
	// direction 1: the crate writes, apache-avro reads
	let file = {
		let mut w = WriterBuilder::new(&mut config)
			.compression(compression(&codec, if level == 0 { None } else { Some(level as u8) }))
			.approx_block_size(approx as u32)
			.build(Vec::new())
			.map_err(|_| "writer build")?;
		for (flush, v) in &vals {
			w.serialize(v).map_err(|_| "writer serialize")?;
			if *flush {
				w.finish_block().map_err(|_| "finish_block")?;
			}
		}
		w.into_inner().map_err(|_| "into_inner")?
	};
	let mut read_back = vec![];
	match apache_avro::Reader::new(&file[..]) {
		Err(e) => {
			// its schema parser accepted this very text (checked above and at generation); its
			// reader resolves names separately and fails on some orders of definition and reference
			if e.to_string().contains("Unresolved schema reference") {
				return Ok("judged # n/a apache-avro's reader cannot resolve a reference that its own parser accepted".into());
			}
			return Ok(format!("judged # VIOLATION apache-avro rejects the header of a file the writer produced: {e}"));
		}
		Ok(reader) => {
			for item in reader {
				match item {
					Ok(v) => read_back.push(v),
					Err(e) => {
						// apache-avro 0.17 cannot read a block whose data is empty
						if datums.iter().any(|d| d.is_empty()) {
							return Ok("judged # n/a a block of zero-size values (the other implementation rejects empty blocks)".into());
						}
						return Ok(format!("judged # VIOLATION apache-avro fails on a block the writer produced: {e}"));
					}
				}
			}
		}
	}
	if read_back.len() != datums.len() {
		return Ok(format!(
			"judged # VIOLATION apache-avro reads {} values from a file of {}",
			read_back.len(),
			datums.len()
		));
	}
	// the values it read re-encode to the datums written (maps may come back in another order:
	// compare sizes then)
	let has_map = raw.iter().any(|n| matches!(n.reg, Reg::Map(_)));
	for (i, v) in read_back.iter().enumerate() {
		match apache_avro::to_avro_datum(&aschema, v.clone()) {
			Ok(b) => {
				// (with maps the other implementation may re-order or merge entries: not compared)
				let same = has_map || b == datums[i];
				if !same {
					return Ok(format!(
						"judged # VIOLATION value {i} read by apache-avro re-encodes differently: written {} re-encoded {}",
						hex(&datums[i]),
						hex(&b)
					));
				}
			}
			Err(_) => {}
		}
	}
	// direction 2: apache-avro writes the same values, the crate reads
	let mut aw = apache_avro::Writer::with_codec(&aschema, Vec::new(), acodec);
	for v in &read_back {
		if aw.append_value_ref(v).is_err() {
			return Ok("judged # n/a apache-avro cannot write the value back".into());
		}
	}
	let afile = match aw.into_inner() {
		Ok(f) => f,
		Err(_) => return Ok("judged # n/a apache-avro writer failed".into()),
	};
	let expect: Vec<String> = datums
		.iter()
		.map(|d| crate::streams::de::run_one(&Backend::Slice, 1_000_000_000, 64, &schema, &Hint::Any, d))
		.collect();
	for b in [Backend::Slice, Backend::Reader { last: 7, sched: vec![], max_alloc: 512 * 1024 * 1024 }] {
		let out = run_backend_on_file(&b, &afile, &Hint::Any);
		let got: Vec<&str> = out.split(" v ").collect();
		// `v <out> v <out> … eof eof`
		let n_values = out.matches("v ").count().min(usize::MAX);
		let _ = (got, n_values);
		let mut yields: Vec<String> = vec![];
		let mut cur: Vec<&str> = vec![];
		for t in out.split(' ') {
			if (t == "v" || t == "e" || t == "eof") && !cur.is_empty() {
				yields.push(cur.join(" "));
				cur = vec![];
			}
			cur.push(t);
		}
		if !cur.is_empty() {
			yields.push(cur.join(" "));
		}
		let vals_read: Vec<&String> = yields.iter().filter(|y| y.starts_with("v ")).collect();
		if yields.iter().any(|y| y.starts_with("e ")) || out.starts_with("init-err") || out == "panic" {
			return Ok(format!("judged # VIOLATION the reader fails on a file written by apache-avro: {}", &out[..out.len().min(200)]));
		}
		if vals_read.len() != expect.len() {
			return Ok(format!("judged # VIOLATION the reader yields {} values from an apache-avro file of {}", vals_read.len(), expect.len()));
		}
		if !has_map {
			for (y, e) in vals_read.iter().zip(expect.iter()) {
				// expect: `ok <out> left 0`; y: `v <out>`; borrowed flags may differ (compressed blocks)
				let strip = |s: &str| s.replace(" 1", " 0");
				let e_out = e.strip_prefix("ok ").and_then(|s| s.rsplit_once(" left ")).map(|(o, _)| o.to_string()).unwrap_or_default();
				if strip(&y[2..]) != strip(&e_out) {
					return Ok("judged # VIOLATION a value read from an apache-avro file differs from the value written".into());
				}
			}
		}
	}
	Ok("judged # ok".into())
}
