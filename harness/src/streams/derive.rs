//! C20: generated families of type definitions for `#[derive(BuildSchema)]`.
//! `gen-derive <seed> <n> <out.rs>` writes a Rust module with `n` families (each in its own
//! module): the type definitions deriving BuildSchema + Serialize + Deserialize, value literals of
//! the root type, and the description of the program in the line protocol for the Lean model.
use crate::gen::{gen_utf8, rng_from};
use crate::proto::W;
use rand::{rngs::StdRng, seq::SliceRandom, Rng};

#[derive(Clone, Debug, PartialEq)]
pub enum Ty {
	Unit,
	Bool,
	I8,
	I16,
	I32,
	I64,
	U16,
	U32,
	U64,
	Usize,
	F32,
	F64,
	String,
	ByteVec,
	ByteArray(usize),
	Vec(Box<Ty>),
	Option(Box<Ty>),
	HashMap(Box<Ty>),
	BTreeMap(Box<Ty>),
	/// 0 Box, 1 Rc, 2 Arc
	Ptr(u8, Box<Ty>),
	Named(usize, Vec<Ty>),
	Param(usize),
}

#[derive(Clone, Debug)]
pub struct Field {
	pub name: String,
	pub ty: Ty,
	/// logical type attribute, scale, precision
	pub attr: Option<(String, Option<u32>, Option<u32>)>,
}

#[derive(Clone, Debug)]
pub enum Body {
	Record(Vec<Field>),
	Newtype(Field),
	UnitEnum(Vec<String>),
	/// (variant identifier, serde name, payload)
	Union(Vec<(String, String, Option<Field>)>),
}

#[derive(Clone, Debug)]
pub struct Decl {
	pub ident: String,
	pub name_override: Option<String>,
	pub ns: Option<String>,
	pub nparams: usize,
	pub body: Body,
}

struct Fam<'r> {
	rng: &'r mut StdRng,
	decls: Vec<Decl>,
	k: usize,
}

const LOGICALS_I64: [&str; 4] = ["timestamp-millis", "timestamp-micros", "time-micros", "TimestampMillis"];
const LOGICALS_I32: [&str; 3] = ["date", "time-millis", "time_millis"];

impl<'r> Fam<'r> {
	/// does the Avro type of `ty` come out as a union (which may not sit directly in a union)?
	fn unionish(&self, ty: &Ty) -> bool {
		match ty {
			Ty::Option(_) => true,
			Ty::Ptr(_, t) => self.unionish(t),
			Ty::Named(id, _) => match &self.decls[*id].body {
				Body::Union(_) => true,
				Body::Newtype(f) => f.attr.is_none() && self.unionish(&f.ty),
				_ => false,
			},
			_ => false,
		}
	}
	fn is_unit(&self, ty: &Ty) -> bool {
		match ty {
			Ty::Unit => true,
			Ty::Ptr(_, t) => self.is_unit(t),
			Ty::Named(id, _) => match &self.decls[*id].body {
				Body::Newtype(f) => f.attr.is_none() && self.is_unit(&f.ty),
				_ => false,
			},
			_ => false,
		}
	}

	fn prim(&mut self) -> Ty {
		[
			Ty::Bool,
			Ty::I8,
			Ty::I16,
			Ty::I32,
			Ty::I32,
			Ty::I64,
			Ty::I64,
			Ty::U16,
			Ty::U32,
			Ty::U64,
			Ty::Usize,
			Ty::F32,
			Ty::F64,
			Ty::String,
			Ty::String,
			Ty::Unit,
		]
		.choose(self.rng)
		.unwrap()
		.clone()
	}

	/// `me`: the record being defined (recursion allowed below Option<Box<_>> / Vec), `param`:
	/// whether a type parameter is in scope; `in_union`: directly below Option
	fn ty(&mut self, depth: usize, me: Option<usize>, param: bool, in_union: bool) -> Ty {
		for _ in 0..20 {
			let r = self.rng.gen_range(0..100);
			let t = if depth >= 3 || r < 35 {
				self.prim()
			} else if r < 45 {
				Ty::Vec(Box::new(self.ty(depth + 1, me, param, false)))
			} else if r < 55 {
				Ty::Option(Box::new(self.ty(depth + 1, me, param, true)))
			} else if r < 62 {
				let inner = Box::new(self.ty(depth + 1, me, param, false));
				if self.rng.gen_bool(0.7) {
					Ty::BTreeMap(inner)
				} else {
					Ty::HashMap(inner)
				}
			} else if r < 68 {
				Ty::Ptr(self.rng.gen_range(0..3), Box::new(self.ty(depth + 1, me, param, in_union)))
			} else if r < 74 && param {
				Ty::Param(0)
			} else if r < 80 && me.is_some() && !param {
				// recursion
				match self.rng.gen_range(0..3) {
					0 => Ty::Option(Box::new(Ty::Ptr(0, Box::new(Ty::Named(me.unwrap(), vec![]))))),
					1 => Ty::Vec(Box::new(Ty::Named(me.unwrap(), vec![]))),
					_ => Ty::BTreeMap(Box::new(Ty::Named(me.unwrap(), vec![]))),
				}
			} else if !self.decls.is_empty() {
				let limit = me.unwrap_or(self.decls.len()).min(self.decls.len());
				if limit == 0 {
					continue;
				}
				let j = self.rng.gen_range(0..limit);
				if self.decls[j].nparams > 0 {
					let arg = match self.rng.gen_range(0..5) {
						0 => Ty::I32,
						1 => Ty::String,
						2 => Ty::Vec(Box::new(Ty::I64)),
						3 => Ty::F64,
						_ => Ty::Bool,
					};
					Ty::Named(j, vec![arg])
				} else {
					Ty::Named(j, vec![])
				}
			} else {
				self.prim()
			};
			if in_union && (self.unionish(&t) || self.is_unit(&t) || t == Ty::Param(0)) {
				continue;
			}
			return t;
		}
		Ty::I32
	}

	fn field(&mut self, name: String, me: Option<usize>, param: bool) -> Field {
		let r = self.rng.gen_range(0..100);
		if r < 8 {
			return Field { name, ty: Ty::ByteVec, attr: None };
		}
		if r < 14 {
			let n = *[0usize, 1, 4, 12, 16].choose(self.rng).unwrap();
			let attr = match self.rng.gen_range(0..4) {
				0 => Some(("crc32".to_string(), None, None)),
				1 if n == 12 => Some(("duration".to_string(), None, None)),
				_ => None,
			};
			return Field { name, ty: Ty::ByteArray(n), attr };
		}
		if r < 20 {
			return Field { name, ty: Ty::I64, attr: Some((LOGICALS_I64.choose(self.rng).unwrap().to_string(), None, None)) };
		}
		if r < 25 {
			return Field { name, ty: Ty::I32, attr: Some((LOGICALS_I32.choose(self.rng).unwrap().to_string(), None, None)) };
		}
		if r < 28 {
			return Field { name, ty: Ty::String, attr: Some(("uuid".to_string(), None, None)) };
		}
		if r < 31 {
			// a logical type the library does not know, on a primitive
			let ty = [Ty::I32, Ty::String, Ty::F64, Ty::Bool].choose(self.rng).unwrap().clone();
			return Field { name, ty, attr: Some(("my-custom-type".to_string(), None, None)) };
		}
		Field { name, ty: self.ty(0, me, param, false), attr: None }
	}

	fn module_path(&self) -> String {
		format!("derive_gen.generated.f{}", self.k)
	}
	/// the Avro fullname of a declared record / enum: the deserializer announces a named branch
	/// of a union under its fullname
	fn full_name(&self, j: usize) -> String {
		let d = &self.decls[j];
		let ident = d.name_override.clone().unwrap_or_else(|| d.ident.clone());
		match &d.ns {
			None => format!("{}.{}", self.module_path(), ident),
			Some(ns) if ns.is_empty() => ident,
			Some(ns) => format!("{ns}.{ident}"),
		}
	}

	fn decl(&mut self, i: usize, force_record: bool) {
		let ident_base = format!("T{i}");
		let r = if force_record { 0 } else { self.rng.gen_range(0..100) };
		let mut name_override = None;
		let mut ns = None;
		if self.rng.gen_bool(0.15) {
			name_override = Some(format!("Renamed{i}"));
		}
		if self.rng.gen_bool(0.2) {
			ns = Some(["", "ns", "a.b", "a"].choose(self.rng).unwrap().to_string());
		}
		if r < 55 {
			let nparams = if !force_record && self.rng.gen_bool(0.2) { 1 } else { 0 };
			let nf = self.rng.gen_range(1..=4);
			let mut fields = vec![];
			for f in 0..nf {
				// now and then the very type of an earlier field again (the builder has one node per
				// Rust type: the second use is a second edge to the same node), maps also under
				// their other spelling
				let again: Vec<Ty> = fields.iter().filter(|g: &&Field| g.attr.is_none() && !matches!(g.ty, Ty::Param(_))).map(|g| g.ty.clone()).collect();
				if !again.is_empty() && self.rng.gen_bool(0.25) {
					let ty = match again.choose(self.rng).unwrap().clone() {
						Ty::HashMap(t) if self.rng.gen() => Ty::BTreeMap(t),
						Ty::BTreeMap(t) if self.rng.gen_bool(0.3) => Ty::HashMap(t),
						t => t,
					};
					fields.push(Field { name: format!("f{f}"), ty, attr: None });
					continue;
				}
				fields.push(self.field(format!("f{f}"), Some(i), nparams > 0));
			}
			if nparams > 0 && !fields.iter().any(|f| mentions_param(&f.ty)) {
				fields[0] = Field { name: "f0".into(), ty: Ty::Param(0), attr: None };
			}
			self.decls.push(Decl { ident: ident_base, name_override, ns, nparams, body: Body::Record(fields) });
		} else if r < 68 {
			let f = self.field("0".into(), None, false);
			self.decls.push(Decl { ident: ident_base, name_override, ns, nparams: 0, body: Body::Newtype(f) });
		} else if r < 80 {
			let n = self.rng.gen_range(1..=4);
			let vs = (0..n).map(|v| format!("V{v}")).collect();
			self.decls.push(Decl { ident: ident_base, name_override, ns, nparams: 0, body: Body::UnitEnum(vs) });
		} else {
			// enum of newtype variants with at most one unit variant, distinct branch kinds,
			// serde names = the names the serializer's by-name lookup knows the branches under
			let mut cands: Vec<(String, Field)> = vec![
				("Int".into(), Field { name: "0".into(), ty: Ty::I32, attr: None }),
				("Long".into(), Field { name: "0".into(), ty: Ty::I64, attr: None }),
				("Float".into(), Field { name: "0".into(), ty: Ty::F32, attr: None }),
				("Double".into(), Field { name: "0".into(), ty: Ty::F64, attr: None }),
				("Boolean".into(), Field { name: "0".into(), ty: Ty::Bool, attr: None }),
				("String".into(), Field { name: "0".into(), ty: Ty::String, attr: None }),
				("Bytes".into(), Field { name: "0".into(), ty: Ty::ByteVec, attr: None }),
				("Array".into(), Field { name: "0".into(), ty: Ty::Vec(Box::new(Ty::I32)), attr: None }),
				("Map".into(), Field { name: "0".into(), ty: Ty::BTreeMap(Box::new(Ty::String)), attr: None }),
				(
					"TimestampMillis".into(),
					Field { name: "0".into(), ty: Ty::I64, attr: Some(("timestamp-millis".into(), None, None)) },
				),
				("Date".into(), Field { name: "0".into(), ty: Ty::I32, attr: Some(("date".into(), None, None)) }),
			];
			for j in 0..self.decls.len() {
				if self.decls[j].nparams == 0 && matches!(self.decls[j].body, Body::Record(_) | Body::UnitEnum(_)) {
					cands.push((self.full_name(j), Field { name: "0".into(), ty: Ty::Named(j, vec![]), attr: None }));
				}
			}
			// fixed payloads are named after the variant
			cands.push(("".into(), Field { name: "0".into(), ty: Ty::ByteArray(4), attr: None }));
			cands.push(("".into(), Field { name: "0".into(), ty: Ty::ByteArray(16), attr: None }));
			cands.shuffle(self.rng);
			let n = self.rng.gen_range(1..=4.min(cands.len()));
			let mut vs: Vec<(String, String, Option<Field>)> = vec![];
			let mut seen: Vec<String> = vec![];
			for (serde, f) in cands.into_iter() {
				if vs.len() >= n {
					break;
				}
				let ident = format!("V{}", vs.len());
				// a fixed payload is named `<namespace>.<Enum>.<Variant>`
				let serde = if serde.is_empty() {
					match &ns {
						None => format!("{}.{}.{}", self.module_path(), ident_base, ident),
						Some(ns) if ns.is_empty() => format!("{ident_base}.{ident}"),
						Some(ns) => format!("{ns}.{ident_base}.{ident}"),
					}
				} else {
					serde
				};
				if seen.contains(&serde) {
					continue;
				}
				seen.push(serde.clone());
				vs.push((ident, serde, Some(f)));
			}
			if self.rng.gen_bool(0.5) {
				let at = self.rng.gen_range(0..=vs.len());
				vs.insert(at, ("Nothing".into(), "Null".into(), None));
			}
			self.decls.push(Decl { ident: ident_base, name_override, ns, nparams: 0, body: Body::Union(vs) });
		}
	}

	// ---- values ----
	fn value(&mut self, ty: &Ty, args: &[Ty], depth: usize) -> String {
		match ty {
			Ty::Unit => "()".into(),
			Ty::Bool => format!("{}", self.rng.gen_bool(0.5)),
			Ty::I8 => format!("{}i8", *[0i8, 1, -1, i8::MIN, i8::MAX, 7].choose(self.rng).unwrap()),
			Ty::I16 => format!("{}i16", *[0i16, 1, -1, i16::MIN, i16::MAX, 300].choose(self.rng).unwrap()),
			Ty::I32 => format!("{}i32", *[0i32, 1, -1, i32::MIN, i32::MAX, 65, -64, 100000].choose(self.rng).unwrap()),
			Ty::I64 => format!("{}i64", *[0i64, 1, -1, i64::MIN, i64::MAX, 1 << 40, -(1 << 33)].choose(self.rng).unwrap()),
			Ty::U16 => format!("{}u16", *[0u16, 1, u16::MAX, 300].choose(self.rng).unwrap()),
			Ty::U32 => format!("{}u32", *[0u32, 1, u32::MAX, 1 << 31, 70000].choose(self.rng).unwrap()),
			Ty::U64 => format!("{}u64", *[0u64, 1, i64::MAX as u64, 1 << 40, u32::MAX as u64 + 1].choose(self.rng).unwrap()),
			Ty::Usize => format!("{}usize", *[0usize, 1, i64::MAX as usize, 1 << 33].choose(self.rng).unwrap()),
			Ty::F32 => format!(
				"f32::from_bits(0x{:08x})",
				*[0u32, 0x8000_0000, 0x3f80_0000, 0x7f80_0000, 0xff80_0000, 0x0000_0001, 0x4049_0fdb].choose(self.rng).unwrap()
			),
			Ty::F64 => format!(
				"f64::from_bits(0x{:016x})",
				*[0u64, 1 << 63, 0x3ff0_0000_0000_0000, 0x7ff0_0000_0000_0000, 1, 0x4009_21fb_5444_2d18].choose(self.rng).unwrap()
			),
			Ty::String => format!("{:?}.to_string()", gen_utf8(self.rng)),
			Ty::ByteVec => {
				let n = self.rng.gen_range(0..6);
				let b: Vec<String> = (0..n).map(|_| format!("{}u8", self.rng.gen::<u8>())).collect();
				format!("vec![{}]", b.join(", "))
			}
			Ty::ByteArray(n) => {
				let b: Vec<String> = (0..*n).map(|_| format!("{}u8", self.rng.gen::<u8>())).collect();
				format!("[{}]", b.join(", "))
			}
			Ty::Vec(t) => {
				let n = if depth > 3 { 0 } else { *[0usize, 1, 2, 3].choose(self.rng).unwrap() };
				let items: Vec<String> = (0..n).map(|_| self.value(t, args, depth + 1)).collect();
				format!("vec![{}]", items.join(", "))
			}
			Ty::Option(t) => {
				if depth > 3 || self.rng.gen_bool(0.4) {
					"None".into()
				} else {
					format!("Some({})", self.value(t, args, depth + 1))
				}
			}
			Ty::BTreeMap(t) | Ty::HashMap(t) => {
				let max = if matches!(ty, Ty::HashMap(_)) { 1 } else { 3 };
				let n = if depth > 3 { 0 } else { self.rng.gen_range(0..=max) };
				let items: Vec<String> =
					(0..n).map(|i| format!("({:?}.to_string(), {})", format!("k{i}"), self.value(t, args, depth + 1))).collect();
				let kind = if matches!(ty, Ty::HashMap(_)) { "HashMap" } else { "BTreeMap" };
				format!("{kind}::from_iter([{}])", items.join(", "))
			}
			Ty::Ptr(k, t) => {
				let v = self.value(t, args, depth);
				format!("{}::new({})", ["Box", "Rc", "Arc"][*k as usize], v)
			}
			Ty::Param(i) => {
				let t = args[*i].clone();
				self.value(&t, &[], depth)
			}
			Ty::Named(id, targs) => {
				let targs: Vec<Ty> = targs.iter().map(|t| subst(t, args)).collect();
				let d = self.decls[*id].clone();
				let path = format!("{}", d.ident);
				match &d.body {
					Body::Record(fields) => {
						let fs: Vec<String> = fields.iter().map(|f| format!("{}: {}", f.name, self.value(&f.ty, &targs, depth + 1))).collect();
						format!("{path} {{ {} }}", fs.join(", "))
					}
					Body::Newtype(f) => format!("{path}({})", self.value(&f.ty, &targs, depth + 1)),
					Body::UnitEnum(vs) => format!("{path}::{}", vs.choose(self.rng).unwrap()),
					Body::Union(vs) => {
						let (ident, _, f) = vs.choose(self.rng).unwrap().clone();
						match f {
							None => format!("{path}::{ident}"),
							Some(f) => format!("{path}::{ident}({})", self.value(&f.ty, &targs, depth + 1)),
						}
					}
				}
			}
		}
	}
}

fn mentions_param(t: &Ty) -> bool {
	match t {
		Ty::Param(_) => true,
		Ty::Vec(t) | Ty::Option(t) | Ty::HashMap(t) | Ty::BTreeMap(t) | Ty::Ptr(_, t) => mentions_param(t),
		Ty::Named(_, a) => a.iter().any(mentions_param),
		_ => false,
	}
}

fn subst(t: &Ty, args: &[Ty]) -> Ty {
	match t {
		Ty::Param(i) => args.get(*i).cloned().unwrap_or(Ty::Param(*i)),
		Ty::Vec(t) => Ty::Vec(Box::new(subst(t, args))),
		Ty::Option(t) => Ty::Option(Box::new(subst(t, args))),
		Ty::HashMap(t) => Ty::HashMap(Box::new(subst(t, args))),
		Ty::BTreeMap(t) => Ty::BTreeMap(Box::new(subst(t, args))),
		Ty::Ptr(k, t) => Ty::Ptr(*k, Box::new(subst(t, args))),
		Ty::Named(id, a) => Ty::Named(*id, a.iter().map(|t| subst(t, args)).collect()),
		t => t.clone(),
	}
}

fn rust_ty(t: &Ty, decls: &[Decl]) -> String {
	match t {
		Ty::Unit => "()".into(),
		Ty::Bool => "bool".into(),
		Ty::I8 => "i8".into(),
		Ty::I16 => "i16".into(),
		Ty::I32 => "i32".into(),
		Ty::I64 => "i64".into(),
		Ty::U16 => "u16".into(),
		Ty::U32 => "u32".into(),
		Ty::U64 => "u64".into(),
		Ty::Usize => "usize".into(),
		Ty::F32 => "f32".into(),
		Ty::F64 => "f64".into(),
		Ty::String => "String".into(),
		Ty::ByteVec => "Vec<u8>".into(),
		Ty::ByteArray(n) => format!("[u8; {n}]"),
		// (now and then under their full paths: the macro looks at the LAST path segment)
		Ty::Vec(t) => {
			let inner = rust_ty(t, decls);
			format!("{}<{}>", if inner.len() % 4 == 1 { "std::vec::Vec" } else { "Vec" }, inner)
		}
		Ty::Option(t) => {
			let inner = rust_ty(t, decls);
			format!("{}<{}>", if inner.len() % 4 == 2 { "std::option::Option" } else { "Option" }, inner)
		}
		Ty::HashMap(t) => format!("HashMap<String, {}>", rust_ty(t, decls)),
		Ty::BTreeMap(t) => format!("BTreeMap<String, {}>", rust_ty(t, decls)),
		Ty::Ptr(k, t) => {
			let inner = rust_ty(t, decls);
			let names = if inner.len() % 3 == 0 { ["std::boxed::Box", "std::rc::Rc", "std::sync::Arc"] } else { ["Box", "Rc", "Arc"] };
			format!("{}<{}>", names[*k as usize], inner)
		}
		Ty::Param(_) => "T".into(),
		Ty::Named(id, args) => {
			if args.is_empty() {
				decls[*id].ident.clone()
			} else {
				format!("{}<{}>", decls[*id].ident, args.iter().map(|a| rust_ty(a, decls)).collect::<Vec<_>>().join(", "))
			}
		}
	}
}

fn field_attrs(f: &Field) -> String {
	let mut s = String::new();
	if matches!(f.ty, Ty::ByteVec | Ty::ByteArray(_)) {
		s.push_str("#[serde(with = \"serde_bytes\")] ");
	}
	if let Some((l, sc, p)) = &f.attr {
		s.push_str(&format!("#[avro_schema(logical_type = {:?}", l));
		if let Some(sc) = sc {
			s.push_str(&format!(", scale = {sc}"));
		}
		if let Some(p) = p {
			s.push_str(&format!(", precision = {p}"));
		}
		s.push_str(")] ");
	}
	s
}

fn rust_decl(d: &Decl, decls: &[Decl]) -> String {
	let mut s = String::new();
	s.push_str("\t#[derive(BuildSchema, Serialize, Deserialize, PartialEq, Debug, Clone)]\n");
	let mut attrs = vec![];
	if let Some(n) = &d.name_override {
		attrs.push(format!("name = {n}"));
	}
	if let Some(ns) = &d.ns {
		attrs.push(format!("namespace = {:?}", ns));
	}
	if !attrs.is_empty() {
		s.push_str(&format!("\t#[avro_schema({})]\n", attrs.join(", ")));
	}
	let generics = if d.nparams > 0 { "<T>" } else { "" };
	match &d.body {
		Body::Record(fields) => {
			s.push_str(&format!("\tpub struct {}{} {{\n", d.ident, generics));
			for f in fields {
				s.push_str(&format!("\t\t{}pub {}: {},\n", field_attrs(f), f.name, rust_ty(&f.ty, decls)));
			}
			s.push_str("\t}\n");
		}
		Body::Newtype(f) => {
			s.push_str(&format!("\tpub struct {}({}pub {});\n", d.ident, field_attrs(f), rust_ty(&f.ty, decls)));
		}
		Body::UnitEnum(vs) => {
			s.push_str(&format!("\tpub enum {} {{ {} }}\n", d.ident, vs.join(", ")));
		}
		Body::Union(vs) => {
			s.push_str(&format!("\tpub enum {}{} {{\n", d.ident, generics));
			for (ident, serde, f) in vs {
				s.push_str(&format!("\t\t#[serde(rename = {:?})] ", serde));
				match f {
					None => s.push_str(&format!("{ident},\n")),
					Some(f) => s.push_str(&format!("{ident}({}{}),\n", field_attrs(f), rust_ty(&f.ty, decls))),
				}
			}
			s.push_str("\t}\n");
		}
	}
	s
}

// ---- the program in the line protocol ----
fn w_ty(w: &mut W, t: &Ty) {
	match t {
		Ty::Unit => w.t("unit"),
		Ty::Bool => w.t("bool"),
		Ty::I8 => w.t("i8"),
		Ty::I16 => w.t("i16"),
		Ty::I32 => w.t("i32"),
		Ty::I64 => w.t("i64"),
		Ty::U16 => w.t("u16"),
		Ty::U32 => w.t("u32"),
		Ty::U64 => w.t("u64"),
		Ty::Usize => w.t("usize"),
		Ty::F32 => w.t("f32"),
		Ty::F64 => w.t("f64"),
		Ty::String => w.t("string"),
		Ty::ByteVec => w.t("bytevec"),
		Ty::ByteArray(n) => w.t("bytearray").n(*n),
		Ty::Vec(t) => {
			w.t("vec");
			w_ty(w, t);
			w
		}
		Ty::Option(t) => {
			w.t("option");
			w_ty(w, t);
			w
		}
		Ty::HashMap(t) => {
			w.t("hashmap");
			w_ty(w, t);
			w
		}
		Ty::BTreeMap(t) => {
			w.t("btreemap");
			w_ty(w, t);
			w
		}
		Ty::Ptr(_, t) => {
			w.t("ptr");
			w_ty(w, t);
			w
		}
		Ty::Param(i) => w.t("param").n(*i),
		Ty::Named(id, args) => {
			w.t("named").n(*id).n(args.len());
			for a in args {
				w_ty(w, a);
			}
			w
		}
	};
}

fn w_field(w: &mut W, f: &Field) {
	w.xs(&f.name);
	w_ty(w, &f.ty);
	match &f.attr {
		None => {
			w.t("-");
		}
		Some((l, sc, p)) => {
			w.t("logical").xs(l).optn(sc.map(|x| x as usize)).optn(p.map(|x| x as usize));
		}
	}
}

fn w_opt(w: &mut W, s: &Option<String>) {
	match s {
		None => {
			w.t("-");
		}
		Some(s) => {
			w.xs(s);
		}
	}
}

pub fn prog_tokens(decls: &[Decl], module_path: &str, root: &Ty) -> String {
	let mut w = W::default();
	w.n(decls.len());
	for d in decls {
		w.xs(&d.ident);
		w_opt(&mut w, &d.name_override);
		w_opt(&mut w, &d.ns);
		w.n(d.nparams).xs(module_path);
		match &d.body {
			Body::Record(fs) => {
				w.t("record").n(fs.len());
				for f in fs {
					w_field(&mut w, f);
				}
			}
			Body::Newtype(f) => {
				w.t("newtype");
				w_field(&mut w, f);
			}
			Body::UnitEnum(vs) => {
				w.t("unitenum").n(vs.len());
				for v in vs {
					w.xs(v);
				}
			}
			Body::Union(vs) => {
				w.t("union").n(vs.len());
				for (ident, serde, f) in vs {
					w.xs(ident).xs(serde);
					match f {
						None => {
							w.t("unit");
						}
						Some(f) => {
							w.t("field");
							w_field(&mut w, f);
						}
					}
				}
			}
		}
	}
	w_ty(&mut w, root);
	w.s
}

/// Hand-written families first (the shapes of the derive tests and of the findings ledger), then
/// random ones.
fn hand_families() -> Vec<(Vec<Decl>, Ty)> {
	let f = |name: &str, ty: Ty| Field { name: name.into(), ty, attr: None };
	let fl = |name: &str, ty: Ty, l: &str| Field { name: name.into(), ty, attr: Some((l.into(), None, None)) };
	let rec = |ident: &str, nparams: usize, ns: Option<&str>, fields: Vec<Field>| Decl {
		ident: ident.into(),
		name_override: None,
		ns: ns.map(|s| s.to_string()),
		nparams,
		body: Body::Record(fields),
	};
	vec![
		// a generic record with an owned fixed sub-node, instantiated twice
		(
			vec![
				rec("T0", 1, None, vec![f("f0", Ty::Param(0)), fl("f1", Ty::ByteArray(4), "crc32")]),
				rec("T1", 0, None, vec![f("f0", Ty::Named(0, vec![Ty::String])), f("f1", Ty::Named(0, vec![Ty::Vec(Box::new(Ty::I64))]))]),
			],
			Ty::Named(1, vec![]),
		),
		// the same with a namespace attribute on the generic record
		(
			vec![
				rec("T0", 1, Some("ns"), vec![f("f0", Ty::Param(0)), fl("f1", Ty::ByteArray(4), "crc32")]),
				rec("T1", 0, None, vec![f("f0", Ty::Named(0, vec![Ty::String])), f("f1", Ty::Named(0, vec![Ty::I32]))]),
			],
			Ty::Named(1, vec![]),
		),
		// a union enum with a unit variant next to a string and next to an enum
		(
			vec![
				Decl { ident: "T0".into(), name_override: None, ns: None, nparams: 0, body: Body::UnitEnum(vec!["V0".into(), "V1".into()]) },
				Decl {
					ident: "T1".into(),
					name_override: None,
					ns: None,
					nparams: 0,
					body: Body::Union(vec![
						("Nothing".into(), "Null".into(), None),
						("V0".into(), "String".into(), Some(f("0", Ty::String))),
						("V1".into(), "derive_gen.generated.f2.T0".into(), Some(f("0", Ty::Named(0, vec![])))),
					]),
				},
				rec("T2", 0, None, vec![f("f0", Ty::Named(1, vec![])), f("f1", Ty::Vec(Box::new(Ty::Named(1, vec![]))))]),
			],
			Ty::Named(2, vec![]),
		),
		// a record with an owned sub-node, used plainly and duplicated for a logical type
		(
			vec![
				rec("T0", 0, None, vec![f("f0", Ty::I32), fl("f1", Ty::ByteArray(4), "crc32")]),
				rec("T1", 0, None, vec![f("f0", Ty::Named(0, vec![])), fl("f1", Ty::Named(0, vec![]), "my-custom-type")]),
			],
			Ty::Named(1, vec![]),
		),
		// a generic enum with a fixed payload, instantiated twice
		(
			vec![
				Decl {
					ident: "T0".into(),
					name_override: None,
					ns: None,
					nparams: 1,
					body: Body::Union(vec![
						("V0".into(), "derive_gen.generated.f4.T0.V0".into(), Some(f("0", Ty::ByteArray(4)))),
						("V1".into(), "Array".into(), Some(f("0", Ty::Vec(Box::new(Ty::Param(0)))))),
					]),
				},
				rec("T1", 0, None, vec![f("f0", Ty::Named(0, vec![Ty::I32])), f("f1", Ty::Named(0, vec![Ty::String]))]),
			],
			Ty::Named(1, vec![]),
		),
		// one unnamed type met several times in one type: two fields of one map type (under both
		// spellings), of one list type, a map of maps, a list under a map under a list - every
		// unnamed kind has its own no-cycle mark in the renderer, which must be released
		(
			vec![rec(
				"T0",
				0,
				None,
				vec![
					f("f0", Ty::HashMap(Box::new(Ty::I32))),
					f("f1", Ty::HashMap(Box::new(Ty::I32))),
					f("f2", Ty::BTreeMap(Box::new(Ty::I32))),
					f("f3", Ty::Vec(Box::new(Ty::String))),
					f("f4", Ty::Vec(Box::new(Ty::String))),
					f("f5", Ty::HashMap(Box::new(Ty::HashMap(Box::new(Ty::I32))))),
					f("f6", Ty::Vec(Box::new(Ty::BTreeMap(Box::new(Ty::Vec(Box::new(Ty::String))))))),
					f("f7", Ty::Option(Box::new(Ty::I64))),
					f("f8", Ty::Option(Box::new(Ty::I64))),
				],
			)],
			Ty::Named(0, vec![]),
		),
		// two records with the same unqualified name - one in a namespace, the other in the null
		// namespace - as branches of one union enum, in both orders; every variant carries the
		// fullname of its branch
		(
			vec![
				Decl { ident: "T0".into(), name_override: Some("Point".into()), ns: Some("geo".into()), nparams: 0, body: Body::Record(vec![f("x", Ty::I32), f("y", Ty::I32)]) },
				Decl { ident: "T1".into(), name_override: Some("Point".into()), ns: Some("".into()), nparams: 0, body: Body::Record(vec![f("x", Ty::I32), f("y", Ty::I32)]) },
				Decl {
					ident: "T2".into(),
					name_override: None,
					ns: None,
					nparams: 0,
					body: Body::Union(vec![
						("V0".into(), "geo.Point".into(), Some(f("0", Ty::Named(0, vec![])))),
						("V1".into(), "Point".into(), Some(f("0", Ty::Named(1, vec![])))),
						("Nothing".into(), "Null".into(), None),
					]),
				},
				rec("T3", 0, None, vec![f("f0", Ty::Named(2, vec![])), f("f1", Ty::Vec(Box::new(Ty::Named(2, vec![])))), f("f2", Ty::Named(2, vec![]))]),
			],
			Ty::Named(3, vec![]),
		),
		// a unit-only enum one of whose variants is called `Null`, under `Option` (record field, list
		// item, map value): `Some(T0::Null)` is the enum's symbol, not the union's null branch
		(
			vec![
				Decl { ident: "T0".into(), name_override: None, ns: None, nparams: 0, body: Body::UnitEnum(vec!["Null".into(), "V1".into(), "V2".into()]) },
				rec(
					"T1",
					0,
					None,
					vec![
						f("f0", Ty::Option(Box::new(Ty::Named(0, vec![])))),
						f("f1", Ty::Vec(Box::new(Ty::Option(Box::new(Ty::Named(0, vec![])))))),
						f("f2", Ty::BTreeMap(Box::new(Ty::Option(Box::new(Ty::Named(0, vec![])))))),
						f("f3", Ty::Named(0, vec![])),
					],
				),
			],
			Ty::Named(1, vec![]),
		),
		// newtypes over [u8; N] that own their fixed node, under a one-letter, an empty and a dotted
		// namespace attribute, and without one
		(
			vec![
				Decl { ident: "T0".into(), name_override: None, ns: Some("a".into()), nparams: 0, body: Body::Newtype(f("0", Ty::ByteArray(4))) },
				Decl { ident: "T1".into(), name_override: None, ns: Some("".into()), nparams: 0, body: Body::Newtype(f("0", Ty::ByteArray(3))) },
				Decl { ident: "T2".into(), name_override: None, ns: Some("a.b".into()), nparams: 0, body: Body::Newtype(f("0", Ty::ByteArray(2))) },
				Decl { ident: "T3".into(), name_override: None, ns: None, nparams: 0, body: Body::Newtype(f("0", Ty::ByteArray(5))) },
				rec(
					"T4",
					0,
					Some("a"),
					vec![f("f0", Ty::Named(0, vec![])), f("f1", Ty::Named(1, vec![])), f("f2", Ty::Named(2, vec![])), f("f3", Ty::Named(3, vec![])), fl("f4", Ty::ByteArray(4), "crc32")],
				),
			],
			Ty::Named(4, vec![]),
		),
		// recursion and sharing
		(
			vec![
				rec("T0", 0, None, vec![f("f0", Ty::I32), f("f1", Ty::String)]),
				rec(
					"T1",
					0,
					None,
					vec![
						f("f0", Ty::Named(0, vec![])),
						f("f1", Ty::Named(0, vec![])),
						f("f2", Ty::Option(Box::new(Ty::Ptr(0, Box::new(Ty::Named(1, vec![])))))),
						f("f3", Ty::Vec(Box::new(Ty::Named(1, vec![])))),
					],
				),
			],
			Ty::Named(1, vec![]),
		),
	]
}

/// Const generics: a struct generic over const parameters only (and one mixing a const and a type
/// parameter), each instantiated at two values inside one root - every instantiation must get its
/// own fullname (the per-instantiation hash suffix), or the schema defines a name twice.
const OPAQUE_FAMILIES: &str = r#"
pub mod opaque_constgen {
	use crate::runner::run_family_opaque;
	use serde_avro_derive::BuildSchema;
	use serde_derive::{Deserialize, Serialize};
	#[derive(BuildSchema, Serialize, Deserialize, PartialEq, Debug, Clone)]
	pub struct Chunk<const N: usize> {
		#[serde(with = "serde_bytes_array")]
		pub data: [u8; N],
		pub n: i32,
	}
	mod serde_bytes_array {
		use serde::{Deserializer, Serializer};
		pub fn serialize<S: Serializer, const N: usize>(v: &[u8; N], s: S) -> Result<S::Ok, S::Error> {
			s.serialize_bytes(v)
		}
		pub fn deserialize<'de, D: Deserializer<'de>, const N: usize>(d: D) -> Result<[u8; N], D::Error> {
			struct V<const N: usize>;
			impl<'de, const N: usize> serde::de::Visitor<'de> for V<N> {
				type Value = [u8; N];
				fn expecting(&self, f: &mut std::fmt::Formatter) -> std::fmt::Result {
					write!(f, "{} bytes", N)
				}
				fn visit_bytes<E: serde::de::Error>(self, b: &[u8]) -> Result<[u8; N], E> {
					b.try_into().map_err(|_| E::custom("wrong length"))
				}
			}
			d.deserialize_bytes(V::<N>)
		}
	}
	#[derive(BuildSchema, Serialize, Deserialize, PartialEq, Debug, Clone)]
	pub struct Tagged<T, const K: usize> {
		pub value: T,
		pub tags: Vec<i32>,
	}
	#[derive(BuildSchema, Serialize, Deserialize, PartialEq, Debug, Clone)]
	pub struct Packet {
		pub small: Chunk<4>,
		pub big: Chunk<16>,
		pub again: Chunk<4>,
		pub a: Tagged<i64, 1>,
		pub b: Tagged<i64, 2>,
		pub c: Tagged<String, 1>,
	}
	pub fn run(out: &mut Vec<String>) {
		let v = Packet {
			small: Chunk { data: [1, 2, 3, 4], n: 1 },
			big: Chunk { data: [7; 16], n: 2 },
			again: Chunk { data: [0; 4], n: -3 },
			a: Tagged { value: 5, tags: vec![1] },
			b: Tagged { value: -5, tags: vec![] },
			c: Tagged { value: "x".into(), tags: vec![2, 3] },
		};
		run_family_opaque("constgen", &[v.clone(), v], out);
	}
}

pub mod opaque_inferred {
	// A field whose type's LAST path segment is `Uuid` gets the uuid logical type without any
	// attribute - also when the type is written through a module path.
	use serde_avro_derive::BuildSchema;
	use serde_derive::{Deserialize, Serialize};
	pub mod ids {
		pub type Uuid = String;
	}
	use ids::Uuid;
	#[derive(BuildSchema, Serialize, Deserialize, PartialEq, Debug, Clone)]
	pub struct WithIds {
		pub plain: String,
		pub a: Uuid,
		pub b: ids::Uuid,
		pub c: self::ids::Uuid,
		pub d: std::option::Option<String>,
	}
	pub fn run(out: &mut Vec<String>) {
		let v = WithIds {
			plain: "p".into(),
			a: "00000000-0000-0000-0000-000000000001".into(),
			b: "00000000-0000-0000-0000-000000000002".into(),
			c: "00000000-0000-0000-0000-000000000003".into(),
			d: None,
		};
		let mut tmp = vec![];
		crate::runner::run_family_opaque("inferred-uuid", &[v], &mut tmp);
		let n_uuid = WithIds::schema_mut()
			.nodes()
			.iter()
			.filter(|n| matches!(n.logical_type, Some(serde_avro_fast::schema::LogicalType::Uuid)))
			.count();
		if n_uuid != 3 && tmp.len() == 2 {
			tmp[1] = format!("uuid-nodes={n_uuid} # VIOLATION hand-written family inferred-uuid: {n_uuid} of the 3 fields whose type is named Uuid carry the uuid logical type");
		}
		out.extend(tmp);
	}
}

pub mod opaque_lifetimes {
	use crate::runner::run_family_opaque_borrowed;
	use serde_avro_derive::BuildSchema;
	use serde_derive::Serialize;
	// lifetime parameters only, a lifetime next to a type parameter, and types reached through
	// module paths: none of them makes a type "generic" for naming purposes except the type parameter
	#[derive(BuildSchema, Serialize)]
	pub struct Borrowed<'a> {
		pub name: &'a str,
		#[serde(with = "serde_bytes")]
		pub raw: &'a [u8],
		pub inner: std::option::Option<std::boxed::Box<Leaf<'a>>>,
	}
	#[derive(BuildSchema, Serialize)]
	pub struct Leaf<'a> {
		pub tag: &'a str,
		pub n: i64,
	}
	#[derive(BuildSchema, Serialize)]
	pub struct Both<'a, T> {
		pub label: &'a str,
		pub value: T,
		pub many: std::vec::Vec<T>,
	}
	#[derive(BuildSchema, Serialize)]
	pub struct Root<'a> {
		pub a: Borrowed<'a>,
		pub b: Borrowed<'a>,
		pub x: Both<'a, i32>,
		pub y: Both<'a, std::string::String>,
		pub z: self::Leaf<'a>,
		pub m: std::collections::BTreeMap<String, Leaf<'a>>,
	}
	pub fn run(out: &mut Vec<String>) {
		let s = String::from("hello");
		let bytes = vec![1u8, 2, 3];
		let mut m = std::collections::BTreeMap::new();
		m.insert("k".to_string(), Leaf { tag: &s, n: 1 });
		let v = Root {
			a: Borrowed { name: &s, raw: &bytes, inner: Some(Box::new(Leaf { tag: &s, n: -1 })) },
			b: Borrowed { name: "", raw: &[], inner: None },
			x: Both { label: &s, value: 5, many: vec![1, 2] },
			y: Both { label: "y", value: "v".to_string(), many: vec![] },
			z: Leaf { tag: &s, n: 7 },
			m,
		};
		run_family_opaque_borrowed("lifetimes", &[v], out);
	}
}

"#;

const _: () = ();
pub fn generate_source(seed: u64, n: usize) -> String {
	let mut rng = rng_from(seed, "derive");
	let mut src = String::new();
	src.push_str("// @generated by `harness gen-derive` — do not edit\n");
	src.push_str("#![allow(unused_imports, dead_code, clippy::all)]\n");
	src.push_str("use crate::runner::run_family;\n\n");
	let hand = hand_families();
	let mut calls = vec![];
	for k in 0..n {
		let (decls, root) = if k < hand.len() {
			hand[k].clone()
		} else {
			let mut fam = Fam { rng: &mut rng, decls: vec![], k };
			let nd = fam.rng.gen_range(1..=5);
			for i in 0..nd {
				fam.decl(i, false);
			}
			// the root: a non-generic record that instantiates every generic record twice
			let i = fam.decls.len();
			fam.decl(i, true);
			let generic: Vec<usize> = (0..i).filter(|&j| fam.decls[j].nparams > 0).collect();
			if let Body::Record(fields) = &mut fam.decls[i].body {
				for (x, j) in generic.iter().enumerate() {
					fields.push(Field { name: format!("g{x}a"), ty: Ty::Named(*j, vec![Ty::I32]), attr: None });
					fields.push(Field { name: format!("g{x}b"), ty: Ty::Named(*j, vec![Ty::String]), attr: None });
				}
			}
			let root = Ty::Named(i, vec![]);
			let _ = fam.k;
			(fam.decls, root)
		};
		let module_path = format!("derive_gen.generated.f{k}");
		let mut fam = Fam { rng: &mut rng, decls: decls.clone(), k };
		let nvals = 4;
		let values: Vec<String> = (0..nvals).map(|_| fam.value(&root, &[], 0)).collect();
		src.push_str(&format!("pub mod f{k} {{\n\tuse super::*;\n\tuse serde_avro_derive::BuildSchema;\n\tuse serde_derive::{{Deserialize, Serialize}};\n\tuse std::collections::{{BTreeMap, HashMap}};\n\tuse std::{{rc::Rc, sync::Arc}};\n"));
		for d in &decls {
			src.push_str(&rust_decl(d, &decls));
		}
		src.push_str(&format!(
			"\tpub fn run(out: &mut Vec<String>) {{\n\t\tlet values: Vec<{}> = vec![\n",
			rust_ty(&root, &decls)
		));
		for v in &values {
			src.push_str(&format!("\t\t\t{v},\n"));
		}
		src.push_str(&format!("\t\t];\n\t\trun_family({:?}, &values, out);\n\t}}\n}}\n\n", prog_tokens(&decls, &module_path, &root)));
		calls.push(format!("\tf{k}::run(out);\n"));
	}
	// hand-written families outside the model's program language, judged on the real code
	src.push_str(OPAQUE_FAMILIES);
	calls.push("\topaque_constgen::run(out);\n".into());
	calls.push("\topaque_lifetimes::run(out);\n".into());
	calls.push("\topaque_inferred::run(out);\n".into());
	src.push_str("pub fn run_all(out: &mut Vec<String>) {\n");
	for c in calls {
		src.push_str(&c);
	}
	src.push_str("}\n");
	src
}
