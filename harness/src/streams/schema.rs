//! Streams `schema*`: schema documents in random JSON spellings → parsed node graph, Parsing
//! Canonical Form, fingerprint; builder graphs → regenerated JSON → re-parse.
use crate::{build, gen::*, proto::*};
use rand::{rngs::StdRng, seq::SliceRandom, Rng};
use serde_json::{json, Map, Value};

#[derive(Clone, Debug)]
pub enum ATy {
	Prim(&'static str, Option<ALogical>),
	Array(Box<ATy>),
	Map(Box<ATy>),
	Union(Vec<ATy>),
	Record { ns: Option<String>, name: String, fields: Vec<(String, ATy)> },
	Enum { ns: Option<String>, name: String, symbols: Vec<String> },
	Fixed { ns: Option<String>, name: String, size: usize, logical: Option<ALogical> },
	Ref { ns: Option<String>, name: String },
}
#[derive(Clone, Debug)]
pub enum ALogical {
	Decimal { precision: usize, scale: Option<u32> },
	Simple(&'static str),
}

fn full(ns: &Option<String>, name: &str) -> String {
	match ns {
		Some(ns) => format!("{ns}.{name}"),
		None => name.to_string(),
	}
}

pub struct DocGen<'r> {
	pub rng: &'r mut StdRng,
	pub defined: Vec<(Option<String>, String, bool)>, // (ns, name, is_record)
	pub next: usize,
	pub budget: usize,
}

const NSS: [Option<&str>; 5] = [None, None, Some("a"), Some("a.b"), Some("c")];

impl<'r> DocGen<'r> {
	fn fresh(&mut self) -> (Option<String>, String) {
		// sometimes the simple name of an earlier type in another namespace: fullnames stay unique,
		// simple names do not
		if !self.defined.is_empty() && self.rng.gen_bool(0.15) {
			let (ns0, name0, _) = self.defined.choose(self.rng).unwrap().clone();
			let ns = NSS.choose(self.rng).unwrap().map(|s| s.to_string());
			if ns != ns0 && !self.defined.iter().any(|d| d.0 == ns && d.1 == name0) {
				return (ns, name0);
			}
		}
		let n = self.next;
		self.next += 1;
		let odd = odd_name_suffix(self.rng);
		(NSS.choose(self.rng).unwrap().map(|s| s.to_string()), format!("T{n}{odd}"))
	}
	fn prim(&mut self) -> ATy {
		let c = self.rng.gen_range(0..16);
		match c {
			0 => ATy::Prim("null", None),
			1 => ATy::Prim("boolean", None),
			2 => ATy::Prim("int", None),
			3 => ATy::Prim("long", None),
			4 => ATy::Prim("float", None),
			5 => ATy::Prim("double", None),
			6 => ATy::Prim("bytes", None),
			7 => ATy::Prim("string", None),
			8 => ATy::Prim("int", Some(ALogical::Simple("date"))),
			9 => ATy::Prim("long", Some(ALogical::Simple("timestamp-micros"))),
			10 => ATy::Prim("string", Some(ALogical::Simple("uuid"))),
			11 => ATy::Prim(
				"bytes",
				Some(ALogical::Decimal { precision: 10, scale: if self.rng.gen_bool(0.5) { Some(2) } else { None } }),
			),
			12 => ATy::Prim("bytes", Some(ALogical::Simple("big-decimal"))),
			13 => ATy::Prim("long", Some(ALogical::Simple("some-unknown-logical-type"))),
			_ => ATy::Prim("int", None),
		}
	}
	/// `inside`: records we are inside of (referring to them is only allowed below an array/map/union)
	pub fn gen(&mut self, depth: usize, conditional: bool, inside: &[(Option<String>, String)]) -> ATy {
		self.gen2(depth, conditional, inside, true)
	}
	fn gen2(&mut self, depth: usize, conditional: bool, inside: &[(Option<String>, String)], allow_union: bool) -> ATy {
		if self.budget == 0 || depth > 4 {
			return self.prim();
		}
		self.budget -= 1;
		// reference to something already defined (or, conditionally, to an enclosing record)
		if self.rng.gen_bool(0.2) {
			let mut cands: Vec<(Option<String>, String)> =
				self.defined.iter().filter(|d| !inside.iter().any(|i| i.0 == d.0 && i.1 == d.1)).map(|d| (d.0.clone(), d.1.clone())).collect();
			if conditional {
				cands.extend(inside.iter().cloned());
			}
			if let Some((ns, name)) = cands.choose(self.rng) {
				return ATy::Ref { ns: ns.clone(), name: name.clone() };
			}
		}
		match self.rng.gen_range(0..10) {
			0 | 1 => ATy::Array(Box::new(self.gen(depth + 1, true, inside))),
			2 => ATy::Map(Box::new(self.gen(depth + 1, true, inside))),
			3 if allow_union => {
				let n = self.rng.gen_range(1..4);
				let mut vs = vec![ATy::Prim("null", None)];
				for _ in 0..n {
					let b = self.gen2(depth + 1, true, inside, false);
					vs.push(b);
				}
				ATy::Union(vs)
			}
			4 | 5 | 6 => {
				let (ns, name) = self.fresh();
				// the record is defined (its name registered) before its fields are parsed
				self.defined.push((ns.clone(), name.clone(), true));
				let mut ins = inside.to_vec();
				ins.push((ns.clone(), name.clone()));
				let n = self.rng.gen_range(0..4);
				let fields = (0..n).map(|i| (format!("f{i}"), self.gen(depth + 1, false, &ins))).collect();
				ATy::Record { ns, name, fields }
			}
			7 => {
				let (ns, name) = self.fresh();
				self.defined.push((ns.clone(), name.clone(), false));
				let k = if self.rng.gen_bool(0.1) { 0 } else { self.rng.gen_range(1..4) };
				ATy::Enum { ns, name, symbols: (0..k).map(|i| format!("S{i}")).collect() }
			}
			8 => {
				let (ns, name) = self.fresh();
				self.defined.push((ns.clone(), name.clone(), false));
				let (size, logical) = match self.rng.gen_range(0..4) {
					0 => (12, Some(ALogical::Simple("duration"))),
					1 => (8, Some(ALogical::Decimal { precision: 6, scale: Some(1) })),
					// (sizes across the decimal-digit boundaries too: they are printed in the
					// canonical form)
					2 => (*[0usize, 1, 4, 16].choose(self.rng).unwrap(), None),
					_ => (
						match self.rng.gen_range(0..4) {
							0 => *[9usize, 10, 11, 99, 100, 101, 109, 110, 999, 1000, 1024, 1099, 10000, 65536].choose(self.rng).unwrap(),
							1 => self.rng.gen_range(0..130),
							2 => self.rng.gen_range(0..12000),
							_ => 1usize << self.rng.gen_range(0..24),
						},
						None,
					),
				};
				ATy::Fixed { ns, name, size, logical }
			}
			_ => self.prim(),
		}
	}
}

// ---- forward references: "independent of whether the definition appears before or after its use"

fn tree_size(t: &ATy) -> usize {
	1 + match t {
		ATy::Array(i) | ATy::Map(i) => tree_size(i),
		ATy::Union(vs) => vs.iter().map(tree_size).sum(),
		ATy::Record { fields, .. } => fields.iter().map(|(_, f)| tree_size(f)).sum(),
		_ => 0,
	}
}
fn has_ref(t: &ATy) -> bool {
	match t {
		ATy::Ref { .. } => true,
		ATy::Array(i) | ATy::Map(i) => has_ref(i),
		ATy::Union(vs) => vs.iter().any(has_ref),
		ATy::Record { fields, .. } => fields.iter().any(|(_, f)| has_ref(f)),
		_ => false,
	}
}
/// (preorder index, fullname, is a definition that can move, subtree size)
fn collect_named(t: &ATy, idx: &mut usize, out: &mut Vec<(usize, String, bool, usize)>) {
	let me = *idx;
	*idx += 1;
	match t {
		ATy::Ref { ns, name } => out.push((me, full(ns, name), false, 1)),
		ATy::Enum { ns, name, .. } | ATy::Fixed { ns, name, .. } => out.push((me, full(ns, name), true, 1)),
		ATy::Record { ns, name, fields } => {
			// a record may move only if nothing in it refers to anything (its meaning then does
			// not depend on where it stands, and no containment cycle can appear)
			if !has_ref(t) {
				out.push((me, full(ns, name), true, tree_size(t)));
			}
			for (_, f) in fields {
				collect_named(f, idx, out);
			}
		}
		ATy::Array(i) | ATy::Map(i) => collect_named(i, idx, out),
		ATy::Union(vs) => vs.iter().for_each(|v| collect_named(v, idx, out)),
		ATy::Prim(..) => {}
	}
}
fn subtree_at<'a>(t: &'a ATy, target: usize, idx: &mut usize) -> Option<&'a ATy> {
	let me = *idx;
	*idx += 1;
	if me == target {
		return Some(t);
	}
	match t {
		ATy::Array(i) | ATy::Map(i) => subtree_at(i, target, idx),
		ATy::Union(vs) => vs.iter().find_map(|v| subtree_at(v, target, idx)),
		ATy::Record { fields, .. } => fields.iter().find_map(|(_, f)| subtree_at(f, target, idx)),
		_ => None,
	}
}
fn rewrite(t: &ATy, idx: &mut usize, d: usize, r: usize, def: &ATy, rf: &ATy) -> ATy {
	let me = *idx;
	if me == d {
		*idx += tree_size(t);
		return rf.clone();
	}
	if me == r {
		*idx += 1;
		return def.clone();
	}
	*idx += 1;
	match t {
		ATy::Array(i) => ATy::Array(Box::new(rewrite(i, idx, d, r, def, rf))),
		ATy::Map(i) => ATy::Map(Box::new(rewrite(i, idx, d, r, def, rf))),
		ATy::Union(vs) => ATy::Union(vs.iter().map(|v| rewrite(v, idx, d, r, def, rf)).collect()),
		ATy::Record { ns, name, fields } => ATy::Record {
			ns: ns.clone(),
			name: name.clone(),
			fields: fields.iter().map(|(n, f)| (n.clone(), rewrite(f, idx, d, r, def, rf))).collect(),
		},
		t => t.clone(),
	}
}
/// Move a definition to the place of a later reference to it (and leave a reference where it
/// stood): the same schema, with the definition after its first use.
pub fn forward_swap(rng: &mut StdRng, t: &ATy) -> ATy {
	let mut named = vec![];
	collect_named(t, &mut 0, &mut named);
	let mut pairs = vec![];
	for (d, fd, is_def, size) in &named {
		if !*is_def {
			continue;
		}
		for (r, fr, is_def2, _) in &named {
			if !*is_def2 && fr == fd && *r >= *d + *size {
				pairs.push((*d, *r));
			}
		}
	}
	let Some(&(d, r)) = pairs.choose(rng) else { return t.clone() };
	let def = subtree_at(t, d, &mut 0).unwrap().clone();
	let rf = subtree_at(t, r, &mut 0).unwrap().clone();
	rewrite(t, &mut 0, d, r, &def, &rf)
}

/// The Parsing Canonical Form of the specification, computed on the abstract schema
pub fn expected_pcf(t: &ATy, written: &mut Vec<String>, out: &mut String) {
	match t {
		ATy::Prim(p, _) => out.push_str(&format!("\"{p}\"")),
		ATy::Array(i) => {
			out.push_str("{\"type\":\"array\",\"items\":");
			expected_pcf(i, written, out);
			out.push('}');
		}
		ATy::Map(v) => {
			out.push_str("{\"type\":\"map\",\"values\":");
			expected_pcf(v, written, out);
			out.push('}');
		}
		ATy::Union(vs) => {
			out.push('[');
			for (i, v) in vs.iter().enumerate() {
				if i > 0 {
					out.push(',');
				}
				expected_pcf(v, written, out);
			}
			out.push(']');
		}
		ATy::Ref { ns, name } => out.push_str(&format!("\"{}\"", full(ns, name))),
		ATy::Record { ns, name, fields } => {
			let f = full(ns, name);
			written.push(f.clone());
			out.push_str(&format!("{{\"name\":\"{f}\",\"type\":\"record\",\"fields\":["));
			for (i, (fname, ft)) in fields.iter().enumerate() {
				if i > 0 {
					out.push(',');
				}
				out.push_str(&format!("{{\"name\":\"{fname}\",\"type\":"));
				expected_pcf(ft, written, out);
				out.push('}');
			}
			out.push_str("]}");
		}
		ATy::Enum { ns, name, symbols } => {
			let f = full(ns, name);
			out.push_str(&format!(
				"{{\"name\":\"{f}\",\"type\":\"enum\",\"symbols\":[{}]}}",
				symbols.iter().map(|s| format!("\"{s}\"")).collect::<Vec<_>>().join(",")
			));
		}
		ATy::Fixed { ns, name, size, .. } => {
			let f = full(ns, name);
			out.push_str(&format!("{{\"name\":\"{f}\",\"type\":\"fixed\",\"size\":{size}}}"));
		}
	}
}

fn shuffle_obj(rng: &mut StdRng, m: Vec<(String, Value)>) -> Value {
	let mut m = m;
	if rng.gen_bool(0.6) {
		m.shuffle(rng);
	}
	// extra attributes the parser must ignore
	if rng.gen_bool(0.3) {
		let at = rng.gen_range(0..=m.len());
		m.insert(at, ("doc".into(), json!("some documentation")));
	}
	if rng.gen_bool(0.15) {
		let at = rng.gen_range(0..=m.len());
		m.insert(at, ("aliases".into(), json!(["Old", "x.Older"])));
	}
	if rng.gen_bool(0.1) {
		let at = rng.gen_range(0..=m.len());
		m.insert(at, ("x-custom".into(), json!({"nested": [1, 2.5, null, true]})));
	}
	// serde_json::Map with preserve_order is not enabled: build text by hand instead
	Value::Array(m.into_iter().map(|(k, v)| json!([k, v])).collect())
}

/// One JSON string, in one of its spellings: as `serde_json` prints it, or with some characters
/// written as escape sequences (`\u0069nt` is the string `int`; `\/` is `/`) - a parser hands
/// an escaped string to its consumer through another entry point (a transient, not a borrowed,
/// string) than a plain one.
fn jstr(s: &str, rng: &mut StdRng, out: &mut String) {
	if !rng.gen_bool(0.12) {
		out.push_str(&serde_json::to_string(s).unwrap());
		return;
	}
	let all = rng.gen_bool(0.3);
	let n = s.chars().count().max(1);
	let pick = rng.gen_range(0..n);
	out.push('"');
	for (i, c) in s.chars().enumerate() {
		if (all || i == pick) && (c as u32) < 0x10000 {
			out.push_str(&format!("\\u{:04x}", c as u32));
		} else {
			let one = serde_json::to_string(&c.to_string()).unwrap();
			out.push_str(&one[1..one.len() - 1]);
		}
	}
	out.push('"');
}

/// JSON text of an "ordered object" encoded as [[k,v],...] by `shuffle_obj`
fn render(v: &Value, ordered: bool, rng: &mut StdRng, out: &mut String) {
	let ws = |rng: &mut StdRng, out: &mut String| {
		if rng.gen_bool(0.15) {
			out.push_str(*[" ", "\n", "\t", "  "].choose(rng).unwrap());
		}
	};
	match v {
		Value::Array(items) if ordered => {
			out.push('{');
			for (i, kv) in items.iter().enumerate() {
				if i > 0 {
					out.push(',');
				}
				ws(rng, out);
				let k = kv[0].as_str().unwrap();
				jstr(k, rng, out);
				ws(rng, out);
				out.push(':');
				ws(rng, out);
				render_any(&kv[1], rng, out);
			}
			ws(rng, out);
			out.push('}');
		}
		_ => render_any(v, rng, out),
	}
}

/// Values produced by `spell` mark ordered objects as {"__obj": [[k,v]...]}
fn render_any(v: &Value, rng: &mut StdRng, out: &mut String) {
	match v {
		Value::Object(m) if m.len() == 1 && m.contains_key("__obj") => render(&m["__obj"], true, rng, out),
		Value::Array(items) => {
			out.push('[');
			for (i, it) in items.iter().enumerate() {
				if i > 0 {
					out.push(',');
				}
				render_any(it, rng, out);
			}
			out.push(']');
		}
		Value::String(st) => jstr(st, rng, out),
		other => out.push_str(&serde_json::to_string(other).unwrap()),
	}
}

fn obj(rng: &mut StdRng, m: Vec<(String, Value)>) -> Value {
	let mut o = Map::new();
	o.insert("__obj".into(), shuffle_obj(rng, m));
	Value::Object(o)
}

fn logical_members(l: &Option<ALogical>, m: &mut Vec<(String, Value)>) {
	match l {
		None => {}
		Some(ALogical::Simple(n)) => m.push(("logicalType".into(), json!(n))),
		Some(ALogical::Decimal { precision, scale }) => {
			m.push(("logicalType".into(), json!("decimal")));
			m.push(("precision".into(), json!(precision)));
			if let Some(s) = scale {
				m.push(("scale".into(), json!(s)));
			}
		}
	}
}

fn name_members(rng: &mut StdRng, ns: &Option<String>, name: &str, enc: &Option<String>, m: &mut Vec<(String, Value)>) {
	let mut opts = vec![0, 1];
	if ns == enc {
		opts.push(2);
		opts.push(2);
	}
	match opts.choose(rng).unwrap() {
		0 => match ns {
			// dotted name (leading dot = no namespace)
			Some(ns) => m.push(("name".into(), json!(format!("{ns}.{name}")))),
			None => m.push(("name".into(), json!(if enc.is_some() || rng.gen_bool(0.3) { format!(".{name}") } else { name.to_string() }))),
		},
		1 => {
			m.push(("name".into(), json!(name)));
			m.push(("namespace".into(), json!(ns.clone().unwrap_or_default())));
		}
		_ => m.push(("name".into(), json!(name))),
	}
}

/// One JSON spelling of the abstract schema, in enclosing namespace `enc`
pub fn spell(rng: &mut StdRng, t: &ATy, enc: &Option<String>) -> Value {
	match t {
		ATy::Prim(p, None) => {
			if rng.gen_bool(0.8) {
				json!(p)
			} else {
				obj(rng, vec![("type".into(), json!(p))])
			}
		}
		ATy::Prim(p, l) => {
			let mut m = vec![("type".into(), json!(p))];
			logical_members(l, &mut m);
			obj(rng, m)
		}
		ATy::Array(i) => {
			let items = spell(rng, i, enc);
			obj(rng, vec![("type".into(), json!("array")), ("items".into(), items)])
		}
		ATy::Map(v) => {
			let values = spell(rng, v, enc);
			obj(rng, vec![("type".into(), json!("map")), ("values".into(), values)])
		}
		ATy::Union(vs) => Value::Array(vs.iter().map(|v| spell(rng, v, enc)).collect()),
		ATy::Ref { ns, name } => {
			if ns == enc && rng.gen_bool(0.7) {
				json!(name)
			} else {
				match ns {
					Some(ns) => json!(format!("{ns}.{name}")),
					None => {
						if enc.is_some() {
							json!(format!(".{name}"))
						} else {
							json!(name)
						}
					}
				}
			}
		}
		ATy::Record { ns, name, fields } => {
			let mut m = vec![("type".into(), json!("record"))];
			name_members(rng, ns, name, enc, &mut m);
			let fs: Vec<Value> = fields
				.iter()
				.map(|(fname, ft)| {
					let ty = spell(rng, ft, ns);
					let mut fm = vec![("name".into(), json!(fname)), ("type".into(), ty)];
					if rng.gen_bool(0.2) {
						fm.push(("default".into(), json!(null)));
					}
					obj(rng, fm)
				})
				.collect();
			m.push(("fields".into(), Value::Array(fs)));
			obj(rng, m)
		}
		ATy::Enum { ns, name, symbols } => {
			let mut m = vec![("type".into(), json!("enum")), ("symbols".into(), json!(symbols))];
			name_members(rng, ns, name, enc, &mut m);
			obj(rng, m)
		}
		ATy::Fixed { ns, name, size, logical } => {
			let mut m = vec![("type".into(), json!("fixed")), ("size".into(), json!(size))];
			name_members(rng, ns, name, enc, &mut m);
			logical_members(logical, &mut m);
			obj(rng, m)
		}
	}
}

/// protocol form of the JSON value the parser sees (object members in document order)
pub fn json_tokens(w: &mut W, text: &str) -> bool {
	// a small JSON reader that keeps member order and duplicates
	fn value(w: &mut W, b: &[u8], i: &mut usize) -> bool {
		skip(b, i);
		if *i >= b.len() {
			return false;
		}
		match b[*i] {
			b'{' => {
				*i += 1;
				let mut members: Vec<(String, W)> = vec![];
				skip(b, i);
				if b.get(*i) == Some(&b'}') {
					*i += 1;
				} else {
					loop {
						skip(b, i);
						let Some(k) = string(b, i) else { return false };
						skip(b, i);
						if b.get(*i) != Some(&b':') {
							return false;
						}
						*i += 1;
						let mut sub = W::default();
						if !value(&mut sub, b, i) {
							return false;
						}
						members.push((k, sub));
						skip(b, i);
						match b.get(*i) {
							Some(b',') => *i += 1,
							Some(b'}') => {
								*i += 1;
								break;
							}
							_ => return false,
						}
					}
				}
				w.t("jobj").n(members.len());
				for (k, sub) in members {
					w.xs(&k).t(&sub.s);
				}
				true
			}
			b'[' => {
				*i += 1;
				let mut items: Vec<W> = vec![];
				skip(b, i);
				if b.get(*i) == Some(&b']') {
					*i += 1;
				} else {
					loop {
						let mut sub = W::default();
						if !value(&mut sub, b, i) {
							return false;
						}
						items.push(sub);
						skip(b, i);
						match b.get(*i) {
							Some(b',') => *i += 1,
							Some(b']') => {
								*i += 1;
								break;
							}
							_ => return false,
						}
					}
				}
				w.t("jarr").n(items.len());
				for sub in items {
					w.t(&sub.s);
				}
				true
			}
			b'"' => match string(b, i) {
				Some(s) => {
					w.t("jstr").xs(&s);
					true
				}
				None => false,
			},
			b't' if b[*i..].starts_with(b"true") => {
				*i += 4;
				w.t("jbool").n(1);
				true
			}
			b'f' if b[*i..].starts_with(b"false") => {
				*i += 5;
				w.t("jbool").n(0);
				true
			}
			b'n' if b[*i..].starts_with(b"null") => {
				*i += 4;
				w.t("jnull");
				true
			}
			_ => {
				let start = *i;
				while *i < b.len() && (b[*i] == b'-' || b[*i] == b'+' || b[*i] == b'.' || b[*i] == b'e' || b[*i] == b'E' || b[*i].is_ascii_digit()) {
					*i += 1;
				}
				let t = std::str::from_utf8(&b[start..*i]).unwrap_or("");
				if t.is_empty() {
					return false;
				}
				match t.parse::<u64>() {
					Ok(n) => {
						w.t("jnat").t(&n.to_string());
					}
					Err(_) => {
						w.t("jnum");
					}
				}
				true
			}
		}
	}
	fn skip(b: &[u8], i: &mut usize) {
		while *i < b.len() && matches!(b[*i], b' ' | b'\n' | b'\t' | b'\r') {
			*i += 1;
		}
	}
	fn string(b: &[u8], i: &mut usize) -> Option<String> {
		if b.get(*i) != Some(&b'"') {
			return None;
		}
		let start = *i;
		*i += 1;
		while *i < b.len() {
			match b[*i] {
				b'\\' => *i += 2,
				b'"' => {
					*i += 1;
					return serde_json::from_slice::<String>(&b[start..*i]).ok();
				}
				_ => *i += 1,
			}
		}
		None
	}
	let b = text.as_bytes();
	let mut i = 0;
	let ok = value(w, b, &mut i);
	skip(b, &mut i);
	ok && i == b.len()
}

/// Name resolution, exhaustively over a grid: enclosing namespace × spelling of the defined name ×
/// namespace attribute × kind × position of the definition × spelling of a later reference
/// (7 560 documents; whether each parses and what each reference resolves to is decided by the
/// model, whose rules are proved against the specification's in `Theorems/C07.lean`).
pub fn generate_names_table(emit: &mut dyn FnMut(String)) {
	let outer_ns = [None, Some("a"), Some("a.b")];
	let names = ["X", "a.X", ".X", "b.X", "a.b.X", "c.d.X"];
	let ns_attr = [None, Some(""), Some("a"), Some("c"), Some("a.b")];
	let refs = ["X", ".X", "a.X", "b.X", "a.b.X", "c.X", "c.d.X"];
	for eo in outer_ns {
		for name in names {
			for na in ns_attr {
				for kind in 0..3 {
					for wrap in 0..4 {
						for r in refs {
							let mut def = match kind {
								0 => json!({"type": "record", "name": name, "fields": []}),
								1 => json!({"type": "enum", "name": name, "symbols": ["A"]}),
								_ => json!({"type": "fixed", "name": name, "size": 2}),
							};
							if let Some(na) = na {
								def.as_object_mut().unwrap().insert("namespace".into(), json!(na));
							}
							let placed = match wrap {
								0 => def,
								1 => json!({"type": "array", "items": def}),
								2 => json!({"type": "map", "values": def}),
								_ => json!(["null", def]),
							};
							let mut outer = json!({
								"type": "record",
								"name": "Outer",
								"fields": [{"name": "f0", "type": placed}, {"name": "f1", "type": r}]
							});
							if let Some(eo) = eo {
								outer.as_object_mut().unwrap().insert("namespace".into(), json!(eo));
							}
							let text = serde_json::to_string(&outer).unwrap();
							let mut w = W::default();
							w.t("schema").t("any").xs(&text);
							let mut jw = W::default();
							if json_tokens(&mut jw, &text) {
								w.t(&jw.s).t("-");
								emit(w.s);
							}
						}
					}
				}
			}
		}
	}
}

/// Second grid: the reference sits *inside* the record whose name / namespace vary (a record's
/// fields are read under the record's own namespace, null included), the target is defined before
/// it at the outer level.
pub fn generate_names_table2(emit: &mut dyn FnMut(String)) {
	let outer_ns = [None, Some("a"), Some("a.b")];
	let names = ["X", "a.X", ".X", "b.X", "a.b.X", "c.d.X"];
	let ns_attr = [None, Some(""), Some("a"), Some("c"), Some("a.b")];
	let targets = ["Y", "a.Y", "b.Y", ".Y"];
	let refs = ["Y", ".Y", "a.Y", "b.Y", "a.b.Y"];
	for eo in outer_ns {
		for name in names {
			for na in ns_attr {
				for t in targets {
					for r in refs {
						let mut inner = json!({"type": "record", "name": name, "fields": [{"name": "g", "type": r}]});
						if let Some(na) = na {
							inner.as_object_mut().unwrap().insert("namespace".into(), json!(na));
						}
						let mut outer = json!({
							"type": "record",
							"name": "Outer",
							"fields": [
								{"name": "d", "type": {"type": "fixed", "name": t, "size": 3}},
								{"name": "f0", "type": inner},
								{"name": "f1", "type": {"type": "array", "items": r}}
							]
						});
						if let Some(eo) = eo {
							outer.as_object_mut().unwrap().insert("namespace".into(), json!(eo));
						}
						let text = serde_json::to_string(&outer).unwrap();
						let mut w = W::default();
						w.t("schema").t("any").xs(&text);
						let mut jw = W::default();
						if json_tokens(&mut jw, &text) {
							w.t(&jw.s).t("-");
							emit(w.s);
						}
					}
				}
			}
		}
	}
}

/// Two records in (possibly) different namespaces, each referring by the SAME unqualified text to
/// a type of its own namespace that is only defined later: both references are pending at once,
/// and each must be bound to the definition its enclosing namespace designates. The expected
/// canonical form is written out here from the specification (the definition stands where the
/// name is first met).
pub fn generate_pending_twins(emit: &mut dyn FnMut(String)) {
	let outer_ns = [None, Some("a"), Some("b")];
	let ns_attr = [None, Some(""), Some("a"), Some("b"), Some("a.b")];
	let fulln = |ns: &Option<String>, n: &str| match ns {
		Some(s) => format!("{s}.{n}"),
		None => n.to_string(),
	};
	for eo in outer_ns {
		for n0 in ns_attr {
			for n1 in ns_attr {
				for defs_first_named in [false, true] {
					let eff = |na: Option<&str>| -> Option<String> {
						match na {
							None => eo.map(|s| s.to_string()),
							Some("") => None,
							Some(s) => Some(s.to_string()),
						}
					};
					let (e0, e1) = (eff(n0), eff(n1));
					let wrapper = |i: usize, na: Option<&str>| {
						let mut w = json!({"type": "record", "name": format!("W{i}"), "fields": [{"name": "r", "type": "X"}]});
						if let Some(na) = na {
							w.as_object_mut().unwrap().insert("namespace".into(), json!(na));
						}
						w
					};
					// definitions, each with its namespace given explicitly (as an attribute, or - the
					// other spelling - as a dotted name)
					let def = |i: usize, e: &Option<String>| {
						let mut d = if i == 0 { json!({"type": "enum", "symbols": ["A"]}) } else { json!({"type": "fixed", "size": 3}) };
						let o = d.as_object_mut().unwrap();
						if defs_first_named && e.is_some() {
							o.insert("name".into(), json!(fulln(e, "X")));
						} else {
							o.insert("name".into(), json!("X"));
							o.insert("namespace".into(), json!(e.clone().unwrap_or_default()));
						}
						d
					};
					let mut fields = vec![json!({"name": "w0", "type": wrapper(0, n0)}), json!({"name": "w1", "type": wrapper(1, n1)})];
					fields.push(json!({"name": "d0", "type": def(0, &e0)}));
					if e0 != e1 {
						fields.push(json!({"name": "d1", "type": def(1, &e1)}));
					}
					let mut outer = json!({"type": "record", "name": "Root", "fields": fields});
					if let Some(eo) = eo {
						outer.as_object_mut().unwrap().insert("namespace".into(), json!(eo));
					}
					let text = serde_json::to_string(&outer).unwrap();
					let x0 = format!("{{\"name\":\"{}\",\"type\":\"enum\",\"symbols\":[\"A\"]}}", fulln(&e0, "X"));
					let x1 = if e0 == e1 { format!("\"{}\"", fulln(&e0, "X")) } else { format!("{{\"name\":\"{}\",\"type\":\"fixed\",\"size\":3}}", fulln(&e1, "X")) };
					let mut expected = format!(
						"{{\"name\":\"{}\",\"type\":\"record\",\"fields\":[{{\"name\":\"w0\",\"type\":{{\"name\":\"{}\",\"type\":\"record\",\"fields\":[{{\"name\":\"r\",\"type\":{}}}]}}}},{{\"name\":\"w1\",\"type\":{{\"name\":\"{}\",\"type\":\"record\",\"fields\":[{{\"name\":\"r\",\"type\":{}}}]}}}},{{\"name\":\"d0\",\"type\":\"{}\"}}",
						fulln(&eo.map(|s| s.to_string()), "Root"),
						fulln(&e0, "W0"),
						x0,
						fulln(&e1, "W1"),
						x1,
						fulln(&e0, "X"),
					);
					if e0 != e1 {
						expected.push_str(&format!(",{{\"name\":\"d1\",\"type\":\"{}\"}}", fulln(&e1, "X")));
					}
					expected.push_str("]}");
					let mut w = W::default();
					w.t("schema").t("ok").xs(&text);
					let mut jw = W::default();
					if json_tokens(&mut jw, &text) {
						w.t(&jw.s).xs(&expected);
						emit(w.s);
					}
				}
			}
		}
	}
}

pub fn generate(stream: &str, seed: u64, n: usize, emit: &mut dyn FnMut(String)) {
	if stream == "names-table" {
		generate_pending_twins(emit);
		generate_names_table2(emit);
		return generate_names_table(emit);
	}
	let mut rng = rng_from(seed, stream);
	for _ in 0..n {
		let budget = *[2usize, 4, 8, 14].choose(&mut rng).unwrap();
		let mut g = DocGen { rng: &mut rng, defined: vec![], next: 0, budget };
		let mut t = g.gen(0, false, &[]);
		let mut twins = false;
		if rng.gen_bool(0.12) {
			// several types sharing one simple name in different namespaces, each defined and
			// then referred to: after the swaps below all of them can be pending at once
			twins = true;
			let nss = [None, Some("a".to_string()), Some("b".to_string()), Some("a.b".to_string())];
			let k = rng.gen_range(2..=3);
			let mut chosen: Vec<Option<String>> = nss.to_vec();
			chosen.shuffle(&mut rng);
			chosen.truncate(k);
			let mut fields = vec![];
			for (i, ns) in chosen.iter().enumerate() {
				let def = match rng.gen_range(0..3) {
					0 => ATy::Fixed { ns: ns.clone(), name: "Id".into(), size: 4 + i, logical: None },
					1 => ATy::Enum { ns: ns.clone(), name: "Id".into(), symbols: (0..=i).map(|j| format!("S{j}")).collect() },
					_ => ATy::Record { ns: ns.clone(), name: "Id".into(), fields: vec![(format!("v{i}"), ATy::Prim("int", None))] },
				};
				fields.push((format!("d{i}"), def));
			}
			for (i, ns) in chosen.iter().enumerate() {
				fields.push((format!("r{i}"), ATy::Ref { ns: ns.clone(), name: "Id".into() }));
				if rng.gen_bool(0.5) {
					fields.push((format!("q{i}"), ATy::Array(Box::new(ATy::Ref { ns: ns.clone(), name: "Id".into() }))));
				}
			}
			t = ATy::Record { ns: NSS.choose(&mut rng).unwrap().map(|s| s.to_string()), name: "Twins".into(), fields };
		}
		let mut expected = String::new();
		expected_pcf(&t, &mut vec![], &mut expected);
		// the canonical form writes a named type in full where it is first *met*, so a document
		// that defines it later has the canonical form of the one that defines it first
		let mut t = t;
		for _ in 0..(if twins { 4 } else { 2 }) {
			if twins || rng.gen_bool(0.35) {
				t = forward_swap(&mut rng, &t);
			}
		}
		let v = spell(&mut rng, &t, &None);
		let mut text = String::new();
		render_any(&v, &mut rng, &mut text);
		let mut expect = "ok";
		if stream == "schema-bad" {
			// single-point damage to a valid document
			expect = "any";
			let which = rng.gen_range(0..6);
			match which {
				0 => text = text.replacen("\"fields\"", "\"fieldz\"", 1),
				1 => text = text.replacen("\"symbols\"", "\"symbolz\"", 1),
				2 => text = text.replacen("\"items\"", "\"itemz\"", 1),
				3 => text = text.replacen("\"size\"", "\"sizes\"", 1),
				4 => text = text.replacen("\"T0\"", "\"T1\"", 1),
				_ => text = text.replacen("\"values\"", "\"valuez\"", 1),
			}
		}
		let mut w = W::default();
		w.t("schema").t(expect).xs(&text);
		let mut jw = W::default();
		if !json_tokens(&mut jw, &text) {
			continue;
		}
		w.t(&jw.s);
		if expect == "ok" {
			w.xs(&expected);
		} else {
			w.t("-");
		}
		emit(w.s);
	}
	// hand-written documents: rejection classes and corner cases (run in every stream)
	for (expect, text) in HAND {
		let mut w = W::default();
		w.t("schema").t(expect).xs(text);
		let mut jw = W::default();
		if json_tokens(&mut jw, text) {
			w.t(&jw.s).t("-");
			emit(w.s);
		}
	}
}

const HAND: &[(&str, &str)] = &[
	("err", r#""NoSuchType""#),
	("err", r#"{"type":"record","name":"R","fields":[{"name":"a","type":"Missing"}]}"#),
	("err", r#"[{"type":"enum","name":"E","symbols":["A"]},{"type":"enum","name":"E","symbols":["B"]}]"#),
	("err", r#"[{"type":"fixed","name":"a.F","size":1},{"type":"fixed","namespace":"a","name":"F","size":2}]"#),
	("err", r#"{"type":"record","fields":[]}"#),
	("err", r#"{"type":"record","name":"R"}"#),
	("err", r#"{"type":"enum","name":"E"}"#),
	("err", r#"{"type":"fixed","name":"F"}"#),
	("err", r#"{"type":"array"}"#),
	("err", r#"{"type":"map"}"#),
	("err", r#""array""#),
	("err", r#"{"type":"record","name":"R","fields":[{"name":"me","type":"R"}]}"#),
	("err", r#"{"type":"record","name":"A","fields":[{"name":"b","type":{"type":"record","name":"B","fields":[{"name":"a","type":"A"}]}}]}"#),
	// the same unconditional cycles where no chain of record fields leads to them from the root
	("err", r#"["null",{"type":"record","name":"N","fields":[{"name":"v","type":"int"},{"name":"next","type":"N"}]}]"#),
	("err", r#"{"type":"array","items":{"type":"record","name":"A","fields":[{"name":"a","type":"A"}]}}"#),
	("err", r#"{"type":"record","name":"Root","fields":[{"name":"xs","type":{"type":"array","items":{"type":"record","name":"A","fields":[{"name":"a","type":"A"}]}}}]}"#),
	("err", r#"{"type":"map","values":{"type":"record","name":"A","fields":[{"name":"b","type":{"type":"record","name":"B","fields":[{"name":"a","type":"A"}]}}]}}"#),
	("err", r#"{"type":"record","name":"Root","fields":[{"name":"m","type":{"type":"map","values":"A"}},{"name":"o","type":["null",{"type":"record","name":"A","fields":[{"name":"b","type":{"type":"record","name":"B","fields":[{"name":"a","type":"A"}]}}]}]}]}"#),
	("ok", r#"{"type":"record","name":"R","fields":[{"name":"me","type":["null","R"]}]}"#),
	("ok", r#"{"type":"record","name":"R","fields":[{"name":"me","type":{"type":"array","items":"R"}}]}"#),
	("ok", r#"{"type":"record","name":"R","namespace":"x","fields":[{"name":"a","type":{"type":"enum","name":"E","symbols":["A"]}},{"name":"b","type":"E"},{"name":"c","type":"x.E"}]}"#),
	("ok", r#"{"type":"record","name":"x.R","fields":[{"name":"a","type":{"type":"enum","name":"E","namespace":"","symbols":["A"]}},{"name":"b","type":".E"}]}"#),
	("ok", r#"{"type":"bytes","logicalType":"decimal","precision":4}"#),
	("ok", r#"{"type":"bytes","logicalType":"decimal","precision":4,"scale":2}"#),
	// (rejected by the crate; the specification would have the invalid logical type ignored: D31)
	("any", r#"{"type":"bytes","logicalType":"decimal","scale":2}"#),
	("err", r#"{"type":"int","type":"long"}"#),
	("err", r#"{"type":"fixed","name":"F","size":-1}"#),
	("err", r#"{"type":"fixed","name":"F","size":1.5}"#),
	("err", r#"{"type":"fixed","name":"F","size":"4"}"#),
	("err", r#"42"#),
	("err", r#"null"#),
	("err", r#"{"name":"x"}"#),
	("any", r#"{"type":"record","name":"R","fields":[{"name":"a","type":"Later"},{"name":"b","type":{"type":"fixed","name":"Later","size":2}}]}"#),
	("ok", r#"{"type":"record","name":"A","fields":[{"name":"b0","type":{"type":"record","name":"B","fields":[]}},{"name":"f0","type":"B"},{"name":"f1","type":"B"},{"name":"f2","type":"B"},{"name":"f3","type":"B"},{"name":"f4","type":"B"},{"name":"f5","type":"B"},{"name":"f6","type":"B"},{"name":"f7","type":"B"},{"name":"f8","type":"B"},{"name":"f9","type":"B"}]}"#),
	("any", r#"[]"#),
	("any", r#"{"type":"int","name":"Alias"}"#),
	("any", r#"[{"type":"int","name":"Alias"},"Alias"]"#),
	("any", r#"{"type":"record","name":"a.b.R","namespace":"ignored","fields":[{"name":"x","type":{"type":"fixed","name":"F","size":1}},{"name":"y","type":"a.b.F"}]}"#),
];

/// `SchemaMut` → protocol nodes (names by fully qualified name)
pub fn dump_nodes(s: &serde_avro_fast::schema::SchemaMut) -> RawSchema {
	use serde_avro_fast::schema::{LogicalType as L, RegularType as T};
	s.nodes()
		.iter()
		.map(|n| RawNode {
			reg: match &n.type_ {
				T::Null => Reg::Null,
				T::Boolean => Reg::Boolean,
				T::Int => Reg::Int,
				T::Long => Reg::Long,
				T::Float => Reg::Float,
				T::Double => Reg::Double,
				T::Bytes => Reg::Bytes,
				T::String => Reg::String,
				T::Array(a) => Reg::Array(a.items.idx()),
				T::Map(m) => Reg::Map(m.values.idx()),
				T::Union(u) => Reg::Union(u.variants.iter().map(|k| k.idx()).collect()),
				T::Record(r) => Reg::Record(
					r.name.fully_qualified_name().to_string(),
					r.fields.iter().map(|f| (f.name.clone(), f.type_.idx())).collect(),
				),
				T::Enum(e) => Reg::Enum(e.name.fully_qualified_name().to_string(), e.symbols.clone()),
				T::Fixed(f) => Reg::Fixed(f.name.fully_qualified_name().to_string(), f.size),
			},
			logical: n.logical_type.as_ref().map(|l| match l {
				L::Decimal(d) => Logical::Decimal(d.scale, d.precision),
				L::Uuid => Logical::Uuid,
				L::Date => Logical::Date,
				L::TimeMillis => Logical::TimeMillis,
				L::TimeMicros => Logical::TimeMicros,
				L::TimestampMillis => Logical::TimestampMillis,
				L::TimestampMicros => Logical::TimestampMicros,
				L::Duration => Logical::Duration,
				L::BigDecimal => Logical::BigDecimal,
				L::Unknown(u) => Logical::Unknown(u.as_str().to_string()),
				_ => Logical::Unknown("?".into()),
			}),
		})
		.collect()
}

pub fn run(line: &str) -> Result<String, String> {
	let mut r = R::new(line);
	let _ = r.tok()?;
	let _expect = r.tok()?;
	let text = r.xs()?;
	let parsed: Result<serde_avro_fast::schema::SchemaMut, _> = text.parse();
	Ok(match parsed {
		Err(_) => "err".into(),
		Ok(s) => {
			let mut w = W::default();
			w.t("ok").schema(&dump_nodes(&s));
			match serde_avro_fast::schema::verif::canonical_form(&s) {
				Ok(p) => {
					w.t("pcf").xs(&p);
					// fingerprint = CRC-64-AVRO of that text, little endian (hook `rabin`)
					let fp = s.canonical_form_rabin_fingerprint().map_err(|_| "fp")?;
					let via_text = serde_avro_fast::schema::verif::rabin(p.as_bytes());
					w.t(if fp == via_text { "fp=pcf" } else { "fp!=pcf" });
				}
				Err(_) => {
					w.t("pcf-err");
				}
			}
			// the JSON kept for a parsed schema is the document, minified, every key preserved
			match s.clone().freeze() {
				Ok(frozen) => {
					let kept: Result<Value, _> = serde_json::from_str(frozen.json());
					let orig: Result<Value, _> = serde_json::from_str(&text);
					let same = matches!((&kept, &orig), (Ok(a), Ok(b)) if a == b);
					let minified = !frozen.json().contains(|c: char| c == '\n' || c == '\t');
					w.t(if same && minified { "jsonkept" } else { "jsonLOST" });
				}
				Err(_) => {
					w.t("freeze-err");
				}
			}
			w.s
		}
	})
}

// keep `build` in the dependency graph of this module (used by graph streams)
#[allow(dead_code)]
fn _unused(raw: &RawSchema) {
	let _ = build::to_schema_mut(raw);
}

// ---------------------------------------------------------------------------------------------
// Builder graphs: canonical form, regenerated JSON, freeze, re-parse

/// Builder graphs over a table of awkward fullnames (dots in every position, empty parts,
/// non-ASCII and multi-byte characters next to the dots, quotes) × kind of named type ×
/// position in the graph (root; branch of a union, where `freeze` derives the short name;
/// nested in a record of the same / another namespace, where the rendering abbreviates it;
/// referred to twice, where rendering and canonical form write a reference).
pub fn generate_graph_names(emit: &mut dyn FnMut(String)) {
	let names = [
		"X", "a.X", "a.b.X", ".X", "..", ".", "", ".ns.", ".ns.X", ".a.b", ".ns.é", ".é", "é.", "ns.", "ns..", "a..b", "..a", "a.é",
		"é.a", "名.名", ".名.名", "a.b.", "e\u{301}.e\u{301}", ".\u{200b}.x", "x y", "quo\"te", "back\\slash", "a.X.", "....", ".a.",
	];
	for name in names {
		for kind in 0..3 {
			let named = |nm: &str| match kind {
				0 => Reg::Record(nm.to_string(), vec![]),
				1 => Reg::Enum(nm.to_string(), vec!["A".into()]),
				_ => Reg::Fixed(nm.to_string(), 2),
			};
			let n = |reg: Reg| RawNode { reg, logical: None };
			let graphs: Vec<RawSchema> = vec![
				vec![n(named(name))],
				vec![n(Reg::Union(vec![1, 2])), n(Reg::Null), n(named(name))],
				vec![n(Reg::Record("a.Outer".into(), vec![("f".into(), 1)])), n(named(name))],
				vec![n(Reg::Record("Outer".into(), vec![("f".into(), 1), ("g".into(), 1)])), n(named(name))],
				vec![n(Reg::Record(".ns.Outer".into(), vec![("f".into(), 1), ("g".into(), 2)])), n(named(name)), n(Reg::Array(1))],
				vec![n(Reg::Array(1)), n(Reg::Union(vec![2, 3])), n(named(name)), n(Reg::Enum("a.Other".into(), vec!["A".into()]))],
			];
			for g in graphs {
				let mut w = W::default();
				w.t("graph").n(0).schema(&g);
				emit(w.s);
			}
		}
	}
}

/// every cycle of length one or two through unnamed nodes, for every combination of array, map
/// and union, standing alone, under a record field, and next to a legal branch (each unnamed kind
/// has its own guard in the canonical-form writer and in the renderer)
fn unnamed_cycles(emit: &mut dyn FnMut(String)) {
	let mk = |kind: usize, to: usize| match kind {
		0 => Reg::Array(to),
		1 => Reg::Map(to),
		_ => Reg::Union(vec![to]),
	};
	let n = |reg: Reg| RawNode { reg, logical: None };
	let mut graphs: Vec<Vec<RawNode>> = vec![];
	for a in 0..3 {
		// self-loop at the root, and under a record
		graphs.push(vec![n(mk(a, 0))]);
		graphs.push(vec![n(Reg::Record("R".into(), vec![("f".into(), 1)])), n(mk(a, 1))]);
		for b in 0..3 {
			graphs.push(vec![n(mk(a, 1)), n(mk(b, 0))]);
			graphs.push(vec![n(Reg::Record("R".into(), vec![("f".into(), 1), ("g".into(), 2)])), n(mk(a, 2)), n(mk(b, 1))]);
			// the cycle next to a legal way out (a union with a primitive branch)
			graphs.push(vec![n(mk(a, 1)), n(Reg::Union(vec![2, 3])), n(Reg::Long), n(mk(b, 0))]);
		}
	}
	for g in graphs {
		let mut w = W::default();
		w.t("graph").n(0).schema(&g);
		emit(w.s);
	}
}

/// acyclic graphs in which records are first reached through an array, map or union and then
/// embed one another DIRECTLY (a field whose type is the record itself), in every order of
/// definition: the walk of the cycle check starts afresh at each of them, and what one walk
/// leaves behind must not disturb the next (the regenerated document has to parse back)
fn embedded_records(emit: &mut dyn FnMut(String)) {
	let n = |reg: Reg| RawNode { reg, logical: None };
	let wrap = |kind: usize, to: usize, null: usize| match kind {
		0 => Reg::Array(to),
		1 => Reg::Map(to),
		_ => Reg::Union(vec![null, to]),
	};
	let mut graphs: Vec<Vec<RawNode>> = vec![];
	for wa in 0..3 {
		for wz in 0..3 {
			for order in 0..2 {
				// nodes: 0 Root, 1 null, 2 int, 3 wrapper of A, 4 wrapper of Z, 5/6 A and Z
				let (ia, iz) = if order == 0 { (5, 6) } else { (6, 5) };
				let a = n(Reg::Record("A".into(), vec![("x".into(), 2)]));
				let z = n(Reg::Record("Z".into(), vec![("a".into(), ia), ("b".into(), ia)]));
				let (n5, n6) = if order == 0 { (a, z) } else { (z, a) };
				graphs.push(vec![
					n(Reg::Record("Root".into(), vec![("a".into(), 3), ("zs".into(), 4)])),
					n(Reg::Null),
					n(Reg::Int),
					n(wrap(wa, ia, 1)),
					n(wrap(wz, iz, 1)),
					n5,
					n6,
				]);
				// the same with the wrapper of Z first, and an empty record embedded twice
				graphs.push(vec![
					n(Reg::Record("Root".into(), vec![("zs".into(), 4), ("a".into(), 3), ("u".into(), 7), ("v".into(), 7)])),
					n(Reg::Null),
					n(Reg::Int),
					n(wrap(wa, ia, 1)),
					n(wrap(wz, iz, 1)),
					if order == 0 { n(Reg::Record("A".into(), vec![("x".into(), 2), ("e".into(), 7)])) } else { n(Reg::Record("Z".into(), vec![("a".into(), ia), ("e".into(), 7)])) },
					if order == 0 { n(Reg::Record("Z".into(), vec![("a".into(), ia), ("e".into(), 7)])) } else { n(Reg::Record("A".into(), vec![("x".into(), 2), ("e".into(), 7)])) },
					n(Reg::Record("Unit".into(), vec![])),
				]);
			}
		}
	}
	for g in graphs {
		let mut w = W::default();
		w.t("graph").n(1).schema(&g);
		emit(w.s);
	}
}

/// a logical type the crate does not know (kept as an annotation) on every kind of node that can
/// carry one - the renderer has one arm per kind, each of which must write it
fn logical_on_every_kind(emit: &mut dyn FnMut(String)) {
	let kinds = [
		Reg::Array(2),
		Reg::Map(2),
		Reg::Record("Inner".into(), vec![("x".into(), 2)]),
		Reg::Enum("E".into(), vec!["A".into(), "B".into()]),
		Reg::Fixed("F".into(), 5),
		Reg::Bytes,
		Reg::String,
		Reg::Long,
		Reg::Boolean,
		Reg::Null,
		Reg::Float,
	];
	for k in kinds {
		for name in ["custom-kind", "map"] {
			let g = vec![
				RawNode { reg: Reg::Record("R".into(), vec![("f".into(), 1), ("g".into(), 1)]), logical: None },
				RawNode { reg: k.clone(), logical: Some(Logical::Unknown(name.into())) },
				RawNode { reg: Reg::Int, logical: None },
			];
			let mut w = W::default();
			w.t("graph").n(1).schema(&g);
			emit(w.s);
		}
	}
}

/// an UNKNOWN logical type that carries the name of a known one (the builder API accepts any
/// name), on underlying types the known one fits and does not fit: what is rendered must parse
/// back to a schema with the same meaning
fn unknown_named_like_known(emit: &mut dyn FnMut(String)) {
	let names = ["decimal", "big-decimal", "uuid", "date", "time-millis", "time-micros", "timestamp-millis", "timestamp-micros", "duration", "local-timestamp-millis"];
	let unders = [Reg::Bytes, Reg::String, Reg::Int, Reg::Long, Reg::Fixed("F".into(), 12), Reg::Fixed("F".into(), 16)];
	for name in names {
		for u in &unders {
			let g = vec![
				RawNode { reg: Reg::Record("R".into(), vec![("f".into(), 1)]), logical: None },
				RawNode { reg: u.clone(), logical: Some(Logical::Unknown(name.into())) },
			];
			let mut w = W::default();
			w.t("graph").n(1).schema(&g);
			emit(w.s);
		}
	}
}

pub fn generate_graph(stream: &str, seed: u64, n: usize, emit: &mut dyn FnMut(String)) {
	let mut rng = rng_from(seed, stream);
	if stream == "graph-wild" {
		unnamed_cycles(emit);
	}
	if stream == "graph" {
		embedded_records(emit);
		unknown_named_like_known(emit);
		logical_on_every_kind(emit);
	}
	for i in 0..n {
		let wild = stream == "graph-wild" || rng.gen_bool(0.2);
		let max_nodes = if i % 10 == 0 { 24 } else { 10 };
		let mut raw = gen_schema(&mut rng, max_nodes, wild);
		let mut unique = true;
		if rng.gen_bool(0.2) {
			// an unnamed node shared by several parents and lying on a cycle through a named
			// type (what the derive builder produces for `T { f: Vec<T> }` used twice): legal
			let recs: Vec<usize> = (0..raw.len()).filter(|&k| matches!(raw[k].reg, Reg::Record(..))).collect();
			if let Some(&r) = recs.choose(&mut rng) {
				let a = raw.len();
				raw.push(RawNode { reg: if rng.gen_bool(0.5) { Reg::Array(r) } else { Reg::Map(r) }, logical: None });
				for &q in recs.iter().filter(|&&q| q == r || rng.gen_bool(0.5)) {
					if let Reg::Record(_, fs) = &mut raw[q].reg {
						fs.push((format!("sh{}", fs.len()), a));
					}
				}
			}
		}
		if stream == "graph-wild" {
			// arbitrary damage through the public builder API
			match rng.gen_range(0..8) {
				6 | 7 => {
					// a node nothing refers to (as left behind by `nodes_mut().pop()` / edits),
					// holding a key that is exactly one past the end, further out, or valid
					let len = raw.len() + 1;
					let k = match rng.gen_range(0..6) {
						0 | 1 => len,
						2 => len + rng.gen_range(1..3),
						// keys no allocation can hold: a comparison made in a signed or narrower
						// type lets them through (`usize::MAX` is "-1", 2^63 is `isize::MIN`)
						3 => *[usize::MAX, 1usize << 63, (1usize << 63) + len, isize::MAX as usize, u32::MAX as usize, (u32::MAX as usize) + 1 + rng.gen_range(0..len)]
							.choose(&mut rng)
							.unwrap(),
						_ => rng.gen_range(0..len),
					};
					let reg = match rng.gen_range(0..4) {
						0 => Reg::Array(k),
						1 => Reg::Map(k),
						2 => Reg::Union(vec![0, k]),
						_ => Reg::Record(format!("Orphan{i}"), vec![("f".into(), k)]),
					};
					raw.push(RawNode { reg, logical: None });
				}
				0 => {
					// dangling key
					let len = raw.len();
					if let Some(node) = raw.iter_mut().find(|n| matches!(n.reg, Reg::Array(_) | Reg::Map(_))) {
						match &mut node.reg {
							Reg::Array(k) | Reg::Map(k) => *k = len + rng.gen_range(0..3),
							_ => {}
						}
					}
				}
				1 if rng.gen_bool(0.4) && matches!(raw[0].reg, Reg::Record(..)) => {
					// a cycle through unnamed types only, one of which also refers back to a
					// named type that is already written when the cycle is entered
					let a = raw.len();
					let u = a + 1;
					raw.push(RawNode { reg: Reg::Array(u), logical: None });
					raw.push(RawNode { reg: Reg::Union(vec![0, a]), logical: None });
					if let Reg::Record(_, fs) = &mut raw[0].reg {
						fs.push((format!("cyc{}", fs.len()), a));
					}
				}
				1 => {
					// cycle through unnamed types only
					let len = raw.len();
					raw.push(RawNode { reg: Reg::Array(len), logical: None });
					if let Some(Reg::Union(vs)) = raw.iter_mut().map(|n| &mut n.reg).find(|r| matches!(r, Reg::Union(_))) {
						vs.push(len);
					} else {
						raw[0] = RawNode { reg: Reg::Map(len), logical: None };
					}
				}
				2 => raw.clear(),
				3 => {
					// duplicate fullname
					let names: Vec<String> = raw
						.iter()
						.filter_map(|n| match &n.reg {
							Reg::Record(nm, _) | Reg::Enum(nm, _) | Reg::Fixed(nm, _) => Some(nm.clone()),
							_ => None,
						})
						.collect();
					if let Some(nm) = names.first() {
						raw.push(RawNode { reg: Reg::Enum(nm.clone(), vec!["Z".into()]), logical: None });
						let last = raw.len() - 1;
						raw.push(RawNode { reg: Reg::Union(vec![0, last]), logical: None });
						let l = raw.len() - 1;
						raw.swap(0, l);
						// fix keys that pointed to 0 / l
						for n in raw.iter_mut() {
							let fix = |k: &mut usize| {
								if *k == 0 {
									*k = l
								} else if *k == l {
									*k = 0
								}
							};
							match &mut n.reg {
								Reg::Array(k) | Reg::Map(k) => fix(k),
								Reg::Union(vs) => vs.iter_mut().for_each(fix),
								Reg::Record(_, fs) => fs.iter_mut().for_each(|(_, k)| fix(k)),
								_ => {}
							}
						}
						unique = false;
					}
				}
				4 => {
					// logical type on a union, odd names
					if let Some(node) = raw.iter_mut().find(|n| matches!(n.reg, Reg::Union(_))) {
						node.logical = Some(Logical::Date);
					}
					for n in raw.iter_mut() {
						if let Reg::Record(nm, _) = &mut n.reg {
							*nm = [".lead", "trail.", "a..b", "", "x.y.z.W", "quote\"d"].choose(&mut rng).unwrap().to_string();
							unique = false;
							break;
						}
					}
				}
				_ => {}
			}
		}
		if wild {
			unique = false;
		}
		let mut w = W::default();
		w.t("graph").n(unique as usize).schema(&raw);
		emit(w.s);
	}
}

pub fn run_graph(line: &str) -> Result<String, String> {
	let mut r = R::new(line);
	let _ = r.tok()?;
	let _unique = r.n()?;
	let raw = r.schema()?;
	// the same graph, built from nodes - or obtained by editing (through `nodes_mut`) a schema
	// parsed from a document: what such a schema reports afterwards must describe the edited
	// graph, not the document it once came from
	let g = build::to_schema_mut_sel(&raw, line.len());
	let mut w = W::default();
	let pcf = serde_avro_fast::schema::verif::canonical_form(&g);
	match &pcf {
		Ok(p) => w.t("pcf").xs(p),
		Err(_) => w.t("pcf-err"),
	};
	let json = serde_json::to_string(&g);
	match &json {
		Ok(text) => {
			w.t("json");
			let mut jw = W::default();
			if !json_tokens(&mut jw, text) {
				return Err("crate produced text that is not JSON".into());
			}
			w.t(&jw.s);
		}
		Err(_) => {
			w.t("json-err");
		}
	}
	match g.clone().freeze() {
		Ok(frozen) => {
			// the frozen schema reports the regenerated text and the fingerprint of the form above
			let same_json = json.as_ref().map_or(false, |t| t == frozen.json());
			let same_fp = pcf
				.as_ref()
				.map_or(false, |p| serde_avro_fast::schema::verif::rabin(p.as_bytes()) == *frozen.rabin_fingerprint());
			w.t(if same_json && same_fp { "freeze-ok" } else { "freeze-INCONSISTENT" });
		}
		Err(_) => {
			w.t("freeze-err");
		}
	}
	// re-parse the regenerated document
	if let Ok(text) = &json {
		match text.parse::<serde_avro_fast::schema::SchemaMut>() {
			Err(_) => {
				w.t("reparse-err");
			}
			Ok(g2) => {
				w.t("reparse-ok").schema(&dump_nodes(&g2));
				match serde_avro_fast::schema::verif::canonical_form(&g2) {
					Ok(p2) => w.t("pcf2").xs(&p2),
					Err(_) => w.t("pcf2-err"),
				};
				match serde_json::to_string(&g2) {
					Ok(t2) => w.t(if &t2 == text { "render-idempotent" } else { "render-CHANGED" }),
					Err(_) => w.t("render2-err"),
				};
			}
		}
	}
	Ok(w.s)
}

// ---------------------------------------------------------------------------------------------
// Long reference chains (known finding D3b: recursion depth = chain length)

/// `chain <n>`: a flat union of n records R_i { a: R_{i+1} } (the last one empty): a valid
/// document of ~60 bytes per record whose reference chain has length n
pub fn run_chain(line: &str) -> Result<String, String> {
	let mut r = R::new(line);
	let _ = r.tok()?;
	let n = r.n()?;
	let mut doc = String::from("[");
	for i in 0..n {
		if i > 0 {
			doc.push(',');
		}
		if i + 1 < n {
			doc.push_str(&format!(
				r#"{{"type":"record","name":"R{i}","fields":[{{"name":"a","type":["null","R{}"]}}]}}"#,
				i + 1
			));
		} else {
			doc.push_str(&format!(r#"{{"type":"record","name":"R{i}","fields":[]}}"#));
		}
	}
	doc.push(']');
	Ok(match doc.parse::<serde_avro_fast::Schema>() {
		Ok(s) => format!("ok {}", s.rabin_fingerprint().len()),
		Err(_) => "err".into(),
	})
}

/// `diamond <n>`: records R0 … Rn, each Ri with two fields of type R(i+1) (defined in place in the
/// first, referred to by name in the second), Rn empty: an acyclic document of n levels in which
/// the number of PATHS from the root doubles at every level. Construction must take time
/// proportional to the document, not to the number of paths: the parse runs on its own thread and
/// is given 20 seconds.
pub fn run_diamond(line: &str) -> Result<String, String> {
	let mut r = R::new(line);
	let _ = r.tok()?;
	let n = r.n()?;
	fn level(i: usize, n: usize) -> String {
		if i == n {
			format!(r#"{{"type":"record","name":"R{i}","fields":[]}}"#)
		} else {
			format!(
				r#"{{"type":"record","name":"R{i}","fields":[{{"name":"a","type":{}}},{{"name":"b","type":"R{}"}}]}}"#,
				level(i + 1, n),
				i + 1
			)
		}
	}
	let doc = level(0, n);
	let (tx, rx) = std::sync::mpsc::channel();
	std::thread::spawn(move || {
		let res = match doc.parse::<serde_avro_fast::Schema>() {
			Ok(s) => format!("ok {}", s.rabin_fingerprint().len()),
			Err(_) => "err".into(),
		};
		let _ = tx.send(res);
	});
	Ok(rx.recv_timeout(std::time::Duration::from_secs(20)).unwrap_or_else(|_| "timeout".into()))
}

pub fn generate_chain(emit: &mut dyn FnMut(String)) {
	for n in [1usize, 10, 100, 1000, 50000] {
		emit(format!("chain {n}"));
	}
	for n in [1usize, 5, 20, 36] {
		emit(format!("diamond {n}"));
	}
}
