//! Stream `crc`: arbitrary bytes through the checksum hook.
use crate::{gen::*, proto::*};
use rand::Rng;

pub fn generate(seed: u64, n: usize, emit: &mut dyn FnMut(String)) {
	let mut rng = rng_from(seed, "crc");
	let mut line = |b: &[u8]| {
		let mut w = W::default();
		w.t("crc").xb(b);
		w.s
	};
	emit(line(&[]));
	// every table index is hit by the 256 one-byte strings
	for b in 0..=255u8 {
		emit(line(&[b]));
	}
	for _ in 0..n {
		let len = if rng.gen_bool(0.8) { rng.gen_range(0..40) } else { rng.gen_range(40..600) };
		let bytes: Vec<u8> = (0..len).map(|_| rng.gen()).collect();
		emit(line(&bytes));
	}
}

pub fn run(line: &str) -> Result<String, String> {
	let mut r = R::new(line);
	let _ = r.tok()?;
	let b = r.xb()?;
	Ok(format!("fp {}", hex(&serde_avro_fast::schema::verif::rabin(&b))))
}
