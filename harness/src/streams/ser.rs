//! Stream `ser`: (schema, serde value) → bytes or error, on a `Vec` or on a sink that fails
//! after a byte budget.
use crate::{build, gen::*, proto::*};
use rand::Rng;
use std::str::FromStr;

struct BudgetSink {
	buf: Vec<u8>,
	remaining: usize,
}
impl std::io::Write for BudgetSink {
	fn write(&mut self, b: &[u8]) -> std::io::Result<usize> {
		if b.is_empty() {
			return Ok(0);
		}
		if self.remaining == 0 {
			return Err(std::io::Error::new(std::io::ErrorKind::Other, "budget exhausted"));
		}
		let n = b.len().min(self.remaining);
		self.buf.extend_from_slice(&b[..n]);
		self.remaining -= n;
		Ok(n)
	}
	fn flush(&mut self) -> std::io::Result<()> {
		Ok(())
	}
}

/// A sink that never fails but accepts at most `max` bytes per `write` call and keeps `Write`'s
/// default `write_vectored` (which forwards one buffer only): what reaches it must not depend on
/// that - any `write` whose count is dropped, where `write_all` is meant, shows as missing bytes.
pub struct ShortSink {
	pub buf: Vec<u8>,
	pub max: usize,
}
impl std::io::Write for ShortSink {
	fn write(&mut self, b: &[u8]) -> std::io::Result<usize> {
		let n = b.len().min(self.max);
		self.buf.extend_from_slice(&b[..n]);
		Ok(n)
	}
	fn flush(&mut self) -> std::io::Result<()> {
		Ok(())
	}
}

/// A sink that takes `left` bytes and then reports a hard error.
pub struct FailingSink {
	pub left: usize,
}
impl std::io::Write for FailingSink {
	fn write(&mut self, b: &[u8]) -> std::io::Result<usize> {
		if self.left == 0 {
			return Err(std::io::Error::new(std::io::ErrorKind::Other, "sink full"));
		}
		let n = b.len().min(self.left);
		self.left -= n;
		Ok(n)
	}
	fn flush(&mut self) -> std::io::Result<()> {
		Ok(())
	}
}

/// One case in three first presents the same value, on the SAME configuration, to a sink that
/// fails after a few bytes: whatever that attempt set aside must be gone when the real one starts
/// (what a serialization returns is a function of schema and value, not of what the
/// configuration went through before - C14's theorem on the model; here it is history for C01).
pub fn datum_vec_hist<T: serde::Serialize + ?Sized>(
	v: &T,
	config: &mut serde_avro_fast::ser::SerializerConfig,
	sel: usize,
) -> Result<Vec<u8>, serde_avro_fast::ser::SerError> {
	if sel % 3 == 0 {
		let _ = serde_avro_fast::to_datum(v, FailingSink { left: (sel / 3) % 7 }, config);
	}
	datum_vec_sel(v, config, sel)
}

/// `to_datum_vec`, through a `Vec` (even `sel`) or through a `ShortSink` (odd `sel`).
pub fn datum_vec_sel<T: serde::Serialize + ?Sized>(
	v: &T,
	config: &mut serde_avro_fast::ser::SerializerConfig,
	sel: usize,
) -> Result<Vec<u8>, serde_avro_fast::ser::SerError> {
	if sel % 2 == 0 {
		serde_avro_fast::to_datum_vec(v, config)
	} else {
		// (one byte per call half of the time: every multi-byte `write` is then a short write)
		let max = if (sel / 2) % 2 == 0 { 1 } else { 1 + (sel / 4) % 5 };
		serde_avro_fast::to_datum(v, ShortSink { buf: vec![], max }, config).map(|s| s.buf)
	}
}

/// Oracle table for the parameter functions (`f64 as f32`, rust_decimal), evaluated on the
/// points this case can reach.
pub fn ext_entries(w: &mut W, schema: &RawSchema, v: &SV) {
	use rust_decimal::prelude::FromPrimitive;
	let scales: Vec<u32> = schema
		.iter()
		.filter_map(|n| match n.logical {
			Some(Logical::Decimal(s, _)) => Some(s),
			_ => None,
		})
		.collect();
	let has_dec = !scales.is_empty() || schema.iter().any(|n| matches!(n.logical, Some(Logical::BigDecimal)));
	let mut seen: Vec<String> = vec![];
	fn walk(v: &SV, f: &mut dyn FnMut(&SV)) {
		f(v);
		match v {
			SV::Some(x) | SV::NewtypeStruct(_, x) | SV::NewtypeVariant(_, _, _, x) => walk(x, f),
			SV::Seq(_, es) | SV::Tuple(es) | SV::TupleStruct(_, es) | SV::TupleVariant(_, _, _, es) => {
				es.iter().for_each(|e| walk(e, f))
			}
			SV::Map(_, es, _) => es.iter().for_each(|(k, v)| {
				walk(k, f);
				walk(v, f)
			}),
			SV::Struct(_, fs) | SV::StructVariant(_, _, _, fs) => fs.iter().for_each(|(_, v)| walk(v, f)),
			_ => {}
		}
	}
	let mut decs: Vec<rust_decimal::Decimal> = vec![];
	walk(v, &mut |x| match x {
		SV::F64(b) => {
			let key = format!("f{b:x}");
			if seen.contains(&key) {
				return;
			}
			seen.push(key);
			let f = f64::from_bits(*b);
			w.t("f32").t(&format!("{:x}", b)).t(&format!("{:x}", (f as f32).to_bits()));
			if has_dec {
				w.t("df64").t(&format!("{:x}", b));
				match rust_decimal::Decimal::from_f64(f) {
					None => {
						w.t("none");
					}
					Some(d) => {
						w.t(&d.mantissa().to_string()).n(d.scale() as usize);
						decs.push(d);
					}
				}
			}
		}
		SV::Str(s) | SV::UnitStruct(s) | SV::UnitVariant(_, _, s) if has_dec => {
			let key = format!("s{s}");
			if seen.contains(&key) {
				return;
			}
			seen.push(key);
			w.t("dparse").xs(s);
			match rust_decimal::Decimal::from_str(s) {
				Err(_) => {
					w.t("none");
				}
				Ok(d) => {
					w.t(&d.mantissa().to_string()).n(d.scale() as usize);
					decs.push(d);
				}
			}
		}
		SV::Char(c) if has_dec => {
			let s = c.to_string();
			let key = format!("s{s}");
			if seen.contains(&key) {
				return;
			}
			seen.push(key);
			w.t("dparse").xs(&s);
			match rust_decimal::Decimal::from_str(&s) {
				Err(_) => {
					w.t("none");
				}
				Ok(d) => {
					w.t(&d.mantissa().to_string()).n(d.scale() as usize);
					decs.push(d);
				}
			}
		}
		_ => {}
	});
	let mut seen_r: Vec<(i128, u32, u32)> = vec![];
	for d in decs {
		for &s in &scales {
			let key = (d.mantissa(), d.scale(), s);
			if seen_r.contains(&key) {
				continue;
			}
			seen_r.push(key);
			let mut r = d;
			r.rescale(s);
			w.t("rescale")
				.t(&d.mantissa().to_string())
				.n(d.scale() as usize)
				.n(s as usize)
				.t(&r.mantissa().to_string())
				.n(r.scale() as usize);
		}
	}
}

pub fn case_line(allow_slow: bool, budget: Option<usize>, schema: &RawSchema, v: &SV) -> String {
	let mut w = W::default();
	w.t("ser").n(allow_slow as usize).optn(budget).schema(schema).sv(v);
	ext_entries(&mut w, schema, v);
	w.s
}

/// Every leaf type that accepts several presentations (fixed, duration, decimals, enum, bytes,
/// string, uuid) × the presentations around each boundary the serializer checks: lengths one
/// short / exact / one long, advertised lengths that lie, elements of the wrong type or out of the
/// byte range, duration given as tuple / sequence / struct / map with missing, repeated, unknown
/// or out-of-range members, enum by index / name / number at and beyond the symbol count - each
/// with and without `allow_slow_sequence_to_bytes`. What the serializer answers is the model's;
/// what it must answer where it returns `Ok` is the specification's (judge).
pub fn generate_leaf_table(emit: &mut dyn FnMut(String)) {
	use crate::proto::BigI;
	let nd = |reg: Reg, logical: Option<Logical>| RawNode { reg, logical };
	let u = |t: IntTy, v: u128| SV::Int(t, BigI::Pos(v));
	let i = |t: IntTy, v: i128| SV::Int(t, BigI::from_i128(v));
	let u8s = |bs: &[u8]| -> Vec<SV> { bs.iter().map(|b| SV::Int(IntTy::U8, BigI::Pos(*b as u128))).collect() };
	let mut cases: Vec<(RawSchema, SV)> = vec![];
	// fixed / bytes / string / uuid / decimal-on-fixed: byte-like presentations
	let byte_like: Vec<(RawNode, usize)> = vec![
		(nd(Reg::Fixed("F".into(), 0), None), 0),
		(nd(Reg::Fixed("F".into(), 1), None), 1),
		(nd(Reg::Fixed("F".into(), 3), None), 3),
		(nd(Reg::Bytes, None), 3),
		(nd(Reg::String, None), 3),
		(nd(Reg::String, Some(Logical::Uuid)), 3),
		(nd(Reg::Fixed("F".into(), 2), Some(Logical::Decimal(1, 4))), 2),
		(nd(Reg::Bytes, Some(Logical::Decimal(2, 6))), 3),
		(nd(Reg::Fixed("D".into(), 12), Some(Logical::Duration)), 12),
	];
	for (node, size) in &byte_like {
		let sch = vec![node.clone()];
		let lens: Vec<usize> = [size.saturating_sub(1), *size, size + 1].into_iter().collect();
		for &l in &lens {
			let bs: Vec<u8> = (0..l).map(|k| 0x61 + k as u8).collect();
			cases.push((sch.clone(), SV::Bytes(bs.clone())));
			cases.push((sch.clone(), SV::Str(String::from_utf8(bs.clone()).unwrap())));
			cases.push((sch.clone(), SV::Tuple(u8s(&bs))));
			cases.push((sch.clone(), SV::TupleStruct("T".into(), u8s(&bs))));
			for adv in [None, Some(l), Some(l + 1), Some(l.saturating_sub(1)), Some(0)] {
				cases.push((sch.clone(), SV::Seq(adv, u8s(&bs))));
			}
			// an element that is not a byte
			if l > 0 {
				let mut es = u8s(&bs);
				es[l - 1] = u(IntTy::I64, 300);
				cases.push((sch.clone(), SV::Seq(Some(l), es.clone())));
				cases.push((sch.clone(), SV::Tuple(es)));
				let mut es = u8s(&bs);
				es[0] = i(IntTy::I8, -1);
				cases.push((sch.clone(), SV::Seq(None, es)));
				let mut es = u8s(&bs);
				es[0] = SV::Str("a".into());
				cases.push((sch.clone(), SV::Tuple(es)));
				let mut es = u8s(&bs);
				es[l - 1] = u(IntTy::U64, 255);
				cases.push((sch.clone(), SV::Seq(Some(l), es)));
			}
		}
		// each integer width has its own conversion to a byte
		if *size > 0 {
			let bs: Vec<u8> = (0..*size).map(|k| 0x61 + k as u8).collect();
			for t in IntTy::ALL.iter().copied() {
				for val in [0i128, 200, 255, 256, -1, -128] {
					let b = BigI::from_i128(val);
					if b.fits(t) {
						let mut es = u8s(&bs);
						es[*size - 1] = SV::Int(t, b.clone());
						cases.push((sch.clone(), SV::Seq(Some(*size), es.clone())));
						if val == 256 || val == -1 {
							cases.push((sch.clone(), SV::Tuple(es)));
						}
					}
				}
			}
			for other in [SV::Bool(true), SV::F32(1.0f32.to_bits()), SV::F64(1.0f64.to_bits()), SV::Char('a'), SV::Bytes(vec![1]), SV::Unit, SV::None, SV::Seq(Some(1), u8s(&[1]))] {
				let mut es = u8s(&bs);
				es[0] = other;
				cases.push((sch.clone(), SV::Seq(Some(*size), es)));
			}
		}
		cases.push((sch.clone(), SV::Bytes(vec![0xff, 0xfe, 0x00][..(*size).min(3)].to_vec())));
		cases.push((sch.clone(), SV::Char('a')));
		cases.push((sch.clone(), SV::Char('é')));
		cases.push((sch.clone(), SV::Unit));
		cases.push((sch.clone(), SV::None));
		cases.push((sch.clone(), SV::Some(Box::new(SV::Bytes(vec![0x61; *size])))));
		cases.push((sch.clone(), SV::NewtypeStruct("N".into(), Box::new(SV::Bytes(vec![0x61; *size])))));
	}
	// duration: the three members in every container shape
	let dur = vec![nd(Reg::Fixed("D".into(), 12), Some(Logical::Duration))];
	let names = ["months", "days", "milliseconds"];
	let vals = |a: u128, b: u128, c: u128| vec![u(IntTy::U32, a), u(IntTy::U32, b), u(IntTy::U32, c)];
	for (a, b, c) in [(1u128, 2u128, 3u128), (0, 0, 0), (u32::MAX as u128, 1, 0)] {
		let v = vals(a, b, c);
		cases.push((dur.clone(), SV::Tuple(v.clone())));
		cases.push((dur.clone(), SV::TupleStruct("D".into(), v.clone())));
		cases.push((dur.clone(), SV::Seq(Some(3), v.clone())));
		cases.push((dur.clone(), SV::Seq(None, v.clone())));
		cases.push((dur.clone(), SV::Tuple(v[..2].to_vec())));
		cases.push((dur.clone(), SV::Tuple([v.clone(), vec![u(IntTy::U32, 4)]].concat())));
		for order in [[0usize, 1, 2], [2, 1, 0], [1, 0, 2], [0, 2, 1]] {
			let fs: Vec<(String, SV)> = order.iter().map(|&k| (names[k].to_string(), v[k].clone())).collect();
			cases.push((dur.clone(), SV::Struct("Duration".into(), fs.clone())));
			cases.push((dur.clone(), SV::Map(Some(3), fs.iter().map(|(k, x)| (SV::Str(k.clone()), x.clone())).collect(), true)));
			cases.push((dur.clone(), SV::Map(None, fs.iter().map(|(k, x)| (SV::Str(k.clone()), x.clone())).collect(), false)));
			// one missing, one repeated, one unknown, one misnamed
			let mut m = fs.clone();
			m.pop();
			cases.push((dur.clone(), SV::Struct("Duration".into(), m.clone())));
			cases.push((dur.clone(), SV::Map(Some(2), m.iter().map(|(k, x)| (SV::Str(k.clone()), x.clone())).collect(), true)));
			let mut r = fs.clone();
			r.push(fs[0].clone());
			cases.push((dur.clone(), SV::Struct("Duration".into(), r.clone())));
			cases.push((dur.clone(), SV::Map(None, r.iter().map(|(k, x)| (SV::Str(k.clone()), x.clone())).collect(), true)));
			let mut r2 = fs.clone();
			r2[2] = fs[0].clone();
			cases.push((dur.clone(), SV::Struct("Duration".into(), r2.clone())));
			cases.push((dur.clone(), SV::Map(Some(3), r2.iter().map(|(k, x)| (SV::Str(k.clone()), x.clone())).collect(), false)));
			let mut k = fs.clone();
			k.push(("years".into(), u(IntTy::U32, 1)));
			cases.push((dur.clone(), SV::Struct("Duration".into(), k.clone())));
			cases.push((dur.clone(), SV::Map(Some(4), k.iter().map(|(k, x)| (SV::Str(k.clone()), x.clone())).collect(), true)));
			let mut w = fs.clone();
			w[1].0 = "Months".into();
			cases.push((dur.clone(), SV::Struct("Duration".into(), w.clone())));
			cases.push((dur.clone(), SV::Map(Some(3), w.iter().map(|(k, x)| (SV::Str(k.clone()), x.clone())).collect(), true)));
		}
	}
	for adv in [Some(2), Some(4), Some(0)] {
		for n in [2usize, 3, 4] {
			cases.push((dur.clone(), SV::Seq(adv, (0..n).map(|k| u(IntTy::U32, k as u128)).collect())));
		}
	}
	// floats a decimal cannot hold
	for node in [nd(Reg::Bytes, Some(Logical::Decimal(2, 6))), nd(Reg::Fixed("F".into(), 2), Some(Logical::Decimal(1, 4))), nd(Reg::Bytes, Some(Logical::BigDecimal))] {
		for f in [f64::NAN, f64::INFINITY, f64::NEG_INFINITY, 1e30, -1e30, 1e-30, 0.0, -0.0, 327.67, 327.68, 1.25] {
			cases.push((vec![node.clone()], SV::F64(f.to_bits())));
			cases.push((vec![node.clone()], SV::F32((f as f32).to_bits())));
		}
	}
	// members out of range or of another type
	for bad in [u(IntTy::U64, 1 << 32), i(IntTy::I32, -1), SV::Str("1".into()), SV::F64(1.0f64.to_bits()), u(IntTy::U128, u128::MAX), SV::Unit] {
		cases.push((dur.clone(), SV::Tuple(vec![u(IntTy::U32, 1), bad.clone(), u(IntTy::U32, 3)])));
		cases.push((
			dur.clone(),
			SV::Struct("Duration".into(), vec![("months".into(), u(IntTy::U32, 1)), ("days".into(), bad.clone()), ("milliseconds".into(), u(IntTy::U32, 3))]),
		));
		cases.push((
			dur.clone(),
			SV::Map(Some(3), vec![(SV::Str("months".into()), u(IntTy::U32, 1)), (SV::Str("days".into()), bad.clone()), (SV::Str("milliseconds".into()), u(IntTy::U32, 3))], true),
		));
	}
	cases.push((dur.clone(), SV::Map(Some(3), vec![(u(IntTy::U32, 0), u(IntTy::U32, 1)), (u(IntTy::U32, 1), u(IntTy::U32, 1)), (u(IntTy::U32, 2), u(IntTy::U32, 1))], true)));
	cases.push((dur.clone(), SV::Map(Some(1), vec![(SV::Unit, u(IntTy::U32, 1))], true)));
	// enum: by variant, by name, by number - at and beyond the ends
	let en = vec![nd(Reg::Enum("E".into(), vec!["A".into(), "B".into()]), None)];
	for k in 0..4u32 {
		for name in ["A", "B", "C", ""] {
			cases.push((en.clone(), SV::UnitVariant("E".into(), k, name.into())));
		}
	}
	for name in ["A", "B", "C", "", "a"] {
		cases.push((en.clone(), SV::Str(name.into())));
		cases.push((en.clone(), SV::UnitStruct(name.into())));
	}
	for v in [0i128, 1, 2, -1, i32::MAX as i128, i64::MAX as i128, i64::MAX as i128 + 1, u64::MAX as i128] {
		for t in IntTy::ALL.iter().copied() {
			let b = BigI::from_i128(v);
			if b.fits(t) {
				cases.push((en.clone(), SV::Int(t, b)));
			}
		}
	}
	cases.push((en.clone(), u(IntTy::U128, u128::MAX)));
	cases.push((en.clone(), u(IntTy::U128, 1 << 127)));
	for (sch, v) in cases {
		for allow_slow in [false, true] {
			emit(case_line(allow_slow, None, &sch, &v));
		}
	}
	// counts, lengths and branch indexes on both sides of the one-byte / two-byte varint boundary
	// (zig-zag: 63 | 64) and of the next one (8191 | 8192): a union of 130 branches selected by
	// name and by type, arrays and maps of 63 … 129 items, strings and byte strings of those lengths
	let mut wide: Vec<(RawSchema, SV)> = vec![];
	let mut u: RawSchema = vec![nd(Reg::Union((1..=130).collect()), None)];
	for k in 0..128 {
		u.push(nd(Reg::Fixed(format!("F{k}"), 1), None));
	}
	u.push(nd(Reg::String, None));
	u.push(nd(Reg::Long, None));
	for k in [0usize, 1, 62, 63, 64, 65, 100, 126, 127] {
		wide.push((u.clone(), SV::NewtypeVariant("U".into(), k as u32, format!("F{k}"), Box::new(SV::Bytes(vec![k as u8])))));
	}
	wide.push((u.clone(), SV::Str("x".into())));
	wide.push((u.clone(), SV::Int(IntTy::I64, BigI::Pos(5))));
	wide.push((u.clone(), SV::NewtypeVariant("U".into(), 128, "String".into(), Box::new(SV::Str("y".into())))));
	wide.push((u.clone(), SV::NewtypeVariant("U".into(), 129, "Long".into(), Box::new(SV::Int(IntTy::I64, BigI::from_i128(-7))))));
	for n in [62usize, 63, 64, 65, 127, 128, 129] {
		let items: Vec<SV> = (0..n).map(|k| SV::Int(IntTy::I32, BigI::Pos(k as u128))).collect();
		wide.push((vec![nd(Reg::Array(1), None), nd(Reg::Int, None)], SV::Seq(Some(n), items.clone())));
		wide.push((vec![nd(Reg::Array(1), None), nd(Reg::Int, None)], SV::Seq(None, items)));
		let entries: Vec<(SV, SV)> = (0..n).map(|k| (SV::Str(format!("k{k}")), SV::Bool(k % 2 == 0))).collect();
		wide.push((vec![nd(Reg::Map(1), None), nd(Reg::Boolean, None)], SV::Map(Some(n), entries, true)));
	}
	for n in [63usize, 64, 65, 8191, 8192, 8193] {
		wide.push((vec![nd(Reg::String, None)], SV::Str("a".repeat(n))));
		wide.push((vec![nd(Reg::Bytes, None)], SV::Bytes(vec![0x5a; n])));
	}
	// named branches of one union that share their unqualified name (in different namespaces, one
	// of them possibly the null namespace), in every order: a variant / struct name that is the
	// dotted fullname of one branch selects that branch
	{
		let spell = |ns: &str| if ns.is_empty() { "P".to_string() } else { format!("{ns}.P") };
		for nss in [["g", ""], ["", "g"], ["g", "h"], ["g.h", "g"]] {
			for same_shape in [true, false] {
				for with_null in [false, true] {
					let mut sch: RawSchema = vec![nd(Reg::Union(if with_null { vec![3, 1, 2] } else { vec![1, 2] }), None)];
					sch.push(nd(Reg::Record(spell(nss[0]), vec![("x".into(), 4)]), None));
					sch.push(nd(Reg::Record(spell(nss[1]), vec![(if same_shape { "x" } else { "id" }.into(), 4)]), None));
					sch.push(nd(Reg::Null, None));
					sch.push(nd(Reg::Int, None));
					for (b, ns) in nss.iter().enumerate() {
						let field = if b == 1 && !same_shape { "id" } else { "x" };
						let body = vec![(field.to_string(), SV::Int(IntTy::I32, BigI::Pos(1 + b as u128)))];
						// (the bare "P" is carried by both branches - as the short name of one, and
						// possibly the fullname of the other: which one it selects is the crate's
						// choice, so it is only presented where every choice fits the value)
						let mut nms = vec![];
						if !ns.is_empty() {
							nms.push(spell(ns));
						}
						if same_shape {
							nms.push("P".to_string());
						}
						for nm in nms {
							wide.push((sch.clone(), SV::Struct(nm.clone(), body.clone())));
							wide.push((sch.clone(), SV::StructVariant("E".into(), b as u32, nm.clone(), body.clone())));
							wide.push((sch.clone(), SV::NewtypeVariant("E".into(), b as u32, nm.clone(), Box::new(SV::Struct("Any".into(), body.clone())))));
						}
					}
				}
			}
		}
	}
	for (sch, v) in wide {
		emit(case_line(false, None, &sch, &v));
		let mut w = W::default();
		w.t("rt").n(0).schema(&sch).sv(&v);
		ext_entries(&mut w, &sch, &v);
		emit(w.s);
	}
	// decimals over a fixed wider than an i128: the sign-extension bytes, and values that round to
	// zero from below ("-0.004" at scale 2 is 0, not a negative number)
	for size in [17usize, 20, 32] {
		let sch = vec![nd(Reg::Fixed("W".into(), size), Some(Logical::Decimal(2, 30)))];
		for text in ["-0.004", "-0.001", "-0.005", "-0.006", "0.004", "-0", "0", "-0.00", "-1.5", "1.5", "-12345678901234567890.12", "79228162514264337593543950.33", "-79228162514264337593543950.33"] {
			// (serializer only: reading a decimal wider than 16 bytes back is beyond the crate's
			// documented limit, so there is no round trip to ask for)
			emit(case_line(false, None, &sch, &SV::Str(text.into())));
		}
		for f in [-0.004f64, -0.0049, -0.005, 0.004, -0.0, 0.0, -1.5, 1e15, -1e15] {
			emit(case_line(false, None, &sch, &SV::F64(f.to_bits())));
		}
		for v in [0i128, -1, 1, i64::MIN as i128, i64::MAX as i128, i128::MIN, i128::MAX] {
			emit(case_line(false, None, &sch, &i(IntTy::I128, v)));
		}
	}
}

pub fn generate(stream: &str, seed: u64, n: usize, emit: &mut dyn FnMut(String)) {
	let mut rng = rng_from(seed, stream);
	for i in 0..n {
		let wild = stream != "ser-valid" && rng.gen_bool(0.2);
		let max_nodes = if i % 10 == 0 { 24 } else { 10 };
		let schema = gen_schema(&mut rng, max_nodes, wild);
		let allow_slow = rng.gen_bool(0.7);
		let per_schema = 3;
		for _ in 0..per_schema {
			let mut vg = ValueGen {
				rng: &mut rng,
				schema: &schema,
				allow_slow,
				exotic: if stream == "ser-valid" { 0.3 } else { 0.5 },
				invalid: if stream == "ser-valid" { 0.0 } else { 0.03 },
				by_name_only: stream == "ser-valid",
				maybe_invalid: false,
				no_decimal_oracle: false,
			};
			let mut v = vg.gen(0, 0);
			if stream == "ser-mut" || (stream == "ser" && rng.gen_bool(0.25)) {
				mutate(&mut rng, &mut v);
			}
			let budget = if stream == "ser-sink" { Some(rng.gen_range(0..40)) } else { None };
			emit(case_line(allow_slow, budget, &schema, &v));
		}
	}
}

/// `rt`: serialize, then read back with a dynamically typed target
pub fn run_rt(line: &str) -> Result<String, String> {
	let mut r = R::new(line);
	let _ = r.tok()?;
	// bit 0: allow_slow_sequence_to_bytes; bit 1: the presentation is type-directed (it may not
	// determine a branch, in which case an error is a legitimate outcome)
	let allow_slow = r.n()? & 1 != 0;
	let raw = r.schema()?;
	let v = r.sv()?;
	let schema = match build::to_schema_mut(&raw).freeze() {
		Ok(s) => s,
		Err(_) => return Ok("freeze-err".into()),
	};
	let mut config = serde_avro_fast::ser::SerializerConfig::new(&schema);
	if allow_slow {
		config.allow_slow_sequence_to_bytes();
	}
	Ok(match datum_vec_hist(&v, &mut config, line.len()) {
		Err(_) => "err".into(),
		Ok(bytes) => {
			let back = crate::streams::de::run_one(
				&crate::streams::de::Backend::Slice,
				1_000_000_000,
				64,
				&schema,
				&Hint::Any,
				&bytes,
			);
			// the second decode entry point (`ReaderRead`, refills of a few bytes): the same value,
			// up to the `borrowed` flags
			let via_reader = crate::streams::de::run_one(
				&crate::streams::de::Backend::Reader { last: 1 + line.len() % 5, sched: vec![], max_alloc: 512 * 1024 * 1024 },
				1_000_000_000,
				64,
				&schema,
				&Hint::Any,
				&bytes,
			);
			// the flag after `str <hex>` / `bytes <hex>` says whether the visitor got a borrowed slice
			let norm = |x: &str| {
				let mut ts: Vec<String> = x.split(' ').map(|t| t.to_string()).collect();
				for i in 2..ts.len() {
					if (ts[i - 2] == "str" || ts[i - 2] == "bytes") && ts[i - 1].starts_with('x') {
						ts[i] = "0".into();
					}
				}
				ts.join(" ")
			};
			if norm(&via_reader) != norm(&back) {
				return Ok(format!("ok {} | {} READER-DIFFERS {}", hex(&bytes), back, via_reader));
			}
			format!("ok {} | {}", hex(&bytes), back)
		}
	})
}

/// Unions with several candidate branches for one kind of value, in an order chosen so that the
/// priority table (not the position) decides: e.g. `[float-ish worst, best, second best]`.
fn priority_union(rng: &mut rand::rngs::StdRng) -> (RawSchema, SV) {
	use rand::seq::SliceRandom;
	let n = |reg: Reg| RawNode { reg, logical: None };
	let l = |reg: Reg, lg: Logical| RawNode { reg, logical: Some(lg) };
	let families: Vec<(Vec<RawNode>, SV)> = vec![
		// f64: double 0, float 1, decimal 2
		(
			vec![l(Reg::Bytes, Logical::Decimal(2, 20)), n(Reg::Double), n(Reg::Float)],
			SV::F64(*[0x3fb999999999999au64, 0x7ff8000000000001, 0x3ff0000000000000].choose(rng).unwrap()),
		),
		// i64: long 0, int 1, decimal 5, enum 10
		(
			vec![n(Reg::Enum("E".into(), vec!["A".into(), "B".into()])), n(Reg::Long), n(Reg::Int), l(Reg::Bytes, Logical::Decimal(0, 20))],
			SV::Int(IntTy::I64, crate::proto::BigI::Pos(1)),
		),
		// i32: int 0, long 1
		(vec![l(Reg::Bytes, Logical::Decimal(0, 20)), n(Reg::Int), n(Reg::Long)], SV::Int(IntTy::I32, crate::proto::BigI::Pos(7))),
		// str: string 0, enum 5, bytes 10, fixed 15
		(
			vec![n(Reg::Fixed("F".into(), 1)), n(Reg::String), n(Reg::Enum("E".into(), vec!["A".into()])), n(Reg::Bytes)],
			SV::Str("A".into()),
		),
		// bytes: bytes 0 / fixed 0 conflict is avoided: bytes 0, string 1, duration 5
		(vec![l(Reg::Fixed("D".into(), 12), Logical::Duration), n(Reg::Bytes), n(Reg::String)], SV::Bytes(vec![0x41; 12])),
		// unit variant: enum 0, string 1, null 2, bytes 10
		(
			vec![n(Reg::Bytes), n(Reg::Enum("E".into(), vec!["A".into(), "B".into()])), n(Reg::String), n(Reg::Null)],
			SV::UnitVariant("E".into(), 1, "B".into()),
		),
		// seq: array 0, bytes 2
		(vec![n(Reg::Bytes), n(Reg::Array(0)), n(Reg::Null)], SV::Seq(Some(0), vec![])),
	];
	let (mut branches, v) = families.choose(rng).unwrap().clone();
	// rotate / permute the branches: every order must give the same (best) branch
	branches.shuffle(rng);
	let mut schema = vec![RawNode { reg: Reg::Union((1..=branches.len()).collect()), logical: None }];
	for b in branches.into_iter() {
		schema.push(b);
	}
	// fix arrays: items = a fresh null node
	let null_idx = schema.len();
	let mut needs_null = false;
	for node in schema.iter_mut().skip(1) {
		if let Reg::Array(k) = &mut node.reg {
			*k = null_idx;
			needs_null = true;
		}
	}
	if needs_null {
		schema.push(RawNode { reg: Reg::Null, logical: None });
	}
	(schema, v)
}

/// The union priority table, tied systematically: every ordered triple of branch kinds (23 kinds)
/// against one representative presentation per lookup key. `n` cases are drawn from the 23³ × 14
/// combinations; with `n` ≥ that number the enumeration is exhaustive.
pub fn generate_prio(seed: u64, n: usize, emit: &mut dyn FnMut(String)) {
	use rand::seq::SliceRandom;
	let mut rng = rng_from(seed, "prio");
	let kinds: Vec<(Reg, Option<Logical>)> = vec![
		(Reg::Null, None),
		(Reg::Boolean, None),
		(Reg::Int, None),
		(Reg::Long, None),
		(Reg::Float, None),
		(Reg::Double, None),
		(Reg::Bytes, None),
		(Reg::String, None),
		(Reg::Array(usize::MAX), None),
		(Reg::Map(usize::MAX), None),
		(Reg::Record("R".into(), vec![]), None),
		(Reg::Enum("E".into(), vec!["A".into(), "B".into()]), None),
		(Reg::Fixed("F".into(), 4), None),
		(Reg::Bytes, Some(Logical::Decimal(0, 20))),
		(Reg::Fixed("DF".into(), 8), Some(Logical::Decimal(0, 20))),
		(Reg::Bytes, Some(Logical::BigDecimal)),
		(Reg::String, Some(Logical::Uuid)),
		(Reg::Int, Some(Logical::Date)),
		(Reg::Int, Some(Logical::TimeMillis)),
		(Reg::Long, Some(Logical::TimeMicros)),
		(Reg::Long, Some(Logical::TimestampMillis)),
		(Reg::Long, Some(Logical::TimestampMicros)),
		(Reg::Fixed("Du".into(), 12), Some(Logical::Duration)),
	];
	let values: Vec<SV> = vec![
		SV::Bool(true),
		SV::Int(IntTy::I8, crate::proto::BigI::Pos(1)),
		SV::Int(IntTy::I32, crate::proto::BigI::Pos(1)),
		SV::Int(IntTy::I64, crate::proto::BigI::Pos(1)),
		SV::F32(0x3f80_0000),
		SV::F64(0x3ff0_0000_0000_0000),
		SV::Str("A".into()),
		SV::Bytes(vec![0x41; 4]),
		SV::Unit,
		SV::UnitStruct("A".into()),
		SV::UnitVariant("E".into(), 0, "A".into()),
		SV::Struct("Other".into(), vec![]),
		SV::Map(Some(0), vec![], true),
		SV::Seq(Some(0), vec![]),
	];
	let k = kinds.len();
	let total = k * k * k * values.len();
	let picks: Vec<usize> = if n >= total {
		(0..total).collect()
	} else {
		(0..n).map(|_| rng.gen_range(0..total)).collect()
	};
	for p in picks {
		let (vi, rest) = (p % values.len(), p / values.len());
		let (a, b, c) = (rest % k, (rest / k) % k, rest / (k * k));
		let mut schema = vec![RawNode { reg: Reg::Union(vec![1, 2, 3]), logical: None }];
		for (j, &ki) in [a, b, c].iter().enumerate() {
			let (mut reg, lg) = kinds[ki].clone();
			// distinct names for the named kinds, so that duplicates of a kind are still distinct types
			match &mut reg {
				Reg::Record(nm, _) | Reg::Enum(nm, _) | Reg::Fixed(nm, _) => *nm = format!("{nm}{j}"),
				_ => {}
			}
			schema.push(RawNode { reg, logical: lg });
		}
		// children of arrays / maps: one shared int node
		let int_idx = schema.len();
		let mut need = false;
		for node in schema.iter_mut() {
			if let Reg::Array(x) | Reg::Map(x) = &mut node.reg {
				*x = int_idx;
				need = true;
			}
		}
		if need {
			schema.push(RawNode { reg: Reg::Int, logical: None });
		}
		let v = &values[vi];
		let mut w = W::default();
		w.t("rt").n(2).schema(&schema).sv(v);
		ext_entries(&mut w, &schema, v);
		emit(w.s);
	}
	let _ = &mut rng;
	let _: Option<&usize> = [0usize].choose(&mut rng);
}

/// The (logical type, base type) table of `freeze`, exhaustively: every logical type on every base
/// type as a one-node schema (plus what named/container bases need), against one representative
/// presentation per serializer entry point. What a node freezes to decides which presentations it
/// accepts and what it writes.
pub fn generate_freeze_table(emit: &mut dyn FnMut(String)) {
	let logicals: Vec<Option<Logical>> = vec![
		None,
		Some(Logical::Decimal(1, 10)),
		Some(Logical::Uuid),
		Some(Logical::Date),
		Some(Logical::TimeMillis),
		Some(Logical::TimeMicros),
		Some(Logical::TimestampMillis),
		Some(Logical::TimestampMicros),
		Some(Logical::Duration),
		Some(Logical::BigDecimal),
		Some(Logical::Unknown("custom".into())),
	];
	let bases: Vec<Reg> = vec![
		Reg::Null,
		Reg::Boolean,
		Reg::Int,
		Reg::Long,
		Reg::Float,
		Reg::Double,
		Reg::Bytes,
		Reg::String,
		Reg::Array(1),
		Reg::Map(1),
		Reg::Record("R".into(), vec![("a".into(), 1)]),
		Reg::Enum("E".into(), vec!["A".into(), "B".into()]),
		Reg::Fixed("F12".into(), 12),
		Reg::Fixed("F4".into(), 4),
	];
	let values: Vec<SV> = vec![
		SV::Bool(true),
		SV::Int(IntTy::I32, crate::proto::BigI::Pos(1)),
		SV::Int(IntTy::I64, crate::proto::BigI::Neg(-129)),
		SV::Int(IntTy::U64, crate::proto::BigI::Pos(u64::MAX as u128)),
		SV::F32(0x3f80_0000),
		SV::F64(0x3ff8_0000_0000_0000),
		SV::Str("A".into()),
		SV::Str("1.5".into()),
		SV::Bytes(vec![1, 2, 3, 4]),
		SV::Bytes(vec![7; 12]),
		SV::Unit,
		SV::None,
		SV::UnitVariant("E".into(), 1, "B".into()),
		SV::Struct("R".into(), vec![("a".into(), SV::Int(IntTy::I32, crate::proto::BigI::Pos(2)))]),
		SV::Struct("D".into(), vec![
			("months".into(), SV::Int(IntTy::U32, crate::proto::BigI::Pos(1))),
			("days".into(), SV::Int(IntTy::U32, crate::proto::BigI::Pos(2))),
			("milliseconds".into(), SV::Int(IntTy::U32, crate::proto::BigI::Pos(3))),
		]),
		SV::Seq(Some(1), vec![SV::Int(IntTy::I32, crate::proto::BigI::Pos(3))]),
		SV::Tuple(vec![
			SV::Int(IntTy::U32, crate::proto::BigI::Pos(1)),
			SV::Int(IntTy::U32, crate::proto::BigI::Pos(2)),
			SV::Int(IntTy::U32, crate::proto::BigI::Pos(3)),
		]),
		SV::Map(Some(1), vec![(SV::Str("a".into()), SV::Int(IntTy::I32, crate::proto::BigI::Pos(4)))], true),
	];
	for l in &logicals {
		for b in &bases {
			let schema = vec![RawNode { reg: b.clone(), logical: l.clone() }, RawNode { reg: Reg::Int, logical: None }];
			for v in &values {
				for allow_slow in [false, true] {
					let mut w = W::default();
					w.t("ser").n(allow_slow as usize).optn(None).schema(&schema).sv(v);
					ext_entries(&mut w, &schema, v);
					emit(w.s);
				}
			}
		}
	}
}

pub fn generate_rt_td(seed: u64, n: usize, emit: &mut dyn FnMut(String)) {
	let mut rng = rng_from(seed, "rt-td");
	for i in 0..n {
		if i % 3 == 0 {
			let (schema, v) = priority_union(&mut rng);
			let mut w = W::default();
			w.t("rt").n(2).schema(&schema).sv(&v);
			ext_entries(&mut w, &schema, &v);
			emit(w.s);
			continue;
		}
		let mut sg = SchemaGen::new(&mut rng, 10, false);
		sg.decimal_limits = true;
		let schema = sg.gen_root();
		let allow_slow = rng.gen_bool(0.7);
		let mut vg = ValueGen {
			rng: &mut rng,
			schema: &schema,
			allow_slow,
			exotic: 0.3,
			invalid: 0.0,
			by_name_only: false,
			maybe_invalid: false,
			no_decimal_oracle: false,
		};
		let v = vg.gen(0, 0);
		let mut w = W::default();
		w.t("rt").n(2 + allow_slow as usize).schema(&schema).sv(&v);
		ext_entries(&mut w, &schema, &v);
		emit(w.s);
	}
}

pub fn generate_rt(seed: u64, n: usize, emit: &mut dyn FnMut(String)) {
	let mut rng = rng_from(seed, "rt");
	for i in 0..n {
		let max_nodes = if i % 10 == 0 { 24 } else { 10 };
		let mut sg = SchemaGen::new(&mut rng, max_nodes, false);
		sg.decimal_limits = true;
		let schema = sg.gen_root();
		let allow_slow = rng.gen_bool(0.7);
		for _ in 0..3 {
			let mut vg = ValueGen {
				rng: &mut rng,
				schema: &schema,
				allow_slow,
				exotic: 0.3,
				invalid: 0.0,
				by_name_only: true,
				maybe_invalid: false,
				no_decimal_oracle: false,
			};
			let v = vg.gen(0, 0);
			if vg.maybe_invalid {
				continue;
			}
			let mut w = W::default();
			w.t("rt").n(allow_slow as usize).schema(&schema).sv(&v);
			ext_entries(&mut w, &schema, &v);
			emit(w.s);
		}
	}
}

/// `reuse <allowSlow> <schema> <n> (<budget|-> <sv>)*`: one `SerializerConfig` used for a whole
/// history of serializations (some failing half-way, some on a sink that fails after a budget)
pub fn run_reuse(line: &str) -> Result<String, String> {
	let mut r = R::new(line);
	let _ = r.tok()?;
	let allow_slow = r.n()? != 0;
	let raw = r.schema()?;
	let ops = r.list(|r| Ok((r.optn()?, r.sv()?)))?;
	let schema = match build::to_schema_mut(&raw).freeze() {
		Ok(s) => s,
		Err(_) => return Ok("freeze-err".into()),
	};
	let mut config = serde_avro_fast::ser::SerializerConfig::new(&schema);
	if allow_slow {
		config.allow_slow_sequence_to_bytes();
	}
	let mut outs = vec![];
	for (opi, (budget, v)) in ops.iter().enumerate() {
		// in between, the configuration is lent to something else that must leave no trace in it:
		// a container-writer build whose header fails to serialize (a metadata value that is not
		// bytes), or one that succeeds and is dropped unused
		match (line.len() + opi) % 4 {
			1 => {
				let bad: std::collections::BTreeMap<String, i32> = [("k".to_string(), 1)].into_iter().collect();
				let r = std::panic::catch_unwind(std::panic::AssertUnwindSafe(|| {
					serde_avro_fast::object_container_file_encoding::WriterBuilder::new(&mut config)
						.build_with_user_metadata(Vec::new(), bad)
						.is_err()
				}));
				if !matches!(r, Ok(true)) {
					outs.push("INTERFERENCE-UNEXPECTED".into());
				}
			}
			3 => {
				let _ = std::panic::catch_unwind(std::panic::AssertUnwindSafe(|| {
					let _ = serde_avro_fast::object_container_file_encoding::WriterBuilder::new(&mut config).build(Vec::new());
				}));
			}
			_ => {}
		}
		// the property's oracle, on the implementation alone: a fresh configuration gives the same
		let fresh = std::panic::catch_unwind(std::panic::AssertUnwindSafe(|| {
			let mut fresh_config = serde_avro_fast::ser::SerializerConfig::new(&schema);
			if allow_slow {
				fresh_config.allow_slow_sequence_to_bytes();
			}
			match budget {
				None => match serde_avro_fast::to_datum_vec(v, &mut fresh_config) {
					Ok(bytes) => format!("ok {}", hex(&bytes)),
					Err(_) => "err".into(),
				},
				Some(b) => match serde_avro_fast::to_datum(v, BudgetSink { buf: vec![], remaining: *b }, &mut fresh_config) {
					Ok(sink) => format!("ok {}", hex(&sink.buf)),
					Err(_) => "err".into(),
				},
			}
		}))
		.unwrap_or_else(|_| "panic".into());
		let res = std::panic::catch_unwind(std::panic::AssertUnwindSafe(|| match budget {
			None => match datum_vec_sel(v, &mut config, line.len() + opi) {
				Ok(bytes) => format!("ok {}", hex(&bytes)),
				Err(_) => "err".into(),
			},
			Some(b) => {
				let sink = BudgetSink { buf: vec![], remaining: *b };
				match serde_avro_fast::to_datum(v, sink, &mut config) {
					Ok(sink) => format!("ok {}", hex(&sink.buf)),
					Err(_) => "err".into(),
				}
			}
		}));
		let (bufs, supers) = config.verif_pool();
		let pool = format!(
			"pool {} {}",
			bufs.iter().map(|l| l.to_string()).collect::<Vec<_>>().join(","),
			supers.iter().map(|l| l.to_string()).collect::<Vec<_>>().join(",")
		);
		match res {
			Ok(s) if s != fresh => outs.push(format!("{s} {pool} FRESH-DIFFERS")),
			Ok(s) => outs.push(format!("{s} {pool}")),
			Err(_) => {
				outs.push("panic".into());
				break;
			}
		}
	}
	Ok(outs.join(" ; "))
}

/// Small-scope exhaustion of the record reordering machine on a reused configuration: a 4-field
/// record (also nested in an array, and with an unsized byte sequence next to it), every order of
/// presentation × every way of failing (no failure, each field mistyped, each field omitted, the
/// sink giving up after 0..7 bytes), followed on the same configuration by every order again.
pub fn generate_reuse_table(emit: &mut dyn FnMut(String)) {
	let int = |v: i128| SV::Int(IntTy::I32, if v < 0 { crate::proto::BigI::Neg(v) } else { crate::proto::BigI::Pos(v as u128) });
	// 0: record R {a: int, b: string, c: long, d: [null, int], e: bytes}, …
	let schema: RawSchema = vec![
		RawNode { reg: Reg::Record("R".into(), vec![("a".into(), 1), ("b".into(), 2), ("c".into(), 3), ("d".into(), 4)]), logical: None },
		RawNode { reg: Reg::Int, logical: None },
		RawNode { reg: Reg::String, logical: None },
		RawNode { reg: Reg::Long, logical: None },
		RawNode { reg: Reg::Union(vec![5, 1]), logical: None },
		RawNode { reg: Reg::Null, logical: None },
	];
	let good: Vec<(String, SV)> = vec![
		("a".into(), int(7)),
		("b".into(), SV::Str("xy".into())),
		("c".into(), SV::Int(IntTy::I64, crate::proto::BigI::Pos(300))),
		("d".into(), SV::Some(Box::new(int(-1)))),
	];
	let mut orders: Vec<Vec<usize>> = vec![];
	fn perms(cur: &mut Vec<usize>, used: &mut [bool; 4], out: &mut Vec<Vec<usize>>) {
		if cur.len() == 4 {
			out.push(cur.clone());
			return;
		}
		for i in 0..4 {
			if !used[i] {
				used[i] = true;
				cur.push(i);
				perms(cur, used, out);
				cur.pop();
				used[i] = false;
			}
		}
	}
	perms(&mut vec![], &mut [false; 4], &mut orders);
	let present = |order: &Vec<usize>, bad: Option<usize>, omit: Option<usize>| -> SV {
		let mut fs = vec![];
		for &i in order {
			if omit == Some(i) {
				continue;
			}
			let (n, v) = good[i].clone();
			fs.push((n, if bad == Some(i) { SV::Bool(true) } else { v }));
		}
		SV::Struct("R".into(), fs)
	};
	// probes: two orders that exercise both an in-order and a fully reversed presentation, plus
	// the order itself (a third of the full square keeps the stream at ~10k histories)
	for (oi, o1) in orders.iter().enumerate() {
		let mut firsts: Vec<(Option<usize>, SV)> = vec![(None, present(o1, None, None))];
		for i in 0..4 {
			firsts.push((None, present(o1, Some(i), None)));
			firsts.push((None, present(o1, None, Some(i))));
		}
		for b in 0..8 {
			firsts.push((Some(b), present(o1, None, None)));
		}
		for (budget, first) in firsts {
			for (pi, o2) in orders.iter().enumerate() {
				if !(pi == 0 || pi == 23 || pi == oi || (pi + oi) % 5 == 0) {
					continue;
				}
				let probe = present(o2, None, None);
				let mut w = W::default();
				w.t("reuse").n(1).schema(&schema).n(2).optn(budget).sv(&first).optn(None).sv(&probe);
				emit(w.s);
			}
		}
	}
}

pub fn generate_reuse(seed: u64, n: usize, emit: &mut dyn FnMut(String)) {
	let mut rng = rng_from(seed, "reuse");
	for i in 0..n {
		let max_nodes = if i % 5 == 0 { 24 } else { 12 };
		let schema = gen_schema(&mut rng, max_nodes, false);
		let allow_slow = rng.gen_bool(0.7);
		let k = rng.gen_range(2..8);
		let mut w = W::default();
		w.t("reuse").n(allow_slow as usize).schema(&schema).n(k);
		let mut all = vec![];
		for _ in 0..k {
			let mut vg = ValueGen {
				rng: &mut rng,
				schema: &schema,
				allow_slow,
				// out-of-order records and buffered byte sequences exercise the pool
				exotic: 0.7,
				invalid: 0.0,
				by_name_only: false,
				maybe_invalid: false,
				no_decimal_oracle: false,
			};
			let mut v = vg.gen(0, 0);
			// failures half-way: a type mismatch somewhere inside, or a sink that gives up
			let kind = rng.gen_range(0..4);
			if kind == 0 {
				mutate(&mut rng, &mut v);
			}
			let budget = if kind == 1 { Some(rng.gen_range(0..30)) } else { None };
			w.optn(budget).sv(&v);
			all.push(v);
		}
		let allv = SV::Seq(None, all);
		ext_entries(&mut w, &schema, &allv);
		emit(w.s);
	}
}

/// `perm <allowSlow> <schema> <k> <sv>*k`: presentations of the same record in different field
/// orders / shapes, then injections that must fail
pub fn run_perm(line: &str) -> Result<String, String> {
	let mut r = R::new(line);
	let _ = r.tok()?;
	let allow_slow = r.n()? != 0;
	let raw = r.schema()?;
	let same = r.list(|r| r.sv())?;
	let bad = r.list(|r| r.sv())?;
	// (omitted fields are announced through `skip_field`, as a derived struct with
	// `skip_serializing_if` does)
	crate::svser::set_skip_names(&raw);
	let schema = match build::to_schema_mut(&raw).freeze() {
		Ok(s) => s,
		Err(_) => return Ok("freeze-err".into()),
	};
	let mut config = serde_avro_fast::ser::SerializerConfig::new(&schema);
	if allow_slow {
		config.allow_slow_sequence_to_bytes();
	}
	let mut sel = line.len();
	let mut one = |v: &SV| {
		sel += 1;
		std::panic::catch_unwind(std::panic::AssertUnwindSafe(|| match datum_vec_sel(v, &mut config, sel) {
			Ok(bytes) => format!("ok {}", hex(&bytes)),
			Err(_) => "err".into(),
		}))
		.unwrap_or_else(|_| "panic".into())
	};
	let a: Vec<String> = same.iter().map(&mut one).collect();
	let b: Vec<String> = bad.iter().map(&mut one).collect();
	// the same presentations once more, on the configuration the rejected ones went through
	let a2: Vec<String> = same.iter().map(&mut one).collect();
	Ok(format!("{} | {} | {}", a.join(" ; "), b.join(" ; "), a2.join(" ; ")))
}

pub fn generate_perm(seed: u64, n: usize, emit: &mut dyn FnMut(String)) {
	use rand::seq::SliceRandom;
	let mut rng = rng_from(seed, "perm");
	let mut produced = 0;
	while produced < n {
		let schema = gen_schema(&mut rng, 14, false);
		// find a record node with ≥ 2 fields; make it the root by rotation is not possible
		// (indices), so only keep schemas whose root is a record
		let (name, fields) = match kind_of(&schema[0]) {
			Kind::Record(nm, fs) if fs.len() >= 2 => (nm, fs),
			_ => continue,
		};
		let allow_slow = rng.gen_bool(0.5);
		// one value per field, natural presentation
		let mut vals: Vec<(String, SV, bool)> = vec![];
		for (f, k) in &fields {
			let mut vg = ValueGen {
				rng: &mut rng,
				schema: &schema,
				allow_slow,
				exotic: 0.3,
				invalid: 0.0,
				by_name_only: true,
				maybe_invalid: false,
				no_decimal_oracle: true,
			};
			let v = vg.gen(*k, 1);
			let fk = kind_of(&schema[*k]);
			let is_null = matches!(v, SV::Unit | SV::None)
				|| matches!(&v, SV::NewtypeVariant(_, _, n, _) | SV::NewtypeStruct(n, _) if n == "Null");
			let nullable = match &fk {
				Kind::Null => true,
				Kind::Union(vs) => vs.iter().any(|&b| kind_of(&schema[b]) == Kind::Null),
				_ => false,
			};
			vals.push((f.clone(), v, nullable && is_null));
		}
		let (short, _) = split_name(&name);
		let base: Vec<(String, SV)> = vals.iter().map(|(f, v, _)| (f.clone(), v.clone())).collect();
		let mut same = vec![SV::Struct(short.clone(), base.clone())];
		// permutations: all of them for ≤ 4 fields, random ones beyond
		let nperm = if base.len() <= 3 { 6 } else { 8 };
		for _ in 0..nperm {
			let mut p = base.clone();
			p.shuffle(&mut rng);
			same.push(match rng.gen_range(0..3) {
				0 => SV::Struct(short.clone(), p),
				1 => SV::Map(Some(p.len()), p.into_iter().map(|(k, v)| (SV::Str(k), v)).collect(), rng.gen()),
				_ => SV::StructVariant("E".into(), 0, short.clone(), p),
			});
		}
		// omitted nullable fields whose value is null
		let omitted: Vec<(String, SV)> =
			vals.iter().filter(|(_, _, omit)| !*omit || rng.gen_bool(0.3)).map(|(f, v, _)| (f.clone(), v.clone())).collect();
		if omitted.len() < base.len() {
			let mut p = omitted.clone();
			p.shuffle(&mut rng);
			same.push(SV::Struct(short.clone(), p));
		}
		// injections that must be rejected
		let mut bad = vec![];
		{
			let mut p = base.clone();
			p.shuffle(&mut rng);
			let at = rng.gen_range(0..=p.len());
			p.insert(at, ("no_such_field".into(), SV::Unit));
			bad.push(SV::Struct(short.clone(), p));
			let mut p = base.clone();
			p.shuffle(&mut rng);
			let d = p[rng.gen_range(0..p.len())].clone();
			let at = rng.gen_range(0..=p.len());
			p.insert(at, d);
			bad.push(SV::Struct(short.clone(), p));
			// omit a non-nullable field (if any)
			if let Some(pos) = vals.iter().position(|(_, _, _)| true).filter(|_| true) {
				let candidates: Vec<usize> = (0..vals.len())
					.filter(|&i| {
						let fk = kind_of(&schema[fields[i].1]);
						!matches!(fk, Kind::Null)
							&& !matches!(&fk, Kind::Union(vs) if vs.iter().any(|&b| kind_of(&schema[b]) == Kind::Null))
					})
					.collect();
				let _ = pos;
				if let Some(&i) = candidates.choose(&mut rng) {
					let mut p = base.clone();
					p.remove(i);
					p.shuffle(&mut rng);
					bad.push(SV::Struct(short.clone(), p));
				}
			}
		}
		let mut w = W::default();
		w.t("perm").n(allow_slow as usize).schema(&schema).n(same.len());
		for v in &same {
			w.sv(v);
		}
		w.n(bad.len());
		for v in &bad {
			w.sv(v);
		}
		let mut all = same.clone();
		all.extend(bad.iter().cloned());
		ext_entries(&mut w, &schema, &SV::Seq(None, all));
		emit(w.s);
		produced += 1;
	}
}

/// A `Deserialize` type that records what a dynamically typed target receives
pub struct AnyOut(pub Out);
impl<'de> serde::Deserialize<'de> for AnyOut {
	fn deserialize<D: serde::Deserializer<'de>>(d: D) -> Result<Self, D::Error> {
		use serde::de::DeserializeSeed;
		crate::hintde::HS(&Hint::Any).deserialize(d).map(AnyOut)
	}
}

/// `single <schema> <sv> <other-schema> <k> <xbytes>*k`: single-object encoding of the value, then
/// reading of that message and of damaged variants, from a slice and from a 1-byte-chunk reader,
/// under the schema and under another schema
pub fn run_single(line: &str) -> Result<String, String> {
	let mut r = R::new(line);
	let _ = r.tok()?;
	let raw = r.schema()?;
	let v = r.sv()?;
	let other_raw = r.schema()?;
	let variants = r.list(|r| r.xb())?;
	let schema = match build::to_schema_mut_sel(&raw, line.len()).freeze() {
		Ok(s) => s,
		Err(_) => return Ok("freeze-err".into()),
	};
	let other = match build::to_schema_mut_sel(&other_raw, line.len() + 1).freeze() {
		Ok(s) => s,
		Err(_) => return Ok("freeze-err".into()),
	};
	let mut config = serde_avro_fast::ser::SerializerConfig::new(&schema);
	let msg = if line.len() % 2 == 0 {
		serde_avro_fast::to_single_object_vec(&v, &mut config)
	} else {
		serde_avro_fast::to_single_object(&v, ShortSink { buf: vec![], max: 1 + (line.len() / 2) % 5 }, &mut config).map(|s| s.buf)
	};
	let read = |bytes: &[u8], sch: &serde_avro_fast::Schema| -> String {
		let fmt = |res: Result<AnyOut, serde_avro_fast::de::DeError>| match res {
			Ok(o) => {
				let mut w = W::default();
				w.t("ok").out(&o.0);
				w.s
			}
			Err(e) => {
				if e.io_error().is_some() {
					"err io".into()
				} else {
					"err custom".into()
				}
			}
		};
		let a = fmt(serde_avro_fast::from_single_object_slice(bytes, sch));
		let cr = crate::streams::de::ChunkReader {
			data: bytes.to_vec(),
			pos: 0,
			avail: 0,
			sched: Default::default(),
			last: 1,
		};
		let b = fmt(serde_avro_fast::from_single_object_reader(cr, sch));
		format!("{a} / {b}")
	};
	let mut outs = vec![];
	match &msg {
		Ok(m) => {
			outs.push(format!("ser {}", hex(m)));
			outs.push(read(m, &schema));
			outs.push(read(m, &other));
		}
		Err(_) => outs.push("ser-err".into()),
	}
	for b in &variants {
		outs.push(read(b, &schema));
	}
	Ok(outs.join(" ; "))
}

pub fn generate_single(seed: u64, n: usize, emit: &mut dyn FnMut(String)) {
	let mut rng = rng_from(seed, "single");
	let mut produced = 0;
	while produced < n {
		let mut sg = SchemaGen::new(&mut rng, 8, false);
		sg.decimal_limits = true;
		let schema = sg.gen_root();
		let mut sg2 = SchemaGen::new(&mut rng, 6, false);
		sg2.decimal_limits = true;
		let other = sg2.gen_root();
		let Ok(frozen) = build::to_schema_mut(&schema).freeze() else { continue };
		let mut vg = ValueGen {
			rng: &mut rng,
			schema: &schema,
			allow_slow: false,
			exotic: 0.1,
			invalid: 0.0,
			by_name_only: true,
			maybe_invalid: false,
			no_decimal_oracle: false,
		};
		let v = vg.gen(0, 0);
		let mut config = serde_avro_fast::ser::SerializerConfig::new(&frozen);
		let Ok(msg) = serde_avro_fast::to_single_object_vec(&v, &mut config) else { continue };
		// damaged variants: every header truncation, marker / fingerprint flips, payload cut
		let mut variants: Vec<Vec<u8>> = (0..10.min(msg.len())).map(|k| msg[..k].to_vec()).collect();
		for at in [0usize, 1, 2, 5, 9] {
			if at < msg.len() {
				let mut m = msg.clone();
				m[at] ^= 1 << rng.gen_range(0..8);
				variants.push(m);
			}
		}
		if msg.len() > 10 {
			let k = rng.gen_range(10..msg.len());
			variants.push(msg[..k].to_vec());
		}
		// corruptions a weak comparison would let through: the same bits flipped in two bytes of the
		// fingerprint (any XOR / sum fold of the bytes is unchanged), two bytes swapped, all eight
		// bytes in reverse order, only the last byte or only the first byte kept right
		if msg.len() >= 10 {
			let (a, b) = (rng.gen_range(2..10), rng.gen_range(2..10));
			if a != b {
				let mask = 1u8 << rng.gen_range(0..8);
				let mut m = msg.clone();
				m[a] ^= mask;
				m[b] ^= mask;
				variants.push(m);
				if msg[a] != msg[b] {
					let mut m = msg.clone();
					m.swap(a, b);
					variants.push(m);
				}
			}
			let mut m = msg.clone();
			m[2..10].reverse();
			if m != msg {
				variants.push(m);
			}
			for keep in [2usize, 9] {
				let mut m = msg.clone();
				for k in 2..10 {
					if k != keep {
						m[k] = !m[k];
					}
				}
				variants.push(m);
			}
		}
		let mut w = W::default();
		w.t("single").schema(&schema).sv(&v).schema(&other).n(variants.len());
		for b in &variants {
			w.xb(b);
		}
		ext_entries(&mut w, &schema, &v);
		emit(w.s);
		produced += 1;
	}
}

pub fn run(line: &str) -> Result<String, String> {
	let mut r = R::new(line);
	let _ = r.tok()?;
	let allow_slow = r.n()? != 0;
	let budget = r.optn()?;
	let raw = r.schema()?;
	let v = r.sv()?;
	let schema = match build::to_schema_mut(&raw).freeze() {
		Ok(s) => s,
		Err(_) => return Ok("freeze-err".into()),
	};
	let mut config = serde_avro_fast::ser::SerializerConfig::new(&schema);
	if allow_slow {
		config.allow_slow_sequence_to_bytes();
	}
	Ok(match budget {
		None => match datum_vec_sel(&v, &mut config, line.len()) {
			Ok(bytes) => format!("ok {}", hex(&bytes)),
			Err(_) => "err".into(),
		},
		Some(b) => {
			let sink = BudgetSink {
				buf: vec![],
				remaining: b,
			};
			match serde_avro_fast::to_datum(&v, sink, &mut config) {
				Ok(sink) => format!("ok {}", hex(&sink.buf)),
				Err(_) => "err".into(),
			}
		}
	})
}
