//! Stream `ser`: (schema, serde value) → bytes or error, on a `Vec` or on a sink that fails
//! after a byte budget.
use crate::{build, gen::*, proto::*};
use rand::Rng;
use std::str::FromStr;

struct BudgetSink {
	buf: Vec<u8>,
	remaining: usize,
}
impl std::io::Write for BudgetSink {
	fn write(&mut self, b: &[u8]) -> std::io::Result<usize> {
		if b.is_empty() {
			return Ok(0);
		}
		if self.remaining == 0 {
			return Err(std::io::Error::new(std::io::ErrorKind::Other, "budget exhausted"));
		}
		let n = b.len().min(self.remaining);
		self.buf.extend_from_slice(&b[..n]);
		self.remaining -= n;
		Ok(n)
	}
	fn flush(&mut self) -> std::io::Result<()> {
		Ok(())
	}
}

/// Oracle table for the parameter functions (`f64 as f32`, rust_decimal), evaluated on the
/// points this case can reach.
pub fn ext_entries(w: &mut W, schema: &RawSchema, v: &SV) {
	use rust_decimal::prelude::FromPrimitive;
	let scales: Vec<u32> = schema
		.iter()
		.filter_map(|n| match n.logical {
			Some(Logical::Decimal(s, _)) => Some(s),
			_ => None,
		})
		.collect();
	let has_dec = !scales.is_empty() || schema.iter().any(|n| matches!(n.logical, Some(Logical::BigDecimal)));
	let mut seen: Vec<String> = vec![];
	fn walk(v: &SV, f: &mut dyn FnMut(&SV)) {
		f(v);
		match v {
			SV::Some(x) | SV::NewtypeStruct(_, x) | SV::NewtypeVariant(_, _, _, x) => walk(x, f),
			SV::Seq(_, es) | SV::Tuple(es) | SV::TupleStruct(_, es) | SV::TupleVariant(_, _, _, es) => {
				es.iter().for_each(|e| walk(e, f))
			}
			SV::Map(_, es, _) => es.iter().for_each(|(k, v)| {
				walk(k, f);
				walk(v, f)
			}),
			SV::Struct(_, fs) | SV::StructVariant(_, _, _, fs) => fs.iter().for_each(|(_, v)| walk(v, f)),
			_ => {}
		}
	}
	let mut decs: Vec<rust_decimal::Decimal> = vec![];
	walk(v, &mut |x| match x {
		SV::F64(b) => {
			let key = format!("f{b:x}");
			if seen.contains(&key) {
				return;
			}
			seen.push(key);
			let f = f64::from_bits(*b);
			w.t("f32").t(&format!("{:x}", b)).t(&format!("{:x}", (f as f32).to_bits()));
			if has_dec {
				w.t("df64").t(&format!("{:x}", b));
				match rust_decimal::Decimal::from_f64(f) {
					None => {
						w.t("none");
					}
					Some(d) => {
						w.t(&d.mantissa().to_string()).n(d.scale() as usize);
						decs.push(d);
					}
				}
			}
		}
		SV::Str(s) | SV::UnitStruct(s) | SV::UnitVariant(_, _, s) if has_dec => {
			let key = format!("s{s}");
			if seen.contains(&key) {
				return;
			}
			seen.push(key);
			w.t("dparse").xs(s);
			match rust_decimal::Decimal::from_str(s) {
				Err(_) => {
					w.t("none");
				}
				Ok(d) => {
					w.t(&d.mantissa().to_string()).n(d.scale() as usize);
					decs.push(d);
				}
			}
		}
		SV::Char(c) if has_dec => {
			let s = c.to_string();
			let key = format!("s{s}");
			if seen.contains(&key) {
				return;
			}
			seen.push(key);
			w.t("dparse").xs(&s);
			match rust_decimal::Decimal::from_str(&s) {
				Err(_) => {
					w.t("none");
				}
				Ok(d) => {
					w.t(&d.mantissa().to_string()).n(d.scale() as usize);
					decs.push(d);
				}
			}
		}
		_ => {}
	});
	let mut seen_r: Vec<(i128, u32, u32)> = vec![];
	for d in decs {
		for &s in &scales {
			let key = (d.mantissa(), d.scale(), s);
			if seen_r.contains(&key) {
				continue;
			}
			seen_r.push(key);
			let mut r = d;
			r.rescale(s);
			w.t("rescale")
				.t(&d.mantissa().to_string())
				.n(d.scale() as usize)
				.n(s as usize)
				.t(&r.mantissa().to_string())
				.n(r.scale() as usize);
		}
	}
}

pub fn case_line(allow_slow: bool, budget: Option<usize>, schema: &RawSchema, v: &SV) -> String {
	let mut w = W::default();
	w.t("ser").n(allow_slow as usize).optn(budget).schema(schema).sv(v);
	ext_entries(&mut w, schema, v);
	w.s
}

pub fn generate(stream: &str, seed: u64, n: usize, emit: &mut dyn FnMut(String)) {
	let mut rng = rng_from(seed, stream);
	for i in 0..n {
		let wild = stream != "ser-valid" && rng.gen_bool(0.2);
		let max_nodes = if i % 10 == 0 { 24 } else { 10 };
		let schema = gen_schema(&mut rng, max_nodes, wild);
		let allow_slow = rng.gen_bool(0.7);
		let per_schema = 3;
		for _ in 0..per_schema {
			let mut vg = ValueGen {
				rng: &mut rng,
				schema: &schema,
				allow_slow,
				exotic: if stream == "ser-valid" { 0.3 } else { 0.5 },
				invalid: if stream == "ser-valid" { 0.0 } else { 0.03 },
				by_name_only: stream == "ser-valid",
				maybe_invalid: false,
				no_decimal_oracle: false,
			};
			let mut v = vg.gen(0, 0);
			if stream == "ser-mut" || (stream == "ser" && rng.gen_bool(0.25)) {
				mutate(&mut rng, &mut v);
			}
			let budget = if stream == "ser-sink" { Some(rng.gen_range(0..40)) } else { None };
			emit(case_line(allow_slow, budget, &schema, &v));
		}
	}
}

/// `rt`: serialize, then read back with a dynamically typed target
pub fn run_rt(line: &str) -> Result<String, String> {
	let mut r = R::new(line);
	let _ = r.tok()?;
	let allow_slow = r.n()? != 0;
	let raw = r.schema()?;
	let v = r.sv()?;
	let schema = match build::to_schema_mut(&raw).freeze() {
		Ok(s) => s,
		Err(_) => return Ok("freeze-err".into()),
	};
	let mut config = serde_avro_fast::ser::SerializerConfig::new(&schema);
	if allow_slow {
		config.allow_slow_sequence_to_bytes();
	}
	Ok(match serde_avro_fast::to_datum_vec(&v, &mut config) {
		Err(_) => "err".into(),
		Ok(bytes) => {
			let back = crate::streams::de::run_one(
				&crate::streams::de::Backend::Slice,
				1_000_000_000,
				64,
				&schema,
				&Hint::Any,
				&bytes,
			);
			format!("ok {} | {}", hex(&bytes), back)
		}
	})
}

pub fn generate_rt(seed: u64, n: usize, emit: &mut dyn FnMut(String)) {
	let mut rng = rng_from(seed, "rt");
	for i in 0..n {
		let max_nodes = if i % 10 == 0 { 24 } else { 10 };
		let mut sg = SchemaGen::new(&mut rng, max_nodes, false);
		sg.decimal_limits = true;
		let schema = sg.gen_root();
		let allow_slow = rng.gen_bool(0.7);
		for _ in 0..3 {
			let mut vg = ValueGen {
				rng: &mut rng,
				schema: &schema,
				allow_slow,
				exotic: 0.3,
				invalid: 0.0,
				by_name_only: true,
				maybe_invalid: false,
				no_decimal_oracle: false,
			};
			let v = vg.gen(0, 0);
			if vg.maybe_invalid {
				continue;
			}
			let mut w = W::default();
			w.t("rt").n(allow_slow as usize).schema(&schema).sv(&v);
			ext_entries(&mut w, &schema, &v);
			emit(w.s);
		}
	}
}

pub fn run(line: &str) -> Result<String, String> {
	let mut r = R::new(line);
	let _ = r.tok()?;
	let allow_slow = r.n()? != 0;
	let budget = r.optn()?;
	let raw = r.schema()?;
	let v = r.sv()?;
	let schema = match build::to_schema_mut(&raw).freeze() {
		Ok(s) => s,
		Err(_) => return Ok("freeze-err".into()),
	};
	let mut config = serde_avro_fast::ser::SerializerConfig::new(&schema);
	if allow_slow {
		config.allow_slow_sequence_to_bytes();
	}
	Ok(match budget {
		None => match serde_avro_fast::to_datum_vec(&v, &mut config) {
			Ok(bytes) => format!("ok {}", hex(&bytes)),
			Err(_) => "err".into(),
		},
		Some(b) => {
			let sink = BudgetSink {
				buf: vec![],
				remaining: b,
			};
			match serde_avro_fast::to_datum(&v, sink, &mut config) {
				Ok(sink) => format!("ok {}", hex(&sink.buf)),
				Err(_) => "err".into(),
			}
		}
	})
}
