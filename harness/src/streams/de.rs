//! Streams `de*`: (schema, hint, bytes, back-end) → visitor calls or error, bytes left unread.
use crate::{build, gen::*, hintde::HS, proto::*};
use rand::{seq::SliceRandom, Rng};
use serde::de::DeserializeSeed;

/// A `BufRead` whose refills follow a schedule (then a constant chunk size)
pub struct ChunkReader {
	pub data: Vec<u8>,
	pub pos: usize,
	pub avail: usize,
	pub sched: std::collections::VecDeque<usize>,
	pub last: usize,
}
impl std::io::BufRead for ChunkReader {
	fn fill_buf(&mut self) -> std::io::Result<&[u8]> {
		if self.avail == 0 {
			let c = self.sched.pop_front().unwrap_or(self.last).max(1);
			self.avail = c.min(self.data.len() - self.pos);
		}
		Ok(&self.data[self.pos..self.pos + self.avail])
	}
	fn consume(&mut self, n: usize) {
		self.pos += n;
		self.avail -= n;
	}
}
impl std::io::Read for ChunkReader {
	fn read(&mut self, buf: &mut [u8]) -> std::io::Result<usize> {
		use std::io::BufRead;
		if buf.is_empty() {
			return Ok(0);
		}
		let b = self.fill_buf()?;
		let m = b.len().min(buf.len());
		buf[..m].copy_from_slice(&b[..m]);
		self.consume(m);
		Ok(m)
	}
}

#[derive(Clone, Debug)]
pub enum Backend {
	Slice,
	Reader { last: usize, sched: Vec<usize>, max_alloc: usize },
}

pub fn write_backend(w: &mut W, b: &Backend) {
	match b {
		Backend::Slice => {
			w.t("slice");
		}
		Backend::Reader { last, sched, max_alloc } => {
			w.t("reader").n(*last).n(sched.len());
			for s in sched {
				w.n(*s);
			}
			w.n(*max_alloc);
		}
	}
}
pub fn read_backend(r: &mut R) -> PResult<Backend> {
	match r.tok()? {
		"slice" => Ok(Backend::Slice),
		"reader" => {
			let last = r.n()?;
			let sched = r.list(|r| r.n())?;
			let max_alloc = r.n()?;
			Ok(Backend::Reader { last, sched, max_alloc })
		}
		t => Err(format!("unknown backend {t}")),
	}
}

pub fn case_line(
	backend: &Backend,
	max_seq: usize,
	depth: usize,
	schema: &RawSchema,
	hint: &Hint,
	bytes: &[u8],
) -> String {
	let mut w = W::default();
	w.t("de");
	write_backend(&mut w, backend);
	w.n(max_seq).n(depth).schema(schema).hint(hint).xb(bytes);
	w.s
}

pub fn random_backend(rng: &mut rand::rngs::StdRng, len: usize) -> Backend {
	let last = *[1usize, 1, 2, 3, 5, 7, 13, 64, 8192].choose(rng).unwrap();
	let nsched = rng.gen_range(0..6);
	let sched = (0..nsched).map(|_| rng.gen_range(1..=(len.max(1) + 2))).collect();
	let max_alloc = *[512 * 1024 * 1024usize, 512 * 1024 * 1024, 0, 1, 4, 16].choose(rng).unwrap();
	Backend::Reader { last, sched, max_alloc }
}

/// Arrays and maps split into several blocks whose lengths sit around `max_seq_size`: the total
/// of *all* blocks so far is what the limit bounds (a sum of the last two, or of one block, is
/// not), with positive and negative counts, zero-sized and sized items.
fn generate_seqlimit(seed: u64, n: usize, emit: &mut dyn FnMut(String)) {
	let mut rng = rng_from(seed, "de-seqlimit");
	for _ in 0..n {
		let item = [Reg::Null, Reg::Null, Reg::Int, Reg::String, Reg::Boolean].choose(&mut rng).unwrap().clone();
		let is_map = rng.gen_bool(0.3);
		let mut schema = vec![
			RawNode { reg: if is_map { Reg::Map(1) } else { Reg::Array(1) }, logical: None },
			RawNode { reg: item, logical: None },
		];
		let wrap = rng.gen_bool(0.3);
		if wrap {
			// record { a: int, s: <seq> }
			schema.insert(0, RawNode { reg: Reg::Record("R".into(), vec![("a".into(), 3), ("s".into(), 1)]), logical: None });
			schema[1].reg = if is_map { Reg::Map(2) } else { Reg::Array(2) };
			schema.push(RawNode { reg: Reg::Int, logical: None });
		}
		let nblocks = rng.gen_range(1..=6);
		let unit = *[1usize, 2, 5, 10, 30].choose(&mut rng).unwrap();
		let sizes: Vec<usize> = (0..nblocks)
			.map(|_| if rng.gen_bool(0.5) { unit * rng.gen_range(1..=3) } else { rng.gen_range(1..=40) })
			.collect();
		let total: usize = sizes.iter().sum();
		let max_pair = sizes.windows(2).map(|w| w[0] + w[1]).max().unwrap_or(sizes[0]);
		let max_one = *sizes.iter().max().unwrap();
		let max_seq = match rng.gen_range(0..8) {
			0 => total,
			1 => total.saturating_sub(1),
			2 => total + 1,
			3 => max_pair,
			4 => max_pair + 1,
			5 => max_one,
			6 => rng.gen_range(0..=total + 2),
			_ => 1_000_000,
		};
		let mut bytes = vec![];
		let mut dg = DatumGen { rng: &mut rng, schema: &schema, fancy_layout: false, nonminimal: 0.0 };
		if wrap {
			dg.gen(3, 1, &mut bytes);
		}
		let item_idx = if wrap { 2 } else { 1 };
		let mut key = 0usize;
		for &c in &sizes {
			let mut body = vec![];
			for _ in 0..c {
				if is_map {
					let k = format!("k{key}");
					key += 1;
					dg.long(k.len() as i64, &mut body);
					body.extend_from_slice(k.as_bytes());
				}
				dg.gen(item_idx, 2, &mut body);
			}
			if dg.rng.gen_bool(0.4) {
				dg.long(-(c as i64), &mut bytes);
				dg.long(body.len() as i64, &mut bytes);
			} else {
				dg.long(c as i64, &mut bytes);
			}
			bytes.extend_from_slice(&body);
		}
		dg.long(0, &mut bytes);
		let hint = match rng.gen_range(0..3) {
			0 => Hint::Any,
			1 => skip_hint(&mut rng, &schema, 0, 0),
			_ => shape_hint(&mut rng, &schema, 0, 0, 0.0),
		};
		let backend = if rng.gen_bool(0.4) { random_backend(&mut rng, bytes.len()) } else { Backend::Slice };
		emit(case_line(&backend, max_seq, 64, &schema, &hint, &bytes));
	}
}

/// Graphs that only the builder API can assemble: cycles that go through records only (the
/// parser's cycle check rejects them as text, `freeze` accepts them). Every step of such a cycle
/// reads zero bytes, so the depth budget is the only thing that ends the recursion.
fn generate_cyclic(seed: u64, n: usize, emit: &mut dyn FnMut(String)) {
	let mut rng = rng_from(seed, "de-cyclic");
	for i in 0..n {
		let k = rng.gen_range(1..=3usize); // records on the cycle
		let mut schema: RawSchema = vec![];
		for j in 0..k {
			let next = (j + 1) % k;
			let mut fields = vec![];
			let pre = rng.gen_range(0..2);
			for f in 0..pre {
				fields.push((format!("p{f}"), k)); // node k: int
			}
			fields.push(("next".to_string(), next));
			schema.push(RawNode { reg: Reg::Record(format!("C{i}_{j}"), fields), logical: None });
		}
		schema.push(RawNode { reg: Reg::Int, logical: None });
		if rng.gen_bool(0.3) {
			// the cycle below an array at the root
			let len = schema.len();
			schema.push(RawNode { reg: Reg::Array(0), logical: None });
			schema.swap(0, len);
			for n in schema.iter_mut() {
				let fix = |x: &mut usize| {
					if *x == 0 {
						*x = len
					} else if *x == len {
						*x = 0
					}
				};
				match &mut n.reg {
					Reg::Array(x) | Reg::Map(x) => fix(x),
					Reg::Record(_, fs) => fs.iter_mut().for_each(|(_, x)| fix(x)),
					_ => {}
				}
			}
		}
		let len = rng.gen_range(0..24);
		let bytes: Vec<u8> = (0..len).map(|_| *[0u8, 1, 2, 3, 4, 0x7f, 0x80, 0x10].choose(&mut rng).unwrap()).collect();
		let hint = if rng.gen_bool(0.5) { Hint::Any } else { Hint::Ignored };
		let depth = *[0usize, 1, 2, 3, 8, 64, 64, 200].choose(&mut rng).unwrap();
		let backend = if rng.gen_bool(0.3) { random_backend(&mut rng, bytes.len()) } else { Backend::Slice };
		emit(case_line(&backend, 1000, depth, &schema, &hint, &bytes));
	}
}

/// Every frozen node kind (each logical type on each base type, as one-node schemas) against every
/// deserializer entry point (one hint per `deserialize_*` method the crate implements itself), on a
/// valid datum for the node and on a few fixed byte patterns; slice and 1-byte-chunk reader.
fn generate_table(seed: u64, emit: &mut dyn FnMut(String)) {
	let mut rng = rng_from(seed, "de-table");
	let logicals: Vec<Option<Logical>> = vec![
		None,
		Some(Logical::Decimal(1, 10)),
		// scale 0: the integer entry points answer with the integer itself (zero, negative and
		// positive take different visitor calls)
		Some(Logical::Decimal(0, 10)),
		Some(Logical::Uuid),
		Some(Logical::Date),
		Some(Logical::TimeMillis),
		Some(Logical::TimeMicros),
		Some(Logical::TimestampMillis),
		Some(Logical::TimestampMicros),
		Some(Logical::Duration),
		Some(Logical::BigDecimal),
		Some(Logical::Unknown("custom".into())),
	];
	let bases: Vec<Reg> = vec![
		Reg::Null,
		Reg::Boolean,
		Reg::Int,
		Reg::Long,
		Reg::Float,
		Reg::Double,
		Reg::Bytes,
		Reg::String,
		Reg::Array(1),
		Reg::Map(1),
		Reg::Union(vec![2, 1]),
		Reg::Record("R".into(), vec![("a".into(), 1)]),
		Reg::Enum("E".into(), vec!["A".into(), "B".into()]),
		Reg::Fixed("F12".into(), 12),
		Reg::Fixed("F4".into(), 4),
	];
	let any = || Box::new(Hint::Any);
	let hints: Vec<Hint> = vec![
		Hint::Any,
		Hint::U64,
		Hint::I64,
		Hint::U128,
		Hint::I128,
		Hint::F64,
		Hint::Str,
		Hint::Bytes,
		Hint::Identifier,
		Hint::Ignored,
		Hint::Option(any()),
		Hint::Seq(any()),
		Hint::Tuple(3, any()),
		Hint::Map(any(), any()),
		Hint::Struct(vec![("a".into(), Hint::Any)]),
		Hint::Struct(vec![("months".into(), Hint::Any), ("days".into(), Hint::Any), ("milliseconds".into(), Hint::Any)]),
		Hint::Enum(vec![("A".into(), VariantHint::Unit), ("B".into(), VariantHint::Unit)]),
		Hint::Enum(vec![
			("Null".into(), VariantHint::Unit),
			("Int".into(), VariantHint::Newtype(Hint::Any)),
			("R".into(), VariantHint::Struct(vec![("a".into(), Hint::Any)])),
			("Array".into(), VariantHint::Tuple(1, Hint::Any)),
		]),
	];
	for l in &logicals {
		for b in &bases {
			let schema = vec![
				RawNode { reg: b.clone(), logical: if matches!(b, Reg::Union(_)) { None } else { l.clone() } },
				RawNode { reg: Reg::Int, logical: None },
				RawNode { reg: Reg::Null, logical: None },
			];
			let mut datum = vec![];
			DatumGen { rng: &mut rng, schema: &schema, fancy_layout: true, nonminimal: 0.0 }.gen(0, 0, &mut datum);
			let mut patterns: Vec<Vec<u8>> = vec![datum.clone(), vec![], vec![0], vec![2, 0x41, 0], vec![0x18; 14], vec![2, 0], vec![2, 0xff], vec![0, 0, 0, 0, 0, 0, 0, 0, 0, 0, 0, 0], vec![0xff; 12]];
			if !datum.is_empty() {
				patterns.push(datum[..datum.len() - 1].to_vec());
			}
			for h in &hints {
				for bytes in &patterns {
					emit(case_line(&Backend::Slice, 1000, 64, &schema, h, bytes));
					emit(case_line(&Backend::Reader { last: 1, sched: vec![], max_alloc: 512 * 1024 * 1024 }, 1000, 64, &schema, h, bytes));
				}
			}
		}
	}
}

pub fn generate(stream: &str, seed: u64, n: usize, emit: &mut dyn FnMut(String)) {
	if stream == "de-table" {
		return generate_table(seed, emit);
	}
	if stream == "de-seqlimit" {
		return generate_seqlimit(seed, n, emit);
	}
	if stream == "de-cyclic" {
		return generate_cyclic(seed, n, emit);
	}
	let mut rng = rng_from(seed, stream);
	for i in 0..n {
		let max_nodes = if i % 10 == 0 { 24 } else { 10 };
		let mut sg = SchemaGen::new(&mut rng, max_nodes, false);
		// reading decimals as text/f64 needs rust_decimal; the model carries its own to_string
		sg.decimals = stream != "de-nodec";
		let schema = sg.gen_root();
		let per_schema = 3;
		for _ in 0..per_schema {
			let mut bytes = vec![];
			let fancy = stream != "de-canon";
			DatumGen {
				rng: &mut rng,
				schema: &schema,
				fancy_layout: fancy,
				nonminimal: if fancy { 0.1 } else { 0.0 },
			}
			.gen(0, 0, &mut bytes);
			let noise = match stream {
				"de-valid" | "de-canon" => 0.0,
				"de-skip" => 0.0,
				_ => 0.08,
			};
			let mut hint = shape_hint(&mut rng, &schema, 0, 0, noise);
			if stream == "de-valid" && rng.gen_bool(0.5) {
				hint = Hint::Any;
			}
			// trailing data that must stay untouched
			if rng.gen_bool(0.3) {
				bytes.extend_from_slice(&[0xAA, 0x55, 0x01]);
			}
			match stream {
				"de-mut" => {
					// single-point corruption / truncation
					if !bytes.is_empty() {
						match rng.gen_range(0..4) {
							0 => {
								let k = rng.gen_range(0..bytes.len());
								bytes.truncate(k);
							}
							1 => {
								let k = rng.gen_range(0..bytes.len());
								bytes[k] ^= 1 << rng.gen_range(0..8);
							}
							2 => {
								let k = rng.gen_range(0..bytes.len());
								bytes[k] = *[0u8, 1, 2, 0x7f, 0x80, 0xff, 0xfe].choose(&mut rng).unwrap();
							}
							_ => {
								let k = rng.gen_range(0..=bytes.len());
								bytes.insert(k, rng.gen());
							}
						}
					}
				}
				"de-hostile" => {
					let len = rng.gen_range(0..40);
					bytes = (0..len)
						.map(|_| *[0u8, 1, 2, 3, 0x7f, 0x80, 0x81, 0xff, 0xfe, 0x10].choose(&mut rng).unwrap())
						.collect();
					if rng.gen_bool(0.3) {
						// huge counts / lengths
						let mut pre = vec![];
						let v: i64 = *[i64::MAX, i64::MIN, 1 << 62, -(1 << 62), 1 << 31, u32::MAX as i64, 1_000_000_001]
							.choose(&mut rng)
							.unwrap();
						varint_u(zigzag(v), &mut pre);
						pre.extend_from_slice(&bytes);
						bytes = pre;
					}
				}
				_ => {}
			}
			// corrupted counts with zero-size items make the real code loop `max_seq_size` times:
			// keep that limit small wherever bytes are not known to be valid
			let hostile = matches!(stream, "de-hostile" | "de-mut" | "de");
			let (max_seq, depth) = if stream == "de-hostile" || rng.gen_bool(0.15) {
				(*[0usize, 1, 2, 3, 100, 1000].choose(&mut rng).unwrap(), *[0usize, 1, 2, 3, 8, 64].choose(&mut rng).unwrap())
			} else if hostile {
				(1000, 64)
			} else {
				(1_000_000, 64)
			};
			let backend = if stream == "de-chunks" || (stream != "de-valid" && stream != "de-canon" && rng.gen_bool(0.4)) {
				random_backend(&mut rng, bytes.len())
			} else {
				Backend::Slice
			};
			emit(case_line(&backend, max_seq, depth, &schema, &hint, &bytes));
			if stream == "de-chunks" {
				// the same case from a slice and with every constant chunk size (bounded)
				emit(case_line(&Backend::Slice, max_seq, depth, &schema, &hint, &bytes));
				for c in 1..=bytes.len().min(12) {
					emit(case_line(
						&Backend::Reader { last: c, sched: vec![], max_alloc: 512 * 1024 * 1024 },
						max_seq,
						depth,
						&schema,
						&hint,
						&bytes,
					));
				}
			}
		}
	}
}

pub fn fmt_result(r: Result<Out, serde_avro_fast::de::DeError>, left: usize) -> String {
	match r {
		Ok(o) => {
			let mut w = W::default();
			w.t("ok").out(&o).t("left").n(left);
			w.s
		}
		Err(e) => {
			if e.io_error().is_some() {
				"err io".into()
			} else {
				"err custom".into()
			}
		}
	}
}

pub fn run(line: &str) -> Result<String, String> {
	let mut r = R::new(line);
	let _ = r.tok()?;
	let backend = read_backend(&mut r)?;
	let max_seq = r.n()?;
	let depth = r.n()?;
	let raw = r.schema()?;
	let hint = r.hint()?;
	let bytes = r.xb()?;
	let schema = match build::to_schema_mut(&raw).freeze() {
		Ok(s) => s,
		Err(_) => return Ok("freeze-err".into()),
	};
	Ok(run_one(&backend, max_seq, depth, &schema, &hint, &bytes))
}

/// `c11 <maxseq> <depth> <schema> <hint> <bytes> <k> <backend>*k`: one input, several back-ends
pub fn run_c11(line: &str) -> Result<String, String> {
	let mut r = R::new(line);
	let _ = r.tok()?;
	let max_seq = r.n()?;
	let depth = r.n()?;
	let raw = r.schema()?;
	let hint = r.hint()?;
	let bytes = r.xb()?;
	let backends = r.list(|r| read_backend(r))?;
	let schema = match build::to_schema_mut(&raw).freeze() {
		Ok(s) => s,
		Err(_) => return Ok("freeze-err".into()),
	};
	let outs: Vec<String> = backends
		.iter()
		.map(|b| {
			// a panic in one back-end must not hide the others
			std::panic::catch_unwind(std::panic::AssertUnwindSafe(|| run_one(b, max_seq, depth, &schema, &hint, &bytes)))
				.unwrap_or_else(|_| "panic".into())
		})
		.collect();
	Ok(outs.join(" ; "))
}

pub fn generate_c11(seed: u64, n: usize, emit: &mut dyn FnMut(String)) {
	let mut rng = rng_from(seed, "c11");
	for i in 0..n {
		let max_nodes = if i % 10 == 0 { 24 } else { 10 };
		let schema = SchemaGen::new(&mut rng, max_nodes, false).gen_root();
		let mut bytes = vec![];
		DatumGen { rng: &mut rng, schema: &schema, fancy_layout: true, nonminimal: 0.15 }.gen(0, 0, &mut bytes);
		let mut hint = shape_hint(&mut rng, &schema, 0, 0, 0.05);
		if rng.gen_bool(0.3) {
			hint = Hint::Any;
		}
		if rng.gen_bool(0.3) {
			bytes.extend_from_slice(&[0xAA, 0x55, 0x01]);
		}
		let mut hostile = false;
		if rng.gen_bool(0.3) && !bytes.is_empty() {
			hostile = true;
			match rng.gen_range(0..3) {
				0 => {
					let k = rng.gen_range(0..bytes.len());
					bytes.truncate(k);
				}
				1 => {
					let k = rng.gen_range(0..bytes.len());
					bytes[k] ^= 1 << rng.gen_range(0..8);
				}
				_ => {
					let k = rng.gen_range(0..bytes.len());
					bytes[k] = *[0u8, 1, 0x7f, 0x80, 0xff].choose(&mut rng).unwrap();
				}
			}
		}
		let max_seq = if hostile { 1000 } else { 1_000_000 };
		let mut backends = vec![Backend::Slice];
		// every constant chunk size 1..len (bounded), plus irregular schedules
		for c in 1..=bytes.len().min(16) {
			backends.push(Backend::Reader { last: c, sched: vec![], max_alloc: 512 * 1024 * 1024 });
		}
		for _ in 0..4 {
			let mut b = random_backend(&mut rng, bytes.len());
			if let Backend::Reader { max_alloc, .. } = &mut b {
				*max_alloc = 512 * 1024 * 1024;
			}
			backends.push(b);
		}
		let mut w = W::default();
		w.t("c11").n(max_seq).n(64).schema(&schema).hint(&hint).xb(&bytes).n(backends.len());
		for b in &backends {
			write_backend(&mut w, b);
		}
		emit(w.s);
	}
}

/// `skip <backend> <schema> <hint> <bytes>`: the hinted read and the full (dynamic) read
pub fn run_skip(line: &str) -> Result<String, String> {
	let mut r = R::new(line);
	let _ = r.tok()?;
	let backend = read_backend(&mut r)?;
	let raw = r.schema()?;
	let hint = r.hint()?;
	let bytes = r.xb()?;
	let schema = match build::to_schema_mut(&raw).freeze() {
		Ok(s) => s,
		Err(_) => return Ok("freeze-err".into()),
	};
	let a = run_one(&backend, 1_000_000_000, 64, &schema, &hint, &bytes);
	let b = run_one(&backend, 1_000_000_000, 64, &schema, &Hint::Any, &bytes);
	Ok(format!("{a} | {b}"))
}

pub fn generate_skip(seed: u64, n: usize, emit: &mut dyn FnMut(String)) {
	let mut rng = rng_from(seed, "skip");
	for i in 0..n {
		let max_nodes = if i % 10 == 0 { 24 } else { 12 };
		let mut sg = SchemaGen::new(&mut rng, max_nodes, false);
		sg.decimal_limits = true;
		let schema = sg.gen_root();
		for _ in 0..3 {
			let mut bytes = vec![];
			DatumGen { rng: &mut rng, schema: &schema, fancy_layout: true, nonminimal: 0.05 }.gen(0, 0, &mut bytes);
			// a sentinel after the datum: following data must stay untouched
			bytes.extend_from_slice(&[0xAA, 0x55, 0x01]);
			let hint = skip_hint(&mut rng, &schema, 0, 0);
			let backend = if rng.gen_bool(0.5) { Backend::Slice } else { random_backend(&mut rng, bytes.len()) };
			// one reader in three keeps a small allocation cap: the cap is per field read, so whatever
			// the full read accepts the read that ignores parts accepts too (an ignored block or
			// field, whatever its size, is not a field read)
			let backend = match backend {
				Backend::Reader { last, sched, max_alloc } => {
					Backend::Reader { last, sched, max_alloc: if rng.gen_range(0..3) == 0 { max_alloc.max(4) } else { 512 * 1024 * 1024 } }
				}
				b => b,
			};
			let mut w = W::default();
			w.t("skip");
			write_backend(&mut w, &backend);
			w.schema(&schema).hint(&hint).xb(&bytes);
			emit(w.s);
		}
	}
}

/// `dealloc <maxseq> <depth> <schema> <bytes>`: slice input, a target that stores nothing
/// (`IgnoredAny`), allocations counted around the call
pub fn run_alloc(line: &str) -> Result<String, String> {
	let mut r = R::new(line);
	let _ = r.tok()?;
	let max_seq = r.n()?;
	let depth = r.n()?;
	let raw = r.schema()?;
	let bytes = r.xb()?;
	let schema = match build::to_schema_mut(&raw).freeze() {
		Ok(s) => s,
		Err(_) => return Ok("freeze-err".into()),
	};
	let mut config = serde_avro_fast::de::DeserializerConfig::new(&schema);
	config.max_seq_size = max_seq;
	config.allowed_depth = depth;
	let mut st = serde_avro_fast::de::DeserializerState::with_config(
		serde_avro_fast::de::read::SliceRead::new(&bytes),
		config,
	);
	// optional trailing hint: a scalar target (its `Out` holds no heap data), so that what is counted
	// is the crate's own allocations while it really decodes the value (not only skips it)
	let typed = r.hint().ok();
	let before = crate::alloc_count::count();
	let res: Result<(), _> = match &typed {
		None => <serde::de::IgnoredAny as serde::Deserialize>::deserialize(st.deserializer()).map(|_| ()),
		Some(h) => {
			use serde::de::DeserializeSeed;
			HS(h).deserialize(st.deserializer()).map(|o| {
				// dropped after the second count below would be cleaner; a scalar `Out` owns nothing
				std::mem::forget(o)
			})
		}
	};
	let after = crate::alloc_count::count();
	let mut rd = st.into_reader();
	let left = std::io::BufRead::fill_buf(&mut rd).map(|b| b.len()).unwrap_or(0);
	Ok(match res {
		Ok(_) => format!("ok left {left} allocs={}", after - before),
		Err(e) => {
			if e.io_error().is_some() {
				"err io".into()
			} else {
				"err custom".into()
			}
		}
	})
}

pub fn generate_alloc(seed: u64, n: usize, emit: &mut dyn FnMut(String)) {
	let mut rng = rng_from(seed, "de-alloc");
	// scalar nodes decoded into scalar targets: every numeric node and every decimal flavour × the
	// numeric entry points (a decimal really goes through `read_decimal` here, it is not skipped)
	for i in 0..n.min(120) {
		let nd = |reg: Reg, logical: Option<Logical>| RawNode { reg, logical };
		// (an integer entry point on a decimal with a non-zero scale is answered with the decimal's
		// text, which the recording target stores in a `String` of its own: not generated)
		let scale = if rng.gen_bool(0.5) { 0 } else { rng.gen_range(1..4u32) };
		let node = match i % 10 {
			0 => nd(Reg::Int, None),
			1 => nd(Reg::Long, None),
			2 => nd(Reg::Double, None),
			3 => nd(Reg::Float, None),
			4 => nd(Reg::Long, Some(Logical::TimestampMicros)),
			5 | 6 => nd(Reg::Bytes, Some(Logical::Decimal(scale, 20))),
			7 | 8 => nd(Reg::Fixed("F".into(), *[1usize, 4, 8, 16].choose(&mut rng).unwrap()), Some(Logical::Decimal(scale, 20))),
			_ => nd(Reg::Bytes, Some(Logical::BigDecimal)),
		};
		let schema = vec![node];
		let mut bytes = vec![];
		DatumGen { rng: &mut rng, schema: &schema, fancy_layout: false, nonminimal: 0.0 }.gen(0, 0, &mut bytes);
		let integer_ok = match &schema[0].logical {
			Some(Logical::Decimal(sc, _)) => *sc == 0,
			Some(Logical::BigDecimal) => false,
			_ => true,
		};
		let hint = if integer_ok {
			[Hint::F64, Hint::I64, Hint::U64, Hint::I128, Hint::U128].choose(&mut rng).unwrap().clone()
		} else {
			Hint::F64
		};
		let mut w = W::default();
		w.t("dealloc").n(1_000_000_000).n(64).schema(&schema).xb(&bytes).hint(&hint);
		emit(w.s);
	}
	for i in 0..n {
		let max_nodes = if i % 10 == 0 { 24 } else { 10 };
		let schema = SchemaGen::new(&mut rng, max_nodes, false).gen_root();
		for _ in 0..3 {
			let mut bytes = vec![];
			DatumGen { rng: &mut rng, schema: &schema, fancy_layout: true, nonminimal: 0.1 }.gen(0, 0, &mut bytes);
			let mut w = W::default();
			w.t("dealloc").n(1_000_000_000).n(64).schema(&schema).xb(&bytes);
			emit(w.s);
		}
	}
}

pub fn run_one(
	backend: &Backend,
	max_seq: usize,
	depth: usize,
	schema: &serde_avro_fast::Schema,
	hint: &Hint,
	bytes: &[u8],
) -> String {
	let mut config = serde_avro_fast::de::DeserializerConfig::new(schema);
	config.max_seq_size = max_seq;
	config.allowed_depth = depth;
	match backend.clone() {
		Backend::Slice => {
			let mut st = serde_avro_fast::de::DeserializerState::with_config(
				serde_avro_fast::de::read::SliceRead::new(bytes),
				config,
			);
			let res = HS(hint).deserialize(st.deserializer());
			let mut rd = st.into_reader();
			let left = std::io::BufRead::fill_buf(&mut rd).map(|b| b.len()).unwrap_or(0);
			fmt_result(res, left)
		}
		Backend::Reader { last, sched, max_alloc } => {
			let cr = ChunkReader {
				data: bytes.to_vec(),
				pos: 0,
				avail: 0,
				sched: sched.into_iter().collect(),
				last,
			};
			let mut rr = serde_avro_fast::de::read::ReaderRead::new(cr);
			rr.max_alloc_size = max_alloc;
			let mut st = serde_avro_fast::de::DeserializerState::with_config(rr, config);
			let res = HS(hint).deserialize(st.deserializer());
			let cr = st.into_reader().into_inner();
			fmt_result(res, cr.data.len() - cr.pos)
		}
	}
}
