#!/usr/bin/env python3
"""Write MANIFEST.json from properties_config.json (claimed checks) and properties.jsonl."""
import json, os
ROOT = os.path.dirname(os.path.abspath(__file__))
cfg = json.load(open(os.path.join(ROOT, "properties_config.json")))
props = [json.loads(l) for l in open(os.path.join(ROOT, "properties.jsonl"))]
checks, na = [], []
for p in props:
    pid = p["id"]
    if pid in cfg and cfg[pid].get("claimed", True):
        c = cfg[pid]
        checks.append({
            "property_id": pid,
            "quick_cmd": f"./check.py {pid} --tier quick",
            "thorough_cmd": f"./check.py {pid} --tier thorough",
            "evidence_file": f"evidence/{pid}.json",
            "replay_cmd_template": f"./check.py {pid} --replay {{path}}",
            "engine": "lean4-proof+correspondence",
            "level_claimed": {
                "category": "proof",
                "text": c["level_text"],
                "design_ref": c.get("design_ref", "DESIGN.md section 8, " + pid),
            },
            "level_note": c["level_note"],
            "technique": c.get("technique", "Lean 4 theorems about an executable model of the code (kernel-checked, axioms audited) + model-vs-code correspondence on generated cases + spec oracle for replay search"),
        })
    else:
        na.append({"property_id": pid, "reason": cfg.get(pid, {}).get("na_reason", "model and theorems for this property are not built yet in this revision (work in progress; see DESIGN.md section 10 for the order of work)")})
m = {
    "version": 1,
    "setup_cmd": "./setup.sh",
    "hooks": {
        "guard": "ten0_serde_avro_fast_verif",
        "enable": "RUSTFLAGS=--cfg ten0_serde_avro_fast_verif (set in harness/.cargo/config.toml; the harness depends on /repo by path, so every check rebuilds from the working tree)",
        "baseline_off_cmd": "cd /repo && cargo test --workspace --no-fail-fast --offline",
        "source_commits": json.load(open(os.path.join(ROOT, "hooks.json")))["source_commits"],
        "add_only": True,
    },
    "engines": [{
        "name": "lean4-proof+correspondence",
        "path": "check.py",
        "serves_properties": [c["property_id"] for c in checks],
        "kind_free_text": "Lean 4 library /verif/lean (Spec.*, Impl.*, Theorems/Cxx.lean), lean_exe driver, Rust harness /verif/harness driving the real crates in-process, python orchestrator",
    }],
    "checks": checks,
    "not_applicable": na,
    "notes": "See DESIGN.md. Every check: cargo build of the harness against /repo's working tree (hooks on) -> regenerate lean/AvroModel/Generated/* from the running code -> lake build of the property's theorem module -> #print axioms audit -> correspondence streams (Rust vs Lean model) + spec oracle -> known_findings.json -> evidence.",
}
json.dump(m, open(os.path.join(ROOT, "MANIFEST.json"), "w"), indent=1)
print("claimed:", [c["property_id"] for c in checks])
