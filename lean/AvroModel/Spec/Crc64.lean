import AvroModel.Basic.Bytes
/-
CRC-64-AVRO as defined in the Avro specification ("Schema Fingerprints"):

  static long fingerprint64(byte[] buf) {
    long fp = EMPTY;
    for (int i = 0; i < buf.length; i++)
      fp = (fp >>> 8) ^ FP_TABLE[(int)(fp ^ buf[i]) & 0xff];
    return fp; }
  FP_TABLE[i] = { long fp = i; for (j < 8) fp = (fp >>> 1) ^ (EMPTY & -(fp & 1L)); }
  EMPTY = 0xc15d213aa4d7a795L

The specification is itself table-driven; the *bit-serial* definition below (`round`, eight
times per byte) is the mathematical CRC the table abbreviates, and `tableEntry` is the
specification's table initialiser.
-/
namespace Avro.Spec

def EMPTY : BitVec 64 := 0xc15d213aa4d7a795#64

/-- One bit of the CRC: `(fp >>> 1) ^ (EMPTY & -(fp & 1))`. -/
def round (fp : BitVec 64) : BitVec 64 := (fp >>> 1) ^^^ (EMPTY &&& (-(fp &&& 1#64)))

def round8 (fp : BitVec 64) : BitVec 64 := round (round (round (round (round (round (round (round fp)))))))

/-- The specification's `FP_TABLE[i]`. -/
def tableEntry (i : Nat) : BitVec 64 := round8 (BitVec.ofNat 64 i)

/-- Bit-serial CRC step for one input byte: xor the byte into the low bits, eight rounds. -/
def crcStep (fp : BitVec 64) (b : UInt8) : BitVec 64 := round8 (fp ^^^ BitVec.ofNat 64 b.toNat)

def crc64 (bs : Bytes) : BitVec 64 := bs.foldl crcStep EMPTY

/-- The fingerprint as laid out in single-object encoding: little endian. -/
def fingerprintLE (bs : Bytes) : Bytes := leBytes 8 (crc64 bs).toNat

end Avro.Spec
