import AvroModel.Spec.Varint
import AvroModel.Impl.Schema
/-
Avro values and their binary encoding, written from the Avro specification
("Binary Encoding": primitive types, complex types, logical types).
The schema graph datatype (`Schema`, `Node`) is shared with the implementation model; nothing
else of `Impl.*` is used here.
-/
namespace Avro.Spec
open Avro Avro.Impl

/-- A datum. Floats are bit patterns (so NaN payloads are exact); strings are valid UTF-8 by
    construction; decimals carry their unscaled integer; durations their three unsigned fields. -/
inductive Value
  | null
  | bool (b : Bool)
  | int (i : Int)
  | long (i : Int)
  | float (bits : BitVec 32)
  | double (bits : BitVec 64)
  | bytes (b : Bytes)
  | string (s : String)
  | array (items : List Value)
  | map (entries : List (String × Value))
  | union (idx : Nat) (v : Value)
  | record (fields : List Value)
  | enum (idx : Nat)
  | fixed (b : Bytes)
  | decimal (unscaled : Int)
  | bigDecimal (unscaled : Int) (scale : Nat)
  | duration (months days millis : Nat)
  deriving Repr, Inhabited

def utf8 (s : String) : Bytes := s.toUTF8.data.toList

/-- Two's complement, big endian, in exactly `n` bytes; `none` if the value does not fit. -/
def twosComplementBE (n : Nat) (v : Int) : Option Bytes :=
  if n = 0 then (if v = 0 then some [] else none)
  else if -(2 : Int) ^ (8 * n - 1) ≤ v ∧ v < (2 : Int) ^ (8 * n - 1) then
    some (beBytes n (v % (2 : Int) ^ (8 * n)).toNat)
  else none

/-- Number of bytes of the shortest two's-complement representation (at least one). -/
def minimalLen (v : Int) : Nat :=
  let rec go (fuel n : Nat) : Nat :=
    match fuel with
    | 0 => n
    | fuel + 1 =>
      if -(2 : Int) ^ (8 * n - 1) ≤ v ∧ v < (2 : Int) ^ (8 * n - 1) then n else go fuel (n + 1)
  go 64 1

/-- Big-endian two's complement to integer (empty = 0). -/
def fromTwosComplementBE (bs : Bytes) : Int :=
  match bs with
  | [] => 0
  | b :: _ =>
    let u : Int := beToNat bs
    if b.toNat ≥ 128 then u - (2 : Int) ^ (8 * bs.length) else u

end Avro.Spec
