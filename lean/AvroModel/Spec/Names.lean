/-
Avro 1.11 specification, section "Names", written from the text and independent of the
implementation model (`Impl/SchemaParse.lean`): no implementation function is used here.

  "Record, enums and fixed are named types. Each has a fullname that is composed of two parts;
   a name and a namespace, separated by a dot. [...]
   In record, enum and fixed definitions, the fullname is determined according to the algorithm
   below:
   * A fullname is specified. If the name specified contains a dot, then it is assumed to be a
     fullname, and any namespace also specified is ignored.
   * A namespace and a name are both specified: the fullname is namespace.name
     [an empty-string namespace means the null namespace].
   * A name only is specified, i.e., a name that contains no dots. In this case the namespace is
     taken from the most tightly enclosing named schema or protocol, and the fullname is
     constructed from that namespace and the name.
   References to previously defined names are as in the latter two cases above: if they contain a
   dot they are a fullname, if they do not contain a dot, the namespace is the namespace of the
   enclosing definition."

A fullname is represented by its two parts `(namespace, simple name)`; `none` is the null
namespace.  "Contains a dot": the simple name is what follows the LAST dot, the namespace what
precedes it (a fullname is `namespace.name` where the name itself has no dot).
-/
namespace Avro.Spec

/-- Split a dotted name at its last dot: `a.b.c ↦ (a.b, c)`; `none` when there is no dot.
    Structural: the head stays in the namespace part as long as the tail still has a dot. -/
def splitLastDot : List Char → Option (List Char × List Char)
  | [] => none
  | c :: rest =>
    match splitLastDot rest with
    | some (nsPart, name) => some (c :: nsPart, name)
    | none => if c = '.' then some ([], rest) else none

/-- The namespace denoted by a namespace string: the empty string is the null namespace. -/
def namespaceOf (s : String) : Option String :=
  if s = "" then none else some s

/-- Fullname `(namespace, name)` of a record / enum / fixed definition with `name` attribute
    `name`, optional `namespace` attribute `nsAttr`, inside the enclosing namespace `enclosing`. -/
def fullnameOfDef (name : String) (nsAttr : Option String) (enclosing : Option String) :
    Option String × String :=
  match splitLastDot name.toList with
  | some (nsPart, simple) =>
    -- "If the name specified contains a dot, then it is assumed to be a fullname, and any
    --  namespace also specified is ignored."
    (namespaceOf (String.ofList nsPart), String.ofList simple)
  | none =>
    match nsAttr with
    | some ns =>
      -- "A namespace and a name are both specified"
      (namespaceOf ns, name)
    | none =>
      -- "A name only is specified [...] the namespace is taken from the most tightly enclosing
      --  named schema"
      (enclosing, name)

/-- Fullname denoted by a reference: "if they contain a dot they are a fullname, if they do not
    contain a dot, the namespace is the namespace of the enclosing definition". -/
def fullnameOfRef (reference : String) (enclosing : Option String) : Option String × String :=
  match splitLastDot reference.toList with
  | some (nsPart, simple) => (namespaceOf (String.ofList nsPart), String.ofList simple)
  | none => (enclosing, reference)

/-- The text of a fullname: "a name and a namespace, separated by a dot"; in the null namespace
    the fullname is the name. -/
def fullnameText (fn : Option String × String) : String :=
  match fn.1 with
  | none => fn.2
  | some ns => ns ++ "." ++ fn.2

end Avro.Spec
