import AvroModel.Spec.Value
/-
The canonical binary encoding of a value under a schema node (one block per non-empty
array/map, non-negative counts).  `none` when the value does not conform to the node.
Every length, count, union index, enum index and big-decimal scale is written as an Avro `long`,
so it must be below `2 ^ 63`; a value violating this has no encoding (`none`).  Without these
guards `decode_encode` is false (e.g. `Value.bytes (List.replicate (2 ^ 63) 0)`).
-/
namespace Avro.Spec
open Avro Avro.Impl

def lenPrefixed (b : Bytes) : Bytes := encodeLong b.length ++ b

def nodeOf (S : Schema) (k : Nat) : Option Node := S[k]?

mutual

/-- `encode S n v`: the encoding of `v` at node `n` of schema graph `S`. -/
def encode (S : Schema) (n : Node) : Value → Option Bytes
  | .null => match n with | .null => some [] | _ => none
  | .bool b => match n with | .boolean => some [if b then 1 else 0] | _ => none
  | .int i =>
    match n with
    | .int | .date | .timeMillis => if InI32 i then some (encodeLong i) else none
    | _ => none
  | .long i =>
    match n with
    | .long | .timeMicros | .timestampMillis | .timestampMicros =>
      if InI64 i then some (encodeLong i) else none
    | _ => none
  | .float bits => match n with | .float => some (leBytes 4 bits.toNat) | _ => none
  | .double bits => match n with | .double => some (leBytes 8 bits.toNat) | _ => none
  | .bytes b =>
    match n with
    | .bytes => if b.length < 2 ^ 63 then some (lenPrefixed b) else none
    | _ => none
  | .string s =>
    match n with
    | .string | .uuid => if (utf8 s).length < 2 ^ 63 then some (lenPrefixed (utf8 s)) else none
    | _ => none
  | .array items =>
    match n with
    | .array k =>
      match nodeOf S k with
      | none => none
      | some item =>
        match encodeItems S item items with
        | none => none
        | some body =>
          if items.length < 2 ^ 63 then
            some ((if items.isEmpty then [] else encodeLong items.length ++ body) ++ [0])
          else none
    | _ => none
  | .map entries =>
    match n with
    | .map k =>
      match nodeOf S k with
      | none => none
      | some item =>
        match encodeEntries S item entries with
        | none => none
        | some body =>
          if entries.length < 2 ^ 63 then
            some ((if entries.isEmpty then [] else encodeLong entries.length ++ body) ++ [0])
          else none
    | _ => none
  | .union idx v =>
    match n with
    | .union vs =>
      match vs[idx]? with
      | none => none
      | some k =>
        match nodeOf S k with
        | none => none
        | some branch =>
          match encode S branch v with
          | none => none
          | some body => if idx < 2 ^ 63 then some (encodeLong idx ++ body) else none
    | _ => none
  | .record vals =>
    match n with
    | .record _ fields => encodeFields S (fields.map (·.2)) vals
    | _ => none
  | .enum idx =>
    match n with
    | .enum _ syms => if idx < syms.length ∧ idx < 2 ^ 63 then some (encodeLong idx) else none
    | _ => none
  | .fixed b =>
    match n with
    | .fixed _ size => if b.length = size then some b else none
    | _ => none
  | .decimal u =>
    match n with
    | .decimal _ _ .bytes => (twosComplementBE (minimalLen u) u).map lenPrefixed
    | .decimal _ _ (.fixed _ size) => twosComplementBE size u
    | _ => none
  | .bigDecimal u scale =>
    match n with
    | .bigDecimal =>
      if scale < 2 ^ 63 then
        (twosComplementBE (minimalLen u) u).map fun m =>
          lenPrefixed (lenPrefixed m ++ encodeLong scale)
      else none
    | _ => none
  | .duration mo d ms =>
    match n with
    | .duration =>
      if mo < 2 ^ 32 ∧ d < 2 ^ 32 ∧ ms < 2 ^ 32 then some (leBytes 4 mo ++ leBytes 4 d ++ leBytes 4 ms)
      else none
    | _ => none

def encodeItems (S : Schema) (item : Node) : List Value → Option Bytes
  | [] => some []
  | v :: rest =>
    match encode S item v with
    | none => none
    | some a => match encodeItems S item rest with
      | none => none
      | some b => some (a ++ b)

def encodeEntries (S : Schema) (item : Node) : List (String × Value) → Option Bytes
  | [] => some []
  | (k, v) :: rest =>
    match encode S item v with
    | none => none
    | some a => match encodeEntries S item rest with
      | none => none
      | some b =>
        if (utf8 k).length < 2 ^ 63 then some (lenPrefixed (utf8 k) ++ a ++ b) else none

def encodeFields (S : Schema) : List Nat → List Value → Option Bytes
  | [], [] => some []
  | k :: ks, v :: vs =>
    match nodeOf S k with
    | none => none
    | some n =>
      match encode S n v with
      | none => none
      | some a => match encodeFields S ks vs with
        | none => none
        | some b => some (a ++ b)
  | _, _ => none

end

end Avro.Spec
