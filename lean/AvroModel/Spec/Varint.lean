import AvroModel.Basic.Bytes
/-
Avro specification, "Binary Encoding / Primitive Types":
int and long values are written using variable-length zig-zag coding.
Written from the specification, not from the Rust code.
-/
namespace Avro.Spec

/-- Zig-zag: 0 ↦ 0, -1 ↦ 1, 1 ↦ 2, -2 ↦ 3, … -/
def zigzag (i : Int) : Nat :=
  if 0 ≤ i then (2 * i).toNat else (-2 * i - 1).toNat

def unzigzag (n : Nat) : Int :=
  if n % 2 = 0 then (n / 2 : Nat) else -(((n + 1) / 2 : Nat) : Int)

theorem unzigzag_zigzag (i : Int) : unzigzag (zigzag i) = i := by
  unfold unzigzag zigzag
  split <;> split <;> omega

theorem zigzag_unzigzag (n : Nat) : zigzag (unzigzag n) = n := by
  unfold unzigzag zigzag
  split <;> split <;> omega

/-- Base-128 little-endian varint, minimal length. -/
def encodeNat (n : Nat) : Bytes :=
  if h : n < 128 then [UInt8.ofNat n]
  else UInt8.ofNat (n % 128 + 128) :: encodeNat (n / 128)
decreasing_by omega

/-- General base-128 decoder: consumes bytes up to and including the first one with the
    high bit clear. Returns the value and the remaining input. -/
def decodeNat : Bytes → Option (Nat × Bytes)
  | [] => none
  | b :: rest =>
    if b.toNat < 128 then some (b.toNat, rest)
    else match decodeNat rest with
      | none => none
      | some (v, rest') => some (b.toNat - 128 + 128 * v, rest')

def InI32 (i : Int) : Prop := -2147483648 ≤ i ∧ i ≤ 2147483647
def InI64 (i : Int) : Prop := -9223372036854775808 ≤ i ∧ i ≤ 9223372036854775807
instance (i : Int) : Decidable (InI32 i) := by unfold InI32; infer_instance
instance (i : Int) : Decidable (InI64 i) := by unfold InI64; infer_instance

/-- Encoding of an `int` or `long` value. -/
def encodeLong (i : Int) : Bytes := encodeNat (zigzag i)

/-- Decoding of a `long`: the value must fit 64 bits. -/
def decodeLong (bs : Bytes) : Option (Int × Bytes) :=
  match decodeNat bs with
  | none => none
  | some (n, rest) => if n < 2 ^ 64 then some (unzigzag n, rest) else none

theorem decodeNat_encodeNat (n : Nat) (rest : Bytes) :
    decodeNat (encodeNat n ++ rest) = some (n, rest) := by
  induction n using Nat.strongRecOn with
  | _ n ih =>
    unfold encodeNat
    split
    · rename_i h
      have : (UInt8.ofNat n).toNat = n := by simp [UInt8.toNat_ofNat']; omega
      simp [decodeNat, this, h]
    · rename_i h
      have hb : (UInt8.ofNat (n % 128 + 128)).toNat = n % 128 + 128 := by
        simp [UInt8.toNat_ofNat']; omega
      simp only [List.cons_append, decodeNat, hb]
      have : ¬ (n % 128 + 128 < 128) := by omega
      simp only [this, if_false]
      rw [ih (n / 128) (by omega)]
      simp; omega

theorem zigzag_lt_of_inI64 {i : Int} (h : InI64 i) : zigzag i < 2 ^ 64 := by
  unfold InI64 at h; unfold zigzag; split <;> omega

theorem decodeLong_encodeLong (i : Int) (h : InI64 i) (rest : Bytes) :
    decodeLong (encodeLong i ++ rest) = some (i, rest) := by
  unfold decodeLong encodeLong
  rw [decodeNat_encodeNat]
  simp [zigzag_lt_of_inI64 h, unzigzag_zigzag]

/-- The encoder never produces the empty string, and output is prefix-free:
    decoding consumes exactly the encoding. -/
theorem encodeNat_ne_nil (n : Nat) : encodeNat n ≠ [] := by
  unfold encodeNat; split <;> simp

/-- Length of the minimal encoding: at most 10 bytes for 64-bit values. -/
theorem encodeNat_length_le (n : Nat) (k : Nat) (hk : 0 < k) (h : n < 128 ^ k) :
    (encodeNat n).length ≤ k := by
  induction k generalizing n with
  | zero => omega
  | succ k ih =>
    unfold encodeNat
    split
    · simp
    · rename_i hn
      simp only [List.length_cons]
      have : n / 128 < 128 ^ k := by
        rw [Nat.pow_succ] at h
        exact Nat.div_lt_of_lt_mul (by rw [Nat.mul_comm]; exact h)
      cases k with
      | zero => simp at h; omega
      | succ k => have := ih (n / 128) (by omega) this; omega

end Avro.Spec
