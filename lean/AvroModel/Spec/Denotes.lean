import AvroModel.Spec.Decode
import AvroModel.Impl.Serde
import AvroModel.Impl.UnionLookup
/-
`denotes S n sv v`: the serde presentation `sv`, offered to schema node `n`, means the logical
Avro value `v` (DESIGN.md section 8, C02 — the relation `Denotes`).  It is the reading of a
presentation that a user of the crate relies on, written value-first and independent of how the
serializer is organised:

* integers of any width denote that integer on int/long/date/time nodes, the scaled integer on
  decimal nodes, the symbol index on enum nodes;
* `str` / unit variant / unit struct denote the symbol on enum nodes, the text on string nodes,
  the UTF-8 bytes on bytes nodes;
* struct or map (string keys) denote the record with those field values, omitted nullable fields
  being null; seq / tuple / bytes denote bytes, fixed, duration or arrays;
* `Some x` and newtype wrappers denote what `x` denotes; a wrapper whose name is the name of a
  union branch denotes that branch;
* documented converting presentations: `f64` on a float node denotes `f64 as f32`, a decimal
  with another scale denotes its `rescale` (both are parameters, `ext`).

The union branch is *read off the value* (`.union idx y`): `denotes` checks that the presentation
is a presentation of `y` at branch `idx` (and, for a named wrapper that names a branch, that it
is that branch).
-/
namespace Avro.Spec
open Avro Avro.Impl

structure DenExt where
  asF32 : BitVec 64 → BitVec 32
  decFromF64 : BitVec 64 → Option (Int × Nat)
  decParse : String → Option (Int × Nat)
  decRescale : Int × Nat → Nat → Int × Nat

def u8Like : SV → Option UInt8
  | .int t v => if t.inRange v ∧ 0 ≤ v ∧ v ≤ 255 then some (UInt8.ofNat v.toNat) else none
  | _ => none

def u8List : List SV → Option Bytes
  | [] => some []
  | e :: rest => match u8Like e, u8List rest with
    | some b, some bs => some (b :: bs)
    | _, _ => none

def u32Of : SV → Option Nat
  | .int .u32 v => if 0 ≤ v ∧ v < 4294967296 then some v.toNat else none
  | _ => none

/-- Text offered by a presentation that the serializer accepts as a string. -/
def textOf : SV → Option String
  | .str s => some s
  | .char c => some (String.singleton c)
  | .unitStruct name => some name
  | .unitVariant _ _ variant => some variant
  | _ => none

def isNullish (S : Schema) (n : Node) (v : Value) : Bool :=
  match n, v with
  | .null, .null => true
  | .union vs, .union idx .null =>
    match vs[idx]? with
    | some k => match S[k]? with
      | some .null => true
      | _ => false
    | none => false
  | _, _ => false

def decimalOf (ext : DenExt) (scale : Nat) (d : Int × Nat) : Option Int :=
  let d' := ext.decRescale d scale
  if d'.2 = scale then some d'.1 else none

/-- Leaf presentations (everything that is not a container of further presentations). -/
def denotesLeaf (ext : DenExt) (n : Node) (sv : SV) (v : Value) : Bool :=
  match n, v with
  | .null, .null =>
    match sv with
    | .unit | .none | .unitStruct _ => true
    | .unitVariant _ _ variant => variant = "Null"
    | _ => false
  | .boolean, .bool b => match sv with | .bool b' => b = b' | _ => false
  | .int, .int i | .date, .int i | .timeMillis, .int i =>
    match sv with | .int t x => t.inRange x ∧ x = i | _ => false
  | .long, .long i | .timeMicros, .long i | .timestampMillis, .long i | .timestampMicros, .long i =>
    match sv with | .int t x => t.inRange x ∧ x = i | _ => false
  | .float, .float bits =>
    match sv with
    | .f32 b => b = bits
    | .f64 b => ext.asF32 b = bits
    | _ => false
  | .double, .double bits => match sv with | .f64 b => b = bits | _ => false
  | .bytes, .bytes b =>
    match sv with
    | .bytes b' => b = b'
    | _ => match textOf sv with
      | some s => utf8 s = b
      | none => false
  | .string, .string s =>
    match sv with
    | .bytes b => utf8 s = b
    | _ => textOf sv = some s
  | .uuid, .string s => match sv with | .str s' => s = s' | .char c => s = String.singleton c | _ => false
  | .enum _ syms, .enum idx =>
    match sv with
    | .int t x => t.inRange x ∧ x = idx ∧ idx < syms.length
    | _ => match textOf sv with
      | some s => syms[idx]? = some s
      | none => false
  | .fixed _ size, .fixed b =>
    match sv with
    | .bytes b' => b = b' ∧ b.length = size
    | .str s => utf8 s = b ∧ b.length = size
    | .char c => utf8 (String.singleton c) = b ∧ b.length = size
    | _ => false
  | .decimal scale _ _, .decimal u =>
    match sv with
    | .int t x => t.inRange x ∧ u = x * (10 : Int) ^ scale
    | .f64 b => match ext.decFromF64 b with
      | some d => decimalOf ext scale d = some u
      | none => false
    | .str s => match ext.decParse s with
      | some d => decimalOf ext scale d = some u
      | none => false
    | .char c => match ext.decParse (String.singleton c) with
      | some d => decimalOf ext scale d = some u
      | none => false
    | _ => false
  | .bigDecimal, .bigDecimal u scale =>
    match sv with
    | .f64 b => ext.decFromF64 b = some (u, scale)
    | .str s => ext.decParse s = some (u, scale)
    | .char c => ext.decParse (String.singleton c) = some (u, scale)
    | _ => false
  | .duration, .duration mo d ms =>
    match sv with
    | .bytes b => b = leBytes 4 mo ++ leBytes 4 d ++ leBytes 4 ms
    | _ => false
  | _, _ => false

def lookupAll {α} (name : String) : List (String × α) → List α
  | [] => []
  | (k, a) :: rest => if k = name then a :: lookupAll name rest else lookupAll name rest

def branchNodes' (S : Schema) (vs : List Nat) : List Node := vs.map fun k => S[k]?.getD .null

def indexOfName (name : String) : List (String × Nat) → Option Nat
  | [] => none
  | (k, _) :: rest => if k = name then some 0 else (indexOfName name rest).map (· + 1)

def strKeys : List (SV × SV) → Option (List (String × SV))
  | [] => some []
  | (.str k, v) :: rest => (strKeys rest).map fun r => (k, v) :: r
  | _ => none

/-- Non-recursive part of the record reading: presented names are distinct schema fields, the
    value has one entry per schema field, and every field that is not presented is null. -/
def recordComplete (S : Schema) (schemaFields : List (String × Nat)) (presented : List String)
    (vals : List Value) : Bool :=
  presented.Nodup
  && presented.all (fun nm => (schemaFields.map (·.1)).contains nm)
  && vals.length = schemaFields.length
  && (List.range schemaFields.length).all fun i =>
    match schemaFields[i]?, vals[i]? with
    | some (fname, k), some v =>
      presented.contains fname ||
        (match S[k]? with
          | some fnode => isNullish S fnode v
          | none => false)
    | _, _ => false

def durationComplete (presented : List String) : Bool :=
  presented.length = 3 && presented.contains "months" && presented.contains "days"
    && presented.contains "milliseconds"

def durField (name : String) (mo d ms : Nat) : Option Nat :=
  if name = "months" then some mo else if name = "days" then some d
  else if name = "milliseconds" then some ms else none

def denotesDurFields (mo d ms : Nat) : List (String × SV) → Bool
  | [] => true
  | (name, sv) :: rest =>
    (match durField name mo d ms with
      | some x => u32Of sv = some x
      | none => false) && denotesDurFields mo d ms rest

/-- If the node is a union the value must be a `union idx y` with `idx` in range; returns the
    branch node and `y`. -/
def unionBranch (S : Schema) (n : Node) (v : Value) : Option (Nat × Node × Value) :=
  match n, v with
  | .union vs, .union idx y =>
    match vs[idx]? with
    | none => none
    | some k => match S[k]? with
      | none => none
      | some branch => some (idx, branch, y)
  | _, _ => none

/-- By-name selection: a name that names a branch pins the branch. -/
def nameAgrees (S : Schema) (n : Node) (name : Option String) (idx : Nat) : Bool :=
  match n, name with
  | .union vs, some nm =>
    match namedLookup nm (branchNodes' S vs) with
    | some d => d = idx
    | none => true
  | _, _ => true

/-- Sequence presentations (`seq`, `tuple`, `tuple_struct`, `tuple_variant`). -/
def seqDispatch (S : Schema) (n : Node) (name : Option String) (v : Value)
    (arr : Node → List Value → Bool) (asBytes : Option Bytes) (asU32 : List (Option Nat)) : Bool :=
  let atNode (n : Node) (v : Value) : Bool :=
    match n, v with
    | .array k, .array items =>
      (match S[k]? with
        | none => false
        | some item => arr item items)
    | .bytes, .bytes b => asBytes = some b
    | .fixed _ size, .fixed b => asBytes = some b && b.length = size
    | .duration, .duration mo d ms => asU32 = [some mo, some d, some ms]
    | _, _ => false
  match n with
  | .union _ =>
    (match unionBranch S n v with
      | some (idx, branch, y) =>
        (match branch with | .union _ => false | _ => nameAgrees S n name idx && atNode branch y)
      | none => false)
  | _ => atNode n v

/-- Struct presentations (`struct`, `struct_variant`): record by field name, map with the field
    names as keys, duration. -/
def structDispatch (S : Schema) (n : Node) (name : Option String) (v : Value)
    (presented : List String)
    (recF : List (String × Nat) → List Value → Bool)
    (mapF : Node → List (String × Value) → Bool)
    (durF : Nat → Nat → Nat → Bool) : Bool :=
  let atNode (n : Node) (v : Value) : Bool :=
    match n, v with
    | .record _ schemaFields, .record vals =>
      recordComplete S schemaFields presented vals && recF schemaFields vals
    | .map k, .map entries =>
      (match S[k]? with
        | none => false
        | some item => mapF item entries)
    | .duration, .duration mo d ms => durationComplete presented && durF mo d ms
    | _, _ => false
  match n with
  | .union _ =>
    (match unionBranch S n v with
      | some (idx, branch, y) =>
        (match branch with | .union _ => false | _ => nameAgrees S n name idx && atNode branch y)
      | none => false)
  | _ => atNode n v

mutual

/-- `denotes ext S n sv v` -/
def denotes (ext : DenExt) (S : Schema) (n : Node) : SV → Value → Bool
  | .some x, v => denotes ext S n x v
  | .newtypeStruct name x, v =>
    (match n with
      | .union vs =>
        (match namedLookup name (branchNodes' S vs) with
          | some d =>
            (match unionBranch S n v with
              | some (idx, branch, y) => d = idx && denotes ext S branch x y
              | none => false)
          | none => denotes ext S n x v)
      | _ => denotes ext S n x v)
  | .newtypeVariant _ _ variant x, v =>
    (match n with
      | .union vs =>
        (match namedLookup variant (branchNodes' S vs) with
          | some d =>
            (match unionBranch S n v with
              | some (idx, branch, y) => d = idx && denotes ext S branch x y
              | none => false)
          | none => denotes ext S n x v)
      | _ => denotes ext S n x v)
  | .seq _ elems, v =>
    seqDispatch S n none v (fun item items => denotesList ext S item elems items)
      (u8List elems) (elems.map u32Of)
  | .tuple elems, v =>
    seqDispatch S n none v (fun item items => denotesList ext S item elems items)
      (u8List elems) (elems.map u32Of)
  | .tupleStruct _ elems, v =>
    seqDispatch S n none v (fun item items => denotesList ext S item elems items)
      (u8List elems) (elems.map u32Of)
  | .tupleVariant _ _ variant elems, v =>
    seqDispatch S n (some variant) v (fun item items => denotesList ext S item elems items)
      (u8List elems) (elems.map u32Of)
  | .map _ entries, v =>
    (match strKeys entries with
      | some fields =>
        structDispatch S n none v (fields.map (·.1))
          (fun schemaFields vals => denotesPresentedE ext S schemaFields vals entries)
          (fun item ents => denotesMapEntries ext S item entries ents)
          (fun mo d ms => denotesDurFields mo d ms fields)
      | none =>
        -- keys that are not plain `str`: only a map node can take them
        structDispatch S n none v []
          (fun _ _ => false)
          (fun item ents => denotesMapEntries ext S item entries ents)
          (fun _ _ _ => false))
  | .struct name fields, v =>
    structDispatch S n (some name) v (fields.map (·.1))
      (fun schemaFields vals => denotesPresented ext S schemaFields vals fields)
      (fun item ents => denotesMapFields ext S item fields ents)
      (fun mo d ms => denotesDurFields mo d ms fields)
  | .structVariant _ _ variant fields, v =>
    structDispatch S n (some variant) v (fields.map (·.1))
      (fun schemaFields vals => denotesPresented ext S schemaFields vals fields)
      (fun item ents => denotesMapFields ext S item fields ents)
      (fun mo d ms => denotesDurFields mo d ms fields)
  | sv, v =>
    match n with
    | .union _ =>
      (match unionBranch S n v with
        | some (_, branch, y) => denotesLeaf ext branch sv y
        | none => false)
    | _ => denotesLeaf ext n sv v

def denotesList (ext : DenExt) (S : Schema) (item : Node) : List SV → List Value → Bool
  | [], [] => true
  | e :: es, v :: vs => denotes ext S item e v && denotesList ext S item es vs
  | _, _ => false

/-- every presented field is a presentation of the value at that field's position -/
def denotesPresented (ext : DenExt) (S : Schema) (schemaFields : List (String × Nat))
    (vals : List Value) : List (String × SV) → Bool
  | [] => true
  | (name, sv) :: rest =>
    (match indexOfName name schemaFields with
      | none => false
      | some i =>
        match schemaFields[i]?, vals[i]? with
        | some (_, k), some v =>
          (match S[k]? with
            | some fnode => denotes ext S fnode sv v
            | none => false)
        | _, _ => false)
    && denotesPresented ext S schemaFields vals rest

def denotesMapFields (ext : DenExt) (S : Schema) (item : Node) :
    List (String × SV) → List (String × Value) → Bool
  | [], [] => true
  | (k, sv) :: rest, (k', v) :: vrest =>
    k = k' && denotes ext S item sv v && denotesMapFields ext S item rest vrest
  | _, _ => false

def denotesPresentedE (ext : DenExt) (S : Schema) (schemaFields : List (String × Nat))
    (vals : List Value) : List (SV × SV) → Bool
  | [] => true
  | (key, sv) :: rest =>
    (match key with
      | .str name =>
        (match indexOfName name schemaFields with
          | none => false
          | some i =>
            match schemaFields[i]?, vals[i]? with
            | some (_, k), some v =>
              (match S[k]? with
                | some fnode => denotes ext S fnode sv v
                | none => false)
            | _, _ => false)
      | _ => false)
    && denotesPresentedE ext S schemaFields vals rest

def denotesMapEntries (ext : DenExt) (S : Schema) (item : Node) :
    List (SV × SV) → List (String × Value) → Bool
  | [], [] => true
  | (ksv, sv) :: rest, (k', v) :: vrest =>
    -- the key goes through the string node: any presentation of a string
    denotes ext S .string ksv (.string k') && denotes ext S item sv v
      && denotesMapEntries ext S item rest vrest
  | _, _ => false

end

end Avro.Spec
