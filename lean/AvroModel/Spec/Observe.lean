import AvroModel.Spec.Decode
import AvroModel.Impl.De
import AvroModel.Impl.DecimalLib
/-
`observe S n v`: the tree of visitor calls a dynamically typed target (one that asks
`deserialize_any` everywhere) must receive for the logical value `v` at node `n` — C01's
"deserializing those bytes yields a value equal to v", spelled out on the `Out` DSL.
Borrowed flags are those of slice input (strings, bytes and fixed point into the input).
-/
namespace Avro.Spec
open Avro Avro.Impl

mutual
def observe (S : Schema) (n : Node) : Value → Option Out
  | .null => some .unit
  | .bool b => some (.bool b)
  | .int i => some (.i32 i)
  | .long i => some (.i64 i)
  | .float bits => some (.f32 bits)
  | .double bits => some (.f64 bits)
  | .bytes b => some (.bytes b true)
  | .string s => some (.str s true)
  | .fixed b => some (.bytes b true)
  | .enum idx =>
    match n with
    | .enum _ syms => (syms[idx]?).map fun s => .str s false
    | _ => none
  | .decimal u =>
    match n with
    | .decimal scale _ _ => (decToStringModel u scale).map fun s => .str s false
    | _ => none
  | .bigDecimal u scale => (decToStringModel u scale).map fun s => .str s false
  | .duration mo d ms =>
    some (.map [(.str "months" false, .u32 mo), (.str "days" false, .u32 d),
                (.str "milliseconds" false, .u32 ms)])
  | .union idx v =>
    match n with
    | .union vs =>
      match vs[idx]? with
      | none => none
      | some k => match S[k]? with
        | none => none
        | some branch => observe S branch v
    | _ => none
  | .array items =>
    match n with
    | .array k => match S[k]? with
      | none => none
      | some item => (observeList S item items).map .seq
    | _ => none
  | .map entries =>
    match n with
    | .map k => match S[k]? with
      | none => none
      | some item => (observeEntries S item entries).map .map
    | _ => none
  | .record vals =>
    match n with
    | .record _ fields => (observeFields S fields vals).map .map
    | _ => none

def observeList (S : Schema) (item : Node) : List Value → Option (List Out)
  | [] => some []
  | v :: vs => match observe S item v, observeList S item vs with
    | some o, some os => some (o :: os)
    | _, _ => none

def observeEntries (S : Schema) (item : Node) : List (String × Value) → Option (List (Out × Out))
  | [] => some []
  | (k, v) :: rest => match observe S item v, observeEntries S item rest with
    | some o, some os => some ((.str k true, o) :: os)
    | _, _ => none

def observeFields (S : Schema) : List (String × Nat) → List Value → Option (List (Out × Out))
  | [], [] => some []
  | (name, k) :: fs, v :: vs =>
    match S[k]? with
    | none => none
    | some fnode => match observe S fnode v, observeFields S fs vs with
      | some o, some os => some ((.str name false, o) :: os)
      | _, _ => none
  | _, _ => none
end

end Avro.Spec
