import AvroModel.Spec.Encode
/-
The decoder of the specification: accepts every legal layout of a value — arrays and maps split
into any number of blocks, any block written with a negative count followed by its byte size.
Fuel bounds the total number of nested/sequential decoding steps; see `Theorems/C01.lean` for the
explicit sufficient amount.
-/
namespace Avro.Spec
open Avro Avro.Impl

def takeN (n : Nat) (bs : Bytes) : Option (Bytes × Bytes) :=
  if n ≤ bs.length then some (bs.take n, bs.drop n) else none

def decodeLen (bs : Bytes) : Option (Nat × Bytes) :=
  match decodeLong bs with
  | some (i, rest) => if 0 ≤ i then some (i.toNat, rest) else none
  | none => none

def decodeBytes (bs : Bytes) : Option (Bytes × Bytes) :=
  match decodeLen bs with
  | some (n, rest) => takeN n rest
  | none => none

def decodeString (bs : Bytes) : Option (String × Bytes) :=
  match decodeBytes bs with
  | some (b, rest) =>
    match String.fromUTF8? (ByteArray.mk b.toArray) with
    | some s => some (s, rest)
    | none => none
  | none => none

/-- Block header: `(count, rest)`; a negative count is followed by the block's size in bytes,
    which a reader may use to skip and which is otherwise ignored. `none` count = end marker. -/
def decodeBlockHeader (bs : Bytes) : Option (Nat × Bytes) :=
  match decodeLong bs with
  | none => none
  | some (c, rest) =>
    if c ≥ 0 then some (c.toNat, rest)
    else match decodeLong rest with
      | none => none
      | some (size, rest') => if size ≥ 0 then some ((-c).toNat, rest') else none

mutual

def decode (S : Schema) : Nat → Node → Bytes → Option (Value × Bytes)
  | 0, _, _ => none
  | fuel + 1, n, bs =>
    match n with
    | .null => some (.null, bs)
    | .boolean =>
      match bs with
      | b :: rest => if b = 0 then some (.bool false, rest) else if b = 1 then some (.bool true, rest) else none
      | [] => none
    | .int | .date | .timeMillis =>
      match decodeLong bs with
      | some (i, rest) => if InI32 i then some (.int i, rest) else none
      | none => none
    | .long | .timeMicros | .timestampMillis | .timestampMicros =>
      match decodeLong bs with
      | some (i, rest) => some (.long i, rest)
      | none => none
    | .float => (takeN 4 bs).map fun (b, rest) => (.float (BitVec.ofNat 32 (leToNat b)), rest)
    | .double => (takeN 8 bs).map fun (b, rest) => (.double (BitVec.ofNat 64 (leToNat b)), rest)
    | .bytes => (decodeBytes bs).map fun (b, rest) => (.bytes b, rest)
    | .string | .uuid => (decodeString bs).map fun (s, rest) => (.string s, rest)
    | .array k =>
      match nodeOf S k with
      | none => none
      | some item => (decodeBlocks S fuel item bs).map fun (vs, rest) => (.array vs, rest)
    | .map k =>
      match nodeOf S k with
      | none => none
      | some item => (decodeMapBlocks S fuel item bs).map fun (vs, rest) => (.map vs, rest)
    | .union vs =>
      match decodeLen bs with
      | none => none
      | some (idx, rest) =>
        match vs[idx]? with
        | none => none
        | some k =>
          match nodeOf S k with
          | none => none
          | some branch => (decode S fuel branch rest).map fun (v, rest') => (.union idx v, rest')
    | .record _ fields =>
      (decodeFields S fuel (fields.map (·.2)) bs).map fun (vs, rest) => (.record vs, rest)
    | .enum _ syms =>
      match decodeLen bs with
      | some (idx, rest) => if idx < syms.length then some (.enum idx, rest) else none
      | none => none
    | .fixed _ size => (takeN size bs).map fun (b, rest) => (.fixed b, rest)
    | .decimal _ _ .bytes =>
      (decodeBytes bs).map fun (b, rest) => (.decimal (fromTwosComplementBE b), rest)
    | .decimal _ _ (.fixed _ size) =>
      (takeN size bs).map fun (b, rest) => (.decimal (fromTwosComplementBE b), rest)
    | .bigDecimal =>
      match decodeBytes bs with
      | none => none
      | some (inner, rest) =>
        match decodeBytes inner with
        | none => none
        | some (m, inner') =>
          match decodeLen inner' with
          | some (scale, []) => some (.bigDecimal (fromTwosComplementBE m) scale, rest)
          | _ => none
    | .duration =>
      (takeN 12 bs).map fun (b, rest) =>
        (.duration (leToNat (b.take 4)) (leToNat ((b.drop 4).take 4)) (leToNat (b.drop 8)), rest)

/-- Blocks of an array until the zero-count end marker. -/
def decodeBlocks (S : Schema) : Nat → Node → Bytes → Option (List Value × Bytes)
  | 0, _, _ => none
  | fuel + 1, item, bs =>
    match decodeBlockHeader bs with
    | none => none
    | some (0, rest) => some ([], rest)
    | some (c, rest) =>
      match decodeItems S fuel item c rest with
      | none => none
      | some (vs, rest') =>
        match decodeBlocks S fuel item rest' with
        | none => none
        | some (more, rest'') => some (vs ++ more, rest'')

def decodeItems (S : Schema) : Nat → Node → Nat → Bytes → Option (List Value × Bytes)
  | _, _, 0, bs => some ([], bs)
  | 0, _, _ + 1, _ => none
  | fuel + 1, item, c + 1, bs =>
    match decode S fuel item bs with
    | none => none
    | some (v, rest) =>
      match decodeItems S fuel item c rest with
      | none => none
      | some (vs, rest') => some (v :: vs, rest')

def decodeMapBlocks (S : Schema) : Nat → Node → Bytes → Option (List (String × Value) × Bytes)
  | 0, _, _ => none
  | fuel + 1, item, bs =>
    match decodeBlockHeader bs with
    | none => none
    | some (0, rest) => some ([], rest)
    | some (c, rest) =>
      match decodeMapItems S fuel item c rest with
      | none => none
      | some (vs, rest') =>
        match decodeMapBlocks S fuel item rest' with
        | none => none
        | some (more, rest'') => some (vs ++ more, rest'')

def decodeMapItems (S : Schema) : Nat → Node → Nat → Bytes → Option (List (String × Value) × Bytes)
  | _, _, 0, bs => some ([], bs)
  | 0, _, _ + 1, _ => none
  | fuel + 1, item, c + 1, bs =>
    match decodeString bs with
    | none => none
    | some (k, rest) =>
      match decode S fuel item rest with
      | none => none
      | some (v, rest') =>
        match decodeMapItems S fuel item c rest' with
        | none => none
        | some (vs, rest'') => some ((k, v) :: vs, rest'')

def decodeFields (S : Schema) : Nat → List Nat → Bytes → Option (List Value × Bytes)
  | _, [], bs => some ([], bs)
  | 0, _ :: _, _ => none
  | fuel + 1, k :: ks, bs =>
    match nodeOf S k with
    | none => none
    | some n =>
      match decode S fuel n bs with
      | none => none
      | some (v, rest) =>
        match decodeFields S fuel ks rest with
        | none => none
        | some (vs, rest') => some (v :: vs, rest')

end

end Avro.Spec
