import AvroModel.Spec.Pcf
/-
"A schema document that is valid per the Avro specification", as a decidable predicate on the
JSON document, written from the specification (Avro 1.11, sections "Schema Declaration", "Names",
"Logical Types") plus — clearly separated — the few further demands the modelled parser makes of a
document.  Only the *type* `Avro.Impl.Json` of the implementation model is used.

`ValidDoc j` is the conjunction of

1. `shape`            `Spec.Pcf.canon none j` is defined: "j has the shape of a schema" (a JSON
                      string, a JSON array of schemas, or a JSON object whose `type` is a type name
                      and that has the attributes the specification requires of that type:
                      record → name, fields (each an object with name and type); enum → name,
                      symbols (array of strings); fixed → name, size; array → items; map → values).
2. `noForwardRefs`    "References to previously defined names": every reference follows, or is
                      inside, the definition of the fullname it denotes.
3. `namesDistinct`    "A schema or protocol may not contain multiple definitions of a fullname":
                      the list `definedNames` of the fullnames defined in the document has no
                      repetition.
4. `wellTyped`        what the *parser* (a derived `serde` reader of a struct with the members
                      type, logicalType, name, namespace, fields, symbols, items, values, size,
                      precision, scale) demands of EVERY schema object, whatever its type.

What is deliberately NOT in `ValidDoc`, although the specification demands it: the alphabet of
names and namespaces, of enum symbols; unions containing no union and at most one schema of each
unnamed type / name; no duplicate enum symbols, no duplicate field names; `default` values of the
field's type, `order`, `aliases`; `size`/`precision`/`scale` consistency of `decimal`.  The crate
checks none of them; leaving them out makes `ValidDoc` WEAKER, i.e. `C07_valid_parses` (every
`ValidDoc` document is accepted) STRONGER: it then speaks of more documents than the valid ones.

Where `ValidDoc` is STRONGER than the specification (documents the specification allows — or can
be read to allow — and the parser model rejects; each with a concrete document in
`Theorems/C07valid.lean`, section "findings"):

 (a) `definedNames` also lists the `name` of an object that is not a record, enum or fixed
     (`{"type":"int","name":"x"}`): the specification treats such a `name` as metadata, the parser
     enters it into the name table, so that two of them collide.
 (b) `wellTyped`: a member that the specification defines for another type is still read with its
     type there (`{"type":"int","items":5}`, `{"type":"string","size":"big"}` are rejected), and
     a member of the eleven may occur only once in an object; `size`, `precision` fit 64 bits,
     `scale` 32 bits.
 (c) `wellTyped`: `"logicalType":"decimal"` requires `precision` (the specification: "If a logical
     type is invalid [...] implementations should ignore the logical type and use the underlying
     Avro type").
 (d) `wellTyped`: a reference may not be spelled `array`, `map`, `record`, `enum` or `fixed`:
     only *primitive* type names are reserved by the specification, so a record may be named
     `record` and be referred to by that name; the parser takes the bare string for a complex type
     without its object and rejects it.

Separate hypotheses of the theorem (parameters of the parser, not of the document's validity):
`jsonNesting j ≤ 127` (the recursion limit of `serde_json`: arrays / objects nested at most 127 deep),
`schemaSize j ≤ n` (fuel of the registration), and `NoUnconditionalCycle j` (the specification
allows `record R { f : R }`; the crate rejects a record that unconditionally contains itself
since no finite value of it exists; `noUnconditionalCycleB` is a decidable test for it).
-/
namespace Avro.Spec
open Avro.Impl (Json)
open Avro.Spec.Pcf

/-! ### 3. definitions of fullnames -/

mutual

/-- The fullnames defined in the schema document `j` met in the enclosing namespace `enc`, in
    document order (a definition before the definitions inside it).  As `Spec.Pcf.scan` it
    follows `items` of an array, `values` of a map, the `type` of the fields of a record, the
    branches of a union.  See (a) above: the `name` of *any* schema object counts. -/
def definedNamesIn (enc : Option String) : Json → List Fullname
  | .arr branches => defsList enc branches
  | .obj ms =>
    match strAttr "type" ms with
    | none => []
    | some t =>
      match strAttr "name" ms with
      | some name =>
        fullnameOfDef name (strAttr "namespace" ms) enc ::
          (if t = "array" then defsAttr enc "items" ms
           else if t = "map" then defsAttr enc "values" ms
           else if t = "record" then
             defsFieldsAttr (fullnameOfDef name (strAttr "namespace" ms) enc).1 ms
           else [])
      | none =>
        if t = "array" then defsAttr enc "items" ms
        else if t = "map" then defsAttr enc "values" ms
        else []
  | _ => []

def defsList (enc : Option String) : List Json → List Fullname
  | [] => []
  | j :: rest => definedNamesIn enc j ++ defsList enc rest

def defsAttr (enc : Option String) (key : String) : List (String × Json) → List Fullname
  | [] => []
  | (k, v) :: rest => if k = key then definedNamesIn enc v else defsAttr enc key rest

def defsFieldsAttr (enc : Option String) : List (String × Json) → List Fullname
  | [] => []
  | (k, v) :: rest =>
    if k = "fields" then
      match v with
      | .arr fields => defsFields enc fields
      | _ => []
    else defsFieldsAttr enc rest

def defsFields (enc : Option String) : List Json → List Fullname
  | [] => []
  | .obj fm :: rest => defsAttr enc "type" fm ++ defsFields enc rest
  | _ :: rest => defsFields enc rest

end

/-- The fullnames defined in a schema document. -/
def definedNames (j : Json) : List Fullname := definedNamesIn none j

/-- Boolean test of `List.Nodup`. -/
def nodupB : List Fullname → Bool
  | [] => true
  | a :: l => !l.contains a && nodupB l

/-- "A schema [...] may not contain multiple definitions of a fullname." -/
def namesDistinct (j : Json) : Bool := nodupB (definedNames j)

/-! ### 4. what the parser demands of every schema object -/

/-- names of the complex types -/
def complexNames : List String := ["array", "map", "record", "enum", "fixed"]

/-- a type name: what the `type` attribute of a schema object may be -/
def isTypeName (s : String) : Bool := isPrimitive s || complexNames.contains s

/-- the member `key` occurs at most once -/
def keyOnce (key : String) (ms : List (String × Json)) : Bool :=
  decide ((ms.filter fun p => p.1 = key).length ≤ 1)

def isNull : Json → Bool
  | .null => true
  | _ => false

/-- absent, `null`, or a string -/
def optStrAttr (key : String) (ms : List (String × Json)) : Bool :=
  match attr key ms with
  | none => true
  | some .null => true
  | some (.str _) => true
  | some _ => false

/-- absent, `null`, or a non-negative integer that fits -/
def optNatAttr (key : String) (max : Nat) (ms : List (String × Json)) : Bool :=
  match attr key ms with
  | none => true
  | some .null => true
  | some (.nat n) => decide (n ≤ max)
  | some _ => false

/-- absent, `null`, or an array of strings -/
def optSymbolsAttr (ms : List (String × Json)) : Bool :=
  match attr "symbols" ms with
  | none => true
  | some .null => true
  | some (.arr items) => (strings items).isSome
  | some _ => false

/-- the members the parser reads -/
def knownKeys : List String :=
  ["type", "logicalType", "name", "namespace", "fields", "symbols", "items", "values", "size",
   "precision", "scale"]

/-- the scalar members of a schema object: each of the eleven at most once; `type` a type name;
    `logicalType`, `name`, `namespace` strings; `symbols` strings; `size`, `precision` (64 bits),
    `scale` (32 bits) non-negative integers; a `decimal` has a `precision`. -/
def scalarsOk (ms : List (String × Json)) : Bool :=
  knownKeys.all (fun k => keyOnce k ms) &&
  (match strAttr "type" ms with
    | some t => isTypeName t
    | none => false) &&
  optStrAttr "logicalType" ms && optStrAttr "name" ms && optStrAttr "namespace" ms &&
  optSymbolsAttr ms &&
  optNatAttr "size" (2 ^ 64 - 1) ms && optNatAttr "precision" (2 ^ 64 - 1) ms &&
  optNatAttr "scale" (2 ^ 32 - 1) ms &&
  (!(strAttr "logicalType" ms == some "decimal") || (natAttr "precision" ms).isSome)

mutual

/-- every JSON object in schema position (including the `items`, `values`, `fields` of an object
    whose type does not use them) is read by the parser as a schema object -/
def wellTyped : Json → Bool
  | .str s => !complexNames.contains s
  | .arr branches => wtList branches
  | .obj ms => scalarsOk ms && wtOpt "items" ms && wtOpt "values" ms && wtFieldsAttr ms
  | _ => false

def wtList : List Json → Bool
  | [] => true
  | j :: rest => wellTyped j && wtList rest

/-- the member `key` (first occurrence), if present and not `null`, is a schema -/
def wtOpt (key : String) : List (String × Json) → Bool
  | [] => true
  | (k, v) :: rest => if k = key then isNull v || wellTyped v else wtOpt key rest

/-- the member `fields`, if present and not `null`, is an array of field objects -/
def wtFieldsAttr : List (String × Json) → Bool
  | [] => true
  | (k, v) :: rest =>
    if k = "fields" then
      match v with
      | .null => true
      | .arr fields => wtFields fields
      | _ => false
    else wtFieldsAttr rest

/-- field objects: `name` (a string) and `type` (a schema), each exactly once -/
def wtFields : List Json → Bool
  | [] => true
  | .obj fm :: rest =>
    keyOnce "name" fm && keyOnce "type" fm && (strAttr "name" fm).isSome && wtReq "type" fm &&
      wtFields rest
  | _ :: _ => false

/-- the member `key` is present and a schema -/
def wtReq (key : String) : List (String × Json) → Bool
  | [] => false
  | (k, v) :: rest => if k = key then wellTyped v else wtReq key rest

end

/-! ### the predicate -/

/-- 1. the document has the shape of a schema -/
def shape (j : Json) : Bool := (canon none j).isSome

/-- A schema document the parser must accept. -/
def ValidDoc (j : Json) : Bool :=
  shape j && noForwardRefs j && namesDistinct j && wellTyped j

/-! ### parameters of the model: gas of the reader, size of the document -/

mutual

/-- The gas the reader model `rawOfJson` consumes on the document: one unit per JSON string or
    array, two per object, one per preceding branch of a union / field of a record.  Not a
    property of the crate: `parseJson` gives the reader `rawGas j`, which is always at least this
    (`parseDepth_le_rawGas`), so that the gas never decides (`rawOfJson_gas_irrelevant`); the
    depth limit of the crate is `Impl.jsonNesting j ≤ 127`. -/
def parseDepth : Json → Nat
  | .arr branches => 1 + depthList branches
  | .obj ms => 2 + max (max (depthAttr "items" ms) (depthAttr "values" ms)) (depthFieldsAttr ms)
  | _ => 1

def depthList : List Json → Nat
  | [] => 0
  | j :: rest => 1 + max (parseDepth j) (depthList rest)

def depthAttr (key : String) : List (String × Json) → Nat
  | [] => 0
  | (k, v) :: rest => if k = key then parseDepth v else depthAttr key rest

def depthFieldsAttr : List (String × Json) → Nat
  | [] => 0
  | (k, v) :: rest =>
    if k = "fields" then
      match v with
      | .arr fields => depthFields fields
      | _ => 0
    else depthFieldsAttr rest

def depthFields : List Json → Nat
  | [] => 0
  | .obj fm :: rest => 1 + max (depthAttr "type" fm) (depthFields rest)
  | _ :: rest => 1 + depthFields rest

end

mutual

/-- Size of the schema document: two per schema (JSON string or object), one per union, one per
    union branch and per record field.  The registration fuel `nodeCount + 2` of `parseJson`
    suffices as soon as `schemaSize j ≤ nodeCount`. -/
def schemaSize : Json → Nat
  | .arr branches => 1 + sizeList branches
  | .obj ms => 2 + sizeAttr "items" ms + sizeAttr "values" ms + sizeFieldsAttr ms
  | _ => 2

def sizeList : List Json → Nat
  | [] => 0
  | j :: rest => 1 + schemaSize j + sizeList rest

def sizeAttr (key : String) : List (String × Json) → Nat
  | [] => 0
  | (k, v) :: rest => if k = key then schemaSize v else sizeAttr key rest

def sizeFieldsAttr : List (String × Json) → Nat
  | [] => 0
  | (k, v) :: rest =>
    if k = "fields" then
      match v with
      | .arr fields => sizeFields fields
      | _ => 0
    else sizeFieldsAttr rest

def sizeFields : List Json → Nat
  | [] => 0
  | .obj fm :: rest => 1 + sizeAttr "type" fm + sizeFields rest
  | _ :: rest => 1 + sizeFields rest

end

/-! ### records that unconditionally contain themselves

A record *directly* contains the type of each of its fields when that type is a named type (given
by reference or defined in place) — not when it is a union, an array or a map (a value of which
can be finite without a value of the contained type).  The document has no unconditional cycle
when the named types can be ranked so that every record ranks strictly above the named types it
directly contains.  (Named types that are not records have no constraint of their own, so a
ranking exists exactly when the "directly contains" relation between records has no cycle.) -/

/-- `v`, the type of a field of the record `owner` (whose namespace is `ns`), ranks below it if
    it is a reference or a record definition. -/
def directBelow (rank : Fullname → Nat) (owner : Fullname) (ns : Option String) : Json → Bool
  | .str s => isPrimitive s || decide (rank (fullnameOfRef s ns) < rank owner)
  | .obj ms =>
    match strAttr "type" ms, strAttr "name" ms with
    | some t, some name =>
      !(t == "record") ||
        decide (rank (fullnameOfDef name (strAttr "namespace" ms) ns) < rank owner)
    | _, _ => true
  | _ => true

mutual

def ranked (rank : Fullname → Nat) (enc : Option String) : Json → Bool
  | .arr branches => rankedList rank enc branches
  | .obj ms =>
    match strAttr "type" ms with
    | none => true
    | some t =>
      if t = "array" then rankedAttr rank enc "items" ms
      else if t = "map" then rankedAttr rank enc "values" ms
      else if t = "record" then
        match strAttr "name" ms with
        | some name => rankedFieldsAttr rank (fullnameOfDef name (strAttr "namespace" ms) enc) ms
        | none => true
      else true
  | _ => true

def rankedList (rank : Fullname → Nat) (enc : Option String) : List Json → Bool
  | [] => true
  | j :: rest => ranked rank enc j && rankedList rank enc rest

def rankedAttr (rank : Fullname → Nat) (enc : Option String) (key : String) :
    List (String × Json) → Bool
  | [] => true
  | (k, v) :: rest => if k = key then ranked rank enc v else rankedAttr rank enc key rest

def rankedFieldsAttr (rank : Fullname → Nat) (owner : Fullname) : List (String × Json) → Bool
  | [] => true
  | (k, v) :: rest =>
    if k = "fields" then
      match v with
      | .arr fields => rankedFields rank owner fields
      | _ => true
    else rankedFieldsAttr rank owner rest

def rankedFields (rank : Fullname → Nat) (owner : Fullname) : List Json → Bool
  | [] => true
  | .obj fm :: rest => rankedFieldType rank owner fm && rankedFields rank owner rest
  | _ :: rest => rankedFields rank owner rest

/-- the `type` of a field of `owner` -/
def rankedFieldType (rank : Fullname → Nat) (owner : Fullname) : List (String × Json) → Bool
  | [] => true
  | (k, v) :: rest =>
    if k = "type" then directBelow rank owner owner.1 v && ranked rank owner.1 v
    else rankedFieldType rank owner rest

end

/-- No record of the document unconditionally contains itself. -/
def NoUnconditionalCycle (j : Json) : Prop := ∃ rank : Fullname → Nat, ranked rank none j = true

/-! A decidable test: collect the pairs (record, named type it directly contains), compute a
candidate ranking by relaxation (the length of the longest chain of pairs below a name, cut at
the number of pairs), and check it.  Sound by construction (`noUnconditionalCycleB_sound`: the
candidate is a witness); used to discharge `NoUnconditionalCycle` on concrete documents. -/

/-- the named type that `v`, the type of a field, directly is -/
def directTarget (ns : Option String) : Json → Option Fullname
  | .str s => if isPrimitive s then none else some (fullnameOfRef s ns)
  | .obj ms =>
    match strAttr "type" ms, strAttr "name" ms with
    | some t, some name =>
      if t = "record" then some (fullnameOfDef name (strAttr "namespace" ms) ns) else none
    | _, _ => none
  | _ => none

mutual

def containments (enc : Option String) : Json → List (Fullname × Fullname)
  | .arr branches => containmentsList enc branches
  | .obj ms =>
    match strAttr "type" ms with
    | none => []
    | some t =>
      if t = "array" then containmentsAttr enc "items" ms
      else if t = "map" then containmentsAttr enc "values" ms
      else if t = "record" then
        match strAttr "name" ms with
        | some name => containmentsFieldsAttr (fullnameOfDef name (strAttr "namespace" ms) enc) ms
        | none => []
      else []
  | _ => []

def containmentsList (enc : Option String) : List Json → List (Fullname × Fullname)
  | [] => []
  | j :: rest => containments enc j ++ containmentsList enc rest

def containmentsAttr (enc : Option String) (key : String) :
    List (String × Json) → List (Fullname × Fullname)
  | [] => []
  | (k, v) :: rest => if k = key then containments enc v else containmentsAttr enc key rest

def containmentsFieldsAttr (owner : Fullname) : List (String × Json) → List (Fullname × Fullname)
  | [] => []
  | (k, v) :: rest =>
    if k = "fields" then
      match v with
      | .arr fields => containmentsFields owner fields
      | _ => []
    else containmentsFieldsAttr owner rest

def containmentsFields (owner : Fullname) : List Json → List (Fullname × Fullname)
  | [] => []
  | .obj fm :: rest => containmentsFieldType owner fm ++ containmentsFields owner rest
  | _ :: rest => containmentsFields owner rest

def containmentsFieldType (owner : Fullname) : List (String × Json) → List (Fullname × Fullname)
  | [] => []
  | (k, v) :: rest =>
    if k = "type" then
      (match directTarget owner.1 v with
        | some y => [(owner, y)]
        | none => []) ++ containments owner.1 v
    else containmentsFieldType owner rest

end

/-- one more than the ranks of what `x` directly contains -/
def relaxRank (pairs : List (Fullname × Fullname)) (r : Fullname → Nat) (x : Fullname) : Nat :=
  pairs.foldl (fun m e => if e.1 = x then max m (r e.2 + 1) else m) 0

def iterRank (pairs : List (Fullname × Fullname)) : Nat → Fullname → Nat
  | 0 => fun _ => 0
  | n + 1 => relaxRank pairs (iterRank pairs n)

/-- candidate ranking of the named types of `j` -/
def autoRank (j : Json) : Fullname → Nat :=
  iterRank (containments none j) (containments none j).length

def noUnconditionalCycleB (j : Json) : Bool := ranked (autoRank j) none j

theorem noUnconditionalCycleB_sound {j : Json} (h : noUnconditionalCycleB j = true) :
    NoUnconditionalCycle j :=
  ⟨autoRank j, h⟩

end Avro.Spec
