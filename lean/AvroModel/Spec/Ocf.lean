import AvroModel.Spec.Decode
/-
Object container files, from the Avro specification ("Object Container Files"):

  file   = magic "Obj\x01", file metadata (a map<bytes>, any block structure),
           16-byte sync marker, then zero or more data blocks
  block  = long count of objects, long size in bytes of the serialized (codec-framed) objects,
           the objects, the 16-byte sync marker

This is the independent parser the checks use to judge what the writer produced ("logical view"
of a byte string), written from the specification, not from the Rust code.
-/
namespace Avro.Spec.Ocf
open Avro Avro.Spec

def magic : Bytes := [0x4F, 0x62, 0x6A, 0x01]

structure Block where
  count : Nat
  data : Bytes
  deriving Repr, DecidableEq, Inhabited

/-- What a prefix of a container file looks like. -/
structure View where
  metadata : List (Bytes × Bytes)
  sync : Bytes
  blocks : List Block
  /-- bytes after the last complete block (0 for a complete file) -/
  trailing : Nat
  /-- a complete block ended with a marker different from the header's -/
  badSync : Bool := false
  deriving Repr, Inhabited

/-- metadata map entries: blocks of (string key, bytes value), negative counts allowed -/
def parseMetaItems : Nat → Nat → Bytes → Option (List (Bytes × Bytes) × Bytes)
  | _, 0, bs => some ([], bs)
  | 0, _ + 1, _ => none
  | fuel + 1, c + 1, bs =>
    match decodeBytes bs with
    | none => none
    | some (k, rest) =>
      match decodeBytes rest with
      | none => none
      | some (v, rest') =>
        match parseMetaItems fuel c rest' with
        | none => none
        | some (more, rest'') => some ((k, v) :: more, rest'')

def parseMeta : Nat → Bytes → Option (List (Bytes × Bytes) × Bytes)
  | 0, _ => none
  | fuel + 1, bs =>
    match decodeBlockHeader bs with
    | none => none
    | some (0, rest) => some ([], rest)
    | some (c, rest) =>
      match parseMetaItems (fuel + c) c rest with
      | none => none
      | some (items, rest') =>
        match parseMeta fuel rest' with
        | none => none
        | some (more, rest'') => some (items ++ more, rest'')

/-- data blocks until the bytes run out -/
def parseBlocks (sync : Bytes) : Nat → Bytes → List Block × Nat × Bool
  | 0, bs => ([], bs.length, false)
  | fuel + 1, bs =>
    if bs.isEmpty then ([], 0, false) else
    match decodeLong bs with
    | none => ([], bs.length, false)
    | some (count, rest) =>
      if count < 0 then ([], bs.length, false) else
      match decodeLong rest with
      | none => ([], bs.length, false)
      | some (size, rest') =>
        if size < 0 then ([], bs.length, false) else
        let size := size.toNat
        if rest'.length < size + 16 then ([], bs.length, false)
        else
          let data := rest'.take size
          let marker := (rest'.drop size).take 16
          if marker ≠ sync then ([], bs.length, true)
          else
            let (more, trailing, bad) := parseBlocks sync fuel (rest'.drop (size + 16))
            ({ count := count.toNat, data := data } :: more, trailing, bad)

/-- `none`: not even a complete header. -/
def parse (bs : Bytes) : Option View :=
  if bs.take 4 ≠ magic then none else
  match parseMeta (bs.length + 1) (bs.drop 4) with
  | none => none
  | some (md, rest) =>
    if rest.length < 16 then none else
    let sync := rest.take 16
    let (blocks, trailing, bad) := parseBlocks sync (bs.length + 1) (rest.drop 16)
    some { metadata := md, sync := sync, blocks := blocks, trailing := trailing, badSync := bad }

end Avro.Spec.Ocf
