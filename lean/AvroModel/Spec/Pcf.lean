import AvroModel.Impl.SchemaParse
import AvroModel.Spec.Names
/-
Avro 1.11 specification, section "Transforming into Parsing Canonical Form", written from the
text as a transformation OF THE JSON DOCUMENT.  Nothing of the implementation model is used except
the *type* `Avro.Impl.Json` of JSON values (object members as an ordered list), which is the
input type of the parser model; no node graph, no name table, no parser function.

  "Assuming an input schema (in JSON form) that's already UTF-8 text for a valid Avro schema
   (including all quotes as required by JSON), the following transformations will produce its
   Parsing Canonical Form:
   * [PRIMITIVES] Convert primitive schemas to their simple form (e.g., int instead of
     {"type":"int"}).
   * [FULLNAMES] Replace short names with fullnames, using applicable namespaces to do so. Then
     eliminate namespace attributes, which are now redundant.
   * [STRINGS] / [INTEGERS] [escapes, leading zeros: not representable in `Json`, nothing to do]
   * [WHITESPACE] Eliminate all whitespace in JSON outside of string literals.
   * [STRIP] Keep only attributes that are relevant to parsing data, which are: type, name,
     fields, symbols, items, values, size. Strip all others (e.g., doc and aliases).
   * [ORDER] Order the appearance of fields of JSON objects as follows: name, type, fields,
     symbols, items, values, size. For example, if an object has type, name, and size fields,
     then the name field should appear first, followed by the type and then the size fields."

Reading of [STRIP]: of the seven attributes, an object keeps those the specification defines for
its type (`record`: name, type, fields — and in a field: name, type; `enum`: name, type, symbols;
`fixed`: name, type, size; `array`: type, items; `map`: type, values).  An attribute the
specification does not define for the type (`name` on an array, `size` on a record, ...) is
metadata ("Attributes not defined in this document are permitted as metadata") and is dropped;
an object whose type is primitive is a primitive schema, hence [PRIMITIVES] applies to it whatever
its other attributes.  This is also what the reference implementation (`SchemaNormalization`)
does.

An attribute is looked up as its first occurrence (the specification has nothing to say about
duplicate members).  A `null` where a string / number / array / schema is expected counts as an
absent attribute (`"namespace": null`).  `canon` returns `none` where the document is not a
schema in the sense of the specification (a named type without name, an array without items, a
JSON number where a schema is expected, ...).

The transformation is context-directed only (the enclosing namespace): a reference is a JSON
string that is not a primitive type name; it is rewritten to the fullname it denotes
(`Spec.fullnameOfRef`: dotted → already a fullname, undotted → in the enclosing namespace).  A
name can be defined only once in a valid schema, so every further occurrence is such a string
and stays a (fullname) string.
-/
namespace Avro.Spec.Pcf
open Avro.Impl (Json)

/-- (namespace, simple name); `none` = null namespace. -/
abbrev Fullname := Option String × String

/-- "Primitive type names": null, boolean, int, long, float, double, bytes, string. -/
def primitiveNames : List String :=
  ["null", "boolean", "int", "long", "float", "double", "bytes", "string"]

def isPrimitive (s : String) : Bool := primitiveNames.contains s

/-! ### attributes of a JSON object -/

/-- first member named `key` -/
def attr (key : String) : List (String × Json) → Option Json
  | [] => none
  | (k, v) :: rest => if k = key then some v else attr key rest

def strAttr (key : String) (ms : List (String × Json)) : Option String :=
  match attr key ms with
  | some (.str s) => some s
  | _ => none

def natAttr (key : String) (ms : List (String × Json)) : Option Nat :=
  match attr key ms with
  | some (.nat n) => some n
  | _ => none

def strings : List Json → Option (List String)
  | [] => some []
  | .str s :: rest => (strings rest).map (s :: ·)
  | _ :: _ => none

/-- the `symbols` of an enum: a JSON array of strings -/
def symbolsAttr (ms : List (String × Json)) : Option (List String) :=
  match attr "symbols" ms with
  | some (.arr items) => strings items
  | _ => none

/-! ### the transformation -/

mutual

/-- Parsing Canonical Form of the schema document `j` met in the enclosing namespace `enc`,
    as a JSON document (members already in canonical order). -/
def canon (enc : Option String) : Json → Option Json
  | .str s =>
    -- a primitive type name, or a reference to a named type: [FULLNAMES]
    if isPrimitive s then some (.str s)
    else some (.str (fullnameText (fullnameOfRef s enc)))
  | .arr branches =>
    -- a union; it does not change the enclosing namespace
    (canonList enc branches).map Json.arr
  | .obj ms =>
    match strAttr "type" ms with
    | none => none
    | some t =>
      if isPrimitive t then
        some (.str t)                                                       -- [PRIMITIVES]
      else if t = "array" then
        (canonAttr enc "items" ms).map fun c =>
          .obj [("type", .str "array"), ("items", c)]
      else if t = "map" then
        (canonAttr enc "values" ms).map fun c =>
          .obj [("type", .str "map"), ("values", c)]
      else if t = "enum" then
        match strAttr "name" ms, symbolsAttr ms with
        | some name, some syms =>
          some (.obj [("name", .str (fullnameText (fullnameOfDef name (strAttr "namespace" ms) enc))),
                      ("type", .str "enum"),
                      ("symbols", .arr (syms.map Json.str))])
        | _, _ => none
      else if t = "fixed" then
        match strAttr "name" ms, natAttr "size" ms with
        | some name, some size =>
          some (.obj [("name", .str (fullnameText (fullnameOfDef name (strAttr "namespace" ms) enc))),
                      ("type", .str "fixed"),
                      ("size", .nat size)])
        | _, _ => none
      else if t = "record" then
        match strAttr "name" ms with
        | none => none
        | some name =>
          -- the fields are in the namespace of the record: "the most tightly enclosing named
          -- schema"
          (fieldsAttr (fullnameOfDef name (strAttr "namespace" ms) enc).1 ms).map fun fs =>
            .obj [("name", .str (fullnameText (fullnameOfDef name (strAttr "namespace" ms) enc))),
                  ("type", .str "record"),
                  ("fields", .arr fs)]
      else none
  | _ => none

/-- the branches of a union -/
def canonList (enc : Option String) : List Json → Option (List Json)
  | [] => some []
  | j :: rest =>
    match canon enc j, canonList enc rest with
    | some c, some cs => some (c :: cs)
    | _, _ => none

/-- `canon` of the attribute `key` (a schema) of an object: `(attr key ms).bind (canon enc)`,
    written as a recursion on the member list -/
def canonAttr (enc : Option String) (key : String) : List (String × Json) → Option Json
  | [] => none
  | (k, v) :: rest => if k = key then canon enc v else canonAttr enc key rest

/-- the attribute `fields` of a record: a JSON array of field objects -/
def fieldsAttr (enc : Option String) : List (String × Json) → Option (List Json)
  | [] => none
  | (k, v) :: rest =>
    if k = "fields" then
      match v with
      | .arr fields => canonFields enc fields
      | _ => none
    else fieldsAttr enc rest

/-- the fields of a record: of each field object only `name` and `type` are kept -/
def canonFields (enc : Option String) : List Json → Option (List Json)
  | [] => some []
  | .obj fm :: rest =>
    match strAttr "name" fm, canonAttr enc "type" fm, canonFields enc rest with
    | some name, some c, some cs => some (.obj [("name", .str name), ("type", c)] :: cs)
    | _, _, _ => none
  | _ :: _ => none

end

/-! ### [WHITESPACE]: the text of a JSON document without any whitespace -/

mutual

def print : Json → String
  | .null => "null"
  | .bool b => if b then "true" else "false"
  | .nat n => toString n
  | .numOther => "0"
  | .str s => "\"" ++ s ++ "\""
  | .arr items => "[" ++ printList items ++ "]"
  | .obj ms => "{" ++ printMembers ms ++ "}"

/-- elements separated by commas -/
def printList : List Json → String
  | [] => ""
  | j :: rest => print j ++ printTail rest

/-- the elements after the first one, each preceded by a comma -/
def printTail : List Json → String
  | [] => ""
  | j :: rest => "," ++ print j ++ printTail rest

def printMembers : List (String × Json) → String
  | [] => ""
  | (k, v) :: rest => "\"" ++ k ++ "\":" ++ print v ++ printMembersTail rest

def printMembersTail : List (String × Json) → String
  | [] => ""
  | (k, v) :: rest => ",\"" ++ k ++ "\":" ++ print v ++ printMembersTail rest

end

/-- The Parsing Canonical Form of a schema document, as text. -/
def parsingCanonicalForm (j : Json) : Option String := (canon none j).map print

/-! ### "References to previously defined names"

The specification only allows references to *previously defined* names.  `scan` walks the
document in document order with the list of the fullnames defined so far (by `record`, `enum`
and `fixed` definitions: the named types) and fails at a reference to a name not yet defined.
A record's own name is defined before its fields (recursive schemas). -/

mutual

def scan (enc : Option String) : Json → List Fullname → Option (List Fullname)
  | .str s, defined =>
    if isPrimitive s then some defined
    else if defined.contains (fullnameOfRef s enc) then some defined
    else none
  | .arr branches, defined => scanList enc branches defined
  | .obj ms, defined =>
    match strAttr "type" ms with
    | none => some defined
    | some t =>
      if t = "array" then scanAttr enc "items" ms defined
      else if t = "map" then scanAttr enc "values" ms defined
      else if t = "enum" ∨ t = "fixed" then
        match strAttr "name" ms with
        | some name => some (fullnameOfDef name (strAttr "namespace" ms) enc :: defined)
        | none => some defined
      else if t = "record" then
        match strAttr "name" ms with
        | some name =>
          scanFieldsAttr (fullnameOfDef name (strAttr "namespace" ms) enc).1 ms
            (fullnameOfDef name (strAttr "namespace" ms) enc :: defined)
        | none => some defined
      else some defined
  | _, defined => some defined

def scanList (enc : Option String) : List Json → List Fullname → Option (List Fullname)
  | [], defined => some defined
  | j :: rest, defined =>
    match scan enc j defined with
    | some defined' => scanList enc rest defined'
    | none => none

def scanAttr (enc : Option String) (key : String) :
    List (String × Json) → List Fullname → Option (List Fullname)
  | [], defined => some defined
  | (k, v) :: rest, defined =>
    if k = key then scan enc v defined else scanAttr enc key rest defined

def scanFieldsAttr (enc : Option String) :
    List (String × Json) → List Fullname → Option (List Fullname)
  | [], defined => some defined
  | (k, v) :: rest, defined =>
    if k = "fields" then
      match v with
      | .arr fields => scanFields enc fields defined
      | _ => some defined
    else scanFieldsAttr enc rest defined

def scanFields (enc : Option String) : List Json → List Fullname → Option (List Fullname)
  | [], defined => some defined
  | .obj fm :: rest, defined =>
    match scanAttr enc "type" fm defined with
    | some defined' => scanFields enc rest defined'
    | none => none
  | _ :: rest, defined => scanFields enc rest defined

end

/-- Every reference comes after (or inside) the definition of the name it refers to. -/
def noForwardRefs (j : Json) : Bool := (scan none j []).isSome

end Avro.Spec.Pcf
