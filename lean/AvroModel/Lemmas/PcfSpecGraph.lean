import AvroModel.Lemmas.PcfSpecRaw
import AvroModel.Theorems.C07
/-
C08 (the canonical form is the specification's): second half.

`register_pcf`: registering a raw schema tree in which every reference comes after its definition
builds a node graph on which the canonical-form writer `pcf` outputs exactly the text of the
specification's transformation (`canonRaw`, i.e. `Spec.Pcf.canon` by `raw_of_json_spec`).

Invariant `Inv` between the registration state reached after a prefix of the document, the list
`D` of the fullnames defined by that prefix, and the state of the writer when it arrives there:
every name of `D` is bound in the name table to a node that the writer has already written and
that carries that name; the writer has written / entered only nodes of the prefix.
-/
namespace Avro.PcfSpec
open Avro Avro.Impl Avro.Spec Avro.Spec.Pcf

/-! ### text of the canonical objects -/

theorem print_str (s : String) : print (.str s) = "\"" ++ s ++ "\"" := by simp only [print]

theorem print_array (c : Json) :
    print (.obj [("type", .str "array"), ("items", c)]) =
      "{\"type\":\"array\",\"items\":" ++ print c ++ "}" := by
  have e : ("{\"type\":\"array\",\"items\":" : String) =
      "{" ++ "\"" ++ "type" ++ "\":" ++ "\"" ++ "array" ++ "\"" ++ ",\"" ++ "items" ++ "\":" := by
    decide
  rw [e]
  simp only [print, printMembers, printMembersTail, String.append_assoc, String.append_empty]

theorem print_map (c : Json) :
    print (.obj [("type", .str "map"), ("values", c)]) =
      "{\"type\":\"map\",\"values\":" ++ print c ++ "}" := by
  have e : ("{\"type\":\"map\",\"values\":" : String) =
      "{" ++ "\"" ++ "type" ++ "\":" ++ "\"" ++ "map" ++ "\"" ++ ",\"" ++ "values" ++ "\":" := by
    decide
  rw [e]
  simp only [print, printMembers, printMembersTail, String.append_assoc, String.append_empty]

theorem print_field (n : String) (c : Json) :
    print (.obj [("name", .str n), ("type", c)]) =
      "{\"name\":\"" ++ n ++ "\",\"type\":" ++ print c ++ "}" := by
  have e1 : ("{\"name\":\"" : String) = "{" ++ "\"" ++ "name" ++ "\":" ++ "\"" := by decide
  have e2 : ("\",\"type\":" : String) = "\"" ++ ",\"" ++ "type" ++ "\":" := by decide
  rw [e1, e2]
  simp only [print, printMembers, printMembersTail, String.append_assoc, String.append_empty]

theorem print_record (fq : String) (fs : List Json) :
    print (.obj [("name", .str fq), ("type", .str "record"), ("fields", .arr fs)]) =
      "{\"name\":\"" ++ fq ++ "\",\"type\":\"record\",\"fields\":[" ++ printList fs ++ "]}" := by
  have e1 : ("{\"name\":\"" : String) = "{" ++ "\"" ++ "name" ++ "\":" ++ "\"" := by decide
  have e2 : ("\",\"type\":\"record\",\"fields\":[" : String) =
      "\"" ++ ",\"" ++ "type" ++ "\":" ++ "\"" ++ "record" ++ "\"" ++ ",\"" ++ "fields" ++ "\":" ++ "[" := by
    decide
  have e3 : ("]}" : String) = "]" ++ "}" := by decide
  rw [e1, e2, e3]
  simp only [print, printMembers, printMembersTail, String.append_assoc, String.append_empty]

theorem printTail_strs (l : List String) :
    printTail (l.map Json.str) =
      match l with
      | [] => ""
      | _ :: _ => "," ++ joinWith "," (l.map fun s => "\"" ++ s ++ "\"") := by
  induction l with
  | nil => simp only [List.map_nil, printTail]
  | cons a l ih =>
    simp only [List.map_cons, printTail, print, ih]
    cases l with
    | nil => simp only [List.map_nil, joinWith, String.append_empty]
    | cons b l => simp only [List.map_cons, joinWith, String.append_assoc]

theorem printList_strs (l : List String) :
    printList (l.map Json.str) = joinWith "," (l.map fun s => "\"" ++ s ++ "\"") := by
  cases l with
  | nil => simp only [List.map_nil, printList, joinWith]
  | cons a l =>
    simp only [List.map_cons, printList, print, printTail_strs]
    cases l with
    | nil => simp only [List.map_nil, joinWith, String.append_empty]
    | cons b l => simp only [List.map_cons, joinWith, String.append_assoc]

theorem print_enum (fq : String) (syms : List String) :
    print (.obj [("name", .str fq), ("type", .str "enum"), ("symbols", .arr (syms.map Json.str))]) =
      "{\"name\":\"" ++ fq ++ "\",\"type\":\"enum\",\"symbols\":[" ++
        joinWith "," (syms.map fun s => "\"" ++ s ++ "\"") ++ "]}" := by
  have e1 : ("{\"name\":\"" : String) = "{" ++ "\"" ++ "name" ++ "\":" ++ "\"" := by decide
  have e2 : ("\",\"type\":\"enum\",\"symbols\":[" : String) =
      "\"" ++ ",\"" ++ "type" ++ "\":" ++ "\"" ++ "enum" ++ "\"" ++ ",\"" ++ "symbols" ++ "\":" ++ "[" := by
    decide
  have e3 : ("]}" : String) = "]" ++ "}" := by decide
  rw [e1, e2, e3, ← printList_strs]
  simp only [print, printMembers, printMembersTail, String.append_assoc, String.append_empty]

theorem print_fixed (fq : String) (size : Nat) :
    print (.obj [("name", .str fq), ("type", .str "fixed"), ("size", .nat size)]) =
      "{\"name\":\"" ++ fq ++ "\",\"type\":\"fixed\",\"size\":" ++ toString size ++ "}" := by
  have e1 : ("{\"name\":\"" : String) = "{" ++ "\"" ++ "name" ++ "\":" ++ "\"" := by decide
  have e2 : ("\",\"type\":\"fixed\",\"size\":" : String) =
      "\"" ++ ",\"" ++ "type" ++ "\":" ++ "\"" ++ "fixed" ++ "\"" ++ ",\"" ++ "size" ++ "\":" := by
    decide
  rw [e1, e2]
  simp only [print, printMembers, printMembersTail, String.append_assoc, String.append_empty]

theorem print_union (cs : List Json) : print (.arr cs) = "[" ++ printList cs ++ "]" := by
  simp only [print]

/-! ### one step of the writer, per kind of node -/

def primText : RegularType → Option String
  | .null => some "null" | .boolean => some "boolean" | .int => some "int" | .long => some "long"
  | .float => some "float" | .double => some "double" | .bytes => some "bytes"
  | .string => some "string"
  | _ => none

def nameOf : RegularType → Option Name
  | .record nm _ => some nm | .enum nm _ => some nm | .fixed nm _ => some nm
  | _ => none

theorem pcf_prim {S : SchemaMut} {pf key : Nat} {ps : PcfState} {node : RawNode} {s : String}
    (hk : S[key]? = some node) (hp : primText node.type = some s) :
    pcf S (pf + 1) key ps = .ok { ps with out := ps.out ++ "\"" ++ s ++ "\"" } := by
  simp only [pcf, hk]
  cases ht : node.type <;> rw [ht] at hp <;>
    simp only [primText, Option.some.injEq, reduceCtorEq] at hp
  all_goals subst hp; rfl

theorem pcf_named_again {S : SchemaMut} {pf key : Nat} {ps : PcfState} {node : RawNode}
    {nm : Name} (hk : S[key]? = some node) (hn : nameOf node.type = some nm)
    (hw : ps.written.contains key = true) :
    pcf S (pf + 1) key ps = .ok { ps with out := ps.out ++ "\"" ++ nm.fq ++ "\"" } := by
  simp only [pcf, hk]
  cases ht : node.type <;> rw [ht] at hn <;>
    simp only [nameOf, Option.some.injEq, reduceCtorEq] at hn
  all_goals subst hn; simp only [hw, if_true]

theorem pcf_enum_first {S : SchemaMut} {pf key : Nat} {ps : PcfState} {lg}
    {nm : Name} {syms : List String} (hk : S[key]? = some ⟨.enum nm syms, lg⟩)
    (hw : ps.written.contains key = false) :
    pcf S (pf + 1) key ps = .ok { ps with
      written := key :: ps.written,
      out := ps.out ++ ("{\"name\":\"" ++ nm.fq ++ "\",\"type\":\"enum\",\"symbols\":[" ++
        joinWith "," (syms.map fun s => "\"" ++ s ++ "\"") ++ "]}") } := by
  simp only [pcf, hk, hw, Bool.false_eq_true, if_false]

theorem pcf_fixed_first {S : SchemaMut} {pf key : Nat} {ps : PcfState} {lg}
    {nm : Name} {size : Nat} (hk : S[key]? = some ⟨.fixed nm size, lg⟩)
    (hw : ps.written.contains key = false) :
    pcf S (pf + 1) key ps = .ok { ps with
      written := key :: ps.written,
      out := ps.out ++ ("{\"name\":\"" ++ nm.fq ++ "\",\"type\":\"fixed\",\"size\":" ++
        toString size ++ "}") } := by
  simp only [pcf, hk, hw, Bool.false_eq_true, if_false]

theorem pcf_record_first {S : SchemaMut} {pf key : Nat} {ps ps2 : PcfState} {lg}
    {nm : Name} {fields : List (String × Nat)} (hk : S[key]? = some ⟨.record nm fields, lg⟩)
    (hw : ps.written.contains key = false)
    (h2 : pcfFields S pf fields true { ps with
      written := key :: ps.written,
      out := ps.out ++ ("{\"name\":\"" ++ nm.fq ++ "\",\"type\":\"record\",\"fields\":[") } = .ok ps2) :
    pcf S (pf + 1) key ps = .ok { ps2 with out := ps2.out ++ "]}" } := by
  simp only [pcf, hk, hw, Bool.false_eq_true, if_false, h2]

theorem pcf_array {S : SchemaMut} {pf key : Nat} {ps ps2 : PcfState} {lg} {items : Nat}
    (hk : S[key]? = some ⟨.array items, lg⟩) (hl : ps.onPath.lookup key = none)
    (h2 : pcf S pf items { ps with
      onPath := (key, ps.written.length + 1) :: ps.onPath.filter (·.1 ≠ key),
      out := ps.out ++ "{\"type\":\"array\",\"items\":" } = .ok ps2) :
    pcf S (pf + 1) key ps = .ok { ps2 with
      out := ps2.out ++ "}", onPath := (key, 0) :: ps2.onPath.filter (·.1 ≠ key) } := by
  simp only [pcf, hk, hl, Option.getD_none, h2]
  simp

theorem pcf_map {S : SchemaMut} {pf key : Nat} {ps ps2 : PcfState} {lg} {values : Nat}
    (hk : S[key]? = some ⟨.map values, lg⟩) (hl : ps.onPath.lookup key = none)
    (h2 : pcf S pf values { ps with
      onPath := (key, ps.written.length + 1) :: ps.onPath.filter (·.1 ≠ key),
      out := ps.out ++ "{\"type\":\"map\",\"values\":" } = .ok ps2) :
    pcf S (pf + 1) key ps = .ok { ps2 with
      out := ps2.out ++ "}", onPath := (key, 0) :: ps2.onPath.filter (·.1 ≠ key) } := by
  simp only [pcf, hk, hl, Option.getD_none, h2]
  simp

theorem pcf_union {S : SchemaMut} {pf key : Nat} {ps ps2 : PcfState} {lg} {vs : List Nat}
    (hk : S[key]? = some ⟨.union vs, lg⟩) (hl : ps.onPath.lookup key = none)
    (h2 : pcfList S pf vs true { ps with
      onPath := (key, ps.written.length + 1) :: ps.onPath.filter (·.1 ≠ key),
      out := ps.out ++ "[" } = .ok ps2) :
    pcf S (pf + 1) key ps = .ok { ps2 with
      out := ps2.out ++ "]", onPath := (key, 0) :: ps2.onPath.filter (·.1 ≠ key) } := by
  simp only [pcf, hk, hl, Option.getD_none, h2]
  simp

/-! ### the graph, the invariant -/

/-- the node graph `resolveKeys` makes of a final registration state (`resolveKeys_ok`) -/
def graphOf (stF : PState) : SchemaMut :=
  stF.nodes.map fun n => { logical := n.logical, type := resolveType (resolveKey stF) n.type }

theorem graphOf_get {stF : PState} {i : Nat} {n : PNode} (h : stF.nodes[i]? = some n) :
    (graphOf stF)[i]? =
      some { logical := n.logical, type := resolveType (resolveKey stF) n.type } := by
  simp [graphOf, h]

theorem resolveType_record (fix : PKey → Nat) (nm : Name) (fs : List (String × PKey)) :
    resolveType fix (.record nm fs) = .record nm (fs.map fun p => (p.1, fix p.2)) := by
  simp only [resolveType]

/-- node `i` is a named type whose fullname is `text` -/
def NamedAt (S : SchemaMut) (i : Nat) (text : String) : Prop :=
  ∃ node nm, S[i]? = some node ∧ nameOf node.type = some nm ∧ nm.fq = text

structure Inv (S : SchemaMut) (st : PState) (D : List Fullname) (ps : PcfState) : Prop where
  defs : ∀ fn ∈ D, ∃ i, st.names.lookup ⟨fn.1, fn.2⟩ = some i ∧ i ∈ ps.written ∧
    NamedAt S i (fullnameText fn)
  written : ∀ i ∈ ps.written, i < st.nodes.size
  onPath : ∀ p ∈ ps.onPath, p.1 < st.nodes.size

structure Res (S : SchemaMut) (st' : PState) (D' : List Fullname) (ps ps' : PcfState)
    (text : String) : Prop where
  out : ps'.out = ps.out ++ text
  inv : Inv S st' D' ps'
  mono : ∀ i ∈ ps.written, i ∈ ps'.written

/-- the final state agrees with `st'` on the nodes allocated from `lo` on -/
def Agree (stF st' : PState) (lo : Nat) : Prop :=
  ∀ i, lo ≤ i → i < st'.nodes.size → stF.nodes[i]? = st'.nodes[i]?

theorem lookup_none {l : List (Nat × Nat)} {k : Nat} (h : ∀ p ∈ l, p.1 < k) :
    l.lookup k = none := by
  induction l with
  | nil => rfl
  | cons p l ih =>
    obtain ⟨a, b⟩ := p
    have h1 : a < k := h (a, b) List.mem_cons_self
    have : (k == a) = false := by simp; omega
    rw [List.lookup_cons, this]
    exact ih fun p hp => h p (List.mem_cons_of_mem _ hp)

theorem contains_false {l : List Nat} {k : Nat} (h : ∀ i ∈ l, i < k) : l.contains k = false := by
  cases hc : l.contains k with
  | false => rfl
  | true =>
    have := h k (by simpa using hc)
    omega

theorem Inv.unnamed {S : SchemaMut} {st st' : PState} {D : List Fullname} {ps : PcfState}
    (h : Inv S st D ps)
    (hnames : ∀ k i, st.names.lookup k = some i → st'.names.lookup k = some i)
    (hsz : st.nodes.size ≤ st'.nodes.size) (idx g : Nat) (hidx : idx < st'.nodes.size)
    (o : String) (q : Nat × Nat → Bool) :
    Inv S st' D { ps with onPath := (idx, g) :: ps.onPath.filter q, out := o } := by
  refine ⟨?_, ?_, ?_⟩
  · intro fn hfn
    obtain ⟨i, h1, h2, h3⟩ := h.defs fn hfn
    exact ⟨i, hnames _ _ h1, h2, h3⟩
  · intro i hi
    have := h.written i hi
    omega
  · intro p hp
    rcases List.mem_cons.mp hp with rfl | hp
    · exact hidx
    · have := h.onPath p (List.mem_filter.mp hp).1
      omega

theorem Inv.plain {S : SchemaMut} {st st' : PState} {D : List Fullname} {ps : PcfState}
    (h : Inv S st D ps)
    (hnames : ∀ k i, st.names.lookup k = some i → st'.names.lookup k = some i)
    (hsz : st.nodes.size ≤ st'.nodes.size) (o : String) :
    Inv S st' D { ps with out := o } := by
  refine ⟨?_, ?_, ?_⟩
  · intro fn hfn
    obtain ⟨i, h1, h2, h3⟩ := h.defs fn hfn
    exact ⟨i, hnames _ _ h1, h2, h3⟩
  · intro i hi
    have := h.written i hi
    omega
  · intro p hp
    have := h.onPath p hp
    omega

theorem Inv.define {S : SchemaMut} {st st1 : PState} {D : List Fullname} {ps : PcfState}
    (h : Inv S st D ps) (fn : Fullname)
    (hfresh : st.names.lookup ⟨fn.1, fn.2⟩ = none)
    (hnames1 : st1.names = (⟨fn.1, fn.2⟩, st.nodes.size) :: st.names)
    (hsz : st.nodes.size < st1.nodes.size)
    (hnamed : NamedAt S st.nodes.size (fullnameText fn)) (o : String) :
    Inv S st1 (fn :: D) { ps with written := st.nodes.size :: ps.written, out := o } := by
  refine ⟨?_, ?_, ?_⟩
  · intro fn' hfn'
    rcases List.mem_cons.mp hfn' with rfl | hfn'
    · exact ⟨st.nodes.size, by simp [hnames1], List.mem_cons_self, hnamed⟩
    · obtain ⟨i, h1, h2, h3⟩ := h.defs fn' hfn'
      refine ⟨i, ?_, List.mem_cons_of_mem _ h2, h3⟩
      rw [hnames1, List.lookup_cons]
      have hne : (⟨fn'.1, fn'.2⟩ : NameKey) ≠ ⟨fn.1, fn.2⟩ := by
        intro e; rw [e, hfresh] at h1; cases h1
      have : ((⟨fn'.1, fn'.2⟩ : NameKey) == ⟨fn.1, fn.2⟩) = false := by simpa using hne
      simp only [this, h1]
  · intro i hi
    rcases List.mem_cons.mp hi with rfl | hi
    · exact hsz
    · have := h.written i hi
      omega
  · intro p hp
    have := h.onPath p hp
    omega

theorem defKey_eq_spec (name : String) (nsAttr enc : Option String) :
    defKey name nsAttr enc =
      ⟨(fullnameOfDef name nsAttr enc).1, (fullnameOfDef name nsAttr enc).2⟩ := by
  obtain ⟨h1, h2⟩ := Theorems.C07_defKey_is_spec name nsAttr enc
  cases hd : defKey name nsAttr enc with
  | mk a b => rw [hd] at h1 h2; simp only at h1 h2; rw [h1, h2]

theorem refKey_eq_spec (r : String) (enc : Option String) :
    refKey r enc = ⟨(fullnameOfRef r enc).1, (fullnameOfRef r enc).2⟩ := by
  obtain ⟨h1, h2⟩ := Theorems.C07_refKey_is_spec r enc
  cases hd : refKey r enc with
  | mk a b => rw [hd] at h1 h2; simp only at h1 h2; rw [h1, h2]

theorem defKey_fq (name : String) (nsAttr enc : Option String) :
    (defKey name nsAttr enc).toName.fq = fullnameText (fullnameOfDef name nsAttr enc) := by
  rw [Theorems.C07_toName_fq_spec, defKey_eq_spec]

/-! ### the four statements -/

def ClaimN (stF : PState) (f : Nat) : Prop :=
  ∀ raw enc st k st' D D' ps pf, f ≤ pf →
    registerNode f raw enc st = .ok (k, st') → scanRaw enc raw D = some D' →
    Agree stF st' st.nodes.size → Inv (graphOf stF) st D ps →
    ∃ c ps', canonRaw enc raw = some c ∧
      pcf (graphOf stF) pf (resolveKey stF k) ps = .ok ps' ∧
      Res (graphOf stF) st' D' ps ps' (print c)

def ClaimO (stF : PState) (f : Nat) : Prop :=
  ∀ t o of oi ov enc st k st' D D' ps pf, f ≤ pf →
    registerObject f t o of oi ov enc st = .ok (k, st') →
    scanParts enc t (o.bind (·.name)) (o.bind (·.nsAttr)) (fun ns D => scanRawOFields ns of D)
      (scanRawO enc oi) (scanRawO enc ov) D = some D' →
    Agree stF st' st.nodes.size → Inv (graphOf stF) st D ps →
    ∃ c ps', canonParts enc t (o.bind (·.name)) (o.bind (·.nsAttr)) (o.bind (·.symbols))
        (o.bind (·.size)) (fun ns => canonRawOFields ns of) (canonRawO enc oi)
        (canonRawO enc ov) = some c ∧
      pcf (graphOf stF) pf (resolveKey stF k) ps = .ok ps' ∧
      Res (graphOf stF) st' D' ps ps' (print c)

def ClaimL (stF : PState) (f : Nat) : Prop :=
  ∀ l enc st ks st' D D' ps pf first, f ≤ pf →
    registerList f l enc st = .ok (ks, st') → scanRawList enc l D = some D' →
    Agree stF st' st.nodes.size → Inv (graphOf stF) st D ps →
    ∃ cs ps', canonRawList enc l = some cs ∧
      pcfList (graphOf stF) pf (ks.map (resolveKey stF)) first ps = .ok ps' ∧
      Res (graphOf stF) st' D' ps ps' (if first then printList cs else printTail cs)

def ClaimF (stF : PState) (f : Nat) : Prop :=
  ∀ l ns st fs st' D D' ps pf first, f ≤ pf →
    registerFields f l ns st = .ok (fs, st') → scanRawFields ns l D = some D' →
    Agree stF st' st.nodes.size → Inv (graphOf stF) st D ps →
    ∃ cs ps', canonRawFields ns l = some cs ∧
      pcfFields (graphOf stF) pf (fs.map fun p => (p.1, resolveKey stF p.2)) first ps = .ok ps' ∧
      Res (graphOf stF) st' D' ps ps' (if first then printList cs else printTail cs)

theorem claimO_succ {stF : PState} {f : Nat} (ihN : ClaimN stF f) (ihF : ClaimF stF f) :
    ClaimO stF (f + 1) := by
  intro t o of oi ov enc st k st' D D' ps pf hpf h hscan hag hinv
  obtain ⟨pf, rfl⟩ : ∃ pf', pf = pf' + 1 := ⟨pf - 1, by omega⟩
  have hpf' : f ≤ pf := by omega
  obtain ⟨nk, st1, ty, st2, lt, hn, hb, -, hk, hst', hnode⟩ := registerObject_ok h
  subst hk
  have hle1 := nameStep_le hn
  have hle2 := bodyStep_le (register_mono f).1 (register_mono f).2.2.2 hb
  obtain ⟨hn1, -, hnames⟩ := nameStep_ok hn
  have hsz1 : st1.nodes.size = st.nodes.size + 1 := by rw [hn1]; simp
  have hsz' : st'.nodes.size = st2.nodes.size := by rw [hst']; simp
  have hsz2 := hle2.size
  have hidx : st.nodes.size < st'.nodes.size := by omega
  have hS : (graphOf stF)[st.nodes.size]? =
      some { logical := lt, type := resolveType (resolveKey stF) ty } := by
    have := hag _ (Nat.le_refl _) hidx
    rw [hnode] at this
    exact graphOf_get this
  have hnames' : st'.names = st2.names := by rw [hst']
  have hag2 : Agree stF st2 st1.nodes.size := by
    intro i h1 h2
    rw [hag i (by omega) (by omega), hst']
    simp only [Array.set!_eq_setIfInBounds]
    exact Array.getElem?_setIfInBounds_ne (by omega)
  have hlook : ps.onPath.lookup st.nodes.size = none := lookup_none hinv.onPath
  have hcont : ps.written.contains st.nodes.size = false := contains_false hinv.written
  have hle' : st.Le st' := (register_mono (f + 1)).2.1 _ _ _ _ _ _ _ _ _ h
  simp only [resolveKey]
  cases t with
  | array =>
    cases oi with
    | none => simp [bodyStep] at hb
    | some items =>
      simp only [bodyStep] at hb
      cases hr : registerNode f items enc st1 with
      | error e => rw [hr] at hb; cases hb
      | ok p =>
        obtain ⟨ki, s⟩ := p
        rw [hr] at hb
        simp only [Except.ok.injEq, Prod.mk.injEq] at hb
        obtain ⟨rfl, rfl⟩ := hb
        simp only [scanParts, scanRawO] at hscan
        have hinv1 := hinv.unnamed hle1.names hle1.size st.nodes.size (ps.written.length + 1)
          (by omega) (ps.out ++ "{\"type\":\"array\",\"items\":") (·.1 ≠ st.nodes.size)
        obtain ⟨c, ps2, hc, hp2, hres⟩ := ihN items enc st1 ki _ D D' _ pf hpf' hr hscan hag2 hinv1
        refine ⟨.obj [("type", .str "array"), ("items", c)], _,
          by simp [canonParts, canonRawO, hc], pcf_array hS hlook hp2, ?_, ?_, hres.mono⟩
        · simp only [hres.out, print_array, String.append_assoc]
        · exact hres.inv.unnamed (fun k i hk => by rw [hnames']; exact hk) (by omega) _ _ hidx _ _
  | map =>
    cases ov with
    | none => simp [bodyStep] at hb
    | some values =>
      simp only [bodyStep] at hb
      cases hr : registerNode f values enc st1 with
      | error e => rw [hr] at hb; cases hb
      | ok p =>
        obtain ⟨ki, s⟩ := p
        rw [hr] at hb
        simp only [Except.ok.injEq, Prod.mk.injEq] at hb
        obtain ⟨rfl, rfl⟩ := hb
        simp only [scanParts, scanRawO] at hscan
        have hinv1 := hinv.unnamed hle1.names hle1.size st.nodes.size (ps.written.length + 1)
          (by omega) (ps.out ++ "{\"type\":\"map\",\"values\":") (·.1 ≠ st.nodes.size)
        obtain ⟨c, ps2, hc, hp2, hres⟩ := ihN values enc st1 ki _ D D' _ pf hpf' hr hscan hag2 hinv1
        refine ⟨.obj [("type", .str "map"), ("values", c)], _,
          by simp [canonParts, canonRawO, hc], pcf_map hS hlook hp2, ?_, ?_, hres.mono⟩
        · simp only [hres.out, print_map, String.append_assoc]
        · exact hres.inv.unnamed (fun k i hk => by rw [hnames']; exact hk) (by omega) _ _ hidx _ _
  | enum =>
    rcases hnames with ⟨rfl, -, -⟩ | ⟨a, name, rfl, hname, rfl, hfresh, hnames1⟩
    · simp [bodyStep] at hb
    · simp only [bodyStep, Option.bind_some] at hb
      cases hs : a.symbols with
      | none => rw [hs] at hb; cases hb
      | some syms =>
        rw [hs] at hb
        simp only [Except.ok.injEq, Prod.mk.injEq] at hb
        obtain ⟨rfl, rfl⟩ := hb
        simp only [scanParts, Option.bind_some, hname, Option.some.injEq] at hscan
        subst hscan
        rw [defKey_eq_spec] at hfresh hnames1
        have hnamed : NamedAt (graphOf stF) st.nodes.size
            (fullnameText (fullnameOfDef name a.nsAttr enc)) :=
          ⟨_, _, hS, rfl, defKey_fq _ _ _⟩
        refine ⟨_, _, by simp only [canonParts, Option.bind_some, hname, hs]; rfl,
          pcf_enum_first hS hcont, ?_, ?_, fun i hi => List.mem_cons_of_mem _ hi⟩
        · simp only [print_enum, defKey_fq]
        · exact hinv.define _ hfresh (by rw [hnames', hnames1]) (by omega) hnamed _
  | fixed =>
    rcases hnames with ⟨rfl, -, -⟩ | ⟨a, name, rfl, hname, rfl, hfresh, hnames1⟩
    · simp [bodyStep] at hb
    · simp only [bodyStep, Option.bind_some] at hb
      cases hs : a.size with
      | none => rw [hs] at hb; cases hb
      | some size =>
        rw [hs] at hb
        simp only [Except.ok.injEq, Prod.mk.injEq] at hb
        obtain ⟨rfl, rfl⟩ := hb
        simp only [scanParts, Option.bind_some, hname, Option.some.injEq] at hscan
        subst hscan
        rw [defKey_eq_spec] at hfresh hnames1
        have hnamed : NamedAt (graphOf stF) st.nodes.size
            (fullnameText (fullnameOfDef name a.nsAttr enc)) :=
          ⟨_, _, hS, rfl, defKey_fq _ _ _⟩
        refine ⟨_, _, by simp only [canonParts, Option.bind_some, hname, hs]; rfl,
          pcf_fixed_first hS hcont, ?_, ?_, fun i hi => List.mem_cons_of_mem _ hi⟩
        · simp only [print_fixed, defKey_fq]
        · exact hinv.define _ hfresh (by rw [hnames', hnames1]) (by omega) hnamed _
  | record =>
    rcases hnames with ⟨rfl, -, -⟩ | ⟨a, name, rfl, hname, rfl, hfresh, hnames1⟩
    · simp [bodyStep] at hb
    · cases of with
      | none => simp [bodyStep] at hb
      | some fields =>
        simp only [bodyStep] at hb
        cases hr : registerFields f fields (defKey name a.nsAttr enc).ns st1 with
        | error e => rw [hr] at hb; cases hb
        | ok p =>
          obtain ⟨fs, s⟩ := p
          rw [hr] at hb
          simp only [Except.ok.injEq, Prod.mk.injEq] at hb
          obtain ⟨rfl, rfl⟩ := hb
          simp only [scanParts, Option.bind_some, hname, scanRawOFields] at hscan
          have hns : (defKey name a.nsAttr enc).ns = (fullnameOfDef name a.nsAttr enc).1 := by
            rw [defKey_eq_spec]
          rw [hns] at hr
          rw [defKey_eq_spec] at hfresh hnames1
          rw [resolveType_record] at hS
          have hnamed : NamedAt (graphOf stF) st.nodes.size
              (fullnameText (fullnameOfDef name a.nsAttr enc)) :=
            ⟨_, _, hS, rfl, defKey_fq _ _ _⟩
          have hinv1 := hinv.define _ hfresh hnames1 (by omega) hnamed
            (ps.out ++ ("{\"name\":\"" ++ (defKey name a.nsAttr enc).toName.fq ++
              "\",\"type\":\"record\",\"fields\":["))
          obtain ⟨cs, ps2, hc, hp2, hres⟩ :=
            ihF fields _ st1 fs _ _ D' _ pf true hpf' hr hscan hag2 hinv1
          refine ⟨_, _, by simp only [canonParts, Option.bind_some, hname, canonRawOFields, hc,
              Option.map_some]; rfl,
            pcf_record_first hS hcont hp2, ?_, ?_,
            fun i hi => hres.mono i (List.mem_cons_of_mem _ hi)⟩
          · simp only [hres.out, print_record, defKey_fq, if_true, String.append_assoc]
          · exact hres.inv.plain (fun k i hk => by rw [hnames']; exact hk) (by omega) _
  | null | boolean | int | long | float | double | bytes | string =>
    simp only [bodyStep, Except.ok.injEq, Prod.mk.injEq] at hb
    obtain ⟨rfl, rfl⟩ := hb
    simp only [scanParts, Option.some.injEq] at hscan
    subst hscan
    refine ⟨_, _, rfl, pcf_prim hS rfl, ?_, ?_, fun i hi => hi⟩
    · simp only [print_str, typeText, String.append_assoc]
    · exact hinv.plain hle'.names hle'.size _

theorem claimL_nil {stF : PState} {f : Nat} {enc : Option String} {st : PState}
    {ks : List PKey} {st' : PState} {D D' : List Fullname} {ps : PcfState} {pf : Nat}
    {first : Bool}
    (h : registerList f [] enc st = .ok (ks, st')) (hscan : scanRawList enc [] D = some D')
    (hinv : Inv (graphOf stF) st D ps) :
    ∃ cs ps', canonRawList enc [] = some cs ∧
      pcfList (graphOf stF) pf (ks.map (resolveKey stF)) first ps = .ok ps' ∧
      Res (graphOf stF) st' D' ps ps' (if first then printList cs else printTail cs) := by
  have h' : ks = [] ∧ st' = st := by
    cases f <;> simp [registerList] at h <;> (obtain ⟨h1, h2⟩ := h; subst h1; subst h2; exact ⟨rfl, rfl⟩)
  obtain ⟨rfl, rfl⟩ := h'
  simp only [scanRawList, Option.some.injEq] at hscan
  subst hscan
  refine ⟨[], ps, by simp only [canonRawList], by cases pf <;> simp [pcfList], ?_, hinv, fun i hi => hi⟩
  cases first <;> simp [printList, printTail]

theorem claimF_nil {stF : PState} {f : Nat} {ns : Option String} {st : PState}
    {fs : List (String × PKey)} {st' : PState} {D D' : List Fullname} {ps : PcfState} {pf : Nat}
    {first : Bool}
    (h : registerFields f [] ns st = .ok (fs, st')) (hscan : scanRawFields ns [] D = some D')
    (hinv : Inv (graphOf stF) st D ps) :
    ∃ cs ps', canonRawFields ns [] = some cs ∧
      pcfFields (graphOf stF) pf (fs.map fun p => (p.1, resolveKey stF p.2)) first ps = .ok ps' ∧
      Res (graphOf stF) st' D' ps ps' (if first then printList cs else printTail cs) := by
  have h' : fs = [] ∧ st' = st := by
    cases f <;> simp [registerFields] at h <;> (obtain ⟨h1, h2⟩ := h; subst h1; subst h2; exact ⟨rfl, rfl⟩)
  obtain ⟨rfl, rfl⟩ := h'
  simp only [scanRawFields, Option.some.injEq] at hscan
  subst hscan
  refine ⟨[], ps, by simp only [canonRawFields], by cases pf <;> simp [pcfFields], ?_, hinv, fun i hi => hi⟩
  cases first <;> simp [printList, printTail]

theorem Agree.head {stF sa st' : PState} {lo : Nat} (hag : Agree stF st' lo) (hle : sa.Le st') :
    Agree stF sa lo := by
  intro i h1 h2
  rw [hag i h1 (Nat.lt_of_lt_of_le h2 hle.size), hle.nodes i h2]

theorem Agree.tail {stF st' : PState} {lo lo' : Nat} (hag : Agree stF st' lo) (hle : lo ≤ lo') :
    Agree stF st' lo' :=
  fun i h1 h2 => hag i (Nat.le_trans hle h1) h2

theorem claimL_succ {stF : PState} {f : Nat} (ihN : ClaimN stF f) (ihL : ClaimL stF f) :
    ClaimL stF (f + 1) := by
  intro l enc st ks st' D D' ps pf first hpf h hscan hag hinv
  cases l with
  | nil => exact claimL_nil h hscan hinv
  | cons r rest =>
    obtain ⟨pf, rfl⟩ : ∃ pf', pf = pf' + 1 := ⟨pf - 1, by omega⟩
    have hpf' : f ≤ pf := by omega
    simp only [registerList] at h
    split at h
    · cases h
    · rename_i k1 sa h1
      split at h
      · cases h
      · rename_i ks2 sb h2
        simp only [Except.ok.injEq, Prod.mk.injEq] at h
        obtain ⟨rfl, rfl⟩ := h
        simp only [scanRawList] at hscan
        cases hs1 : scanRaw enc r D with
        | none => rw [hs1] at hscan; cases hscan
        | some D1 =>
          rw [hs1] at hscan
          have hle1 := (register_mono f).1 _ _ _ _ _ h1
          have hle2 := (register_mono f).2.2.1 _ _ _ _ _ h2
          have hinv0 : Inv (graphOf stF) st D
              (if first then ps else { ps with out := ps.out ++ "," }) := by
            cases first
            · exact hinv.plain (fun _ _ h => h) (Nat.le_refl _) _
            · exact hinv
          obtain ⟨c, ps1, hc, hp1, hres1⟩ :=
            ihN r enc st k1 sa D D1 _ pf hpf' h1 hs1 (hag.head hle2) hinv0
          obtain ⟨cs, ps2, hcs, hp2, hres2⟩ :=
            ihL rest enc sa ks2 sb D1 D' ps1 pf false hpf' h2 hscan (hag.tail hle1.size) hres1.inv
          refine ⟨c :: cs, ps2, by simp only [canonRawList, hc, hcs], ?_, ?_, hres2.inv, ?_⟩
          · simp only [List.map_cons, pcfList, hp1, hp2]
          · rw [hres2.out, hres1.out]
            cases first <;> simp [printList, printTail, String.append_assoc]
          · intro i hi
            apply hres2.mono
            apply hres1.mono
            cases first <;> exact hi

theorem claimF_succ {stF : PState} {f : Nat} (ihN : ClaimN stF f) (ihF : ClaimF stF f) :
    ClaimF stF (f + 1) := by
  intro l ns st fs st' D D' ps pf first hpf h hscan hag hinv
  cases l with
  | nil => exact claimF_nil h hscan hinv
  | cons x rest =>
    obtain ⟨name, r⟩ := x
    obtain ⟨pf, rfl⟩ : ∃ pf', pf = pf' + 1 := ⟨pf - 1, by omega⟩
    have hpf' : f ≤ pf := by omega
    simp only [registerFields] at h
    split at h
    · cases h
    · rename_i k1 sa h1
      split at h
      · cases h
      · rename_i fs2 sb h2
        simp only [Except.ok.injEq, Prod.mk.injEq] at h
        obtain ⟨rfl, rfl⟩ := h
        simp only [scanRawFields] at hscan
        cases hs1 : scanRaw ns r D with
        | none => rw [hs1] at hscan; cases hscan
        | some D1 =>
          rw [hs1] at hscan
          have hle1 := (register_mono f).1 _ _ _ _ _ h1
          have hle2 := ((register_mono f).2.2.2 _ _ _ _ _ h2).1
          have hinv0 : Inv (graphOf stF) st D
              { (if first then ps else { ps with out := ps.out ++ "," }) with
                out := (if first then ps else { ps with out := ps.out ++ "," }).out ++
                  "{\"name\":\"" ++ name ++ "\",\"type\":" } := by
            cases first <;> exact hinv.plain (fun _ _ h => h) (Nat.le_refl _) _
          obtain ⟨c, ps1, hc, hp1, hres1⟩ :=
            ihN r ns st k1 sa D D1 _ pf hpf' h1 hs1 (hag.head hle2) hinv0
          have hinv1 : Inv (graphOf stF) sa D1 { ps1 with out := ps1.out ++ "}" } :=
            hres1.inv.plain (fun _ _ h => h) (Nat.le_refl _) _
          obtain ⟨cs, ps2, hcs, hp2, hres2⟩ :=
            ihF rest ns sa fs2 sb D1 D' _ pf false hpf' h2 hscan (hag.tail hle1.size) hinv1
          refine ⟨.obj [("name", .str name), ("type", c)] :: cs, ps2,
            by simp only [canonRawFields, hc, hcs], ?_, ?_, hres2.inv, ?_⟩
          · simp only [List.map_cons, pcfFields, hp1, hp2]
          · rw [hres2.out]
            simp only [hres1.out]
            cases first <;>
              simp only [printList, printTail, print_field, String.append_assoc, if_true,
                if_false, Bool.false_eq_true]
          · intro i hi
            apply hres2.mono
            apply hres1.mono
            cases first <;> exact hi

theorem claimN_succ {stF : PState} {f : Nat} (ihO : ClaimO stF f) (ihL : ClaimL stF f) :
    ClaimN stF (f + 1) := by
  intro raw enc st k st' D D' ps pf hpf h hscan hag hinv
  have hpf' : f ≤ pf := by omega
  cases raw with
  | ref r =>
    obtain ⟨pf, rfl⟩ : ∃ pf', pf = pf' + 1 := ⟨pf - 1, by omega⟩
    simp only [scanRaw] at hscan
    split at hscan
    · rename_i hmem
      cases hscan
      obtain ⟨i, hl, hw, node, nm, hSi, hnm, hfq⟩ := hinv.defs _ (by simpa using hmem)
      simp only [registerNode, refKey_eq_spec, hl, Except.ok.injEq, Prod.mk.injEq] at h
      obtain ⟨rfl, rfl⟩ := h
      simp only [resolveKey]
      refine ⟨.str (fullnameText (fullnameOfRef r enc)), _, by simp only [canonRaw],
        pcf_named_again hSi hnm (by simpa using hw), ?_, ?_, fun i hi => hi⟩
      · simp only [print_str, hfq, String.append_assoc]
      · exact hinv.plain (fun _ _ h => h) (Nat.le_refl _) _
    · cases hscan
  | type t =>
    simp only [registerNode] at h
    cases f with
    | zero => simp [registerObject] at h
    | succ f' =>
      cases t
      case array => rw [Theorems.C07_rejects_no_object f' .array (by simp) enc st] at h; cases h
      case map => rw [Theorems.C07_rejects_no_object f' .map (by simp) enc st] at h; cases h
      case record => rw [Theorems.C07_rejects_no_object f' .record (by simp) enc st] at h; cases h
      case enum => rw [Theorems.C07_rejects_no_object f' .enum (by simp) enc st] at h; cases h
      case fixed => rw [Theorems.C07_rejects_no_object f' .fixed (by simp) enc st] at h; cases h
      all_goals
        obtain ⟨c, ps', hc, hp, hr⟩ := ihO _ none none none none enc st k st' D D' ps pf hpf' h
          (by simpa [scanRaw, typeText, isPrimitive, primitiveNames, scanParts] using hscan) hag hinv
        refine ⟨c, ps', ?_, hp, hr⟩
        simpa [canonRaw, canonParts, typeText, isPrimitive, primitiveNames] using hc
  | object a fields items values =>
    simp only [registerNode] at h
    simp only [scanRaw] at hscan
    obtain ⟨c, ps', hc, hp, hr⟩ :=
      ihO a.type (some a) fields items values enc st k st' D D' ps pf hpf' h hscan hag hinv
    refine ⟨c, ps', ?_, hp, hr⟩
    simp only [canonRaw]
    exact hc
  | union bs =>
    obtain ⟨pf, rfl⟩ : ∃ pf', pf = pf' + 1 := ⟨pf - 1, by omega⟩
    have hpf'' : f ≤ pf := by omega
    simp only [registerNode] at h
    split at h
    · cases h
    · rename_i keys st2 hl
      simp only [Except.ok.injEq, Prod.mk.injEq] at h
      obtain ⟨rfl, rfl⟩ := h
      simp only [scanRaw] at hscan
      have hle2 := (register_mono f).2.2.1 _ _ _ _ _ hl
      have hsz2 : st.nodes.size + 1 ≤ st2.nodes.size := by
        have := hle2.size; simpa using this
      have hidx : st.nodes.size < st2.nodes.size := by omega
      have hS : (graphOf stF)[st.nodes.size]? =
          some { logical := none, type := .union (keys.map (resolveKey stF)) } := by
        have := hag _ (Nat.le_refl _) (by simpa using hidx)
        simp only [Array.set!_eq_setIfInBounds, Array.getElem?_setIfInBounds_self_of_lt hidx] at this
        exact graphOf_get this
      have hag2 : Agree stF st2 (st.nodes.size + 1) := by
        intro i h1 h2
        rw [hag i (by omega) (by simpa using h2)]
        simp only [Array.set!_eq_setIfInBounds]
        exact Array.getElem?_setIfInBounds_ne (by omega)
      have hinv1 := hinv.unnamed
        (st' := { st with nodes := st.nodes.push { type := .null, logical := none } })
        (fun _ _ h => h) (by simp) st.nodes.size (ps.written.length + 1) (by simp)
        (ps.out ++ "[") (·.1 ≠ st.nodes.size)
      obtain ⟨cs, ps2, hcs, hp2, hres⟩ :=
        ihL bs enc _ keys st2 D D' _ pf true hpf'' hl hscan (by simpa using hag2) hinv1
      simp only [resolveKey]
      refine ⟨.arr cs, _, by simp only [canonRaw, hcs, Option.map_some],
        pcf_union hS (lookup_none hinv.onPath) hp2, ?_, ?_, hres.mono⟩
      · simp only [hres.out, print_union, if_true, String.append_assoc]
      · refine Inv.unnamed hres.inv ?_ ?_ _ _ ?_ _ _
        · exact fun _ _ h => h
        · simp
        · simpa using hidx

/-- Registration of a document without forward references, then the writer on the final graph:
    the text of the specification's transformation. -/
theorem register_pcf (stF : PState) :
    ∀ f, ClaimN stF f ∧ ClaimO stF f ∧ ClaimL stF f ∧ ClaimF stF f := by
  intro f
  induction f with
  | zero =>
    refine ⟨?_, ?_, ?_, ?_⟩
    · intro raw enc st k st' D D' ps pf hpf h; simp [registerNode] at h
    · intro t o of oi ov enc st k st' D D' ps pf hpf h; simp [registerObject] at h
    · intro l enc st ks st' D D' ps pf first hpf h hscan hag hinv
      cases l with
      | nil => exact claimL_nil h hscan hinv
      | cons r rest => simp [registerList] at h
    · intro l ns st fs st' D D' ps pf first hpf h hscan hag hinv
      cases l with
      | nil => exact claimF_nil h hscan hinv
      | cons r rest => simp [registerFields] at h
  | succ f ih =>
    obtain ⟨ihN, ihO, ihL, ihF⟩ := ih
    exact ⟨claimN_succ ihO ihL, claimO_succ ihN ihF, claimL_succ ihN ihL, claimF_succ ihN ihF⟩

/-- the key returned for anything but a reference is the next node index -/
theorem registerNode_key {f : Nat} {raw : RawSchema} {enc : Option String} {st : PState}
    {k : PKey} {st' : PState} (h : registerNode f raw enc st = .ok (k, st')) :
    (∃ r, raw = .ref r) ∨ k = .idx st.nodes.size := by
  cases f with
  | zero => simp [registerNode] at h
  | succ f =>
    cases raw with
    | ref r => exact Or.inl ⟨r, rfl⟩
    | type t =>
      simp only [registerNode] at h
      cases f with
      | zero => simp [registerObject] at h
      | succ f => obtain ⟨_, _, _, _, _, _, _, _, hk, _⟩ := registerObject_ok h; exact Or.inr hk
    | object a fields items values =>
      simp only [registerNode] at h
      cases f with
      | zero => simp [registerObject] at h
      | succ f => obtain ⟨_, _, _, _, _, _, _, _, hk, _⟩ := registerObject_ok h; exact Or.inr hk
    | union bs =>
      simp only [registerNode] at h
      split at h
      · cases h
      · simp only [Except.ok.injEq, Prod.mk.injEq] at h
        exact Or.inr h.1.symm

end Avro.PcfSpec
