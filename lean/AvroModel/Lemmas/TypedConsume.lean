import AvroModel.Lemmas.SkipLayouts
/-
C12 / C03 / C01, typed targets: whenever a read driven by a typed target (`Hint`) succeeds on an
input that `decodeX Limits.impl` accepts, it has consumed exactly the datum.

The proof is a soundness-style induction on the model fuel of `de` (as `sndAll` in
`DeLayouts.lean`), with the postcondition "every run of `decodeX` on the same input leaves the same
remainder" (`CQ`).  No hypothesis on depth, sequence size or fuel is needed: only successful runs
are looked at.  The block reader is treated once, for both the reading and the ignoring mode
(`inv_readBlockLen_gen`), over abstract "items"/"blocks" relations so that arrays and maps share it.

Before the fix of `ArraySeqAccess` (a tuple target offered an array left the end marker unread)
the claim was false for tuple hints that meet an array node, and the induction is parametrised by
a family `ok : Hint → Node → Prop` closed under the sub-requests of the deserializer (`OkClosed`)
that had to avoid that pair.  With `ArraySeqAccess::visit` (`deSeqLoop`, branch `maxItems = some 0`:
one more `has_more`, then error or end marker consumed) the pair is no exception any more: the
field `no_tuple_array` of `OkClosed` is gone, the loop invariant `TC.seq` holds for every
`maxItems`, and the family of ALL pairs is closed (`allOk_closed`).  The families `tupleFree` and
`okTop` are kept (their theorems are now corollaries).
-/
namespace Avro.Impl
open Avro Avro.Spec

/-! ### 1. Runs of `decodeX Limits.impl`, with the fuel hidden -/

def DecX (S : Schema) (n : Node) (bs rest : Bytes) : Prop :=
  ∃ fX v, decodeX Limits.impl S fX n bs = some (v, rest)
def ItmX (S : Schema) (item : Node) (c : Nat) (bs r1 : Bytes) : Prop :=
  ∃ fX vs, decodeItemsX Limits.impl S fX item c bs = some (vs, r1)
def BlkX (S : Schema) (item : Node) (bs rest : Bytes) : Prop :=
  ∃ fX vs, decodeBlocksX Limits.impl S fX item bs = some (vs, rest)
def MItmX (S : Schema) (item : Node) (c : Nat) (bs r1 : Bytes) : Prop :=
  ∃ fX vs, decodeMapItemsX Limits.impl S fX item c bs = some (vs, r1)
def MBlkX (S : Schema) (item : Node) (bs rest : Bytes) : Prop :=
  ∃ fX vs, decodeMapBlocksX Limits.impl S fX item bs = some (vs, rest)
def FldX (S : Schema) (ks : List Nat) (bs rest : Bytes) : Prop :=
  ∃ fX vs, decodeFieldsX Limits.impl S fX ks bs = some (vs, rest)

/-- the postcondition: whatever `decodeX` leaves, the read left -/
def CQ (S : Schema) (n : Node) (bs : Bytes) : Out → Bytes → Prop :=
  fun _ r => ∀ rest, DecX S n bs rest → r = rest

variable (S : Schema)

theorem cq_of_decodeL {n : Node} {bs r : Bytes}
    (h : ∃ v fS, decodeL Limits.impl S fS n bs = some (v, r)) :
    ∀ rest, DecX S n bs rest → r = rest := by
  rintro rest ⟨fX, v', hx⟩
  obtain ⟨v, fS, hv⟩ := h
  have h1 := decodeX_sub _ S fX n bs _ hx
  have e1 := decodeL_mono (Limits.le_refl _) S (Nat.le_max_left fX fS) h1
  have e2 := decodeL_mono (Limits.le_refl _) S (Nat.le_max_right fX fS) hv
  rw [e1] at e2
  simp only [Option.some.injEq, Prod.mk.injEq] at e2
  exact e2.2.symm

theorem ItmX_zero {item : Node} {bs r1 : Bytes} (h : ItmX S item 0 bs r1) : r1 = bs := by
  obtain ⟨fX, vs, h⟩ := h
  cases fX <;> simp only [decodeItemsX, Option.some.injEq, Prod.mk.injEq] at h <;> exact h.2.symm

theorem ItmX_succ {item : Node} {c : Nat} {bs r1 : Bytes} (h : ItmX S item (c + 1) bs r1) :
    ∃ ra, DecX S item bs ra ∧ ItmX S item c ra r1 := by
  obtain ⟨fX, vs, h⟩ := h
  cases fX with
  | zero => simp [decodeItemsX] at h
  | succ f =>
    simp only [decodeItemsX] at h
    split at h
    · cases h
    · rename_i v ra hd
      split at h
      · cases h
      · rename_i vs' r' hi
        simp only [Option.some.injEq, Prod.mk.injEq] at h
        obtain ⟨_, rfl⟩ := h
        exact ⟨ra, ⟨f, v, hd⟩, ⟨f, vs', hi⟩⟩

theorem MItmX_zero {item : Node} {bs r1 : Bytes} (h : MItmX S item 0 bs r1) : r1 = bs := by
  obtain ⟨fX, vs, h⟩ := h
  cases fX <;> simp only [decodeMapItemsX, Option.some.injEq, Prod.mk.injEq] at h <;> exact h.2.symm

theorem MItmX_succ {item : Node} {c : Nat} {bs r1 : Bytes} (h : MItmX S item (c + 1) bs r1) :
    ∃ k ra rb, decodeStringL Limits.impl bs = some (k, ra) ∧ DecX S item ra rb ∧
      MItmX S item c rb r1 := by
  obtain ⟨fX, vs, h⟩ := h
  cases fX with
  | zero => simp [decodeMapItemsX] at h
  | succ f =>
    simp only [decodeMapItemsX] at h
    split at h
    · cases h
    · rename_i k ra hs
      split at h
      · cases h
      · rename_i v rb hd
        split at h
        · cases h
        · rename_i vs' r' hi
          simp only [Option.some.injEq, Prod.mk.injEq] at h
          obtain ⟨_, rfl⟩ := h
          exact ⟨k, ra, rb, hs, ⟨f, v, hd⟩, ⟨f, vs', hi⟩⟩

/-- what a run of a block decoder says, abstractly (shared by arrays and maps) -/
def BlockUnfold (Itm : Nat → Bytes → Bytes → Prop) (Blk : Bytes → Bytes → Prop) : Prop :=
  ∀ bs rest, Blk bs rest → ∃ c sz r0, decodeBlockHeaderX Limits.impl bs = some (c, sz, r0) ∧
    ((c = 0 ∧ rest = r0) ∨
     (0 < c ∧ ∃ r1, Itm c r0 r1 ∧ sizeOk sz r0 r1 = true ∧ (∃ mid, r0 = mid ++ r1) ∧ Blk r1 rest))

theorem BlkX_unfold (item : Node) : BlockUnfold (ItmX S item) (BlkX S item) := by
  rintro bs rest ⟨fX, vs, h⟩
  cases fX with
  | zero => simp [decodeBlocksX] at h
  | succ f =>
    simp only [decodeBlocksX] at h
    split at h
    · cases h
    · rename_i sz r0 hh
      simp only [Option.some.injEq, Prod.mk.injEq] at h
      exact ⟨0, sz, r0, hh, Or.inl ⟨rfl, h.2.symm⟩⟩
    · rename_i c sz r0 hc hh
      split at h
      · cases h
      · rename_i vs1 r1 hi
        split at h
        · rename_i hsz
          split at h
          · cases h
          · rename_i more r2 hb
            simp only [Option.some.injEq, Prod.mk.injEq] at h
            obtain ⟨_, rfl⟩ := h
            have hcpos : 0 < c := by
              rcases Nat.eq_zero_or_pos c with h0 | h0
              · exact absurd h0 (by intro h0; exact hc h0)
              · exact h0
            exact ⟨c, sz, r0, hh, Or.inr ⟨hcpos, r1, ⟨f, vs1, hi⟩, hsz,
              decodeItemsX_suffix S item f c r0 vs1 r1 hi, ⟨f, more, hb⟩⟩⟩
        · cases h

theorem MBlkX_unfold (item : Node) : BlockUnfold (MItmX S item) (MBlkX S item) := by
  rintro bs rest ⟨fX, vs, h⟩
  cases fX with
  | zero => simp [decodeMapBlocksX] at h
  | succ f =>
    simp only [decodeMapBlocksX] at h
    split at h
    · cases h
    · rename_i sz r0 hh
      simp only [Option.some.injEq, Prod.mk.injEq] at h
      exact ⟨0, sz, r0, hh, Or.inl ⟨rfl, h.2.symm⟩⟩
    · rename_i c sz r0 hc hh
      split at h
      · cases h
      · rename_i vs1 r1 hi
        split at h
        · rename_i hsz
          split at h
          · cases h
          · rename_i more r2 hb
            simp only [Option.some.injEq, Prod.mk.injEq] at h
            obtain ⟨_, rfl⟩ := h
            have hcpos : 0 < c := by
              rcases Nat.eq_zero_or_pos c with h0 | h0
              · exact absurd h0 (by intro h0; exact hc h0)
              · exact h0
            exact ⟨c, sz, r0, hh, Or.inr ⟨hcpos, r1, ⟨f, vs1, hi⟩, hsz,
              decodeMapItemsX_suffix S item f c r0 vs1 r1 hi, ⟨f, more, hb⟩⟩⟩
        · cases h

theorem FldX_nil {bs rest : Bytes} (h : FldX S [] bs rest) : rest = bs := by
  obtain ⟨fX, vs, h⟩ := h
  cases fX <;> simp only [decodeFieldsX, Option.some.injEq, Prod.mk.injEq] at h <;> exact h.2.symm

theorem FldX_cons {k : Nat} {ks : List Nat} {bs rest : Bytes} (h : FldX S (k :: ks) bs rest) :
    ∃ n ra, S[k]? = some n ∧ DecX S n bs ra ∧ FldX S ks ra rest := by
  obtain ⟨fX, vs, h⟩ := h
  cases fX with
  | zero => simp [decodeFieldsX] at h
  | succ f =>
    simp only [decodeFieldsX, nodeOf] at h
    split at h
    · cases h
    · rename_i n hn
      split at h
      · cases h
      · rename_i v ra hd
        split at h
        · cases h
        · rename_i vs' r' hf
          simp only [Option.some.injEq, Prod.mk.injEq] at h
          obtain ⟨_, rfl⟩ := h
          exact ⟨n, ra, hn, ⟨f, v, hd⟩, ⟨f, vs', hf⟩⟩

/-! ### 2. More read primitives -/

theorem inv_varint_u32 (bs : Bytes) :
    Inv (readVarint .u32) bs (fun _ rest => ∃ i, decodeLongL Limits.impl bs = some (i, rest)) := by
  refine (inv_readVarint .u32 bs).mono ?_
  rintro x rest ⟨k, hk, hr⟩
  simp only [decodeVar, Option.map_eq_some_iff] at hk
  obtain ⟨⟨n, k'⟩, hu, hk⟩ := hk
  simp only [Prod.mk.injEq] at hk
  obtain ⟨_, rfl⟩ := hk
  unfold decodeVarU32 at hu
  split at hu
  · cases hu
  · rename_i n' s' heq
    split at hu
    · simp only [Option.some.injEq, Prod.mk.injEq] at hu
      obtain ⟨rfl, rfl⟩ := hu
      refine ⟨(unzigzagBV (BitVec.ofNat 64 n')).toInt, (decodeLongL_impl_iff bs _ rest).2 ⟨s', ?_, hr⟩⟩
      rw [decodeVarI64, heq]
    · cases hu

theorem inv_skipBytes (n : Nat) (bs : Bytes) :
    Inv (skipBytes n) bs (fun _ rest => n ≤ bs.length ∧ rest = bs.drop n) := by
  intro s hs a s' hrun
  obtain ⟨isS, rest, av, sched, lc, ma, scr, lim⟩ := s
  obtain ⟨h1, h2⟩ := hs
  simp only at h1 h2
  subst h1 h2
  by_cases hn : n ≤ bs.length
  · simp only [skipBytes, RState.mk', if_true, hn, Prod.mk.injEq] at hrun
    obtain ⟨_, rfl⟩ := hrun
    exact ⟨_, rfl, hn, rfl⟩
  · simp [skipBytes, RState.mk', hn] at hrun

/-! ### 3. The block reader, reading or ignoring -/

section blocks
variable {Itm : Nat → Bytes → Bytes → Prop} {Blk : Bytes → Bytes → Prop}

theorem inv_readBlockLen_gen (hunf : BlockUnfold Itm Blk) (ign : Bool) : ∀ (f : Nat) (bs : Bytes),
    Inv (readBlockLen ign f) bs (fun res r => ∀ rest, Blk bs rest →
      (res = none → r = rest) ∧
      (∀ l, res = some l → 0 < l ∧ ∃ r1, Itm l r r1 ∧ Blk r1 rest)) := by
  intro f
  induction f with
  | zero => intro bs; rw [readBlockLen]; exact Inv.fail _ _ _
  | succ f ih =>
    intro bs
    rw [readBlockLen]
    refine Inv.bind (inv_varint_i64 bs) ?_
    intro len r hd
    split
    · rename_i hneg
      cases ign with
      | true =>
        simp only [if_true]
        refine Inv.bind (inv_varint_i64 r) ?_
        intro sz r' hsz
        split
        · exact Inv.fail _ _ _
        · rename_i hsz0
          refine Inv.bind (inv_skipBytes sz.toNat r') ?_
          rintro _ r'' ⟨hle, rfl⟩
          refine (ih _).mono ?_
          intro res rr hpost rest hblk
          obtain ⟨c, szo, r0, hh, hcase⟩ := hunf bs rest hblk
          obtain ⟨cnt, rx, hd', hc⟩ := decodeBlockHeaderX_inv hh
          rw [hd] at hd'
          simp only [Option.some.injEq, Prod.mk.injEq] at hd'
          obtain ⟨rfl, rfl⟩ := hd'
          rcases hc with ⟨h0, _⟩ | ⟨_, hceq, size, hd2, hs0, hszo⟩
          · omega
          · rw [hsz] at hd2
            simp only [Option.some.injEq, Prod.mk.injEq] at hd2
            obtain ⟨rfl, rfl⟩ := hd2
            rcases hcase with ⟨hc0, _⟩ | ⟨_, r1, _, hok, ⟨mid, hmid⟩, hb⟩
            · omega
            · subst hszo
              simp only [sizeOk, beq_iff_eq] at hok
              have hml : mid.length = sz.toNat := by
                have := congrArg List.length hmid
                simp only [List.length_append] at this
                omega
              have : List.drop sz.toNat r' = r1 := by
                rw [hmid, ← hml, List.drop_left]
              rw [this] at hpost
              exact hpost rest hb
      | false =>
        simp only [Bool.false_eq_true, if_false]
        refine Inv.bind (inv_varint_i64 r) ?_
        intro sz r' hsz
        split
        · exact Inv.fail _ _ _
        · rename_i hsz0
          refine Inv.pure ?_
          intro rest hblk
          obtain ⟨c, szo, r0, hh, hcase⟩ := hunf bs rest hblk
          obtain ⟨cnt, rx, hd', hc⟩ := decodeBlockHeaderX_inv hh
          rw [hd] at hd'
          simp only [Option.some.injEq, Prod.mk.injEq] at hd'
          obtain ⟨rfl, rfl⟩ := hd'
          rcases hc with ⟨h0, _⟩ | ⟨_, hceq, size, hd2, hs0, hszo⟩
          · omega
          · rw [hsz] at hd2
            simp only [Option.some.injEq, Prod.mk.injEq] at hd2
            obtain ⟨rfl, rfl⟩ := hd2
            have hne : ¬ ((-len).toNat = 0) := by omega
            simp only [hne, if_false]
            rcases hcase with ⟨hc0, _⟩ | ⟨hcp, r1, hi, _, _, hb⟩
            · omega
            · subst hceq
              refine ⟨fun h => (by cases h), ?_⟩
              intro l hl
              simp only [Option.some.injEq] at hl
              subst hl
              exact ⟨hcp, r1, hi, hb⟩
    · rename_i hneg
      refine Inv.pure ?_
      intro rest hblk
      obtain ⟨c, szo, r0, hh, hcase⟩ := hunf bs rest hblk
      obtain ⟨cnt, rx, hd', hc⟩ := decodeBlockHeaderX_inv hh
      rw [hd] at hd'
      simp only [Option.some.injEq, Prod.mk.injEq] at hd'
      obtain ⟨rfl, rfl⟩ := hd'
      rcases hc with ⟨h0, hceq, _, hr0⟩ | ⟨h0, _⟩
      · subst hr0
        by_cases hz : len = 0
        · subst hz
          simp only [if_true]
          rcases hcase with ⟨_, hrest⟩ | ⟨hcp, _⟩
          · exact ⟨fun _ => hrest.symm, fun l hl => by cases hl⟩
          · simp at hceq; omega
        · simp only [hz, if_false]
          rcases hcase with ⟨hc0, _⟩ | ⟨hcp, r1, hi, _, _, hb⟩
          · omega
          · subst hceq
            refine ⟨fun h => (by cases h), ?_⟩
            intro l hl
            simp only [Option.some.injEq] at hl
            subst hl
            exact ⟨hcp, r1, hi, hb⟩
      · omega

/-- `BlockReader::has_more` in either mode, against any run of the block decoder -/
theorem inv_hasMore_gen (hunf : BlockUnfold Itm Blk) (hz : ∀ bs r1, Itm 0 bs r1 → r1 = bs)
    (cfg : DeConfig) (ign : Bool) (bst : BlockState) (bs : Bytes) :
    Inv (hasMore cfg ign bst) bs (fun p r => ∀ r1 rest, Itm bst.current bs r1 → Blk r1 rest →
      (p.1 = false → r = rest) ∧
      (p.1 = true → ∃ r1', Itm (p.2.current + 1) r r1' ∧ Blk r1' rest)) := by
  obtain ⟨c, nr⟩ := bst
  cases c with
  | succ c =>
    refine (inv_hasMore_succ cfg ign c nr bs).mono ?_
    rintro p r ⟨rfl, rfl⟩ r1 rest hi hb
    exact ⟨fun h => (by cases h), fun _ => ⟨r1, hi, hb⟩⟩
  | zero =>
    intro s hs p s' hrun
    simp only [hasMore] at hrun
    cases hb : readBlockLen ign ((s.mk' bs none).rest.length + 2) (s.mk' bs none) with
    | mk res s1 =>
      rw [hb] at hrun
      cases res with
      | error e => simp at hrun
      | ok res =>
        obtain ⟨r, rfl, hpost⟩ := inv_readBlockLen_gen hunf ign _ bs s hs res s1 hb
        cases res with
        | none =>
          simp only [Prod.mk.injEq, Except.ok.injEq] at hrun
          obtain ⟨rfl, rfl⟩ := hrun
          refine ⟨r, rfl, ?_⟩
          intro r1 rest hi hblk
          have := hz _ _ hi
          subst this
          exact ⟨fun _ => (hpost rest hblk).1 rfl, fun h => by cases h⟩
        | some l =>
          simp only at hrun
          split at hrun
          · simp at hrun
          · simp only [Prod.mk.injEq, Except.ok.injEq] at hrun
            obtain ⟨rfl, rfl⟩ := hrun
            refine ⟨r, rfl, ?_⟩
            intro r1 rest hi hblk
            have := hz _ _ hi
            subst this
            obtain ⟨hl, r1', hi', hb'⟩ := (hpost rest hblk).2 l rfl
            refine ⟨fun h => (by cases h), fun _ => ⟨r1', ?_, hb'⟩⟩
            have : l - 1 + 1 = l := by omega
            simp only [this]
            exact hi'

end blocks


/-! ### 4. What a run of `decodeX` says, node by node -/

theorem DecX_null {bs rest : Bytes} (h : DecX S .null bs rest) : rest = bs := by
  obtain ⟨fX, v, h⟩ := h
  cases fX with
  | zero => simp [decodeX] at h
  | succ f =>
    simp only [decodeX, Option.some.injEq, Prod.mk.injEq] at h
    exact h.2.symm

theorem DecX_int {bs rest : Bytes} (h : DecX S .int bs rest) :
    ∃ i, decodeLongL Limits.impl bs = some (i, rest) := by
  obtain ⟨fX, v, h⟩ := h
  cases fX with
  | zero => simp [decodeX] at h
  | succ f =>
    simp only [decodeX] at h
    split at h
    · rename_i i r hd
      split at h
      · simp only [Option.some.injEq, Prod.mk.injEq] at h
        exact ⟨i, by rw [hd, h.2]⟩
      · cases h
    · cases h

theorem DecX_long {bs rest : Bytes} (h : DecX S .long bs rest) :
    ∃ i, decodeLongL Limits.impl bs = some (i, rest) := by
  obtain ⟨fX, v, h⟩ := h
  cases fX with
  | zero => simp [decodeX] at h
  | succ f =>
    simp only [decodeX] at h
    split at h
    · rename_i i r hd
      simp only [Option.some.injEq, Prod.mk.injEq] at h
      exact ⟨i, by rw [hd, h.2]⟩
    · cases h

theorem DecX_enum {nm : Name} {syms : List String} {bs rest : Bytes}
    (h : DecX S (.enum nm syms) bs rest) : ∃ i, decodeLenL Limits.impl bs = some (i, rest) := by
  obtain ⟨fX, v, h⟩ := h
  cases fX with
  | zero => simp [decodeX] at h
  | succ f =>
    simp only [decodeX] at h
    split at h
    · rename_i i r hd
      split at h
      · simp only [Option.some.injEq, Prod.mk.injEq] at h
        exact ⟨i, by rw [hd, h.2]⟩
      · cases h
    · cases h

theorem DecX_double {bs rest : Bytes} (h : DecX S .double bs rest) :
    ∃ b, takeN 8 bs = some (b, rest) := by
  obtain ⟨fX, v, h⟩ := h
  cases fX with
  | zero => simp [decodeX] at h
  | succ f =>
    simp only [decodeX, Option.map_eq_some_iff] at h
    obtain ⟨⟨b, r⟩, hb, h⟩ := h
    simp only [Prod.mk.injEq] at h
    exact ⟨b, by rw [hb, h.2]⟩

theorem DecX_bytes {bs rest : Bytes} (h : DecX S .bytes bs rest) :
    ∃ b, decodeBytesL Limits.impl bs = some (b, rest) := by
  obtain ⟨fX, v, h⟩ := h
  cases fX with
  | zero => simp [decodeX] at h
  | succ f =>
    simp only [decodeX, Option.map_eq_some_iff] at h
    obtain ⟨⟨b, r⟩, hb, h⟩ := h
    simp only [Prod.mk.injEq] at h
    exact ⟨b, by rw [hb, h.2]⟩

theorem DecX_string {bs rest : Bytes} (h : DecX S .string bs rest) :
    ∃ b, decodeStringL Limits.impl bs = some (b, rest) := by
  obtain ⟨fX, v, h⟩ := h
  cases fX with
  | zero => simp [decodeX] at h
  | succ f =>
    simp only [decodeX, Option.map_eq_some_iff] at h
    obtain ⟨⟨b, r⟩, hb, h⟩ := h
    simp only [Prod.mk.injEq] at h
    exact ⟨b, by rw [hb, h.2]⟩

theorem DecX_fixed {nm : Name} {size : Nat} {bs rest : Bytes} (h : DecX S (.fixed nm size) bs rest) :
    ∃ b, takeN size bs = some (b, rest) := by
  obtain ⟨fX, v, h⟩ := h
  cases fX with
  | zero => simp [decodeX] at h
  | succ f =>
    simp only [decodeX, Option.map_eq_some_iff] at h
    obtain ⟨⟨b, r⟩, hb, h⟩ := h
    simp only [Prod.mk.injEq] at h
    exact ⟨b, by rw [hb, h.2]⟩

theorem DecX_duration {bs rest : Bytes} (h : DecX S .duration bs rest) :
    ∃ b, takeN 12 bs = some (b, rest) := by
  obtain ⟨fX, v, h⟩ := h
  cases fX with
  | zero => simp [decodeX] at h
  | succ f =>
    simp only [decodeX, Option.map_eq_some_iff] at h
    obtain ⟨⟨b, r⟩, hb, h⟩ := h
    simp only [Prod.mk.injEq] at h
    exact ⟨b, by rw [hb, h.2]⟩

theorem DecX_array {k : Nat} {item : Node} {bs rest : Bytes} (h : DecX S (.array k) bs rest)
    (hitem : S[k]? = some item) : BlkX S item bs rest := by
  obtain ⟨fX, v, h⟩ := h
  cases fX with
  | zero => simp [decodeX] at h
  | succ f =>
    simp only [decodeX, nodeOf, hitem, Option.map_eq_some_iff] at h
    obtain ⟨⟨vs, r⟩, hb, h⟩ := h
    simp only [Prod.mk.injEq] at h
    exact ⟨f, vs, by rw [hb, h.2]⟩

theorem DecX_map {k : Nat} {item : Node} {bs rest : Bytes} (h : DecX S (.map k) bs rest)
    (hitem : S[k]? = some item) : MBlkX S item bs rest := by
  obtain ⟨fX, v, h⟩ := h
  cases fX with
  | zero => simp [decodeX] at h
  | succ f =>
    simp only [decodeX, nodeOf, hitem, Option.map_eq_some_iff] at h
    obtain ⟨⟨vs, r⟩, hb, h⟩ := h
    simp only [Prod.mk.injEq] at h
    exact ⟨f, vs, by rw [hb, h.2]⟩

theorem DecX_record {nm : Name} {fields : List (String × Nat)} {bs rest : Bytes}
    (h : DecX S (.record nm fields) bs rest) : FldX S (fields.map (·.2)) bs rest := by
  obtain ⟨fX, v, h⟩ := h
  cases fX with
  | zero => simp [decodeX] at h
  | succ f =>
    simp only [decodeX, Option.map_eq_some_iff] at h
    obtain ⟨⟨vs, r⟩, hb, h⟩ := h
    simp only [Prod.mk.injEq] at h
    exact ⟨f, vs, by rw [hb, h.2]⟩

theorem DecX_union {vs : List Nat} {bs rest : Bytes} (h : DecX S (.union vs) bs rest) :
    ∃ idx r0 k branch, decodeLenL Limits.impl bs = some (idx, r0) ∧ vs[idx]? = some k ∧
      S[k]? = some branch ∧ DecX S branch r0 rest := by
  obtain ⟨fX, v, h⟩ := h
  cases fX with
  | zero => simp [decodeX] at h
  | succ f =>
    simp only [decodeX, nodeOf] at h
    split at h
    · cases h
    · rename_i idx r0 hd
      split at h
      · cases h
      · rename_i k hk
        split at h
        · cases h
        · rename_i branch hbranch
          simp only [Option.map_eq_some_iff] at h
          obtain ⟨⟨v', r⟩, hb, h⟩ := h
          simp only [Prod.mk.injEq] at h
          exact ⟨idx, r0, k, branch, hd, hk, hbranch, f, v', by rw [hb, h.2]⟩

/-- lifting the postcondition through a union -/
theorem cq_union {vs : List Nat} {bs r0 r : Bytes} {d k : Nat} {variant : Node}
    (hd : decodeLenL Limits.impl bs = some (d, r0)) (hk : vs[d]? = some k)
    (hv : S[k]? = some variant) (h : ∀ rest, DecX S variant r0 rest → r = rest) :
    ∀ rest, DecX S (.union vs) bs rest → r = rest := by
  intro rest hx
  obtain ⟨idx, r0', k', branch, hd', hk', hb', hx'⟩ := DecX_union S hx
  rw [hd] at hd'
  simp only [Option.some.injEq, Prod.mk.injEq] at hd'
  obtain ⟨rfl, rfl⟩ := hd'
  rw [hk] at hk'
  simp only [Option.some.injEq] at hk'
  subst hk'
  rw [hv] at hb'
  simp only [Option.some.injEq] at hb'
  subst hb'
  exact h rest hx'

theorem cq_string_of {bs ra rb : Bytes} {n : Nat} {kb : Bytes}
    (hlen : decodeLenL Limits.impl bs = some (n, ra)) (ht : takeN n ra = some (kb, rb))
    {k : String} {rest : Bytes} (hs : decodeStringL Limits.impl bs = some (k, rest)) : rb = rest := by
  obtain ⟨n', r', b, hlen', ht', _⟩ := decodeStringL_inv hs
  rw [hlen] at hlen'
  simp only [Option.some.injEq, Prod.mk.injEq] at hlen'
  obtain ⟨rfl, rfl⟩ := hlen'
  rw [ht] at ht'
  simp only [Option.some.injEq, Prod.mk.injEq] at ht'
  exact ht'.2

/-! ### 5. Decimals, for every visitor hint -/

/-- the part of `read_decimal` that reads -/
def decHead (mode : DecMode) : DeM (Int × Nat) :=
  match mode with
    | .regular scale .bytes => do
      let size ← readLen
      if size > 16 then DeM.fail .custom else
      let b ← readExact size
      pure (i128OfBE b, scale)
    | .regular scale (.fixed _ size) => do
      if size > 16 then DeM.fail .custom else
      let b ← readExact size
      pure (i128OfBE b, scale)
    | .big => do
      let bytesLen ← readLen
      setLimit (some bytesLen)
      let r ← withLimitCleared (do
        let l ← varintProcessor .i64 12 []
        if l < 0 then DeM.fail .custom else
        let size := l.toNat
        if size > 16 then DeM.fail .custom else
        let b ← readExact size
        let sc ← varintProcessor .i64 12 []
        if sc < 0 ∨ sc ≥ 4294967296 then DeM.fail .custom else
        let left ← getLimit
        if left ≠ some 0 then DeM.fail .custom else
        pure (i128OfBE b, sc.toNat))
      pure r

/-- the part of `read_decimal` that only computes what the visitor gets -/
def decTail (ext : DeExt) (hint : DecHint) (unscaled : Int) (scale : Nat) : DeM Out := do
  if scale = 0 then
    match hint with
    | .u64 =>
      if 0 ≤ unscaled ∧ unscaled < 2 ^ 64 then return .u64 unscaled.toNat
      else if unscaled < 0 then return .i128 unscaled
      else pure ()
    | .i64 =>
      if -(2 : Int) ^ 63 ≤ unscaled ∧ unscaled < 2 ^ 63 then return .i64 unscaled
      else return .i128 unscaled
    | .u128 =>
      if 0 ≤ unscaled then return .u128 unscaled.toNat else return .i128 unscaled
    | .i128 => return .i128 unscaled
    | _ => pure ()
  match ext.decToString unscaled scale with
  | none => DeM.fail .custom
  | some s =>
    if hint = .f64 then
      match ext.decToF64 unscaled scale with
      | some bits => pure (.f64 bits)
      | none => pure (.str s false)
    else pure (.str s false)

theorem readDecimal_eq (ext : DeExt) (mode : DecMode) (hint : DecHint) :
    readDecimal ext mode hint = decHead mode >>= fun p => decTail ext hint p.1 p.2 := by
  rfl

theorem decTail_noRead (ext : DeExt) (hint : DecHint) (u : Int) (sc : Nat) (s : RState) :
    (decTail ext hint u sc s).2 = s := by
  unfold decTail
  cases ext.decToString u sc <;> cases ext.decToF64 u sc <;>
  cases hint <;> simp only [pure] <;>
    repeat' (first | rfl | split)

/-- a `rust_decimal` that accepts everything: used to read off what the reading part consumes -/
def extOK : DeExt := ⟨fun _ _ => some "", fun _ _ => none⟩

theorem decTail_extOK (u : Int) (sc : Nat) (s : RState) :
    decTail extOK .str u sc s = (.ok (.str "" false), s) := by
  unfold decTail
  by_cases h : sc = 0 <;> simp [h, extOK, pure]

/-- whatever the visitor hint, `read_decimal` consumes what it consumes for a `str` visitor -/
theorem inv_readDecimal_any (ext : DeExt) (mode : DecMode) (hint : DecHint) (bs : Bytes)
    (Q : Bytes → Prop) (hstr : Inv (readDecimal extOK mode .str) bs (fun _ r => Q r)) :
    Inv (readDecimal ext mode hint) bs (fun _ r => Q r) := by
  intro s hs a s' hrun
  rw [readDecimal_eq, DeM.bind_apply] at hrun
  cases hh : decHead mode (s.mk' bs none) with
  | mk res s1 =>
    rw [hh] at hrun
    cases res with
    | error e => simp at hrun
    | ok p =>
      simp only at hrun
      have hs' : s' = s1 := by
        have := decTail_noRead ext hint p.1 p.2 s1
        rw [hrun] at this
        exact this
      subst hs'
      have h2 : readDecimal extOK mode .str (s.mk' bs none) = (.ok (.str "" false), s') := by
        rw [readDecimal_eq, DeM.bind_apply, hh]
        exact decTail_extOK p.1 p.2 s'
      exact hstr s hs _ s' h2

theorem inv_decimal_cq (ext : DeExt) (hint : DecHint) (sc pr : Nat) (repr : DecimalRepr)
    (bs : Bytes) :
    Inv (readDecimal ext (.regular sc repr) hint) bs (CQ S (.decimal sc pr repr) bs) := by
  cases repr with
  | bytes =>
    refine inv_readDecimal_any ext _ hint bs (fun r => ∀ rest, DecX S (.decimal sc pr .bytes) bs rest → r = rest) ?_
    refine (inv_readDecimal_bytes extOK sc bs).mono ?_
    rintro o rest ⟨m, str, hb, hm, _, _⟩
    refine cq_of_decodeL S ⟨.decimal (fromTwosComplementBE m), 1, ?_⟩
    have : fitsOpt Limits.impl.maxDecimal m.length = true := by
      simp only [Limits.impl, fitsOpt, decide_eq_true_eq]; exact hm
    simp only [decodeL, hb, this, if_true]
  | fixed nm size =>
    refine inv_readDecimal_any ext _ hint bs (fun r => ∀ rest, DecX S (.decimal sc pr (.fixed nm size)) bs rest → r = rest) ?_
    refine (inv_readDecimal_fixed extOK sc nm size bs).mono ?_
    rintro o rest ⟨m, str, hb, hm, _, _⟩
    refine cq_of_decodeL S ⟨.decimal (fromTwosComplementBE m), 1, ?_⟩
    have : fitsOpt Limits.impl.maxDecimal size = true := by
      simp only [Limits.impl, fitsOpt, decide_eq_true_eq]; exact hm
    simp only [decodeL, hb, this, if_true, Option.map_some]

theorem inv_bigDecimal_cq (ext : DeExt) (hint : DecHint) (bs : Bytes) :
    Inv (readDecimal ext .big hint) bs (CQ S .bigDecimal bs) := by
  refine inv_readDecimal_any ext _ hint bs (fun r => ∀ rest, DecX S .bigDecimal bs rest → r = rest) ?_
  refine (inv_readDecimal_big extOK bs).mono ?_
  rintro o rest ⟨inner, m, inner', scale, str, h0, h1, hm, h2, _, _⟩
  refine cq_of_decodeL S ⟨.bigDecimal (fromTwosComplementBE m) scale, 1, ?_⟩
  have : fitsOpt Limits.impl.maxDecimal m.length = true := by
    simp only [Limits.impl, fitsOpt, decide_eq_true_eq]; exact hm
  simp only [decodeL, h0, h1, this, if_true, h2]


/-! ### 6. The families of (hint, node) pairs the theorem is about -/

/-- the requests `de` passes on to `deserialize_any` (everything but `option` and `enum`) -/
def Hint.anyRouted : Hint → Bool
  | .option _ | .enum _ => false
  | _ => true

/-- the request an enum target makes for the payload of a variant -/
def VariantHint.toHint : VariantHint → Hint
  | .unit => .ignored
  | .newtype h => h
  | .tuple n e => .tuple n e
  | .struct fs => .struct fs

/-- `ok` is closed under the sub-requests of the deserializer -/
structure OkClosed (S : Schema) (ok : Hint → Node → Prop) : Prop where
  any_ok : ∀ n : Node, ok .any n
  ign_ok : ∀ n : Node, ok .ignored n
  ident_ok : ∀ n : Node, ok .identifier n
  opt_union : ∀ (i : Hint) (vs : List Nat) (d k : Nat) (variant : Node),
    ok (.option i) (.union vs) → vs[d]? = some k → S[k]? = some variant → ok i variant
  opt_other : ∀ (i : Hint) (n : Node), ok (.option i) n → (∀ vs, n ≠ .union vs) → ok i n
  enum_here : ∀ (vts : List (String × VariantHint)) (n : Node) (vh : VariantHint),
    ok (.enum vts) n → lookupVariant n.typeName vts = some vh → ok vh.toHint n
  enum_union : ∀ (vts : List (String × VariantHint)) (vs : List Nat) (d k : Nat) (variant : Node)
    (vh : VariantHint), ok (.enum vts) (.union vs) → vs[d]? = some k →
    S[k]? = some variant → lookupVariant variant.typeName vts = some vh → ok vh.toHint variant
  any_array : ∀ (h : Hint) (k : Nat) (item : Node), h.anyRouted = true → ok h (.array k) →
    S[k]? = some item → ok h.elem item
  any_map : ∀ (h : Hint) (k : Nat) (item : Node) (name : Option String), h.anyRouted = true →
    ok h (.map k) → S[k]? = some item → ok (h.valFor name) item
  any_record : ∀ (h : Hint) (nm : Name) (fields : List (String × Nat)) (name : String) (k : Nat)
    (fnode : Node), h.anyRouted = true → ok h (.record nm fields) →
    (name, k) ∈ fields → S[k]? = some fnode → ok (h.valFor (some name)) fnode
  any_union : ∀ (h : Hint) (vs : List Nat) (d k : Nat) (variant : Node), h.anyRouted = true →
    ok h (.union vs) → vs[d]? = some k → S[k]? = some variant → ok h variant

/-! ### 7. The mutual induction on the model fuel -/

structure TC (cfg : DeConfig) (S : Schema) (ok : Hint → Node → Prop) (fuel : Nat) : Prop where
  any : ∀ n depth h bs, h.anyRouted = true → ok h n →
    Inv (deAny deExtModel cfg S fuel n depth h) bs (CQ S n bs)
  de : ∀ n depth favor h bs, ok h n →
    Inv (de deExtModel cfg S fuel n depth favor h) bs (CQ S n bs)
  tn : ∀ n depth vts bs, (∀ vh, lookupVariant n.typeName vts = some vh → ok vh.toHint n) →
    Inv (deTypeNameEnum deExtModel cfg S fuel n depth vts) bs (CQ S n bs)
  ign : ∀ n depth bs, Inv (deIgnored deExtModel cfg S fuel n depth) bs (CQ S n bs)
  seq : ∀ item depth ign eh mi bst acc bs, ok eh item →
    Inv (deSeqLoop deExtModel cfg S fuel item depth ign eh mi bst acc) bs
      (fun _ r => ∀ r1 rest, ItmX S item bst.current bs r1 → BlkX S item r1 rest → r = rest)
  map : ∀ item depth ign h bst acc bs, (∀ name, ok (h.valFor name) item) →
    Inv (deMapLoop deExtModel cfg S fuel item depth ign h bst acc) bs
      (fun _ r => ∀ r1 rest, MItmX S item bst.current bs r1 → MBlkX S item r1 rest → r = rest)
  fields : ∀ fields depth h acc bs,
    (∀ name k fnode, (name, k) ∈ fields → S[k]? = some fnode → ok (h.valFor (some name)) fnode) →
    Inv (deRecordFields deExtModel cfg S fuel fields depth h acc) bs
      (fun _ r => ∀ rest, FldX S (fields.map (·.2)) bs rest → r = rest)

variable (cfg : DeConfig) {ok : Hint → Node → Prop} (hc : OkClosed S ok)

theorem tc_succ_seq (g : Nat) (ih : TC cfg S ok g) (item : Node) (depth : Nat) (ign : Bool)
    (eh : Hint) (mi : Option Nat) (bst : BlockState) (acc : List Out) (bs : Bytes)
    (hok : ok eh item) :
    Inv (deSeqLoop deExtModel cfg S (g + 1) item depth ign eh mi bst acc) bs
      (fun _ r => ∀ r1 rest, ItmX S item bst.current bs r1 → BlkX S item r1 rest → r = rest) := by
  rw [deSeqLoop]
  split
  · -- the visitor has taken its last element: `ArraySeqAccess::visit` reads the array to its end
    refine Inv.bind (inv_hasMore_gen (BlkX_unfold S item) (fun _ _ => ItmX_zero S) cfg ign bst bs) ?_
    rintro ⟨more, bst'⟩ r0 hpost
    cases more with
    | true =>
      simp only [if_true]
      exact Inv.fail _ _ _
    | false =>
      simp only [Bool.false_eq_true, if_false]
      refine Inv.pure ?_
      intro r1 rest hi hb
      exact (hpost r1 rest hi hb).1 rfl
  · refine Inv.bind (inv_hasMore_gen (BlkX_unfold S item) (fun _ _ => ItmX_zero S) cfg ign bst bs) ?_
    rintro ⟨more, bst'⟩ r0 hpost
    cases more with
    | false =>
      simp only [Bool.not_false, if_true]
      refine Inv.pure ?_
      intro r1 rest hi hb
      exact (hpost r1 rest hi hb).1 rfl
    | true =>
      simp only [Bool.not_true, Bool.false_eq_true, if_false]
      refine Inv.bind (ih.de item depth false eh r0 hok) ?_
      intro o ra hcq
      refine (ih.seq item depth ign eh _ bst' (o :: acc) ra hok).mono ?_
      intro out r hfin r1 rest hi hb
      obtain ⟨r1', hi', hb'⟩ := (hpost r1 rest hi hb).2 rfl
      obtain ⟨ra', hd, hi''⟩ := ItmX_succ S hi'
      have := hcq ra' hd
      subst this
      exact hfin r1' rest hi'' hb'

theorem tc_succ_map (g : Nat) (ih : TC cfg S ok g) (item : Node) (depth : Nat) (ign : Bool)
    (h : Hint) (bst : BlockState) (acc : List (Out × Out)) (bs : Bytes)
    (hok : ∀ name, ok (h.valFor name) item) :
    Inv (deMapLoop deExtModel cfg S (g + 1) item depth ign h bst acc) bs
      (fun _ r => ∀ r1 rest, MItmX S item bst.current bs r1 → MBlkX S item r1 rest → r = rest) := by
  rw [deMapLoop]
  refine Inv.bind (inv_hasMore_gen (MBlkX_unfold S item) (fun _ _ => MItmX_zero S) cfg ign bst bs) ?_
  rintro ⟨more, bst'⟩ r0 hpost
  cases more with
  | false =>
    simp only [Bool.not_false, if_true]
    refine Inv.pure ?_
    intro r1 rest hi hb
    exact (hpost r1 rest hi hb).1 rfl
  | true =>
    simp only [Bool.not_true, Bool.false_eq_true, if_false]
    refine Inv.bind (inv_readLen r0) ?_
    intro n ra hlen
    refine Inv.bind (inv_readSlice n ra) ?_
    rintro ⟨kb, borrowed⟩ rb ⟨ht, hbor⟩
    simp only at ht hbor
    refine Inv.bind (Q1 := fun _ r => r = rb) ?_ ?_
    · split
      · exact Inv.pure rfl
      · split
        · exact Inv.pure rfl
        · exact Inv.fail _ _ _
    · rintro ⟨kOut, kName⟩ r rfl
      refine Inv.bind (ih.de item depth false (h.valFor kName) r (hok kName)) ?_
      intro o rc hcq
      refine (ih.map item depth ign h bst' ((kOut, o) :: acc) rc hok).mono ?_
      intro out rfin hfin r1 rest hi hb
      obtain ⟨r1', hi', hb'⟩ := (hpost r1 rest hi hb).2 rfl
      obtain ⟨k, ra2, rb2, hs, hd, hi''⟩ := MItmX_succ S hi'
      have := cq_string_of hlen ht hs
      subst this
      have := hcq rb2 hd
      subst this
      exact hfin r1' rest hi'' hb'

theorem tc_fields (g : Nat) (ih : ∀ g', g = g' + 1 → TC cfg S ok g') (fields : List (String × Nat))
    (depth : Nat) (h : Hint) (acc : List (Out × Out)) (bs : Bytes)
    (hok : ∀ name k fnode, (name, k) ∈ fields → S[k]? = some fnode →
      ok (h.valFor (some name)) fnode) :
    Inv (deRecordFields deExtModel cfg S g fields depth h acc) bs
      (fun _ r => ∀ rest, FldX S (fields.map (·.2)) bs rest → r = rest) := by
  cases fields with
  | nil =>
    rw [deRecordFields]
    refine Inv.pure ?_
    intro rest hx
    exact (FldX_nil S hx).symm
  | cons fk fs =>
    obtain ⟨name, k⟩ := fk
    cases g with
    | zero => rw [deRecordFields]; exact Inv.fail _ _ _
    | succ g' =>
      have ih := ih g' rfl
      rw [deRecordFields]
      split
      · exact Inv.fail _ _ _
      · rename_i fnode hnode
        refine Inv.bind (ih.de fnode depth false (h.valFor (some name)) bs
          (hok name k fnode (List.mem_cons_self ..) hnode)) ?_
        intro o ra hcq
        refine (ih.fields fs depth h _ ra
          (fun nm' k' fn' hm hn => hok nm' k' fn' (List.mem_cons_of_mem _ hm) hn)).mono ?_
        intro out r hfin rest hx
        simp only [List.map_cons] at hx
        obtain ⟨n', ra', hn', hd, hf⟩ := FldX_cons S hx
        rw [hnode] at hn'
        simp only [Option.some.injEq] at hn'
        subst hn'
        have := hcq ra' hd
        subst this
        exact hfin rest hf

include hc in
theorem tc_succ_any (g : Nat) (ih : TC cfg S ok g) (n : Node) (depth : Nat) (h : Hint) (bs : Bytes)
    (hr : h.anyRouted = true) (hok : ok h n) :
    Inv (deAny deExtModel cfg S (g + 1) n depth h) bs (CQ S n bs) := by
  have leaf : ∀ n', n' = n → deAny deExtModel cfg S (g + 1) n' depth h =
      deAny deExtModel cfg S (g + 1) n' depth .any →
      Inv (deAny deExtModel cfg S (g + 1) n depth h) bs (CQ S n bs) := by
    rintro n' rfl e
    rw [e]
    refine ((sndAll cfg S (g + 1)).any n' depth bs).mono ?_
    rintro o r ⟨v, fS, hv, _⟩
    exact cq_of_decodeL S ⟨v, fS, hv⟩
  cases n with
  | array k =>
    rw [deAny]
    split
    · exact Inv.fail _ _ _
    · rename_i item hitem
      refine Inv.bind (inv_decDepth depth bs) ?_
      rintro d r rfl
      refine Inv.bind (ih.seq item d false h.elem h.maxItems {} [] r
        (hc.any_array h k item hr hok hitem)) ?_
      intro items r' hpost
      refine Inv.pure ?_
      intro rest hx
      exact hpost r rest ⟨0, [], rfl⟩ (DecX_array S hx hitem)
  | map k =>
    rw [deAny]
    split
    · exact Inv.fail _ _ _
    · rename_i item hitem
      refine Inv.bind (inv_decDepth depth bs) ?_
      rintro d r rfl
      refine Inv.bind (ih.map item d false h {} [] r
        (fun name => hc.any_map h k item name hr hok hitem)) ?_
      intro items r' hpost
      refine Inv.pure ?_
      intro rest hx
      exact hpost r rest ⟨0, [], rfl⟩ (DecX_map S hx hitem)
  | union vs =>
    rw [deAny]
    refine Inv.bind (inv_readLen bs) ?_
    intro d r0 hd
    split
    · exact Inv.fail _ _ _
    · rename_i k hk
      split
      · exact Inv.fail _ _ _
      · rename_i variant hvar
        refine Inv.bind (inv_decDepth depth r0) ?_
        rintro dd r rfl
        refine (ih.any variant dd h r hr (hc.any_union h vs d k variant hr hok hk hvar)).mono ?_
        intro o rr hcq
        exact cq_union S hd hk hvar hcq
  | record nm fields =>
    rw [deAny]
    refine Inv.bind (inv_decDepth depth bs) ?_
    rintro d r rfl
    refine Inv.bind (ih.fields fields d h [] r
      (fun name k fnode hm hn => hc.any_record h nm fields name k fnode hr hok hm hn)) ?_
    intro entries r' hpost
    refine Inv.pure ?_
    intro rest hx
    exact hpost rest (DecX_record S hx)
  | duration =>
    rw [deAny]
    refine Inv.bind (inv_readExact 12 bs) ?_
    intro b r ht
    refine Inv.pure ?_
    intro rest hx
    obtain ⟨b', hb'⟩ := DecX_duration S hx
    rw [ht] at hb'
    simp only [Option.some.injEq, Prod.mk.injEq] at hb'
    exact hb'.2
  | _ => exact leaf _ rfl (by rw [deAny, deAny])


include hc in
theorem tc_succ_ign (g : Nat) (ih : TC cfg S ok g) (n : Node) (depth : Nat) (bs : Bytes) :
    Inv (deIgnored deExtModel cfg S (g + 1) n depth) bs (CQ S n bs) := by
  cases n with
  | string =>
    rw [deIgnored]
    refine Inv.bind (inv_readLen bs) ?_
    intro n ra hlen
    refine Inv.bind (inv_readSlice n ra) ?_
    rintro ⟨kb, borrowed⟩ rb ⟨ht, _⟩
    refine Inv.pure ?_
    intro rest hx
    obtain ⟨k, hs⟩ := DecX_string S hx
    exact cq_string_of hlen ht hs
  | array k =>
    rw [deIgnored]
    split
    · exact Inv.fail _ _ _
    · rename_i item hitem
      refine Inv.bind (inv_decDepth depth bs) ?_
      rintro d r rfl
      refine Inv.bind (ih.seq item d true .ignored none {} [] r (hc.ign_ok item)) ?_
      intro items r' hpost
      refine Inv.pure ?_
      intro rest hx
      exact hpost r rest ⟨0, [], rfl⟩ (DecX_array S hx hitem)
  | map k =>
    rw [deIgnored]
    split
    · exact Inv.fail _ _ _
    · rename_i item hitem
      refine Inv.bind (inv_decDepth depth bs) ?_
      rintro d r rfl
      refine Inv.bind (ih.map item d true .ignored {} [] r (fun _ => hc.ign_ok item)) ?_
      intro items r' hpost
      refine Inv.pure ?_
      intro rest hx
      exact hpost r rest ⟨0, [], rfl⟩ (DecX_map S hx hitem)
  | int =>
    rw [deIgnored]
    refine Inv.bind (inv_varint_u32 bs) ?_
    rintro _ r ⟨i, hd⟩
    refine Inv.pure ?_
    intro rest hx
    obtain ⟨i', hd'⟩ := DecX_int S hx
    rw [hd] at hd'
    simp only [Option.some.injEq, Prod.mk.injEq] at hd'
    exact hd'.2
  | long =>
    rw [deIgnored]
    refine Inv.bind (inv_varint_u64 bs) ?_
    rintro _ r ⟨i, hd⟩
    refine Inv.pure ?_
    intro rest hx
    obtain ⟨i', hd'⟩ := DecX_long S hx
    rw [hd] at hd'
    simp only [Option.some.injEq, Prod.mk.injEq] at hd'
    exact hd'.2
  | «enum» nm syms =>
    rw [deIgnored]
    refine Inv.bind (inv_varint_u64 bs) ?_
    rintro _ r ⟨i, hd⟩
    refine Inv.pure ?_
    intro rest hx
    obtain ⟨i', hl⟩ := DecX_enum S hx
    obtain ⟨j, hd', _, _⟩ := decodeLenL_inv hl
    rw [hd] at hd'
    simp only [Option.some.injEq, Prod.mk.injEq] at hd'
    exact hd'.2
  | duration =>
    rw [deIgnored]
    refine Inv.bind (inv_readExact 12 bs) ?_
    intro b r ht
    refine Inv.pure ?_
    intro rest hx
    obtain ⟨b', hb'⟩ := DecX_duration S hx
    rw [ht] at hb'
    simp only [Option.some.injEq, Prod.mk.injEq] at hb'
    exact hb'.2
  | _ =>
    rw [deIgnored]
    · refine Inv.bind (ih.any _ depth .ignored bs rfl (hc.ign_ok _)) ?_
      intro _ r hcq
      exact Inv.pure hcq
    all_goals (intros; contradiction)

theorem tc_succ_tn (g : Nat) (ih : TC cfg S ok g) (n : Node) (depth : Nat)
    (vts : List (String × VariantHint)) (bs : Bytes)
    (hv : ∀ vh, lookupVariant n.typeName vts = some vh → ok vh.toHint n) :
    Inv (deTypeNameEnum deExtModel cfg S (g + 1) n depth vts) bs (CQ S n bs) := by
  rw [deTypeNameEnum]
  simp only [selectVariant]
  cases hl : lookupVariant n.typeName vts with
  | none => exact Inv.fail _ _ _
  | some vh =>
    have hokv := hv vh hl
    cases vh with
    | unit =>
      refine Inv.bind (ih.ign n depth bs) ?_
      intro _ r hcq
      exact Inv.pure hcq
    | newtype h =>
      refine Inv.bind (ih.de n depth false h bs hokv) ?_
      intro _ r hcq
      exact Inv.pure hcq
    | tuple k e =>
      refine Inv.bind (ih.de n depth false (.tuple k e) bs hokv) ?_
      intro _ r hcq
      exact Inv.pure hcq
    | struct fs =>
      refine Inv.bind (ih.de n depth false (.struct fs) bs hokv) ?_
      intro _ r hcq
      exact Inv.pure hcq


include hc in
theorem tc_succ_de (g : Nat) (ih : TC cfg S ok g) (n : Node) (depth : Nat) (favor : Bool)
    (h : Hint) (bs : Bytes) (hok : ok h n) :
    Inv (de deExtModel cfg S (g + 1) n depth favor h) bs (CQ S n bs) := by
  cases h with
  | any => rw [de]; exact ih.any n depth .any bs rfl hok
  | ignored => rw [de]; exact ih.ign n depth bs
  | map kh vh => rw [de]; exact ih.any n depth _ bs rfl hok
  | struct fs => rw [de]; exact ih.any n depth _ bs rfl hok
  | u64 =>
    cases n with
    | «enum» nm syms =>
      rw [de]
      refine Inv.bind (inv_varint_i64 bs) ?_
      intro i r hd
      split
      · exact Inv.fail _ _ _
      · refine Inv.pure ?_
        intro rest hx
        obtain ⟨i', hl⟩ := DecX_enum S hx
        obtain ⟨j, hd', _, _⟩ := decodeLenL_inv hl
        rw [hd] at hd'
        simp only [Option.some.injEq, Prod.mk.injEq] at hd'
        exact hd'.2
    | decimal sc pr repr => rw [de]; exact inv_decimal_cq S _ _ _ _ _ bs
    | bigDecimal => rw [de]; exact inv_bigDecimal_cq S _ _ bs
    | _ =>
      rw [de]
      · exact ih.any _ depth _ bs rfl hok
      all_goals (intros; contradiction)
  | i64 =>
    cases n with
    | long =>
      rw [de]
      refine Inv.bind (inv_varint_i64 bs) ?_
      intro i r hd
      refine Inv.pure ?_
      intro rest hx
      obtain ⟨i', hd'⟩ := DecX_long S hx
      rw [hd] at hd'
      simp only [Option.some.injEq, Prod.mk.injEq] at hd'
      exact hd'.2
    | decimal sc pr repr => rw [de]; exact inv_decimal_cq S _ _ _ _ _ bs
    | bigDecimal => rw [de]; exact inv_bigDecimal_cq S _ _ bs
    | _ =>
      rw [de]
      · exact ih.any _ depth _ bs rfl hok
      all_goals (intros; contradiction)
  | u128 =>
    cases n with
    | decimal sc pr repr => rw [de]; exact inv_decimal_cq S _ _ _ _ _ bs
    | bigDecimal => rw [de]; exact inv_bigDecimal_cq S _ _ bs
    | _ =>
      rw [de]
      · exact ih.any _ depth _ bs rfl hok
      all_goals (intros; contradiction)
  | i128 =>
    cases n with
    | decimal sc pr repr => rw [de]; exact inv_decimal_cq S _ _ _ _ _ bs
    | bigDecimal => rw [de]; exact inv_bigDecimal_cq S _ _ bs
    | _ =>
      rw [de]
      · exact ih.any _ depth _ bs rfl hok
      all_goals (intros; contradiction)
  | f64 =>
    cases n with
    | double =>
      rw [de]
      refine Inv.bind (inv_readExact 8 bs) ?_
      intro b r ht
      refine Inv.pure ?_
      intro rest hx
      obtain ⟨b', hb'⟩ := DecX_double S hx
      rw [ht] at hb'
      simp only [Option.some.injEq, Prod.mk.injEq] at hb'
      exact hb'.2
    | decimal sc pr repr => rw [de]; exact inv_decimal_cq S _ _ _ _ _ bs
    | bigDecimal => rw [de]; exact inv_bigDecimal_cq S _ _ bs
    | _ =>
      rw [de]
      · exact ih.any _ depth _ bs rfl hok
      all_goals (intros; contradiction)
  | str =>
    cases n with
    | string =>
      rw [de]
      refine (inv_readString bs).mono ?_
      rintro o r ⟨str, hs, _⟩ rest hx
      obtain ⟨str', hs'⟩ := DecX_string S hx
      rw [hs] at hs'
      simp only [Option.some.injEq, Prod.mk.injEq] at hs'
      exact hs'.2
    | bytes =>
      rw [de]
      refine (inv_readString bs).mono ?_
      rintro o r ⟨str, hs, _⟩ rest hx
      obtain ⟨b', hb'⟩ := DecX_bytes S hx
      unfold decodeStringL at hs
      rw [hb'] at hs
      simp only at hs
      split at hs
      · simp only [Option.some.injEq, Prod.mk.injEq] at hs
        exact hs.2.symm
      · cases hs
    | fixed nm size =>
      rw [de]
      refine Inv.bind (inv_readSlice _ bs) ?_
      rintro ⟨b, borrowed⟩ r ⟨ht, _⟩
      simp only at ht
      dsimp only
      split
      · refine Inv.pure ?_
        intro rest hx
        obtain ⟨b', hb'⟩ := DecX_fixed S hx
        rw [ht] at hb'
        simp only [Option.some.injEq, Prod.mk.injEq] at hb'
        exact hb'.2
      · exact Inv.fail _ _ _
    | _ =>
      rw [de]
      · exact ih.any _ depth _ bs rfl hok
      all_goals (intros; contradiction)
  | bytes =>
    cases n with
    | bytes =>
      rw [de]
      refine (inv_readBytes bs).mono ?_
      rintro o r ⟨b, hb, _⟩ rest hx
      obtain ⟨b', hb'⟩ := DecX_bytes S hx
      rw [hb] at hb'
      simp only [Option.some.injEq, Prod.mk.injEq] at hb'
      exact hb'.2
    | duration =>
      rw [de]
      refine Inv.bind (inv_readSlice 12 bs) ?_
      rintro ⟨b, borrowed⟩ r ⟨ht, _⟩
      simp only at ht
      refine Inv.pure ?_
      intro rest hx
      obtain ⟨b', hb'⟩ := DecX_duration S hx
      rw [ht] at hb'
      simp only [Option.some.injEq, Prod.mk.injEq] at hb'
      exact hb'.2
    | _ =>
      rw [de]
      · exact ih.any _ depth _ bs rfl hok
      all_goals (intros; contradiction)
  | identifier =>
    cases n with
    | int =>
      rw [de]
      refine Inv.bind (inv_varint_i32 bs) ?_
      rintro i r ⟨hd, _⟩
      split
      · exact Inv.fail _ _ _
      · refine Inv.pure ?_
        intro rest hx
        obtain ⟨i', hd'⟩ := DecX_int S hx
        rw [hd] at hd'
        simp only [Option.some.injEq, Prod.mk.injEq] at hd'
        exact hd'.2
    | long =>
      rw [de]
      refine Inv.bind (inv_varint_i64 bs) ?_
      intro i r hd
      split
      · exact Inv.fail _ _ _
      · refine Inv.pure ?_
        intro rest hx
        obtain ⟨i', hd'⟩ := DecX_long S hx
        rw [hd] at hd'
        simp only [Option.some.injEq, Prod.mk.injEq] at hd'
        exact hd'.2
    | _ =>
      rw [de]
      · exact ih.any _ depth _ bs rfl hok
      all_goals (intros; contradiction)
  | seq e =>
    cases n with
    | duration =>
      rw [de]
      refine Inv.bind (inv_readExact 12 bs) ?_
      intro b r ht
      refine Inv.pure ?_
      intro rest hx
      obtain ⟨b', hb'⟩ := DecX_duration S hx
      rw [ht] at hb'
      simp only [Option.some.injEq, Prod.mk.injEq] at hb'
      exact hb'.2
    | _ =>
      rw [de]
      · exact ih.any _ depth _ bs rfl hok
      all_goals (intros; contradiction)
  | tuple k e =>
    cases n with
    | duration =>
      rw [de]
      split
      · refine Inv.bind (inv_readExact 12 bs) ?_
        intro b r ht
        refine Inv.pure ?_
        intro rest hx
        obtain ⟨b', hb'⟩ := DecX_duration S hx
        rw [ht] at hb'
        simp only [Option.some.injEq, Prod.mk.injEq] at hb'
        exact hb'.2
      · exact ih.any _ depth _ bs rfl hok
    | _ =>
      rw [de]
      · exact ih.any _ depth _ bs rfl hok
      all_goals (intros; contradiction)
  | option inner =>
    cases n with
    | null =>
      rw [de]
      refine Inv.pure ?_
      intro rest hx
      exact (DecX_null S hx).symm
    | union vs =>
      rw [de]
      refine Inv.bind (inv_readLen bs) ?_
      intro d r0 hd
      split
      · exact Inv.fail _ _ _
      · rename_i k hk
        split
        · exact Inv.fail _ _ _
        · rename_i hnull
          refine Inv.pure ?_
          exact cq_union S hd hk hnull (fun rest hx => (DecX_null S hx).symm)
        · rename_i variant hnn hvar
          refine Inv.bind (inv_decDepth depth r0) ?_
          rintro dd r rfl
          refine Inv.bind (ih.de variant dd _ inner r
            (hc.opt_union inner vs d k variant hok hk hvar)) ?_
          intro o rr hcq
          exact Inv.pure (cq_union S hd hk hvar hcq)
    | _ =>
      rw [de]
      · refine Inv.bind (ih.de _ depth favor inner bs
          (hc.opt_other inner _ hok (by intro vs e; cases e))) ?_
        intro o rr hcq
        exact Inv.pure hcq
      all_goals (intros; contradiction)
  | «enum» variants =>
    cases n with
    | union vs =>
      rw [de]
      split
      · exact ih.tn _ depth variants bs (fun vh hv => hc.enum_here variants _ vh hok hv)
      · refine Inv.bind (inv_readLen bs) ?_
        intro d r0 hd
        split
        · exact Inv.fail _ _ _
        · rename_i k hk
          split
          · exact Inv.fail _ _ _
          · rename_i variant hvar
            refine Inv.bind (inv_decDepth depth r0) ?_
            rintro dd r rfl
            refine (ih.tn variant dd variants r
              (fun vh hv => hc.enum_union variants vs d k variant vh hok hk hvar hv)).mono ?_
            intro o rr hcq
            exact cq_union S hd hk hvar hcq
    | _ =>
      rw [de]
      · split
        · exact ih.tn _ depth variants bs (fun vh hv => hc.enum_here variants _ vh hok hv)
        · first
          | (refine Inv.bind (inv_decDepth depth bs) ?_
             rintro dd r rfl
             refine Inv.bind (ih.de _ dd false .identifier r (hc.ident_ok _)) ?_
             intro ident rr hcq
             split
             · exact Inv.pure hcq
             · exact Inv.fail _ _ _
             · exact Inv.fail _ _ _)
          | (refine Inv.bind (inv_decDepth depth bs) ?_
             rintro dd r rfl
             exact ih.tn _ dd variants r (fun vh hv => hc.enum_here variants _ vh hok hv))
      all_goals (intros; contradiction)


theorem tc_zero : TC cfg S ok 0 := by
  refine ⟨?_, ?_, ?_, ?_, ?_, ?_, ?_⟩
  · intro n depth h bs _ _; rw [deAny]; exact Inv.fail _ _ _
  · intro n depth favor h bs _; rw [de]; exact Inv.fail _ _ _
  · intro n depth vts bs _; rw [deTypeNameEnum]; exact Inv.fail _ _ _
  · intro n depth bs; rw [deIgnored]; exact Inv.fail _ _ _
  · intro item depth ign eh mi bst acc bs _; rw [deSeqLoop]; exact Inv.fail _ _ _
  · intro item depth ign h bst acc bs _; rw [deMapLoop]; exact Inv.fail _ _ _
  · intro fields depth h acc bs hok
    exact tc_fields S cfg 0 (fun g' e => by cases e) fields depth h acc bs hok

include hc in
theorem tc : ∀ fuel, TC cfg S ok fuel := by
  intro fuel
  induction fuel with
  | zero => exact tc_zero S cfg
  | succ g ih =>
    refine ⟨?_, ?_, ?_, ?_, ?_, ?_, ?_⟩
    · intro n depth h bs hr hok; exact tc_succ_any S cfg hc g ih n depth h bs hr hok
    · intro n depth favor h bs hok; exact tc_succ_de S cfg hc g ih n depth favor h bs hok
    · intro n depth vts bs hv; exact tc_succ_tn S cfg g ih n depth vts bs hv
    · intro n depth bs; exact tc_succ_ign S cfg hc g ih n depth bs
    · intro item depth ign eh mi bst acc bs hok
      exact tc_succ_seq S cfg g ih item depth ign eh mi bst acc bs hok
    · intro item depth ign h bst acc bs hok
      exact tc_succ_map S cfg g ih item depth ign h bst acc bs hok
    · intro fields depth h acc bs hok
      exact tc_fields S cfg (g + 1) (fun g' e => by cases e; exact ih) fields depth h acc bs hok

include hc in
/-- **Typed reads consume exactly the datum** (for any closed family of requests). -/
theorem typed_consumes_run (n : Node) (depth fuel : Nat) (favor : Bool) (h : Hint) (hok : ok h n)
    (s s' : RState) (o : Out)
    (hs : s.isSlice = true) (hl : s.limit = none) (ha : s.avail = 0)
    (hrun : de deExtModel cfg S fuel n depth favor h s = (.ok o, s'))
    (v : Value) (rest : Bytes) (fX : Nat)
    (hx : decodeX Limits.impl S fX n s.rest = some (v, rest)) :
    s' = { s with rest := rest } := by
  have e1 : s.mk' s.rest none = s := by
    obtain ⟨isS, r, av, sched, lc, ma, scr, lim⟩ := s
    simp only at hl
    subst hl
    rfl
  rw [← e1] at hrun
  obtain ⟨r, rfl, hq⟩ := (tc S cfg hc fuel).de n depth favor h s.rest hok s ⟨hs, ha⟩ o s' hrun
  have := hq rest ⟨fX, v, hx⟩
  subst this
  obtain ⟨isS, r', av, sched, lc, ma, scr, lim⟩ := s
  simp only at hl
  subst hl
  rfl

/-! ### 8. Closed families: all pairs, and the two of the time before the fix -/

/-- every (request, node) pair: trivially closed -/
theorem allOk_closed : OkClosed S (fun _ _ => True) where
  any_ok _ := trivial
  ign_ok _ := trivial
  ident_ok _ := trivial
  opt_union _ _ _ _ _ _ _ _ := trivial
  opt_other _ _ _ _ := trivial
  enum_here _ _ _ _ _ := trivial
  enum_union _ _ _ _ _ _ _ _ _ _ := trivial
  any_array _ _ _ _ _ _ := trivial
  any_map _ _ _ _ _ _ _ := trivial
  any_record _ _ _ _ _ _ _ _ _ _ := trivial
  any_union _ _ _ _ _ _ _ _ _ := trivial

mutual
/-- no tuple request anywhere in the target (the key request of a map target is never passed to
    the datum deserializer and does not count) -/
def Hint.tupleFree : Hint → Bool
  | .option h => h.tupleFree
  | .seq e => e.tupleFree
  | .tuple _ _ => false
  | .map _ v => v.tupleFree
  | .struct fs => tupleFreeFields fs
  | .enum vs => tupleFreeVariants vs
  | _ => true
def VariantHint.tupleFree : VariantHint → Bool
  | .unit => true
  | .newtype h => h.tupleFree
  | .tuple _ _ => false
  | .struct fs => tupleFreeFields fs
def tupleFreeFields : List (String × Hint) → Bool
  | [] => true
  | (_, h) :: r => h.tupleFree && tupleFreeFields r
def tupleFreeVariants : List (String × VariantHint) → Bool
  | [] => true
  | (_, v) :: r => v.tupleFree && tupleFreeVariants r
end

theorem tupleFree_lookupHint : ∀ (fs : List (String × Hint)) (name : String) (h : Hint),
    tupleFreeFields fs = true → lookupHint name fs = some h → h.tupleFree = true := by
  intro fs
  induction fs with
  | nil => intro name h _ hl; simp [lookupHint] at hl
  | cons p r ih =>
    obtain ⟨k, hh⟩ := p
    intro name h hf hl
    simp only [tupleFreeFields, Bool.and_eq_true] at hf
    simp only [lookupHint] at hl
    split at hl
    · simp only [Option.some.injEq] at hl
      subst hl
      exact hf.1
    · exact ih name h hf.2 hl

theorem tupleFree_lookupVariant : ∀ (vs : List (String × VariantHint)) (name : String)
    (v : VariantHint), tupleFreeVariants vs = true → lookupVariant name vs = some v →
    v.tupleFree = true := by
  intro vs
  induction vs with
  | nil => intro name h _ hl; simp [lookupVariant] at hl
  | cons p r ih =>
    obtain ⟨k, hh⟩ := p
    intro name h hf hl
    simp only [tupleFreeVariants, Bool.and_eq_true] at hf
    simp only [lookupVariant] at hl
    split at hl
    · simp only [Option.some.injEq] at hl
      subst hl
      exact hf.1
    · exact ih name h hf.2 hl

theorem tupleFree_toHint (v : VariantHint) (h : v.tupleFree = true) : v.toHint.tupleFree = true := by
  cases v with
  | unit => rfl
  | newtype hh => simpa [VariantHint.tupleFree, VariantHint.toHint] using h
  | tuple n e => simp [VariantHint.tupleFree] at h
  | struct fs => simpa [VariantHint.tupleFree, VariantHint.toHint, Hint.tupleFree] using h

theorem tupleFree_valFor (h : Hint) (name : Option String) (hf : h.tupleFree = true) :
    (h.valFor name).tupleFree = true := by
  cases h with
  | map k v => simpa [Hint.valFor, Hint.tupleFree] using hf
  | struct fs =>
    simp only [Hint.tupleFree] at hf
    cases name with
    | none => rfl
    | some nm =>
      simp only [Hint.valFor]
      cases hl : lookupHint nm fs with
      | none => rfl
      | some hh => exact tupleFree_lookupHint fs nm hh hf hl
  | _ => rfl

theorem tupleFree_closed : OkClosed S (fun h _ => h.tupleFree = true) where
  any_ok _ := rfl
  ign_ok _ := rfl
  ident_ok _ := rfl
  opt_union i vs d k variant h _ _ := by simpa [Hint.tupleFree] using h
  opt_other i n h _ := by simpa [Hint.tupleFree] using h
  enum_here vts n vh h hl := by
    simp only [Hint.tupleFree] at h
    exact tupleFree_toHint vh (tupleFree_lookupVariant vts _ vh h hl)
  enum_union vts vs d k variant vh h _ _ hl := by
    simp only [Hint.tupleFree] at h
    exact tupleFree_toHint vh (tupleFree_lookupVariant vts _ vh h hl)
  any_array h k item _ hf _ := by
    cases h <;> first | rfl | (simp [Hint.tupleFree] at hf; done) | (simpa [Hint.tupleFree, Hint.elem] using hf)
  any_map h k item name _ hf _ := tupleFree_valFor h name hf
  any_record h nm fields name k fnode _ hf _ _ := tupleFree_valFor h (some name) hf
  any_union h vs d k variant _ hf _ _ := hf


/-- neither an array nor a union (whose branch could be an array) -/
def Node.noArr : Node → Bool
  | .array _ | .union _ => false
  | _ => true

/-- tuple-free targets, and a tuple target on a node that is neither an array nor a union
    (`(u32, u32, u32)` for a duration, a tuple visitor offered a scalar, a map or a record) -/
def okTop (h : Hint) (n : Node) : Prop :=
  h.tupleFree = true ∨ (∃ k e, h = .tuple k e ∧ n.noArr = true)

theorem okTop_closed : OkClosed S okTop where
  any_ok _ := Or.inl rfl
  ign_ok _ := Or.inl rfl
  ident_ok _ := Or.inl rfl
  opt_union i vs d k variant h hk hv := by
    rcases h with h | ⟨_, _, h, _⟩
    · exact Or.inl ((tupleFree_closed S).opt_union i vs d k variant h hk hv)
    · cases h
  opt_other i n h hn := by
    rcases h with h | ⟨_, _, h, _⟩
    · exact Or.inl ((tupleFree_closed S).opt_other i n h hn)
    · cases h
  enum_here vts n vh h hl := by
    rcases h with h | ⟨_, _, h, _⟩
    · exact Or.inl ((tupleFree_closed S).enum_here vts n vh h hl)
    · cases h
  enum_union vts vs d k variant vh h hk hv hl := by
    rcases h with h | ⟨_, _, h, _⟩
    · exact Or.inl ((tupleFree_closed S).enum_union vts vs d k variant vh h hk hv hl)
    · cases h
  any_array h k item hr hf hi := by
    rcases hf with hf | ⟨_, _, _, hn⟩
    · exact Or.inl ((tupleFree_closed S).any_array h k item hr hf hi)
    · simp [Node.noArr] at hn
  any_map h k item name hr hf hi := by
    rcases hf with hf | ⟨_, _, rfl, _⟩
    · exact Or.inl ((tupleFree_closed S).any_map h k item name hr hf hi)
    · exact Or.inl rfl
  any_record h nm fields name k fnode hr hf hm hn := by
    rcases hf with hf | ⟨_, _, rfl, _⟩
    · exact Or.inl ((tupleFree_closed S).any_record h nm fields name k fnode hr hf hm hn)
    · exact Or.inl rfl
  any_union h vs d k variant hr hf hk hv := by
    rcases hf with hf | ⟨_, _, _, hn⟩
    · exact Or.inl hf
    · simp [Node.noArr] at hn

end Avro.Impl
