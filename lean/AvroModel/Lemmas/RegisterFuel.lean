import AvroModel.Lemmas.SchemaParse
import AvroModel.Lemmas.ValidParsesRaw
/-
C19 (schema construction is total): the fuel of `registerNode`.

`registerNode`, `registerObject`, `registerList`, `registerFields` (`Impl/SchemaParse.lean`) take
an explicit fuel and return `.error .panic` when it runs out.  `rawBound raw` is *exactly* what a
call on `raw` can consume (one unit for `registerNode`, one for `registerObject`, one per element
of a union / field list already passed, then the child): a function of the raw tree only.

* `register_fuel_step`: with at least `rawBound raw` fuel, one more unit changes nothing (value
  or error);
* `register_errors`: with at least `rawBound raw` fuel the only error is `custom` (never the fuel
  marker `panic`);
* `rawBound_le_sizeRaw`: `rawBound raw ≤ sizeRaw raw` (the node count used by C07).
-/
namespace Avro.Impl

mutual
/-- Fuel `registerNode` needs on `raw`, whatever the state: depth of the tree, where the `i`-th
    element (from 0) of a union or of a field list sits `i + 1` deeper than the list and only the
    attribute the type name selects (`items` / `values` / `fields`) is looked at. -/
def rawBound : RawSchema → Nat
  | .type _ => 2
  | .ref _ => 1
  | .union bs => 1 + rawBoundList bs
  | .object a fields items values =>
    2 + (match a.type with
      | .array => rawBoundO items
      | .map => rawBoundO values
      | .record => rawBoundOF fields
      | _ => 0)
def rawBoundO : Option RawSchema → Nat
  | none => 0
  | some r => rawBound r
def rawBoundOF : Option (List (String × RawSchema)) → Nat
  | none => 0
  | some fs => rawBoundFields fs
def rawBoundList : List RawSchema → Nat
  | [] => 0
  | r :: rest => 1 + max (rawBound r) (rawBoundList rest)
def rawBoundFields : List (String × RawSchema) → Nat
  | [] => 0
  | (_, r) :: rest => 1 + max (rawBound r) (rawBoundFields rest)
end

/-- what `bodyStep` (the body of `registerObject`) needs -/
def bodyBound (t : RawType) (ofields : Option (List (String × RawSchema)))
    (oitems ovalues : Option RawSchema) : Nat :=
  match t with
  | .array => rawBoundO oitems
  | .map => rawBoundO ovalues
  | .record => rawBoundOF ofields
  | _ => 0

theorem rawBound_object (a : RawAttrs) (fields items values) :
    rawBound (.object a fields items values) = 2 + bodyBound a.type fields items values := by
  simp only [rawBound, bodyBound]

theorem bodyBound_none (t : RawType) : bodyBound t none none none = 0 := by
  cases t <;> simp [bodyBound, rawBoundO, rawBoundOF]

theorem rawBound_pos (raw : RawSchema) : 1 ≤ rawBound raw := by
  cases raw <;> simp only [rawBound] <;> omega

/-! ### one more unit of fuel changes nothing -/

theorem bodyStep_fuel_step {f : Nat}
    (ihN : ∀ raw ns st, rawBound raw ≤ f → registerNode f raw ns st = registerNode (f + 1) raw ns st)
    (ihF : ∀ l ns st, rawBoundFields l ≤ f →
      registerFields f l ns st = registerFields (f + 1) l ns st)
    (t : RawType) (o : Option RawAttrs) (of : Option (List (String × RawSchema)))
    (oi ov : Option RawSchema) (enc : Option String) (nk : Option NameKey) (st : PState)
    (h : bodyBound t of oi ov ≤ f) :
    bodyStep f t o of oi ov enc nk st = bodyStep (f + 1) t o of oi ov enc nk st := by
  cases t with
  | array =>
    cases oi with
    | none => rfl
    | some items =>
      simp only [bodyBound, rawBoundO] at h
      simp only [bodyStep, ihN items enc st h]
  | map =>
    cases ov with
    | none => rfl
    | some values =>
      simp only [bodyBound, rawBoundO] at h
      simp only [bodyStep, ihN values enc st h]
  | record =>
    cases nk with
    | none => rfl
    | some k =>
      cases of with
      | none => rfl
      | some fields =>
        simp only [bodyBound, rawBoundOF] at h
        simp only [bodyStep, ihF fields k.ns st h]
  | null => rfl
  | boolean => rfl
  | int => rfl
  | long => rfl
  | float => rfl
  | double => rfl
  | bytes => rfl
  | string => rfl
  | enum => rfl
  | fixed => rfl

theorem register_fuel_step (f : Nat) :
    (∀ raw ns st, rawBound raw ≤ f → registerNode f raw ns st = registerNode (f + 1) raw ns st) ∧
    (∀ t o of oi ov ns st, 1 + bodyBound t of oi ov ≤ f →
      registerObject f t o of oi ov ns st = registerObject (f + 1) t o of oi ov ns st) ∧
    (∀ l ns st, rawBoundList l ≤ f → registerList f l ns st = registerList (f + 1) l ns st) ∧
    (∀ l ns st, rawBoundFields l ≤ f →
      registerFields f l ns st = registerFields (f + 1) l ns st) := by
  induction f with
  | zero =>
    refine ⟨?_, ?_, ?_, ?_⟩
    · intro raw ns st h; have := rawBound_pos raw; omega
    · intro t o of oi ov ns st h; omega
    · intro l ns st h
      cases l with
      | nil => rfl
      | cons r rest => simp only [rawBoundList] at h; omega
    · intro l ns st h
      cases l with
      | nil => rfl
      | cons p rest => obtain ⟨n, r⟩ := p; simp only [rawBoundFields] at h; omega
  | succ f ih =>
    obtain ⟨ihN, ihO, ihL, ihF⟩ := ih
    refine ⟨?_, ?_, ?_, ?_⟩
    · intro raw ns st h
      cases raw with
      | ref r => simp only [registerNode]
      | type t =>
        simp only [rawBound] at h
        simp only [registerNode]
        exact ihO t none none none none ns st (by rw [bodyBound_none]; omega)
      | object a fields items values =>
        rw [rawBound_object] at h
        simp only [registerNode]
        exact ihO a.type (some a) fields items values ns st (by omega)
      | union bs =>
        simp only [rawBound] at h
        simp only [registerNode]
        rw [ihL bs ns _ (by omega)]
    · intro t o of oi ov ns st h
      rw [registerObject_eq, registerObject_eq]
      cases hn : nameStep o ns st with
      | error e => rfl
      | ok p =>
        obtain ⟨nk, st1⟩ := p
        simp only []
        rw [bodyStep_fuel_step ihN ihF t o of oi ov ns nk st1 (by omega)]
    · intro l ns st h
      cases l with
      | nil => rfl
      | cons r rest =>
        simp only [rawBoundList] at h
        simp only [registerList]
        rw [ihN r ns st (by omega)]
        cases registerNode (f + 1) r ns st with
        | error e => rfl
        | ok p =>
          obtain ⟨k, st1⟩ := p
          simp only []
          rw [ihL rest ns st1 (by omega)]
    · intro l ns st h
      cases l with
      | nil => rfl
      | cons p rest =>
        obtain ⟨name, r⟩ := p
        simp only [rawBoundFields] at h
        simp only [registerFields]
        rw [ihN r ns st (by omega)]
        cases registerNode (f + 1) r ns st with
        | error e => rfl
        | ok p =>
          obtain ⟨k, st1⟩ := p
          simp only []
          rw [ihF rest ns st1 (by omega)]

theorem registerNode_fuel_le {raw : RawSchema} {f f' : Nat} (h : rawBound raw ≤ f) (hle : f ≤ f')
    (ns : Option String) (st : PState) : registerNode f raw ns st = registerNode f' raw ns st := by
  induction hle with
  | refl => rfl
  | @step m hm ih =>
    have hm' : f ≤ m := hm
    rw [ih]; exact (register_fuel_step m).1 raw ns st (by omega)

theorem registerList_fuel_le {l : List RawSchema} {f f' : Nat} (h : rawBoundList l ≤ f)
    (hle : f ≤ f') (ns : Option String) (st : PState) :
    registerList f l ns st = registerList f' l ns st := by
  induction hle with
  | refl => rfl
  | @step m hm ih =>
    have hm' : f ≤ m := hm
    rw [ih]; exact (register_fuel_step m).2.2.1 l ns st (by omega)

theorem registerFields_fuel_le {l : List (String × RawSchema)} {f f' : Nat}
    (h : rawBoundFields l ≤ f) (hle : f ≤ f') (ns : Option String) (st : PState) :
    registerFields f l ns st = registerFields f' l ns st := by
  induction hle with
  | refl => rfl
  | @step m hm ih =>
    have hm' : f ≤ m := hm
    rw [ih]; exact (register_fuel_step m).2.2.2 l ns st (by omega)

theorem registerObject_fuel_le {t o of oi ov} {f f' : Nat} (h : 1 + bodyBound t of oi ov ≤ f)
    (hle : f ≤ f') (ns : Option String) (st : PState) :
    registerObject f t o of oi ov ns st = registerObject f' t o of oi ov ns st := by
  induction hle with
  | refl => rfl
  | @step m hm ih =>
    have hm' : f ≤ m := hm
    rw [ih]; exact (register_fuel_step m).2.1 t o of oi ov ns st (by omega)

/-! ### with enough fuel the only error is `custom` -/

theorem logicalOf_error {o : RawAttrs} {e : SchemaErr} (h : logicalOf o = .error e) :
    e = .custom := by
  unfold logicalOf at h
  split at h
  · cases h
  · split at h
    · cases h; rfl
    · cases h
  all_goals cases h

theorem logicalStep_error {o : Option RawAttrs} {e : SchemaErr} (h : logicalStep o = .error e) :
    e = .custom := by
  cases o with
  | none => cases h
  | some a => exact logicalOf_error h

theorem bodyStep_error {f : Nat}
    (ihN : ∀ raw ns st e, rawBound raw ≤ f → registerNode f raw ns st = .error e → e = .custom)
    (ihF : ∀ l ns st e, rawBoundFields l ≤ f → registerFields f l ns st = .error e → e = .custom)
    {t : RawType} {o : Option RawAttrs} {of : Option (List (String × RawSchema))}
    {oi ov : Option RawSchema} {enc : Option String} {nk : Option NameKey} {st : PState}
    {e : SchemaErr} (hb : bodyBound t of oi ov ≤ f)
    (h : bodyStep f t o of oi ov enc nk st = .error e) : e = .custom := by
  cases t with
  | array =>
    cases oi with
    | none => simp only [bodyStep] at h; cases h; rfl
    | some items =>
      simp only [bodyBound, rawBoundO] at hb
      simp only [bodyStep] at h
      split at h
      · rename_i e' he; cases h; exact ihN _ _ _ _ hb he
      · cases h
  | map =>
    cases ov with
    | none => simp only [bodyStep] at h; cases h; rfl
    | some values =>
      simp only [bodyBound, rawBoundO] at hb
      simp only [bodyStep] at h
      split at h
      · rename_i e' he; cases h; exact ihN _ _ _ _ hb he
      · cases h
  | record =>
    cases nk with
    | none => simp only [bodyStep] at h; cases h; rfl
    | some k =>
      cases of with
      | none => simp only [bodyStep] at h; cases h; rfl
      | some fields =>
        simp only [bodyBound, rawBoundOF] at hb
        simp only [bodyStep] at h
        split at h
        · rename_i e' he; cases h; exact ihF _ _ _ _ hb he
        · cases h
  | enum =>
    cases nk with
    | none => simp only [bodyStep] at h; cases h; rfl
    | some k =>
      simp only [bodyStep] at h
      split at h
      · cases h; rfl
      · cases h
  | fixed =>
    cases nk with
    | none => simp only [bodyStep] at h; cases h; rfl
    | some k =>
      simp only [bodyStep] at h
      split at h
      · cases h; rfl
      · cases h
  | null => simp only [bodyStep] at h; cases h
  | boolean => simp only [bodyStep] at h; cases h
  | int => simp only [bodyStep] at h; cases h
  | long => simp only [bodyStep] at h; cases h
  | float => simp only [bodyStep] at h; cases h
  | double => simp only [bodyStep] at h; cases h
  | bytes => simp only [bodyStep] at h; cases h
  | string => simp only [bodyStep] at h; cases h

theorem register_errors (f : Nat) :
    (∀ raw ns st e, rawBound raw ≤ f → registerNode f raw ns st = .error e → e = .custom) ∧
    (∀ t o of oi ov ns st e, 1 + bodyBound t of oi ov ≤ f →
      registerObject f t o of oi ov ns st = .error e → e = .custom) ∧
    (∀ l ns st e, rawBoundList l ≤ f → registerList f l ns st = .error e → e = .custom) ∧
    (∀ l ns st e, rawBoundFields l ≤ f → registerFields f l ns st = .error e → e = .custom) := by
  induction f with
  | zero =>
    refine ⟨?_, ?_, ?_, ?_⟩
    · intro raw ns st e h; have := rawBound_pos raw; omega
    · intro t o of oi ov ns st e h; omega
    · intro l ns st e h he
      cases l with
      | nil => simp [registerList] at he
      | cons r rest => simp only [rawBoundList] at h; omega
    · intro l ns st e h he
      cases l with
      | nil => simp [registerFields] at he
      | cons p rest => obtain ⟨n, r⟩ := p; simp only [rawBoundFields] at h; omega
  | succ f ih =>
    obtain ⟨ihN, ihO, ihL, ihF⟩ := ih
    refine ⟨?_, ?_, ?_, ?_⟩
    · intro raw ns st e h he
      cases raw with
      | ref r =>
        simp only [registerNode] at he
        split at he <;> cases he
      | type t =>
        simp only [rawBound] at h
        simp only [registerNode] at he
        exact ihO t none none none none ns st e (by rw [bodyBound_none]; omega) he
      | object a fields items values =>
        rw [rawBound_object] at h
        simp only [registerNode] at he
        exact ihO a.type (some a) fields items values ns st e (by omega) he
      | union bs =>
        simp only [rawBound] at h
        simp only [registerNode] at he
        split at he
        · rename_i e' hl; cases he; exact ihL _ _ _ _ (by omega) hl
        · cases he
    · intro t o of oi ov ns st e h he
      rw [registerObject_eq] at he
      cases hn : nameStep o ns st with
      | error e' => rw [hn] at he; cases he; exact nameStep_error hn
      | ok p =>
        obtain ⟨nk, st1⟩ := p
        rw [hn] at he
        simp only [] at he
        cases hb : bodyStep f t o of oi ov ns nk st1 with
        | error e' =>
          rw [hb] at he; cases he
          exact bodyStep_error ihN ihF (by omega) hb
        | ok q =>
          obtain ⟨ty, st2⟩ := q
          rw [hb] at he
          simp only [] at he
          cases hl : logicalStep o with
          | error e' => rw [hl] at he; cases he; exact logicalStep_error hl
          | ok lt => rw [hl] at he; cases he
    · intro l ns st e h he
      cases l with
      | nil => simp [registerList] at he
      | cons r rest =>
        simp only [rawBoundList] at h
        simp only [registerList] at he
        split at he
        · rename_i e' h1; cases he; exact ihN _ _ _ _ (by omega) h1
        · split at he
          · rename_i e' h2; cases he; exact ihL _ _ _ _ (by omega) h2
          · cases he
    · intro l ns st e h he
      cases l with
      | nil => simp [registerFields] at he
      | cons p rest =>
        obtain ⟨name, r⟩ := p
        simp only [rawBoundFields] at h
        simp only [registerFields] at he
        split at he
        · rename_i e' h1; cases he; exact ihN _ _ _ _ (by omega) h1
        · split at he
          · rename_i e' h2; cases he; exact ihF _ _ _ _ (by omega) h2
          · cases he

/-! ### `rawBound` against the node count `sizeRaw` of C07 -/

open Avro.ValidParses in
theorem rawBound_le_sizeRaw_aux (n : Nat) :
    (∀ raw, sizeOf raw ≤ n → rawBound raw ≤ sizeRaw raw) ∧
    (∀ l : List RawSchema, sizeOf l ≤ n → rawBoundList l ≤ sizeRawList l) ∧
    (∀ l : List (String × RawSchema), sizeOf l ≤ n → rawBoundFields l ≤ sizeRawFields l) := by
  induction n with
  | zero =>
    refine ⟨?_, ?_, ?_⟩
    · intro raw h; cases raw <;> simp at h
    · intro l h; cases l <;> simp at h
    · intro l h; cases l <;> simp at h
  | succ n ih =>
    obtain ⟨ihN, ihL, ihF⟩ := ih
    refine ⟨?_, ?_, ?_⟩
    · intro raw h
      cases raw with
      | type t => simp [rawBound, sizeRaw]
      | ref r => simp [rawBound, sizeRaw]
      | union bs =>
        simp only [RawSchema.union.sizeOf_spec] at h
        have := ihL bs (by omega)
        simp only [rawBound, sizeRaw]; omega
      | object a fields items values =>
        simp only [RawSchema.object.sizeOf_spec] at h
        have hi : rawBoundO items ≤ sizeRawO items := by
          cases items with
          | none => simp [rawBoundO]
          | some r =>
            simp only [Option.some.sizeOf_spec] at h
            simpa [rawBoundO, sizeRawO] using ihN r (by omega)
        have hv : rawBoundO values ≤ sizeRawO values := by
          cases values with
          | none => simp [rawBoundO]
          | some r =>
            simp only [Option.some.sizeOf_spec] at h
            simpa [rawBoundO, sizeRawO] using ihN r (by omega)
        have hf : rawBoundOF fields ≤ sizeRawOF fields := by
          cases fields with
          | none => simp [rawBoundOF]
          | some fs =>
            simp only [Option.some.sizeOf_spec] at h
            simpa [rawBoundOF, sizeRawOF] using ihF fs (by omega)
        rw [rawBound_object]
        simp only [sizeRaw]
        have : bodyBound a.type fields items values ≤
            sizeRawO items + sizeRawO values + sizeRawOF fields := by
          unfold bodyBound; split <;> omega
        omega
    · intro l h
      cases l with
      | nil => simp [rawBoundList]
      | cons r rest =>
        simp only [List.cons.sizeOf_spec] at h
        have h1 := ihN r (by omega)
        have h2 := ihL rest (by omega)
        simp only [rawBoundList, sizeRawList]; omega
    · intro l h
      cases l with
      | nil => simp [rawBoundFields]
      | cons p rest =>
        obtain ⟨name, r⟩ := p
        simp only [List.cons.sizeOf_spec, Prod.mk.sizeOf_spec] at h
        have h1 := ihN r (by omega)
        have h2 := ihF rest (by omega)
        simp only [rawBoundFields, sizeRawFields]; omega

/-- the exact fuel need is at most the node count C07 uses -/
theorem rawBound_le_sizeRaw (raw : RawSchema) : rawBound raw ≤ Avro.ValidParses.sizeRaw raw :=
  (rawBound_le_sizeRaw_aux _).1 raw (Nat.le_refl _)


/-! ### the readers of `raw.rs` only fail with `json` -/

open Avro.PcfSpec

theorem bind_err {α β : Type} {x : Except SchemaErr α} {f : α → Except SchemaErr β} {e : SchemaErr}
    (h : x >>= f = .error e) : x = .error e ∨ ∃ a, x = .ok a ∧ f a = .error e := by
  cases x with
  | error e' => left; cases h; rfl
  | ok a => right; exact ⟨a, rfl, h⟩

theorem member_error {ms : List (String × Json)} {key : String} {e : SchemaErr}
    (h : member ms key = .error e) : e = .json := by
  unfold member at h
  split at h
  · cases h
  · cases h
  · cases h; rfl

theorem optString_error {j : Option Json} {e : SchemaErr} (h : optString j = .error e) :
    e = .json := by
  unfold optString at h
  split at h <;> cases h
  rfl

theorem optNat_error {j : Option Json} {max : Nat} {e : SchemaErr} (h : optNat j max = .error e) :
    e = .json := by
  unfold optNat at h
  split at h
  · cases h
  · cases h
  · split at h
    · cases h
    · cases h; rfl
  · cases h; rfl

theorem stType_error {ms e} (h : stType ms = .error e) : e = .json := by
  unfold stType at h
  split at h
  · rename_i e' hm; cases h; exact member_error hm
  · split at h
    · cases h
    · cases h; rfl
  · cases h; rfl

theorem stStr_error {ms key e} (h : stStr ms key = .error e) : e = .json := by
  unfold stStr at h
  rcases bind_err h with hm | ⟨a, -, ha⟩
  · exact member_error hm
  · exact optString_error ha

theorem stNat_error {ms key max e} (h : stNat ms key max = .error e) : e = .json := by
  unfold stNat at h
  rcases bind_err h with hm | ⟨a, -, ha⟩
  · exact member_error hm
  · exact optNat_error ha

theorem stSymbols_error {ms e} (h : stSymbols ms = .error e) : e = .json := by
  unfold stSymbols at h
  split at h
  · rename_i e' hm; cases h; exact member_error hm
  · cases h
  · cases h
  · split at h
    · cases h
    · cases h; rfl
  · cases h; rfl

theorem stFields_error {f ms e}
    (ihF : ∀ js e, rawFieldsOfJson f js = .error e → e = .json)
    (h : stFields f ms = .error e) : e = .json := by
  unfold stFields at h
  split at h
  · rename_i e' hm; cases h; exact member_error hm
  · cases h
  · cases h
  · split at h
    · cases h
    · rename_i e' he; cases h; exact ihF _ _ he
  · cases h; rfl

theorem stSchema_error {f ms key e}
    (ihJ : ∀ j e, rawOfJson f j = .error e → e = .json)
    (h : stSchema f ms key = .error e) : e = .json := by
  unfold stSchema at h
  split at h
  · rename_i e' hm; cases h; exact member_error hm
  · cases h
  · cases h
  · split at h
    · cases h
    · rename_i e' he; cases h; exact ihJ _ _ he

theorem rawObject_error {f ms e}
    (ihJ : ∀ j e, rawOfJson f j = .error e → e = .json)
    (ihF : ∀ js e, rawFieldsOfJson f js = .error e → e = .json)
    (h : rawObjectOfJson (f + 1) ms = .error e) : e = .json := by
  rw [rawObjectOfJson_eq] at h
  rcases bind_err h with h | ⟨_, -, h⟩
  · exact stType_error h
  rcases bind_err h with h | ⟨_, -, h⟩
  · exact stStr_error h
  rcases bind_err h with h | ⟨_, -, h⟩
  · exact stStr_error h
  rcases bind_err h with h | ⟨_, -, h⟩
  · exact stStr_error h
  rcases bind_err h with h | ⟨_, -, h⟩
  · exact stFields_error ihF h
  rcases bind_err h with h | ⟨_, -, h⟩
  · exact stSymbols_error h
  rcases bind_err h with h | ⟨_, -, h⟩
  · exact stSchema_error ihJ h
  rcases bind_err h with h | ⟨_, -, h⟩
  · exact stSchema_error ihJ h
  rcases bind_err h with h | ⟨_, -, h⟩
  · exact stNat_error h
  rcases bind_err h with h | ⟨_, -, h⟩
  · exact stNat_error h
  rcases bind_err h with h | ⟨_, -, h⟩
  · exact stNat_error h
  cases h

theorem raw_errors (f : Nat) :
    (∀ j e, rawOfJson f j = .error e → e = .json) ∧
    (∀ js e, rawListOfJson f js = .error e → e = .json) ∧
    (∀ ms e, rawObjectOfJson f ms = .error e → e = .json) ∧
    (∀ js e, rawFieldsOfJson f js = .error e → e = .json) := by
  induction f with
  | zero =>
    refine ⟨?_, ?_, ?_, ?_⟩
    · intro j e h; simp only [rawOfJson] at h; cases h; rfl
    · intro js e h
      cases js with
      | nil => simp [rawListOfJson] at h
      | cons j js => simp only [rawListOfJson] at h; cases h; rfl
    · intro ms e h; simp only [rawObjectOfJson] at h; cases h; rfl
    · intro js e h
      cases js with
      | nil => simp [rawFieldsOfJson] at h
      | cons j js => simp only [rawFieldsOfJson] at h; cases h; rfl
  | succ f ih =>
    obtain ⟨ihJ, ihL, ihO, ihF⟩ := ih
    refine ⟨?_, ?_, ?_, ?_⟩
    · intro j e h
      cases j with
      | str s =>
        simp only [rawOfJson] at h
        split at h <;> cases h
      | arr items =>
        simp only [rawOfJson] at h
        split at h
        · cases h
        · rename_i e' he; cases h; exact ihL _ _ he
      | obj ms => simp only [rawOfJson] at h; exact ihO _ _ h
      | null => simp only [rawOfJson] at h; cases h; rfl
      | bool b => simp only [rawOfJson] at h; cases h; rfl
      | nat n => simp only [rawOfJson] at h; cases h; rfl
      | numOther => simp only [rawOfJson] at h; cases h; rfl
    · intro js e h
      cases js with
      | nil => simp [rawListOfJson] at h
      | cons j js =>
        simp only [rawListOfJson] at h
        split at h
        · rename_i e' he; cases h; exact ihJ _ _ he
        · split at h
          · rename_i e' he; cases h; exact ihL _ _ he
          · cases h
    · intro ms e h; exact rawObject_error ihJ ihF h
    · intro js e h
      cases js with
      | nil => simp [rawFieldsOfJson] at h
      | cons j js =>
        cases j with
        | obj fm =>
          simp only [rawFieldsOfJson] at h
          split at h
          · split at h
            · rename_i e' he; cases h; exact ihJ _ _ he
            · split at h
              · rename_i e' he; cases h; exact ihF _ _ he
              · cases h
          · cases h; rfl
        | null => simp only [rawFieldsOfJson] at h; cases h; rfl
        | bool b => simp only [rawFieldsOfJson] at h; cases h; rfl
        | nat n => simp only [rawFieldsOfJson] at h; cases h; rfl
        | numOther => simp only [rawFieldsOfJson] at h; cases h; rfl
        | str s => simp only [rawFieldsOfJson] at h; cases h; rfl
        | arr l => simp only [rawFieldsOfJson] at h; cases h; rfl

/-- whatever the gas, `rawOfJson` only ever fails with `json` -/
theorem rawOfJson_error {f : Nat} {j : Json} {e : SchemaErr} (h : rawOfJson f j = .error e) :
    e = .json := (raw_errors f).1 j e h

theorem resolveKeys_error {st : PState} {e : SchemaErr} (h : resolveKeys st = .error e) :
    e = .custom := by
  unfold resolveKeys at h
  split at h
  · cases h; rfl
  · cases h


/-! ### nesting depth of the raw tree (the recursion depth of `register_node` in the crate)

The fuel of the model also pays for the position in a union / field list (`registerList` and
`registerFields` hand the tail one unit less).  The crate iterates there; its call stack only
grows with the nesting of the raw tree, `rawDepth`, which `serde_json`'s recursion limit bounds:
`rawDepth raw ≤ jsonNesting j + 1`. -/

mutual
/-- number of nested `register_node` frames on `raw`, at most (every attribute counted, whatever
    the type name) -/
def rawDepth : RawSchema → Nat
  | .type _ => 1
  | .ref _ => 1
  | .union bs => 1 + rawDepthList bs
  | .object _ fields items values =>
    1 + max (rawDepthOF fields) (max (rawDepthO items) (rawDepthO values))
def rawDepthO : Option RawSchema → Nat
  | none => 0
  | some r => rawDepth r
def rawDepthOF : Option (List (String × RawSchema)) → Nat
  | none => 0
  | some fs => rawDepthFields fs
def rawDepthList : List RawSchema → Nat
  | [] => 0
  | r :: rest => max (rawDepth r) (rawDepthList rest)
def rawDepthFields : List (String × RawSchema) → Nat
  | [] => 0
  | (_, r) :: rest => max (rawDepth r) (rawDepthFields rest)
end

open Avro.Spec.Pcf Avro.ValidParses

theorem jsonNesting_attr {key : String} {ms : List (String × Json)} {j : Json}
    (h : attr key ms = some j) : jsonNesting j ≤ jsonNestingMembers ms := by
  induction ms with
  | nil => simp [attr] at h
  | cons p rest ih =>
    obtain ⟨k, v⟩ := p
    simp only [attr] at h
    simp only [jsonNestingMembers]
    split at h
    · cases h; omega
    · have := ih h; omega

theorem depth_opt {key ms r}
    (h : OptRead (fun j raw => rawDepth raw ≤ jsonNesting j + 1) key ms r) :
    rawDepthO r ≤ jsonNestingMembers ms + 1 := by
  rcases h with ⟨rfl, -⟩ | ⟨j, x, ha, -, hP, rfl⟩
  · simp [rawDepthO]
  · have := jsonNesting_attr ha
    simp only [rawDepthO]; omega

theorem depth_fields {ms r}
    (h : FieldsRead (fun js fs => rawDepthFields fs ≤ jsonNestingList js) ms r) :
    rawDepthOF r ≤ jsonNestingMembers ms := by
  rcases h with ⟨rfl, -⟩ | ⟨its, fs, ha, hP, rfl⟩
  · simp [rawDepthOF]
  · have := jsonNesting_attr ha
    simp only [jsonNesting] at this
    simp only [rawDepthOF]; omega

theorem read_depth_aux (fuel : Nat) :
    (∀ j raw, rawOfJson fuel j = .ok raw → rawDepth raw ≤ jsonNesting j + 1) ∧
    (∀ js rs, rawListOfJson fuel js = .ok rs → rawDepthList rs ≤ jsonNestingList js + 1) ∧
    (∀ ms raw, rawObjectOfJson fuel ms = .ok raw → rawDepth raw ≤ jsonNesting (.obj ms) + 1) ∧
    (∀ js fs, rawFieldsOfJson fuel js = .ok fs → rawDepthFields fs ≤ jsonNestingList js) := by
  apply raw_read_ind (fun j raw => rawDepth raw ≤ jsonNesting j + 1)
    (fun js rs => rawDepthList rs ≤ jsonNestingList js + 1)
    (fun js fs => rawDepthFields fs ≤ jsonNestingList js)
  · intro s t _; simp [rawDepth]
  · intro s _; simp [rawDepth]
  · intro js rs h; simp only [rawDepth, jsonNesting]; omega
  · intro ms a fields items values _ hf hi hv
    have h1 := depth_fields hf
    have h2 := depth_opt hi
    have h3 := depth_opt hv
    simp only [rawDepth, jsonNesting]; omega
  · simp [rawDepthList]
  · intro j js r rs h1 h2; simp only [rawDepthList, jsonNestingList]; omega
  · simp [rawDepthFields]
  · intro fm js name t r fs _ ht h1 h2
    have := jsonNesting_attr ht
    simp only [rawDepthFields, jsonNestingList, jsonNesting]; omega

/-- the raw tree is nested at most one deeper than the containers of the document -/
theorem read_depth {fuel j raw} (h : rawOfJson fuel j = .ok raw) :
    rawDepth raw ≤ jsonNesting j + 1 := (read_depth_aux fuel).1 j raw h

end Avro.Impl
