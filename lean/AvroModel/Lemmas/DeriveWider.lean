import AvroModel.Lemmas.DeriveGeneric
/-
C20, wider.  The fragment `FitWfW` of `C20_fits_wider`: `FitWfG` (`Lemmas/DeriveGeneric.lean`) plus

1. generic forwarding newtypes `struct N<T>(F<T>);` (no logical-type attribute, field not `[u8; N]`
   as written), instantiated at any depth — the newtype is transparent to the builder (same lookup
   type, same node as `F<args>`), serde presents `newtype_struct`;
2. `Option<T>` (and forwarding newtypes `N<T>(T)`) with `T` a bare type parameter: the parameter is
   *marked* ("must be instantiated with a type whose node is neither null nor a union"), and every
   instantiation site `D<.., A, ..>` of a declaration with a marked parameter must supply an argument
   `A` that is plain — itself possibly a marked parameter of the enclosing declaration, or a
   forwarding newtype around one.

Marks are a table `Marks` (declaration ↦ parameter ↦ Bool).  `FitWfWith P M K root` checks the program
against a given table (`K` bounds the chains of forwarding newtypes followed when deciding whether
a type is plain); `FitWfW` tries three tables: no marks, the marks inferred by iteration
(`inferMarks`), all marks.  The proofs only use that *some* table passes the check.

The builder invariant (`DeriveG.Inv`, `DeriveG.KeyNode`) is that of the generic-record fragment,
unchanged: forwarding newtypes own no node and no key.
-/
namespace Avro.Theorems.DeriveW
open Avro Avro.Impl Avro.Impl.Derive Avro.Theorems.DeriveG
open Avro.Theorems.DeriveFits hiding Inv KeyNode Done app_leaf app_fill app_step_leaf plainAt_of_done leaf_realizes leaf_keyNode

/-! ### The fragment -/

mutual
/-- The type expression mentions a type parameter. -/
def hasParam : Ty → Bool
  | .vec t => hasParam t
  | .option t => hasParam t
  | .hashMap t => hasParam t
  | .btreeMap t => hasParam t
  | .ptr t => hasParam t
  | .named _ args => hasParams args
  | .param _ => true
  | _ => false
def hasParams : List Ty → Bool
  | [] => false
  | t :: ts => hasParam t || hasParams ts
end

/-- A declaration that takes type arguments: a generic record, a forwarding newtype with
    parameters whose field type mentions one, or a generic enum that maps to a union (no such enum
    is in `FitWfW`, `declOkWith`; they are admitted by `Lemmas/DeriveWiderU.lean`). -/
def isGenW (d : Decl) : Bool :=
  decide (d.nparams ≠ 0) &&
    (match d.body with
      | .record _ => true
      | .newtype fd => isDirect fd .newtypeStruct && hasParam fd.ty
      | .union _ => true
      | _ => false)

/-- Number of type parameters in scope in the fields of the declaration. -/
def scopeW (d : Decl) : Nat := if isGenW d then d.nparams else 0

abbrev Marks := Nat → Nat → Bool

def noCtx : Nat → Bool := fun _ => false

/-- The type's node is neither `null` nor a union, given which parameters in scope are (`ctx`):
    not `()`/`Option` behind pointers and forwarding newtypes; a forwarding newtype `N<as>` is
    plain when its field type is, its parameters standing for `as` (`n` bounds the length of a
    chain of newtypes). -/
def plainW (P : Prog) : (Nat → Bool) → Nat → Ty → Bool
  | _, 0, _ => false
  | ctx, n + 1, t =>
    match Derive.peel t with
    | .unit | .option _ | .ptr _ => false
    | .param i => ctx i
    | .named id args =>
      match P[id]? with
      | none => false
      | some d =>
        match d.body with
        | .newtype fd =>
          fd.attr.logical.isNone &&
            (if isDirect fd .newtypeStruct then
              plainW P (fun j => match args[j]? with | some a => plainW P ctx n a | none => false) n fd.ty
             else decide (d.nparams = 0))
        | .record _ | .unitEnum _ => true
        | .union _ => false
    | _ => true

mutual
/-- Type expressions of the fragment with `n` type parameters in scope, those in `ctx` marked.
    A generic declaration takes as many arguments as it has parameters, other declarations none;
    an argument for a marked parameter must be plain; `Option<T>` needs `T` plain. -/
def tyOkW (P : Prog) (M : Marks) (K n : Nat) (ctx : Nat → Bool) : Ty → Bool
  | .vec t => tyOkW P M K n ctx t
  | .hashMap t => tyOkW P M K n ctx t
  | .btreeMap t => tyOkW P M K n ctx t
  | .ptr t => tyOkW P M K n ctx t
  | .option t => tyOkW P M K n ctx t && plainW P ctx K t
  | .named id args =>
    (match P[id]? with
      | none => false
      | some d => if isGenW d then args.length == d.nparams else args.isEmpty) &&
      tysOkW P M K n ctx id 0 args
  | .param i => decide (i < n)
  | _ => true
/-- The arguments of declaration `id`, from position `j` on. -/
def tysOkW (P : Prog) (M : Marks) (K n : Nat) (ctx : Nat → Bool) (id : Nat) : Nat → List Ty → Bool
  | _, [] => true
  | j, t :: ts =>
    tyOkW P M K n ctx t && (!M id j || plainW P ctx K t) && tysOkW P M K n ctx id (j + 1) ts
end

def plainFieldOkW (P : Prog) (M : Marks) (K n : Nat) (ctx : Nat → Bool) (fd : Field) : Bool :=
  fd.attr.logical.isNone && tyOkW P M K n ctx fd.ty

/-- What the builder needs of a struct field. -/
def buildFieldOkW (P : Prog) (M : Marks) (K n : Nat) (ctx : Nat → Bool) (fd : Field) : Bool :=
  plainFieldOkW P M K n ctx fd || (!fd.attr.logical.isNone && (leafNode (chosenTy fd)).isSome)

/-- Struct fields: as `fieldOkG`. -/
def fieldOkW (P : Prog) (M : Marks) (K n : Nat) (ctx : Nat → Bool) (d : Decl) (fd : Field) : Bool :=
  plainFieldOkW P M K n ctx fd ||
    (!fd.attr.logical.isNone &&
      match logicalRaw d fd with
      | some raw => nodeAccepts (freezeNode raw) (Derive.peel fd.ty)
      | none => false)

theorem fieldOkW_build {P : Prog} {M : Marks} {K n : Nat} {ctx : Nat → Bool} {d : Decl} {fd : Field}
    (h : fieldOkW P M K n ctx d fd = true) : buildFieldOkW P M K n ctx fd = true := by
  simp only [fieldOkW, Bool.or_eq_true, Bool.and_eq_true] at h
  simp only [buildFieldOkW, Bool.or_eq_true, Bool.and_eq_true]
  rcases h with h | ⟨h1, h2⟩
  · exact .inl h
  · refine .inr ⟨h1, ?_⟩
    unfold logicalRaw logicalRawAt at h2
    cases hx : leafNode (chosenTy fd) with
    | none => simp [hx] at h2
    | some x => rfl

/-- A declaration, its marked parameters being `ctx`: as `declOkG`; a forwarding newtype may have
    parameters, and must be plain (given `ctx`). -/
def declOkWith (P : Prog) (M : Marks) (K : Nat) (ctx : Nat → Bool) (d : Decl) : Bool :=
  match d.body with
  | .record fs =>
    decide (d.ident ≠ "Null") && fs.all (fieldOkW P M K (scopeW d) ctx d)
  | .newtype fd =>
    decide (d.ident ≠ "Null") && plainFieldOkW P M K (scopeW d) ctx fd &&
      (if isDirect fd .newtypeStruct then plainW P ctx K fd.ty else decide (d.nparams = 0))
  | .unitEnum _ => true
  | .union _ => false

/-- The marked parameters of declaration `id`, among the `n` in scope. -/
def ctxOf (M : Marks) (id n : Nat) : Nat → Bool := fun i => decide (i < n) && M id i

def declOkW (P : Prog) (M : Marks) (K id : Nat) (d : Decl) : Bool :=
  declOkWith P M K (ctxOf M id (scopeW d)) d

/-- The program and the root type check against the table of marks `M`. -/
def FitWfWith (P : Prog) (M : Marks) (K : Nat) (root : Ty) : Bool :=
  ((List.range P.size).all fun id => match P[id]? with | some d => declOkW P M K id d | none => true) &&
    tyOkW P M K 0 noCtx root

theorem FitWfWith_decls {P : Prog} {M : Marks} {K : Nat} {root : Ty} (h : FitWfWith P M K root = true) :
    ∀ (id : Nat) (d : Decl), P[id]? = some d → declOkW P M K id d = true := by
  simp only [FitWfWith, Bool.and_eq_true, List.all_eq_true, List.mem_range] at h
  intro id d hd
  obtain ⟨hlt, _⟩ := Array.getElem?_eq_some_iff.mp hd
  have := h.1 id hlt
  simpa [hd] using this

theorem FitWfWith_root {P : Prog} {M : Marks} {K : Nat} {root : Ty} (h : FitWfWith P M K root = true) :
    tyOkW P M K 0 noCtx root = true := by
  simp only [FitWfWith, Bool.and_eq_true] at h
  exact h.2

/-! ### Monotonicity in the fuel and the context -/

theorem plainW_mono {P : Prog} : ∀ (n n' : Nat) (ctx ctx' : Nat → Bool) (t : Ty), n ≤ n' →
    (∀ i, ctx i = true → ctx' i = true) → plainW P ctx n t = true → plainW P ctx' n' t = true := by
  intro n
  induction n with
  | zero => intro n' ctx ctx' t _ _ h; simp [plainW] at h
  | succ n ih =>
    intro n' ctx ctx' t hle hctx h
    obtain ⟨m, rfl⟩ : ∃ m, n' = m + 1 := ⟨n' - 1, by omega⟩
    unfold plainW at h ⊢
    generalize Derive.peel t = u at h
    cases u with
    | param i => exact hctx i h
    | named id args =>
      dsimp only at h ⊢
      cases hd : P[id]? with
      | none => simp [hd] at h
      | some d =>
        simp only [hd] at h ⊢
        cases hb : d.body with
        | newtype fd =>
          simp only [hb, Bool.and_eq_true] at h ⊢
          refine ⟨h.1, ?_⟩
          have h2 := h.2
          split
          · rename_i hdir
            simp only [hdir, if_true] at h2
            refine ih m _ _ fd.ty (by omega) (fun j hj => ?_) h2
            cases ha : args[j]? with
            | none => simp [ha] at hj
            | some a =>
              simp only [ha] at hj ⊢
              exact ih m ctx ctx' a (by omega) hctx hj
          · rename_i hdir
            simpa [hdir] using h2
        | record fs => rfl
        | unitEnum vs => rfl
        | union vs => simp [hb] at h
    | _ => first | exact h | rfl

mutual
theorem tyOkW_mono {P : Prog} {M : Marks} {K K' n : Nat} {ctx : Nat → Bool} (hle : K ≤ K') :
    ∀ t : Ty, tyOkW P M K n ctx t = true → tyOkW P M K' n ctx t = true
  | .vec t, h => by rw [tyOkW] at h ⊢; exact tyOkW_mono hle t h
  | .hashMap t, h => by rw [tyOkW] at h ⊢; exact tyOkW_mono hle t h
  | .btreeMap t, h => by rw [tyOkW] at h ⊢; exact tyOkW_mono hle t h
  | .ptr t, h => by rw [tyOkW] at h ⊢; exact tyOkW_mono hle t h
  | .option t, h => by
    rw [tyOkW] at h ⊢
    simp only [Bool.and_eq_true] at h ⊢
    exact ⟨tyOkW_mono hle t h.1, plainW_mono K K' ctx ctx t hle (fun _ h => h) h.2⟩
  | .named id as, h => by
    rw [tyOkW] at h ⊢
    simp only [Bool.and_eq_true] at h ⊢
    exact ⟨h.1, tysOkW_mono hle id 0 as h.2⟩
  | .param i, h => by rw [tyOkW] at h ⊢; exact h
  | .unit, _ | .bool, _ | .i8, _ | .i16, _ | .i32, _ | .i64, _ | .u16, _ | .u32, _ | .u64, _ | .usize, _
  | .f32, _ | .f64, _ | .string, _ | .str, _ | .byteVec, _ | .byteSlice, _ | .byteArray _, _ => by
    simp [tyOkW]
theorem tysOkW_mono {P : Prog} {M : Marks} {K K' n : Nat} {ctx : Nat → Bool} (hle : K ≤ K') (id : Nat) :
    ∀ (j : Nat) (ts : List Ty), tysOkW P M K n ctx id j ts = true → tysOkW P M K' n ctx id j ts = true
  | _, [], _ => by rw [tysOkW]
  | j, t :: ts, h => by
    rw [tysOkW] at h ⊢
    simp only [Bool.and_eq_true, Bool.or_eq_true] at h ⊢
    refine ⟨⟨tyOkW_mono hle t h.1.1, ?_⟩, tysOkW_mono hle id (j + 1) ts h.2⟩
    rcases h.1.2 with h' | h'
    · exact .inl h'
    · exact .inr (plainW_mono K K' ctx ctx t hle (fun _ h => h) h')
end

/-- What `tysOkW` says of each argument. -/
theorem tysOkW_get {P : Prog} {M : Marks} {K n : Nat} {ctx : Nat → Bool} {id : Nat} :
    ∀ (ts : List Ty) (j0 : Nat), tysOkW P M K n ctx id j0 ts = true →
      ∀ (j : Nat) (a : Ty), ts[j]? = some a →
        tyOkW P M K n ctx a = true ∧ (M id (j0 + j) = true → plainW P ctx K a = true)
  | [], _, _, j, a, hj => by simp at hj
  | t :: ts, j0, h, j, a, hj => by
    rw [tysOkW] at h
    simp only [Bool.and_eq_true, Bool.or_eq_true, Bool.not_eq_true'] at h
    cases j with
    | zero =>
      simp only [List.getElem?_cons_zero, Option.some.injEq] at hj
      subst hj
      refine ⟨h.1.1, fun hm => ?_⟩
      rcases h.1.2 with h' | h'
      · rw [Nat.add_zero, h'] at hm; cases hm
      · exact h'
    | succ j =>
      simp only [List.getElem?_cons_succ] at hj
      have := tysOkW_get ts (j0 + 1) h.2 j a hj
      rw [show j0 + 1 + j = j0 + (j + 1) by omega] at this
      exact this

theorem tysOkW_of_get {P : Prog} {M : Marks} {K n : Nat} {ctx : Nat → Bool} {id : Nat} :
    ∀ (ts : List Ty) (j0 : Nat),
      (∀ (j : Nat) (a : Ty), ts[j]? = some a →
        tyOkW P M K n ctx a = true ∧ (M id (j0 + j) = true → plainW P ctx K a = true)) →
      tysOkW P M K n ctx id j0 ts = true
  | [], _, _ => by rw [tysOkW]
  | t :: ts, j0, h => by
    rw [tysOkW]
    simp only [Bool.and_eq_true, Bool.or_eq_true, Bool.not_eq_true']
    obtain ⟨h1, h2⟩ := h 0 t rfl
    refine ⟨⟨h1, ?_⟩, tysOkW_of_get ts (j0 + 1) (fun j a hj => ?_)⟩
    · cases hm : M id j0 with
      | false => exact .inl rfl
      | true => exact .inr (h2 (by simpa using hm))
    · have := h (j + 1) a (by simpa using hj)
      rw [show j0 + (j + 1) = j0 + 1 + j by omega] at this
      exact this

theorem substList_getElem? (args : List Ty) : ∀ (ts : List Ty) (j : Nat),
    (substList args ts)[j]? = (ts[j]?).map (subst args)
  | [], j => by rw [substList]; simp
  | t :: ts, 0 => by rw [substList]; simp
  | t :: ts, j + 1 => by rw [substList]; simpa using substList_getElem? args ts j

/-! ### Substitution of closed arguments -/

/-- Substituting arguments that are plain where the context says so keeps a type plain (the fuels
    add up: first the chain of newtypes of `t`, then that of the argument). -/
theorem plainW_subst {P : Prog} (args : List Ty) (ctx' : Nat → Bool) (b : Nat) :
    ∀ (a : Nat) (ctx : Nat → Bool) (t : Ty),
      (∀ i, ctx i = true → plainW P ctx' b (subst args (.param i)) = true) →
      plainW P ctx a t = true → plainW P ctx' (a + b) (subst args t) = true := by
  intro a
  induction a with
  | zero => intro ctx t _ h; simp [plainW] at h
  | succ a ih =>
    intro ctx t hctx h
    rw [show a + 1 + b = (a + b) + 1 by omega]
    unfold plainW at h
    generalize hu : Derive.peel t = u at h
    cases u with
    | unit => simp at h
    | option t => simp at h
    | ptr t => simp at h
    | param i =>
      have h1 := hctx i h
      have h2 : plainW P ctx' (a + b + 1) (subst args (.param i)) = true :=
        plainW_mono b _ ctx' ctx' _ (by omega) (fun _ h => h) h1
      unfold plainW at h2 ⊢
      rw [peel_subst, hu]
      exact h2
    | named id as =>
      unfold plainW
      rw [peel_subst, hu]
      simp only [subst, Derive.peel]
      dsimp only at h
      cases hd : P[id]? with
      | none => simp [hd] at h
      | some d =>
        simp only [hd] at h ⊢
        cases hb : d.body with
        | newtype fd =>
          simp only [hb, Bool.and_eq_true] at h ⊢
          refine ⟨h.1, ?_⟩
          have h2 := h.2
          split
          · rename_i hdir
            simp only [hdir, if_true] at h2
            refine plainW_mono a (a + b) _ _ fd.ty (by omega) (fun j hj => ?_) h2
            rw [substList_getElem?]
            cases ha : as[j]? with
            | none => simp [ha] at hj
            | some x =>
              simp only [ha, Option.map_some] at hj ⊢
              exact ih ctx x hctx hj
          · rename_i hdir
            simpa [hdir] using h2
        | record fs => rfl
        | unitEnum vs => rfl
        | union vs => simp [hb] at h
    | _ =>
      unfold plainW
      rw [peel_subst, hu]
      simp [subst, Derive.peel]

/-- The arguments of an instantiation: closed types of the fragment, plain where `ctx` marks
    the parameter. -/
def ArgsOkK (P : Prog) (M : Marks) (K : Nat) (ctx : Nat → Bool) (args : List Ty) : Prop :=
  ∀ (j : Nat) (a : Ty), args[j]? = some a →
    tyOkW P M K 0 noCtx a = true ∧ (ctx j = true → plainW P noCtx K a = true)

theorem ArgsOkK.param {P : Prog} {M : Marks} {K : Nat} {n : Nat} {ctx : Nat → Bool} {args : List Ty}
    (h : ArgsOkK P M K ctx args) (hlen : args.length = n) (hctx : ∀ i, ctx i = true → i < n) :
    ∀ i, ctx i = true → plainW P noCtx K (subst args (.param i)) = true := by
  intro i hi
  have hlt : i < args.length := by rw [hlen]; exact hctx i hi
  rw [subst]
  simp only [List.getElem?_eq_getElem hlt, Option.getD_some]
  exact (h i _ (List.getElem?_eq_getElem hlt)).2 hi

mutual
theorem tyOkW_subst {P : Prog} {M : Marks} {K K' n : Nat} {ctx : Nat → Bool} {args : List Ty}
    (hargs : ArgsOkK P M K' ctx args) (hlen : args.length = n) (hctx : ∀ i, ctx i = true → i < n) :
    ∀ t : Ty, tyOkW P M K n ctx t = true → tyOkW P M (K + K') 0 noCtx (subst args t) = true
  | .vec t, h => by
    rw [subst, tyOkW]; rw [tyOkW] at h; exact tyOkW_subst hargs hlen hctx t h
  | .hashMap t, h => by
    rw [subst, tyOkW]; rw [tyOkW] at h; exact tyOkW_subst hargs hlen hctx t h
  | .btreeMap t, h => by
    rw [subst, tyOkW]; rw [tyOkW] at h; exact tyOkW_subst hargs hlen hctx t h
  | .ptr t, h => by
    rw [subst, tyOkW]; rw [tyOkW] at h; exact tyOkW_subst hargs hlen hctx t h
  | .option t, h => by
    rw [subst, tyOkW]
    rw [tyOkW] at h
    simp only [Bool.and_eq_true] at h ⊢
    exact ⟨tyOkW_subst hargs hlen hctx t h.1,
      plainW_subst args noCtx K' K ctx t (hargs.param hlen hctx) h.2⟩
  | .named id as, h => by
    rw [subst, tyOkW]
    rw [tyOkW] at h
    simp only [Bool.and_eq_true] at h ⊢
    refine ⟨?_, tysOkW_subst hargs hlen hctx id 0 as h.2⟩
    have h1 := h.1
    cases hd : P[id]? with
    | none => simp [hd] at h1
    | some d =>
      simp only [hd] at h1 ⊢
      split
      · rename_i hg; simpa [hg, substList_length] using h1
      · rename_i hg
        simp only [hg, Bool.false_eq_true, if_false, List.isEmpty_iff] at h1
        subst h1
        rw [substList]; rfl
  | .param i, h => by
    rw [tyOkW] at h
    have hi : i < args.length := by rw [hlen]; simpa using h
    rw [subst]
    simp only [List.getElem?_eq_getElem hi, Option.getD_some]
    exact tyOkW_mono (by omega) _ (hargs i _ (List.getElem?_eq_getElem hi)).1
  | .unit, _ | .bool, _ | .i8, _ | .i16, _ | .i32, _ | .i64, _ | .u16, _ | .u32, _ | .u64, _ | .usize, _
  | .f32, _ | .f64, _ | .string, _ | .str, _ | .byteVec, _ | .byteSlice, _ | .byteArray _, _ => by
    simp [subst, tyOkW]
theorem tysOkW_subst {P : Prog} {M : Marks} {K K' n : Nat} {ctx : Nat → Bool} {args : List Ty}
    (hargs : ArgsOkK P M K' ctx args) (hlen : args.length = n) (hctx : ∀ i, ctx i = true → i < n)
    (id : Nat) : ∀ (j : Nat) (ts : List Ty), tysOkW P M K n ctx id j ts = true →
      tysOkW P M (K + K') 0 noCtx id j (substList args ts) = true
  | _, [], _ => by rw [substList, tysOkW]
  | j, t :: ts, h => by
    rw [substList, tysOkW]
    rw [tysOkW] at h
    simp only [Bool.and_eq_true, Bool.or_eq_true] at h ⊢
    refine ⟨⟨tyOkW_subst hargs hlen hctx t h.1.1, ?_⟩, tysOkW_subst hargs hlen hctx id (j + 1) ts h.2⟩
    rcases h.1.2 with h' | h'
    · exact .inl h'
    · exact .inr (plainW_subst args noCtx K' K ctx t (hargs.param hlen hctx) h')
end

theorem tyOkW_peel (P : Prog) (M : Marks) (K n : Nat) (ctx : Nat → Bool) :
    ∀ {t : Ty}, tyOkW P M K n ctx t = true → tyOkW P M K n ctx (Derive.peel t) = true
  | .ptr t, h => by
    have h' : tyOkW P M K n ctx t = true := by simpa [tyOkW] using h
    exact (tyOkW_peel P M K n ctx h' : tyOkW P M K n ctx (Derive.peel t) = true)
  | .unit, h | .bool, h | .i8, h | .i16, h | .i32, h | .i64, h | .u16, h
  | .u32, h | .u64, h | .usize, h | .f32, h | .f64, h | .string, h | .str, h
  | .byteVec, h | .byteSlice, h | .byteArray _, h | .vec _, h | .option _, h
  | .hashMap _, h | .btreeMap _, h | .named _ _, h | .param _, h => by
    simpa [Derive.peel] using h

/-- Closed types of the fragment, for some bound on newtype chains. -/
def OkT (P : Prog) (M : Marks) (t : Ty) : Prop := ∃ K, tyOkW P M K 0 noCtx t = true

/-- Closed argument lists. -/
def ArgsOk (P : Prog) (M : Marks) (ctx : Nat → Bool) (args : List Ty) : Prop := ∃ K, ArgsOkK P M K ctx args

theorem ArgsOk.nil (P : Prog) (M : Marks) (ctx : Nat → Bool) : ArgsOk P M ctx [] :=
  ⟨0, fun j a hj => by simp at hj⟩

theorem OkT.subst {P : Prog} {M : Marks} {K n : Nat} {ctx : Nat → Bool} {args : List Ty} {t : Ty}
    (hargs : ArgsOk P M ctx args) (hlen : args.length = n) (hctx : ∀ i, ctx i = true → i < n)
    (h : tyOkW P M K n ctx t = true) : OkT P M (subst args t) := by
  obtain ⟨K', hargs⟩ := hargs
  exact ⟨K + K', tyOkW_subst hargs hlen hctx t h⟩

theorem ctxOf_lt {M : Marks} {id n : Nat} : ∀ i, ctxOf M id n i = true → i < n := by
  intro i h
  simp only [ctxOf, Bool.and_eq_true, decide_eq_true_eq] at h
  exact h.1

/-- The arguments of a closed instantiation of a generic declaration. -/
theorem OkT.args {P : Prog} {M : Marks} {id : Nat} {args : List Ty} (h : OkT P M (.named id args)) (n : Nat) :
    ArgsOk P M (ctxOf M id n) args := by
  obtain ⟨K, h⟩ := h
  rw [tyOkW] at h
  simp only [Bool.and_eq_true] at h
  refine ⟨K, fun j a hj => ?_⟩
  obtain ⟨h1, h2⟩ := tysOkW_get args 0 h.2 j a hj
  refine ⟨h1, fun hc => h2 ?_⟩
  simp only [ctxOf, Bool.and_eq_true] at hc
  simpa using hc.2

/-! ### Plain types have plain head tokens -/

def HeadPlain (P : Prog) (k : Key) : Prop := ∃ tok rest, k = tok :: rest ∧ PlainTok P tok

theorem plainW_head {P : Prog} : ∀ (n : Nat) (t : Ty) (ctx : Nat → Bool) (σ : List Ty),
    plainW P ctx n t = true →
    (∀ i, ctx i = true → ∀ k, KeyOf P (subst σ (.param i)) k → HeadPlain P k) →
    ∀ k, KeyOf P (subst σ t) k → HeadPlain P k := by
  intro n
  induction n with
  | zero => intro t ctx σ h; simp [plainW] at h
  | succ n ih =>
    intro t ctx σ h hctx k hk
    have hk' := KeyOf.peel_subst σ hk
    unfold plainW at h
    generalize Derive.peel t = u at h hk'
    have leaf : ∀ tok, leafTok u = some tok → tok ≠ .unit → tok ≠ .option → (∀ id, tok ≠ .self id) →
        HeadPlain P k := by
      intro tok h1 h2 h3 h4
      have hu : subst σ u = u := by
        cases u <;> simp only [leafTok, reduceCtorEq] at h1 <;> simp [subst]
      rw [hu] at hk'
      exact ⟨tok, [], hk'.leaf (lookupKey_leaf h1), h2, h3, fun id _ _ h => absurd h (h4 id)⟩
    cases u with
    | unit => simp at h
    | option t => simp at h
    | ptr t => simp at h
    | param i => exact hctx i h k hk'
    | vec t => rw [subst] at hk'; obtain ⟨k', h1, _⟩ := hk'.vec; exact ⟨_, _, h1, by plain_tok⟩
    | hashMap t => rw [subst] at hk'; obtain ⟨k', h1, _⟩ := hk'.hashMap; exact ⟨_, _, h1, by plain_tok⟩
    | btreeMap t => rw [subst] at hk'; obtain ⟨k', h1, _⟩ := hk'.btreeMap; exact ⟨_, _, h1, by plain_tok⟩
    | named id as =>
      rw [subst] at hk'
      dsimp only at h
      cases hd : P[id]? with
      | none => simp [hd] at h
      | some d =>
        simp only [hd] at h
        cases hb : d.body with
        | newtype fd =>
          simp only [hb, Bool.and_eq_true] at h
          obtain ⟨hl, hno⟩ := h
          cases hdir : isDirect fd .newtypeStruct with
          | true =>
            simp only [hdir, if_true] at hno
            have hk2 := hk'.named_newtype hd hb hdir
            rw [chosenTy_plain hl] at hk2
            refine ih fd.ty _ (substList σ as) hno (fun j hj k2 hk2 => ?_) k (KeyOf.subst_peel _ hk2)
            cases ha : as[j]? with
            | none => simp [ha] at hj
            | some a =>
              simp only [ha] at hj
              have : subst (substList σ as) (.param j) = subst σ a := by
                rw [subst, substList_getElem?, ha]; rfl
              rw [this] at hk2
              exact ih a ctx σ hj hctx k2 hk2
          | false =>
            simp only [hdir, Bool.false_eq_true, if_false, decide_eq_true_eq] at hno
            exact ⟨_, _, hk'.named_newtype_nd hd hb hdir hno,
              PlainTok.self hd (by intro vs; rw [hb]; simp)⟩
        | record fs => exact hk'.named_head hd (by intro fd; rw [hb]; simp) (by intro vs; rw [hb]; simp)
        | unitEnum vs => exact hk'.named_head hd (by intro fd; rw [hb]; simp) (by intro vs'; rw [hb]; simp)
        | union vs => simp [hb] at h
    | bool => exact leaf .bool rfl (by simp) (by simp) (by simp)
    | i8 => exact leaf .int rfl (by simp) (by simp) (by simp)
    | i16 => exact leaf .int rfl (by simp) (by simp) (by simp)
    | i32 => exact leaf .int rfl (by simp) (by simp) (by simp)
    | u16 => exact leaf .int rfl (by simp) (by simp) (by simp)
    | i64 => exact leaf .long rfl (by simp) (by simp) (by simp)
    | u32 => exact leaf .long rfl (by simp) (by simp) (by simp)
    | u64 => exact leaf .long rfl (by simp) (by simp) (by simp)
    | usize => exact leaf .long rfl (by simp) (by simp) (by simp)
    | f32 => exact leaf .float rfl (by simp) (by simp) (by simp)
    | f64 => exact leaf .double rfl (by simp) (by simp) (by simp)
    | string => exact leaf .string rfl (by simp) (by simp) (by simp)
    | str => exact leaf .string rfl (by simp) (by simp) (by simp)
    | byteVec => exact leaf .bytes rfl (by simp) (by simp) (by simp)
    | byteSlice => exact leaf .bytes rfl (by simp) (by simp) (by simp)
    | byteArray n => exact leaf (.byteArray n) rfl (by simp) (by simp) (by simp)

/-- Closed plain types. -/
theorem plainW_head_closed {P : Prog} {K : Nat} {t : Ty} (h : plainW P noCtx K t = true) {k : Key}
    (hk : KeyOf P t k) : HeadPlain P k := by
  refine plainW_head K t noCtx [] h (fun i hi => by simp [noCtx] at hi) k ?_
  rw [subst_nil]; exact hk

/-- The field type of a declaration, plain given its marked parameters, instantiated with
    arguments that are plain where marked. -/
theorem plainW_head_inst {P : Prog} {M : Marks} {K n : Nat} {ctx : Nat → Bool} {args : List Ty} {t : Ty}
    (h : plainW P ctx K t = true) (hargs : ArgsOk P M ctx args) (hlen : args.length = n)
    (hctx : ∀ i, ctx i = true → i < n) {k : Key} (hk : KeyOf P (subst args t) k) : HeadPlain P k := by
  obtain ⟨K', hargs⟩ := hargs
  refine plainW_head K t ctx args h (fun i hi k2 hk2 => ?_) k hk
  exact plainW_head_closed (hargs.param hlen hctx i hi) hk2

theorem arity_scope {d : Decl} {args : List Ty}
    (h : (if isGenW d then args.length == d.nparams else args.isEmpty) = true) : args.length = scopeW d := by
  unfold scopeW
  split
  · rename_i hg; simpa [hg] using h
  · rename_i hg
    simp only [hg, Bool.false_eq_true, if_false, List.isEmpty_iff] at h
    subst h; rfl

theorem OkT.named {P : Prog} {M : Marks} {id : Nat} {args : List Ty} (h : OkT P M (.named id args))
    {d : Decl} (hd : P[id]? = some d) :
    args.length = scopeW d ∧ ArgsOk P M (ctxOf M id (scopeW d)) args := by
  refine ⟨?_, h.args _⟩
  obtain ⟨K, h⟩ := h
  rw [tyOkW] at h
  simp only [Bool.and_eq_true, hd] at h
  exact arity_scope h.1

/-! ### Specifications of the builder functions -/

section specs
variable (P : Prog) (M : Marks) (hash : Key → String)

def FobSpec (F : Nat) : Prop :=
  ∀ (t : Ty) (s : BState) (c : Nat) (s' : BState) (pend : List Key), OkT P M t → Inv P pend s →
    findOrBuild P hash F t s = some (c, s') →
    Inv P pend s' ∧ BExt s s' ∧ ∃ key, KeyOf P t key ∧ Reg s' key c

def AppSpec (F : Nat) : Prop :=
  ∀ (t : Ty) (s : BState) (key : Key) (u : Unit) (s' : BState) (pend : List Key), OkT P M t →
    Inv P pend s → KeyOf P t key → s.built.lookup key = none →
    appendSchema P hash F t { nodes := s.nodes, built := (key, s.nodes.size) :: s.built } = some (u, s') →
    Inv P pend s' ∧ BExt s s' ∧ s.nodes.size < s'.nodes.size ∧ Reg s' key s.nodes.size

def FiSpec (F : Nat) : Prop :=
  ∀ (K : Nat) (ctx : Nat → Bool) (d : Decl) (args : List Ty) (tn : String) (fd : Field) (name : String)
    (s : BState) (c : Nat) (s' : BState) (pend : List Key),
    buildFieldOkW P M K args.length ctx fd = true →
    ArgsOk P M ctx args → (∀ i, ctx i = true → i < args.length) → Inv P pend s →
    fieldInst P hash F d args fd (.structField name) tn s = some (c, s') →
    Inv P pend s' ∧ BExt s s' ∧ c < s'.nodes.size ∧
      ((fd.attr.logical.isNone = true ∧ ∃ k, KeyOf P (subst args fd.ty) k ∧ Reg s' k c) ∨
       (fd.attr.logical.isNone = false ∧
          ∃ raw, logicalRawAt d fd name tn = some raw ∧ s'.nodes[c]? = some raw))

def RecSpec (F : Nat) : Prop :=
  ∀ (K : Nat) (ctx : Nat → Bool) (d : Decl) (args : List Ty) (tn : String) (fields : List Field) (s : BState)
    (fs : List (String × Nat)) (s' : BState) (pend : List Key),
    (∀ fd ∈ fields, buildFieldOkW P M K args.length ctx fd = true) →
    ArgsOk P M ctx args → (∀ i, ctx i = true → i < args.length) →
    Inv P pend s → recordFields P hash F d args tn fields s = some (fs, s') →
    Inv P pend s' ∧ BExt s s' ∧ fs.length = fields.length ∧
      ∀ (j : Nat) (fd : Field) (p : String × Nat), fields[j]? = some fd → fs[j]? = some p →
        p.1 = fd.name ∧
          ((fd.attr.logical.isNone = true ∧ ∃ k, KeyOf P (subst args fd.ty) k ∧ Reg s' k p.2) ∨
           (fd.attr.logical.isNone = false ∧
              ∃ raw, logicalRawAt d fd fd.name tn = some raw ∧ s'.nodes[p.2]? = some raw))

variable {P M hash}

theorem fob_step {F : Nat} (happ : AppSpec P M hash F) : FobSpec P M hash (F + 1) := by
  intro t s c s' pend ht hinv h
  rw [findOrBuild_eq] at h
  cases hk : lookupKey P (F + 1) t with
  | none => simp [hk] at h
  | some key =>
    simp only [hk] at h
    cases hb : s.built.lookup key with
    | some idx =>
      simp only [hb, Option.some.injEq, Prod.mk.injEq] at h
      obtain ⟨rfl, rfl⟩ := h
      exact ⟨hinv, BExt.refl _, key, ⟨_, hk⟩, hb⟩
    | none =>
      simp only [hb] at h
      cases ha : appendSchema P hash F t { nodes := s.nodes, built := (key, s.nodes.size) :: s.built } with
      | none => simp [ha] at h
      | some r =>
        obtain ⟨u, s2⟩ := r
        simp only [ha] at h
        split at h
        · simp only [Option.some.injEq, Prod.mk.injEq] at h
          obtain ⟨rfl, rfl⟩ := h
          obtain ⟨h1, h2, _, h4⟩ := happ t s key u s2 pend ht hinv ⟨_, hk⟩ hb ha
          exact ⟨h1, h2, key, ⟨_, hk⟩, h4⟩
        · cases h

theorem fi_step {F : Nat} (hfob : FobSpec P M hash F) : FiSpec P M hash (F + 1) := by
  intro K ctx d args tn fd name s c s' pend hfd hargs hctx hinv h
  cases hl : fd.attr.logical.isNone with
  | true =>
    simp only [buildFieldOkW, plainFieldOkW, hl, Bool.true_and, Bool.not_true, Bool.false_and,
      Bool.or_false] at hfd
    rw [fieldInst_plain P hash F hl] at h
    obtain ⟨h1, h2, key, h3, h4⟩ := hfob _ s c s' pend
      (OkT.subst hargs rfl hctx (tyOkW_peel P M K _ ctx hfd)) hinv h
    exact ⟨h1, h2, h1.bnd _ _ h4, .inl ⟨rfl, key, KeyOf.subst_peel args h3, h4⟩⟩
  | false =>
    simp only [buildFieldOkW, plainFieldOkW, hl, Bool.false_and, Bool.not_false, Bool.true_and,
      Bool.false_or, Option.isSome_iff_exists] at hfd
    obtain ⟨x, hx⟩ := hfd
    obtain ⟨rfl, hb, hn⟩ := fieldInst_logicalG P hash (F + 1) hl hx h
    have hsz : s'.nodes.size = s.nodes.size + 1 := by rw [hn]; simp [Array.set!_eq_setIfInBounds]
    have hold : ∀ j, j < s.nodes.size → s'.nodes[j]? = s.nodes[j]? := by
      intro j hj
      rw [hn]
      simp only [Array.set!_eq_setIfInBounds]
      rw [Array.getElem?_setIfInBounds_ne (by omega), Array.getElem?_push_lt hj]
      exact (Array.getElem?_eq_getElem hj).symm
    obtain ⟨h1, h2⟩ := hinv.push_owned hb (by omega) hold
    refine ⟨h1, h2, by omega, .inr ⟨rfl,
      { type := renameNode x.type (Name.ofFq (ownedName d (.structField name) tn)),
        logical := logicalOf fd }, ?_, ?_⟩⟩
    · unfold logicalRawAt
      rw [hx]
      rfl
    · rw [hn]
      simp [Array.set!_eq_setIfInBounds]

theorem rec_zero : RecSpec P M hash 0 := by
  intro K ctx d args tn fields s fs s' pend _ _ _ hinv h
  cases fields with
  | nil =>
    rw [recordFields_nil] at h
    simp only [Option.some.injEq, Prod.mk.injEq] at h
    obtain ⟨rfl, rfl⟩ := h
    exact ⟨hinv, BExt.refl _, rfl, fun j fd p hj => by simp at hj⟩
  | cons fd rest => rw [recordFields_zero] at h; cases h

theorem rec_step {F : Nat} (hfi : FiSpec P M hash F) (hrec : RecSpec P M hash F) :
    RecSpec P M hash (F + 1) := by
  intro K ctx d args tn fields s fs s' pend hok hargs hctx hinv h
  cases fields with
  | nil =>
    rw [recordFields_nil] at h
    simp only [Option.some.injEq, Prod.mk.injEq] at h
    obtain ⟨rfl, rfl⟩ := h
    exact ⟨hinv, BExt.refl _, rfl, fun j fd p hj => by simp at hj⟩
  | cons fd rest =>
    rw [recordFields_cons] at h
    cases h1 : fieldInst P hash F d args fd (.structField fd.name) tn s with
    | none => simp [h1] at h
    | some r1 =>
      obtain ⟨c, s1⟩ := r1
      simp only [h1] at h
      cases h2 : recordFields P hash F d args tn rest s1 with
      | none => simp [h2] at h
      | some r2 =>
        obtain ⟨fs', s2⟩ := r2
        simp only [h2, Option.some.injEq, Prod.mk.injEq] at h
        obtain ⟨rfl, rfl⟩ := h
        obtain ⟨i1, e1, hc, hfield⟩ := hfi K ctx d args tn fd fd.name s c s1 pend (hok fd (by simp)) hargs hctx
          hinv h1
        obtain ⟨i2, e2, hlen, hall⟩ := hrec K ctx d args tn rest s1 fs' s2 pend
          (fun fd' h' => hok fd' (by simp [h'])) hargs hctx i1 h2
        refine ⟨i2, e1.trans e2, by simp [hlen], fun j fd' p hj hp => ?_⟩
        cases j with
        | zero =>
          simp only [List.getElem?_cons_zero, Option.some.injEq] at hj hp
          subst hj hp
          refine ⟨rfl, ?_⟩
          rcases hfield with ⟨hl, k, hk, hreg⟩ | ⟨hl, raw, hraw, hnode⟩
          · exact .inl ⟨hl, k, hk, e2.built _ _ hreg⟩
          · exact .inr ⟨hl, raw, hraw, by rw [e2.nodes c hc]; exact hnode⟩
        | succ j =>
          simp only [List.getElem?_cons_succ] at hj hp
          exact hall j fd' p hj hp

/-- `Vec<T>` and the two maps: reserve, register the element type, fill. -/
theorem app_step_container {F : Nat} (hfob : FobSpec P M hash F) {t t0 : Ty} {tok : KTok}
    {mk : Nat → RegularType}
    (heq : ∀ s, appendSchema P hash (F + 1) t0 s =
      match findOrBuild P hash F t { s with nodes := s.nodes.push (plain .null) } with
      | none => none
      | some (k, s') => setNode s.nodes.size (plain (mk k)) s')
    (hkinv : ∀ key, KeyOf P t0 key → ∃ k', key = tok :: k' ∧ KeyOf P t k')
    (hnode : ∀ (reg : Key → Nat → Prop) (nodes : Array RawNode) (i c : Nat) (rest : Key),
      nodes[i]? = some (plain (mk c)) → reg rest c → KeyNode P reg nodes (tok :: rest) i)
    (ht : OkT P M t)
    (s : BState) (key : Key) (u : Unit) (s' : BState) (pend : List Key)
    (hinv : Inv P pend s) (hkey : KeyOf P t0 key) (hnew : s.built.lookup key = none)
    (ha : appendSchema P hash (F + 1) t0 { nodes := s.nodes, built := (key, s.nodes.size) :: s.built } =
      some (u, s')) :
    Inv P pend s' ∧ BExt s s' ∧ s.nodes.size < s'.nodes.size ∧ Reg s' key s.nodes.size := by
  rw [heq] at ha
  obtain ⟨hinv2, hext2⟩ := hinv.register_push hnew (plain .null) ⟨_, rfl⟩
  dsimp only at ha
  cases hf : findOrBuild P hash F t
      { nodes := s.nodes.push (plain .null), built := (key, s.nodes.size) :: s.built } with
  | none => simp [hf] at ha
  | some r =>
    obtain ⟨c, s3⟩ := r
    simp only [hf] at ha
    obtain ⟨hinv3, hext3, key', hk', hreg'⟩ := hfob t _ c s3 (key :: pend) ht hinv2 hf
    have hs' := setNode_some ha
    subst hs'
    obtain ⟨k', rfl, hk''⟩ := hkinv key hkey
    have := hk''.unique hk'
    subst this
    exact app_fill hinv3 (hext2.trans hext3) (hext3.built _ _ (Reg.cons_self _ _ _ _)) _ ⟨_, rfl⟩
      (fun nodes hn _ => hnode _ nodes _ c _ hn hreg')

theorem OkT.unit (P : Prog) (M : Marks) : OkT P M .unit := ⟨0, by simp [tyOkW]⟩

theorem app_step_option {F : Nat} (hfob : FobSpec P M hash F) {t : Ty} (ht : OkT P M t)
    (s : BState) (key : Key) (u : Unit) (s' : BState) (pend : List Key)
    (hinv : Inv P pend s) (hkey : KeyOf P (.option t) key) (hnew : s.built.lookup key = none)
    (ha : appendSchema P hash (F + 1) (.option t)
      { nodes := s.nodes, built := (key, s.nodes.size) :: s.built } = some (u, s')) :
    Inv P pend s' ∧ BExt s s' ∧ s.nodes.size < s'.nodes.size ∧ Reg s' key s.nodes.size := by
  rw [appendSchema_option] at ha
  obtain ⟨hinv2, hext2⟩ := hinv.register_push hnew (plain .null) ⟨_, rfl⟩
  dsimp only at ha
  cases hf : findOrBuild P hash F .unit
      { nodes := s.nodes.push (plain .null), built := (key, s.nodes.size) :: s.built } with
  | none => simp [hf] at ha
  | some r =>
    obtain ⟨a, s3⟩ := r
    simp only [hf] at ha
    obtain ⟨hinv3, hext3, keyu, hku, hrega⟩ := hfob .unit _ a s3 (key :: pend) (OkT.unit P M) hinv2 hf
    have : keyu = [.unit] := hku.leaf (lookupKey_leaf (t := .unit) rfl)
    subst this
    cases hf2 : findOrBuild P hash F t s3 with
    | none => simp [hf2] at ha
    | some r2 =>
      obtain ⟨b, s4⟩ := r2
      simp only [hf2] at ha
      obtain ⟨hinv4, hext4, key', hk', hregb⟩ := hfob t _ b s4 (key :: pend) ht hinv3 hf2
      have hs' := setNode_some ha
      subst hs'
      obtain ⟨k', rfl, hk''⟩ := hkey.option
      have := hk''.unique hk'
      subst this
      exact app_fill hinv4 ((hext2.trans hext3).trans hext4)
        (hext4.built _ _ (hext3.built _ _ (Reg.cons_self _ _ _ _))) _ ⟨_, rfl⟩
        (fun nodes hn _ => ⟨a, b, hn, hext4.built _ _ hrega, hregb⟩)

theorem app_step_named {F K0 : Nat}
    (hP : ∀ (id : Nat) (d : Decl), P[id]? = some d → declOkW P M K0 id d = true)
    (happ : AppSpec P M hash F) (hrec : RecSpec P M hash F)
    {id : Nat} {args : List Ty}
    (ht : OkT P M (.named id args))
    (s : BState) (key : Key) (u : Unit) (s' : BState) (pend : List Key)
    (hinv : Inv P pend s) (hkey : KeyOf P (.named id args) key) (hnew : s.built.lookup key = none)
    (ha : appendSchema P hash (F + 1) (.named id args)
      { nodes := s.nodes, built := (key, s.nodes.size) :: s.built } = some (u, s')) :
    Inv P pend s' ∧ BExt s s' ∧ s.nodes.size < s'.nodes.size ∧ Reg s' key s.nodes.size := by
  cases hd : P[id]? with
  | none => rw [appendSchema_named_none P hash F hd] at ha; cases ha
  | some d =>
    have hdok := hP id d hd
    obtain ⟨hlen, hargs⟩ := ht.named hd
    have hctx : ∀ i, ctxOf M id (scopeW d) i = true → i < args.length := by
      rw [hlen]; exact ctxOf_lt
    unfold declOkW declOkWith at hdok
    cases hb : d.body with
    | unitEnum vs =>
      rw [appendSchema_enum P hash F hd hb] at ha
      simp only [Option.some.injEq, Prod.mk.injEq] at ha
      obtain ⟨_, rfl⟩ := ha
      have hk := hkey.named_enum hd hb
      subst hk
      refine app_leaf hinv hnew _ ⟨_, rfl⟩ (fun reg nodes hn => ?_)
      simp only [KeyNode, hd, hb]
      exact ⟨_, hn⟩
    | newtype fd =>
      simp only [hb, Bool.and_eq_true, decide_eq_true_eq, plainFieldOkW] at hdok
      obtain ⟨⟨_, hl, hty⟩, hrest⟩ := hdok
      cases hdir : isDirect fd .newtypeStruct with
      | true =>
        rw [appendSchema_newtype P hash F hd hb hdir, chosenTy_plain hl] at ha
        have hk := hkey.named_newtype hd hb hdir
        rw [chosenTy_plain hl] at hk
        exact happ _ s key u s' pend
          (OkT.subst hargs hlen ctxOf_lt (tyOkW_peel P M K0 _ _ hty)) hinv hk hnew ha
      | false =>
        simp only [hdir, Bool.false_eq_true, if_false, decide_eq_true_eq] at hrest
        have hng : scopeW d = 0 := by simp [scopeW, isGenW, hrest]
        rw [hng] at hlen
        have : args = [] := List.eq_nil_of_length_eq_zero hlen
        subst this
        obtain ⟨n, hp⟩ := not_direct hl hdir
        obtain ⟨nm, rfl⟩ := appendSchema_newtype_nd P hash F hd hb hdir hl hp ha
        have hk := hkey.named_newtype_nd hd hb hdir hrest
        subst hk
        refine app_leaf hinv hnew _ ⟨_, rfl⟩ (fun reg nodes hn => ?_)
        simp only [KeyNode, hd, hb]
        exact ⟨hdir, nm, n, hn, hp⟩
    | record fields =>
      simp only [hb, Bool.and_eq_true, decide_eq_true_eq, List.all_eq_true] at hdok
      obtain ⟨_, hfields⟩ := hdok
      obtain ⟨hinv2, hext2⟩ := hinv.register_push hnew (plain .null) ⟨_, rfl⟩
      have hfok : ∀ fd ∈ fields, buildFieldOkW P M K0 args.length (ctxOf M id (scopeW d)) fd = true := by
        intro fd hfd
        rw [hlen]
        exact fieldOkW_build (hfields fd hfd)
      by_cases hn : d.nparams = 0
      · -- a non-generic record
        have hng : scopeW d = 0 := by simp [scopeW, isGenW, hn]
        have : args = [] := List.eq_nil_of_length_eq_zero (by rw [hlen, hng])
        subst this
        rw [appendSchema_record P hash F hd hb hn] at ha
        dsimp only at ha
        cases hf : recordFields P hash F d [] (typeName d) fields
            { nodes := s.nodes.push (plain .null), built := (key, s.nodes.size) :: s.built } with
        | none => simp [hf] at ha
        | some r =>
          obtain ⟨fs, s3⟩ := r
          simp only [hf] at ha
          obtain ⟨hinv3, hext3, hlen3, hall⟩ := hrec K0 _ d [] _ fields _ fs s3 (key :: pend)
            hfok hargs hctx hinv2 hf
          have hs' := setNode_some ha
          subst hs'
          have hk := hkey.named_record hd hb hn
          subst hk
          have hregn : Reg s3 [.self id] s.nodes.size := hext3.built _ _ (Reg.cons_self _ _ _ _)
          refine app_fill hinv3 (hext2.trans hext3) hregn _ ⟨_, rfl⟩ (fun nodes hnd hother => ?_)
          simp only [KeyNode, hd, hb]
          refine ⟨_, fs, hnd, hlen3, fun j fd p hj hp => ?_⟩
          obtain ⟨h1, h2⟩ := hall j fd p hj hp
          refine ⟨h1, ?_⟩
          rw [subst_nil] at h2
          rcases h2 with h2 | ⟨hl, raw, hraw, hnode⟩
          · exact .inl h2
          · refine .inr ⟨hl, raw, hraw, ?_⟩
            rw [hother p.2 ?_]
            · exact hnode
            · intro hpn
              obtain ⟨X, hX⟩ := hinv3.isPlain _ _ hregn
              rw [hpn, hX] at hnode
              cases hnode
              exact logicalRawAt_logical hraw hl rfl
      · -- a generic record
        rw [appendSchema_record_gen P hash F hd hb hn] at ha
        cases hk1 : lookupKey P F (.named id args) with
        | none => simp [hk1] at ha
        | some k1 =>
          have : k1 = key := KeyOf.unique ⟨_, hk1⟩ hkey
          subst this
          simp only [hk1] at ha
          cases hf : recordFields P hash F d args (typeName d ++ "_" ++ hash k1) fields
              { nodes := s.nodes.push (plain .null), built := (k1, s.nodes.size) :: s.built } with
          | none => simp [hf] at ha
          | some r =>
            obtain ⟨fs, s3⟩ := r
            simp only [hf] at ha
            obtain ⟨hinv3, hext3, hlen3, hall⟩ := hrec K0 _ d args _ fields _ fs s3 (k1 :: pend)
              hfok hargs hctx hinv2 hf
            have hs' := setNode_some ha
            subst hs'
            obtain ⟨F', rest, rfl, hrest⟩ := hkey.named_record_gen hd hb hn
            obtain ⟨cks, rfl, hclen, hcall⟩ := lookupKeys_split P _ F' rest hrest
            have hregn : Reg s3 (.generic id fields.length :: cks.flatten) s.nodes.size :=
              hext3.built _ _ (Reg.cons_self _ _ _ _)
            refine app_fill hinv3 (hext2.trans hext3) hregn _ ⟨_, rfl⟩ (fun nodes hnd hother => ?_)
            simp only [KeyNode, hd, hb]
            refine ⟨_, fs, cks, hnd, hlen3, by simpa using hclen, rfl, fun ck hck => ?_,
              fun j fd p ck hj hp hc => ?_⟩
            · obtain ⟨j, hj⟩ := List.getElem?_of_mem hck
              have hjlt : j < fields.length := by
                have := (List.getElem?_eq_some_iff.mp hj).1
                simpa [hclen] using this
              exact (hcall j (subst args (chosenTy fields[j])) ck (by simp [List.getElem?_eq_getElem hjlt]) hj).coded
            · obtain ⟨h1, h2⟩ := hall j fd p hj hp
              refine ⟨h1, ?_⟩
              rcases h2 with ⟨hl, k, hk, hr⟩ | ⟨hl, raw, hraw, hnode⟩
              · have hck := hcall j (subst args (chosenTy fd)) ck (by simp [hj]) hc
                rw [chosenTy_plain hl] at hck
                have := (KeyOf.subst_peel args hck).unique hk
                subst this
                exact .inl ⟨hl, hr⟩
              · refine .inr ⟨hl, _, raw, hraw, ?_⟩
                rw [hother p.2 ?_]
                · exact hnode
                · intro hpn
                  obtain ⟨X, hX⟩ := hinv3.isPlain _ _ hregn
                  rw [hpn, hX] at hnode
                  cases hnode
                  exact logicalRawAt_logical hraw hl rfl
    | union vs => simp [hb] at hdok

theorem OkT.inner {t t' : Ty} (h : OkT P M t) (heq : ∀ K, tyOkW P M K 0 noCtx t = true → tyOkW P M K 0 noCtx t' = true) :
    OkT P M t' := by
  obtain ⟨K, h⟩ := h
  exact ⟨K, heq K h⟩

theorem app_step {F K0 : Nat} (hP : ∀ (id : Nat) (d : Decl), P[id]? = some d → declOkW P M K0 id d = true)
    (hfob : FobSpec P M hash F) (happ : AppSpec P M hash F) (hrec : RecSpec P M hash F) :
    AppSpec P M hash (F + 1) := by
  intro t s key u s' pend ht hinv hkey hnew ha
  cases t with
  | vec t =>
    exact app_step_container hfob (t := t) (tok := .vec) (mk := .array) (appendSchema_vec P hash F t)
      (fun _ h => h.vec) (fun reg nodes i c rest h1 h2 => ⟨c, h1, h2⟩)
      (ht.inner fun K h => by simpa [tyOkW] using h) s key u s' pend hinv hkey hnew ha
  | hashMap t =>
    exact app_step_container hfob (t := t) (tok := .map) (mk := .map) (appendSchema_hashMap P hash F t)
      (fun _ h => h.hashMap) (fun reg nodes i c rest h1 h2 => ⟨c, h1, h2⟩)
      (ht.inner fun K h => by simpa [tyOkW] using h) s key u s' pend hinv hkey hnew ha
  | btreeMap t =>
    exact app_step_container hfob (t := t) (tok := .map) (mk := .map) (appendSchema_btreeMap P hash F t)
      (fun _ h => h.btreeMap) (fun reg nodes i c rest h1 h2 => ⟨c, h1, h2⟩)
      (ht.inner fun K h => by simpa [tyOkW] using h) s key u s' pend hinv hkey hnew ha
  | option t =>
    have ht' : OkT P M t := ht.inner fun K h => by
      simp only [tyOkW, Bool.and_eq_true] at h; exact h.1
    exact app_step_option hfob ht' s key u s' pend hinv hkey hnew ha
  | ptr t =>
    rw [appendSchema_ptr] at ha
    exact happ t s key u s' pend (ht.inner fun K h => by simpa [tyOkW] using h) hinv hkey.ptr hnew ha
  | named id args => exact app_step_named hP happ hrec ht s key u s' pend hinv hkey hnew ha
  | param i => obtain ⟨K, ht⟩ := ht; simp [tyOkW] at ht
  | unit => exact app_step_leaf (tok := .unit) rfl s key u s' pend hinv hkey hnew ha
  | bool => exact app_step_leaf (tok := .bool) rfl s key u s' pend hinv hkey hnew ha
  | i8 => exact app_step_leaf (tok := .int) rfl s key u s' pend hinv hkey hnew ha
  | i16 => exact app_step_leaf (tok := .int) rfl s key u s' pend hinv hkey hnew ha
  | i32 => exact app_step_leaf (tok := .int) rfl s key u s' pend hinv hkey hnew ha
  | u16 => exact app_step_leaf (tok := .int) rfl s key u s' pend hinv hkey hnew ha
  | i64 => exact app_step_leaf (tok := .long) rfl s key u s' pend hinv hkey hnew ha
  | u32 => exact app_step_leaf (tok := .long) rfl s key u s' pend hinv hkey hnew ha
  | u64 => exact app_step_leaf (tok := .long) rfl s key u s' pend hinv hkey hnew ha
  | usize => exact app_step_leaf (tok := .long) rfl s key u s' pend hinv hkey hnew ha
  | f32 => exact app_step_leaf (tok := .float) rfl s key u s' pend hinv hkey hnew ha
  | f64 => exact app_step_leaf (tok := .double) rfl s key u s' pend hinv hkey hnew ha
  | string => exact app_step_leaf (tok := .string) rfl s key u s' pend hinv hkey hnew ha
  | str => exact app_step_leaf (tok := .string) rfl s key u s' pend hinv hkey hnew ha
  | byteVec => exact app_step_leaf (tok := .bytes) rfl s key u s' pend hinv hkey hnew ha
  | byteSlice => exact app_step_leaf (tok := .bytes) rfl s key u s' pend hinv hkey hnew ha
  | byteArray n => exact app_step_leaf (tok := .byteArray n) rfl s key u s' pend hinv hkey hnew ha

/-- All four specifications, by induction on the fuel. -/
theorem builder_specs {K0 : Nat}
    (hP : ∀ (id : Nat) (d : Decl), P[id]? = some d → declOkW P M K0 id d = true) : ∀ F,
    FobSpec P M hash F ∧ AppSpec P M hash F ∧ FiSpec P M hash F ∧ RecSpec P M hash F
  | 0 => by
    refine ⟨?_, ?_, ?_, rec_zero⟩
    · intro t s c s' pend _ _ h; rw [findOrBuild_zero] at h; cases h
    · intro t s key u s' pend _ _ _ _ h; rw [appendSchema_zero] at h; cases h
    · intro K ctx d args tn fd name s c s' pend _ _ _ _ h; rw [fieldInst_zero] at h; cases h
  | F + 1 => by
    obtain ⟨h1, h2, h3, h4⟩ := builder_specs hP F
    exact ⟨fob_step h2, app_step hP h1 h2 h4, fi_step h1, rec_step h3 h4⟩

end specs

/-! ### The built schema realizes the types of the fragment -/

section realizes
variable {P : Prog} {M : Marks}

theorem realizes_of_inv {K0 : Nat}
    (hP : ∀ (id : Nat) (d : Decl), P[id]? = some d → declOkW P M K0 id d = true)
    {s : BState} (hinv : Inv P [] s) : ∀ (f : Nat) (t : Ty) (key : Key) (i : Nat),
    OkT P M t → KeyOf P t key → Reg s key i → Realizes P (freezeNodes s.nodes) f t i := by
  have hdone : ∀ k i, Reg s k i → Done P s k i := fun k i h => by
    rcases hinv.done k i h with h' | h'
    · cases h'
    · exact h'
  have hbnd : ∀ k i, Reg s k i → i < (freezeNodes s.nodes).size := fun k i h => by
    rw [freezeNodes_size]; exact hinv.bnd k i h
  intro f
  induction f with
  | zero => intro t key i _ _ _; exact trivial
  | succ f ih =>
    intro t key i ht hkey hreg
    have leaf : ∀ tok, leafTok t = some tok → Realizes P (freezeNodes s.nodes) (f + 1) t i := by
      intro tok htok
      have : key = [tok] := hkey.leaf (lookupKey_leaf htok)
      subst this
      exact leaf_realizes htok (hdone _ _ hreg) f
    cases t with
    | vec t =>
      obtain ⟨k', rfl, hk'⟩ := hkey.vec
      obtain ⟨c, hn, hc⟩ := hdone _ _ hreg
      exact ⟨c, freeze_get hn, hbnd _ _ hc, ih t k' c (ht.inner fun K h => by simpa [tyOkW] using h) hk' hc⟩
    | hashMap t =>
      obtain ⟨k', rfl, hk'⟩ := hkey.hashMap
      obtain ⟨c, hn, hc⟩ := hdone _ _ hreg
      exact ⟨c, freeze_get hn, hbnd _ _ hc, ih t k' c (ht.inner fun K h => by simpa [tyOkW] using h) hk' hc⟩
    | btreeMap t =>
      obtain ⟨k', rfl, hk'⟩ := hkey.btreeMap
      obtain ⟨c, hn, hc⟩ := hdone _ _ hreg
      exact ⟨c, freeze_get hn, hbnd _ _ hc, ih t k' c (ht.inner fun K h => by simpa [tyOkW] using h) hk' hc⟩
    | option t =>
      obtain ⟨K, ht⟩ := ht
      simp only [tyOkW, Bool.and_eq_true] at ht
      obtain ⟨k', rfl, hk'⟩ := hkey.option
      obtain ⟨a, b, hn, ha, hb⟩ := hdone _ _ hreg
      obtain ⟨tok, rest, rfl, h1⟩ := plainW_head_closed ht.2 hk'
      have hna : s.nodes[a]? = some (plain .null) := hdone _ _ ha
      exact ⟨a, b, freeze_get hn, freeze_get hna, plainAt_of_done (hdone _ _ hb) h1,
        ih t _ b ⟨K, ht.1⟩ hk' hb⟩
    | ptr t => exact ih t key i (ht.inner fun K h => by simpa [tyOkW] using h) hkey.ptr hreg
    | param j => obtain ⟨K, ht⟩ := ht; simp [tyOkW] at ht
    | named id args =>
      cases hd : P[id]? with
      | none =>
        obtain ⟨K, ht⟩ := ht
        simp [tyOkW, hd] at ht
      | some d =>
      obtain ⟨hlen, hargs⟩ := ht.named hd
      have hdok := hP id _ hd
      unfold declOkW declOkWith at hdok
      unfold Realizes
      simp only [hd]
      cases hb : d.body with
      | unitEnum vs =>
        dsimp only
        have := hkey.named_enum hd hb
        subst this
        have h := hdone _ _ hreg
        simp only [Done, KeyNode, hd, hb] at h
        obtain ⟨nm, h⟩ := h
        exact ⟨nm, freeze_get h⟩
      | newtype fd =>
        dsimp only
        simp only [hb, Bool.and_eq_true, decide_eq_true_eq, plainFieldOkW] at hdok
        obtain ⟨⟨hname, hl, hty⟩, hno⟩ := hdok
        cases hdir : isDirect fd .newtypeStruct with
        | true =>
          simp only [hdir, if_true] at hno
          have hk := hkey.named_newtype hd hb hdir
          rw [chosenTy_plain hl] at hk
          have hk := KeyOf.subst_peel args hk
          obtain ⟨tok, rest, rfl, h1⟩ := plainW_head_inst hno hargs hlen ctxOf_lt hk
          exact ⟨hname, plainAt_of_done (hdone _ _ hreg) h1,
            ih _ _ i (OkT.subst hargs hlen ctxOf_lt hty) hk hreg⟩
        | false =>
          simp only [hdir, Bool.false_eq_true, if_false, decide_eq_true_eq] at hno
          have hng : scopeW d = 0 := by simp [scopeW, isGenW, hno]
          have : args = [] := List.eq_nil_of_length_eq_zero (by rw [hlen, hng])
          subst this
          rw [subst_nil]
          have := hkey.named_newtype_nd hd hb hdir hno
          subst this
          have hdn := hdone _ _ hreg
          have h := hdn
          simp only [Done, KeyNode, hd, hb] at h
          obtain ⟨_, nm, n, hnode, hp⟩ := h
          exact ⟨hname, plainAt_of_done hdn (PlainTok.self hd (by intro vs; rw [hb]; simp)),
            realizes_of_peel_fixed (freeze_get hnode) fd.ty hp f⟩
      | record fields =>
        dsimp only
        simp only [hb, Bool.and_eq_true, decide_eq_true_eq, List.all_eq_true] at hdok
        obtain ⟨hname, hfields⟩ := hdok
        by_cases hn : d.nparams = 0
        · have hng : scopeW d = 0 := by simp [scopeW, isGenW, hn]
          have : args = [] := List.eq_nil_of_length_eq_zero (by rw [hlen, hng])
          subst this
          have := hkey.named_record hd hb hn
          subst this
          have h := hdone _ _ hreg
          simp only [Done, KeyNode, hd, hb] at h
          obtain ⟨nm, fs, hnode, hlen', hall⟩ := h
          refine ⟨hname, nm, fs, freeze_get hnode, hlen', fun j fd p hj hp => ?_⟩
          obtain ⟨h1, h2⟩ := hall j fd p hj hp
          have hfd := hfields fd (List.mem_of_getElem? hj)
          rcases h2 with ⟨hl, k, hk, hr⟩ | ⟨hl, raw, hraw, hrn⟩
          · simp only [fieldOkW, plainFieldOkW, hl, Bool.true_and, Bool.not_true, Bool.false_and,
              Bool.or_false] at hfd
            rw [if_pos hl]
            have hok := OkT.subst hargs hlen ctxOf_lt hfd
            rw [subst_nil] at hok ⊢
            exact ⟨h1, hbnd _ _ hr, ih fd.ty k p.2 hok hk hr⟩
          · simp only [fieldOkW, plainFieldOkW, hl, Bool.false_and, Bool.not_false, Bool.true_and,
              Bool.false_or, hraw] at hfd
            have hlt : p.2 < (freezeNodes s.nodes).size := by
              rw [freezeNodes_size]
              rcases Nat.lt_or_ge p.2 s.nodes.size with h | h
              · exact h
              · rw [Array.getElem?_eq_none h] at hrn; cases hrn
            rw [if_neg (by simp [hl]), subst_nil]
            exact ⟨h1, hlt, _, freeze_get hrn, hfd⟩
        · obtain ⟨F', rest, rfl, hrest⟩ := hkey.named_record_gen hd hb hn
          obtain ⟨cks', rfl, hclen', hcall⟩ := lookupKeys_split P _ F' rest hrest
          have h := hdone _ _ hreg
          simp only [Done, KeyNode, hd, hb] at h
          obtain ⟨nm, fs, cks, hnode, hlen', hclen, hflat, hcoded, hall⟩ := h
          have hcoded' : ∀ ck ∈ cks', Coded 1 ck := by
            intro ck hck
            obtain ⟨j, hj⟩ := List.getElem?_of_mem hck
            have hjlt : j < fields.length := by
              have := (List.getElem?_eq_some_iff.mp hj).1
              simpa [hclen'] using this
            exact (hcall j (subst args (chosenTy fields[j])) ck
              (by simp [List.getElem?_eq_getElem hjlt]) hj).coded
          have hcks : cks' = cks :=
            flatten_unique cks' cks hcoded' hcoded (by simp [hclen, hclen']) hflat
          subst hcks
          refine ⟨hname, nm, fs, freeze_get hnode, hlen', fun j fd p hj hp => ?_⟩
          have hjlt : j < cks'.length := by
            rw [hclen]
            rcases Nat.lt_or_ge j fields.length with h | h
            · exact h
            · rw [List.getElem?_eq_none h] at hj; cases hj
          have hc : cks'[j]? = some cks'[j] := List.getElem?_eq_getElem hjlt
          obtain ⟨h1, h2⟩ := hall j fd p _ hj hp hc
          have hfd := hfields fd (List.mem_of_getElem? hj)
          rcases h2 with ⟨hl, h2⟩ | ⟨hl, tn, raw, hraw, hrn⟩
          · simp only [fieldOkW, plainFieldOkW, hl, Bool.true_and, Bool.not_true, Bool.false_and,
              Bool.or_false] at hfd
            have hck := hcall j (subst args (chosenTy fd)) _ (by simp [hj]) hc
            rw [chosenTy_plain hl] at hck
            rw [if_pos hl]
            exact ⟨h1, hbnd _ _ h2, ih _ _ p.2 (OkT.subst hargs hlen ctxOf_lt hfd)
              (KeyOf.subst_peel args hck) h2⟩
          · simp only [fieldOkW, plainFieldOkW, hl, Bool.false_and, Bool.not_false, Bool.true_and,
              Bool.false_or] at hfd
            cases hraw0 : logicalRaw d fd with
            | none => simp [hraw0] at hfd
            | some raw0 =>
              simp only [hraw0] at hfd
              have hlt : p.2 < (freezeNodes s.nodes).size := by
                rw [freezeNodes_size]
                rcases Nat.lt_or_ge p.2 s.nodes.size with h | h
                · exact h
                · rw [Array.getElem?_eq_none h] at hrn; cases hrn
              rw [if_neg (by simp [hl])]
              refine ⟨h1, hlt, _, freeze_get hrn, ?_⟩
              obtain ⟨x, hx⟩ := nodeAccepts_leaf hfd
              rw [peel_subst, subst_leaf hx, peel_leaf hx, logicalRawAt_accepts hraw hraw0]
              exact hfd
      | union vs => simp [hb] at hdok
    | unit => exact leaf .unit rfl
    | bool => exact leaf .bool rfl
    | i8 => exact leaf .int rfl
    | i16 => exact leaf .int rfl
    | i32 => exact leaf .int rfl
    | u16 => exact leaf .int rfl
    | i64 => exact leaf .long rfl
    | u32 => exact leaf .long rfl
    | u64 => exact leaf .long rfl
    | usize => exact leaf .long rfl
    | f32 => exact leaf .float rfl
    | f64 => exact leaf .double rfl
    | string => exact leaf .string rfl
    | str => exact leaf .string rfl
    | byteVec => exact leaf .bytes rfl
    | byteSlice => exact leaf .bytes rfl
    | byteArray n => exact leaf (.byteArray n) rfl

end realizes

/-! ### The tables of marks tried by `FitWfW` -/

def noMarks : Marks := fun _ _ => false
def allMarks : Marks := fun _ _ => true

def marksOfTable (tbl : List (List Bool)) : Marks := fun id i => (tbl.getD id []).getD i false

/-- One round of inference: parameter `i` of a declaration gets marked when the declaration does
    not check even with all its other parameters marked. -/
def markStep (P : Prog) (K : Nat) (tbl : List (List Bool)) : List (List Bool) :=
  (List.range P.size).map fun id =>
    match P[id]? with
    | none => []
    | some d =>
      (List.range d.nparams).map fun i =>
        marksOfTable tbl id i ||
          !declOkWith P (marksOfTable tbl) K (fun j => decide (j < scopeW d) && (j != i)) d

def iterN {α} (f : α → α) : Nat → α → α
  | 0, x => x
  | n + 1, x => iterN f n (f x)

/-- The marks inferred from the program text (least table closed under `markStep`, reached after at
    most one round per parameter). -/
def inferMarks (P : Prog) (K : Nat) : Marks :=
  marksOfTable (iterN (markStep P K) (P.foldl (fun a d => a + d.nparams) 1) [])

mutual
def tyDepth : Ty → Nat
  | .vec t => tyDepth t + 1
  | .option t => tyDepth t + 1
  | .hashMap t => tyDepth t + 1
  | .btreeMap t => tyDepth t + 1
  | .ptr t => tyDepth t + 1
  | .named _ args => tysDepth args + 1
  | _ => 1
def tysDepth : List Ty → Nat
  | [] => 0
  | t :: ts => max (tyDepth t) (tysDepth ts)
end

def progDepth (P : Prog) : Nat :=
  P.foldl (fun a d => max a (d.body.lookupFields.foldl (fun b f => max b (tyDepth f.ty)) 0)) 0

/-- Bound on the chains of forwarding newtypes followed by `plainW` (generous: the nesting depth of
    the types in the program times the number of declarations). -/
def wideFuel (P : Prog) (root : Ty) : Nat := (P.size + 1) * (max (progDepth P) (tyDepth root) + 1)

theorem wideFuel_ge (P : Prog) (root : Ty) : P.size + 1 ≤ wideFuel P root :=
  Nat.le_mul_of_pos_right _ (by omega)

/-- **The fragment of `C20_fits_wider`**: the program checks against one of three tables of marks —
    none (the fragment `FitWfG` and generic forwarding newtypes around non-parameters), the inferred
    ones, all. -/
def FitWfW (P : Prog) (root : Ty) : Bool :=
  FitWfWith P noMarks (wideFuel P root) root ||
    FitWfWith P (inferMarks P (wideFuel P root)) (wideFuel P root) root ||
    FitWfWith P allMarks (wideFuel P root) root

theorem FitWfW_with {P : Prog} {root : Ty} (h : FitWfW P root = true) :
    ∃ M K, FitWfWith P M K root = true := by
  simp only [FitWfW, Bool.or_eq_true] at h
  rcases h with (h | h) | h
  · exact ⟨_, _, h⟩
  · exact ⟨_, _, h⟩
  · exact ⟨_, _, h⟩

/-! ### `FitWfW` extends `FitWfG` -/

section toW
variable {P : Prog}

mutual
theorem hasParam_of_tyOkG : ∀ t : Ty, tyOkG P 0 t = true → hasParam t = false
  | .vec t, h => by rw [tyOkG] at h; rw [hasParam]; exact hasParam_of_tyOkG t h
  | .hashMap t, h => by rw [tyOkG] at h; rw [hasParam]; exact hasParam_of_tyOkG t h
  | .btreeMap t, h => by rw [tyOkG] at h; rw [hasParam]; exact hasParam_of_tyOkG t h
  | .ptr t, h => by rw [tyOkG] at h; rw [hasParam]; exact hasParam_of_tyOkG t h
  | .option t, h => by
    rw [tyOkG] at h
    simp only [Bool.and_eq_true] at h
    rw [hasParam]; exact hasParam_of_tyOkG t h.1
  | .named id as, h => by
    rw [tyOkG] at h
    simp only [Bool.and_eq_true] at h
    rw [hasParam]; exact hasParams_of_tysOkG as h.2
  | .param i, h => by simp [tyOkG] at h
  | .unit, _ | .bool, _ | .i8, _ | .i16, _ | .i32, _ | .i64, _ | .u16, _ | .u32, _ | .u64, _ | .usize, _
  | .f32, _ | .f64, _ | .string, _ | .str, _ | .byteVec, _ | .byteSlice, _ | .byteArray _, _ => by
    simp [hasParam]
theorem hasParams_of_tysOkG : ∀ ts : List Ty, tysOkG P 0 ts = true → hasParams ts = false
  | [], _ => by rw [hasParams]
  | t :: ts, h => by
    rw [tysOkG] at h
    simp only [Bool.and_eq_true] at h
    rw [hasParams, hasParam_of_tyOkG t h.1, hasParams_of_tysOkG ts h.2]; rfl
end

theorem plainW_of_nonOptG : ∀ (n : Nat) (ctx : Nat → Bool) (t : Ty), nonOptG P n t = true →
    plainW P ctx n t = true := by
  intro n
  induction n with
  | zero => intro ctx t h; simp [nonOptG] at h
  | succ n ih =>
    intro ctx t h
    unfold nonOptG at h
    unfold plainW
    generalize Derive.peel t = u at h
    cases u with
    | param i => simp at h
    | named id args =>
      dsimp only at h ⊢
      cases hd : P[id]? with
      | none => simp [hd] at h
      | some d =>
        simp only [hd] at h ⊢
        cases hb : d.body with
        | newtype fd =>
          simp only [hb, Bool.and_eq_true] at h ⊢
          refine ⟨h.1.2, ?_⟩
          have h2 := h.2
          split
          · rename_i hdir; simp only [hdir, if_true] at h2; exact ih _ _ h2
          · rename_i hdir; simpa [hdir] using h2
        | record fs => rfl
        | unitEnum vs => rfl
        | union vs => simp [hb] at h
    | _ => first | exact h | rfl

variable (hP : ∀ (id : Nat) (d : Decl), P[id]? = some d → declOkG P d = true)
include hP

theorem isGenW_of_G {id : Nat} {d : Decl} (hd : P[id]? = some d) : isGenW d = isGenRec d := by
  have hdok := hP id d hd
  unfold isGenW isGenRec
  cases hb : d.body with
  | newtype fd =>
    simp only [declOkG, hb, Bool.and_eq_true, plainFieldOkG] at hdok
    simp [hasParam_of_tyOkG _ hdok.1.2.2]
  | union vs => simp [declOkG, hb] at hdok
  | _ => rfl

set_option linter.unusedSectionVars false in
mutual
theorem tyOkW_of_G {K n : Nat} (hK : P.size + 1 ≤ K) (ctx : Nat → Bool) :
    ∀ t : Ty, tyOkG P n t = true → tyOkW P noMarks K n ctx t = true
  | .vec t, h => by rw [tyOkG] at h; rw [tyOkW]; exact tyOkW_of_G hK ctx t h
  | .hashMap t, h => by rw [tyOkG] at h; rw [tyOkW]; exact tyOkW_of_G hK ctx t h
  | .btreeMap t, h => by rw [tyOkG] at h; rw [tyOkW]; exact tyOkW_of_G hK ctx t h
  | .ptr t, h => by rw [tyOkG] at h; rw [tyOkW]; exact tyOkW_of_G hK ctx t h
  | .option t, h => by
    rw [tyOkG] at h
    rw [tyOkW]
    simp only [Bool.and_eq_true] at h ⊢
    exact ⟨tyOkW_of_G hK ctx t h.1,
      plainW_mono _ _ ctx ctx t hK (fun _ h => h) (plainW_of_nonOptG _ ctx t h.2)⟩
  | .named id as, h => by
    rw [tyOkG] at h
    rw [tyOkW]
    simp only [Bool.and_eq_true] at h ⊢
    refine ⟨?_, tysOkW_of_G hK ctx id 0 as h.2⟩
    have h1 := h.1
    cases hd : P[id]? with
    | none => simp [hd] at h1
    | some d =>
      simp only [hd] at h1 ⊢
      rw [isGenW_of_G hP hd]
      exact h1
  | .param i, h => by rw [tyOkG] at h; rw [tyOkW]; exact h
  | .unit, _ | .bool, _ | .i8, _ | .i16, _ | .i32, _ | .i64, _ | .u16, _ | .u32, _ | .u64, _ | .usize, _
  | .f32, _ | .f64, _ | .string, _ | .str, _ | .byteVec, _ | .byteSlice, _ | .byteArray _, _ => by
    simp [tyOkW]
theorem tysOkW_of_G {K n : Nat} (hK : P.size + 1 ≤ K) (ctx : Nat → Bool) (id : Nat) :
    ∀ (j : Nat) (ts : List Ty), tysOkG P n ts = true → tysOkW P noMarks K n ctx id j ts = true
  | _, [], _ => by rw [tysOkW]
  | j, t :: ts, h => by
    rw [tysOkG] at h
    rw [tysOkW]
    simp only [Bool.and_eq_true] at h ⊢
    exact ⟨⟨tyOkW_of_G hK ctx t h.1, by simp [noMarks]⟩, tysOkW_of_G hK ctx id (j + 1) ts h.2⟩
end

theorem declOkW_of_G {K : Nat} (hK : P.size + 1 ≤ K) {id : Nat} {d : Decl} (hd : P[id]? = some d) :
    declOkW P noMarks K id d = true := by
  have hdok := hP id d hd
  have hgen := isGenW_of_G hP hd
  unfold declOkW declOkWith
  unfold declOkG at hdok
  cases hb : d.body with
  | record fs =>
    have hsc : scopeW d = d.nparams := by
      unfold scopeW
      rw [hgen]
      simp only [isGenRec, hb, Bool.and_true, decide_eq_true_eq]
      split
      · rfl
      · rename_i h; exact (Decidable.not_not.mp h).symm
    simp only [hb, Bool.and_eq_true, decide_eq_true_eq, List.all_eq_true] at hdok ⊢
    refine ⟨hdok.1, fun fd hfd => ?_⟩
    have := hdok.2 fd hfd
    rw [hsc]
    simp only [fieldOkG, fieldOkW, plainFieldOkG, plainFieldOkW, Bool.or_eq_true, Bool.and_eq_true] at this ⊢
    rcases this with ⟨h1, h2⟩ | h'
    · exact .inl ⟨h1, tyOkW_of_G hP hK _ fd.ty h2⟩
    · exact .inr h'
  | newtype fd =>
    have hsc : scopeW d = 0 := by
      unfold scopeW
      rw [hgen]
      simp [isGenRec, hb]
    simp only [hb, Bool.and_eq_true, decide_eq_true_eq, plainFieldOkG, plainFieldOkW] at hdok ⊢
    obtain ⟨⟨hname, hl, hty⟩, hrest⟩ := hdok
    rw [hsc]
    refine ⟨⟨hname, hl, tyOkW_of_G hP hK _ fd.ty hty⟩, ?_⟩
    split
    · rename_i hdir
      simp only [hdir, if_true] at hrest
      exact plainW_mono _ _ _ _ fd.ty hK (fun _ h => h) (plainW_of_nonOptG _ _ fd.ty hrest)
    · rename_i hdir; simpa [hdir] using hrest
  | unitEnum vs => rfl
  | union vs => simp [hb] at hdok

end toW

theorem FitWfG_toWith {P : Prog} {root : Ty} {K : Nat} (hK : P.size + 1 ≤ K) (h : FitWfG P root = true) :
    FitWfWith P noMarks K root = true := by
  have hP : ∀ (id : Nat) (d : Decl), P[id]? = some d → declOkG P d = true := by
    simp only [FitWfG, Bool.and_eq_true, Array.all_eq_true] at h
    intro id d hd
    obtain ⟨hlt, rfl⟩ := Array.getElem?_eq_some_iff.mp hd
    exact h.1 id hlt
  simp only [FitWfG, Bool.and_eq_true] at h
  simp only [FitWfWith, Bool.and_eq_true, List.all_eq_true, List.mem_range]
  refine ⟨fun id hid => ?_, tyOkW_of_G hP hK noCtx root h.2⟩
  have hd : P[id]? = some P[id] := Array.getElem?_eq_getElem hid
  simp only [hd]
  exact declOkW_of_G hP hK hd

/-- The fragment with generic records is part of the wider fragment. -/
theorem FitWfG_toW {P : Prog} {root : Ty} (h : FitWfG P root = true) : FitWfW P root = true := by
  simp only [FitWfW, Bool.or_eq_true]
  exact .inl (.inl (FitWfG_toWith (wideFuel_ge P root) h))

end Avro.Theorems.DeriveW
