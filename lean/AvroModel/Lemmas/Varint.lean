import AvroModel.Impl.Varint
/-
The `integer-encoding` varint routines (Impl) agree with the Avro specification (Spec).
-/
namespace Avro
open Avro.Spec Avro.Impl

/-! ### Small bit-twiddling facts on bytes -/

set_option maxRecDepth 8000 in
theorem or_128_mod (m : Nat) (h : m < 256) : (0x80 ||| m) % 256 = (m % 128 + 128) % 256 := by
  revert m; decide

set_option maxRecDepth 8000 in
theorem and_128_eq_zero_iff (m : Nat) (h : m < 256) : (m &&& 0x80 = 0) ↔ m < 128 := by
  revert m; decide

theorem ofNat_or_128 (n : Nat) :
    UInt8.ofNat (0x80 ||| (n % 256)) = UInt8.ofNat (n % 128 + 128) := by
  rw [← UInt8.ofNat_mod_size' (x := 0x80 ||| (n % 256)), or_128_mod _ (by omega),
    UInt8.ofNat_mod_size']
  congr 1; omega

/-! ### 1. Unsigned encoder -/

theorem encodeVarU64_eq_spec (n : Nat) : Impl.encodeVarU64 n = Spec.encodeNat n := by
  induction n using Nat.strongRecOn with
  | _ n ih =>
    unfold Impl.encodeVarU64 Spec.encodeNat
    by_cases h : n < 128
    · simp [h]
    · simp only [h, ↓reduceDIte]
      rw [ofNat_or_128, Nat.shiftRight_eq_div_pow, ih (n / 2 ^ 7) (by omega)]

/-! ### 2–4. Zig-zag on bit vectors -/

theorem zigzagBV_toNat (i : Int) (h : Spec.InI64 i) :
    (Impl.zigzagBV (BitVec.ofInt 64 i)).toNat = Spec.zigzag i := by
  unfold Spec.InI64 at h
  unfold Impl.zigzagBV Spec.zigzag
  by_cases hi : 0 ≤ i
  · have hx : (BitVec.ofInt 64 i).toNat = i.toNat := by
      rw [BitVec.toNat_ofInt]; omega
    have hmsb : (BitVec.ofInt 64 i).msb = false := by
      rw [BitVec.msb_eq_decide]; simp only [decide_eq_false_iff_not]; omega
    rw [BitVec.sshiftRight_eq_of_msb_false hmsb]
    have hz : BitVec.ofInt 64 i >>> 63 = 0#64 := by
      apply BitVec.eq_of_toNat_eq
      rw [BitVec.toNat_ushiftRight, Nat.shiftRight_eq_div_pow, hx]
      simp only [BitVec.toNat_ofNat]; omega
    rw [hz, BitVec.xor_zero, BitVec.toNat_shiftLeft, hx, Nat.shiftLeft_eq]
    simp only [hi, if_true]; omega
  · have hx : (BitVec.ofInt 64 i).toNat = (i + 2 ^ 64).toNat := by
      rw [BitVec.toNat_ofInt]; omega
    have hmsb : (BitVec.ofInt 64 i).msb = true := by
      rw [BitVec.msb_eq_decide]; simp only [decide_eq_true_eq]; omega
    rw [BitVec.sshiftRight_eq_of_msb_true hmsb]
    have hz : ~~~(BitVec.ofInt 64 i) >>> 63 = 0#64 := by
      apply BitVec.eq_of_toNat_eq
      rw [BitVec.toNat_ushiftRight, Nat.shiftRight_eq_div_pow, BitVec.toNat_not, hx]
      simp only [BitVec.toNat_ofNat]; omega
    have hones : ~~~(0#64) = BitVec.allOnes 64 := by decide
    rw [hz, hones, BitVec.xor_allOnes, BitVec.toNat_not, BitVec.toNat_shiftLeft, hx,
      Nat.shiftLeft_eq]
    simp only [hi, if_false]; omega

theorem encodeVarI64_eq_spec (i : Int) (h : Spec.InI64 i) :
    Impl.encodeVarI64 i = Spec.encodeLong i := by
  unfold Impl.encodeVarI64 Spec.encodeLong
  rw [zigzagBV_toNat i h, encodeVarU64_eq_spec]

theorem unzigzagBV_toInt (n : Nat) (h : n < 2 ^ 64) :
    (Impl.unzigzagBV (BitVec.ofNat 64 n)).toInt = Spec.unzigzag n := by
  unfold Impl.unzigzagBV Spec.unzigzag
  have hx : (BitVec.ofNat 64 n).toNat = n := by
    rw [BitVec.toNat_ofNat]; omega
  have hs : (BitVec.ofNat 64 n >>> 1).toNat = n / 2 := by
    rw [BitVec.toNat_ushiftRight, hx, Nat.shiftRight_eq_div_pow]
  by_cases hn : n % 2 = 0
  · have h1 : BitVec.ofNat 64 n &&& 1 = 0#64 := by
      apply BitVec.eq_of_toNat_eq
      rw [BitVec.toNat_and, hx]
      simp only [BitVec.toNat_ofNat]
      show n &&& 1 = 0
      rw [Nat.and_one_is_mod]; exact hn
    rw [h1, BitVec.neg_zero, BitVec.xor_zero, BitVec.toInt_eq_toNat_cond, hs]
    simp only [hn, if_true]
    split <;> omega
  · have h1 : BitVec.ofNat 64 n &&& 1 = 1#64 := by
      apply BitVec.eq_of_toNat_eq
      rw [BitVec.toNat_and, hx]
      simp only [BitVec.toNat_ofNat]
      show n &&& 1 = 1
      rw [Nat.and_one_is_mod]; omega
    rw [h1, BitVec.neg_one_eq_allOnes, BitVec.xor_allOnes, BitVec.toInt_eq_toNat_cond,
      BitVec.toNat_not, hs]
    simp only [hn, if_false]
    split <;> omega

/-! ### 5. Unsigned decoder -/

theorem pow7_succ (j : Nat) : 2 ^ (7 * (j + 1)) = 128 * 2 ^ (7 * j) := by
  rw [Nat.mul_add, Nat.pow_add]; omega

theorem pow7_le (j : Nat) (hj : j ≤ 8) : 128 * 2 ^ (7 * j) ≤ 2 ^ 63 := by
  rw [← pow7_succ]
  exact Nat.pow_le_pow_right (by omega) (by omega)

theorem step_or (j b result : Nat) (hr : result < 2 ^ (7 * j)) (hb : b * 2 ^ (7 * j) < 2 ^ 64) :
    result ||| ((b <<< (7 * j)) % 2 ^ 64) = result + 2 ^ (7 * j) * b := by
  rw [Nat.shiftLeft_eq, Nat.mod_eq_of_lt hb, Nat.or_comm, ← Nat.shiftLeft_eq,
    ← Nat.shiftLeft_add_eq_or_of_lt hr, Nat.shiftLeft_eq, Nat.mul_comm]
  omega

/-- One loop iteration on bytes 1–9. -/
theorem aux_cons_lt (b : UInt8) (tl : Bytes) (result j : Nat) (hj : j ≤ 8)
    (hr : result < 2 ^ (7 * j)) :
    decodeVarU64Aux (b :: tl) result (7 * j) =
      if b.toNat < 128 then some (result + 2 ^ (7 * j) * b.toNat, j + 1)
      else decodeVarU64Aux tl (result + 2 ^ (7 * j) * (b.toNat - 128)) (7 * (j + 1)) := by
  have hb : b.toNat < 256 := b.toNat_lt
  rw [decodeVarU64Aux]
  have hm : b.toNat &&& 0x7F = b.toNat % 128 := Nat.and_two_pow_sub_one_eq_mod _ 7
  have hP := pow7_le j hj
  have hstep := step_or j (b.toNat % 128) result hr (by
    have := Nat.mul_le_mul_right (2 ^ (7 * j)) (show b.toNat % 128 ≤ 127 by omega)
    omega)
  simp only [hm, hstep]
  have h63 : ¬ (7 * j + 7 > 63) := by omega
  simp only [h63, if_false]
  by_cases hlt : b.toNat < 128
  · have h80 := (and_128_eq_zero_iff _ hb).2 hlt
    simp only [h80, hlt, if_true]
    rw [Nat.mod_eq_of_lt hlt]
    congr; omega
  · have h80 : ¬ (b.toNat &&& 0x80 = 0) := fun h => hlt ((and_128_eq_zero_iff _ hb).1 h)
    simp only [h80, hlt, if_false]
    have e1 : b.toNat % 128 = b.toNat - 128 := by omega
    have e2 : 7 * j + 7 = 7 * (j + 1) := by omega
    rw [e1, e2]

/-- The tenth byte. -/
theorem aux_cons_last (b : UInt8) (tl : Bytes) (result : Nat) (hr : result < 2 ^ 63) :
    decodeVarU64Aux (b :: tl) result 63 =
      if b.toNat < 2 then some (result + 2 ^ 63 * b.toNat, 10) else none := by
  rw [decodeVarU64Aux]
  simp only [show 63 + 7 > 63 from by omega, if_true]
  by_cases hlt : b.toNat < 2
  · have hm : b.toNat &&& 0x7F = b.toNat := by
      rw [Nat.and_two_pow_sub_one_eq_mod _ 7]; omega
    have hstep := step_or 9 b.toNat result hr (by omega)
    simp only [hlt, if_true, hm]
    rw [show (63 : Nat) = 7 * 9 from rfl, hstep]
  · simp only [hlt, if_false]

theorem decodeNat_length (bs : Bytes) : ∀ (v : Nat) (rest : Bytes),
    Spec.decodeNat bs = some (v, rest) → rest.length < bs.length := by
  induction bs with
  | nil => intro v rest h; simp [Spec.decodeNat] at h
  | cons b tl ih =>
    intro v rest h
    rw [Spec.decodeNat] at h
    split at h
    · simp only [Option.some.injEq, Prod.mk.injEq] at h
      rw [← h.2]; simp
    · split at h
      · simp at h
      · rename_i v' rest' heq
        simp only [Option.some.injEq, Prod.mk.injEq] at h
        have := ih v' rest' heq
        rw [← h.2]; simp only [List.length_cons]; omega

theorem aux_of_spec (bs : Bytes) : ∀ (v : Nat) (rest : Bytes) (j result : Nat),
    Spec.decodeNat bs = some (v, rest) → result < 2 ^ (7 * j) →
    result + 2 ^ (7 * j) * v < 2 ^ 64 → j + (bs.length - rest.length) ≤ 10 →
    decodeVarU64Aux bs result (7 * j)
      = some (result + 2 ^ (7 * j) * v, j + (bs.length - rest.length)) := by
  induction bs with
  | nil => intro v rest j result h; simp [Spec.decodeNat] at h
  | cons b tl ih =>
    intro v rest j result h hr hv hk
    have hlen := decodeNat_length _ _ _ h
    simp only [List.length_cons] at hlen hk ⊢
    have hb : b.toNat < 256 := b.toNat_lt
    rw [Spec.decodeNat] at h
    by_cases hj : j ≤ 8
    · rw [aux_cons_lt b tl result j hj hr]
      by_cases hlt : b.toNat < 128
      · simp only [hlt, if_true, Option.some.injEq, Prod.mk.injEq] at h ⊢
        obtain ⟨rfl, rfl⟩ := h
        constructor <;> omega
      · simp only [hlt, if_false] at h ⊢
        split at h
        · simp at h
        · rename_i v' rest' heq
          simp only [Option.some.injEq, Prod.mk.injEq] at h
          obtain ⟨rfl, rfl⟩ := h
          have hlen' := decodeNat_length _ _ _ heq
          have hP := pow7_succ j
          have e1 : 2 ^ (7 * (j + 1)) * v' = 128 * (2 ^ (7 * j) * v') := by
            rw [hP, Nat.mul_assoc]
          have e2 : 2 ^ (7 * j) * (b.toNat - 128 + 128 * v')
              = 2 ^ (7 * j) * (b.toNat - 128) + 128 * (2 ^ (7 * j) * v') := by
            rw [Nat.mul_add, Nat.mul_left_comm]
          have e3 := Nat.mul_le_mul_left (2 ^ (7 * j)) (show b.toNat - 128 ≤ 127 by omega)
          rw [ih v' rest' (j + 1) (result + 2 ^ (7 * j) * (b.toNat - 128)) heq
            (by omega) (by omega) (by omega)]
          simp only [Option.some.injEq, Prod.mk.injEq]
          constructor <;> omega
    · have hj9 : j = 9 := by omega
      subst hj9
      rw [show 7 * 9 = 63 from rfl] at hr hv ⊢
      rw [aux_cons_last b tl result hr]
      by_cases hlt : b.toNat < 128
      · simp only [hlt, if_true, Option.some.injEq, Prod.mk.injEq] at h
        obtain ⟨rfl, rfl⟩ := h
        have : b.toNat < 2 := by omega
        simp only [this, if_true, Option.some.injEq, Prod.mk.injEq]
        exact ⟨trivial, by omega⟩
      · simp only [hlt, if_false] at h
        split at h
        · simp at h
        · rename_i v' rest' heq
          simp only [Option.some.injEq, Prod.mk.injEq] at h
          obtain ⟨rfl, rfl⟩ := h
          have hlen' := decodeNat_length _ _ _ heq
          omega

theorem decodeVarU64_of_spec (bs : Bytes) (v : Nat) (rest : Bytes)
    (h : Spec.decodeNat bs = some (v, rest)) (hv : v < 2 ^ 64)
    (hk : bs.length - rest.length ≤ 10) :
    Impl.decodeVarU64 bs = some (v, bs.length - rest.length) := by
  have := aux_of_spec bs v rest 0 0 h (by omega) (by omega) (by omega)
  simpa [Impl.decodeVarU64] using this

theorem aux_to_spec (bs : Bytes) : ∀ (j result v k : Nat), j ≤ 9 → result < 2 ^ (7 * j) →
    decodeVarU64Aux bs result (7 * j) = some (v, k) →
    ∃ v', Spec.decodeNat bs = some (v', bs.drop (k - j)) ∧ v = result + 2 ^ (7 * j) * v' ∧
      v < 2 ^ 64 ∧ j + 1 ≤ k ∧ k ≤ 10 ∧ k - j ≤ bs.length := by
  induction bs with
  | nil => intro j result v k _ _ h; simp [decodeVarU64Aux] at h
  | cons b tl ih =>
    intro j result v k hj9 hr h
    have hb : b.toNat < 256 := b.toNat_lt
    by_cases hj : j ≤ 8
    · rw [aux_cons_lt b tl result j hj hr] at h
      have hP := pow7_le j hj
      by_cases hlt : b.toNat < 128
      · simp only [hlt, if_true, Option.some.injEq, Prod.mk.injEq] at h
        obtain ⟨rfl, rfl⟩ := h
        refine ⟨b.toNat, ?_, rfl, ?_, by omega, by omega, ?_⟩
        · rw [Spec.decodeNat, show j + 1 - j = 1 by omega]; simp [hlt]
        · have := Nat.mul_le_mul_left (2 ^ (7 * j)) (show b.toNat ≤ 127 by omega)
          omega
        · simp only [List.length_cons]; omega
      · simp only [hlt, if_false] at h
        have e3 := Nat.mul_le_mul_left (2 ^ (7 * j)) (show b.toNat - 128 ≤ 127 by omega)
        have hS := pow7_succ j
        obtain ⟨v', hdec, hv, hlt64, hk1, hk2, hk3⟩ :=
          ih (j + 1) _ v k (by omega) (by omega) h
        refine ⟨b.toNat - 128 + 128 * v', ?_, ?_, hlt64, by omega, hk2, ?_⟩
        · rw [Spec.decodeNat, hdec, show k - j = (k - (j + 1)) + 1 by omega]
          simp [hlt]
        · rw [hv, hS, Nat.mul_add, Nat.mul_assoc, Nat.mul_left_comm 128]; omega
        · simp only [List.length_cons]; omega
    · have hj9 : j = 9 := by omega
      subst hj9
      rw [show 7 * 9 = 63 from rfl] at hr h ⊢
      rw [aux_cons_last b tl result hr] at h
      by_cases hlt : b.toNat < 2
      · simp only [hlt, if_true, Option.some.injEq, Prod.mk.injEq] at h
        obtain ⟨rfl, rfl⟩ := h
        refine ⟨b.toNat, ?_, rfl, by omega, by omega, by omega, ?_⟩
        · rw [Spec.decodeNat]; simp [show b.toNat < 128 by omega]
        · simp
      · simp [hlt] at h

theorem decodeVarU64_to_spec (bs : Bytes) (v k : Nat) (h : Impl.decodeVarU64 bs = some (v, k)) :
    Spec.decodeNat bs = some (v, bs.drop k) ∧ v < 2 ^ 64 ∧ 1 ≤ k ∧ k ≤ 10 ∧ k ≤ bs.length := by
  obtain ⟨v', hdec, hv, hlt, hk1, hk2, hk3⟩ := aux_to_spec bs 0 0 v k (by omega) (by omega) h
  simp only [Nat.mul_zero, Nat.pow_zero, Nat.zero_add, Nat.one_mul, Nat.sub_zero] at hv hdec hk1 hk3
  subst hv
  exact ⟨hdec, hlt, hk1, hk2, hk3⟩

/-! ### 6–8. Signed decoder -/

theorem encodeVarI64_length_le (i : Int) (h : Spec.InI64 i) :
    (Impl.encodeVarI64 i).length ≤ 10 := by
  rw [encodeVarI64_eq_spec i h, Spec.encodeLong]
  have := Spec.zigzag_lt_of_inI64 h
  exact Spec.encodeNat_length_le _ 10 (by omega) (by omega)

theorem decodeVarI64_encode (i : Int) (h : Spec.InI64 i) (rest : Bytes) :
    Impl.decodeVarI64 (Impl.encodeVarI64 i ++ rest)
      = some (i, (Impl.encodeVarI64 i).length) := by
  have hlen := encodeVarI64_length_le i h
  have hz := Spec.zigzag_lt_of_inI64 h
  have hspec : Spec.decodeNat (Impl.encodeVarI64 i ++ rest) = some (Spec.zigzag i, rest) := by
    rw [encodeVarI64_eq_spec i h, Spec.encodeLong, Spec.decodeNat_encodeNat]
  have hl : (Impl.encodeVarI64 i ++ rest).length - rest.length = (Impl.encodeVarI64 i).length := by
    simp
  have := decodeVarU64_of_spec _ _ _ hspec hz (by omega)
  rw [Impl.decodeVarI64, this, hl]
  simp only [unzigzagBV_toInt _ hz, Spec.unzigzag_zigzag]

theorem decodeVarI64_eq_spec (bs : Bytes) (i : Int) (k : Nat)
    (h : Impl.decodeVarI64 bs = some (i, k)) : Spec.decodeLong bs = some (i, bs.drop k) := by
  rw [Impl.decodeVarI64] at h
  split at h
  · simp at h
  · rename_i n s heq
    simp only [Option.some.injEq, Prod.mk.injEq] at h
    obtain ⟨rfl, rfl⟩ := h
    obtain ⟨hdec, hlt, _⟩ := decodeVarU64_to_spec bs n s heq
    rw [Spec.decodeLong, hdec]
    simp only [hlt, if_true, unzigzagBV_toInt n hlt]

end Avro
