import AvroModel.Lemmas.SkipLayouts
/-
Canonical encodings are accepted by the exact-size decoder `decodeX L` (C12).

`Spec.encode` writes an array/map as one block with a non-negative count (no byte size) followed by
the end marker, every varint minimal (at most 10 bytes for a 64-bit number).  So the only limit of
`L` a canonical encoding can violate is the one on decimals: `decFits L S n v` says that every
decimal of `v` occupies at most `L.maxDecimal` bytes (on `bytes`: the minimal two's-complement
length of the unscaled value, on `fixed`: the size of the fixed).  Under `decFits`, and provided
`L` admits 10-byte varints, `decodeX L` inverts `encode` with the fuel `size v` of
`Spec.decode_encode` (`decodeX_encode`).  `decFits` is also necessary (`decFits_of_decodeX`).
-/
namespace Avro.Spec
open Avro Avro.Impl

/-! ### 1. The decimals of a value fit the limit -/

mutual
/-- every decimal of `v` (at node `n`) is at most `L.maxDecimal` bytes long in its canonical
    encoding; nothing is asked where the value does not conform to the node -/
def decFits (L : Limits) (S : Schema) (n : Node) : Value → Bool
  | .decimal u =>
    match n with
    | .decimal _ _ .bytes => fitsOpt L.maxDecimal (minimalLen u)
    | .decimal _ _ (.fixed _ size) => fitsOpt L.maxDecimal size
    | _ => true
  | .bigDecimal u _ => fitsOpt L.maxDecimal (minimalLen u)
  | .union idx v =>
    match n with
    | .union vs =>
      match vs[idx]? with
      | none => true
      | some k => match nodeOf S k with
        | none => true
        | some branch => decFits L S branch v
    | _ => true
  | .array items =>
    match n with
    | .array k => match nodeOf S k with
      | none => true
      | some item => decFitsItems L S item items
    | _ => true
  | .map entries =>
    match n with
    | .map k => match nodeOf S k with
      | none => true
      | some item => decFitsEntries L S item entries
    | _ => true
  | .record vals =>
    match n with
    | .record _ fields => decFitsFields L S (fields.map (·.2)) vals
    | _ => true
  | _ => true
def decFitsItems (L : Limits) (S : Schema) (item : Node) : List Value → Bool
  | [] => true
  | v :: vs => decFits L S item v && decFitsItems L S item vs
def decFitsEntries (L : Limits) (S : Schema) (item : Node) : List (String × Value) → Bool
  | [] => true
  | (_, v) :: es => decFits L S item v && decFitsEntries L S item es
def decFitsFields (L : Limits) (S : Schema) : List Nat → List Value → Bool
  | k :: ks, v :: vs =>
    (match nodeOf S k with
      | none => true
      | some fnode => decFits L S fnode v) && decFitsFields L S ks vs
  | _, _ => true
end

/-! ### 2. Canonical varints and length-prefixed strings under limits -/

theorem fitsOpt_of_le {m : Option Nat} {k k' : Nat} (h : fitsOpt m k' = true) (hk : k ≤ k') :
    fitsOpt m k = true := by
  cases m with
  | none => rfl
  | some w =>
    simp only [fitsOpt, decide_eq_true_eq] at h ⊢
    omega

theorem decodeLongL_encodeLong (L : Limits) (hV : fitsOpt L.maxVarint 10 = true) (i : Int)
    (h : InI64 i) (rest : Bytes) : decodeLongL L (encodeLong i ++ rest) = some (i, rest) := by
  unfold decodeLongL
  rw [decodeLong_encodeLong i h]
  have : (encodeLong i ++ rest).length - rest.length = (encodeLong i).length := by
    rw [List.length_append]; omega
  simp only [this, fitsOpt_of_le hV (Avro.Impl.encodeLong_length_le i h), if_true]

theorem decodeLenL_encodeLong (L : Limits) (hV : fitsOpt L.maxVarint 10 = true) (n : Nat)
    (h : n < 2 ^ 63) (rest : Bytes) : decodeLenL L (encodeLong n ++ rest) = some (n, rest) := by
  unfold decodeLenL
  rw [decodeLongL_encodeLong L hV _ (by unfold InI64; omega)]
  simp

theorem decodeBytesL_lenPrefixed (L : Limits) (hV : fitsOpt L.maxVarint 10 = true) (b : Bytes)
    (h : b.length < 2 ^ 63) (rest : Bytes) :
    decodeBytesL L (lenPrefixed b ++ rest) = some (b, rest) := by
  unfold decodeBytesL lenPrefixed
  rw [List.append_assoc, decodeLenL_encodeLong L hV _ h]
  simp [takeN]

theorem decodeStringL_lenPrefixed (L : Limits) (hV : fitsOpt L.maxVarint 10 = true) (s : String)
    (h : (utf8 s).length < 2 ^ 63) (rest : Bytes) :
    decodeStringL L (lenPrefixed (utf8 s) ++ rest) = some (s, rest) := by
  unfold decodeStringL
  rw [decodeBytesL_lenPrefixed L hV _ h]
  simp only [fromUTF8?_utf8]

theorem decodeBlockHeaderX_encodeLong (L : Limits) (hV : fitsOpt L.maxVarint 10 = true) (n : Nat)
    (h : n < 2 ^ 63) (rest : Bytes) :
    decodeBlockHeaderX L (encodeLong n ++ rest) = some (n, none, rest) := by
  unfold decodeBlockHeaderX
  rw [decodeLongL_encodeLong L hV _ (by unfold InI64; omega)]
  simp

theorem decodeBlockHeaderX_zero (L : Limits) (hV : fitsOpt L.maxVarint 10 = true) (rest : Bytes) :
    decodeBlockHeaderX L ((0 : UInt8) :: rest) = some (0, none, rest) := by
  have := decodeBlockHeaderX_encodeLong L hV 0 (by omega) rest
  have e : encodeLong ((0 : Nat) : Int) = [0] := by
    unfold encodeLong zigzag; simp; unfold encodeNat; simp
  rw [e] at this
  exact this

/-! ### 3. The induction -/

/-- exact round trip of one value (at every node, for every trailing input and enough fuel) -/
def ExactTrips (L : Limits) (S : Schema) (v : Value) : Prop :=
  ∀ (n : Node) (enc rest : Bytes) (fuel : Nat),
    encode S n v = some enc → decFits L S n v = true → size v ≤ fuel →
    decodeX L S fuel n (enc ++ rest) = some (v, rest)

theorem decodeItemsX_encodeItems (L : Limits) (S : Schema) (item : Node) :
    ∀ (l : List Value), (∀ v ∈ l, ExactTrips L S v) → ∀ (enc rest : Bytes) (fuel : Nat),
      encodeItems S item l = some enc → decFitsItems L S item l = true → sizeItems l ≤ fuel →
      decodeItemsX L S fuel item l.length (enc ++ rest) = some (l, rest) := by
  intro l
  induction l with
  | nil =>
    intro _ enc rest fuel henc _ _
    simp only [encodeItems, Option.some.injEq] at henc
    subst henc
    simp [decodeItemsX]
  | cons v vs ih =>
    intro hall enc rest fuel henc hfit hfuel
    rw [sizeItems] at hfuel
    simp only [decFitsItems, Bool.and_eq_true] at hfit
    obtain ⟨f, rfl⟩ : ∃ f, fuel = f + 1 := ⟨fuel - 1, by omega⟩
    rw [encodeItems] at henc
    split at henc
    · simp at henc
    · rename_i a ha
      split at henc
      · simp at henc
      · rename_i b hb
        simp only [Option.some.injEq] at henc
        subst henc
        have h1 := hall v (List.mem_cons_self ..) item a (b ++ rest) f ha hfit.1 (by omega)
        have h2 := ih (fun w hw => hall w (List.mem_cons_of_mem _ hw)) b rest f hb hfit.2 (by omega)
        simp only [List.length_cons, decodeItemsX, List.append_assoc, h1, h2]

theorem decodeMapItemsX_encodeEntries (L : Limits) (hV : fitsOpt L.maxVarint 10 = true)
    (S : Schema) (item : Node) :
    ∀ (l : List (String × Value)), (∀ e ∈ l, ExactTrips L S e.2) →
      ∀ (enc rest : Bytes) (fuel : Nat),
      encodeEntries S item l = some enc → decFitsEntries L S item l = true → sizeEntries l ≤ fuel →
      decodeMapItemsX L S fuel item l.length (enc ++ rest) = some (l, rest) := by
  intro l
  induction l with
  | nil =>
    intro _ enc rest fuel henc _ _
    simp only [encodeEntries, Option.some.injEq] at henc
    subst henc
    simp [decodeMapItemsX]
  | cons e es ih =>
    obtain ⟨k, v⟩ := e
    intro hall enc rest fuel henc hfit hfuel
    rw [sizeEntries] at hfuel
    simp only [decFitsEntries, Bool.and_eq_true] at hfit
    obtain ⟨f, rfl⟩ : ∃ f, fuel = f + 1 := ⟨fuel - 1, by omega⟩
    rw [encodeEntries] at henc
    split at henc
    · simp at henc
    · rename_i a ha
      split at henc
      · simp at henc
      · rename_i b hb
        split at henc
        · rename_i hk
          simp only [Option.some.injEq] at henc
          subst henc
          have h1 := hall (k, v) (List.mem_cons_self ..) item a (b ++ rest) f ha hfit.1
            (by show size v ≤ f; omega)
          have h2 := ih (fun w hw => hall w (List.mem_cons_of_mem _ hw)) b rest f hb hfit.2
            (by omega)
          simp only [List.length_cons, decodeMapItemsX, List.append_assoc,
            decodeStringL_lenPrefixed L hV k hk, h1, h2]
        · simp at henc

theorem decodeFieldsX_encodeFields (L : Limits) (S : Schema) :
    ∀ (l : List Value), (∀ v ∈ l, ExactTrips L S v) →
      ∀ (ks : List Nat) (enc rest : Bytes) (fuel : Nat),
      encodeFields S ks l = some enc → decFitsFields L S ks l = true → sizeItems l ≤ fuel →
      decodeFieldsX L S fuel ks (enc ++ rest) = some (l, rest) := by
  intro l
  induction l with
  | nil =>
    intro _ ks enc rest fuel henc _ _
    cases ks with
    | nil =>
      simp only [encodeFields, Option.some.injEq] at henc
      subst henc
      simp [decodeFieldsX]
    | cons k ks => simp [encodeFields] at henc
  | cons v vs ih =>
    intro hall ks enc rest fuel henc hfit hfuel
    rw [sizeItems] at hfuel
    obtain ⟨f, rfl⟩ : ∃ f, fuel = f + 1 := ⟨fuel - 1, by omega⟩
    cases ks with
    | nil => simp [encodeFields] at henc
    | cons k ks =>
      rw [encodeFields] at henc
      split at henc
      · simp at henc
      · rename_i n hn
        simp only [decFitsFields, hn, Bool.and_eq_true] at hfit
        split at henc
        · simp at henc
        · rename_i a ha
          split at henc
          · simp at henc
          · rename_i b hb
            simp only [Option.some.injEq] at henc
            subst henc
            have h1 := hall v (List.mem_cons_self ..) n a (b ++ rest) f ha hfit.1 (by omega)
            have h2 := ih (fun w hw => hall w (List.mem_cons_of_mem _ hw)) ks b rest f hb hfit.2
              (by omega)
            simp only [decodeFieldsX, hn, List.append_assoc, h1, h2]

/-- one block without a byte size, then the end marker -/
theorem decodeBlocksX_single (L : Limits) (hV : fitsOpt L.maxVarint 10 = true) (S : Schema)
    (f : Nat) (item : Node) (c : Nat) (body : Bytes)
    (vs : List Value) (rest : Bytes) (hc : 0 < c) (hc' : c < 2 ^ 63)
    (h : decodeItemsX L S (f + 1) item c (body ++ (0 : UInt8) :: rest) =
      some (vs, (0 : UInt8) :: rest)) :
    decodeBlocksX L S (f + 1 + 1) item (encodeLong c ++ (body ++ (0 : UInt8) :: rest)) =
      some (vs, rest) := by
  obtain ⟨c', rfl⟩ : ∃ c', c = c' + 1 := ⟨c - 1, by omega⟩
  rw [decodeBlocksX, decodeBlockHeaderX_encodeLong L hV _ hc']
  simp only [h, sizeOk, if_true]
  rw [decodeBlocksX, decodeBlockHeaderX_zero L hV]
  simp

theorem decodeMapBlocksX_single (L : Limits) (hV : fitsOpt L.maxVarint 10 = true) (S : Schema)
    (f : Nat) (item : Node) (c : Nat) (body : Bytes)
    (vs : List (String × Value)) (rest : Bytes) (hc : 0 < c) (hc' : c < 2 ^ 63)
    (h : decodeMapItemsX L S (f + 1) item c (body ++ (0 : UInt8) :: rest) =
      some (vs, (0 : UInt8) :: rest)) :
    decodeMapBlocksX L S (f + 1 + 1) item (encodeLong c ++ (body ++ (0 : UInt8) :: rest)) =
      some (vs, rest) := by
  obtain ⟨c', rfl⟩ : ∃ c', c = c' + 1 := ⟨c - 1, by omega⟩
  rw [decodeMapBlocksX, decodeBlockHeaderX_encodeLong L hV _ hc']
  simp only [h, sizeOk, if_true]
  rw [decodeMapBlocksX, decodeBlockHeaderX_zero L hV]
  simp

theorem exactTrips_of_size_le (L : Limits) (hV : fitsOpt L.maxVarint 10 = true) (S : Schema) :
    ∀ (N : Nat) (v : Value), size v ≤ N → ExactTrips L S v := by
  intro N
  induction N with
  | zero => intro v hv; have := size_pos v; omega
  | succ N ih =>
    intro v hv n enc rest fuel henc hfit hfuel
    have hpos := size_pos v
    obtain ⟨f, rfl⟩ : ∃ f, fuel = f + 1 := ⟨fuel - 1, by omega⟩
    cases v with
    | null =>
      simp only [encode] at henc
      split at henc <;> simp at henc
      subst henc
      simp [decodeX]
    | bool b =>
      simp only [encode] at henc
      split at henc <;> simp at henc
      subst henc
      cases b <;> simp [decodeX]
    | int i =>
      simp only [encode] at henc
      split at henc <;> simp at henc
      all_goals
        obtain ⟨h32, rfl⟩ := henc
        have h64 : InI64 i := by unfold InI32 at h32; unfold InI64; omega
        simp [decodeX, decodeLongL_encodeLong L hV i h64, h32]
    | long i =>
      simp only [encode] at henc
      split at henc <;> simp at henc
      all_goals
        obtain ⟨h64, rfl⟩ := henc
        simp [decodeX, decodeLongL_encodeLong L hV i h64]
    | float bits =>
      simp only [encode] at henc
      split at henc <;> simp at henc
      subst henc
      simp [decodeX, takeN_append_of_length, float_bits_roundtrip]
    | double bits =>
      simp only [encode] at henc
      split at henc <;> simp at henc
      subst henc
      simp [decodeX, takeN_append_of_length, double_bits_roundtrip]
    | bytes b =>
      simp only [encode] at henc
      split at henc <;> simp at henc
      obtain ⟨hl, rfl⟩ := henc
      simp [decodeX, decodeBytesL_lenPrefixed L hV b hl]
    | string s =>
      simp only [encode] at henc
      split at henc <;> simp at henc
      all_goals
        obtain ⟨hl, rfl⟩ := henc
        simp [decodeX, decodeStringL_lenPrefixed L hV s hl]
    | enum idx =>
      simp only [encode] at henc
      split at henc <;> simp at henc
      obtain ⟨⟨hi, hl⟩, rfl⟩ := henc
      simp [decodeX, decodeLenL_encodeLong L hV idx hl, hi]
    | fixed b =>
      simp only [encode] at henc
      split at henc <;> simp at henc
      obtain ⟨hl, rfl⟩ := henc
      simp [decodeX, takeN_append_of_length _ _ hl]
    | decimal u =>
      simp only [encode] at henc
      split at henc
      · simp only [Option.map_eq_some_iff] at henc
        obtain ⟨m, hm, rfl⟩ := henc
        simp only [decFits] at hfit
        have hlen := twosComplementBE_length hm
        have := minimalLen_le u
        simp [decodeX, decodeBytesL_lenPrefixed L hV m (by omega), fromTwosComplementBE_of_twos hm,
          hlen, hfit]
      · simp only [decFits] at hfit
        have hlen := twosComplementBE_length henc
        simp [decodeX, takeN_append_of_length _ _ hlen, fromTwosComplementBE_of_twos henc, hfit]
      · simp at henc
    | bigDecimal u scale =>
      simp only [encode] at henc
      split at henc
      · split at henc
        · rename_i hs
          simp only [Option.map_eq_some_iff] at henc
          obtain ⟨m, hm, rfl⟩ := henc
          simp only [decFits] at hfit
          have hlen := twosComplementBE_length hm
          have := minimalLen_le u
          have hml : m.length < 2 ^ 63 := by omega
          have hsl : (encodeLong scale).length ≤ 10 :=
            Avro.Impl.encodeLong_length_le _ (by unfold InI64; omega)
          have hsl2 : (encodeLong m.length).length ≤ 10 :=
            Avro.Impl.encodeLong_length_le _ (by unfold InI64; omega)
          have hin : (lenPrefixed m ++ encodeLong scale).length < 2 ^ 63 := by
            simp only [lenPrefixed, List.length_append]; omega
          have h3 := decodeLenL_encodeLong L hV scale hs []
          rw [List.append_nil] at h3
          simp [decodeX, decodeBytesL_lenPrefixed L hV _ hin, decodeBytesL_lenPrefixed L hV m hml,
            h3, fromTwosComplementBE_of_twos hm, hlen, hfit]
        · simp at henc
      · simp at henc
    | duration mo d ms =>
      simp only [encode] at henc
      split at henc <;> simp at henc
      obtain ⟨⟨h1, h2, h3⟩, rfl⟩ := henc
      have := duration_roundtrip mo d ms h1 h2 h3 rest
      simp only [decodeX]
      simpa using this
    | array items =>
      simp only [encode] at henc
      split at henc
      · rename_i k
        split at henc
        · simp at henc
        · rename_i item hitem
          simp only [decFits, hitem] at hfit
          split at henc
          · simp at henc
          · rename_i body hbody
            split at henc
            · rename_i hlen
              simp only [Option.some.injEq] at henc
              subst henc
              rw [size] at hv hfuel
              obtain ⟨f1, rfl⟩ : ∃ f1, f = f1 + 1 := ⟨f - 1, by omega⟩
              obtain ⟨f2, rfl⟩ : ∃ f2, f1 = f2 + 1 := ⟨f1 - 1, by omega⟩
              simp only [decodeX, hitem]
              cases items with
              | nil =>
                simp only [encodeItems, Option.some.injEq] at hbody
                subst hbody
                simp [decodeBlocksX, decodeBlockHeaderX_zero L hV]
              | cons a l =>
                have hall : ∀ w ∈ a :: l, ExactTrips L S w := fun w hw =>
                  ih w (by have := size_lt_sizeItems hw; omega)
                have h1 := decodeItemsX_encodeItems L S item (a :: l) hall body
                  ((0 : UInt8) :: rest) (f2 + 1) hbody hfit (by omega)
                have h2 := decodeBlocksX_single L hV S f2 item (a :: l).length body (a :: l) rest
                  (by simp) hlen h1
                simp only [List.isEmpty_cons, Bool.false_eq_true, if_false, List.append_assoc,
                  List.cons_append, List.nil_append, h2, Option.map_some]
            · simp at henc
      · simp at henc
    | map entries =>
      simp only [encode] at henc
      split at henc
      · rename_i k
        split at henc
        · simp at henc
        · rename_i item hitem
          simp only [decFits, hitem] at hfit
          split at henc
          · simp at henc
          · rename_i body hbody
            split at henc
            · rename_i hlen
              simp only [Option.some.injEq] at henc
              subst henc
              rw [size] at hv hfuel
              obtain ⟨f1, rfl⟩ : ∃ f1, f = f1 + 1 := ⟨f - 1, by omega⟩
              obtain ⟨f2, rfl⟩ : ∃ f2, f1 = f2 + 1 := ⟨f1 - 1, by omega⟩
              simp only [decodeX, hitem]
              cases entries with
              | nil =>
                simp only [encodeEntries, Option.some.injEq] at hbody
                subst hbody
                simp [decodeMapBlocksX, decodeBlockHeaderX_zero L hV]
              | cons a l =>
                have hall : ∀ e ∈ a :: l, ExactTrips L S e.2 := fun e he =>
                  ih e.2 (by have := size_lt_sizeEntries (k := e.1) (v := e.2) he; omega)
                have h1 := decodeMapItemsX_encodeEntries L hV S item (a :: l) hall body
                  ((0 : UInt8) :: rest) (f2 + 1) hbody hfit (by omega)
                have h2 := decodeMapBlocksX_single L hV S f2 item (a :: l).length body (a :: l)
                  rest (by simp) hlen h1
                simp only [List.isEmpty_cons, Bool.false_eq_true, if_false, List.append_assoc,
                  List.cons_append, List.nil_append, h2, Option.map_some]
            · simp at henc
      · simp at henc
    | union idx v =>
      simp only [encode] at henc
      split at henc
      · rename_i vs
        split at henc
        · simp at henc
        · rename_i k hk
          split at henc
          · simp at henc
          · rename_i branch hbranch
            simp only [decFits, hk, hbranch] at hfit
            split at henc
            · simp at henc
            · rename_i body hbody
              split at henc
              · rename_i hidx
                simp only [Option.some.injEq] at henc
                subst henc
                rw [size] at hv hfuel
                have h1 := ih v (by omega) branch body rest f hbody hfit (by omega)
                simp [decodeX, decodeLenL_encodeLong L hV idx hidx, hk, hbranch, h1]
              · simp at henc
      · simp at henc
    | record fields =>
      simp only [encode] at henc
      split at henc
      · rename_i nm fs
        simp only [decFits] at hfit
        rw [size] at hv hfuel
        have hall : ∀ w ∈ fields, ExactTrips L S w := fun w hw =>
          ih w (by have := size_lt_sizeItems hw; omega)
        have h1 := decodeFieldsX_encodeFields L S fields hall _ enc rest f henc hfit (by omega)
        simp [decodeX, h1]
      · simp at henc

/-- **Canonical encodings are exact.**  `decodeX L` — the specification decoder with the limits
    `L` and exact block byte sizes — inverts `encode`, with the fuel of `decode_encode`, as soon
    as `L` admits 10-byte varints and the decimals of `v` fit `L.maxDecimal`. -/
theorem decodeX_encode (L : Limits) (hV : fitsOpt L.maxVarint 10 = true) (S : Schema) (n : Node)
    (v : Value) (enc rest : Bytes) (h : encode S n v = some enc) (hfit : decFits L S n v = true)
    (fuel : Nat) (hf : size v ≤ fuel) :
    decodeX L S fuel n (enc ++ rest) = some (v, rest) :=
  exactTrips_of_size_le L hV S (size v) v (Nat.le_refl _) n enc rest fuel h hfit hf

/-! ### 4. What the deserializer can represent fits the implementation's limits -/

/-- the conditions of `C01_de_accepts` imply `decFits Limits.impl` -/
def FitsOfObs (S : Schema) (v : Value) : Prop :=
  ∀ n : Node, (observe S n v).isSome = true → fixedDecOk S n v = true →
    decFits Limits.impl S n v = true

theorem isSome_of_eq_some {α : Type} {a : Option α} {x : α} (h : a = some x) :
    a.isSome = true := by rw [h]; rfl

theorem decFitsItems_of_obs (S : Schema) (item : Node) :
    ∀ l : List Value, (∀ v ∈ l, FitsOfObs S v) → (observeList S item l).isSome = true →
      fixedDecOkItems S item l = true → decFitsItems Limits.impl S item l = true := by
  intro l
  induction l with
  | nil => intro _ _ _; rfl
  | cons v vs ih =>
    intro hall hobs hfix
    simp only [observeList] at hobs
    have ⟨h1, h2⟩ : (observe S item v).isSome = true ∧ (observeList S item vs).isSome = true := by
      split at hobs
      · rename_i e1 e2; exact ⟨isSome_of_eq_some e1, isSome_of_eq_some e2⟩
      · simp at hobs
    simp only [fixedDecOkItems, Bool.and_eq_true] at hfix
    simp only [decFitsItems, Bool.and_eq_true]
    exact ⟨hall v (List.mem_cons_self ..) item h1 hfix.1,
      ih (fun w hw => hall w (List.mem_cons_of_mem _ hw)) h2 hfix.2⟩

theorem decFitsEntries_of_obs (S : Schema) (item : Node) :
    ∀ l : List (String × Value), (∀ e ∈ l, FitsOfObs S e.2) →
      (observeEntries S item l).isSome = true →
      fixedDecOkEntries S item l = true → decFitsEntries Limits.impl S item l = true := by
  intro l
  induction l with
  | nil => intro _ _ _; rfl
  | cons e es ih =>
    obtain ⟨k, v⟩ := e
    intro hall hobs hfix
    simp only [observeEntries] at hobs
    have ⟨h1, h2⟩ : (observe S item v).isSome = true ∧ (observeEntries S item es).isSome = true := by
      split at hobs
      · rename_i e1 e2; exact ⟨isSome_of_eq_some e1, isSome_of_eq_some e2⟩
      · simp at hobs
    simp only [fixedDecOkEntries, Bool.and_eq_true] at hfix
    simp only [decFitsEntries, Bool.and_eq_true]
    exact ⟨hall (k, v) (List.mem_cons_self ..) item h1 hfix.1,
      ih (fun w hw => hall w (List.mem_cons_of_mem _ hw)) h2 hfix.2⟩

theorem decFitsFields_of_obs (S : Schema) :
    ∀ (l : List Value), (∀ v ∈ l, FitsOfObs S v) → ∀ fields : List (String × Nat),
      (observeFields S fields l).isSome = true →
      fixedDecOkFields S fields l = true →
      decFitsFields Limits.impl S (fields.map (·.2)) l = true := by
  intro l
  induction l with
  | nil =>
    intro _ fields _ _
    cases fields <;> rfl
  | cons v vs ih =>
    intro hall fields hobs hfix
    cases fields with
    | nil => rfl
    | cons fd fs =>
      obtain ⟨name, k⟩ := fd
      simp only [observeFields] at hobs
      simp only [fixedDecOkFields, Bool.and_eq_true] at hfix
      simp only [List.map_cons, decFitsFields, Bool.and_eq_true, nodeOf]
      rcases hk : S[k]? with _ | fnode <;> rw [hk] at hobs hfix
      · simp at hobs
      · simp only at hobs hfix
        have ⟨h1, h2⟩ : (observe S fnode v).isSome = true ∧
            (observeFields S fs vs).isSome = true := by
          split at hobs
          · rename_i e1 e2; exact ⟨isSome_of_eq_some e1, isSome_of_eq_some e2⟩
          · simp at hobs
        exact ⟨hall v (List.mem_cons_self ..) fnode h1 hfix.1,
          ih (fun w hw => hall w (List.mem_cons_of_mem _ hw)) fs h2 hfix.2⟩

theorem fitsOfObs_of_size_le (S : Schema) : ∀ (N : Nat) (v : Value), size v ≤ N → FitsOfObs S v := by
  intro N
  induction N with
  | zero => intro v hv; have := size_pos v; omega
  | succ N ih =>
    intro v hv n hobs hfix
    cases v with
    | decimal u =>
      cases n with
      | decimal sc pr repr =>
        cases repr with
        | bytes =>
          simp only [observe, Option.isSome_map] at hobs
          obtain ⟨str, hstr⟩ := Option.isSome_iff_exists.1 hobs
          have h16 := minimalLen_le_16 u (decToStringModel_some hstr).1
          simp only [decFits, Limits.impl, fitsOpt, decide_eq_true_eq]
          exact h16
        | fixed nm size =>
          simp only [fixedDecOk, decide_eq_true_eq] at hfix
          simp only [decFits, Limits.impl, fitsOpt, decide_eq_true_eq]
          exact hfix
      | _ => rfl
    | bigDecimal u scale =>
      simp only [observe, Option.isSome_map] at hobs
      obtain ⟨str, hstr⟩ := Option.isSome_iff_exists.1 hobs
      have h16 := minimalLen_le_16 u (decToStringModel_some hstr).1
      simp only [decFits, Limits.impl, fitsOpt, decide_eq_true_eq]
      exact h16
    | union idx v =>
      cases n with
      | union vs =>
        rw [size] at hv
        simp only [observe] at hobs
        simp only [fixedDecOk] at hfix
        simp only [decFits, nodeOf]
        rcases hk : vs[idx]? with _ | k
        · rfl
        · rw [hk] at hobs hfix
          simp only at hobs hfix ⊢
          rcases hb : S[k]? with _ | branch
          · rfl
          · rw [hb] at hobs hfix
            exact ih v (by omega) branch hobs hfix
      | _ => rfl
    | array items =>
      cases n with
      | array k =>
        rw [size] at hv
        simp only [observe] at hobs
        simp only [fixedDecOk] at hfix
        simp only [decFits, nodeOf]
        rcases hk : S[k]? with _ | item
        · rfl
        · rw [hk] at hobs hfix
          simp only [Option.isSome_map] at hobs
          exact decFitsItems_of_obs S item items
            (fun w hw => ih w (by have := size_lt_sizeItems hw; omega)) hobs hfix
      | _ => rfl
    | map entries =>
      cases n with
      | map k =>
        rw [size] at hv
        simp only [observe] at hobs
        simp only [fixedDecOk] at hfix
        simp only [decFits, nodeOf]
        rcases hk : S[k]? with _ | item
        · rfl
        · rw [hk] at hobs hfix
          simp only [Option.isSome_map] at hobs
          exact decFitsEntries_of_obs S item entries
            (fun e he => ih e.2 (by have := size_lt_sizeEntries (k := e.1) (v := e.2) he; omega))
            hobs hfix
      | _ => rfl
    | record vals =>
      cases n with
      | record nm fields =>
        rw [size] at hv
        simp only [observe, Option.isSome_map] at hobs
        simp only [fixedDecOk] at hfix
        simp only [decFits]
        exact decFitsFields_of_obs S vals
          (fun w hw => ih w (by have := size_lt_sizeItems hw; omega)) fields hobs hfix
      | _ => rfl
    | _ => rfl

/-- a value the deserializer can represent (`observe`), whose decimals on `fixed` have at most 16
    bytes (`fixedDecOk`), fits the implementation's limits -/
theorem decFits_impl_of_observe (S : Schema) (n : Node) (v : Value)
    (hobs : (observe S n v).isSome = true) (hfix : fixedDecOk S n v = true) :
    decFits Limits.impl S n v = true :=
  fitsOfObs_of_size_le S (size v) v (Nat.le_refl _) n hobs hfix

/-! ### 5. `decFits` is necessary: no decoder with limits `L` accepts the canonical encoding of a
value one of whose decimals exceeds `L.maxDecimal` -/

theorem Limits.le_specLax (L : Limits) : L.le Limits.specLax :=
  ⟨fun _ _ => rfl, fun _ _ => rfl, fun h => by cases h⟩

/-- whatever the limits, a run of `decodeL` on a canonical encoding returns the encoded value -/
theorem decodeL_encode_det (L : Limits) (S : Schema) (n : Node) (v : Value) (enc rest : Bytes)
    (henc : encode S n v = some enc) (fuel : Nat) (r : Value × Bytes)
    (h : decodeL L S fuel n (enc ++ rest) = some r) : r = (v, rest) := by
  have h1 := decodeL_mono (Limits.le_specLax L) S (Nat.le_max_left fuel (size v)) h
  have h2 := decode_encode S n v enc rest henc (max fuel (size v)) (Nat.le_max_right _ _)
  rw [← decodeL_spec] at h2
  have h3 := decodeL_mono Limits.spec_le_specLax S (Nat.le_refl _) h2
  rw [h1] at h3
  exact Option.some.inj h3

theorem decodeLongL_sub {L : Limits} {bs : Bytes} {r : Int × Bytes}
    (h : decodeLongL L bs = some r) : decodeLong bs = some r := by
  rw [← decodeLongL_spec bs Limits.specLax rfl]; exact decodeLongL_mono (Limits.le_specLax L) h

theorem decodeLenL_sub {L : Limits} {bs : Bytes} {r : Nat × Bytes}
    (h : decodeLenL L bs = some r) : decodeLen bs = some r := by
  rw [← decodeLenL_spec bs Limits.specLax rfl]; exact decodeLenL_mono (Limits.le_specLax L) h

theorem decodeBytesL_sub {L : Limits} {bs : Bytes} {r : Bytes × Bytes}
    (h : decodeBytesL L bs = some r) : decodeBytes bs = some r := by
  rw [← decodeBytesL_spec bs Limits.specLax rfl]; exact decodeBytesL_mono (Limits.le_specLax L) h

theorem decodeStringL_sub {L : Limits} {bs : Bytes} {r : String × Bytes}
    (h : decodeStringL L bs = some r) : decodeString bs = some r := by
  rw [← decodeStringL_spec bs Limits.specLax rfl]; exact decodeStringL_mono (Limits.le_specLax L) h

theorem decodeBlockHeaderL_encodeLong_inv (L : Limits) (n : Nat) (hn : n < 2 ^ 63) (rest : Bytes)
    (p : Nat × Bytes) (h : decodeBlockHeaderL L (encodeLong n ++ rest) = some p) :
    p = (n, rest) := by
  unfold decodeBlockHeaderL at h
  split at h
  · cases h
  · rename_i c r hd
    have e := decodeLongL_sub hd
    rw [decodeLong_encodeLong _ (inI64_of_lt hn)] at e
    simp only [Option.some.injEq, Prod.mk.injEq] at e
    obtain ⟨rfl, rfl⟩ := e
    simp only [ge_iff_le, Int.natCast_nonneg, if_true, Int.toNat_natCast, Option.some.injEq] at h
    exact h.symm

def FitsBack (L : Limits) (S : Schema) (v : Value) : Prop :=
  ∀ (n : Node) (enc rest : Bytes) (fuel : Nat) (r : Value × Bytes),
    encode S n v = some enc → decodeL L S fuel n (enc ++ rest) = some r → decFits L S n v = true

theorem decFitsItems_back (L : Limits) (S : Schema) (item : Node) :
    ∀ (l : List Value), (∀ v ∈ l, FitsBack L S v) →
      ∀ (enc rest : Bytes) (fuel : Nat) (r : List Value × Bytes),
      encodeItems S item l = some enc →
      decodeItemsL L S fuel item l.length (enc ++ rest) = some r →
      decFitsItems L S item l = true := by
  intro l
  induction l with
  | nil => intros; rfl
  | cons v vs ih =>
    intro hall enc rest fuel r henc h
    rw [encodeItems] at henc
    split at henc
    · simp at henc
    · rename_i a ha
      split at henc
      · simp at henc
      · rename_i b hb
        simp only [Option.some.injEq] at henc
        subst henc
        cases fuel with
        | zero => simp [decodeItemsL] at h
        | succ f =>
          simp only [List.length_cons, decodeItemsL, List.append_assoc] at h
          split at h
          · cases h
          · rename_i v' r1 hd
            have e := decodeL_encode_det L S item v a (b ++ rest) ha f _ hd
            simp only [Prod.mk.injEq] at e
            obtain ⟨rfl, rfl⟩ := e
            split at h
            · cases h
            · rename_i vs' r2 hi
              simp only [decFitsItems, Bool.and_eq_true]
              exact ⟨hall v' (List.mem_cons_self ..) item a (b ++ rest) f _ ha hd,
                ih (fun w hw => hall w (List.mem_cons_of_mem _ hw)) b rest f _ hb hi⟩

theorem decFitsEntries_back (L : Limits) (S : Schema) (item : Node) :
    ∀ (l : List (String × Value)), (∀ e ∈ l, FitsBack L S e.2) →
      ∀ (enc rest : Bytes) (fuel : Nat) (r : List (String × Value) × Bytes),
      encodeEntries S item l = some enc →
      decodeMapItemsL L S fuel item l.length (enc ++ rest) = some r →
      decFitsEntries L S item l = true := by
  intro l
  induction l with
  | nil => intros; rfl
  | cons e es ih =>
    obtain ⟨k, v⟩ := e
    intro hall enc rest fuel r henc h
    rw [encodeEntries] at henc
    split at henc
    · simp at henc
    · rename_i a ha
      split at henc
      · simp at henc
      · rename_i b hb
        split at henc
        · rename_i hk
          simp only [Option.some.injEq] at henc
          subst henc
          cases fuel with
          | zero => simp [decodeMapItemsL] at h
          | succ f =>
            simp only [List.length_cons, decodeMapItemsL, List.append_assoc] at h
            split at h
            · cases h
            · rename_i k' r0 hs
              have e0 := decodeStringL_sub hs
              rw [decodeString_lenPrefixed k hk] at e0
              simp only [Option.some.injEq, Prod.mk.injEq] at e0
              obtain ⟨rfl, rfl⟩ := e0
              split at h
              · cases h
              · rename_i v' r1 hd
                have e := decodeL_encode_det L S item v a (b ++ rest) ha f _ hd
                simp only [Prod.mk.injEq] at e
                obtain ⟨rfl, rfl⟩ := e
                split at h
                · cases h
                · rename_i vs' r2 hi
                  simp only [decFitsEntries, Bool.and_eq_true]
                  exact ⟨hall (k, v') (List.mem_cons_self ..) item a (b ++ rest) f _ ha hd,
                    ih (fun w hw => hall w (List.mem_cons_of_mem _ hw)) b rest f _ hb hi⟩
        · simp at henc

theorem decFitsFields_back (L : Limits) (S : Schema) :
    ∀ (l : List Value), (∀ v ∈ l, FitsBack L S v) →
      ∀ (ks : List Nat) (enc rest : Bytes) (fuel : Nat) (r : List Value × Bytes),
      encodeFields S ks l = some enc →
      decodeFieldsL L S fuel ks (enc ++ rest) = some r →
      decFitsFields L S ks l = true := by
  intro l
  induction l with
  | nil =>
    intro _ ks _ _ _ _ _ _
    cases ks <;> rfl
  | cons v vs ih =>
    intro hall ks enc rest fuel r henc h
    cases ks with
    | nil => rfl
    | cons k ks =>
      rw [encodeFields] at henc
      split at henc
      · simp at henc
      · rename_i n hn
        split at henc
        · simp at henc
        · rename_i a ha
          split at henc
          · simp at henc
          · rename_i b hb
            simp only [Option.some.injEq] at henc
            subst henc
            cases fuel with
            | zero => simp [decodeFieldsL] at h
            | succ f =>
              simp only [decodeFieldsL, hn, List.append_assoc] at h
              split at h
              · cases h
              · rename_i v' r1 hd
                have e := decodeL_encode_det L S n v a (b ++ rest) ha f _ hd
                simp only [Prod.mk.injEq] at e
                obtain ⟨rfl, rfl⟩ := e
                split at h
                · cases h
                · rename_i vs' r2 hi
                  simp only [decFitsFields, hn, Bool.and_eq_true]
                  exact ⟨hall v' (List.mem_cons_self ..) n a (b ++ rest) f _ ha hd,
                    ih (fun w hw => hall w (List.mem_cons_of_mem _ hw)) ks b rest f _ hb hi⟩

theorem fitsBack_of_size_le (L : Limits) (S : Schema) :
    ∀ (N : Nat) (v : Value), size v ≤ N → FitsBack L S v := by
  intro N
  induction N with
  | zero => intro v hv; have := size_pos v; omega
  | succ N ih =>
    intro v hv n enc rest fuel r henc h
    cases fuel with
    | zero => simp [decodeL] at h
    | succ f =>
    cases v with
    | decimal u =>
      simp only [encode] at henc
      split at henc
      · simp only [Option.map_eq_some_iff] at henc
        obtain ⟨m, hm, rfl⟩ := henc
        have hlen := twosComplementBE_length hm
        have := minimalLen_le u
        simp only [decodeL] at h
        split at h
        · rename_i b r0 hd
          have e := decodeBytesL_sub hd
          rw [decodeBytes_lenPrefixed m (by omega)] at e
          simp only [Option.some.injEq, Prod.mk.injEq] at e
          obtain ⟨rfl, rfl⟩ := e
          split at h
          · rename_i hf
            simp only [decFits]
            rw [← hlen]; exact hf
          · cases h
        · cases h
      · simp only [decodeL] at h
        split at h
        · rename_i hf
          simp only [decFits]; exact hf
        · cases h
      · simp at henc
    | bigDecimal u scale =>
      simp only [encode] at henc
      split at henc
      · split at henc
        · rename_i hs
          simp only [Option.map_eq_some_iff] at henc
          obtain ⟨m, hm, rfl⟩ := henc
          have hlen := twosComplementBE_length hm
          have := minimalLen_le u
          have hml : m.length < 2 ^ 63 := by omega
          have hsl : (encodeLong scale).length ≤ 10 :=
            Avro.Impl.encodeLong_length_le _ (by unfold InI64; omega)
          have hsl2 : (encodeLong m.length).length ≤ 10 :=
            Avro.Impl.encodeLong_length_le _ (by unfold InI64; omega)
          have hin : (lenPrefixed m ++ encodeLong scale).length < 2 ^ 63 := by
            simp only [lenPrefixed, List.length_append]; omega
          simp only [decodeL] at h
          split at h
          · cases h
          · rename_i inner r0 hd
            have e := decodeBytesL_sub hd
            rw [decodeBytes_lenPrefixed _ hin] at e
            simp only [Option.some.injEq, Prod.mk.injEq] at e
            obtain ⟨rfl, rfl⟩ := e
            split at h
            · cases h
            · rename_i m' inner' hd2
              have e2 := decodeBytesL_sub hd2
              rw [decodeBytes_lenPrefixed m hml] at e2
              simp only [Option.some.injEq, Prod.mk.injEq] at e2
              obtain ⟨rfl, rfl⟩ := e2
              split at h
              · rename_i hf
                simp only [decFits]
                rw [← hlen]; exact hf
              · cases h
        · simp at henc
      · simp at henc
    | array items =>
      simp only [encode] at henc
      split at henc
      · rename_i k
        split at henc
        · simp at henc
        · rename_i item hitem
          split at henc
          · simp at henc
          · rename_i body hbody
            split at henc
            · rename_i hlen
              simp only [Option.some.injEq] at henc
              subst henc
              rw [size] at hv
              simp only [decFits, hitem]
              cases items with
              | nil => rfl
              | cons a l =>
                simp only [decodeL, hitem, Option.map_eq_some_iff] at h
                obtain ⟨⟨vs', r'⟩, hb, _⟩ := h
                simp only [List.isEmpty_cons, Bool.false_eq_true, if_false, List.append_assoc,
                  List.cons_append, List.nil_append] at hb
                cases f with
                | zero => simp [decodeBlocksL] at hb
                | succ f1 =>
                  rw [decodeBlocksL] at hb
                  split at hb
                  · cases hb
                  · rename_i r0 hd
                    have e := decodeBlockHeaderL_encodeLong_inv L _ hlen _ _ hd
                    simp at e
                  · rename_i c r0 hc hd
                    have e := decodeBlockHeaderL_encodeLong_inv L _ hlen _ _ hd
                    simp only [Prod.mk.injEq] at e
                    obtain ⟨rfl, rfl⟩ := e
                    split at hb
                    · cases hb
                    · rename_i vs r1 hi
                      have hall : ∀ w ∈ a :: l, FitsBack L S w := fun w hw =>
                        ih w (by have := size_lt_sizeItems hw; omega)
                      exact decFitsItems_back L S item (a :: l) hall body _ f1 _ hbody hi
            · simp at henc
      · simp at henc
    | map entries =>
      simp only [encode] at henc
      split at henc
      · rename_i k
        split at henc
        · simp at henc
        · rename_i item hitem
          split at henc
          · simp at henc
          · rename_i body hbody
            split at henc
            · rename_i hlen
              simp only [Option.some.injEq] at henc
              subst henc
              rw [size] at hv
              simp only [decFits, hitem]
              cases entries with
              | nil => rfl
              | cons a l =>
                simp only [decodeL, hitem, Option.map_eq_some_iff] at h
                obtain ⟨⟨vs', r'⟩, hb, _⟩ := h
                simp only [List.isEmpty_cons, Bool.false_eq_true, if_false, List.append_assoc,
                  List.cons_append, List.nil_append] at hb
                cases f with
                | zero => simp [decodeMapBlocksL] at hb
                | succ f1 =>
                  rw [decodeMapBlocksL] at hb
                  split at hb
                  · cases hb
                  · rename_i r0 hd
                    have e := decodeBlockHeaderL_encodeLong_inv L _ hlen _ _ hd
                    simp at e
                  · rename_i c r0 hc hd
                    have e := decodeBlockHeaderL_encodeLong_inv L _ hlen _ _ hd
                    simp only [Prod.mk.injEq] at e
                    obtain ⟨rfl, rfl⟩ := e
                    split at hb
                    · cases hb
                    · rename_i vs r1 hi
                      have hall : ∀ e ∈ a :: l, FitsBack L S e.2 := fun e he =>
                        ih e.2 (by have := size_lt_sizeEntries (k := e.1) (v := e.2) he; omega)
                      exact decFitsEntries_back L S item (a :: l) hall body _ f1 _ hbody hi
            · simp at henc
      · simp at henc
    | union idx v =>
      simp only [encode] at henc
      split at henc
      · rename_i vs
        split at henc
        · simp at henc
        · rename_i k hk
          split at henc
          · simp at henc
          · rename_i branch hbranch
            split at henc
            · simp at henc
            · rename_i body hbody
              split at henc
              · rename_i hidx
                simp only [Option.some.injEq] at henc
                subst henc
                rw [size] at hv
                simp only [decFits, hk, hbranch]
                simp only [decodeL, List.append_assoc] at h
                split at h
                · cases h
                · rename_i idx' r0 hd
                  have e := decodeLenL_sub hd
                  rw [decodeLen_encodeLong idx hidx] at e
                  simp only [Option.some.injEq, Prod.mk.injEq] at e
                  obtain ⟨rfl, rfl⟩ := e
                  simp only [hk, hbranch, Option.map_eq_some_iff] at h
                  obtain ⟨x, hx, _⟩ := h
                  exact ih v (by omega) branch body rest f x hbody hx
              · simp at henc
      · simp at henc
    | record fields =>
      simp only [encode] at henc
      split at henc
      · rename_i nm fs
        rw [size] at hv
        simp only [decFits]
        simp only [decodeL, Option.map_eq_some_iff] at h
        obtain ⟨x, hx, _⟩ := h
        have hall : ∀ w ∈ fields, FitsBack L S w := fun w hw =>
          ih w (by have := size_lt_sizeItems hw; omega)
        exact decFitsFields_back L S fields hall _ enc rest f x henc hx
      · simp at henc
    | _ => rfl

/-- **`decFits` is necessary**, for every `L`: if the decoder with limits `L` (exact block sizes
    or not) accepts the canonical encoding of `v`, the decimals of `v` fit `L.maxDecimal`. -/
theorem decFits_of_decodeL (L : Limits) (S : Schema) (n : Node) (v : Value) (enc rest : Bytes)
    (henc : encode S n v = some enc) (fuel : Nat) (r : Value × Bytes)
    (h : decodeL L S fuel n (enc ++ rest) = some r) : decFits L S n v = true :=
  fitsBack_of_size_le L S (size v) v (Nat.le_refl _) n enc rest fuel r henc h

theorem decFits_of_decodeX (L : Limits) (S : Schema) (n : Node) (v : Value) (enc rest : Bytes)
    (henc : encode S n v = some enc) (fuel : Nat) (r : Value × Bytes)
    (h : decodeX L S fuel n (enc ++ rest) = some r) : decFits L S n v = true :=
  decFits_of_decodeL L S n v enc rest henc fuel r (decodeX_sub L S fuel n _ r h)

end Avro.Spec
