import AvroModel.Impl.Derive
import AvroModel.Lemmas.RecordOrder
/-
C20 ("derived schemas fit their types"), serializer side: a fuel-indexed relation `Realizes`
between a type of a derive program and a node of a frozen schema, and the proof that every
serializer-call tree a value of the type presents (`hasShape`) is accepted by `ser` at a node
that realizes the type — directly, or as the non-null branch of an `Option` union.
-/
namespace Avro.Theorems.DeriveFits
open Avro Avro.Impl Avro.Impl.Derive

/-! ### Success triples -/

/-- Unlimited writer, clean pool. -/
def Good (s : SerState) : Prop := s.budget = none ∧ PoolClean s.pool

theorem Good.empty : Good {} := ⟨rfl, PoolClean.empty⟩

/-- `m` succeeds from every good state, ends in a good state, and its result satisfies `Q`. -/
def Succ {α} (m : SerM α) (Q : α → Prop) : Prop :=
  ∀ s, Good s → ∃ a s', m s = (.ok a, s') ∧ Good s' ∧ Q a

theorem Succ.pure {α} (a : α) {Q : α → Prop} (h : Q a) : Succ (pure a : SerM α) Q :=
  fun s hs => ⟨a, s, rfl, hs, h⟩

theorem Succ.bind {α β} {m : SerM α} {f : α → SerM β} {Q : α → Prop} {R : β → Prop}
    (hm : Succ m Q) (hf : ∀ a, Q a → Succ (f a) R) : Succ (m >>= f) R := by
  intro s hs
  obtain ⟨a, s', e, hs', qa⟩ := hm s hs
  obtain ⟨b, s'', e', hs'', rb⟩ := hf a qa s' hs'
  refine ⟨b, s'', ?_, hs'', rb⟩
  simp only [Bind.bind, e, e']

theorem Succ.weaken {α} {m : SerM α} {Q Q' : α → Prop} (hm : Succ m Q) (h : ∀ a, Q a → Q' a) :
    Succ m Q' := by
  intro s hs
  obtain ⟨a, s', e, hs', qa⟩ := hm s hs
  exact ⟨a, s', e, hs', h a qa⟩

theorem writeAll_succ (bs : Bytes) : Succ (writeAll bs) (fun _ => True) := by
  intro s hs
  refine ⟨(), _, writeAll_unlimited bs s hs.1, ⟨hs.1, hs.2⟩, trivial⟩

theorem writeVarI64_succ (i : Int) : Succ (writeVarI64 i) (fun _ => True) := writeAll_succ _

theorem writeLengthDelimited_succ (bs : Bytes) : Succ (writeLengthDelimited bs) (fun _ => True) :=
  Succ.bind (writeVarI64_succ _) (fun _ _ => writeAll_succ _)

theorem Succ.of_poolOp {α} {m : SerM α} {Q : α → Prop} (h : PoolOp m Q) : Succ m Q := by
  intro s hs
  obtain ⟨a, s', e, qa, _, b1, c1⟩ := h s hs.2
  exact ⟨a, s', e, ⟨by rw [b1]; exact hs.1, c1⟩, qa⟩

/-! ### Branch selection in `[null, T]` -/

/-- `key` selects `T` in `[null, T]`: `T` registers it, `null` does not or with a larger priority. -/
def Selects (T : Node) (key : LookupKey) : Prop :=
  ∃ p, T.priorityFor key = some p ∧
    (Node.null.priorityFor key = none ∨ ∃ q, Node.null.priorityFor key = some q ∧ p < q)

theorem unnamedLookup_null_T {T : Node} {key : LookupKey} (h : Selects T key) :
    unnamedLookup key [.null, T] = some 1 := by
  obtain ⟨p, hp, hn⟩ := h
  rcases hn with hn | ⟨q, hq, hlt⟩
  · simp [unnamedLookup, slotFor, slotFor.go, hp, hn, Slot.register]
  · simp only [unnamedLookup, slotFor, slotFor.go, hp, hq, Slot.register]
    have h1 : ¬ q < p := by omega
    have h2 : ¬ q = p := by omega
    simp [h1, h2]

/-- Node `i` holds a node that is neither `null` nor a union. -/
def PlainAt (S : Schema) (i : Nat) : Prop :=
  ∃ n, S[i]? = some n ∧ n ≠ .null ∧ ∀ vs, n ≠ .union vs

/-- The node a value of the type realized at `i` is serialized at: node `i` itself, or the
    `Option` union `[null, i]` around it (when node `i` is neither null nor a union). -/
inductive Mode (S : Schema) (i : Nat) : Node → Prop
  | direct (n : Node) (h : S[i]? = some n) : Mode S i n
  | under (a : Nat) (ha : S[a]? = some .null) (hp : PlainAt S i) : Mode S i (.union [a, i])

theorem branchNodes_pair {S : Schema} {a i : Nat} {T : Node} (ha : S[a]? = some .null)
    (hi : S[i]? = some T) : branchNodes S [a, i] = [.null, T] := by
  simp [branchNodes, ha, hi]

/-- Type-directed dispatch in either mode ends at the realized node. -/
theorem viaUnion_mode {α} {S : Schema} {i : Nat} {node T : Node} {key : LookupKey}
    {f : Node → SerM α} {Q : α → Prop} (hm : Mode S i node) (hi : S[i]? = some T)
    (hnu : ∀ vs, T ≠ .union vs) (hsel : Selects T key) (hf : Succ (f T) Q) :
    Succ (viaUnion S node key f) Q := by
  cases hm with
  | direct _ h =>
    have hT : node = T := by rw [hi] at h; exact (Option.some.inj h).symm
    subst hT
    cases node <;> first | exact hf | exact absurd rfl (hnu _)
  | under a ha hp =>
    simp only [viaUnion, branchNodes_pair ha hi, unnamedLookup_null_T hsel]
    refine Succ.bind (writeVarI64_succ _) (fun _ _ => ?_)
    simpa [hi] using hf

theorem namedLookup_null_T (name : String) (T : Node) (hn : name ≠ "Null") :
    namedLookup name [.null, T] = if T.lookupNames.contains name then some 1 else none := by
  have : ¬ (name = "Null") := hn
  simp [namedLookup, namedLookup.go, Node.lookupNames, this]

/-- By-name dispatch in either mode: continue at the realized node (directly, or after the
    discriminant) or at the same node. -/
theorem viaName_mode {α} {S : Schema} {i : Nat} {node T : Node} {name : String}
    {f : Node → SerM α} {Q : α → Prop} (hm : Mode S i node) (hi : S[i]? = some T)
    (hnu : ∀ vs, T ≠ .union vs) (hn : name ≠ "Null") (hT : Succ (f T) Q) (hnode : Succ (f node) Q) :
    Succ (viaName S node name f) Q := by
  cases hm with
  | direct _ h =>
    have hT' : node = T := by rw [hi] at h; exact (Option.some.inj h).symm
    subst hT'
    cases node <;> first | exact hT | exact absurd rfl (hnu _)
  | under a ha hp =>
    simp only [viaName, branchNodes_pair ha hi, namedLookup_null_T name T hn]
    by_cases hc : T.lookupNames.contains name = true
    · simp only [hc, if_true]
      refine Succ.bind (writeVarI64_succ _) (fun _ _ => ?_)
      simpa [hi] using hT
    · simp only [hc]
      exact hnode

/-! ### The realization relation -/

/-- The nodes that accept the values of a leaf type (more liberal than `Realizes`: a logical-type
    attribute may replace the Avro type of a field). -/
def nodeAccepts (n : Node) : Ty → Bool
  | .unit => n == .null
  | .bool => n == .boolean
  | .i8 | .i16 | .i32 | .u16 =>
    n == .int || n == .date || n == .timeMillis || n == .long || n == .timestampMillis ||
      n == .timestampMicros || n == .timeMicros
  | .i64 | .u32 | .u64 | .usize =>
    n == .long || n == .timestampMillis || n == .timestampMicros || n == .timeMicros
  | .f32 => n == .float
  | .f64 => n == .double
  | .string | .str => n == .string || n == .uuid
  | .byteVec | .byteSlice => n == .bytes
  | .byteArray m =>
    (match n with
      | .fixed _ k => k == m
      | .duration => m == 12
      | _ => false)
  | _ => false


/-- Node `i` of the frozen schema `S` is the Avro type of `t` (to depth `fuel`, the fuel of
    `hasShape`; at depth 0 there is no value to serialize and nothing is required). -/
def Realizes (P : Prog) (S : Schema) : Nat → Ty → Nat → Prop
  | 0, _, _ => True
  | fuel + 1, t, i =>
    match t with
    | .unit => S[i]? = some .null
    | .bool => S[i]? = some .boolean
    | .i8 | .i16 | .i32 | .u16 => S[i]? = some .int
    | .i64 | .u32 | .u64 | .usize => S[i]? = some .long
    | .f32 => S[i]? = some .float
    | .f64 => S[i]? = some .double
    | .string | .str => S[i]? = some .string
    | .byteVec | .byteSlice => S[i]? = some .bytes
    | .byteArray n => ∃ nm, S[i]? = some (.fixed nm n)
    | .vec t => ∃ k, S[i]? = some (.array k) ∧ k < S.size ∧ Realizes P S fuel t k
    | .hashMap t | .btreeMap t => ∃ k, S[i]? = some (.map k) ∧ k < S.size ∧ Realizes P S fuel t k
    | .option t =>
      ∃ a b, S[i]? = some (.union [a, b]) ∧ S[a]? = some .null ∧ PlainAt S b ∧ Realizes P S fuel t b
    | .ptr t => Realizes P S fuel t i
    | .param _ => False
    | .named id args =>
      match P[id]? with
      | none => False
      | some d =>
        match d.body with
        | .record fields =>
          d.ident ≠ "Null" ∧ ∃ nm fs, S[i]? = some (.record nm fs) ∧
            fs.length = fields.length ∧
            ∀ (j : Nat) (fd : Field) (p : String × Nat), fields[j]? = some fd → fs[j]? = some p →
              p.1 = fd.name ∧ p.2 < S.size ∧
                -- a field with a logical-type attribute owns a node that accepts its leaf type
                (if fd.attr.logical.isNone = true then Realizes P S fuel (subst args fd.ty) p.2
                 else ∃ n, S[p.2]? = some n ∧ nodeAccepts n (Derive.peel (subst args fd.ty)) = true)
        | .newtype fd => d.ident ≠ "Null" ∧ PlainAt S i ∧ Realizes P S fuel (subst args fd.ty) i
        | .unitEnum vs => ∃ nm, S[i]? = some (.enum nm vs)
        | .union vs =>
          -- each variant's serde name selects its own branch by name; a unit variant is `Null`
          ∃ ks, S[i]? = some (.union ks) ∧ ks.length = vs.length ∧
            ∀ (j : Nat) (v : Variant) (k : Nat), vs[j]? = some v → ks[j]? = some k →
              k < S.size ∧ namedLookup v.serdeName (branchNodes S ks) = some j ∧
                match v.field with
                | none => v.serdeName = "Null" ∧ S[k]? = some .null
                | some fd => Realizes P S fuel (subst args fd.ty) k

/-! ### Leaves -/

section leaves
variable {S : Schema} {i : Nat} {node : Node}

syntax "sel_tac" : tactic
macro_rules | `(tactic| sel_tac) => `(tactic| first
  | exact ⟨_, rfl, Or.inl rfl⟩
  | exact ⟨_, rfl, Or.inr ⟨_, rfl, by decide⟩⟩)

theorem fits_bool (hm : Mode S i node) (hi : S[i]? = some .boolean) (b : Bool) :
    Succ (serBool S node b) (fun _ => True) :=
  viaUnion_mode hm hi (by intro vs h; cases h) (by sel_tac) (writeAll_succ _)

theorem fits_f32 (hm : Mode S i node) (hi : S[i]? = some .float) (b : BitVec 32) :
    Succ (serF32 S node b) (fun _ => True) :=
  viaUnion_mode hm hi (by intro vs h; cases h) (by sel_tac) (writeAll_succ _)

theorem fits_f64 (ext : Avro.Impl.Ext) (hm : Mode S i node) (hi : S[i]? = some .double) (b : BitVec 64) :
    Succ (serF64 ext S node b) (fun _ => True) :=
  viaUnion_mode hm hi (by intro vs h; cases h) (by sel_tac) (writeAll_succ _)

theorem fits_str (ext : Avro.Impl.Ext) (hm : Mode S i node) (hi : S[i]? = some .string) (x : String) :
    Succ (serStr ext S node x) (fun _ => True) :=
  viaUnion_mode hm hi (by intro vs h; cases h) (by sel_tac) (writeLengthDelimited_succ _)

theorem fits_bytes (hm : Mode S i node) (hi : S[i]? = some .bytes) (x : Bytes) :
    Succ (serBytes S node x) (fun _ => True) :=
  viaUnion_mode hm hi (by intro vs h; cases h) (by sel_tac) (writeLengthDelimited_succ _)

theorem fits_fixed (hm : Mode S i node) {nm : Name} {n : Nat} (hi : S[i]? = some (.fixed nm n))
    (x : Bytes) (hx : x.length = n) : Succ (serBytes S node x) (fun _ => True) := by
  refine viaUnion_mode hm hi (by intro vs h; cases h) (by sel_tac) ?_
  simp only [hx, ne_eq, not_true_eq_false, if_false]
  exact writeAll_succ _

theorem inRange_bounds (ty : IntTy) (v : Int) (hr : ty.inRange v = true) :
   (ty = .i8 → -128 ≤ v ∧ v < 128) ∧ (ty = .i16 → -32768 ≤ v ∧ v < 32768) ∧
   (ty = .i32 → -2147483648 ≤ v ∧ v < 2147483648) ∧ (ty = .u16 → 0 ≤ v ∧ v < 65536) ∧
   (ty = .i64 → -9223372036854775808 ≤ v ∧ v < 9223372036854775808) ∧
   (ty = .u32 → 0 ≤ v ∧ v < 4294967296) ∧ (ty = .u64 → 0 ≤ v) := by
  refine ⟨?_, ?_, ?_, ?_, ?_, ?_, ?_⟩ <;> intro h <;> subst h <;>
    simp [IntTy.inRange, IntTy.signed, IntTy.sizeOf] at hr <;>
    first | omega | (have := of_decide_eq_true hr; omega)

theorem fits_int_int (hm : Mode S i node) (hi : S[i]? = some .int) (ty : IntTy) (v : Int)
    (hty : ty = .i8 ∨ ty = .i16 ∨ ty = .i32 ∨ ty = .u16) (hr : ty.inRange v = true) :
    Succ (serInteger S node ty v) (fun _ => True) := by
  have hrange : -2147483648 ≤ v ∧ v ≤ 2147483647 := by
    obtain ⟨h1, h2, h3, h4, _⟩ := inRange_bounds ty v hr
    rcases hty with h | h | h | h
    · have := h1 h; omega
    · have := h2 h; omega
    · have := h3 h; omega
    · have := h4 h; omega
  refine viaUnion_mode hm hi (by intro vs h; cases h)
    (by rcases hty with h | h | h | h <;> subst h <;> sel_tac) ?_
  simp only [hrange, and_self, if_true]
  exact writeVarI64_succ _

theorem fits_int_long (hm : Mode S i node) (hi : S[i]? = some .long) (ty : IntTy) (v : Int)
    (hty : ty = .i64 ∨ ty = .u32 ∨ ty = .u64) (hr : ty.inRange v = true)
    (h63 : v < (2 : Int) ^ 63) :
    Succ (serInteger S node ty v) (fun _ => True) := by
  have hrange : -9223372036854775808 ≤ v ∧ v ≤ 9223372036854775807 := by
    obtain ⟨_, _, _, _, h1, h2, h3⟩ := inRange_bounds ty v hr
    rcases hty with h | h | h
    · have := h1 h; omega
    · have := h2 h; omega
    · have := h3 h; omega
  refine viaUnion_mode hm hi (by intro vs h; cases h)
    (by rcases hty with h | h | h <;> subst h <;> sel_tac) ?_
  simp only [hrange, and_self, if_true]
  exact writeVarI64_succ _

end leaves

/-! ### Unit, `None`, unit variants -/

section unitlike
variable {S : Schema} {i : Nat} {node : Node}

theorem fits_unit (hm : Mode S i node) (hi : S[i]? = some .null) :
    Succ (serUnit S node) (fun _ => True) := by
  cases hm with
  | direct _ h =>
    rw [hi] at h
    cases h
    exact Succ.pure _ trivial
  | under a ha hp =>
    obtain ⟨n, hn, h1, _⟩ := hp
    rw [hi] at hn
    cases hn
    exact absurd rfl h1

theorem unnamedLookup_null_plain {T : Node} (h1 : T ≠ .null) :
    unnamedLookup .null [.null, T] = some 0 := by
  cases T <;> first | exact absurd rfl h1 | rfl

/-- `None` at the union `[null, T]`. -/
theorem fits_none {a b : Nat} (ha : S[a]? = some .null) (hp : PlainAt S b) :
    Succ (serUnit S (.union [a, b])) (fun _ => True) := by
  obtain ⟨T, hT, h1, _⟩ := hp
  simp only [serUnit, branchNodes_pair ha hT, unnamedLookup_null_plain h1]
  exact writeVarI64_succ _

theorem lookupLast_isSome {xs : List String} {name : String} (h : name ∈ xs) :
    ∃ d, lookupLast xs name = some d := by
  have := lookupLast_go_isSome name xs 0 none (.inl h)
  unfold lookupLast
  cases hj : lookupLast.go name xs 0 none with
  | none => rw [hj] at this; cases this
  | some d => exact ⟨d, rfl⟩

theorem nullVariantBranch_enum {a : Nat} {nm : Name} {vs : List String} {v : String}
    (ha : S[a]? = some .null) (hi : S[i]? = some (.enum nm vs)) (hv : v ∈ vs) :
    nullVariantBranch S [a, i] v = none := by
  unfold nullVariantBranch
  by_cases hN : v = "Null"
  · subst hN
    have hsel : unnamedLookup .unitVariant [.null, .enum nm vs] = some 1 :=
      unnamedLookup_null_T (by sel_tac)
    simp only [if_true, branchNodes_pair ha hi, hsel]
    by_cases hc2 : "Null" ∈ (Node.enum nm vs).lookupNames
    · have : namedLookup "Null" [.null, .enum nm vs] = some 1 := by
        simp [namedLookup, namedLookup.go, hc2]
      simp [this, hi]
    · have : namedLookup "Null" [.null, .enum nm vs] = some 0 := by
        simp only [namedLookup, namedLookup.go, List.contains_iff_mem, hc2]
        simp [Node.lookupNames]
      simp [this, ha, hi, hv]
  · simp [hN]

theorem fits_unitVariant (ext : Avro.Impl.Ext) (hm : Mode S i node) {nm : Name} {vs : List String}
    (hi : S[i]? = some (.enum nm vs)) {v : String} (hv : v ∈ vs) :
    Succ (serUnitVariant ext S node v) (fun _ => True) := by
  obtain ⟨d, hd⟩ := lookupLast_isSome hv
  have hat : Succ (serUnitVariantAt ext v (.enum nm vs)) (fun _ => True) := by
    simp only [serUnitVariantAt, serStrAt, hd]
    exact writeVarI64_succ _
  have hvia : Succ (viaUnion S node .unitVariant (serUnitVariantAt ext v)) (fun _ => True) :=
    viaUnion_mode hm hi (by intro vs h; cases h) (by sel_tac) hat
  cases hm with
  | direct _ h =>
    have hT : node = .enum nm vs := by rw [hi] at h; exact (Option.some.inj h).symm
    subst hT
    exact hvia
  | under a ha hp =>
    simp only [serUnitVariant, nullVariantBranch_enum ha hi hv]
    exact hvia

/-- The unit variant `Null` of an enum that maps to a union, selected by name. -/
theorem fits_unit_in_union (ext : Avro.Impl.Ext) {ks : List Nat} {j k : Nat}
    (hnl : namedLookup "Null" (branchNodes S ks) = some j) (hk : ks[j]? = some k)
    (hS : S[k]? = some .null) :
    Succ (serUnitVariant ext S (.union ks) "Null") (fun _ => True) := by
  simp only [serUnitVariant]
  cases hb : nullVariantBranch S ks "Null" with
  | some d => exact writeVarI64_succ _
  | none =>
    dsimp only
    unfold nullVariantBranch at hb
    simp only [if_true, hnl, hk, hS, Option.bind_some] at hb
    cases he : unnamedLookup .unitVariant (branchNodes S ks) with
    | none => simp [he] at hb
    | some e =>
      simp only [he] at hb
      cases hke : ks[e]? with
      | none => simp [hke] at hb
      | some k' =>
        simp only [hke, Option.bind_some] at hb
        cases hn : S[k']? with
        | none => simp [hn] at hb
        | some n =>
          simp only [hn] at hb
          cases n <;> simp at hb
          rename_i nm syms
          simp only [viaUnion, he, hke, hn]
          refine Succ.bind (writeVarI64_succ _) (fun _ _ => ?_)
          obtain ⟨d, hd⟩ := lookupLast_isSome hb
          simp only [serUnitVariantAt, serStrAt, hd]
          exact writeVarI64_succ _

end unitlike

/-! ### Sequences, maps, records -/

section compound
variable (ext : Avro.Impl.Ext) (allowSlow : Bool) {S : Schema} {i : Nat} {node : Node}

theorem Succ.finally {α} {m : SerM α} {fin : SerM Unit} {Q : α → Prop}
    (hm : Succ m Q) (hf : Succ fin (fun _ => True)) : Succ (SerM.finally m fin) Q := by
  intro s hs
  obtain ⟨a, s', e, hs', qa⟩ := hm s hs
  obtain ⟨_, s'', e', hs'', _⟩ := hf s' hs'
  refine ⟨a, s'', ?_, hs'', qa⟩
  simp only [SerM.finally, e, e']

theorem blockNew_succ (len : Nat) : Succ (blockNew len) (fun c => c = len) := by
  unfold blockNew
  dsimp only
  split
  · exact Succ.bind (writeVarI64_succ _) (fun _ _ => Succ.pure _ rfl)
  · exact Succ.pure _ rfl

theorem nodeAt_succ {k : Nat} {n : Node} (hk : S[k]? = some n) : Succ (nodeAt S k) (fun x => x = n) := by
  simp only [nodeAt, hk]
  exact Succ.pure _ rfl

theorem serElems_array (n : Node) : ∀ (elems : List SV),
    (∀ e ∈ elems, Succ (ser ext allowSlow S n e) (fun _ => True)) → ∀ s, Good s →
    ∃ s', serElems ext allowSlow S (.array n elems.length) elems s = (.ok (.array n 0), s') ∧ Good s' := by
  intro elems
  induction elems with
  | nil => intro _ s hs; exact ⟨s, by rw [serElems]; rfl, hs⟩
  | cons e rest ih =>
    intro h s hs
    obtain ⟨_, s1, e1, hs1, _⟩ := h e (by simp) s hs
    obtain ⟨s2, e2, hs2⟩ := ih (fun e' he' => h e' (by simp [he'])) s1 hs1
    refine ⟨s2, ?_, hs2⟩
    rw [serElems]
    simp only [List.length_cons, blockSignal, pure, e1, e2]

theorem fits_seq (hm : Mode S i node) {k : Nat} (hi : S[i]? = some (.array k)) {n : Node}
    (hk : S[k]? = some n) (elems : List SV)
    (helems : ∀ e ∈ elems, Succ (ser ext allowSlow S n e) (fun _ => True)) :
    Succ (ser ext allowSlow S node (.seq (some elems.length) elems)) (fun _ => True) := by
  rw [ser]
  refine Succ.bind (Q := fun kd => kd = .array n elems.length) ?_ ?_
  · refine viaUnion_mode hm hi (by intro vs h; cases h) (by sel_tac) ?_
    simp only [seqStartAt, Option.getD_some]
    exact Succ.bind (nodeAt_succ hk) (fun a ha => Succ.bind (blockNew_succ _)
      (fun c hc => Succ.pure _ (by rw [ha, hc])))
  · intro kd hkd
    subst hkd
    intro s hs
    obtain ⟨s1, e1, hs1⟩ := serElems_array ext allowSlow n elems helems s hs
    have hfin : Succ (SerM.finally (seqEnd (.array n 0)) (seqDrop (.array n 0))) (fun _ => True) := by
      refine Succ.finally ?_ (Succ.pure _ trivial)
      simp only [seqEnd, blockEnd, ne_eq, not_true_eq_false, if_false]
      exact writeVarI64_succ _
    obtain ⟨a, s2, e2, hs2, _⟩ := hfin s1 hs1
    exact ⟨a, s2, by simp only [e1, seqFinish, e2], hs2, trivial⟩

theorem serEntries_map (n : Node) : ∀ (entries : List (SV × SV)),
    (∀ kv ∈ entries, isStrKey kv.1 = true ∧ Succ (ser ext allowSlow S n kv.2) (fun _ => True)) →
    ∀ s, Good s →
    ∃ s', serEntries ext allowSlow S (.map n entries.length) entries s = (.ok (.map n 0), s') ∧ Good s' := by
  intro entries
  induction entries with
  | nil => intro _ s hs; exact ⟨s, by rw [serEntries]; rfl, hs⟩
  | cons kv rest ih =>
    intro h s hs
    obtain ⟨key, v⟩ := kv
    obtain ⟨hkey, hv⟩ := h (key, v) (by simp)
    cases key <;> simp only [isStrKey] at hkey <;> try cases hkey
    rename_i str
    have hks : Succ (ser ext allowSlow S .string (.str str)) (fun _ => True) := by
      rw [ser]
      exact writeLengthDelimited_succ _
    obtain ⟨_, s1, e1, hs1, _⟩ := hks s hs
    obtain ⟨_, s2, e2, hs2, _⟩ := hv s1 hs1
    obtain ⟨s3, e3, hs3⟩ := ih (fun e' he' => h e' (by simp [he'])) s2 hs2
    refine ⟨s3, ?_, hs3⟩
    rw [serEntries]
    simp only [List.length_cons, blockSignal, pure, e1, e2, e3]

theorem fits_map (hm : Mode S i node) {k : Nat} (hi : S[i]? = some (.map k)) {n : Node}
    (hk : S[k]? = some n) (entries : List (SV × SV))
    (hent : ∀ kv ∈ entries, isStrKey kv.1 = true ∧ Succ (ser ext allowSlow S n kv.2) (fun _ => True)) :
    Succ (ser ext allowSlow S node (.map (some entries.length) entries)) (fun _ => True) := by
  rw [ser]
  refine viaUnion_mode hm hi (by intro vs h; cases h) (by sel_tac) ?_
  refine Succ.bind (Q := fun kd => kd = .map n entries.length) ?_ ?_
  · simp only [structStartAt, Option.getD_some]
    exact Succ.bind (nodeAt_succ hk) (fun a ha => Succ.bind (blockNew_succ _)
      (fun c hc => Succ.pure _ (by rw [ha, hc])))
  · intro kd hkd
    subst hkd
    intro s hs
    obtain ⟨s1, e1, hs1⟩ := serEntries_map ext allowSlow n entries hent s hs
    have hfin : Succ (structFinish S (.map n 0)) (fun _ => True) := by
      intro t ht
      obtain ⟨_, t1, f1, ht1, _⟩ := writeVarI64_succ 0 t ht
      refine ⟨(), t1, ?_, ht1, trivial⟩
      simp only [structFinish, structEnd, TrM.lift, blockEnd, ne_eq, not_true_eq_false, if_false,
        bind, f1, pure, SerM.finally, structDrop]
    obtain ⟨a, s2, e2, hs2, _⟩ := hfin s1 hs1
    exact ⟨a, s2, by simp only [e1, structBodyFinish, e2], hs2, trivial⟩

theorem serFields_inorder (fields : List (String × Nat)) : ∀ (pres : List (String × SV)) (rs : RecordState),
    rs.buffers.slots = [] →
    (∀ (j : Nat) (name : String) (v : SV), pres[j]? = some (name, v) →
      ∃ k n, fields[rs.current + j]? = some (name, k) ∧ S[k]? = some n ∧
        Succ (ser ext allowSlow S n v) (fun _ => True)) →
    ∀ s, Good s →
    ∃ rs' s', serFields ext allowSlow S (.record fields rs) pres s = (.ok (.record fields rs'), s') ∧
      Good s' ∧ rs'.current = rs.current + pres.length := by
  intro pres
  induction pres with
  | nil => intro rs _ _ s hs; exact ⟨rs, s, by rw [serFields], hs, rfl⟩
  | cons nv rest ih =>
    intro rs hslots h s hs
    obtain ⟨name, v⟩ := nv
    obtain ⟨k, n, hf, hk, hv⟩ := h 0 name v rfl
    rw [Nat.add_zero] at hf
    obtain ⟨_, s1, e1, hs1, _⟩ := hv s hs
    obtain ⟨rs', s2, e2, hs2, hcur⟩ := ih { rs with current := rs.current + 1 } hslots
      (fun j name' v' hj => by
        have := h (j + 1) name' v' (by simpa using hj)
        simpa [Nat.add_assoc, Nat.add_comm 1 j] using this) s1 hs1
    refine ⟨rs', s2, ?_, hs2, by simp only [hcur, List.length_cons]; omega⟩
    have hidx : fieldIdx fields rs name = .ok rs.current := by
      simp [fieldIdx, hf]
    have hrv : recordValue S fields rs rs.current (fun node => ser ext allowSlow S node v) s =
        (.ok { rs with current := rs.current + 1 }, s1) := by
      simp only [recordValue, hf, hk, if_true, e1, hslots, List.length_nil, flushBuffered]
    rw [serFields]
    simp only [hidx, hrv, e2]

theorem fits_struct (hm : Mode S i node) {nm : Name} {fs : List (String × Nat)}
    (hi : S[i]? = some (.record nm fs)) {name : String} (hname : name ≠ "Null")
    (pres : List (String × SV)) (hlen : pres.length = fs.length)
    (hpres : ∀ (j : Nat) (fname : String) (v : SV), pres[j]? = some (fname, v) →
      ∃ k n, fs[j]? = some (fname, k) ∧ S[k]? = some n ∧
        Succ (ser ext allowSlow S n v) (fun _ => True)) :
    Succ (ser ext allowSlow S node (.struct name pres)) (fun _ => True) := by
  have hnu : ∀ vs, Node.record nm fs ≠ .union vs := by intro vs h; cases h
  have hg : Succ (do
      let k ← structStartAt S (.record nm fs) pres.length (some pres.length)
      fun s => structBodyFinish S (serFields ext allowSlow S k pres s)) (fun _ => True) := by
    refine Succ.bind (Q := fun kd => ∃ sb : SuperBuffer, sb.slots = [] ∧
      kd = .record fs { current := 0, buffers := sb }) ?_ ?_
    · simp only [structStartAt]
      exact Succ.bind (Succ.of_poolOp popSuperBuffer_op) (fun sb hsb => Succ.pure _ ⟨sb, hsb, rfl⟩)
    · rintro kd ⟨sb, hsb, rfl⟩
      intro s hs
      obtain ⟨rs', s1, e1, hs1, hcur⟩ := serFields_inorder ext allowSlow fs pres
        { current := 0, buffers := sb } hsb (fun j fname v hj => by simpa using hpres j fname v hj) s hs
      obtain ⟨s2, e2, _, b2, c2⟩ := structFinish_record_done S fs rs' s1 hs1.2
        (by rw [hcur, hlen]; simp)
      refine ⟨(), s2, ?_, ⟨by rw [b2]; exact hs1.1, c2⟩, trivial⟩
      simp only [e1, structBodyFinish, e2]
  rw [ser]
  refine viaName_mode hm hi hnu hname ?_ ?_
  · exact hg
  · exact viaUnion_mode hm hi hnu (by sel_tac) hg

end compound

/-! ### Leaf values at the node of a logical-type field -/

section accepts
variable {P : Prog} {S : Schema} (ext : Avro.Impl.Ext) (allowSlow : Bool)

theorem hasShape_peel : ∀ (t : Ty) (f : Nat) (sv : SV), hasShape P f t sv = true →
    ∃ f', hasShape P (f' + 1) (Derive.peel t) sv = true
  | .ptr t, f, sv, h => by
    cases f with
    | zero => simp [hasShape] at h
    | succ f =>
      have h' : hasShape P f t sv = true := by simpa [hasShape] using h
      exact hasShape_peel t f sv h'
  | .unit, f, sv, h | .bool, f, sv, h | .i8, f, sv, h | .i16, f, sv, h | .i32, f, sv, h | .i64, f, sv, h
  | .u16, f, sv, h | .u32, f, sv, h | .u64, f, sv, h | .usize, f, sv, h | .f32, f, sv, h | .f64, f, sv, h
  | .string, f, sv, h | .str, f, sv, h | .byteVec, f, sv, h | .byteSlice, f, sv, h | .byteArray _, f, sv, h
  | .vec _, f, sv, h | .option _, f, sv, h | .hashMap _, f, sv, h | .btreeMap _, f, sv, h
  | .named _ _, f, sv, h | .param _, f, sv, h => by
    cases f with
    | zero => simp [hasShape] at h
    | succ f => exact ⟨f, h⟩

theorem fits_accepts_int {n : Node} {t : Ty} (ht : t = .i8 ∨ t = .i16 ∨ t = .i32 ∨ t = .u16)
    (hacc : nodeAccepts n t = true) {f : Nat} {sv : SV}
    (hs : hasShape P (f + 1) t sv = true) : Succ (ser ext allowSlow S n sv) (fun _ => True) := by
  have hsv : ∃ ty v, sv = .int ty v ∧ (ty = .i8 ∨ ty = .i16 ∨ ty = .i32 ∨ ty = .u16) ∧
      ty.inRange v = true := by
    rcases ht with h | h | h | h <;> subst h <;> cases sv <;> simp [hasShape, intTyOf] at hs <;>
      exact ⟨_, _, rfl, by simp [← hs.1.1], hs.1.2⟩
  obtain ⟨ty, v, rfl, hty, hrange⟩ := hsv
  have hn : n = .int ∨ n = .date ∨ n = .timeMillis ∨ n = .long ∨ n = .timestampMillis ∨
      n = .timestampMicros ∨ n = .timeMicros := by
    rcases ht with h | h | h | h <;> subst h <;> simpa [nodeAccepts, or_assoc] using hacc
  obtain ⟨h1, h2, h3, h4, _⟩ := inRange_bounds ty v hrange
  have hr : -2147483648 ≤ v ∧ v ≤ 2147483647 := by
    rcases hty with h | h | h | h
    · have := h1 h; omega
    · have := h2 h; omega
    · have := h3 h; omega
    · have := h4 h; omega
  have hr2 : -9223372036854775808 ≤ v ∧ v ≤ 9223372036854775807 := by omega
  rw [ser]
  rcases hn with h | h | h | h | h | h | h <;> subst h <;>
    simp only [serInteger, viaUnion, hr, hr2, and_self, if_true] <;> exact writeVarI64_succ _


theorem fits_accepts_long {n : Node} {t : Ty} (ht : t = .i64 ∨ t = .u32 ∨ t = .u64 ∨ t = .usize)
    (hacc : nodeAccepts n t = true) {f : Nat} {sv : SV}
    (hs : hasShape P (f + 1) t sv = true) : Succ (ser ext allowSlow S n sv) (fun _ => True) := by
  have hsv : ∃ ty v, sv = .int ty v ∧ -9223372036854775808 ≤ v ∧ v ≤ 9223372036854775807 := by
    rcases ht with h | h | h | h <;> subst h <;> cases sv <;>
      simp [hasShape, intTyOf, fitsAvro] at hs
    · obtain ⟨h1, h2⟩ := hs
      subst h1
      obtain ⟨_, _, _, _, h5, _⟩ := inRange_bounds _ _ h2
      exact ⟨_, _, rfl, by have := h5 rfl; omega⟩
    · obtain ⟨h1, h2⟩ := hs
      subst h1
      obtain ⟨_, _, _, _, _, h6, _⟩ := inRange_bounds _ _ h2
      exact ⟨_, _, rfl, by have := h6 rfl; omega⟩
    · obtain ⟨⟨h1, h2⟩, h3⟩ := hs
      subst h1
      obtain ⟨_, _, _, _, _, _, h7⟩ := inRange_bounds _ _ h2
      exact ⟨_, _, rfl, by have := h7 rfl; omega⟩
    · obtain ⟨⟨h1, h2⟩, h3⟩ := hs
      subst h1
      obtain ⟨_, _, _, _, _, _, h7⟩ := inRange_bounds _ _ h2
      exact ⟨_, _, rfl, by have := h7 rfl; omega⟩
  obtain ⟨ty, v, rfl, hr2⟩ := hsv
  have hn : n = .long ∨ n = .timestampMillis ∨ n = .timestampMicros ∨ n = .timeMicros := by
    rcases ht with h | h | h | h <;> subst h <;> simpa [nodeAccepts, or_assoc] using hacc
  rw [ser]
  rcases hn with h | h | h | h <;> subst h <;>
    simp only [serInteger, viaUnion, hr2, and_self, if_true] <;> exact writeVarI64_succ _

/-- A value of a leaf type at a node that accepts it. -/
theorem fits_accepts {n : Node} {t : Ty} (hacc : nodeAccepts n t = true) {f : Nat} {sv : SV}
    (hs : hasShape P (f + 1) t sv = true) : Succ (ser ext allowSlow S n sv) (fun _ => True) := by
  cases t with
  | i8 => exact fits_accepts_int ext allowSlow (by simp) hacc hs
  | i16 => exact fits_accepts_int ext allowSlow (by simp) hacc hs
  | i32 => exact fits_accepts_int ext allowSlow (by simp) hacc hs
  | u16 => exact fits_accepts_int ext allowSlow (by simp) hacc hs
  | i64 => exact fits_accepts_long ext allowSlow (by simp) hacc hs
  | u32 => exact fits_accepts_long ext allowSlow (by simp) hacc hs
  | u64 => exact fits_accepts_long ext allowSlow (by simp) hacc hs
  | usize => exact fits_accepts_long ext allowSlow (by simp) hacc hs
  | unit =>
    have : n = .null := by simpa [nodeAccepts] using hacc
    subst this
    cases sv <;> simp only [hasShape, Bool.false_eq_true] at hs
    rw [ser]; exact Succ.pure _ trivial
  | bool =>
    have : n = .boolean := by simpa [nodeAccepts] using hacc
    subst this
    cases sv <;> simp only [hasShape, Bool.false_eq_true] at hs
    rw [ser]; exact writeAll_succ _
  | f32 =>
    have : n = .float := by simpa [nodeAccepts] using hacc
    subst this
    cases sv <;> simp only [hasShape, Bool.false_eq_true] at hs
    rw [ser]; exact writeAll_succ _
  | f64 =>
    have : n = .double := by simpa [nodeAccepts] using hacc
    subst this
    cases sv <;> simp only [hasShape, Bool.false_eq_true] at hs
    rw [ser]; exact writeAll_succ _
  | string =>
    have : n = .string ∨ n = .uuid := by simpa [nodeAccepts] using hacc
    cases sv <;> simp only [hasShape, Bool.false_eq_true] at hs
    rw [ser]
    rcases this with h | h <;> subst h <;> exact writeLengthDelimited_succ _
  | str =>
    have : n = .string ∨ n = .uuid := by simpa [nodeAccepts] using hacc
    cases sv <;> simp only [hasShape, Bool.false_eq_true] at hs
    rw [ser]
    rcases this with h | h <;> subst h <;> exact writeLengthDelimited_succ _
  | byteVec =>
    have : n = .bytes := by simpa [nodeAccepts] using hacc
    subst this
    cases sv <;> simp only [hasShape, Bool.false_eq_true] at hs
    rw [ser]; exact writeLengthDelimited_succ _
  | byteSlice =>
    have : n = .bytes := by simpa [nodeAccepts] using hacc
    subst this
    cases sv <;> simp only [hasShape, Bool.false_eq_true] at hs
    rw [ser]; exact writeLengthDelimited_succ _
  | byteArray m =>
    cases sv <;> simp only [hasShape, Bool.false_eq_true, decide_eq_true_eq] at hs
    rename_i b
    rw [ser]
    cases n <;> simp only [nodeAccepts, Bool.false_eq_true, beq_iff_eq] at hacc
    · subst hacc
      simp only [serBytes, viaUnion, hs, ne_eq, not_true_eq_false, if_false]
      exact writeAll_succ _
    · subst hacc
      simp only [serBytes, viaUnion, hs, ne_eq, not_true_eq_false, if_false]
      exact writeAll_succ _
  | vec _ => simp [nodeAccepts] at hacc
  | option _ => simp [nodeAccepts] at hacc
  | hashMap _ => simp [nodeAccepts] at hacc
  | btreeMap _ => simp [nodeAccepts] at hacc
  | ptr _ => simp [nodeAccepts] at hacc
  | named _ _ => simp [nodeAccepts] at hacc
  | param _ => simp [nodeAccepts] at hacc

end accepts

/-! ### The induction -/

section main
variable (ext : Avro.Impl.Ext) (allowSlow : Bool) (P : Prog) (S : Schema)

/-- Induction hypothesis at depth `f`. -/
def FitsAt (f : Nat) : Prop :=
  ∀ (t : Ty) (i : Nat) (sv : SV) (node : Node), Realizes P S f t i → hasShape P f t sv = true →
    Mode S i node → Succ (ser ext allowSlow S node sv) (fun _ => True)

theorem fitsAt_zero : FitsAt ext allowSlow P S 0 := by
  intro t i sv node _ hs
  simp [hasShape] at hs

variable {ext allowSlow P S}

theorem fits_step_int {f : Nat} {t : Ty} {i : Nat} {sv : SV} {node : Node}
    (ht : t = .i8 ∨ t = .i16 ∨ t = .i32 ∨ t = .u16)
    (hr : Realizes P S (f + 1) t i) (hs : hasShape P (f + 1) t sv = true) (hm : Mode S i node) :
    Succ (ser ext allowSlow S node sv) (fun _ => True) := by
  have hi : S[i]? = some .int := by rcases ht with h | h | h | h <;> subst h <;> exact hr
  have hsv : ∃ ty v, sv = .int ty v ∧ (ty = .i8 ∨ ty = .i16 ∨ ty = .i32 ∨ ty = .u16) ∧
      ty.inRange v = true := by
    rcases ht with h | h | h | h <;> subst h <;> cases sv <;> simp [hasShape, intTyOf] at hs <;>
      exact ⟨_, _, rfl, by simp [← hs.1.1], hs.1.2⟩
  obtain ⟨ty, v, rfl, hty, hrange⟩ := hsv
  rw [ser]
  exact fits_int_int hm hi ty v hty hrange

theorem fits_step_long {f : Nat} {t : Ty} {i : Nat} {sv : SV} {node : Node}
    (ht : t = .i64 ∨ t = .u32 ∨ t = .u64 ∨ t = .usize)
    (hr : Realizes P S (f + 1) t i) (hs : hasShape P (f + 1) t sv = true) (hm : Mode S i node) :
    Succ (ser ext allowSlow S node sv) (fun _ => True) := by
  have hi : S[i]? = some .long := by rcases ht with h | h | h | h <;> subst h <;> exact hr
  have hsv : ∃ ty v, sv = .int ty v ∧ (ty = .i64 ∨ ty = .u32 ∨ ty = .u64) ∧
      ty.inRange v = true ∧ v < (2 : Int) ^ 63 := by
    rcases ht with h | h | h | h <;> subst h <;> cases sv <;>
      simp [hasShape, intTyOf, fitsAvro] at hs
    · obtain ⟨h1, h2⟩ := hs
      subst h1
      obtain ⟨_, _, _, _, h5, _⟩ := inRange_bounds _ _ h2
      exact ⟨_, _, rfl, by simp, h2, by have := h5 rfl; omega⟩
    · obtain ⟨h1, h2⟩ := hs
      subst h1
      obtain ⟨_, _, _, _, _, h6, _⟩ := inRange_bounds _ _ h2
      exact ⟨_, _, rfl, by simp, h2, by have := h6 rfl; omega⟩
    · obtain ⟨⟨h1, h2⟩, h3⟩ := hs
      subst h1
      exact ⟨_, _, rfl, by simp, h2, h3⟩
    · obtain ⟨⟨h1, h2⟩, h3⟩ := hs
      subst h1
      exact ⟨_, _, rfl, by simp, h2, h3⟩
  obtain ⟨ty, v, rfl, hty, hrange, h63⟩ := hsv
  rw [ser]
  exact fits_int_long hm hi ty v hty hrange h63

theorem fits_step_vec {f : Nat} (ih : FitsAt ext allowSlow P S f) {t : Ty} {i : Nat} {sv : SV}
    {node : Node} (hr : Realizes P S (f + 1) (.vec t) i) (hs : hasShape P (f + 1) (.vec t) sv = true)
    (hm : Mode S i node) : Succ (ser ext allowSlow S node sv) (fun _ => True) := by
  obtain ⟨k, hi, hk, hrk⟩ := hr
  obtain ⟨n, hn⟩ : ∃ n, S[k]? = some n := ⟨S[k], by simp [hk]⟩
  cases sv <;> simp only [hasShape, Bool.false_eq_true] at hs
  rename_i len elems
  cases len <;> simp only [Bool.and_eq_true, decide_eq_true_eq, List.all_eq_true, Bool.false_eq_true] at hs
  obtain ⟨hlen, hall⟩ := hs
  subst hlen
  exact fits_seq ext allowSlow hm hi hn elems
    (fun e he => ih t k e n hrk (hall e he) (Mode.direct n hn))

theorem fits_step_map {f : Nat} (ih : FitsAt ext allowSlow P S f) {t t' : Ty} {i : Nat} {sv : SV}
    {node : Node} (ht : t' = .hashMap t ∨ t' = .btreeMap t)
    (hr : Realizes P S (f + 1) t' i) (hs : hasShape P (f + 1) t' sv = true)
    (hm : Mode S i node) : Succ (ser ext allowSlow S node sv) (fun _ => True) := by
  have hr' : ∃ k, S[i]? = some (.map k) ∧ k < S.size ∧ Realizes P S f t k := by
    rcases ht with h | h <;> subst h <;> exact hr
  have hs' : ∃ entries, sv = .map (some entries.length) entries ∧
      ∀ kv ∈ entries, isStrKey kv.1 = true ∧ hasShape P f t kv.2 = true := by
    rcases ht with h | h <;> subst h <;> cases sv <;> simp only [hasShape, Bool.false_eq_true] at hs <;>
      (rename_i len entries
       cases len <;> simp only [Bool.and_eq_true, decide_eq_true_eq, List.all_eq_true,
         Bool.false_eq_true] at hs
       obtain ⟨hlen, hall⟩ := hs
       subst hlen
       exact ⟨entries, rfl, fun kv hkv => hall kv hkv⟩)
  obtain ⟨k, hi, hk, hrk⟩ := hr'
  obtain ⟨entries, rfl, hall⟩ := hs'
  obtain ⟨n, hn⟩ : ∃ n, S[k]? = some n := ⟨S[k], by simp [hk]⟩
  exact fits_map ext allowSlow hm hi hn entries
    (fun kv hkv => ⟨(hall kv hkv).1, ih t k kv.2 n hrk (hall kv hkv).2 (Mode.direct n hn)⟩)

theorem fits_step_option {f : Nat} (ih : FitsAt ext allowSlow P S f) {t : Ty} {i : Nat} {sv : SV}
    {node : Node} (hr : Realizes P S (f + 1) (.option t) i)
    (hs : hasShape P (f + 1) (.option t) sv = true)
    (hm : Mode S i node) : Succ (ser ext allowSlow S node sv) (fun _ => True) := by
  obtain ⟨a, b, hi, ha, hp, hrb⟩ := hr
  have hnode : node = .union [a, b] := by
    cases hm with
    | direct _ h => rw [hi] at h; exact (Option.some.inj h).symm
    | under a' _ hp' =>
      obtain ⟨n, hn, _, h2⟩ := hp'
      rw [hi] at hn
      exact absurd (Option.some.inj hn).symm (h2 _)
  subst hnode
  cases sv <;> simp only [hasShape, Bool.false_eq_true] at hs
  · rw [ser]; exact fits_none ha hp
  · rename_i x
    rw [ser]
    exact ih t b x _ hrb hs (Mode.under a ha hp)

set_option linter.unusedSimpArgs false in
theorem fits_step_record {f : Nat} (ih : FitsAt ext allowSlow P S f) {args : List Ty} {d : Decl}
    {fields : List Field} {i : Nat} {sv : SV} {node : Node}
    (hr : d.ident ≠ "Null" ∧ ∃ nm fs, S[i]? = some (.record nm fs) ∧ fs.length = fields.length ∧
      ∀ (j : Nat) (fd : Field) (p : String × Nat), fields[j]? = some fd → fs[j]? = some p →
        p.1 = fd.name ∧ p.2 < S.size ∧
          (if fd.attr.logical.isNone = true then Realizes P S f (subst args fd.ty) p.2
           else ∃ n, S[p.2]? = some n ∧ nodeAccepts n (Derive.peel (subst args fd.ty)) = true))
    (hs : (match sv with
      | .struct name fs =>
        name = d.ident && fs.length = fields.length &&
          (fields.zip fs).all fun (f', (n, v)) => n = f'.name && hasShape P f (subst args f'.ty) v
      | _ => false) = true)
    (hm : Mode S i node) : Succ (ser ext allowSlow S node sv) (fun _ => True) := by
  obtain ⟨hname, nm, fs, hi, hlen, hfs⟩ := hr
  cases sv <;> simp only [Bool.false_eq_true] at hs
  rename_i name pres
  simp only [Bool.and_eq_true, decide_eq_true_eq, List.all_eq_true] at hs
  obtain ⟨⟨hn, hplen⟩, hall⟩ := hs
  subst hn
  refine fits_struct ext allowSlow hm hi hname pres (by rw [hplen, hlen]) ?_
  intro j fname v hj
  have hjlt : j < pres.length := by
    rcases Nat.lt_or_ge j pres.length with h | h
    · exact h
    · rw [List.getElem?_eq_none h] at hj; cases hj
  have hfd : fields[j]? = some fields[j] := List.getElem?_eq_getElem (by omega)
  have hp : fs[j]? = some fs[j] := List.getElem?_eq_getElem (by omega)
  obtain ⟨h1, h2, h3⟩ := hfs j _ _ hfd hp
  have hz : (fields[j], (fname, v)) ∈ fields.zip pres := by
    apply List.mem_of_getElem? (i := j)
    rw [List.getElem?_zip_eq_some]
    exact ⟨hfd, hj⟩
  have := hall _ hz
  simp only [Bool.and_eq_true, decide_eq_true_eq] at this
  obtain ⟨h4, h5⟩ := this
  refine ⟨fs[j].2, S[fs[j].2], ?_, by simp [h2], ?_⟩
  · rw [hp, h4, ← h1]
  · by_cases hl : fields[j].attr.logical.isNone = true
    · rw [if_pos hl] at h3
      exact ih _ _ v _ h3 h5 (Mode.direct _ (by simp [h2]))
    · rw [if_neg hl] at h3
      obtain ⟨n, hn, hacc⟩ := h3
      have : S[fs[j].2] = n := by
        have h' : S[fs[j].2]? = some S[fs[j].2] := Array.getElem?_eq_getElem h2
        rw [h'] at hn
        exact Option.some.inj hn
      rw [this]
      obtain ⟨f', hs'⟩ := hasShape_peel _ _ _ h5
      exact fits_accepts ext allowSlow hacc hs'

theorem fits_step_newtype {f : Nat} (ih : FitsAt ext allowSlow P S f) {t : Ty} {d : Decl}
    {i : Nat} {sv : SV} {node : Node}
    (hr : d.ident ≠ "Null" ∧ PlainAt S i ∧ Realizes P S f t i)
    (hs : (match sv with
      | .newtypeStruct name x => name = d.ident && hasShape P f t x
      | _ => false) = true)
    (hm : Mode S i node) : Succ (ser ext allowSlow S node sv) (fun _ => True) := by
  obtain ⟨hname, ⟨T, hi, _, hnu⟩, hrt⟩ := hr
  cases sv <;> simp only [Bool.false_eq_true] at hs
  rename_i name x
  simp only [Bool.and_eq_true, decide_eq_true_eq] at hs
  obtain ⟨hn, hx⟩ := hs
  subst hn
  rw [ser]
  exact viaName_mode hm hi hnu hname (ih t i x T hrt hx (Mode.direct T hi)) (ih t i x node hrt hx hm)

theorem fits_step_enum {d : Decl} {vs : List String}
    {i : Nat} {sv : SV} {node : Node}
    (hr : ∃ nm, S[i]? = some (.enum nm vs))
    (hs : (match sv with
      | .unitVariant name idx v => name = d.ident && vs[idx]? = some v
      | _ => false) = true)
    (hm : Mode S i node) : Succ (ser ext allowSlow S node sv) (fun _ => True) := by
  obtain ⟨nm, hi⟩ := hr
  cases sv <;> simp only [Bool.false_eq_true] at hs
  rename_i name idx v
  simp only [Bool.and_eq_true, decide_eq_true_eq] at hs
  rw [ser]
  exact fits_unitVariant ext hm hi (List.mem_of_getElem? hs.2)

theorem fits_step_union {f : Nat} (ih : FitsAt ext allowSlow P S f) {args : List Ty} {d : Decl}
    {vs : List Variant} {i : Nat} {sv : SV} {node : Node}
    (hr : ∃ ks, S[i]? = some (.union ks) ∧ ks.length = vs.length ∧
      ∀ (j : Nat) (v : Variant) (k : Nat), vs[j]? = some v → ks[j]? = some k →
        k < S.size ∧ namedLookup v.serdeName (branchNodes S ks) = some j ∧
          match v.field with
          | none => v.serdeName = "Null" ∧ S[k]? = some .null
          | some fd => Realizes P S f (subst args fd.ty) k)
    (hs : (match sv with
      | .unitVariant name idx v =>
        name = d.ident &&
          (match vs[idx]? with
            | some var => var.field.isNone && var.serdeName = v
            | none => false)
      | .newtypeVariant name idx v x =>
        name = d.ident &&
          (match vs[idx]? with
            | some var =>
              (match var.field with
                | some f' => var.serdeName = v && hasShape P f (subst args f'.ty) x
                | none => false)
            | none => false)
      | _ => false) = true)
    (hm : Mode S i node) : Succ (ser ext allowSlow S node sv) (fun _ => True) := by
  obtain ⟨ks, hi, hlen, hall⟩ := hr
  have hnode : node = .union ks := by
    cases hm with
    | direct _ h => rw [hi] at h; exact (Option.some.inj h).symm
    | under a' _ hp' =>
      obtain ⟨n, hn, _, h2⟩ := hp'
      rw [hi] at hn
      exact absurd (Option.some.inj hn).symm (h2 _)
  subst hnode
  cases sv <;> simp only [Bool.false_eq_true] at hs
  · rename_i name idx v
    simp only [Bool.and_eq_true, decide_eq_true_eq] at hs
    obtain ⟨_, hs⟩ := hs
    cases hv : vs[idx]? with
    | none => simp [hv] at hs
    | some var =>
      simp only [hv, Bool.and_eq_true, decide_eq_true_eq, Option.isNone_iff_eq_none] at hs
      obtain ⟨hfield, rfl⟩ := hs
      have hidx : idx < ks.length := by
        rw [hlen]
        rcases Nat.lt_or_ge idx vs.length with h | h
        · exact h
        · rw [List.getElem?_eq_none h] at hv; cases hv
      obtain ⟨_, hnl, hrest⟩ := hall idx var ks[idx] hv (List.getElem?_eq_getElem hidx)
      rw [hfield] at hrest
      obtain ⟨hnull, hS⟩ := hrest
      rw [ser, hnull]
      rw [hnull] at hnl
      exact fits_unit_in_union ext hnl (List.getElem?_eq_getElem hidx) hS
  · rename_i name idx v x
    simp only [Bool.and_eq_true, decide_eq_true_eq] at hs
    obtain ⟨_, hs⟩ := hs
    cases hv : vs[idx]? with
    | none => simp [hv] at hs
    | some var =>
      simp only [hv] at hs
      cases hfd : var.field with
      | none => simp [hfd] at hs
      | some fd =>
        simp only [hfd, Bool.and_eq_true, decide_eq_true_eq] at hs
        obtain ⟨rfl, hx⟩ := hs
        have hidx : idx < ks.length := by
          rw [hlen]
          rcases Nat.lt_or_ge idx vs.length with h | h
          · exact h
          · rw [List.getElem?_eq_none h] at hv; cases hv
        have hk : ks[idx]? = some ks[idx] := List.getElem?_eq_getElem hidx
        obtain ⟨hlt, hnl, hrest⟩ := hall idx var ks[idx] hv hk
        rw [hfd] at hrest
        have hn : S[ks[idx]]? = some S[ks[idx]] := Array.getElem?_eq_getElem hlt
        rw [ser]
        simp only [viaName, hnl, hk, hn]
        exact Succ.bind (writeVarI64_succ _)
          (fun _ _ => ih _ _ x _ hrest hx (Mode.direct _ hn))

theorem fits_step_named {f : Nat} (ih : FitsAt ext allowSlow P S f) {id : Nat} {args : List Ty}
    {i : Nat} {sv : SV} {node : Node}
    (hr : Realizes P S (f + 1) (.named id args) i)
    (hs : hasShape P (f + 1) (.named id args) sv = true)
    (hm : Mode S i node) : Succ (ser ext allowSlow S node sv) (fun _ => True) := by
  simp only [Realizes] at hr
  simp only [hasShape] at hs
  cases hd : P[id]? with
  | none => rw [hd] at hr; exact hr.elim
  | some d =>
    rw [hd] at hr hs
    dsimp only at hr hs
    cases hb : d.body with
    | record fields => rw [hb] at hr hs; exact fits_step_record ih hr hs hm
    | newtype fd => rw [hb] at hr hs; exact fits_step_newtype ih hr hs hm
    | unitEnum vs => rw [hb] at hr hs; exact fits_step_enum (d := d) hr hs hm
    | union vs => rw [hb] at hr hs; exact fits_step_union ih hr hs hm

theorem fits_step {f : Nat} (ih : FitsAt ext allowSlow P S f) : FitsAt ext allowSlow P S (f + 1) := by
  intro t i sv node hr hs hm
  cases t with
  | unit =>
    cases sv <;> simp only [hasShape, Bool.false_eq_true] at hs
    rw [ser]; exact fits_unit hm hr
  | bool =>
    cases sv <;> simp only [hasShape, Bool.false_eq_true] at hs
    rw [ser]; exact fits_bool hm hr _
  | i8 => exact fits_step_int (by simp) hr hs hm
  | i16 => exact fits_step_int (by simp) hr hs hm
  | i32 => exact fits_step_int (by simp) hr hs hm
  | u16 => exact fits_step_int (by simp) hr hs hm
  | i64 => exact fits_step_long (by simp) hr hs hm
  | u32 => exact fits_step_long (by simp) hr hs hm
  | u64 => exact fits_step_long (by simp) hr hs hm
  | usize => exact fits_step_long (by simp) hr hs hm
  | f32 =>
    cases sv <;> simp only [hasShape, Bool.false_eq_true] at hs
    rw [ser]; exact fits_f32 hm hr _
  | f64 =>
    cases sv <;> simp only [hasShape, Bool.false_eq_true] at hs
    rw [ser]; exact fits_f64 ext hm hr _
  | string =>
    cases sv <;> simp only [hasShape, Bool.false_eq_true] at hs
    rw [ser]; exact fits_str ext hm hr _
  | str =>
    cases sv <;> simp only [hasShape, Bool.false_eq_true] at hs
    rw [ser]; exact fits_str ext hm hr _
  | byteVec =>
    cases sv <;> simp only [hasShape, Bool.false_eq_true] at hs
    rw [ser]; exact fits_bytes hm hr _
  | byteSlice =>
    cases sv <;> simp only [hasShape, Bool.false_eq_true] at hs
    rw [ser]; exact fits_bytes hm hr _
  | byteArray n =>
    obtain ⟨nm, hi⟩ := hr
    cases sv <;> simp only [hasShape, Bool.false_eq_true, decide_eq_true_eq] at hs
    rw [ser]; exact fits_fixed hm hi _ hs
  | vec t => exact fits_step_vec ih hr hs hm
  | option t => exact fits_step_option ih hr hs hm
  | hashMap t => exact fits_step_map ih (.inl rfl) hr hs hm
  | btreeMap t => exact fits_step_map ih (.inr rfl) hr hs hm
  | ptr t => exact ih t i sv node hr hs hm
  | named id args => exact fits_step_named ih hr hs hm
  | param k => exact hr.elim

/-- Steps 1–2: a value of type `t` serializes at a node that realizes `t`. -/
theorem fits_all (ext : Avro.Impl.Ext) (allowSlow : Bool) (P : Prog) (S : Schema) :
    ∀ f, FitsAt ext allowSlow P S f
  | 0 => fitsAt_zero ext allowSlow P S
  | f + 1 => fits_step (fits_all ext allowSlow P S f)

end main

end Avro.Theorems.DeriveFits
