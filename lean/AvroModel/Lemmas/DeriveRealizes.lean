import AvroModel.Lemmas.DeriveBuild
/-
C20, step 3: a builder state satisfying the invariant with nothing pending realizes every type
of the fragment at the node registered for its lookup type.
-/
namespace Avro.Theorems.DeriveFits
open Avro Avro.Impl Avro.Impl.Derive

theorem freeze_get {nodes : Array RawNode} {i : Nat} {x : RawNode} (h : nodes[i]? = some x) :
    (freezeNodes nodes)[i]? = some (freezeNode x) := by
  simp [freezeNodes, Array.getElem?_map, h]

theorem freezeNodes_size (nodes : Array RawNode) : (freezeNodes nodes).size = nodes.size := by
  simp [freezeNodes]

section heads
variable {P : Prog}

/-- A head token whose node is neither `null` nor a union. -/
def PlainTok (P : Prog) (tok : KTok) : Prop :=
  tok ≠ .unit ∧ tok ≠ .option ∧
    ∀ (id : Nat) (d : Decl) (vs : List Variant), tok = .self id → P[id]? = some d → d.body ≠ .union vs

macro "plain_tok" : tactic =>
  `(tactic| exact ⟨by simp, by simp, by intro _ _ _ h; cases h⟩)

theorem PlainTok.self {id : Nat} {d : Decl} (hd : P[id]? = some d) (hnu : ∀ vs, d.body ≠ .union vs) :
    PlainTok P (.self id) := by
  refine ⟨by simp, by simp, fun id' d' vs h hd' => ?_⟩
  cases h
  rw [hd] at hd'
  cases hd'
  exact hnu vs

theorem KeyOf.named_head {id : Nat} {args : List Ty} {k : Key} {d : Decl}
    (h : KeyOf P (.named id args) k) (hd : P[id]? = some d) (hb : ∀ fd, d.body ≠ .newtype fd)
    (hnu : ∀ vs, d.body ≠ .union vs) :
    ∃ tok rest, k = tok :: rest ∧ PlainTok P tok := by
  obtain ⟨F, h⟩ := h.succ
  unfold lookupKey at h
  simp only [hd] at h
  cases hbody : d.body with
  | newtype fd => exact absurd hbody (hb fd)
  | unitEnum vs =>
    simp only [hbody, Option.some.injEq] at h
    exact ⟨_, _, h.symm, PlainTok.self hd hnu⟩
  | record fs =>
    simp only [hbody] at h
    split at h
    · exact ⟨_, _, (Option.some.inj h).symm, PlainTok.self hd hnu⟩
    · obtain ⟨k', hk', _⟩ := KeyOf.of_maps h
      exact ⟨_, _, hk', by plain_tok⟩
  | union vs => exact absurd hbody (hnu vs)

theorem nonOpt_head : ∀ (n : Nat) (t : Ty) (k : Key), nonOpt P n t = true → KeyOf P t k →
    ∃ tok rest, k = tok :: rest ∧ PlainTok P tok := by
  intro n
  induction n with
  | zero => intro t k h; simp [nonOpt] at h
  | succ n ih =>
    intro t k h hk
    have hk' := hk.to_peel
    unfold nonOpt at h
    generalize Derive.peel t = u at h hk'
    have leaf : ∀ tok, leafTok u = some tok → tok ≠ .unit → tok ≠ .option → (∀ id, tok ≠ .self id) →
        ∃ tok rest, k = tok :: rest ∧ PlainTok P tok := by
      intro tok h1 h2 h3 h4
      exact ⟨tok, [], hk'.leaf (lookupKey_leaf h1), h2, h3, fun id _ _ h => absurd h (h4 id)⟩
    cases u with
    | unit => simp at h
    | option t => simp at h
    | param i => simp at h
    | ptr t => simp at h
    | vec t => obtain ⟨k', h1, _⟩ := hk'.vec; exact ⟨_, _, h1, by plain_tok⟩
    | hashMap t => obtain ⟨k', h1, _⟩ := hk'.hashMap; exact ⟨_, _, h1, by plain_tok⟩
    | btreeMap t => obtain ⟨k', h1, _⟩ := hk'.btreeMap; exact ⟨_, _, h1, by plain_tok⟩
    | named id args =>
      simp only [Bool.and_eq_true, List.isEmpty_iff] at h
      obtain ⟨rfl, h⟩ := h
      cases hd : P[id]? with
      | none => simp [hd] at h
      | some d =>
        simp only [hd] at h
        cases hb : d.body with
        | newtype fd =>
          simp only [hb, Bool.and_eq_true] at h
          obtain ⟨hl, hno⟩ := h
          cases hdir : isDirect fd .newtypeStruct with
          | true =>
            simp only [hdir, if_true] at hno
            have := hk'.named_newtype hd hb hdir
            rw [chosenTy_plain hl, subst_nil] at this
            exact ih fd.ty k hno this.of_peel
          | false =>
            simp only [hdir, Bool.false_eq_true, if_false, decide_eq_true_eq] at hno
            exact ⟨_, _, hk'.named_newtype_nd hd hb hdir hno,
              PlainTok.self hd (by intro vs; rw [hb]; simp)⟩
        | record fs => exact hk'.named_head hd (by intro fd; rw [hb]; simp) (by intro vs; rw [hb]; simp)
        | unitEnum vs => exact hk'.named_head hd (by intro fd; rw [hb]; simp) (by intro vs'; rw [hb]; simp)
        | union vs => simp [hb] at h
    | bool => exact leaf .bool rfl (by simp) (by simp) (by simp)
    | i8 => exact leaf .int rfl (by simp) (by simp) (by simp)
    | i16 => exact leaf .int rfl (by simp) (by simp) (by simp)
    | i32 => exact leaf .int rfl (by simp) (by simp) (by simp)
    | u16 => exact leaf .int rfl (by simp) (by simp) (by simp)
    | i64 => exact leaf .long rfl (by simp) (by simp) (by simp)
    | u32 => exact leaf .long rfl (by simp) (by simp) (by simp)
    | u64 => exact leaf .long rfl (by simp) (by simp) (by simp)
    | usize => exact leaf .long rfl (by simp) (by simp) (by simp)
    | f32 => exact leaf .float rfl (by simp) (by simp) (by simp)
    | f64 => exact leaf .double rfl (by simp) (by simp) (by simp)
    | string => exact leaf .string rfl (by simp) (by simp) (by simp)
    | str => exact leaf .string rfl (by simp) (by simp) (by simp)
    | byteVec => exact leaf .bytes rfl (by simp) (by simp) (by simp)
    | byteSlice => exact leaf .bytes rfl (by simp) (by simp) (by simp)
    | byteArray n => exact leaf (.byteArray n) rfl (by simp) (by simp) (by simp)

theorem plainAt_of_done {s : BState} {tok : KTok} {rest : Key} {b : Nat}
    (h : Done P s (tok :: rest) b) (hp : PlainTok P tok) :
    PlainAt (freezeNodes s.nodes) b := by
  obtain ⟨h1, h2, h3⟩ := hp
  unfold Done at h
  have mk : ∀ (X : RegularType), s.nodes[b]? = some (plain X) → X ≠ .null → (∀ vs, X ≠ .union vs) →
      PlainAt (freezeNodes s.nodes) b := by
    intro X hX hn hu
    refine ⟨freezeNode (plain X), freeze_get hX, ?_, ?_⟩
    · cases X <;> simp [freezeNode, plain] at hn ⊢
    · intro vs
      cases X <;> simp [freezeNode, plain] at hu ⊢
  cases tok with
  | unit => exact absurd rfl h1
  | option => exact absurd rfl h2
  | bool => exact mk _ h (by simp) (by simp)
  | int => exact mk _ h (by simp) (by simp)
  | long => exact mk _ h (by simp) (by simp)
  | float => exact mk _ h (by simp) (by simp)
  | double => exact mk _ h (by simp) (by simp)
  | string => exact mk _ h (by simp) (by simp)
  | bytes => exact mk _ h (by simp) (by simp)
  | byteArray n => obtain ⟨nm, h⟩ := h; exact mk _ h (by simp) (by simp)
  | vec => obtain ⟨c, h, _⟩ := h; exact mk _ h (by simp) (by simp)
  | map => obtain ⟨c, h, _⟩ := h; exact mk _ h (by simp) (by simp)
  | generic _ _ => exact h.elim
  | self id =>
    simp only [KeyNode] at h
    cases hd : P[id]? with
    | none => rw [hd] at h; exact h.elim
    | some d =>
      rw [hd] at h
      dsimp only at h
      cases hb : d.body with
      | record fields =>
        rw [hb] at h
        obtain ⟨nm, fs, h, _⟩ := h
        exact mk _ h (by simp) (by simp)
      | unitEnum vs =>
        rw [hb] at h
        obtain ⟨nm, h⟩ := h
        exact mk _ h (by simp) (by simp)
      | newtype fd =>
        rw [hb] at h
        obtain ⟨_, nm, n, h, _⟩ := h
        exact mk _ h (by simp) (by simp)
      | union vs => exact absurd hb (h3 id d vs rfl hd)

theorem realizes_of_peel_fixed {S : Schema} {i n : Nat} {nm : Name}
    (hS : S[i]? = some (.fixed nm n)) : ∀ (t : Ty), Derive.peel t = .byteArray n →
    ∀ f, Realizes P S f t i
  | .ptr t, hp, f => by
    cases f with
    | zero => exact trivial
    | succ f => exact realizes_of_peel_fixed hS t hp f
  | .byteArray m, hp, f => by
    cases f with
    | zero => exact trivial
    | succ f =>
      have : m = n := by simpa [Derive.peel] using hp
      subst this
      exact ⟨nm, hS⟩
  | .unit, hp, _ | .bool, hp, _ | .i8, hp, _ | .i16, hp, _ | .i32, hp, _ | .i64, hp, _ | .u16, hp, _
  | .u32, hp, _ | .u64, hp, _ | .usize, hp, _ | .f32, hp, _ | .f64, hp, _ | .string, hp, _ | .str, hp, _
  | .byteVec, hp, _ | .byteSlice, hp, _ | .vec _, hp, _ | .option _, hp, _
  | .hashMap _, hp, _ | .btreeMap _, hp, _ | .named _ _, hp, _ | .param _, hp, _ => by
    simp [Derive.peel] at hp

end heads

section realizes
variable {P : Prog}

theorem leaf_realizes {s : BState} {t : Ty} {tok : KTok} (htok : leafTok t = some tok) {i : Nat}
    (h : Done P s [tok] i) (f : Nat) : Realizes P (freezeNodes s.nodes) (f + 1) t i := by
  unfold Done at h
  cases t <;> simp only [leafTok, Option.some.injEq, reduceCtorEq] at htok <;> subst htok <;>
    first
    | exact freeze_get h
    | (obtain ⟨nm, h⟩ := h; exact ⟨nm, freeze_get h⟩)

/-- The hypothesis on variant names: in the node built for an enum that maps to a union, every
    variant's serde name selects its own branch by name, and unit variants are called `Null`. -/
def UnionNames (P : Prog) (s : BState) : Prop :=
  ∀ (id : Nat) (d : Decl) (vs : List Variant) (i : Nat) (ks : List Nat), P[id]? = some d →
    d.body = .union vs → Reg s [.self id] i → s.nodes[i]? = some (plain (.union ks)) →
    ∀ (j : Nat) (v : Variant), vs[j]? = some v →
      namedLookup v.serdeName (branchNodes (freezeNodes s.nodes) ks) = some j ∧
        (v.field = none → v.serdeName = "Null")

theorem realizes_of_inv (hP : ∀ (id : Nat) (d : Decl), P[id]? = some d → declOk true P d = true)
    {s : BState} (hinv : Inv P [] s) (hnames : UnionNames P s) : ∀ (f : Nat) (t : Ty) (key : Key) (i : Nat),
    tyOk P t = true → KeyOf P t key → Reg s key i → Realizes P (freezeNodes s.nodes) f t i := by
  have hdone : ∀ k i, Reg s k i → Done P s k i := fun k i h => by
    rcases hinv.done k i h with h' | h'
    · cases h'
    · exact h'
  have hbnd : ∀ k i, Reg s k i → i < (freezeNodes s.nodes).size := fun k i h => by
    rw [freezeNodes_size]; exact hinv.bnd k i h
  intro f
  induction f with
  | zero => intro t key i _ _ _; exact trivial
  | succ f ih =>
    intro t key i ht hkey hreg
    have leaf : ∀ tok, leafTok t = some tok → Realizes P (freezeNodes s.nodes) (f + 1) t i := by
      intro tok htok
      have : key = [tok] := hkey.leaf (lookupKey_leaf htok)
      subst this
      exact leaf_realizes htok (hdone _ _ hreg) f
    cases t with
    | vec t =>
      obtain ⟨k', rfl, hk'⟩ := hkey.vec
      obtain ⟨c, hn, hc⟩ := hdone _ _ hreg
      exact ⟨c, freeze_get hn, hbnd _ _ hc, ih t k' c (by simpa [tyOk] using ht) hk' hc⟩
    | hashMap t =>
      obtain ⟨k', rfl, hk'⟩ := hkey.hashMap
      obtain ⟨c, hn, hc⟩ := hdone _ _ hreg
      exact ⟨c, freeze_get hn, hbnd _ _ hc, ih t k' c (by simpa [tyOk] using ht) hk' hc⟩
    | btreeMap t =>
      obtain ⟨k', rfl, hk'⟩ := hkey.btreeMap
      obtain ⟨c, hn, hc⟩ := hdone _ _ hreg
      exact ⟨c, freeze_get hn, hbnd _ _ hc, ih t k' c (by simpa [tyOk] using ht) hk' hc⟩
    | option t =>
      simp only [tyOk, Bool.and_eq_true] at ht
      obtain ⟨k', rfl, hk'⟩ := hkey.option
      obtain ⟨a, b, hn, ha, hb⟩ := hdone _ _ hreg
      obtain ⟨tok, rest, rfl, h1⟩ := nonOpt_head _ t k' ht.2 hk'
      have hna : s.nodes[a]? = some (plain .null) := hdone _ _ ha
      exact ⟨a, b, freeze_get hn, freeze_get hna, plainAt_of_done (hdone _ _ hb) h1,
        ih t _ b ht.1 hk' hb⟩
    | ptr t => exact ih t key i (by simpa [tyOk] using ht) hkey.ptr hreg
    | param j => simp [tyOk] at ht
    | named id args =>
      simp only [tyOk, Bool.and_eq_true, List.isEmpty_iff, decide_eq_true_eq] at ht
      obtain ⟨rfl, hid⟩ := ht
      have hd : P[id]? = some P[id] := Array.getElem?_eq_getElem hid
      have hdok := hP id _ hd
      generalize P[id] = d at hd hdok
      unfold Realizes
      simp only [hd]
      cases hb : d.body with
      | unitEnum vs =>
        dsimp only
        have := hkey.named_enum hd hb
        subst this
        have h := hdone _ _ hreg
        simp only [Done, KeyNode, hd, hb] at h
        obtain ⟨nm, h⟩ := h
        exact ⟨nm, freeze_get h⟩
      | newtype fd =>
        dsimp only
        simp only [declOk, hb, Bool.and_eq_true, decide_eq_true_eq, plainFieldOk] at hdok
        obtain ⟨⟨hname, hl, hty⟩, hno⟩ := hdok
        rw [subst_nil]
        cases hdir : isDirect fd .newtypeStruct with
        | true =>
          simp only [hdir, if_true] at hno
          have hk := hkey.named_newtype hd hb hdir
          rw [chosenTy_plain hl, subst_nil] at hk
          have hk := hk.of_peel
          obtain ⟨tok, rest, rfl, h1⟩ := nonOpt_head _ fd.ty key hno hk
          exact ⟨hname, plainAt_of_done (hdone _ _ hreg) h1, ih fd.ty _ i hty hk hreg⟩
        | false =>
          simp only [hdir, Bool.false_eq_true, if_false, decide_eq_true_eq] at hno
          have := hkey.named_newtype_nd hd hb hdir hno
          subst this
          have hdn := hdone _ _ hreg
          have h := hdn
          simp only [Done, KeyNode, hd, hb] at h
          obtain ⟨_, nm, n, hnode, hp⟩ := h
          exact ⟨hname, plainAt_of_done hdn (PlainTok.self hd (by intro vs; rw [hb]; simp)),
            realizes_of_peel_fixed (freeze_get hnode) fd.ty hp f⟩
      | record fields =>
        dsimp only
        simp only [declOk, hb, Bool.and_eq_true, decide_eq_true_eq, List.all_eq_true] at hdok
        obtain ⟨⟨hn, hname⟩, hfields⟩ := hdok
        have := hkey.named_record hd hb hn
        subst this
        have h := hdone _ _ hreg
        simp only [Done, KeyNode, hd, hb] at h
        obtain ⟨nm, fs, hnode, hlen, hall⟩ := h
        refine ⟨hname, nm, fs, freeze_get hnode, hlen, fun j fd p hj hp => ?_⟩
        obtain ⟨h1, h2⟩ := hall j fd p hj hp
        have hfd := hfields fd (List.mem_of_getElem? hj)
        rw [subst_nil]
        rcases h2 with ⟨hl, k, hk, hr⟩ | ⟨hl, raw, hraw, hrn⟩
        · simp only [fieldOk, plainFieldOk, hl, Bool.true_and, Bool.not_true, Bool.false_and,
            Bool.or_false] at hfd
          rw [if_pos hl]
          exact ⟨h1, hbnd _ _ hr, ih fd.ty k p.2 hfd hk hr⟩
        · simp only [fieldOk, plainFieldOk, hl, Bool.false_and, Bool.not_false, Bool.true_and,
            Bool.false_or, hraw] at hfd
          have hlt : p.2 < (freezeNodes s.nodes).size := by
            rw [freezeNodes_size]
            rcases Nat.lt_or_ge p.2 s.nodes.size with h | h
            · exact h
            · rw [Array.getElem?_eq_none h] at hrn; cases hrn
          rw [if_neg (by simp [hl])]
          exact ⟨h1, hlt, _, freeze_get hrn, hfd⟩
      | union vs =>
        dsimp only
        simp only [declOk, hb, Bool.true_and, Bool.and_eq_true, decide_eq_true_eq, List.all_eq_true] at hdok
        obtain ⟨hn, hvs⟩ := hdok
        have := hkey.named_union hd hb hn
        subst this
        have h := hdone _ _ hreg
        simp only [Done, KeyNode, hd, hb] at h
        obtain ⟨ks, hnode, hlen, hall⟩ := h
        refine ⟨ks, freeze_get hnode, hlen, fun j v c hj hc => ?_⟩
        obtain ⟨hnl, hnull⟩ := hnames id d vs i ks hd hb hreg hnode j v hj
        have hv := hvs v (List.mem_of_getElem? hj)
        have hcv := hall j v c hj hc
        unfold variantOk at hv
        cases hf : v.field with
        | none =>
          rw [hf] at hcv
          have hnc : s.nodes[c]? = some (plain .null) := hdone _ _ hcv
          exact ⟨hbnd _ _ hcv, hnl, hnull hf, freeze_get hnc⟩
        | some fd =>
          rw [hf] at hcv hv
          obtain ⟨k, hk, hr⟩ := hcv
          simp only [plainFieldOk, Bool.and_eq_true] at hv
          refine ⟨hbnd _ _ hr, hnl, ?_⟩
          dsimp only
          rw [subst_nil]
          exact ih fd.ty k c hv.1.2 hk hr
    | unit => exact leaf .unit rfl
    | bool => exact leaf .bool rfl
    | i8 => exact leaf .int rfl
    | i16 => exact leaf .int rfl
    | i32 => exact leaf .int rfl
    | u16 => exact leaf .int rfl
    | i64 => exact leaf .long rfl
    | u32 => exact leaf .long rfl
    | u64 => exact leaf .long rfl
    | usize => exact leaf .long rfl
    | f32 => exact leaf .float rfl
    | f64 => exact leaf .double rfl
    | string => exact leaf .string rfl
    | str => exact leaf .string rfl
    | byteVec => exact leaf .bytes rfl
    | byteSlice => exact leaf .bytes rfl
    | byteArray n => exact leaf (.byteArray n) rfl

end realizes

end Avro.Theorems.DeriveFits
