import AvroModel.Lemmas.DeLayouts
/-
C12, all layouts: the ignoring read (`deserialize_ignored_any`) against the full read.

The ignoring read jumps over a block written with a negative count by its announced byte size
(`readBlockLen true`: `skipBytes sz`), the full read decodes the items of the block and drops the
byte size.  `Spec.decode` (and `decodeL`) accept any non-negative byte size, so the two reads can
only agree on inputs whose announced sizes are the sizes of the blocks.  `decodeX L` is `decodeL L`
with that one additional check (`sizeOk`): `decodeX L ⊆ decodeL L` (`decodeX_sub`), and on what
`decodeX Limits.impl` accepts the ignoring read consumes exactly what the full read consumes
(`skip_layouts`, section 4).
-/
namespace Avro.Spec
open Avro Avro.Impl

/-! ### 1. The specification decoder with exact block byte sizes -/

/-- block header: `(count, announced byte size if the count was negative, rest)` -/
def decodeBlockHeaderX (L : Limits) (bs : Bytes) : Option (Nat × Option Nat × Bytes) :=
  match decodeLongL L bs with
  | none => none
  | some (c, rest) =>
    if c ≥ 0 then some (c.toNat, none, rest)
    else match decodeLongL L rest with
      | none => none
      | some (size, rest') =>
        if size ≥ 0 then some ((-c).toNat, some size.toNat, rest') else none

/-- the announced byte size (if any) is the number of bytes the items of the block occupy:
    `r0` is the input after the header, `r1` the input after the items -/
def sizeOk : Option Nat → Bytes → Bytes → Bool
  | none, _, _ => true
  | some n, r0, r1 => n + r1.length == r0.length

mutual

def decodeX (L : Limits) (S : Schema) : Nat → Node → Bytes → Option (Value × Bytes)
  | 0, _, _ => none
  | fuel + 1, n, bs =>
    match n with
    | .null => some (.null, bs)
    | .boolean =>
      match bs with
      | b :: rest => if b = 0 then some (.bool false, rest) else if b = 1 then some (.bool true, rest) else none
      | [] => none
    | .int | .date | .timeMillis =>
      match decodeLongL L bs with
      | some (i, rest) => if InI32 i then some (.int i, rest) else none
      | none => none
    | .long | .timeMicros | .timestampMillis | .timestampMicros =>
      match decodeLongL L bs with
      | some (i, rest) => some (.long i, rest)
      | none => none
    | .float => (takeN 4 bs).map fun (b, rest) => (.float (BitVec.ofNat 32 (leToNat b)), rest)
    | .double => (takeN 8 bs).map fun (b, rest) => (.double (BitVec.ofNat 64 (leToNat b)), rest)
    | .bytes => (decodeBytesL L bs).map fun (b, rest) => (.bytes b, rest)
    | .string | .uuid => (decodeStringL L bs).map fun (s, rest) => (.string s, rest)
    | .array k =>
      match nodeOf S k with
      | none => none
      | some item => (decodeBlocksX L S fuel item bs).map fun (vs, rest) => (.array vs, rest)
    | .map k =>
      match nodeOf S k with
      | none => none
      | some item => (decodeMapBlocksX L S fuel item bs).map fun (vs, rest) => (.map vs, rest)
    | .union vs =>
      match decodeLenL L bs with
      | none => none
      | some (idx, rest) =>
        match vs[idx]? with
        | none => none
        | some k =>
          match nodeOf S k with
          | none => none
          | some branch => (decodeX L S fuel branch rest).map fun (v, rest') => (.union idx v, rest')
    | .record _ fields =>
      (decodeFieldsX L S fuel (fields.map (·.2)) bs).map fun (vs, rest) => (.record vs, rest)
    | .enum _ syms =>
      match decodeLenL L bs with
      | some (idx, rest) => if idx < syms.length then some (.enum idx, rest) else none
      | none => none
    | .fixed _ size => (takeN size bs).map fun (b, rest) => (.fixed b, rest)
    | .decimal _ _ .bytes =>
      match decodeBytesL L bs with
      | some (b, rest) =>
        if fitsOpt L.maxDecimal b.length then some (.decimal (fromTwosComplementBE b), rest) else none
      | none => none
    | .decimal _ _ (.fixed _ size) =>
      if fitsOpt L.maxDecimal size then
        (takeN size bs).map fun (b, rest) => (.decimal (fromTwosComplementBE b), rest)
      else none
    | .bigDecimal =>
      match decodeBytesL L bs with
      | none => none
      | some (inner, rest) =>
        match decodeBytesL L inner with
        | none => none
        | some (m, inner') =>
          if fitsOpt L.maxDecimal m.length then
            match decodeLenL L inner' with
            | some (scale, []) => some (.bigDecimal (fromTwosComplementBE m) scale, rest)
            | _ => none
          else none
    | .duration =>
      (takeN 12 bs).map fun (b, rest) =>
        (.duration (leToNat (b.take 4)) (leToNat ((b.drop 4).take 4)) (leToNat (b.drop 8)), rest)

def decodeBlocksX (L : Limits) (S : Schema) : Nat → Node → Bytes → Option (List Value × Bytes)
  | 0, _, _ => none
  | fuel + 1, item, bs =>
    match decodeBlockHeaderX L bs with
    | none => none
    | some (0, _, rest) => some ([], rest)
    | some (c, sz, rest) =>
      match decodeItemsX L S fuel item c rest with
      | none => none
      | some (vs, rest') =>
        if sizeOk sz rest rest' = true then
          match decodeBlocksX L S fuel item rest' with
          | none => none
          | some (more, rest'') => some (vs ++ more, rest'')
        else none

def decodeItemsX (L : Limits) (S : Schema) : Nat → Node → Nat → Bytes → Option (List Value × Bytes)
  | _, _, 0, bs => some ([], bs)
  | 0, _, _ + 1, _ => none
  | fuel + 1, item, c + 1, bs =>
    match decodeX L S fuel item bs with
    | none => none
    | some (v, rest) =>
      match decodeItemsX L S fuel item c rest with
      | none => none
      | some (vs, rest') => some (v :: vs, rest')

def decodeMapBlocksX (L : Limits) (S : Schema) : Nat → Node → Bytes → Option (List (String × Value) × Bytes)
  | 0, _, _ => none
  | fuel + 1, item, bs =>
    match decodeBlockHeaderX L bs with
    | none => none
    | some (0, _, rest) => some ([], rest)
    | some (c, sz, rest) =>
      match decodeMapItemsX L S fuel item c rest with
      | none => none
      | some (vs, rest') =>
        if sizeOk sz rest rest' = true then
          match decodeMapBlocksX L S fuel item rest' with
          | none => none
          | some (more, rest'') => some (vs ++ more, rest'')
        else none

def decodeMapItemsX (L : Limits) (S : Schema) : Nat → Node → Nat → Bytes → Option (List (String × Value) × Bytes)
  | _, _, 0, bs => some ([], bs)
  | 0, _, _ + 1, _ => none
  | fuel + 1, item, c + 1, bs =>
    match decodeStringL L bs with
    | none => none
    | some (k, rest) =>
      match decodeX L S fuel item rest with
      | none => none
      | some (v, rest') =>
        match decodeMapItemsX L S fuel item c rest' with
        | none => none
        | some (vs, rest'') => some ((k, v) :: vs, rest'')

def decodeFieldsX (L : Limits) (S : Schema) : Nat → List Nat → Bytes → Option (List Value × Bytes)
  | _, [], bs => some ([], bs)
  | 0, _ :: _, _ => none
  | fuel + 1, k :: ks, bs =>
    match nodeOf S k with
    | none => none
    | some n =>
      match decodeX L S fuel n bs with
      | none => none
      | some (v, rest) =>
        match decodeFieldsX L S fuel ks rest with
        | none => none
        | some (vs, rest') => some (v :: vs, rest')

end

/-! ### 2. `decodeX L ⊆ decodeL L` -/

theorem decodeBlockHeaderX_inv {L : Limits} {bs r0 : Bytes} {c : Nat} {sz : Option Nat}
    (h : decodeBlockHeaderX L bs = some (c, sz, r0)) :
    ∃ cnt r, decodeLongL L bs = some (cnt, r) ∧
      ((0 ≤ cnt ∧ c = cnt.toNat ∧ sz = none ∧ r0 = r) ∨
       (cnt < 0 ∧ c = (-cnt).toNat ∧ ∃ size, decodeLongL L r = some (size, r0) ∧ 0 ≤ size ∧
          sz = some size.toNat)) := by
  unfold decodeBlockHeaderX at h
  split at h
  · cases h
  · rename_i cnt r hd
    refine ⟨cnt, r, hd, ?_⟩
    split at h
    · rename_i hc
      simp only [Option.some.injEq, Prod.mk.injEq] at h
      obtain ⟨rfl, rfl, rfl⟩ := h
      exact Or.inl ⟨hc, rfl, rfl, rfl⟩
    · rename_i hc
      split at h
      · cases h
      · rename_i size r' hd2
        split at h
        · rename_i hs
          simp only [Option.some.injEq, Prod.mk.injEq] at h
          obtain ⟨rfl, rfl, rfl⟩ := h
          exact Or.inr ⟨by omega, rfl, size, hd2, hs, rfl⟩
        · cases h

theorem decodeBlockHeaderX_L {L : Limits} {bs r0 : Bytes} {c : Nat} {sz : Option Nat}
    (h : decodeBlockHeaderX L bs = some (c, sz, r0)) : decodeBlockHeaderL L bs = some (c, r0) := by
  obtain ⟨cnt, r, hd, hcase⟩ := decodeBlockHeaderX_inv h
  unfold decodeBlockHeaderL
  rw [hd]
  rcases hcase with ⟨hc, rfl, _, rfl⟩ | ⟨hc, rfl, size, hd2, hs, _⟩
  · simp only [ge_iff_le, hc, if_true]
  · have : ¬ (cnt ≥ 0) := by omega
    simp only [this, if_false, hd2]
    rw [if_pos (Or.inl hs)]

structure SubAll (L : Limits) (S : Schema) (fuel : Nat) : Prop where
  dec : ∀ n bs r, decodeX L S fuel n bs = some r → decodeL L S fuel n bs = some r
  blocks : ∀ item bs r, decodeBlocksX L S fuel item bs = some r →
    decodeBlocksL L S fuel item bs = some r
  items : ∀ item c bs r, decodeItemsX L S fuel item c bs = some r →
    decodeItemsL L S fuel item c bs = some r
  mblocks : ∀ item bs r, decodeMapBlocksX L S fuel item bs = some r →
    decodeMapBlocksL L S fuel item bs = some r
  mitems : ∀ item c bs r, decodeMapItemsX L S fuel item c bs = some r →
    decodeMapItemsL L S fuel item c bs = some r
  fields : ∀ ks bs r, decodeFieldsX L S fuel ks bs = some r →
    decodeFieldsL L S fuel ks bs = some r

theorem subAll (L : Limits) (S : Schema) : ∀ fuel, SubAll L S fuel := by
  intro fuel
  induction fuel with
  | zero =>
    refine ⟨?_, ?_, ?_, ?_, ?_, ?_⟩
    · intro n bs r h; simp [decodeX] at h
    · intro item bs r h; simp [decodeBlocksX] at h
    · intro item c bs r h
      cases c with
      | zero => exact h
      | succ c => simp [decodeItemsX] at h
    · intro item bs r h; simp [decodeMapBlocksX] at h
    · intro item c bs r h
      cases c with
      | zero => exact h
      | succ c => simp [decodeMapItemsX] at h
    · intro ks bs r h
      cases ks with
      | nil => exact h
      | cons k ks => simp [decodeFieldsX] at h
  | succ fuel ih =>
    refine ⟨?_, ?_, ?_, ?_, ?_, ?_⟩
    · intro n bs r h
      cases n with
      | array k =>
        simp only [decodeX] at h
        simp only [decodeL]
        rcases hk : nodeOf S k with _ | item <;> rw [hk] at h
        · cases h
        · simp only [Option.map_eq_some_iff] at h ⊢
          obtain ⟨a, ha, rfl⟩ := h
          exact ⟨a, ih.blocks _ _ _ ha, rfl⟩
      | map k =>
        simp only [decodeX] at h
        simp only [decodeL]
        rcases hk : nodeOf S k with _ | item <;> rw [hk] at h
        · cases h
        · simp only [Option.map_eq_some_iff] at h ⊢
          obtain ⟨a, ha, rfl⟩ := h
          exact ⟨a, ih.mblocks _ _ _ ha, rfl⟩
      | union vs =>
        simp only [decodeX] at h
        simp only [decodeL]
        split at h
        · cases h
        · rename_i idx rest hd
          rw [hd]
          simp only
          rcases hk : vs[idx]? with _ | k <;> rw [hk] at h
          · cases h
          · simp only at h ⊢
            rcases hb : nodeOf S k with _ | branch <;> rw [hb] at h
            · cases h
            · simp only [Option.map_eq_some_iff] at h ⊢
              obtain ⟨a, ha, rfl⟩ := h
              exact ⟨a, ih.dec _ _ _ ha, rfl⟩
      | record nm fields =>
        simp only [decodeX, Option.map_eq_some_iff] at h
        simp only [decodeL, Option.map_eq_some_iff]
        obtain ⟨a, ha, rfl⟩ := h
        exact ⟨a, ih.fields _ _ _ ha, rfl⟩
      | decimal sc pr repr =>
        cases repr with
        | bytes => simp only [decodeX] at h; simp only [decodeL]; exact h
        | fixed nm size => simp only [decodeX] at h; simp only [decodeL]; exact h
      | _ => simp only [decodeX] at h; simp only [decodeL]; exact h
    · intro item bs r h
      simp only [decodeBlocksX] at h
      simp only [decodeBlocksL]
      split at h
      · cases h
      · rename_i sz rest hd
        rw [decodeBlockHeaderX_L hd]; exact h
      · rename_i c sz rest hc hd
        rw [decodeBlockHeaderX_L hd]
        split at h
        · cases h
        · rename_i vs rest' hi
          split at h
          · split at h
            · cases h
            · rename_i more rest'' hb
              cases c with
              | zero => exact (hc rfl).elim
              | succ c =>
                simp only
                rw [ih.items _ _ _ _ hi]
                simp only
                rw [ih.blocks _ _ _ hb]
                exact h
          · cases h
    · intro item c bs r h
      cases c with
      | zero => exact h
      | succ c =>
        simp only [decodeItemsX] at h
        simp only [decodeItemsL]
        split at h
        · cases h
        · rename_i v rest hd
          rw [ih.dec _ _ _ hd]
          simp only
          split at h
          · cases h
          · rename_i vs rest' hi
            rw [ih.items _ _ _ _ hi]; exact h
    · intro item bs r h
      simp only [decodeMapBlocksX] at h
      simp only [decodeMapBlocksL]
      split at h
      · cases h
      · rename_i sz rest hd
        rw [decodeBlockHeaderX_L hd]; exact h
      · rename_i c sz rest hc hd
        rw [decodeBlockHeaderX_L hd]
        split at h
        · cases h
        · rename_i vs rest' hi
          split at h
          · split at h
            · cases h
            · rename_i more rest'' hb
              cases c with
              | zero => exact (hc rfl).elim
              | succ c =>
                simp only
                rw [ih.mitems _ _ _ _ hi]
                simp only
                rw [ih.mblocks _ _ _ hb]
                exact h
          · cases h
    · intro item c bs r h
      cases c with
      | zero => exact h
      | succ c =>
        simp only [decodeMapItemsX] at h
        simp only [decodeMapItemsL]
        split at h
        · cases h
        · rename_i k rest hs
          rw [hs]
          simp only
          split at h
          · cases h
          · rename_i v rest' hd
            rw [ih.dec _ _ _ hd]
            simp only
            split at h
            · cases h
            · rename_i vs rest'' hi
              rw [ih.mitems _ _ _ _ hi]; exact h
    · intro ks bs r h
      cases ks with
      | nil => exact h
      | cons k ks =>
        simp only [decodeFieldsX] at h
        simp only [decodeFieldsL]
        rcases hk : nodeOf S k with _ | n <;> rw [hk] at h
        · cases h
        · simp only at h ⊢
          split at h
          · cases h
          · rename_i v rest hd
            rw [ih.dec _ _ _ hd]
            simp only
            split at h
            · cases h
            · rename_i vs rest' hi
              rw [ih.fields _ _ _ hi]; exact h

/-- the exact-size decoder only removes runs of `decodeL`: same value, same remainder -/
theorem decodeX_sub (L : Limits) (S : Schema) (fuel : Nat) (n : Node) (bs : Bytes)
    (r : Value × Bytes) (h : decodeX L S fuel n bs = some r) : decodeL L S fuel n bs = some r :=
  (subAll L S fuel).dec n bs r h

end Avro.Spec

namespace Avro.Impl
open Avro Avro.Spec

/-! ### 3. The block reader when ignoring -/

theorem readsAt_varint_u32 {bs rest : Bytes} {i : Int}
    (h : decodeLongL Limits.impl bs = some (i, rest)) (h32 : InI32 i) :
    ∃ x, ReadsAt (readVarint .u32) bs rest x := by
  obtain ⟨k, hk, rfl⟩ := (decodeLongL_impl_iff bs i rest).1 h
  rw [decodeVarI64] at hk
  split at hk
  · cases hk
  · rename_i n k' heq
    simp only [Option.some.injEq, Prod.mk.injEq] at hk
    obtain ⟨rfl, rfl⟩ := hk
    obtain ⟨_, hlt, _⟩ := decodeVarU64_to_spec bs n k' heq
    rw [unzigzagBV_toInt n hlt] at h32
    have hn : n < 2 ^ 32 := by
      unfold InI32 unzigzag at h32
      split at h32 <;> omega
    refine ⟨(n : Int), ?_⟩
    intro s hs
    rw [readVarint_slice_eq _ s hs, decodeVar, decodeVarU32, heq]
    simp only [hn, if_true, Option.map_some]

theorem skipBytes_slice (s : RState) (hs : SlBase s) (mid r1 : Bytes) (n : Nat)
    (hn : mid.length = n) :
    skipBytes n (s.mk' (mid ++ r1) none) = (.ok (), s.mk' r1 none) := by
  obtain ⟨isS, rest, av, sched, lc, ma, scr, lim⟩ := s
  obtain ⟨h1, h2⟩ := hs
  simp only at h1 h2
  subst h1 h2 hn
  have : mid.length ≤ mid.length + r1.length := by omega
  simp only [skipBytes, RState.mk', if_true, List.length_append, this, List.drop_left]

/-- a count that is not negative: the end marker or an unsized block -/
theorem readsAt_readBlockLen_ign_count {bs rest : Bytes} {cnt : Int} (f : Nat)
    (hd : decodeLongL Limits.impl bs = some (cnt, rest)) (hc : 0 ≤ cnt) :
    ReadsAt (readBlockLen true (f + 1)) bs rest (if cnt.toNat = 0 then none else some cnt.toNat) := by
  rw [readBlockLen]
  refine ReadsAt.bind (readsAt_varint_i64 hd) ?_
  have h1 : ¬ (cnt < 0) := by omega
  have : (cnt = 0) ↔ (cnt.toNat = 0) := by omega
  simp only [h1, if_false, this]
  exact ReadsAt.pure _ _

/-- a block with a negative count and its exact byte size is jumped over, and the reader goes on
    with the next header -/
theorem readBlockLen_ign_sized {bs r r0 mid r1 : Bytes} {cnt size : Int} (f : Nat)
    (hd : decodeLongL Limits.impl bs = some (cnt, r)) (hc : cnt < 0)
    (hd2 : decodeLongL Limits.impl r = some (size, r0)) (hs0 : 0 ≤ size)
    (hr0 : r0 = mid ++ r1) (hmid : mid.length = size.toNat) (s : RState) (hs : SlBase s) :
    readBlockLen true (f + 1) (s.mk' bs none) = readBlockLen true f (s.mk' r1 none) := by
  rw [readBlockLen, DeM.bind_apply, readsAt_varint_i64 hd s hs]
  have h1 : ¬ (size < 0) := by omega
  simp only [hc, if_true]
  rw [DeM.bind_apply, readsAt_varint_i64 hd2 s hs]
  simp only [h1, if_false]
  rw [DeM.bind_apply, hr0, skipBytes_slice s hs mid r1 _ hmid]

/-- `BlockReader::has_more` at the start of a block when ignoring, with the fuel of the header
    loop made explicit -/
def hasMoreF (cfg : DeConfig) (f nr : Nat) : DeM (Bool × BlockState) := fun s =>
  match readBlockLen true f s with
  | (.error e, s') => (.error e, s')
  | (.ok none, s') => (.ok (false, ⟨0, nr⟩), s')
  | (.ok (some l), s') =>
    let n := nr + l
    if n > cfg.maxSeqSize then (.error .custom, s')
    else (.ok (true, { current := l - 1, nRead := n }), s')

theorem hasMore_eq_F (cfg : DeConfig) (nr : Nat) (s : RState) :
    hasMore cfg true ⟨0, nr⟩ s = hasMoreF cfg (s.rest.length + 2) nr s := rfl

theorem hasMoreF_sized (cfg : DeConfig) (nr : Nat) {bs r r0 mid r1 : Bytes} {cnt size : Int}
    (f : Nat) (hd : decodeLongL Limits.impl bs = some (cnt, r)) (hc : cnt < 0)
    (hd2 : decodeLongL Limits.impl r = some (size, r0)) (hs0 : 0 ≤ size)
    (hr0 : r0 = mid ++ r1) (hmid : mid.length = size.toNat) (s : RState) (hs : SlBase s) :
    hasMoreF cfg (f + 1) nr (s.mk' bs none) = hasMoreF cfg f nr (s.mk' r1 none) := by
  unfold hasMoreF
  rw [readBlockLen_ign_sized f hd hc hd2 hs0 hr0 hmid s hs]

theorem readsAt_hasMoreF_end (cfg : DeConfig) (nr f : Nat) {bs rest : Bytes}
    (hd : decodeLongL Limits.impl bs = some (0, rest)) :
    ReadsAt (hasMoreF cfg (f + 1) nr) bs rest (false, ⟨0, nr⟩) := by
  intro s hs
  have := readsAt_readBlockLen_ign_count f hd (Int.le_refl 0) s hs
  simp only [hasMoreF, this, Int.toNat_zero, if_true]

theorem readsAt_hasMoreF_count (cfg : DeConfig) (nr f : Nat) {bs rest : Bytes} {cnt : Int}
    (hd : decodeLongL Limits.impl bs = some (cnt, rest)) (hc : 0 < cnt)
    (hmax : nr + cnt.toNat ≤ cfg.maxSeqSize) :
    ReadsAt (hasMoreF cfg (f + 1) nr) bs rest (true, ⟨cnt.toNat - 1, nr + cnt.toNat⟩) := by
  intro s hs
  have := readsAt_readBlockLen_ign_count f hd (Int.le_of_lt hc) s hs
  have hn0 : ¬ (cnt.toNat = 0) := by omega
  have hm : ¬ (nr + cnt.toNat > cfg.maxSeqSize) := by omega
  simp only [hasMoreF, this, hn0, if_false, hm]

theorem decodeLongL_length_lt {L : Limits} {bs rest : Bytes} {i : Int}
    (h : decodeLongL L bs = some (i, rest)) : rest.length < bs.length := by
  unfold decodeLongL at h
  split at h
  · rename_i i' rest' hd
    split at h
    · simp only [Option.some.injEq, Prod.mk.injEq] at h
      obtain ⟨_, rfl⟩ := h
      unfold decodeLong at hd
      split at hd
      · cases hd
      · rename_i n r hn
        split at hd
        · simp only [Option.some.injEq, Prod.mk.injEq] at hd
          obtain ⟨_, rfl⟩ := hd
          exact decodeNat_length _ _ _ hn
        · cases hd
    · cases h
  · cases h

end Avro.Impl

namespace Avro.Spec
open Avro Avro.Impl

/-! #### what a run of `decodeX` says about lengths and suffixes -/

theorem decodeItemsX_length (L : Limits) (S : Schema) (item : Node) (fuel c : Nat) (bs : Bytes)
    (vs : List Value) (r : Bytes) (h : decodeItemsX L S fuel item c bs = some (vs, r)) :
    vs.length = c :=
  decodeItemsL_length L S item fuel c bs vs r ((subAll L S fuel).items _ _ _ _ h)

theorem decodeMapItemsX_length (L : Limits) (S : Schema) (item : Node) (fuel c : Nat) (bs : Bytes)
    (vs : List (String × Value)) (r : Bytes) (h : decodeMapItemsX L S fuel item c bs = some (vs, r)) :
    vs.length = c :=
  decodeMapItemsL_length L S item fuel c bs vs r ((subAll L S fuel).mitems _ _ _ _ h)

theorem decodeItemsX_suffix (S : Schema) (item : Node) (fuel c : Nat) (bs : Bytes)
    (vs : List Value) (r : Bytes) (h : decodeItemsX Limits.impl S fuel item c bs = some (vs, r)) :
    ∃ mid, bs = mid ++ r := by
  have h1 := (subAll _ S fuel).items _ _ _ _ h
  have h2 := (monoAll Limits.impl_le_spec S fuel).items _ _ _ _ fuel (Nat.le_refl _) h1
  rw [(specEq S fuel).items] at h2
  obtain ⟨mid, hm, _⟩ := (locAll S fuel).items item c bs vs r h2
  exact ⟨mid, hm⟩

theorem decodeMapItemsX_suffix (S : Schema) (item : Node) (fuel c : Nat) (bs : Bytes)
    (vs : List (String × Value)) (r : Bytes)
    (h : decodeMapItemsX Limits.impl S fuel item c bs = some (vs, r)) :
    ∃ mid, bs = mid ++ r := by
  have h1 := (subAll _ S fuel).mitems _ _ _ _ h
  have h2 := (monoAll Limits.impl_le_spec S fuel).mitems _ _ _ _ fuel (Nat.le_refl _) h1
  rw [(specEq S fuel).mitems] at h2
  obtain ⟨mid, hm, _⟩ := (locAll S fuel).mitems item c bs vs r h2
  exact ⟨mid, hm⟩

end Avro.Spec

namespace Avro.Impl
open Avro Avro.Spec

/-! ### 4. The ignoring read follows every run of `decodeX Limits.impl` -/

/-- one turn of `deSeqLoop` at the start of a block, when ignoring (`hasMore` with explicit fuel) -/
def seqLoopF (cfg : DeConfig) (S : Schema) (fuel f : Nat) (item : Node) (depth nr : Nat)
    (acc : List Out) : DeM (List Out) := do
  let (more, bs') ← hasMoreF cfg f nr
  if !more then pure acc.reverse else do
  let o ← de deExtModel cfg S fuel item depth false .ignored
  deSeqLoop deExtModel cfg S fuel item depth true .ignored none bs' (o :: acc)

/-- one turn of `deMapLoop` at the start of a block, when ignoring -/
def mapLoopF (cfg : DeConfig) (S : Schema) (fuel f : Nat) (item : Node) (depth nr : Nat)
    (acc : List (Out × Out)) : DeM (List (Out × Out)) := do
  let (more, bs') ← hasMoreF cfg f nr
  if !more then pure acc.reverse else do
  let n ← readLen
  let (kb, borrowed) ← readSlice n
  let (kOut, kName) ← (match Hint.ignored.key with
    | .ignored => pure (Out.unit, none)
    | _ =>
      match bytesToStr? kb with
      | some s => pure (Out.str s borrowed, some s)
      | none => DeM.fail .custom : DeM (Out × Option String))
  let v ← de deExtModel cfg S fuel item depth false (Hint.ignored.valFor kName)
  deMapLoop deExtModel cfg S fuel item depth true .ignored bs' ((kOut, v) :: acc)

theorem seqLoop_eq_F (cfg : DeConfig) (S : Schema) (fuel : Nat) (item : Node) (depth nr : Nat)
    (acc : List Out) (s : RState) :
    deSeqLoop deExtModel cfg S (fuel + 1) item depth true .ignored none ⟨0, nr⟩ acc s =
      seqLoopF cfg S fuel (s.rest.length + 2) item depth nr acc s := by
  rw [deSeqLoop]
  simp only [reduceCtorEq, if_false, Option.map_none]
  unfold seqLoopF
  rw [DeM.bind_apply, DeM.bind_apply, hasMore_eq_F]

theorem mapLoop_eq_F (cfg : DeConfig) (S : Schema) (fuel : Nat) (item : Node) (depth nr : Nat)
    (acc : List (Out × Out)) (s : RState) :
    deMapLoop deExtModel cfg S (fuel + 1) item depth true .ignored ⟨0, nr⟩ acc s =
      mapLoopF cfg S fuel (s.rest.length + 2) item depth nr acc s := by
  rw [deMapLoop]
  unfold mapLoopF
  rw [DeM.bind_apply, DeM.bind_apply, hasMore_eq_F]
  rfl

/-- the statements proved together by induction on the fuel of `decodeX` -/
structure SkipAll (cfg : DeConfig) (S : Schema) (fS : Nat) : Prop where
  dec : ∀ n bs v rest o depth, decodeX Limits.impl S fS n bs = some (v, rest) →
    observe S n v = some o → depthOf v ≤ depth → maxLen v ≤ cfg.maxSeqSize →
    (∀ fuel, 3 * size v ≤ fuel + 2 →
      ∃ o', ReadsAt (deAny deExtModel cfg S fuel n depth .ignored) bs rest o') ∧
    (∀ fuel, 3 * size v ≤ fuel →
      ReadsAt (de deExtModel cfg S fuel n depth false .ignored) bs rest .unit)
  items : ∀ ign item c bs vs r1 os depth nr,
    decodeItemsX Limits.impl S fS item c bs = some (vs, r1) →
    observeList S item vs = some os → depthItems vs ≤ depth → maxLenItems vs ≤ cfg.maxSeqSize →
    ∀ K rest,
      (∀ fuel acc, K ≤ fuel → ∃ os',
        ReadsAt (deSeqLoop deExtModel cfg S fuel item depth ign .ignored none ⟨0, nr⟩ acc) r1 rest os') →
      ∀ fuel acc, 3 * sizeItems vs + K ≤ fuel → ∃ os',
        ReadsAt (deSeqLoop deExtModel cfg S fuel item depth ign .ignored none ⟨c, nr⟩ acc) bs rest os'
  blocks : ∀ item bs vs rest os depth nr, decodeBlocksX Limits.impl S fS item bs = some (vs, rest) →
    observeList S item vs = some os → depthItems vs ≤ depth → maxLenItems vs ≤ cfg.maxSeqSize →
    nr + vs.length ≤ cfg.maxSeqSize →
    ∀ fuel acc, 3 * sizeItems vs + 1 ≤ fuel → ∃ os',
      ReadsAt (deSeqLoop deExtModel cfg S fuel item depth false .ignored none ⟨0, nr⟩ acc) bs rest os'
  blocksT : ∀ item bs vs rest os depth nr, decodeBlocksX Limits.impl S fS item bs = some (vs, rest) →
    observeList S item vs = some os → depthItems vs ≤ depth → maxLenItems vs ≤ cfg.maxSeqSize →
    nr + vs.length ≤ cfg.maxSeqSize →
    ∀ fuel f acc, 3 * sizeItems vs ≤ fuel → bs.length + 1 ≤ f → ∃ os',
      ReadsAt (seqLoopF cfg S fuel f item depth nr acc) bs rest os'
  mitems : ∀ ign item c bs es r1 os depth nr,
    decodeMapItemsX Limits.impl S fS item c bs = some (es, r1) →
    observeEntries S item es = some os → depthEntries es ≤ depth →
    maxLenEntries es ≤ cfg.maxSeqSize →
    ∀ K rest,
      (∀ fuel acc, K ≤ fuel → ∃ os',
        ReadsAt (deMapLoop deExtModel cfg S fuel item depth ign .ignored ⟨0, nr⟩ acc) r1 rest os') →
      ∀ fuel acc, 3 * sizeEntries es + K ≤ fuel → ∃ os',
        ReadsAt (deMapLoop deExtModel cfg S fuel item depth ign .ignored ⟨c, nr⟩ acc) bs rest os'
  mblocks : ∀ item bs es rest os depth nr,
    decodeMapBlocksX Limits.impl S fS item bs = some (es, rest) →
    observeEntries S item es = some os → depthEntries es ≤ depth →
    maxLenEntries es ≤ cfg.maxSeqSize → nr + es.length ≤ cfg.maxSeqSize →
    ∀ fuel acc, 3 * sizeEntries es + 1 ≤ fuel → ∃ os',
      ReadsAt (deMapLoop deExtModel cfg S fuel item depth false .ignored ⟨0, nr⟩ acc) bs rest os'
  mblocksT : ∀ item bs es rest os depth nr,
    decodeMapBlocksX Limits.impl S fS item bs = some (es, rest) →
    observeEntries S item es = some os → depthEntries es ≤ depth →
    maxLenEntries es ≤ cfg.maxSeqSize → nr + es.length ≤ cfg.maxSeqSize →
    ∀ fuel f acc, 3 * sizeEntries es ≤ fuel → bs.length + 1 ≤ f → ∃ os',
      ReadsAt (mapLoopF cfg S fuel f item depth nr acc) bs rest os'
  fields : ∀ fields bs vals rest os depth,
    decodeFieldsX Limits.impl S fS (fields.map (·.2)) bs = some (vals, rest) →
    observeFields S fields vals = some os → depthItems vals ≤ depth →
    maxLenItems vals ≤ cfg.maxSeqSize →
    ∀ fuel acc, 3 * sizeItems vals ≤ fuel → ∃ os',
      ReadsAt (deRecordFields deExtModel cfg S fuel fields depth .ignored acc) bs rest os'

variable (cfg : DeConfig) (S : Schema)

theorem skipAll_items_zero (ign : Bool) (fS : Nat) (item : Node) (bs vs r1 depth nr)
    (h : decodeItemsX Limits.impl S fS item 0 bs = some (vs, r1)) :
    ∀ K rest,
      (∀ fuel acc, K ≤ fuel → ∃ os',
        ReadsAt (deSeqLoop deExtModel cfg S fuel item depth ign .ignored none ⟨0, nr⟩ acc) r1 rest os') →
      ∀ fuel acc, 3 * sizeItems vs + K ≤ fuel → ∃ os',
        ReadsAt (deSeqLoop deExtModel cfg S fuel item depth ign .ignored none ⟨0, nr⟩ acc) bs rest os' := by
  intro K rest hK fuel acc hf
  have : vs = [] ∧ r1 = bs := by
    cases fS <;> simp only [decodeItemsX, Option.some.injEq, Prod.mk.injEq] at h <;>
      exact ⟨h.1.symm, h.2.symm⟩
  obtain ⟨rfl, rfl⟩ := this
  exact hK fuel acc (by omega)

theorem skipAll_succ_items (fS : Nat) (ih : SkipAll cfg S fS) (ign : Bool) (item : Node) (c : Nat)
    (bs : Bytes) (vs : List Value) (r1 : Bytes) (os : List Out) (depth nr : Nat)
    (h : decodeItemsX Limits.impl S (fS + 1) item c bs = some (vs, r1))
    (hobs : observeList S item vs = some os) (hdepth : depthItems vs ≤ depth)
    (hmax : maxLenItems vs ≤ cfg.maxSeqSize) :
    ∀ K rest,
      (∀ fuel acc, K ≤ fuel → ∃ os',
        ReadsAt (deSeqLoop deExtModel cfg S fuel item depth ign .ignored none ⟨0, nr⟩ acc) r1 rest os') →
      ∀ fuel acc, 3 * sizeItems vs + K ≤ fuel → ∃ os',
        ReadsAt (deSeqLoop deExtModel cfg S fuel item depth ign .ignored none ⟨c, nr⟩ acc) bs rest os' := by
  cases c with
  | zero => exact skipAll_items_zero cfg S ign _ item bs vs r1 depth nr h
  | succ c =>
    intro K rest hK fuel acc hf
    simp only [decodeItemsX] at h
    split at h
    · cases h
    · rename_i v r0 hd
      split at h
      · cases h
      · rename_i vs' r1' hi
        simp only [Option.some.injEq, Prod.mk.injEq] at h
        obtain ⟨rfl, rfl⟩ := h
        simp only [observeList] at hobs
        split at hobs
        · rename_i o os0 ho hos
          simp only [depthItems] at hdepth
          simp only [maxLenItems] at hmax
          simp only [sizeItems] at hf
          obtain ⟨g, rfl⟩ : ∃ g, fuel = g + 1 := ⟨fuel - 1, by omega⟩
          obtain ⟨os', hos'⟩ := ih.items ign item c r0 vs' r1' os0 depth nr hi hos (by omega)
            (by omega) K rest hK g (.unit :: acc) (by omega)
          refine ⟨os', ?_⟩
          rw [deSeqLoop]
          simp only [reduceCtorEq, if_false, Option.map_none]
          refine ReadsAt.bind (readsAt_hasMore_succ cfg ign c nr bs) ?_
          simp only [Bool.not_true, Bool.false_eq_true, if_false]
          exact ReadsAt.bind
            ((ih.dec item bs v r0 o depth hd ho (by omega) (by omega)).2 g (by omega)) hos'
        · cases hobs

theorem skipAll_succ_mitems (fS : Nat) (ih : SkipAll cfg S fS) (ign : Bool) (item : Node) (c : Nat)
    (bs : Bytes) (es : List (String × Value)) (r1 : Bytes) (os : List (Out × Out)) (depth nr : Nat)
    (h : decodeMapItemsX Limits.impl S (fS + 1) item c bs = some (es, r1))
    (hobs : observeEntries S item es = some os) (hdepth : depthEntries es ≤ depth)
    (hmax : maxLenEntries es ≤ cfg.maxSeqSize) :
    ∀ K rest,
      (∀ fuel acc, K ≤ fuel → ∃ os',
        ReadsAt (deMapLoop deExtModel cfg S fuel item depth ign .ignored ⟨0, nr⟩ acc) r1 rest os') →
      ∀ fuel acc, 3 * sizeEntries es + K ≤ fuel → ∃ os',
        ReadsAt (deMapLoop deExtModel cfg S fuel item depth ign .ignored ⟨c, nr⟩ acc) bs rest os' := by
  cases c with
  | zero =>
    intro K rest hK fuel acc hf
    simp only [decodeMapItemsX, Option.some.injEq, Prod.mk.injEq] at h
    obtain ⟨rfl, rfl⟩ := h
    exact hK fuel acc (by omega)
  | succ c =>
    intro K rest hK fuel acc hf
    simp only [decodeMapItemsX] at h
    split at h
    · cases h
    · rename_i k r0 hs
      split at h
      · cases h
      · rename_i v r0' hd
        split at h
        · cases h
        · rename_i es' r1' hi
          simp only [Option.some.injEq, Prod.mk.injEq] at h
          obtain ⟨rfl, rfl⟩ := h
          simp only [observeEntries] at hobs
          split at hobs
          · rename_i o os0 ho hos
            simp only [depthEntries] at hdepth
            simp only [maxLenEntries] at hmax
            simp only [sizeEntries] at hf
            obtain ⟨g, rfl⟩ : ∃ g, fuel = g + 1 := ⟨fuel - 1, by omega⟩
            obtain ⟨n, r, b, hlen, htake, hutf⟩ := decodeStringL_inv hs
            obtain ⟨os', hos'⟩ := ih.mitems ign item c r0' es' r1' os0 depth nr hi hos (by omega)
              (by omega) K rest hK g ((.unit, .unit) :: acc) (by omega)
            refine ⟨os', ?_⟩
            rw [deMapLoop]
            refine ReadsAt.bind (readsAt_hasMore_succ cfg ign c nr bs) ?_
            simp only [Bool.not_true, Bool.false_eq_true, if_false]
            refine ReadsAt.bind (readsAt_readLen hlen) ?_
            refine ReadsAt.bind (readsAt_readSlice htake) ?_
            simp only [Hint.key]
            refine ReadsAt.bind (ReadsAt.pure _ _) ?_
            simp only [Hint.valFor]
            exact ReadsAt.bind
              ((ih.dec item r0 v r0' o depth hd ho (by omega) (by omega)).2 g (by omega)) hos'
          · cases hobs

end Avro.Impl

namespace Avro.Impl
open Avro Avro.Spec

variable (cfg : DeConfig) (S : Schema)

/-- from the explicit-fuel form back to the loop at the start of a block -/
theorem seqLoop_of_F {item : Node} {depth nr : Nat} {r1 rest : Bytes} {K : Nat}
    (h : ∀ fuel f acc, K ≤ fuel → r1.length + 1 ≤ f → ∃ os',
      ReadsAt (seqLoopF cfg S fuel f item depth nr acc) r1 rest os') :
    ∀ fuel acc, K + 1 ≤ fuel → ∃ os',
      ReadsAt (deSeqLoop deExtModel cfg S fuel item depth true .ignored none ⟨0, nr⟩ acc) r1 rest os' := by
  intro fuel acc hf
  obtain ⟨g, rfl⟩ : ∃ g, fuel = g + 1 := ⟨fuel - 1, by omega⟩
  obtain ⟨os', hos'⟩ := h g (r1.length + 2) acc (by omega) (by omega)
  refine ⟨os', fun s hs => ?_⟩
  rw [seqLoop_eq_F]
  exact hos' s hs

theorem mapLoop_of_F {item : Node} {depth nr : Nat} {r1 rest : Bytes} {K : Nat}
    (h : ∀ fuel f acc, K ≤ fuel → r1.length + 1 ≤ f → ∃ os',
      ReadsAt (mapLoopF cfg S fuel f item depth nr acc) r1 rest os') :
    ∀ fuel acc, K + 1 ≤ fuel → ∃ os',
      ReadsAt (deMapLoop deExtModel cfg S fuel item depth true .ignored ⟨0, nr⟩ acc) r1 rest os' := by
  intro fuel acc hf
  obtain ⟨g, rfl⟩ : ∃ g, fuel = g + 1 := ⟨fuel - 1, by omega⟩
  obtain ⟨os', hos'⟩ := h g (r1.length + 2) acc (by omega) (by omega)
  refine ⟨os', fun s hs => ?_⟩
  rw [mapLoop_eq_F]
  exact hos' s hs

theorem skipAll_succ_blocks (fS : Nat) (ih : SkipAll cfg S fS) (item : Node)
    (bs : Bytes) (vs : List Value) (rest : Bytes) (os : List Out) (depth nr : Nat)
    (h : decodeBlocksX Limits.impl S (fS + 1) item bs = some (vs, rest))
    (hobs : observeList S item vs = some os) (hdepth : depthItems vs ≤ depth)
    (hmax : maxLenItems vs ≤ cfg.maxSeqSize) (hnr : nr + vs.length ≤ cfg.maxSeqSize) :
    ∀ fuel acc, 3 * sizeItems vs + 1 ≤ fuel → ∃ os',
      ReadsAt (deSeqLoop deExtModel cfg S fuel item depth false .ignored none ⟨0, nr⟩ acc) bs rest os' := by
  intro fuel acc hf
  obtain ⟨g, rfl⟩ : ∃ g, fuel = g + 1 := ⟨fuel - 1, by omega⟩
  simp only [decodeBlocksX] at h
  split at h
  · cases h
  · rename_i sz r0 hh
    simp only [Option.some.injEq, Prod.mk.injEq] at h
    obtain ⟨rfl, rfl⟩ := h
    refine ⟨acc.reverse, ?_⟩
    rw [deSeqLoop]
    simp only [reduceCtorEq, if_false]
    refine ReadsAt.bind (readsAt_hasMore_end cfg nr (decodeBlockHeaderX_L hh)) ?_
    simp only [Bool.not_false, if_true]
    exact ReadsAt.pure _ _
  · rename_i c sz r0 hc hh
    split at h
    · cases h
    · rename_i vs1 r1 hi
      split at h
      · split at h
        · cases h
        · rename_i more r2 hb
          simp only [Option.some.injEq, Prod.mk.injEq] at h
          obtain ⟨rfl, rfl⟩ := h
          obtain ⟨o1, o2, ho1, ho2, rfl⟩ := observeList_append S item vs1 more os hobs
          have hlen := decodeItemsX_length _ _ _ _ _ _ _ _ hi
          rw [depthItems_append] at hdepth
          rw [maxLenItems_append] at hmax
          rw [sizeItems_append] at hf
          rw [List.length_append] at hnr
          have hcpos : 0 < c := by
            rcases Nat.eq_zero_or_pos c with h0 | h0
            · exact absurd h0 (by intro h0; exact hc h0)
            · exact h0
          obtain ⟨os', key⟩ := ih.items false item c r0 vs1 r1 o1 depth (nr + c) hi ho1 (by omega)
            (by omega) (3 * sizeItems more + 1) r2
            (fun fuel acc hK => ih.blocks item r1 more r2 o2 depth (nr + c) hb ho2 (by omega)
              (by omega) (by omega) fuel acc hK)
            (g + 1) acc (by omega)
          refine ⟨os', ?_⟩
          obtain ⟨c', rfl⟩ : ∃ c', c = c' + 1 := ⟨c - 1, by omega⟩
          rw [deSeqLoop] at key ⊢
          simp only [reduceCtorEq, if_false, Option.map_none] at key ⊢
          intro s hs
          have key' := key s hs
          rw [DeM.bind_apply] at key' ⊢
          rw [readsAt_hasMore_count cfg nr (decodeBlockHeaderX_L hh) (by omega) (by omega) s hs]
          rw [readsAt_hasMore_succ cfg false c' (nr + (c' + 1)) r0 s hs] at key'
          simp only [Nat.add_sub_cancel] at key' ⊢
          exact key'
      · cases h

theorem skipAll_succ_blocksT (fS : Nat) (ih : SkipAll cfg S fS) (item : Node)
    (bs : Bytes) (vs : List Value) (rest : Bytes) (os : List Out) (depth nr : Nat)
    (h : decodeBlocksX Limits.impl S (fS + 1) item bs = some (vs, rest))
    (hobs : observeList S item vs = some os) (hdepth : depthItems vs ≤ depth)
    (hmax : maxLenItems vs ≤ cfg.maxSeqSize) (hnr : nr + vs.length ≤ cfg.maxSeqSize) :
    ∀ fuel f acc, 3 * sizeItems vs ≤ fuel → bs.length + 1 ≤ f → ∃ os',
      ReadsAt (seqLoopF cfg S fuel f item depth nr acc) bs rest os' := by
  intro fuel f acc hf hfl
  obtain ⟨f', rfl⟩ : ∃ f', f = f' + 1 := ⟨f - 1, by omega⟩
  simp only [decodeBlocksX] at h
  split at h
  · cases h
  · rename_i sz r0 hh
    simp only [Option.some.injEq, Prod.mk.injEq] at h
    obtain ⟨rfl, rfl⟩ := h
    obtain ⟨cnt, r, hd, hcase⟩ := decodeBlockHeaderX_inv hh
    have hcnt : cnt = 0 ∧ r0 = r := by
      rcases hcase with ⟨h1, h2, _, h4⟩ | ⟨h1, h2, _⟩
      · exact ⟨by omega, h4⟩
      · omega
    obtain ⟨rfl, rfl⟩ := hcnt
    refine ⟨acc.reverse, ?_⟩
    unfold seqLoopF
    refine ReadsAt.bind (readsAt_hasMoreF_end cfg nr f' hd) ?_
    simp only [Bool.not_false, if_true]
    exact ReadsAt.pure _ _
  · rename_i c sz r0 hc hh
    split at h
    · cases h
    · rename_i vs1 r1 hi
      split at h
      · rename_i hsz
        split at h
        · cases h
        · rename_i more r2 hb
          simp only [Option.some.injEq, Prod.mk.injEq] at h
          obtain ⟨rfl, rfl⟩ := h
          obtain ⟨o1, o2, ho1, ho2, rfl⟩ := observeList_append S item vs1 more os hobs
          have hlen := decodeItemsX_length _ _ _ _ _ _ _ _ hi
          rw [depthItems_append] at hdepth
          rw [maxLenItems_append] at hmax
          rw [sizeItems_append] at hf
          rw [List.length_append] at hnr
          have hcpos : 0 < c := by
            rcases Nat.eq_zero_or_pos c with h0 | h0
            · exact absurd h0 (by intro h0; exact hc h0)
            · exact h0
          obtain ⟨cnt, r, hd, hcase⟩ := decodeBlockHeaderX_inv hh
          have hl1 := decodeLongL_length_lt hd
          rcases hcase with ⟨hc0, hceq, rfl, rfl⟩ | ⟨hc0, hceq, size, hd2, hs0, rfl⟩
          · -- a block without byte size: its items are skipped one by one
            obtain ⟨os', key⟩ := ih.items true item c r0 vs1 r1 o1 depth (nr + c) hi ho1 (by omega)
              (by omega) (3 * sizeItems more + 1) r2
              (seqLoop_of_F cfg S (fun fuel f acc hK hfl =>
                ih.blocksT item r1 more r2 o2 depth (nr + c) hb ho2 (by omega)
                  (by omega) (by omega) fuel f acc hK hfl))
              (fuel + 1) acc (by omega)
            refine ⟨os', ?_⟩
            obtain ⟨c', rfl⟩ : ∃ c', c = c' + 1 := ⟨c - 1, by omega⟩
            rw [deSeqLoop] at key
            simp only [reduceCtorEq, if_false, Option.map_none] at key
            unfold seqLoopF
            intro s hs
            have key' := key s hs
            rw [DeM.bind_apply] at key' ⊢
            rw [readsAt_hasMoreF_count cfg nr f' hd (by omega) (by omega) s hs]
            rw [readsAt_hasMore_succ cfg true c' (nr + (c' + 1)) r0 s hs] at key'
            rw [← hceq]
            simp only [Nat.add_sub_cancel] at key' ⊢
            exact key'
          · -- a block with its byte size: jumped over
            have hl2 := decodeLongL_length_lt hd2
            obtain ⟨mid, hmid⟩ := decodeItemsX_suffix S item fS c r0 vs1 r1 hi
            simp only [sizeOk, beq_iff_eq] at hsz
            have hml : mid.length = size.toNat := by
              have := congrArg List.length hmid
              simp only [List.length_append] at this
              omega
            obtain ⟨os', hos'⟩ := ih.blocksT item r1 more r2 o2 depth nr hb ho2 (by omega)
              (by omega) (by omega) fuel f' acc (by omega)
              (by
                have := congrArg List.length hmid
                simp only [List.length_append] at this
                omega)
            refine ⟨os', fun s hs => ?_⟩
            have e := hasMoreF_sized cfg nr f' hd hc0 hd2 hs0 hmid hml s hs
            have := hos' s hs
            unfold seqLoopF at this ⊢
            rw [DeM.bind_apply] at this ⊢
            rw [e]
            exact this
      · cases h

end Avro.Impl

namespace Avro.Impl
open Avro Avro.Spec

variable (cfg : DeConfig) (S : Schema)

theorem skipAll_succ_mblocks (fS : Nat) (ih : SkipAll cfg S fS) (item : Node)
    (bs : Bytes) (es : List (String × Value)) (rest : Bytes) (os : List (Out × Out))
    (depth nr : Nat)
    (h : decodeMapBlocksX Limits.impl S (fS + 1) item bs = some (es, rest))
    (hobs : observeEntries S item es = some os) (hdepth : depthEntries es ≤ depth)
    (hmax : maxLenEntries es ≤ cfg.maxSeqSize) (hnr : nr + es.length ≤ cfg.maxSeqSize) :
    ∀ fuel acc, 3 * sizeEntries es + 1 ≤ fuel → ∃ os',
      ReadsAt (deMapLoop deExtModel cfg S fuel item depth false .ignored ⟨0, nr⟩ acc) bs rest os' := by
  intro fuel acc hf
  obtain ⟨g, rfl⟩ : ∃ g, fuel = g + 1 := ⟨fuel - 1, by omega⟩
  simp only [decodeMapBlocksX] at h
  split at h
  · cases h
  · rename_i sz r0 hh
    simp only [Option.some.injEq, Prod.mk.injEq] at h
    obtain ⟨rfl, rfl⟩ := h
    refine ⟨acc.reverse, ?_⟩
    rw [deMapLoop]
    refine ReadsAt.bind (readsAt_hasMore_end cfg nr (decodeBlockHeaderX_L hh)) ?_
    simp only [Bool.not_false, if_true]
    exact ReadsAt.pure _ _
  · rename_i c sz r0 hc hh
    split at h
    · cases h
    · rename_i es1 r1 hi
      split at h
      · split at h
        · cases h
        · rename_i more r2 hb
          simp only [Option.some.injEq, Prod.mk.injEq] at h
          obtain ⟨rfl, rfl⟩ := h
          obtain ⟨o1, o2, ho1, ho2, rfl⟩ := observeEntries_append S item es1 more os hobs
          have hlen := decodeMapItemsX_length _ _ _ _ _ _ _ _ hi
          rw [depthEntries_append] at hdepth
          rw [maxLenEntries_append] at hmax
          rw [sizeEntries_append] at hf
          rw [List.length_append] at hnr
          have hcpos : 0 < c := by
            rcases Nat.eq_zero_or_pos c with h0 | h0
            · exact absurd h0 (by intro h0; exact hc h0)
            · exact h0
          obtain ⟨os', key⟩ := ih.mitems false item c r0 es1 r1 o1 depth (nr + c) hi ho1 (by omega)
            (by omega) (3 * sizeEntries more + 1) r2
            (fun fuel acc hK => ih.mblocks item r1 more r2 o2 depth (nr + c) hb ho2 (by omega)
              (by omega) (by omega) fuel acc hK)
            (g + 1) acc (by omega)
          refine ⟨os', ?_⟩
          obtain ⟨c', rfl⟩ : ∃ c', c = c' + 1 := ⟨c - 1, by omega⟩
          rw [deMapLoop] at key ⊢
          intro s hs
          have key' := key s hs
          rw [DeM.bind_apply] at key' ⊢
          rw [readsAt_hasMore_count cfg nr (decodeBlockHeaderX_L hh) (by omega) (by omega) s hs]
          rw [readsAt_hasMore_succ cfg false c' (nr + (c' + 1)) r0 s hs] at key'
          simp only [Nat.add_sub_cancel] at key' ⊢
          exact key'
      · cases h

theorem skipAll_succ_mblocksT (fS : Nat) (ih : SkipAll cfg S fS) (item : Node)
    (bs : Bytes) (es : List (String × Value)) (rest : Bytes) (os : List (Out × Out))
    (depth nr : Nat)
    (h : decodeMapBlocksX Limits.impl S (fS + 1) item bs = some (es, rest))
    (hobs : observeEntries S item es = some os) (hdepth : depthEntries es ≤ depth)
    (hmax : maxLenEntries es ≤ cfg.maxSeqSize) (hnr : nr + es.length ≤ cfg.maxSeqSize) :
    ∀ fuel f acc, 3 * sizeEntries es ≤ fuel → bs.length + 1 ≤ f → ∃ os',
      ReadsAt (mapLoopF cfg S fuel f item depth nr acc) bs rest os' := by
  intro fuel f acc hf hfl
  obtain ⟨f', rfl⟩ : ∃ f', f = f' + 1 := ⟨f - 1, by omega⟩
  simp only [decodeMapBlocksX] at h
  split at h
  · cases h
  · rename_i sz r0 hh
    simp only [Option.some.injEq, Prod.mk.injEq] at h
    obtain ⟨rfl, rfl⟩ := h
    obtain ⟨cnt, r, hd, hcase⟩ := decodeBlockHeaderX_inv hh
    have hcnt : cnt = 0 ∧ r0 = r := by
      rcases hcase with ⟨h1, h2, _, h4⟩ | ⟨h1, h2, _⟩
      · exact ⟨by omega, h4⟩
      · omega
    obtain ⟨rfl, rfl⟩ := hcnt
    refine ⟨acc.reverse, ?_⟩
    unfold mapLoopF
    refine ReadsAt.bind (readsAt_hasMoreF_end cfg nr f' hd) ?_
    simp only [Bool.not_false, if_true]
    exact ReadsAt.pure _ _
  · rename_i c sz r0 hc hh
    split at h
    · cases h
    · rename_i es1 r1 hi
      split at h
      · rename_i hsz
        split at h
        · cases h
        · rename_i more r2 hb
          simp only [Option.some.injEq, Prod.mk.injEq] at h
          obtain ⟨rfl, rfl⟩ := h
          obtain ⟨o1, o2, ho1, ho2, rfl⟩ := observeEntries_append S item es1 more os hobs
          have hlen := decodeMapItemsX_length _ _ _ _ _ _ _ _ hi
          rw [depthEntries_append] at hdepth
          rw [maxLenEntries_append] at hmax
          rw [sizeEntries_append] at hf
          rw [List.length_append] at hnr
          have hcpos : 0 < c := by
            rcases Nat.eq_zero_or_pos c with h0 | h0
            · exact absurd h0 (by intro h0; exact hc h0)
            · exact h0
          obtain ⟨cnt, r, hd, hcase⟩ := decodeBlockHeaderX_inv hh
          have hl1 := decodeLongL_length_lt hd
          rcases hcase with ⟨hc0, hceq, rfl, rfl⟩ | ⟨hc0, hceq, size, hd2, hs0, rfl⟩
          · obtain ⟨os', key⟩ := ih.mitems true item c r0 es1 r1 o1 depth (nr + c) hi ho1 (by omega)
              (by omega) (3 * sizeEntries more + 1) r2
              (mapLoop_of_F cfg S (fun fuel f acc hK hfl =>
                ih.mblocksT item r1 more r2 o2 depth (nr + c) hb ho2 (by omega)
                  (by omega) (by omega) fuel f acc hK hfl))
              (fuel + 1) acc (by omega)
            refine ⟨os', ?_⟩
            obtain ⟨c', rfl⟩ : ∃ c', c = c' + 1 := ⟨c - 1, by omega⟩
            rw [deMapLoop] at key
            unfold mapLoopF
            intro s hs
            have key' := key s hs
            rw [DeM.bind_apply] at key' ⊢
            rw [readsAt_hasMoreF_count cfg nr f' hd (by omega) (by omega) s hs]
            rw [readsAt_hasMore_succ cfg true c' (nr + (c' + 1)) r0 s hs] at key'
            rw [← hceq]
            simp only [Nat.add_sub_cancel] at key' ⊢
            exact key'
          · have hl2 := decodeLongL_length_lt hd2
            obtain ⟨mid, hmid⟩ := decodeMapItemsX_suffix S item fS c r0 es1 r1 hi
            simp only [sizeOk, beq_iff_eq] at hsz
            have hml : mid.length = size.toNat := by
              have := congrArg List.length hmid
              simp only [List.length_append] at this
              omega
            obtain ⟨os', hos'⟩ := ih.mblocksT item r1 more r2 o2 depth nr hb ho2 (by omega)
              (by omega) (by omega) fuel f' acc (by omega)
              (by
                have := congrArg List.length hmid
                simp only [List.length_append] at this
                omega)
            refine ⟨os', fun s hs => ?_⟩
            have e := hasMoreF_sized cfg nr f' hd hc0 hd2 hs0 hmid hml s hs
            have := hos' s hs
            unfold mapLoopF at this ⊢
            rw [DeM.bind_apply] at this ⊢
            rw [e]
            exact this
      · cases h

theorem skipAll_succ_fields (fS : Nat) (ih : SkipAll cfg S fS) :
    ∀ (fields : List (String × Nat)) (bs : Bytes) (vals : List Value) (rest : Bytes)
      (os : List (Out × Out)) (depth : Nat),
    decodeFieldsX Limits.impl S (fS + 1) (fields.map (·.2)) bs = some (vals, rest) →
    observeFields S fields vals = some os → depthItems vals ≤ depth →
    maxLenItems vals ≤ cfg.maxSeqSize →
    ∀ fuel acc, 3 * sizeItems vals ≤ fuel → ∃ os',
      ReadsAt (deRecordFields deExtModel cfg S fuel fields depth .ignored acc) bs rest os' := by
  intro fields bs vals rest os depth h hobs hdepth hmax fuel acc hf
  cases fields with
  | nil =>
    simp only [List.map_nil, decodeFieldsX, Option.some.injEq, Prod.mk.injEq] at h
    obtain ⟨rfl, rfl⟩ := h
    refine ⟨acc.reverse, ?_⟩
    rw [deRecordFields]
    exact ReadsAt.pure _ _
  | cons fk fs =>
    obtain ⟨name, k⟩ := fk
    simp only [List.map_cons, decodeFieldsX, nodeOf] at h
    split at h
    · cases h
    · rename_i fnode hnode
      split at h
      · cases h
      · rename_i v r0 hd
        split at h
        · cases h
        · rename_i vs r1 hi
          simp only [Option.some.injEq, Prod.mk.injEq] at h
          obtain ⟨rfl, rfl⟩ := h
          simp only [observeFields, hnode] at hobs
          split at hobs
          · rename_i o os0 ho hos
            simp only [depthItems] at hdepth
            simp only [maxLenItems] at hmax
            simp only [sizeItems] at hf
            obtain ⟨g, rfl⟩ : ∃ g, fuel = g + 1 := ⟨fuel - 1, by omega⟩
            obtain ⟨os', hos'⟩ := ih.fields fs r0 vs r1 os0 depth hi hos (by omega) (by omega) g
              ((.unit, .unit) :: acc) (by omega)
            refine ⟨os', ?_⟩
            rw [deRecordFields]
            simp only [hnode, Hint.valFor, Hint.key, offerName]
            exact ReadsAt.bind
              ((ih.dec fnode bs v r0 o depth hd ho (by omega) (by omega)).2 g (by omega)) hos'
          · cases hobs

end Avro.Impl

namespace Avro.Impl
open Avro Avro.Spec

variable (cfg : DeConfig) (S : Schema)

/-- `deserialize_any` with an ignoring visitor (what `deserialize_ignored_any` falls back to) -/
theorem skipAll_succ_any (fS : Nat) (ih : SkipAll cfg S fS) (n : Node) (bs : Bytes) (v : Value)
    (rest : Bytes) (o : Out) (depth : Nat)
    (h : decodeX Limits.impl S (fS + 1) n bs = some (v, rest))
    (hobs : observe S n v = some o) (hdepth : depthOf v ≤ depth)
    (hmax : maxLen v ≤ cfg.maxSeqSize) :
    ∀ fuel, 3 * size v ≤ fuel + 2 →
      ∃ o', ReadsAt (deAny deExtModel cfg S fuel n depth .ignored) bs rest o' := by
  intro fuel hfuel
  have hsz := size_pos v
  obtain ⟨f, rfl⟩ : ∃ f, fuel = f + 1 := ⟨fuel - 1, by omega⟩
  cases n with
  | null =>
    rw [deAny]
    simp only [decodeX, Option.some.injEq, Prod.mk.injEq] at h
    obtain ⟨rfl, rfl⟩ := h
    exact ⟨_, ReadsAt.pure _ _⟩
  | boolean =>
    rw [deAny]
    simp only [decodeX] at h
    split at h
    · rename_i b r
      split at h
      · rename_i hb
        simp only [Option.some.injEq, Prod.mk.injEq] at h
        obtain ⟨rfl, rfl⟩ := h
        subst hb
        exact ⟨_, readsAt_readBool_false _⟩
      · split at h
        · rename_i hb
          simp only [Option.some.injEq, Prod.mk.injEq] at h
          obtain ⟨rfl, rfl⟩ := h
          subst hb
          exact ⟨_, readsAt_readBool_true _⟩
        · cases h
    · cases h
  | int | date | timeMillis =>
    rw [deAny]
    simp only [decodeX] at h
    split at h
    · rename_i i r hd
      split at h
      · rename_i h32
        simp only [Option.some.injEq, Prod.mk.injEq] at h
        obtain ⟨rfl, rfl⟩ := h
        exact ⟨_, ReadsAt.map_pure _ (readsAt_varint_i32 hd h32)⟩
      · cases h
    · cases h
  | long | timeMicros | timestampMillis | timestampMicros =>
    rw [deAny]
    simp only [decodeX] at h
    split at h
    · rename_i i r hd
      simp only [Option.some.injEq, Prod.mk.injEq] at h
      obtain ⟨rfl, rfl⟩ := h
      exact ⟨_, ReadsAt.map_pure _ (readsAt_varint_i64 hd)⟩
    · cases h
  | float =>
    rw [deAny]
    simp only [decodeX, Option.map_eq_some_iff] at h
    obtain ⟨⟨b, r⟩, hb, h⟩ := h
    simp only [Prod.mk.injEq] at h
    obtain ⟨rfl, rfl⟩ := h
    exact ⟨_, ReadsAt.map_pure _ (readsAt_readExact hb)⟩
  | double =>
    rw [deAny]
    simp only [decodeX, Option.map_eq_some_iff] at h
    obtain ⟨⟨b, r⟩, hb, h⟩ := h
    simp only [Prod.mk.injEq] at h
    obtain ⟨rfl, rfl⟩ := h
    exact ⟨_, ReadsAt.map_pure _ (readsAt_readExact hb)⟩
  | bytes =>
    rw [deAny]
    simp only [decodeX, Option.map_eq_some_iff] at h
    obtain ⟨⟨b, r⟩, hb, h⟩ := h
    simp only [Prod.mk.injEq] at h
    obtain ⟨rfl, rfl⟩ := h
    exact ⟨_, readsAt_readBytes hb⟩
  | string | uuid =>
    rw [deAny]
    simp only [decodeX, Option.map_eq_some_iff] at h
    obtain ⟨⟨b, r⟩, hb, h⟩ := h
    simp only [Prod.mk.injEq] at h
    obtain ⟨rfl, rfl⟩ := h
    exact ⟨_, readsAt_readString hb⟩
  | fixed nm size =>
    rw [deAny]
    simp only [decodeX, Option.map_eq_some_iff] at h
    obtain ⟨⟨b, r⟩, hb, h⟩ := h
    simp only [Prod.mk.injEq] at h
    obtain ⟨rfl, rfl⟩ := h
    exact ⟨_, ReadsAt.bind (readsAt_readSlice hb) (ReadsAt.pure _ _)⟩
  | duration =>
    rw [deAny]
    simp only [decodeX, Option.map_eq_some_iff] at h
    obtain ⟨⟨b, r⟩, hb, h⟩ := h
    simp only [Prod.mk.injEq] at h
    obtain ⟨rfl, rfl⟩ := h
    exact ⟨_, ReadsAt.map_pure (fun b => durationOut b .ignored) (readsAt_readExact hb)⟩
  | «enum» nm syms =>
    rw [deAny]
    simp only [decodeX] at h
    split at h
    · rename_i idx r hd
      split at h
      · rename_i hi
        simp only [Option.some.injEq, Prod.mk.injEq] at h
        obtain ⟨rfl, rfl⟩ := h
        refine ⟨.str syms[idx] false, ReadsAt.bind (readsAt_readLen hd) ?_⟩
        simp only [List.getElem?_eq_getElem hi]
        exact ReadsAt.pure _ _
      · cases h
    · cases h
  | decimal sc pr repr =>
    rw [deAny]
    cases repr with
    | bytes =>
      simp only [decodeX] at h
      split at h
      · rename_i m r hb
        split at h
        · rename_i hfit
          simp only [Option.some.injEq, Prod.mk.injEq] at h
          obtain ⟨rfl, rfl⟩ := h
          simp only [observe, Option.map_eq_some_iff] at hobs
          obtain ⟨str, hstr, rfl⟩ := hobs
          simp only [Limits.impl, fitsOpt, decide_eq_true_eq] at hfit
          exact ⟨_, readsAt_readDecimal_bytes deExtModel sc _ str hb hfit (i128OfBE_eq m) hstr⟩
        · cases h
      · cases h
    | fixed nm size =>
      simp only [decodeX] at h
      split at h
      · rename_i hfit
        simp only [Option.map_eq_some_iff] at h
        obtain ⟨⟨m, r⟩, hb, h⟩ := h
        simp only [Prod.mk.injEq] at h
        obtain ⟨rfl, rfl⟩ := h
        simp only [observe, Option.map_eq_some_iff] at hobs
        obtain ⟨str, hstr, rfl⟩ := hobs
        simp only [Limits.impl, fitsOpt, decide_eq_true_eq] at hfit
        exact ⟨_, readsAt_readDecimal_fixed deExtModel sc nm size _ str hb hfit (i128OfBE_eq m) hstr⟩
      · cases h
  | bigDecimal =>
    rw [deAny]
    simp only [decodeX] at h
    split at h
    · cases h
    · rename_i inner r h0
      split at h
      · cases h
      · rename_i m inner' h1
        split at h
        · rename_i hfit
          split at h
          · rename_i scale h2
            simp only [Option.some.injEq, Prod.mk.injEq] at h
            obtain ⟨rfl, rfl⟩ := h
            simp only [observe, Option.map_eq_some_iff] at hobs
            obtain ⟨str, hstr, rfl⟩ := hobs
            simp only [Limits.impl, fitsOpt, decide_eq_true_eq] at hfit
            exact ⟨_, readsAt_readDecimal_big deExtModel _ str h0 h1 h2 hfit
              (decToStringModel_some hstr).2 (i128OfBE_eq m) hstr⟩
          · cases h
        · cases h
  | array k =>
    rw [deAny]
    simp only [decodeX, nodeOf] at h
    split at h
    · cases h
    · rename_i item hitem
      simp only [Option.map_eq_some_iff] at h
      obtain ⟨⟨vs, r⟩, hb, h⟩ := h
      simp only [Prod.mk.injEq] at h
      obtain ⟨rfl, rfl⟩ := h
      simp only [observe, hitem, Option.map_eq_some_iff] at hobs
      obtain ⟨os, hos, rfl⟩ := hobs
      simp only [depthOf] at hdepth
      simp only [maxLen] at hmax
      simp only [size] at hfuel
      obtain ⟨d, rfl⟩ : ∃ d, depth = d + 1 := ⟨depth - 1, by omega⟩
      simp only [hitem, Hint.elem, Hint.maxItems]
      obtain ⟨os', this⟩ := ih.blocks item bs vs r os d 0 hb hos (by omega) (by omega) (by omega)
        f [] (by omega)
      exact ⟨_, ReadsAt.bind (ReadsAt.pure d _) (ReadsAt.bind this (ReadsAt.pure _ _))⟩
  | map k =>
    rw [deAny]
    simp only [decodeX, nodeOf] at h
    split at h
    · cases h
    · rename_i item hitem
      simp only [Option.map_eq_some_iff] at h
      obtain ⟨⟨es, r⟩, hb, h⟩ := h
      simp only [Prod.mk.injEq] at h
      obtain ⟨rfl, rfl⟩ := h
      simp only [observe, hitem, Option.map_eq_some_iff] at hobs
      obtain ⟨os, hos, rfl⟩ := hobs
      simp only [depthOf] at hdepth
      simp only [maxLen] at hmax
      simp only [size] at hfuel
      obtain ⟨d, rfl⟩ : ∃ d, depth = d + 1 := ⟨depth - 1, by omega⟩
      simp only [hitem]
      obtain ⟨os', this⟩ := ih.mblocks item bs es r os d 0 hb hos (by omega) (by omega) (by omega)
        f [] (by omega)
      exact ⟨_, ReadsAt.bind (ReadsAt.pure d _) (ReadsAt.bind this (ReadsAt.pure _ _))⟩
  | union vs =>
    rw [deAny]
    simp only [decodeX, nodeOf] at h
    split at h
    · cases h
    · rename_i idx r0 hd
      split at h
      · cases h
      · rename_i k hk
        split at h
        · cases h
        · rename_i branch hbranch
          simp only [Option.map_eq_some_iff] at h
          obtain ⟨⟨v', r⟩, hb, h⟩ := h
          simp only [Prod.mk.injEq] at h
          obtain ⟨rfl, rfl⟩ := h
          simp only [observe, hk, hbranch] at hobs
          simp only [depthOf] at hdepth
          simp only [maxLen] at hmax
          simp only [size] at hfuel
          obtain ⟨d, rfl⟩ : ∃ d, depth = d + 1 := ⟨depth - 1, by omega⟩
          obtain ⟨o', this⟩ := (ih.dec branch r0 v' r o d hb hobs (by omega) hmax).1 f (by omega)
          refine ⟨o', ReadsAt.bind (readsAt_readLen hd) ?_⟩
          simp only [hk, hbranch]
          exact ReadsAt.bind (ReadsAt.pure d _) this
  | record nm fields =>
    rw [deAny]
    simp only [decodeX, Option.map_eq_some_iff] at h
    obtain ⟨⟨vals, r⟩, hb, h⟩ := h
    simp only [Prod.mk.injEq] at h
    obtain ⟨rfl, rfl⟩ := h
    simp only [observe, Option.map_eq_some_iff] at hobs
    obtain ⟨os, hos, rfl⟩ := hobs
    simp only [depthOf] at hdepth
    simp only [maxLen] at hmax
    simp only [size] at hfuel
    obtain ⟨d, rfl⟩ : ∃ d, depth = d + 1 := ⟨depth - 1, by omega⟩
    obtain ⟨os', this⟩ := ih.fields fields bs vals r os d hb hos (by omega) (by omega) f []
      (by omega)
    exact ⟨_, ReadsAt.bind (ReadsAt.pure d _) (ReadsAt.bind this (ReadsAt.pure _ _))⟩

end Avro.Impl

namespace Avro.Impl
open Avro Avro.Spec

variable (cfg : DeConfig) (S : Schema)

/-- nodes that `deserialize_ignored_any` hands to `deserialize_any` -/
theorem ignoredAt_of_any {n : Node} {bs rest : Bytes} {depth : Nat} (f : Nat)
    (hgen : deIgnored deExtModel cfg S (f + 1) n depth =
      (deAny deExtModel cfg S f n depth .ignored >>= fun _ => pure .unit))
    (hany : ∃ o', ReadsAt (deAny deExtModel cfg S f n depth .ignored) bs rest o') :
    ReadsAt (de deExtModel cfg S (f + 2) n depth false .ignored) bs rest .unit := by
  obtain ⟨o', hr⟩ := hany
  rw [de, hgen]
  exact ReadsAt.bind hr (ReadsAt.pure _ _)

/-- `deserialize_ignored_any` -/
theorem skipAll_succ_ign (fS : Nat) (ih : SkipAll cfg S fS) (n : Node) (bs : Bytes) (v : Value)
    (rest : Bytes) (o : Out) (depth : Nat)
    (h : decodeX Limits.impl S (fS + 1) n bs = some (v, rest))
    (hobs : observe S n v = some o) (hdepth : depthOf v ≤ depth)
    (hmax : maxLen v ≤ cfg.maxSeqSize) :
    ∀ fuel, 3 * size v ≤ fuel →
      ReadsAt (de deExtModel cfg S fuel n depth false .ignored) bs rest .unit := by
  intro fuel hfuel
  have hsz := size_pos v
  obtain ⟨f, rfl⟩ : ∃ f, fuel = f + 2 := ⟨fuel - 2, by omega⟩
  have hany := skipAll_succ_any cfg S fS ih n bs v rest o depth h hobs hdepth hmax f (by omega)
  cases n with
  | string =>
    rw [de, deIgnored]
    simp only [decodeX, Option.map_eq_some_iff] at h
    obtain ⟨⟨str, r⟩, hb, h⟩ := h
    simp only [Prod.mk.injEq] at h
    obtain ⟨rfl, rfl⟩ := h
    obtain ⟨n, r0, b, hlen, htake, _⟩ := decodeStringL_inv hb
    refine ReadsAt.bind (readsAt_readLen hlen) ?_
    exact ReadsAt.bind (readsAt_readSlice htake) (ReadsAt.pure _ _)
  | int =>
    rw [de, deIgnored]
    simp only [decodeX] at h
    split at h
    · rename_i i r hd
      split at h
      · rename_i h32
        simp only [Option.some.injEq, Prod.mk.injEq] at h
        obtain ⟨rfl, rfl⟩ := h
        obtain ⟨x, hx⟩ := readsAt_varint_u32 hd h32
        exact ReadsAt.bind hx (ReadsAt.pure _ _)
      · cases h
    · cases h
  | long =>
    rw [de, deIgnored]
    simp only [decodeX] at h
    split at h
    · rename_i i r hd
      simp only [Option.some.injEq, Prod.mk.injEq] at h
      obtain ⟨rfl, rfl⟩ := h
      obtain ⟨x, hx⟩ := readsAt_varint_u64 hd
      exact ReadsAt.bind hx (ReadsAt.pure _ _)
    · cases h
  | «enum» nm syms =>
    rw [de, deIgnored]
    simp only [decodeX] at h
    split at h
    · rename_i idx r hd
      split at h
      · simp only [Option.some.injEq, Prod.mk.injEq] at h
        obtain ⟨rfl, rfl⟩ := h
        obtain ⟨i, hi, _, _⟩ := decodeLenL_inv hd
        obtain ⟨x, hx⟩ := readsAt_varint_u64 hi
        exact ReadsAt.bind hx (ReadsAt.pure _ _)
      · cases h
    · cases h
  | duration =>
    rw [de, deIgnored]
    simp only [decodeX, Option.map_eq_some_iff] at h
    obtain ⟨⟨b, r⟩, hb, h⟩ := h
    simp only [Prod.mk.injEq] at h
    obtain ⟨rfl, rfl⟩ := h
    exact ReadsAt.bind (readsAt_readExact hb) (ReadsAt.pure _ _)
  | array k =>
    rw [de, deIgnored]
    simp only [decodeX, nodeOf] at h
    split at h
    · cases h
    · rename_i item hitem
      simp only [Option.map_eq_some_iff] at h
      obtain ⟨⟨vs, r⟩, hb, h⟩ := h
      simp only [Prod.mk.injEq] at h
      obtain ⟨rfl, rfl⟩ := h
      simp only [observe, hitem, Option.map_eq_some_iff] at hobs
      obtain ⟨os, hos, rfl⟩ := hobs
      simp only [depthOf] at hdepth
      simp only [maxLen] at hmax
      simp only [size] at hfuel
      obtain ⟨d, rfl⟩ : ∃ d, depth = d + 1 := ⟨depth - 1, by omega⟩
      simp only [hitem]
      obtain ⟨os', this⟩ := seqLoop_of_F cfg S (fun fuel f acc hK hfl =>
        ih.blocksT item bs vs r os d 0 hb hos (by omega) (by omega) (by omega) fuel f acc hK hfl)
        f [] (by omega)
      exact ReadsAt.bind (ReadsAt.pure d _) (ReadsAt.bind this (ReadsAt.pure _ _))
  | map k =>
    rw [de, deIgnored]
    simp only [decodeX, nodeOf] at h
    split at h
    · cases h
    · rename_i item hitem
      simp only [Option.map_eq_some_iff] at h
      obtain ⟨⟨es, r⟩, hb, h⟩ := h
      simp only [Prod.mk.injEq] at h
      obtain ⟨rfl, rfl⟩ := h
      simp only [observe, hitem, Option.map_eq_some_iff] at hobs
      obtain ⟨os, hos, rfl⟩ := hobs
      simp only [depthOf] at hdepth
      simp only [maxLen] at hmax
      simp only [size] at hfuel
      obtain ⟨d, rfl⟩ : ∃ d, depth = d + 1 := ⟨depth - 1, by omega⟩
      simp only [hitem]
      obtain ⟨os', this⟩ := mapLoop_of_F cfg S (fun fuel f acc hK hfl =>
        ih.mblocksT item bs es r os d 0 hb hos (by omega) (by omega) (by omega) fuel f acc hK hfl)
        f [] (by omega)
      exact ReadsAt.bind (ReadsAt.pure d _) (ReadsAt.bind this (ReadsAt.pure _ _))
  | _ => exact ignoredAt_of_any cfg S f (by simp only [deIgnored]) hany

theorem skipAll_zero : SkipAll cfg S 0 := by
  refine ⟨?_, ?_, ?_, ?_, ?_, ?_, ?_, ?_⟩
  · intro n bs v rest o depth h; simp [decodeX] at h
  · intro ign item c bs vs r1 os depth nr h _ _ _
    cases c with
    | zero => exact skipAll_items_zero cfg S ign 0 item bs vs r1 depth nr h
    | succ c => simp [decodeItemsX] at h
  · intro item bs vs rest os depth nr h; simp [decodeBlocksX] at h
  · intro item bs vs rest os depth nr h; simp [decodeBlocksX] at h
  · intro ign item c bs es r1 os depth nr h _ _ _
    cases c with
    | zero =>
      intro K rest hK fuel acc hf
      simp only [decodeMapItemsX, Option.some.injEq, Prod.mk.injEq] at h
      obtain ⟨rfl, rfl⟩ := h
      exact hK fuel acc (by omega)
    | succ c => simp [decodeMapItemsX] at h
  · intro item bs es rest os depth nr h; simp [decodeMapBlocksX] at h
  · intro item bs es rest os depth nr h; simp [decodeMapBlocksX] at h
  · intro fields bs vals rest os depth h _ _ _ fuel acc _
    cases fields with
    | nil =>
      simp only [List.map_nil, decodeFieldsX, Option.some.injEq, Prod.mk.injEq] at h
      obtain ⟨rfl, rfl⟩ := h
      refine ⟨acc.reverse, ?_⟩
      rw [deRecordFields]
      exact ReadsAt.pure _ _
    | cons fk fs => simp [decodeFieldsX] at h

theorem skipAll : ∀ fS, SkipAll cfg S fS := by
  intro fS
  induction fS with
  | zero => exact skipAll_zero cfg S
  | succ fS ih =>
    exact ⟨fun n bs v rest o depth h hobs hd hm =>
        ⟨skipAll_succ_any cfg S fS ih n bs v rest o depth h hobs hd hm,
         skipAll_succ_ign cfg S fS ih n bs v rest o depth h hobs hd hm⟩,
      skipAll_succ_items cfg S fS ih, skipAll_succ_blocks cfg S fS ih,
      skipAll_succ_blocksT cfg S fS ih, skipAll_succ_mitems cfg S fS ih,
      skipAll_succ_mblocks cfg S fS ih, skipAll_succ_mblocksT cfg S fS ih,
      skipAll_succ_fields cfg S fS ih⟩

/-- **Skipping, all layouts**: on every input `decodeX Limits.impl` accepts (a run of the
    specification decoder within the implementation's limits in which every announced block byte
    size is exact) the ignoring read succeeds and leaves exactly the remainder of that run. -/
theorem skip_layouts (v : Value) (n : Node) (bs rest : Bytes) (o : Out) (depth fuelX fuel : Nat)
    (h : decodeX Limits.impl S fuelX n bs = some (v, rest)) (hobs : observe S n v = some o)
    (hdepth : depthOf v ≤ depth) (hmax : maxLen v ≤ cfg.maxSeqSize) (hfuel : 3 * size v ≤ fuel) :
    ReadsAt (de deExtModel cfg S fuel n depth false .ignored) bs rest .unit :=
  ((skipAll cfg S fuelX).dec n bs v rest o depth h hobs hdepth hmax).2 fuel hfuel

end Avro.Impl

namespace Avro.Impl
open Avro Avro.Spec

variable (cfg : DeConfig) (S : Schema)

/-! ### 5. A struct target that lists only some of the fields, all layouts -/

theorem fields_struct_layouts (fs : List (String × Hint)) (hfs : ∀ p ∈ fs, p.2 = .any) :
    ∀ (fields : List (String × Nat)) (fuelX : Nat) (bs : Bytes) (vals : List Value) (rest : Bytes)
      (os : List (Out × Out)) (depth fuel : Nat) (acc : List (Out × Out)),
      decodeFieldsX Limits.impl S fuelX (fields.map (·.2)) bs = some (vals, rest) →
      observeFields S fields vals = some os → depthItems vals ≤ depth →
      maxLenItems vals ≤ cfg.maxSeqSize → 3 * sizeItems vals ≤ fuel →
      ReadsAt (deRecordFields deExtModel cfg S fuel fields depth (.struct fs) acc) bs rest
        (acc.reverse ++ os.map (maskEntry fs)) := by
  intro fields
  induction fields with
  | nil =>
    intro fuelX bs vals rest os depth fuel acc h hobs _ _ _
    simp only [List.map_nil, decodeFieldsX, Option.some.injEq, Prod.mk.injEq] at h
    obtain ⟨rfl, rfl⟩ := h
    simp only [observeFields, Option.some.injEq] at hobs
    subst hobs
    rw [deRecordFields]
    simp only [List.map_nil, List.append_nil]
    exact ReadsAt.pure _ _
  | cons fk fields ih =>
    obtain ⟨name, k⟩ := fk
    intro fuelX bs vals rest os depth fuel acc h hobs hdepth hmax hfuel
    cases fuelX with
    | zero => simp [decodeFieldsX] at h
    | succ fX =>
      simp only [List.map_cons, decodeFieldsX, nodeOf] at h
      split at h
      · cases h
      · rename_i fnode hnode
        split at h
        · cases h
        · rename_i v r0 hd
          split at h
          · cases h
          · rename_i vs r1 hi
            simp only [Option.some.injEq, Prod.mk.injEq] at h
            obtain ⟨rfl, rfl⟩ := h
            simp only [observeFields, hnode] at hobs
            split at hobs
            · rename_i o os0 ho hos
              simp only [Option.some.injEq] at hobs
              subst hobs
              simp only [depthItems] at hdepth
              simp only [maxLenItems] at hmax
              simp only [sizeItems] at hfuel
              obtain ⟨g, rfl⟩ : ∃ g, fuel = g + 1 := ⟨fuel - 1, by omega⟩
              rcases lookupHint_any name fs hfs with hlk | hlk
              · have hr := skip_layouts cfg S v fnode bs r0 o depth fX g hd ho (by omega) (by omega)
                  (by omega)
                have hr' := ih fX r0 vs r1 os0 depth g ((.str name false, .unit) :: acc) hi hos
                  (by omega) (by omega) (by omega)
                rw [deRecordFields]
                simp only [hnode, Hint.valFor, Hint.key, offerName, hlk, Option.getD_none]
                refine ReadsAt.bind hr ?_
                refine hr'.congr rfl ?_
                simp [maskEntry, hlk]
              · have hr := de_accepts_layouts cfg S v fnode bs r0 o depth fX g
                  (decodeX_sub _ S fX fnode bs _ hd) ho (by omega) (by omega) (by omega)
                have hr' := ih fX r0 vs r1 os0 depth g ((.str name false, o) :: acc) hi hos
                  (by omega) (by omega) (by omega)
                rw [deRecordFields]
                simp only [hnode, Hint.valFor, Hint.key, offerName, hlk, Option.getD_some]
                refine ReadsAt.bind hr ?_
                refine hr'.congr rfl ?_
                simp [maskEntry, hlk]
            · cases hobs

end Avro.Impl
