import AvroModel.Lemmas.TypedValue
/-
C03, typed targets: WHEN a typed read succeeds (acceptance for the recursive fragment `fits`).

`fits S k h n`: the request `h` fits the node `n` of the schema graph `S` (`k`: fuel, the number of
nested requests looked at).  The proof mirrors the acceptance proof of the self-describing read
(`AccAll`, `Lemmas/DeLayouts.lean`) and of the ignoring read (`SkipAll`, `Lemmas/SkipLayouts.lean`)
with the request threaded through: induction on the fuel of `decodeX Limits.impl` (exact block byte
sizes are needed because a request may contain `ignored`, and a struct request ignores the record
fields it does not list: the ignoring read jumps over sized blocks).
-/
namespace Avro.Impl
open Avro Avro.Spec

/-- nodes read with `visit_i32` / `visit_i64` -/
def intLike : Node → Bool
  | .int | .date | .timeMillis | .long | .timeMicros | .timestampMillis | .timestampMicros => true
  | _ => false

/-- one level of `fits`; `r` decides for the children -/
def fitsStep (S : Schema) (r : Hint → Node → Bool) : Hint → Node → Bool
  | .any, _ => true
  | .ignored, _ => true
  | .i64, n => intLike n
  | .f64, .double => true
  | .str, .string => true
  | .str, .uuid => true
  | .bytes, .bytes => true
  | .bytes, .fixed _ _ => true
  | .option h, .union vs =>
    -- `[null, T]` in either order, `h` fits `T`
    (vs.length == 2 && vs.any (fun i => isNullNode (S[i]?.getD .int))) &&
      vs.all (fun i => match S[i]? with
        | some .null => true
        | some t => r h t
        | none => false)
  | .seq h, .array i =>
    match S[i]? with
    | some t => r h t
    | none => false
  | .map kh h, .map i =>
    (match kh with
      | .str => true
      | .any => true
      | _ => false) &&
    (match S[i]? with
      | some t => r h t
      | none => false)
  | .struct fs, .record _ rfields =>
    -- every requested field exists in the record …
    fs.all (fun p => rfields.any (fun q => q.1 == p.1)) &&
    -- … and every record field is read with a request that fits it (`ignored` when not listed)
    rfields.all (fun q => match S[q.2]? with
      | some t => r ((lookupHint q.1 fs).getD .ignored) t
      | none => false)
  | _, _ => false

/-- **the request `h` fits the node `n`** (`k` levels of nesting looked at) -/
def fits (S : Schema) : Nat → Hint → Node → Bool
  | 0, h, n => fitsStep S (fun _ _ => false) h n
  | k + 1, h, n => fitsStep S (fits S k) h n

theorem fits_step (S : Schema) (k : Nat) (h : Hint) (n : Node) (hf : fits S k h n = true) :
    ∃ r : Hint → Node → Bool, fitsStep S r h n = true ∧
      ∀ h' t, r h' t = true → ∃ k', fits S k' h' t = true := by
  cases k with
  | zero => exact ⟨_, hf, fun _ _ hh => by cases hh⟩
  | succ k => exact ⟨_, hf, fun _ _ hh => ⟨k, hh⟩⟩

/-- the statements proved together by induction on the fuel of `decodeX` -/
structure FitAll (cfg : DeConfig) (S : Schema) (fS : Nat) : Prop where
  dec : ∀ k hint n bs v rest o depth favor, decodeX Limits.impl S fS n bs = some (v, rest) →
    observe S n v = some o → depthOf v ≤ depth → maxLen v ≤ cfg.maxSeqSize →
    fits S k hint n = true →
    ∀ fuel, 3 * size v ≤ fuel →
      ∃ o', ReadsAt (de deExtModel cfg S fuel n depth favor hint) bs rest o'
  items : ∀ k eh item c bs vs r1 os depth nr,
    decodeItemsX Limits.impl S fS item c bs = some (vs, r1) →
    observeList S item vs = some os → depthItems vs ≤ depth → maxLenItems vs ≤ cfg.maxSeqSize →
    fits S k eh item = true →
    ∀ K rest,
      (∀ fuel acc, K ≤ fuel → ∃ os',
        ReadsAt (deSeqLoop deExtModel cfg S fuel item depth false eh none ⟨0, nr⟩ acc) r1 rest os') →
      ∀ fuel acc, 3 * sizeItems vs + K ≤ fuel → ∃ os',
        ReadsAt (deSeqLoop deExtModel cfg S fuel item depth false eh none ⟨c, nr⟩ acc) bs rest os'
  blocks : ∀ k eh item bs vs rest os depth nr,
    decodeBlocksX Limits.impl S fS item bs = some (vs, rest) →
    observeList S item vs = some os → depthItems vs ≤ depth → maxLenItems vs ≤ cfg.maxSeqSize →
    nr + vs.length ≤ cfg.maxSeqSize → fits S k eh item = true →
    ∀ fuel acc, 3 * sizeItems vs + 1 ≤ fuel → ∃ os',
      ReadsAt (deSeqLoop deExtModel cfg S fuel item depth false eh none ⟨0, nr⟩ acc) bs rest os'
  mitems : ∀ k kh vh item c bs es r1 os depth nr,
    decodeMapItemsX Limits.impl S fS item c bs = some (es, r1) →
    observeEntries S item es = some os → depthEntries es ≤ depth →
    maxLenEntries es ≤ cfg.maxSeqSize → (kh = .str ∨ kh = .any) → fits S k vh item = true →
    ∀ K rest,
      (∀ fuel acc, K ≤ fuel → ∃ os',
        ReadsAt (deMapLoop deExtModel cfg S fuel item depth false (.map kh vh) ⟨0, nr⟩ acc) r1 rest
          os') →
      ∀ fuel acc, 3 * sizeEntries es + K ≤ fuel → ∃ os',
        ReadsAt (deMapLoop deExtModel cfg S fuel item depth false (.map kh vh) ⟨c, nr⟩ acc) bs rest
          os'
  mblocks : ∀ k kh vh item bs es rest os depth nr,
    decodeMapBlocksX Limits.impl S fS item bs = some (es, rest) →
    observeEntries S item es = some os → depthEntries es ≤ depth →
    maxLenEntries es ≤ cfg.maxSeqSize → nr + es.length ≤ cfg.maxSeqSize →
    (kh = .str ∨ kh = .any) → fits S k vh item = true →
    ∀ fuel acc, 3 * sizeEntries es + 1 ≤ fuel → ∃ os',
      ReadsAt (deMapLoop deExtModel cfg S fuel item depth false (.map kh vh) ⟨0, nr⟩ acc) bs rest os'
  fields : ∀ (fs : List (String × Hint)) fields bs vals rest os depth,
    decodeFieldsX Limits.impl S fS (fields.map (·.2)) bs = some (vals, rest) →
    observeFields S fields vals = some os → depthItems vals ≤ depth →
    maxLenItems vals ≤ cfg.maxSeqSize →
    (∀ q ∈ fields, ∀ t, S[q.2]? = some t →
      ∃ k', fits S k' ((lookupHint q.1 fs).getD .ignored) t = true) →
    ∀ fuel acc, 3 * sizeItems vals ≤ fuel → ∃ os',
      ReadsAt (deRecordFields deExtModel cfg S fuel fields depth (.struct fs) acc) bs rest os'

variable (cfg : DeConfig) (S : Schema)

theorem fitAll_items_zero (eh : Hint) (fS : Nat) (item : Node) (bs vs r1 depth nr)
    (h : decodeItemsX Limits.impl S fS item 0 bs = some (vs, r1)) :
    ∀ K rest,
      (∀ fuel acc, K ≤ fuel → ∃ os',
        ReadsAt (deSeqLoop deExtModel cfg S fuel item depth false eh none ⟨0, nr⟩ acc) r1 rest os') →
      ∀ fuel acc, 3 * sizeItems vs + K ≤ fuel → ∃ os',
        ReadsAt (deSeqLoop deExtModel cfg S fuel item depth false eh none ⟨0, nr⟩ acc) bs rest os' := by
  intro K rest hK fuel acc hf
  have : vs = [] ∧ r1 = bs := by
    cases fS <;> simp only [decodeItemsX, Option.some.injEq, Prod.mk.injEq] at h <;>
      exact ⟨h.1.symm, h.2.symm⟩
  obtain ⟨rfl, rfl⟩ := this
  exact hK fuel acc (by omega)

theorem fitAll_succ_items (fS : Nat) (ih : FitAll cfg S fS) (k : Nat) (eh : Hint) (item : Node)
    (c : Nat) (bs : Bytes) (vs : List Value) (r1 : Bytes) (os : List Out) (depth nr : Nat)
    (h : decodeItemsX Limits.impl S (fS + 1) item c bs = some (vs, r1))
    (hobs : observeList S item vs = some os) (hdepth : depthItems vs ≤ depth)
    (hmax : maxLenItems vs ≤ cfg.maxSeqSize) (hfit : fits S k eh item = true) :
    ∀ K rest,
      (∀ fuel acc, K ≤ fuel → ∃ os',
        ReadsAt (deSeqLoop deExtModel cfg S fuel item depth false eh none ⟨0, nr⟩ acc) r1 rest os') →
      ∀ fuel acc, 3 * sizeItems vs + K ≤ fuel → ∃ os',
        ReadsAt (deSeqLoop deExtModel cfg S fuel item depth false eh none ⟨c, nr⟩ acc) bs rest os' := by
  cases c with
  | zero => exact fitAll_items_zero cfg S eh _ item bs vs r1 depth nr h
  | succ c =>
    intro K rest hK fuel acc hf
    simp only [decodeItemsX] at h
    split at h
    · cases h
    · rename_i v r0 hd
      split at h
      · cases h
      · rename_i vs' r1' hi
        simp only [Option.some.injEq, Prod.mk.injEq] at h
        obtain ⟨rfl, rfl⟩ := h
        simp only [observeList] at hobs
        split at hobs
        · rename_i o os0 ho hos
          simp only [depthItems] at hdepth
          simp only [maxLenItems] at hmax
          simp only [sizeItems] at hf
          obtain ⟨g, rfl⟩ : ∃ g, fuel = g + 1 := ⟨fuel - 1, by omega⟩
          obtain ⟨o', ho'⟩ := ih.dec k eh item bs v r0 o depth false hd ho (by omega) (by omega)
            hfit g (by omega)
          obtain ⟨os', hos'⟩ := ih.items k eh item c r0 vs' r1' os0 depth nr hi hos (by omega)
            (by omega) hfit K rest hK g (o' :: acc) (by omega)
          refine ⟨os', ?_⟩
          rw [deSeqLoop]
          simp only [reduceCtorEq, if_false, Option.map_none]
          refine ReadsAt.bind (readsAt_hasMore_succ cfg false c nr bs) ?_
          simp only [Bool.not_true, Bool.false_eq_true, if_false]
          exact ReadsAt.bind ho' hos'
        · cases hobs

theorem fitAll_succ_blocks (fS : Nat) (ih : FitAll cfg S fS) (k : Nat) (eh : Hint) (item : Node)
    (bs : Bytes) (vs : List Value) (rest : Bytes) (os : List Out) (depth nr : Nat)
    (h : decodeBlocksX Limits.impl S (fS + 1) item bs = some (vs, rest))
    (hobs : observeList S item vs = some os) (hdepth : depthItems vs ≤ depth)
    (hmax : maxLenItems vs ≤ cfg.maxSeqSize) (hnr : nr + vs.length ≤ cfg.maxSeqSize)
    (hfit : fits S k eh item = true) :
    ∀ fuel acc, 3 * sizeItems vs + 1 ≤ fuel → ∃ os',
      ReadsAt (deSeqLoop deExtModel cfg S fuel item depth false eh none ⟨0, nr⟩ acc) bs rest os' := by
  intro fuel acc hf
  obtain ⟨g, rfl⟩ : ∃ g, fuel = g + 1 := ⟨fuel - 1, by omega⟩
  simp only [decodeBlocksX] at h
  split at h
  · cases h
  · rename_i sz r0 hh
    simp only [Option.some.injEq, Prod.mk.injEq] at h
    obtain ⟨rfl, rfl⟩ := h
    refine ⟨acc.reverse, ?_⟩
    rw [deSeqLoop]
    simp only [reduceCtorEq, if_false]
    refine ReadsAt.bind (readsAt_hasMore_end cfg nr (decodeBlockHeaderX_L hh)) ?_
    simp only [Bool.not_false, if_true]
    exact ReadsAt.pure _ _
  · rename_i c sz r0 hc hh
    split at h
    · cases h
    · rename_i vs1 r1 hi
      split at h
      · split at h
        · cases h
        · rename_i more r2 hb
          simp only [Option.some.injEq, Prod.mk.injEq] at h
          obtain ⟨rfl, rfl⟩ := h
          obtain ⟨o1, o2, ho1, ho2, rfl⟩ := observeList_append S item vs1 more os hobs
          have hlen := decodeItemsX_length _ _ _ _ _ _ _ _ hi
          rw [depthItems_append] at hdepth
          rw [maxLenItems_append] at hmax
          rw [sizeItems_append] at hf
          rw [List.length_append] at hnr
          have hcpos : 0 < c := by
            rcases Nat.eq_zero_or_pos c with h0 | h0
            · exact absurd h0 (by intro h0; exact hc h0)
            · exact h0
          obtain ⟨os', key⟩ := ih.items k eh item c r0 vs1 r1 o1 depth (nr + c) hi ho1 (by omega)
            (by omega) hfit (3 * sizeItems more + 1) r2
            (fun fuel acc hK => ih.blocks k eh item r1 more r2 o2 depth (nr + c) hb ho2 (by omega)
              (by omega) (by omega) hfit fuel acc hK)
            (g + 1) acc (by omega)
          refine ⟨os', ?_⟩
          obtain ⟨c', rfl⟩ : ∃ c', c = c' + 1 := ⟨c - 1, by omega⟩
          rw [deSeqLoop] at key ⊢
          simp only [reduceCtorEq, if_false, Option.map_none] at key ⊢
          intro s hs
          have key' := key s hs
          rw [DeM.bind_apply] at key' ⊢
          rw [readsAt_hasMore_count cfg nr (decodeBlockHeaderX_L hh) (by omega) (by omega) s hs]
          rw [readsAt_hasMore_succ cfg false c' (nr + (c' + 1)) r0 s hs] at key'
          simp only [Nat.add_sub_cancel] at key' ⊢
          exact key'
      · cases h

theorem fitAll_succ_mitems (fS : Nat) (ih : FitAll cfg S fS) (k : Nat) (kh vh : Hint) (item : Node)
    (c : Nat) (bs : Bytes) (es : List (String × Value)) (r1 : Bytes) (os : List (Out × Out))
    (depth nr : Nat)
    (h : decodeMapItemsX Limits.impl S (fS + 1) item c bs = some (es, r1))
    (hobs : observeEntries S item es = some os) (hdepth : depthEntries es ≤ depth)
    (hmax : maxLenEntries es ≤ cfg.maxSeqSize) (hkh : kh = .str ∨ kh = .any)
    (hfit : fits S k vh item = true) :
    ∀ K rest,
      (∀ fuel acc, K ≤ fuel → ∃ os',
        ReadsAt (deMapLoop deExtModel cfg S fuel item depth false (.map kh vh) ⟨0, nr⟩ acc) r1 rest
          os') →
      ∀ fuel acc, 3 * sizeEntries es + K ≤ fuel → ∃ os',
        ReadsAt (deMapLoop deExtModel cfg S fuel item depth false (.map kh vh) ⟨c, nr⟩ acc) bs rest
          os' := by
  cases c with
  | zero =>
    intro K rest hK fuel acc hf
    simp only [decodeMapItemsX, Option.some.injEq, Prod.mk.injEq] at h
    obtain ⟨rfl, rfl⟩ := h
    exact hK fuel acc (by omega)
  | succ c =>
    intro K rest hK fuel acc hf
    simp only [decodeMapItemsX] at h
    split at h
    · cases h
    · rename_i key r0 hs
      split at h
      · cases h
      · rename_i v r0' hd
        split at h
        · cases h
        · rename_i es' r1' hi
          simp only [Option.some.injEq, Prod.mk.injEq] at h
          obtain ⟨rfl, rfl⟩ := h
          simp only [observeEntries] at hobs
          split at hobs
          · rename_i o os0 ho hos
            simp only [depthEntries] at hdepth
            simp only [maxLenEntries] at hmax
            simp only [sizeEntries] at hf
            obtain ⟨g, rfl⟩ : ∃ g, fuel = g + 1 := ⟨fuel - 1, by omega⟩
            obtain ⟨n, r, b, hlen, htake, hutf⟩ := decodeStringL_inv hs
            obtain ⟨o', ho'⟩ := ih.dec k vh item r0 v r0' o depth false hd ho (by omega) (by omega)
              hfit g (by omega)
            obtain ⟨os', hos'⟩ := ih.mitems k kh vh item c r0' es' r1' os0 depth nr hi hos (by omega)
              (by omega) hkh hfit K rest hK g ((.str key true, o') :: acc) (by omega)
            refine ⟨os', ?_⟩
            rw [deMapLoop]
            refine ReadsAt.bind (readsAt_hasMore_succ cfg false c nr bs) ?_
            simp only [Bool.not_true, Bool.false_eq_true, if_false]
            refine ReadsAt.bind (readsAt_readLen hlen) ?_
            refine ReadsAt.bind (readsAt_readSlice htake) ?_
            rcases hkh with rfl | rfl
            · simp only [Hint.key, bytesToStr?, hutf]
              refine ReadsAt.bind (ReadsAt.pure _ _) ?_
              simp only [Hint.valFor]
              exact ReadsAt.bind ho' hos'
            · simp only [Hint.key, bytesToStr?, hutf]
              refine ReadsAt.bind (ReadsAt.pure _ _) ?_
              simp only [Hint.valFor]
              exact ReadsAt.bind ho' hos'
          · cases hobs

theorem fitAll_succ_mblocks (fS : Nat) (ih : FitAll cfg S fS) (k : Nat) (kh vh : Hint) (item : Node)
    (bs : Bytes) (es : List (String × Value)) (rest : Bytes) (os : List (Out × Out))
    (depth nr : Nat)
    (h : decodeMapBlocksX Limits.impl S (fS + 1) item bs = some (es, rest))
    (hobs : observeEntries S item es = some os) (hdepth : depthEntries es ≤ depth)
    (hmax : maxLenEntries es ≤ cfg.maxSeqSize) (hnr : nr + es.length ≤ cfg.maxSeqSize)
    (hkh : kh = .str ∨ kh = .any) (hfit : fits S k vh item = true) :
    ∀ fuel acc, 3 * sizeEntries es + 1 ≤ fuel → ∃ os',
      ReadsAt (deMapLoop deExtModel cfg S fuel item depth false (.map kh vh) ⟨0, nr⟩ acc) bs rest
        os' := by
  intro fuel acc hf
  obtain ⟨g, rfl⟩ : ∃ g, fuel = g + 1 := ⟨fuel - 1, by omega⟩
  simp only [decodeMapBlocksX] at h
  split at h
  · cases h
  · rename_i sz r0 hh
    simp only [Option.some.injEq, Prod.mk.injEq] at h
    obtain ⟨rfl, rfl⟩ := h
    refine ⟨acc.reverse, ?_⟩
    rw [deMapLoop]
    refine ReadsAt.bind (readsAt_hasMore_end cfg nr (decodeBlockHeaderX_L hh)) ?_
    simp only [Bool.not_false, if_true]
    exact ReadsAt.pure _ _
  · rename_i c sz r0 hc hh
    split at h
    · cases h
    · rename_i es1 r1 hi
      split at h
      · split at h
        · cases h
        · rename_i more r2 hb
          simp only [Option.some.injEq, Prod.mk.injEq] at h
          obtain ⟨rfl, rfl⟩ := h
          obtain ⟨o1, o2, ho1, ho2, rfl⟩ := observeEntries_append S item es1 more os hobs
          have hlen := decodeMapItemsX_length _ _ _ _ _ _ _ _ hi
          rw [depthEntries_append] at hdepth
          rw [maxLenEntries_append] at hmax
          rw [sizeEntries_append] at hf
          rw [List.length_append] at hnr
          have hcpos : 0 < c := by
            rcases Nat.eq_zero_or_pos c with h0 | h0
            · exact absurd h0 (by intro h0; exact hc h0)
            · exact h0
          obtain ⟨os', key⟩ := ih.mitems k kh vh item c r0 es1 r1 o1 depth (nr + c) hi ho1
            (by omega) (by omega) hkh hfit (3 * sizeEntries more + 1) r2
            (fun fuel acc hK => ih.mblocks k kh vh item r1 more r2 o2 depth (nr + c) hb ho2
              (by omega) (by omega) (by omega) hkh hfit fuel acc hK)
            (g + 1) acc (by omega)
          refine ⟨os', ?_⟩
          obtain ⟨c', rfl⟩ : ∃ c', c = c' + 1 := ⟨c - 1, by omega⟩
          rw [deMapLoop] at key ⊢
          intro s hs
          have key' := key s hs
          rw [DeM.bind_apply] at key' ⊢
          rw [readsAt_hasMore_count cfg nr (decodeBlockHeaderX_L hh) (by omega) (by omega) s hs]
          rw [readsAt_hasMore_succ cfg false c' (nr + (c' + 1)) r0 s hs] at key'
          simp only [Nat.add_sub_cancel] at key' ⊢
          exact key'
      · cases h

theorem fitAll_succ_fields (fS : Nat) (ih : FitAll cfg S fS) (fs : List (String × Hint)) :
    ∀ (fields : List (String × Nat)) (bs : Bytes) (vals : List Value) (rest : Bytes)
      (os : List (Out × Out)) (depth : Nat),
    decodeFieldsX Limits.impl S (fS + 1) (fields.map (·.2)) bs = some (vals, rest) →
    observeFields S fields vals = some os → depthItems vals ≤ depth →
    maxLenItems vals ≤ cfg.maxSeqSize →
    (∀ q ∈ fields, ∀ t, S[q.2]? = some t →
      ∃ k', fits S k' ((lookupHint q.1 fs).getD .ignored) t = true) →
    ∀ fuel acc, 3 * sizeItems vals ≤ fuel → ∃ os',
      ReadsAt (deRecordFields deExtModel cfg S fuel fields depth (.struct fs) acc) bs rest os' := by
  intro fields bs vals rest os depth h hobs hdepth hmax hfit fuel acc hf
  cases fields with
  | nil =>
    simp only [List.map_nil, decodeFieldsX, Option.some.injEq, Prod.mk.injEq] at h
    obtain ⟨rfl, rfl⟩ := h
    refine ⟨acc.reverse, ?_⟩
    rw [deRecordFields]
    exact ReadsAt.pure _ _
  | cons fk fields =>
    obtain ⟨name, i⟩ := fk
    simp only [List.map_cons, decodeFieldsX, nodeOf] at h
    split at h
    · cases h
    · rename_i fnode hnode
      split at h
      · cases h
      · rename_i v r0 hd
        split at h
        · cases h
        · rename_i vs r1 hi
          simp only [Option.some.injEq, Prod.mk.injEq] at h
          obtain ⟨rfl, rfl⟩ := h
          simp only [observeFields, hnode] at hobs
          split at hobs
          · rename_i o os0 ho hos
            simp only [depthItems] at hdepth
            simp only [maxLenItems] at hmax
            simp only [sizeItems] at hf
            obtain ⟨g, rfl⟩ : ∃ g, fuel = g + 1 := ⟨fuel - 1, by omega⟩
            obtain ⟨k', hk'⟩ := hfit (name, i) (List.mem_cons_self) fnode hnode
            obtain ⟨o', ho'⟩ := ih.dec k' _ fnode bs v r0 o depth false hd ho (by omega) (by omega)
              hk' g (by omega)
            obtain ⟨os', hos'⟩ := ih.fields fs fields r0 vs r1 os0 depth hi hos (by omega)
              (by omega) (fun q hq => hfit q (List.mem_cons_of_mem _ hq)) g
              ((.str name false, o') :: acc) (by omega)
            refine ⟨os', ?_⟩
            rw [deRecordFields]
            simp only [hnode, Hint.valFor, Hint.key, offerName]
            exact ReadsAt.bind ho' hos'
          · cases hobs

end Avro.Impl

namespace Avro.Impl
open Avro Avro.Spec

variable (cfg : DeConfig) (S : Schema)

/-- the scalar requests of the fragment, on the nodes they fit, are the self-describing read -/
theorem de_leaf_eq (r : Hint → Node → Bool) (hint : Hint) (n : Node)
    (hleaf : hint = .i64 ∨ hint = .f64 ∨ hint = .str ∨ hint = .bytes)
    (hf : fitsStep S r hint n = true) (f d : Nat) (fv : Bool) :
    de deExtModel cfg S (f + 2) n d fv hint = de deExtModel cfg S (f + 2) n d false .any := by
  rcases hleaf with rfl | rfl | rfl | rfl <;>
    cases n <;> (try (simp [fitsStep, intLike] at hf; done)) <;>
    (rw [de, de] <;> (try (intros; contradiction))) <;>
    (try (rw [deAny, deAny]; done)) <;> (try (rw [deAny]; done))

theorem fitAll_succ_dec (fS : Nat) (ih : FitAll cfg S fS) (k : Nat) (hint : Hint) (n : Node)
    (bs : Bytes) (v : Value) (rest : Bytes) (o : Out) (depth : Nat) (favor : Bool)
    (h : decodeX Limits.impl S (fS + 1) n bs = some (v, rest))
    (hobs : observe S n v = some o) (hdepth : depthOf v ≤ depth)
    (hmax : maxLen v ≤ cfg.maxSeqSize) (hfit : fits S k hint n = true) :
    ∀ fuel, 3 * size v ≤ fuel →
      ∃ o', ReadsAt (de deExtModel cfg S fuel n depth favor hint) bs rest o' := by
  intro fuel hfuel
  have hsz := size_pos v
  obtain ⟨f, rfl⟩ : ∃ f, fuel = f + 2 := ⟨fuel - 2, by omega⟩
  have hany : ReadsAt (de deExtModel cfg S (f + 2) n depth false .any) bs rest o :=
    de_accepts_layouts cfg S v n bs rest o depth (fS + 1) (f + 2)
      (decodeX_sub _ S (fS + 1) n bs _ h) hobs hdepth hmax hfuel
  obtain ⟨r, hstep, hr⟩ := fits_step S k hint n hfit
  cases hint with
  | any => exact ⟨o, by rw [de] at hany ⊢; exact hany⟩
  | ignored =>
    have := skip_layouts cfg S v n bs rest o depth (fS + 1) (f + 2) h hobs hdepth hmax hfuel
    exact ⟨.unit, by rw [de] at this ⊢; exact this⟩
  | i64 => exact ⟨o, by rw [de_leaf_eq cfg S r _ n (by simp) hstep]; exact hany⟩
  | f64 => exact ⟨o, by rw [de_leaf_eq cfg S r _ n (by simp) hstep]; exact hany⟩
  | str => exact ⟨o, by rw [de_leaf_eq cfg S r _ n (by simp) hstep]; exact hany⟩
  | bytes => exact ⟨o, by rw [de_leaf_eq cfg S r _ n (by simp) hstep]; exact hany⟩
  | option h' =>
    cases n <;> (try (simp [fitsStep] at hstep; done))
    rename_i vs
    rw [de]
    simp only [decodeX, nodeOf] at h
    split at h
    · cases h
    · rename_i idx r0 hd
      split at h
      · cases h
      · rename_i kk hk
        split at h
        · cases h
        · rename_i branch hbranch
          simp only [Option.map_eq_some_iff] at h
          obtain ⟨⟨v', r'⟩, hb, h⟩ := h
          simp only [Prod.mk.injEq] at h
          obtain ⟨rfl, rfl⟩ := h
          simp only [observe, hk, hbranch] at hobs
          simp only [depthOf] at hdepth
          simp only [maxLen] at hmax
          simp only [size] at hfuel
          simp only [fitsStep, Bool.and_eq_true, List.all_eq_true] at hstep
          obtain ⟨_, hall⟩ := hstep
          have hbr := hall kk (List.mem_of_getElem? hk)
          simp only [hbranch] at hbr
          obtain ⟨d, rfl⟩ : ∃ d, depth = d + 1 := ⟨depth - 1, by omega⟩
          by_cases hnull : branch = .null
          · subst hnull
            have e : r' = r0 := by
              cases fS <;> simp only [decodeX, Option.some.injEq, Prod.mk.injEq, reduceCtorEq] at hb
              exact hb.2.symm
            subst e
            refine ⟨.none, ?_⟩
            refine ReadsAt.bind (readsAt_readLen hd) ?_
            simp only [hk, hbranch]
            exact ReadsAt.pure _ _
          · have hbr' : r h' branch = true := by
              cases branch <;> first | (exact absurd rfl hnull) | exact hbr
            obtain ⟨k', hk'⟩ := hr _ _ hbr'
            obtain ⟨o', ho'⟩ := ih.dec k' h' branch r0 v' r' o d
              (!(vs.length == 2 && (match vs[1 - idx]? with
                | some k' => isNullNode (S[k']?.getD .int)
                | none => false))) hb hobs (by omega) hmax hk' (f + 1) (by omega)
            refine ⟨.some o', ?_⟩
            refine ReadsAt.bind (readsAt_readLen hd) ?_
            simp only [hk, hbranch]
            cases branch <;> first
              | (exact absurd rfl hnull)
              | (refine ReadsAt.bind (ReadsAt.pure d _) ?_
                 exact ReadsAt.bind ho' (ReadsAt.pure _ _))
  | seq h' =>
    cases n <;> (try (simp [fitsStep] at hstep; done))
    rename_i i
    rw [de] <;> (try (intros; contradiction))
    rw [deAny]
    simp only [decodeX, nodeOf] at h
    split at h
    · cases h
    · rename_i item hitem
      simp only [Option.map_eq_some_iff] at h
      obtain ⟨⟨vs, r'⟩, hb, h⟩ := h
      simp only [Prod.mk.injEq] at h
      obtain ⟨rfl, rfl⟩ := h
      simp only [observe, hitem, Option.map_eq_some_iff] at hobs
      obtain ⟨os, hos, rfl⟩ := hobs
      simp only [depthOf] at hdepth
      simp only [maxLen] at hmax
      simp only [size] at hfuel
      simp only [fitsStep, hitem] at hstep
      obtain ⟨k', hk'⟩ := hr _ _ hstep
      obtain ⟨d, rfl⟩ : ∃ d, depth = d + 1 := ⟨depth - 1, by omega⟩
      obtain ⟨os', hos'⟩ := ih.blocks k' h' item bs vs r' os d 0 hb hos (by omega) (by omega)
        (by omega) hk' f [] (by omega)
      refine ⟨.seq os', ?_⟩
      simp only [hitem, Hint.elem, Hint.maxItems]
      refine ReadsAt.bind (ReadsAt.pure d _) ?_
      exact ReadsAt.bind hos' (ReadsAt.pure _ _)
  | map kh vh =>
    cases n <;> (try (simp [fitsStep] at hstep; done))
    rename_i i
    rw [de] <;> (try (intros; contradiction))
    rw [deAny]
    simp only [decodeX, nodeOf] at h
    split at h
    · cases h
    · rename_i item hitem
      simp only [Option.map_eq_some_iff] at h
      obtain ⟨⟨es, r'⟩, hb, h⟩ := h
      simp only [Prod.mk.injEq] at h
      obtain ⟨rfl, rfl⟩ := h
      simp only [observe, hitem, Option.map_eq_some_iff] at hobs
      obtain ⟨os, hos, rfl⟩ := hobs
      simp only [depthOf] at hdepth
      simp only [maxLen] at hmax
      simp only [size] at hfuel
      simp only [fitsStep, hitem, Bool.and_eq_true] at hstep
      obtain ⟨hkh, hstep⟩ := hstep
      have hkh' : kh = .str ∨ kh = .any := by
        cases kh <;> simp at hkh ⊢
      obtain ⟨k', hk'⟩ := hr _ _ hstep
      obtain ⟨d, rfl⟩ : ∃ d, depth = d + 1 := ⟨depth - 1, by omega⟩
      obtain ⟨os', hos'⟩ := ih.mblocks k' kh vh item bs es r' os d 0 hb hos (by omega) (by omega)
        (by omega) hkh' hk' f [] (by omega)
      refine ⟨.map os', ?_⟩
      simp only [hitem]
      refine ReadsAt.bind (ReadsAt.pure d _) ?_
      exact ReadsAt.bind hos' (ReadsAt.pure _ _)
  | struct fs =>
    cases n <;> (try (simp [fitsStep] at hstep; done))
    rename_i nm fields
    rw [de, deAny]
    simp only [decodeX, Option.map_eq_some_iff] at h
    obtain ⟨⟨vals, r'⟩, hb, h⟩ := h
    simp only [Prod.mk.injEq] at h
    obtain ⟨rfl, rfl⟩ := h
    simp only [observe, Option.map_eq_some_iff] at hobs
    obtain ⟨os, hos, rfl⟩ := hobs
    simp only [depthOf] at hdepth
    simp only [maxLen] at hmax
    simp only [size] at hfuel
    simp only [fitsStep, Bool.and_eq_true, List.all_eq_true] at hstep
    obtain ⟨_, hall⟩ := hstep
    have hfields : ∀ q ∈ fields, ∀ t, S[q.2]? = some t →
        ∃ k', fits S k' ((lookupHint q.1 fs).getD .ignored) t = true := by
      intro q hq t ht
      have := hall q hq
      simp only [ht] at this
      exact hr _ _ this
    obtain ⟨d, rfl⟩ : ∃ d, depth = d + 1 := ⟨depth - 1, by omega⟩
    obtain ⟨os', hos'⟩ := ih.fields fs fields bs vals r' os d hb hos (by omega) (by omega)
      hfields f [] (by omega)
    refine ⟨.map os', ?_⟩
    refine ReadsAt.bind (ReadsAt.pure d _) ?_
    exact ReadsAt.bind hos' (ReadsAt.pure _ _)
  | u64 => cases n <;> simp [fitsStep] at hstep
  | u128 => cases n <;> simp [fitsStep] at hstep
  | i128 => cases n <;> simp [fitsStep] at hstep
  | identifier => cases n <;> simp [fitsStep] at hstep
  | tuple a b => cases n <;> simp [fitsStep] at hstep
  | «enum» vs => cases n <;> simp [fitsStep] at hstep

theorem fitAll_zero : FitAll cfg S 0 := by
  refine ⟨?_, ?_, ?_, ?_, ?_, ?_⟩
  · intro k hint n bs v rest o depth favor h; simp [decodeX] at h
  · intro k eh item c bs vs r1 os depth nr h _ _ _ _
    cases c with
    | zero => exact fitAll_items_zero cfg S eh 0 item bs vs r1 depth nr h
    | succ c => simp [decodeItemsX] at h
  · intro k eh item bs vs rest os depth nr h; simp [decodeBlocksX] at h
  · intro k kh vh item c bs es r1 os depth nr h _ _ _ _ _
    cases c with
    | zero =>
      intro K rest hK fuel acc hf
      simp only [decodeMapItemsX, Option.some.injEq, Prod.mk.injEq] at h
      obtain ⟨rfl, rfl⟩ := h
      exact hK fuel acc (by omega)
    | succ c => simp [decodeMapItemsX] at h
  · intro k kh vh item bs es rest os depth nr h; simp [decodeMapBlocksX] at h
  · intro fs fields bs vals rest os depth h _ _ _ _ fuel acc _
    cases fields with
    | nil =>
      simp only [List.map_nil, decodeFieldsX, Option.some.injEq, Prod.mk.injEq] at h
      obtain ⟨rfl, rfl⟩ := h
      refine ⟨acc.reverse, ?_⟩
      rw [deRecordFields]
      exact ReadsAt.pure _ _
    | cons fk fs => simp [decodeFieldsX] at h

theorem fitAll : ∀ fS, FitAll cfg S fS := by
  intro fS
  induction fS with
  | zero => exact fitAll_zero cfg S
  | succ fS ih =>
    exact ⟨fitAll_succ_dec cfg S fS ih, fitAll_succ_items cfg S fS ih,
      fitAll_succ_blocks cfg S fS ih, fitAll_succ_mitems cfg S fS ih,
      fitAll_succ_mblocks cfg S fS ih, fitAll_succ_fields cfg S fS ih⟩

/-- **Typed acceptance, all layouts with exact block sizes**: a request that fits the node succeeds
    on every input `decodeX Limits.impl` accepts, and leaves exactly the remainder of that run. -/
theorem typed_accepts_layouts (k : Nat) (hint : Hint) (v : Value) (n : Node) (bs rest : Bytes)
    (o : Out) (depth fuelX fuel : Nat) (favor : Bool)
    (h : decodeX Limits.impl S fuelX n bs = some (v, rest)) (hobs : observe S n v = some o)
    (hdepth : depthOf v ≤ depth) (hmax : maxLen v ≤ cfg.maxSeqSize) (hfuel : 3 * size v ≤ fuel)
    (hfit : fits S k hint n = true) :
    ∃ o', ReadsAt (de deExtModel cfg S fuel n depth favor hint) bs rest o' :=
  (fitAll cfg S fuelX).dec k hint n bs v rest o depth favor h hobs hdepth hmax hfit fuel hfuel

end Avro.Impl
