import AvroModel.Spec.Pcf
/-
C08 (injectivity part): the canonical STRUCTURE of a schema document.

`Canon` is the tree that keeps exactly what the rules of "Transforming into Parsing Canonical
Form" keep: the primitive kind; for a named type its FULLNAME (the dotted text) and, for a record,
the ordered list of (field name, field type), for an enum the ordered symbols, for a fixed the
size; an array's items, a map's values, a union's ordered branches.  A further occurrence of a
name is a reference (`ref`), as in the document.

`canonOfIn enc j` reads that structure off the document `j` (same case analysis as
`Spec.Pcf.canon`, which produces a JSON tree); `Canon.toJson` is the JSON tree of a structure and
`canon_factors` says `canon enc j = (canonOfIn enc j).map Canon.toJson`.  `Canon.chars` is the text
of a structure as a list of characters, `Canon.text` the same as a `String`, and
`print_toJson : print c.toJson = c.text`.
-/
namespace Avro.Spec.Pcf
open Avro.Impl (Json)

/-- the eight primitive kinds -/
inductive Prim
  | null | boolean | int | long | float | double | bytes | string
  deriving DecidableEq, Repr, Inhabited

/-- "Primitive type names" -/
def Prim.name : Prim → String
  | .null => "null" | .boolean => "boolean" | .int => "int" | .long => "long"
  | .float => "float" | .double => "double" | .bytes => "bytes" | .string => "string"

def Prim.ofString? (s : String) : Option Prim :=
  if s = "null" then some .null
  else if s = "boolean" then some .boolean
  else if s = "int" then some .int
  else if s = "long" then some .long
  else if s = "float" then some .float
  else if s = "double" then some .double
  else if s = "bytes" then some .bytes
  else if s = "string" then some .string
  else none

/-- The canonical structure of a schema document. -/
inductive Canon
  | prim (p : Prim)
  /-- a further occurrence of a named type: its fullname -/
  | ref (fullname : String)
  | array (items : Canon)
  | map (values : Canon)
  | union (branches : List Canon)
  | enum (fullname : String) (symbols : List String)
  | fixed (fullname : String) (size : Nat)
  | record (fullname : String) (fields : List (String × Canon))
  deriving Repr, Inhabited

/-! ### the structure as a JSON tree (members in canonical order) -/

mutual

def Canon.toJson : Canon → Json
  | .prim p => .str p.name
  | .ref n => .str n
  | .array i => .obj [("type", .str "array"), ("items", i.toJson)]
  | .map v => .obj [("type", .str "map"), ("values", v.toJson)]
  | .union bs => .arr (Canon.toJsonList bs)
  | .enum n syms => .obj [("name", .str n), ("type", .str "enum"), ("symbols", .arr (syms.map Json.str))]
  | .fixed n size => .obj [("name", .str n), ("type", .str "fixed"), ("size", .nat size)]
  | .record n fs => .obj [("name", .str n), ("type", .str "record"), ("fields", .arr (Canon.toJsonFields fs))]

def Canon.toJsonList : List Canon → List Json
  | [] => []
  | c :: cs => c.toJson :: Canon.toJsonList cs

def Canon.toJsonFields : List (String × Canon) → List Json
  | [] => []
  | (f, c) :: fs => .obj [("name", .str f), ("type", c.toJson)] :: Canon.toJsonFields fs

end

/-! ### the structure of a document -/

mutual

/-- Canonical structure of the schema document `j` met in the enclosing namespace `enc`;
    `none` exactly where `Spec.Pcf.canon` is `none`. -/
def canonOfIn (enc : Option String) : Json → Option Canon
  | .str s =>
    match Prim.ofString? s with
    | some p => some (.prim p)
    | none => some (.ref (fullnameText (fullnameOfRef s enc)))
  | .arr branches => (canonOfList enc branches).map Canon.union
  | .obj ms =>
    match strAttr "type" ms with
    | none => none
    | some t =>
      match Prim.ofString? t with
      | some p => some (.prim p)
      | none =>
        if t = "array" then (canonOfAttr enc "items" ms).map Canon.array
        else if t = "map" then (canonOfAttr enc "values" ms).map Canon.map
        else if t = "enum" then
          match strAttr "name" ms, symbolsAttr ms with
          | some name, some syms =>
            some (.enum (fullnameText (fullnameOfDef name (strAttr "namespace" ms) enc)) syms)
          | _, _ => none
        else if t = "fixed" then
          match strAttr "name" ms, natAttr "size" ms with
          | some name, some size =>
            some (.fixed (fullnameText (fullnameOfDef name (strAttr "namespace" ms) enc)) size)
          | _, _ => none
        else if t = "record" then
          match strAttr "name" ms with
          | none => none
          | some name =>
            (canonOfFieldsAttr (fullnameOfDef name (strAttr "namespace" ms) enc).1 ms).map
              (Canon.record (fullnameText (fullnameOfDef name (strAttr "namespace" ms) enc)))
        else none
  | _ => none

def canonOfList (enc : Option String) : List Json → Option (List Canon)
  | [] => some []
  | j :: rest =>
    match canonOfIn enc j, canonOfList enc rest with
    | some c, some cs => some (c :: cs)
    | _, _ => none

def canonOfAttr (enc : Option String) (key : String) : List (String × Json) → Option Canon
  | [] => none
  | (k, v) :: rest => if k = key then canonOfIn enc v else canonOfAttr enc key rest

def canonOfFieldsAttr (enc : Option String) : List (String × Json) → Option (List (String × Canon))
  | [] => none
  | (k, v) :: rest =>
    if k = "fields" then
      match v with
      | .arr fields => canonOfFields enc fields
      | _ => none
    else canonOfFieldsAttr enc rest

def canonOfFields (enc : Option String) : List Json → Option (List (String × Canon))
  | [] => some []
  | .obj fm :: rest =>
    match strAttr "name" fm, canonOfAttr enc "type" fm, canonOfFields enc rest with
    | some name, some c, some cs => some ((name, c) :: cs)
    | _, _, _ => none
  | _ :: _ => none

end

/-- The canonical structure of a schema document (null enclosing namespace). -/
def canonOf (j : Json) : Option Canon := canonOfIn none j

/-! ### primitives -/

theorem Prim.ofString?_name (p : Prim) : Prim.ofString? p.name = some p := by
  cases p <;> decide

theorem Prim.ofString?_some {s : String} {p : Prim} (h : Prim.ofString? s = some p) :
    p.name = s := by
  unfold Prim.ofString? at h
  repeat' split at h
  all_goals first
    | (cases h; subst_vars; rfl)
    | cases h

theorem isPrimitive_eq (s : String) : isPrimitive s = (Prim.ofString? s).isSome := by
  unfold Prim.ofString?
  repeat' split
  all_goals first
    | (subst_vars; decide)
    | simp_all [isPrimitive, primitiveNames]

theorem isPrimitive_of_some {s : String} {p : Prim} (h : Prim.ofString? s = some p) :
    isPrimitive s = true := by
  rw [isPrimitive_eq, h]; rfl

theorem isPrimitive_of_none {s : String} (h : Prim.ofString? s = none) :
    isPrimitive s = false := by
  rw [isPrimitive_eq, h]; rfl

/-! ### `canon` factors through the structure -/

mutual

theorem canon_factors (enc : Option String) :
    (j : Json) → canon enc j = (canonOfIn enc j).map Canon.toJson
  | .str s => by
    simp only [canon, canonOfIn]
    cases h : Prim.ofString? s with
    | some p => simp [isPrimitive_of_some h, Canon.toJson, Prim.ofString?_some h]
    | none => simp [isPrimitive_of_none h, Canon.toJson]
  | .arr branches => by
    simp only [canon, canonOfIn, canonList_factors enc branches, Option.map_map]
    congr 1
  | .obj ms => by
    simp only [canon, canonOfIn]
    cases ht : strAttr "type" ms with
    | none => rfl
    | some t =>
      simp only
      cases h : Prim.ofString? t with
      | some p => simp [isPrimitive_of_some h, Canon.toJson, Prim.ofString?_some h]
      | none =>
        simp only [isPrimitive_of_none h, Bool.false_eq_true, if_false]
        split
        · simp only [canonAttr_factors enc "items" ms, Option.map_map]; congr 1
        split
        · simp only [canonAttr_factors enc "values" ms, Option.map_map]; congr 1
        split
        · cases strAttr "name" ms <;> cases symbolsAttr ms <;> simp [Canon.toJson]
        split
        · cases strAttr "name" ms <;> cases natAttr "size" ms <;> simp [Canon.toJson]
        split
        · cases strAttr "name" ms with
          | none => rfl
          | some name =>
            simp only [fieldsAttr_factors, Option.map_map]
            congr 1
        · rfl
  | .null => by simp [canon, canonOfIn]
  | .bool _ => by simp [canon, canonOfIn]
  | .nat _ => by simp [canon, canonOfIn]
  | .numOther => by simp [canon, canonOfIn]

theorem canonList_factors (enc : Option String) :
    (js : List Json) → canonList enc js = (canonOfList enc js).map Canon.toJsonList
  | [] => by simp [canonList, canonOfList, Canon.toJsonList]
  | j :: rest => by
    simp only [canonList, canonOfList, canon_factors enc j, canonList_factors enc rest]
    cases canonOfIn enc j <;> cases canonOfList enc rest <;> simp [Canon.toJsonList]

theorem canonAttr_factors (enc : Option String) (key : String) :
    (ms : List (String × Json)) → canonAttr enc key ms = (canonOfAttr enc key ms).map Canon.toJson
  | [] => by simp [canonAttr, canonOfAttr]
  | (k, v) :: rest => by
    simp only [canonAttr, canonOfAttr]
    split
    · exact canon_factors enc v
    · exact canonAttr_factors enc key rest

theorem fieldsAttr_factors (enc : Option String) :
    (ms : List (String × Json)) →
      fieldsAttr enc ms = (canonOfFieldsAttr enc ms).map Canon.toJsonFields
  | [] => by simp [fieldsAttr, canonOfFieldsAttr]
  | (k, .arr fields) :: rest => by
    simp only [fieldsAttr, canonOfFieldsAttr]
    split
    · exact canonFields_factors enc fields
    · exact fieldsAttr_factors enc rest
  | (k, .null) :: rest | (k, .bool _) :: rest | (k, .nat _) :: rest | (k, .numOther) :: rest
  | (k, .str _) :: rest | (k, .obj _) :: rest => by
    simp only [fieldsAttr, canonOfFieldsAttr]
    split
    · rfl
    · exact fieldsAttr_factors enc rest

theorem canonFields_factors (enc : Option String) :
    (fs : List Json) → canonFields enc fs = (canonOfFields enc fs).map Canon.toJsonFields
  | [] => by simp [canonFields, canonOfFields, Canon.toJsonFields]
  | .obj fm :: rest => by
    simp only [canonFields, canonOfFields, canonAttr_factors enc "type" fm,
      canonFields_factors enc rest]
    cases strAttr "name" fm <;> cases canonOfAttr enc "type" fm <;>
      cases canonOfFields enc rest <;> simp [Canon.toJsonFields]
  | .str _ :: _ => by simp [canonFields, canonOfFields]
  | .arr _ :: _ => by simp [canonFields, canonOfFields]
  | .null :: _ => by simp [canonFields, canonOfFields]
  | .bool _ :: _ => by simp [canonFields, canonOfFields]
  | .nat _ :: _ => by simp [canonFields, canonOfFields]
  | .numOther :: _ => by simp [canonFields, canonOfFields]

end

/-! ### equality of structures is decidable -/

mutual
def Canon.beq : Canon → Canon → Bool
  | .prim p, .prim q => p == q
  | .ref n, .ref m => n == m
  | .array i, .array j => Canon.beq i j
  | .map i, .map j => Canon.beq i j
  | .union bs, .union cs => Canon.beqList bs cs
  | .enum n s, .enum m t => n == m && s == t
  | .fixed n s, .fixed m t => n == m && s == t
  | .record n fs, .record m gs => n == m && Canon.beqFields fs gs
  | _, _ => false
def Canon.beqList : List Canon → List Canon → Bool
  | [], [] => true
  | c :: cs, d :: ds => Canon.beq c d && Canon.beqList cs ds
  | _, _ => false
def Canon.beqFields : List (String × Canon) → List (String × Canon) → Bool
  | [], [] => true
  | (f, c) :: cs, (g, d) :: ds => f == g && Canon.beq c d && Canon.beqFields cs ds
  | _, _ => false
end

mutual
theorem Canon.beq_iff : (c d : Canon) → (Canon.beq c d = true ↔ c = d)
  | .prim p, d => by cases d <;> simp [Canon.beq]
  | .ref n, d => by cases d <;> simp [Canon.beq]
  | .array i, d => by cases d <;> simp [Canon.beq, Canon.beq_iff i]
  | .map i, d => by cases d <;> simp [Canon.beq, Canon.beq_iff i]
  | .union bs, d => by cases d <;> simp [Canon.beq, Canon.beqList_iff bs]
  | .enum n s, d => by cases d <;> simp [Canon.beq]
  | .fixed n s, d => by cases d <;> simp [Canon.beq]
  | .record n fs, d => by cases d <;> simp [Canon.beq, Canon.beqFields_iff fs]
theorem Canon.beqList_iff : (cs ds : List Canon) → (Canon.beqList cs ds = true ↔ cs = ds)
  | [], ds => by cases ds <;> simp [Canon.beqList]
  | c :: cs, ds => by cases ds <;> simp [Canon.beqList, Canon.beq_iff c, Canon.beqList_iff cs]
theorem Canon.beqFields_iff : (cs ds : List (String × Canon)) → (Canon.beqFields cs ds = true ↔ cs = ds)
  | [], ds => by cases ds <;> simp [Canon.beqFields]
  | (f, c) :: cs, ds => by
    cases ds with
    | nil => simp [Canon.beqFields]
    | cons d ds => obtain ⟨g, d⟩ := d; simp [Canon.beqFields, Canon.beq_iff c, Canon.beqFields_iff cs, and_assoc]
end

instance : DecidableEq Canon := fun c d =>
  if h : Canon.beq c d = true then isTrue ((Canon.beq_iff c d).mp h)
  else isFalse (fun e => h ((Canon.beq_iff c d).mpr e))

/-! ### the text of a structure -/

/-- `{"type":"array","items":` -/
def kwArray : List Char :=
  ['{', '"', 't', 'y', 'p', 'e', '"', ':', '"', 'a', 'r', 'r', 'a', 'y', '"', ',', '"', 'i', 't', 'e', 'm', 's', '"', ':']
/-- `{"type":"map","values":` -/
def kwMap : List Char :=
  ['{', '"', 't', 'y', 'p', 'e', '"', ':', '"', 'm', 'a', 'p', '"', ',', '"', 'v', 'a', 'l', 'u', 'e', 's', '"', ':']
/-- `{"name":"` -/
def kwName : List Char :=
  ['{', '"', 'n', 'a', 'm', 'e', '"', ':', '"']
/-- `","type":"enum","symbols":[` -/
def kwEnum : List Char :=
  ['"', ',', '"', 't', 'y', 'p', 'e', '"', ':', '"', 'e', 'n', 'u', 'm', '"', ',', '"', 's', 'y', 'm', 'b', 'o', 'l', 's', '"', ':', '[']
/-- `","type":"fixed","size":` -/
def kwFixed : List Char :=
  ['"', ',', '"', 't', 'y', 'p', 'e', '"', ':', '"', 'f', 'i', 'x', 'e', 'd', '"', ',', '"', 's', 'i', 'z', 'e', '"', ':']
/-- `","type":"record","fields":[` -/
def kwRecord : List Char :=
  ['"', ',', '"', 't', 'y', 'p', 'e', '"', ':', '"', 'r', 'e', 'c', 'o', 'r', 'd', '"', ',', '"', 'f', 'i', 'e', 'l', 'd', 's', '"', ':', '[']
/-- `","type":` -/
def kwFieldType : List Char :=
  ['"', ',', '"', 't', 'y', 'p', 'e', '"', ':']

/-- the symbols of an enum, quoted (RAW between the quotes, as `Spec.Pcf.print` writes a JSON
    string) and separated by commas -/
def symsCharsTail : List String → List Char
  | [] => []
  | s :: ss => ',' :: '"' :: s.toList ++ '"' :: symsCharsTail ss

def symsChars : List String → List Char
  | [] => []
  | s :: ss => '"' :: s.toList ++ '"' :: symsCharsTail ss

mutual

/-- The text of a canonical structure, as a list of characters. -/
def Canon.chars : Canon → List Char
  | .prim p => '"' :: p.name.toList ++ ['"']
  | .ref n => '"' :: n.toList ++ ['"']
  | .array i => kwArray ++ i.chars ++ ['}']
  | .map v => kwMap ++ v.chars ++ ['}']
  | .union bs => '[' :: Canon.charsList bs ++ [']']
  | .enum n syms => kwName ++ n.toList ++ kwEnum ++ symsChars syms ++ [']', '}']
  | .fixed n size => kwName ++ n.toList ++ kwFixed ++ Nat.toDigits 10 size ++ ['}']
  | .record n fs => kwName ++ n.toList ++ kwRecord ++ Canon.charsFields fs ++ [']', '}']

def Canon.charsList : List Canon → List Char
  | [] => []
  | c :: cs => c.chars ++ Canon.charsTail cs

def Canon.charsTail : List Canon → List Char
  | [] => []
  | c :: cs => ',' :: c.chars ++ Canon.charsTail cs

def Canon.charsFields : List (String × Canon) → List Char
  | [] => []
  | (f, c) :: fs => kwName ++ f.toList ++ kwFieldType ++ c.chars ++ '}' :: Canon.charsFieldsTail fs

def Canon.charsFieldsTail : List (String × Canon) → List Char
  | [] => []
  | (f, c) :: fs =>
    ',' :: kwName ++ f.toList ++ kwFieldType ++ c.chars ++ '}' :: Canon.charsFieldsTail fs

end

/-- The text of a canonical structure. -/
def Canon.text (c : Canon) : String := String.ofList c.chars

theorem printTail_strs (syms : List String) :
    (printTail (syms.map Json.str)).toList = symsCharsTail syms := by
  induction syms with
  | nil => simp [printTail, symsCharsTail]
  | cons s ss ih => simp [printTail, print, symsCharsTail, ih]

theorem printList_strs (syms : List String) :
    (printList (syms.map Json.str)).toList = symsChars syms := by
  cases syms with
  | nil => simp [printList, symsChars]
  | cons s ss => simp [printList, print, symsChars, printTail_strs]


mutual

theorem print_toJson_chars : (c : Canon) → (print c.toJson).toList = c.chars
  | .prim p => by simp [Canon.toJson, print, Canon.chars]
  | .ref n => by simp [Canon.toJson, print, Canon.chars]
  | .array i => by
    simp [Canon.toJson, print, printMembers, printMembersTail, Canon.chars, kwArray,
      print_toJson_chars i]
  | .map v => by
    simp [Canon.toJson, print, printMembers, printMembersTail, Canon.chars, kwMap,
      print_toJson_chars v]
  | .union bs => by
    simp [Canon.toJson, print, Canon.chars, printList_toJson_chars bs]
  | .enum n syms => by
    simp [Canon.toJson, print, printMembers, printMembersTail, Canon.chars, kwName, kwEnum,
      printList_strs]
  | .fixed n size => by
    simp [Canon.toJson, print, printMembers, printMembersTail, Canon.chars, kwName, kwFixed]
  | .record n fs => by
    simp [Canon.toJson, print, printMembers, printMembersTail, Canon.chars, kwName, kwRecord,
      printList_toJsonFields_chars fs]

theorem printList_toJson_chars :
    (cs : List Canon) → (printList (Canon.toJsonList cs)).toList = Canon.charsList cs
  | [] => by simp [Canon.toJsonList, printList, Canon.charsList]
  | c :: cs => by
    simp [Canon.toJsonList, printList, Canon.charsList, print_toJson_chars c,
      printTail_toJson_chars cs]

theorem printTail_toJson_chars :
    (cs : List Canon) → (printTail (Canon.toJsonList cs)).toList = Canon.charsTail cs
  | [] => by simp [Canon.toJsonList, printTail, Canon.charsTail]
  | c :: cs => by
    simp [Canon.toJsonList, printTail, Canon.charsTail, print_toJson_chars c,
      printTail_toJson_chars cs]

theorem printList_toJsonFields_chars :
    (fs : List (String × Canon)) →
      (printList (Canon.toJsonFields fs)).toList = Canon.charsFields fs
  | [] => by simp [Canon.toJsonFields, printList, Canon.charsFields]
  | (f, c) :: fs => by
    simp [Canon.toJsonFields, printList, print, printMembers, printMembersTail, Canon.charsFields,
      kwName, kwFieldType, print_toJson_chars c, printTail_toJsonFields_chars fs]

theorem printTail_toJsonFields_chars :
    (fs : List (String × Canon)) →
      (printTail (Canon.toJsonFields fs)).toList = Canon.charsFieldsTail fs
  | [] => by simp [Canon.toJsonFields, printTail, Canon.charsFieldsTail]
  | (f, c) :: fs => by
    simp [Canon.toJsonFields, printTail, print, printMembers, printMembersTail,
      Canon.charsFieldsTail, kwName, kwFieldType, print_toJson_chars c,
      printTail_toJsonFields_chars fs]

end

/-- `print` of the JSON tree of a structure is the text of the structure. -/
theorem print_toJson (c : Canon) : print c.toJson = c.text := by
  rw [Canon.text, ← print_toJson_chars c, String.ofList_toList]

theorem Canon.toList_text (c : Canon) : c.text.toList = c.chars := by
  simp [Canon.text]

/-- The specification's transformation, as text, is the text of the canonical structure. -/
theorem parsingCanonicalForm_eq (j : Json) :
    parsingCanonicalForm j = (canonOf j).map Canon.text := by
  simp only [parsingCanonicalForm, canonOf, canon_factors, Option.map_map]
  congr 1
  funext c
  exact print_toJson c

end Avro.Spec.Pcf
