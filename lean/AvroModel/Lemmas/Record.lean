import AvroModel.Lemmas.SerPool
/-
The record reordering machine (`fieldIdx`, `recordValue`, `flushBuffered`): its invariant for
field values that serialize to fixed byte strings.  Used by C13.
-/
namespace Avro.Theorems
open Avro Avro.Impl

/-- Weak form of the invariant (what holds when the flush loop is entered): the writer holds the
    encodings of fields `0 .. current-1` in schema order, every occupied slot is at or after
    `current`, belongs to a field, and holds exactly that field's encoding. -/
def RecInvW (fields : List (String × Nat)) (enc : Nat → Bytes) (base : Bytes)
    (rs : RecordState) (s : SerState) : Prop :=
  s.out = base ++ (List.range rs.current).flatMap enc ∧
  (∀ i b, rs.buffers.slots[i]? = some (some b) →
    i ≥ rs.current ∧ i < fields.length ∧ b.data = enc i) ∧
  rs.current ≤ fields.length

/-- The invariant between two `serialize_field` calls: as `RecInvW`, and the slot of the field
    waited for is empty (occupied slots are strictly after `current`). -/
def RecInv (fields : List (String × Nat)) (enc : Nat → Bytes) (base : Bytes)
    (rs : RecordState) (s : SerState) : Prop :=
  s.out = base ++ (List.range rs.current).flatMap enc ∧
  (∀ i b, rs.buffers.slots[i]? = some (some b) →
    i > rs.current ∧ i < fields.length ∧ b.data = enc i) ∧
  rs.current ≤ fields.length

theorem RecInv.weak {fields enc base rs s} (h : RecInv fields enc base rs s) :
    RecInvW fields enc base rs s :=
  ⟨h.1, fun i b hb => ⟨Nat.le_of_lt (h.2.1 i b hb).1, (h.2.1 i b hb).2⟩, h.2.2⟩

theorem writeAll_unlimited (bs : Bytes) (s : SerState) (hb : s.budget = none) :
    writeAll bs s = (.ok (), { s with out := s.out ++ bs }) := by
  unfold writeAll; rw [hb]

theorem range_succ_flatMap (enc : Nat → Bytes) (n : Nat) :
    (List.range (n + 1)).flatMap enc = (List.range n).flatMap enc ++ enc n := by
  simp [List.range_succ, List.flatMap_append]

/-- The flush loop, entered with the weak invariant, unlimited budget and enough fuel, succeeds
    and re-establishes the strong invariant. -/
theorem flushBuffered_inv (fields : List (String × Nat)) (enc : Nat → Bytes) (base : Bytes) :
    ∀ (fuel : Nat) (rs : RecordState) (s : SerState), s.budget = none →
      rs.buffers.slots.length ≤ fuel + rs.current → RecInvW fields enc base rs s →
      ∃ rs' s', flushBuffered fuel rs s = (.ok rs', s') ∧ s'.budget = none ∧
        RecInv fields enc base rs' s' ∧ rs.current ≤ rs'.current := by
  intro fuel
  induction fuel with
  | zero =>
    intro rs s hb hfuel hinv
    refine ⟨rs, s, rfl, hb, ⟨hinv.1, fun i b hib => ?_, hinv.2.2⟩, Nat.le_refl _⟩
    have := hinv.2.1 i b hib
    have hlt : i < rs.buffers.slots.length := (List.getElem?_eq_some_iff.mp hib).1
    omega
  | succ fuel ih =>
    intro rs s hb hfuel hinv
    unfold flushBuffered
    split
    · rename_i b hb'
      dsimp only
      rw [writeAll_unlimited _ _ hb]
      dsimp only [pushBuffer]
      have hcur := hinv.2.1 _ b hb'
      obtain ⟨rs', s', h1, h2, h3, h4⟩ := ih
        { current := rs.current + 1,
          buffers := { rs.buffers with slots := rs.buffers.slots.set rs.current none } }
        { s with out := s.out ++ b.data,
                 pool := { s.pool with buffers := { b with data := [] } :: s.pool.buffers } }
        hb (by simp; omega)
        ⟨by simp only [hinv.1, hcur.2.2, range_succ_flatMap, List.append_assoc], fun i b' hib' => by
          simp only [List.getElem?_set] at hib'
          split at hib'
          · split at hib' <;> cases hib'
          · have := hinv.2.1 i b' hib'
            exact ⟨by simp only; omega, this.2⟩, by simp only; omega⟩
      exact ⟨rs', s', h1, h2, h3, by simp only at h4; omega⟩
    · rename_i hnot
      refine ⟨rs, s, rfl, hb, ⟨hinv.1, fun i b hib => ?_, hinv.2.2⟩, Nat.le_refl _⟩
      have := hinv.2.1 i b hib
      refine ⟨?_, this.2⟩
      rcases Nat.lt_or_ge rs.current i with h | h
      · exact h
      · have : i = rs.current := by omega
        subst this
        exact (hnot b hib).elim

theorem listResize_getElem? {α} (l : List α) (n : Nat) (a : α) (h : l.length ≤ n) (i : Nat) :
    (listResize l n a)[i]? = if i < l.length then l[i]? else if i < n then some a else none := by
  unfold listResize
  split
  · have : l.length = n := by omega
    subst this
    simp only [List.take_length]
    split
    · rfl
    · exact List.getElem?_eq_none (by omega)
  · rw [List.getElem?_append]
    split
    · rfl
    · simp only [List.getElem?_replicate]
      split
      · rw [if_pos (by omega)]
      · rw [if_neg (by omega)]

theorem listResize_length {α} (l : List α) (n : Nat) (a : α) (h : l.length ≤ n) :
    (listResize l n a).length = n := by
  unfold listResize
  split
  · simp; omega
  · simp; omega

/-- Slots after the `resize` of `recordValue`: occupied slots are the same. -/
theorem resizedSlots_some (slots : List (Option Buffer)) (idx i : Nat) (b : Buffer) :
    (if slots.length ≤ idx then listResize slots (idx + 1) none else slots)[i]? = some (some b) ↔
      slots[i]? = some (some b) := by
  split
  · rename_i h
    rw [listResize_getElem? _ _ _ (by omega)]
    split
    · rfl
    · rename_i h'
      have : slots[i]? = none := List.getElem?_eq_none (by omega)
      rw [this]
      split <;> simp
  · rfl

theorem resizedSlots_length (slots : List (Option Buffer)) (idx : Nat) :
    idx < (if slots.length ≤ idx then listResize slots (idx + 1) none else slots).length := by
  split
  · rw [listResize_length _ _ _ (by omega)]; omega
  · omega

/-- Field `i` has been presented: already written, or waiting in its slot. -/
def RecDone (rs : RecordState) (i : Nat) : Prop :=
  i < rs.current ∨ ∃ b, rs.buffers.slots[i]? = some (some b)

theorem flushBuffered_done : ∀ (fuel : Nat) (rs : RecordState) (s : SerState) (rs' : RecordState),
    (flushBuffered fuel rs s).1 = .ok rs' → ∀ i, RecDone rs i → RecDone rs' i := by
  intro fuel
  induction fuel with
  | zero => intro rs s rs' h i hd; simp [flushBuffered] at h; subst h; exact hd
  | succ fuel ih =>
    intro rs s rs' h i hd
    unfold flushBuffered at h
    split at h
    · dsimp only at h
      split at h
      · simp at h
      · refine ih _ _ _ h i ?_
        rcases hd with hd | ⟨b, hb⟩
        · left; simp only; omega
        · by_cases hi : i = rs.current
          · left; simp only; omega
          · right; exact ⟨b, by simp only [List.getElem?_set]; rw [if_neg (by omega)]; exact hb⟩
    · simp at h; subst h; exact hd

theorem popBuffer_ok {s s1 : SerState} {buf : Buffer} (h : popBuffer s = (.ok buf, s1)) :
    buf.data = [] ∧ s1.out = s.out ∧ s1.budget = s.budget := by
  unfold popBuffer at h
  split at h
  · simp only [Prod.mk.injEq, Except.ok.injEq] at h
    obtain ⟨h1, h2⟩ := h; subst h1 h2; exact ⟨rfl, rfl, rfl⟩
  · split at h
    · simp at h
    · rename_i hb
      simp only [Prod.mk.injEq, Except.ok.injEq] at h
      obtain ⟨h1, h2⟩ := h; subst h1 h2
      exact ⟨by simpa using hb, rfl, rfl⟩

/-- One `serialize_field` of the reordering machine preserves the invariant, when the value
    serializer appends exactly `enc idx` to an unlimited writer whose pool satisfies `C`
    (any predicate kept by `popBuffer`). -/
theorem recordValue_inv_gen (C : Pool → Prop)
    (hpop : ∀ s buf s1, popBuffer s = (.ok buf, s1) → C s.pool → C s1.pool)
    (fields : List (String × Nat)) (enc : Nat → Bytes) (base : Bytes)
    (S : Schema) (rs : RecordState) (idx : Nat) (serv : Node → SerM Unit) (s : SerState)
    (rs' : RecordState) (s' : SerState)
    (hb : s.budget = none) (hc : C s.pool) (hidx : rs.current ≤ idx)
    (hserv : ∀ f node s, fields[idx]? = some f → S[f.2]? = some node → s.budget = none → C s.pool →
      ∃ s', serv node s = (.ok (), s') ∧ s'.out = s.out ++ enc idx ∧ s'.budget = none)
    (hinv : RecInv fields enc base rs s)
    (hok : recordValue S fields rs idx serv s = (.ok rs', s')) :
    RecInv fields enc base rs' s' ∧ s'.budget = none ∧
      (∀ i, RecDone rs i ∨ i = idx → RecDone rs' i) := by
  unfold recordValue at hok
  split at hok
  · simp at hok
  · rename_i f hf
    have hlt : idx < fields.length := (List.getElem?_eq_some_iff.mp hf).1
    split at hok
    · simp at hok
    · rename_i node hnode
      split at hok
      · rename_i hcur
        obtain ⟨s1, h1, h2, h3⟩ := hserv f node s hf hnode hb hc
        rw [h1] at hok
        dsimp only at hok
        obtain ⟨rs2, s2, g1, g2, g3, g4⟩ := flushBuffered_inv fields enc base rs.buffers.slots.length
          { rs with current := rs.current + 1 } s1 h3 (by simp only; omega)
          ⟨by simp only [h2, hinv.1, range_succ_flatMap, List.append_assoc, hcur],
           fun i b hib => by have := hinv.2.1 i b hib; exact ⟨by simp only; omega, this.2⟩,
           by simp only; omega⟩
        have hd := flushBuffered_done rs.buffers.slots.length { rs with current := rs.current + 1 } s1 rs2
          (by rw [g1])
        rw [g1] at hok
        simp only [Prod.mk.injEq, Except.ok.injEq] at hok
        obtain ⟨e1, e2⟩ := hok; subst e1 e2
        refine ⟨g3, g2, fun i hi => hd i ?_⟩
        rcases hi with (hi | ⟨b, hb⟩) | hi
        · left; simp only; omega
        · right; exact ⟨b, hb⟩
        · left; simp only; omega
      · rename_i hcur
        dsimp only at hok
        split at hok
        · simp at hok
        · rename_i hfree
          split at hok
          · simp at hok
          · rename_i buf s1 hpop'
            obtain ⟨p1, p2, p3⟩ := popBuffer_ok hpop'
            unfold intoBuffer at hok
            obtain ⟨s2, h1, h2, h3⟩ := hserv f node { s1 with out := buf.data, budget := none }
              hf hnode rfl (hpop s buf s1 hpop' hc)
            rw [h1] at hok
            simp only [Prod.mk.injEq, Except.ok.injEq] at hok
            obtain ⟨e1, e2⟩ := hok; subst e1 e2
            have hlen := resizedSlots_length rs.buffers.slots idx
            refine ⟨⟨by simp only [p2, hinv.1], fun i b hib => ?_, hinv.2.2⟩, by simp only [p3, hb],
              fun i hi => ?_⟩
            · simp only [List.getElem?_set] at hib
              split at hib
              · rename_i hi; subst hi
                simp only [Option.some.injEq] at hib; subst hib
                exact ⟨by simp only; omega, hlt, by simp only [h2, p1, List.nil_append]⟩
              · exact hinv.2.1 i b ((resizedSlots_some _ _ _ _).mp hib)
            · by_cases hi' : i = idx
              · subst hi'
                right
                exact ⟨_, by simp only [List.getElem?_set, if_true, if_pos hlen]; rfl⟩
              · rcases hi with (hi | ⟨b, hb'⟩) | hi
                · left; exact hi
                · right
                  exact ⟨b, by
                    simp only [List.getElem?_set]
                    rw [if_neg (by omega)]
                    exact (resizedSlots_some _ _ _ _).mpr hb'⟩
                · exact (hi' hi).elim

/-- `recordValue_inv_gen` without a condition on the pool. -/
theorem recordValue_inv (fields : List (String × Nat)) (enc : Nat → Bytes) (base : Bytes)
    (S : Schema) (rs : RecordState) (idx : Nat) (serv : Node → SerM Unit) (s : SerState)
    (rs' : RecordState) (s' : SerState)
    (hb : s.budget = none) (hidx : rs.current ≤ idx)
    (hserv : ∀ node s, s.budget = none →
      ∃ s', serv node s = (.ok (), s') ∧ s'.out = s.out ++ enc idx ∧ s'.budget = none)
    (hinv : RecInv fields enc base rs s)
    (hok : recordValue S fields rs idx serv s = (.ok rs', s')) :
    RecInv fields enc base rs' s' ∧ s'.budget = none ∧
      (∀ i, RecDone rs i ∨ i = idx → RecDone rs' i) :=
  recordValue_inv_gen (fun _ => True) (fun _ _ _ _ _ => trivial) fields enc base S rs idx serv s
    rs' s' hb trivial hidx (fun _ node s _ _ hb _ => hserv node s hb) hinv hok

end Avro.Theorems
