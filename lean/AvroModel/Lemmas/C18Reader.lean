import AvroModel.Impl.Single
import AvroModel.Lemmas.ReaderTransfer
/-
Helpers for `Theorems/C18reader.lean`: the header `read_exact` of `from_single_object_reader` on
the streaming back-end.

  * `readExact_err_io`   the only error `read_exact` produces is the I/O one (end of input);
  * `Frame`, `readExact_frame`   what `read_exact` leaves alone in the reader state (`scratch`,
                         `lastChunk`), and the refill schedule only advances;
  * `fromSingleObject_reader_spec`   the reader branch of `fromSingleObject` as a function of the
                         remaining bytes, for ANY refill schedule;
  * `fromSingleObject_rel`   C11 for the single-object entry point: related datum readers give
                         related single-object readers (`RelD`).
-/
namespace Avro.Theorems
open Avro Avro.Impl

universe u

/-! ### `read_exact` fails only with the I/O error -/

theorem readExactR_err_io (fuel : Nat) : ∀ (k : Nat) (acc : Bytes) (s : RState), s.WF →
    ∀ e s', readExactR fuel k acc s = (.error e, s') → e = .io := by
  induction fuel with
  | zero =>
    intro k acc s _ e s' h
    cases k with
    | zero => simp [readExactR, pure] at h
    | succ k => simp only [readExactR, DeM.fail, Prod.mk.injEq, Except.error.injEq] at h; exact h.1.symm
  | succ fuel ih =>
    intro k acc s hw e s' h
    cases k with
    | zero => simp [readExactR, pure] at h
    | succ k =>
      obtain ⟨m, s1, hrs, _, _, _, hadv⟩ := readSome_spec (k + 1) s hw
      simp only [readExactR, bind, hrs] at h
      split at h
      · simp only [DeM.fail, Prod.mk.injEq, Except.error.injEq] at h; exact h.1.symm
      · exact ih _ _ s1 hadv.wf e s' h

theorem readExact_err_io (k : Nat) (s : RState) (hw : s.WF) (e : DeErr) (s' : RState)
    (h : readExact k s = (.error e, s')) : e = .io :=
  readExactR_err_io k k [] s hw e s' h

/-! ### What `read_exact` leaves alone -/

/-- `s'` differs from `s` at most in `rest`, `avail`, `limit`, and its refill schedule is what is
    left of that of `s`. -/
structure Frame (s s' : RState) : Prop where
  scratch : s'.scratch = s.scratch
  lastChunk : s'.lastChunk = s.lastChunk
  sched : s'.sched <:+ s.sched

theorem Frame.refl (s : RState) : Frame s s := ⟨rfl, rfl, List.suffix_refl _⟩

theorem Frame.trans {s s' s'' : RState} (h1 : Frame s s') (h2 : Frame s' s'') : Frame s s'' :=
  ⟨h2.scratch.trans h1.scratch, h2.lastChunk.trans h1.lastChunk, h2.sched.trans h1.sched⟩

theorem fillBuf_frame (s : RState) : Frame s (fillBuf s).2 := by
  unfold fillBuf
  split
  · exact Frame.refl s
  · split
    · exact Frame.refl s
    · cases hsc : s.sched with
      | nil => exact ⟨rfl, rfl, by simp [hsc]⟩
      | cons c r => exact ⟨rfl, rfl, by simp [hsc]⟩

theorem readSome_frame (k : Nat) (s : RState) : Frame s (readSome k s).2 := by
  rw [readSome_eq]
  split
  · exact Frame.refl s
  · have hf := fillBuf_frame s
    rcases hfb : fillBuf s with ⟨(e | buf), s1⟩ <;> rw [hfb] at hf
    · exact hf
    · exact ⟨hf.scratch, hf.lastChunk, hf.sched⟩

theorem readExactR_frame (fuel : Nat) : ∀ (k : Nat) (acc : Bytes) (s : RState),
    Frame s (readExactR fuel k acc s).2 := by
  induction fuel with
  | zero =>
    intro k acc s
    cases k <;> exact Frame.refl s
  | succ fuel ih =>
    intro k acc s
    cases k with
    | zero => exact Frame.refl s
    | succ k =>
      have hf := readSome_frame (k + 1) s
      simp only [readExactR, bind]
      rcases hrs : readSome (k + 1) s with ⟨(e | got), s1⟩ <;> rw [hrs] at hf
      · exact hf
      · dsimp only
        split
        · exact hf
        · exact hf.trans (ih _ _ s1)

theorem readExact_frame (k : Nat) (s : RState) : Frame s (readExact k s).2 :=
  readExactR_frame k k [] s

/-! ### The reader branch of `fromSingleObject` -/

/-- `read_exact` on a well-formed state, with the error class and the frame. -/
theorem readExact_spec_io (k : Nat) (s : RState) (h : s.WF) :
    (k ≤ s.eff → ∃ s', readExact k s = (.ok (s.rest.take k), s') ∧ Adv k s s' ∧ Frame s s') ∧
    (s.eff < k → ∃ s', readExact k s = (.error .io, s') ∧ Frame s s') := by
  have hsp := readExact_spec k s h
  have hfr := readExact_frame k s
  constructor
  · intro hk
    obtain ⟨s', e, a⟩ := hsp.1 hk
    rw [e] at hfr
    exact ⟨s', e, a, hfr⟩
  · intro hk
    obtain ⟨e, s', he⟩ := hsp.2 hk
    have := readExact_err_io k s h e s' he
    subst this
    rw [he] at hfr
    exact ⟨s', he, hfr⟩

/-- **The reader branch of `fromSingleObject`, for any refill schedule**: with fewer than 10
    readable bytes the I/O error, before `datum` is looked at; otherwise there is ONE state `r'`
    (`r` advanced by 10 bytes: it depends on the schedule, not on `fp` or `datum`) such that the
    result is the header-mismatch error at `r'`, or `datum` run at `r'`. -/
theorem fromSingleObject_reader_spec (r : RState) (hs : r.isSlice = false)
    (hw : r.avail ≤ r.rest.length) :
    (r.eff < 10 → ∃ r', Frame r r' ∧ ∀ (α : Type u) (fp : Bytes)
        (datum : RState → Except DeErr α × RState),
        fromSingleObject fp datum r = (.error .io, r')) ∧
    (10 ≤ r.eff → ∃ r', Adv 10 r r' ∧ Frame r r' ∧ ∀ (α : Type u) (fp : Bytes)
        (datum : RState → Except DeErr α × RState),
        fromSingleObject fp datum r =
          if checkHeader fp (r.rest.take 10) then datum r' else (.error .custom, r')) := by
  have hsp := readExact_spec_io 10 r (fun _ => hw)
  constructor
  · intro hk
    obtain ⟨r', e, hf⟩ := hsp.2 hk
    refine ⟨r', hf, fun α fp datum => ?_⟩
    unfold fromSingleObject
    simp [hs, e]
  · intro hk
    obtain ⟨r', e, a, hf⟩ := hsp.1 hk
    refine ⟨r', a, hf, fun α fp datum => ?_⟩
    unfold fromSingleObject
    cases hc : checkHeader fp (r.rest.take 10) <;> simp [hs, e, hc]

/-! ### C11 for the single-object entry point -/

/-- Related datum readers give related single-object readers: from a reader state and a slice
    state over the same bytes, `fromSingleObject` fails on both, or succeeds on both with related
    values and again related states. -/
theorem fromSingleObject_rel {α β : Type} {R : α → β → Prop} {q : Bool} (fp : Bytes)
    {m : DeM α} {m' : DeM β} (h : RelD true q R m m') :
    RelD true q R (fromSingleObject fp m) (fromSingleObject fp m') := by
  intro r sl hsim
  have hlim : r.limit = none := hsim.nolimit rfl
  have heff : r.eff = r.rest.length := eff_of_limit_none hlim
  have hsp := fromSingleObject_reader_spec r hsim.sim.reader hsim.sim.avail
  have hrest : sl.rest = r.rest := hsim.sim.rest.symm
  by_cases hk : 10 ≤ r.rest.length
  · obtain ⟨r', a, _, e⟩ := hsp.2 (by omega)
    rw [e α fp m]
    have hsl : fromSingleObject fp m' sl =
        if checkHeader fp (r.rest.take 10) then m' { sl with rest := sl.rest.drop 10 }
        else (.error .custom, sl) := by
      unfold fromSingleObject
      have : ¬ r.rest.length < 10 := by omega
      cases hc : checkHeader fp (r.rest.take 10) <;> simp [hsim.sim.slice, this, hrest, hc]
    rw [hsl]
    cases hc : checkHeader fp (r.rest.take 10)
    · simp only [Bool.false_eq_true, if_false]; trivial
    · simp only [if_true]
      apply h
      refine ⟨⟨a.isSlice.trans hsim.sim.reader, hsim.sim.slice, ?_, a.wf (a.isSlice.trans hsim.sim.reader), ?_⟩, ?_, ?_⟩
      · simp [a.rest, hrest]
      · rw [a.limit, hlim, ← hsim.sim.limit, hlim]; rfl
      · rw [a.length, a.maxAlloc]; have := hsim.alloc; omega
      · intro _; rw [a.limit, hlim]; rfl
  · obtain ⟨r', _, e⟩ := hsp.1 (by omega)
    rw [e α fp m]
    have hsl : fromSingleObject fp m' sl = (.error .custom, sl) := by
      unfold fromSingleObject
      have : r.rest.length < 10 := by omega
      simp [hsim.sim.slice, hrest, this]
    rw [hsl]
    trivial

end Avro.Theorems
