import AvroModel.Lemmas.DeriveRealizes
/-
C20, more.  Part 2: generic records in `C20_fits`.

The builder-side development of `Lemmas/DeriveBuild.lean` / `Lemmas/DeriveRealizes.lean`, redone
for the fragment `FitWfG`: `FitWf` plus generic record declarations (`nparams > 0`) instantiated
with closed argument types of the fragment, fields of type `.param i` (also below
`Vec`/`Option`/maps/pointers).  The relation `Realizes` and the serializer side (`fits_all`) already
carry the arguments through `subst` and are reused unchanged.

New ingredients: the token lists produced by `lookupKey` are prefix codes (`Coded`), so that the
key of a generic instantiation determines the keys of its field types; substitution lemmas.
-/
namespace Avro.Theorems.DeriveG
open Avro Avro.Impl Avro.Impl.Derive Avro.Theorems.DeriveFits

/-! ### Keys are prefix codes -/

/-- Number of codes that follow the token in the code it starts. -/
def arity : KTok → Nat
  | .vec | .option | .map => 1
  | .generic _ m => m
  | _ => 0

/-- `Coded n k`: the token list `k` is the concatenation of `n` codes. -/
inductive Coded : Nat → Key → Prop
  | nil : Coded 0 []
  | cons (tok : KTok) (n : Nat) (rest : Key) : Coded (arity tok + n) rest → Coded (n + 1) (tok :: rest)

theorem Coded.append {n m : Nat} {a b : Key} (ha : Coded n a) (hb : Coded m b) : Coded (n + m) (a ++ b) := by
  induction ha with
  | nil => simpa using hb
  | cons tok n rest _ ih =>
    have : n + 1 + m = (n + m) + 1 := by omega
    rw [this]
    refine Coded.cons tok (n + m) (rest ++ b) ?_
    rw [← Nat.add_assoc]
    exact ih

theorem Coded.unique : ∀ (a : Key) (n : Nat) (b x y : Key), Coded n a → Coded n b → a ++ x = b ++ y →
    a = b ∧ x = y
  | [], n, b, x, y, ha, hb, h => by
    cases ha
    cases hb
    exact ⟨rfl, by simpa using h⟩
  | tok :: a', n, b, x, y, ha, hb, h => by
    cases ha with
    | cons _ n' _ ha' =>
      cases hb with
      | cons tok' _ b' hb' =>
        simp only [List.cons_append, List.cons.injEq] at h
        obtain ⟨rfl, h⟩ := h
        obtain ⟨h1, h2⟩ := Coded.unique a' _ b' x y ha' hb' h
        exact ⟨by rw [h1], h2⟩

theorem lookupKey_coded (P : Prog) : ∀ F,
    (∀ t k, lookupKey P F t = some k → Coded 1 k) ∧
    (∀ ts k, lookupKeys P F ts = some k → Coded ts.length k) := by
  intro F
  induction F with
  | zero =>
    refine ⟨fun t k h => (by rw [lookupKey_zero] at h; cases h), fun ts k h => ?_⟩
    cases ts with
    | nil => simp only [lookupKeys, Option.some.injEq] at h; subst h; exact Coded.nil
    | cons t ts => simp [lookupKeys] at h
  | succ F ih =>
    obtain ⟨ih1, ih2⟩ := ih
    have leaf : ∀ tok, arity tok = 0 → Coded 1 [tok] := fun tok h =>
      Coded.cons tok 0 [] (by rw [h]; exact Coded.nil)
    have hmap : ∀ (t : Ty) (tok : KTok) (k : Key), arity tok = 1 →
        (lookupKey P F t).map (tok :: ·) = some k → Coded 1 k := by
      intro t tok k har h
      cases h1 : lookupKey P F t with
      | none => rw [h1] at h; cases h
      | some k' =>
        rw [h1] at h
        simp only [Option.map_some, Option.some.injEq] at h
        subst h
        exact Coded.cons tok 0 k' (by rw [har]; exact ih1 t k' h1)
    have hmaps : ∀ (ts : List Ty) (id m : Nat) (k : Key), ts.length = m →
        (lookupKeys P F ts).map (KTok.generic id m :: ·) = some k → Coded 1 k := by
      intro ts id m k hm h
      cases h1 : lookupKeys P F ts with
      | none => rw [h1] at h; cases h
      | some k' =>
        rw [h1] at h
        simp only [Option.map_some, Option.some.injEq] at h
        subst h
        exact Coded.cons _ 0 k' (by simpa [arity, hm] using ih2 ts k' h1)
    constructor
    · intro t k h
      unfold lookupKey at h
      cases t with
      | vec t => exact hmap _ _ _ rfl h
      | option t => exact hmap _ _ _ rfl h
      | hashMap t => exact hmap _ _ _ rfl h
      | btreeMap t => exact hmap _ _ _ rfl h
      | ptr t => exact ih1 _ _ h
      | param i => cases h
      | named id args =>
        dsimp only at h
        cases hd : P[id]? with
        | none => rw [hd] at h; cases h
        | some d =>
          rw [hd] at h
          dsimp only at h
          cases hb : d.body with
          | unitEnum vs => rw [hb] at h; cases h; exact leaf _ rfl
          | newtype fd =>
            rw [hb] at h
            dsimp only at h
            split at h
            · exact ih1 _ _ h
            · split at h
              · cases h; exact leaf _ rfl
              · exact hmaps _ _ _ _ rfl h
          | record fs =>
            rw [hb] at h
            dsimp only at h
            split at h
            · cases h; exact leaf _ rfl
            · exact hmaps _ _ _ _ (by simp [Body.lookupFields]) h
          | union vs =>
            rw [hb] at h
            dsimp only at h
            split at h
            · cases h; exact leaf _ rfl
            · exact hmaps _ _ _ _ (by simp) h
      | _ => cases h; exact leaf _ rfl
    · intro ts k h
      cases ts with
      | nil => simp only [lookupKeys, Option.some.injEq] at h; subst h; exact Coded.nil
      | cons t ts =>
        rw [lookupKeys] at h
        cases h1 : lookupKey P F t with
        | none => rw [h1] at h; simp at h
        | some a =>
          cases h2 : lookupKeys P F ts with
          | none => rw [h1, h2] at h; simp at h
          | some b =>
            rw [h1, h2] at h
            simp only [Option.some.injEq] at h
            subst h
            have := (ih1 t a h1).append (ih2 ts b h2)
            simpa [Nat.add_comm] using this

theorem _root_.Avro.Theorems.DeriveFits.KeyOf.coded {P : Prog} {t : Ty} {k : Key} (h : KeyOf P t k) : Coded 1 k := by
  obtain ⟨F, h⟩ := h
  exact (lookupKey_coded P F).1 t k h

/-- The key of a list of types is the concatenation of the keys of the types. -/
theorem lookupKeys_split (P : Prog) : ∀ (ts : List Ty) (F : Nat) (k : Key), lookupKeys P F ts = some k →
    ∃ cks : List Key, k = cks.flatten ∧ cks.length = ts.length ∧
      ∀ (j : Nat) (t : Ty) (ck : Key), ts[j]? = some t → cks[j]? = some ck → KeyOf P t ck
  | [], F, k, h => by
    cases F <;> simp only [lookupKeys, Option.some.injEq] at h <;> subst h <;>
      exact ⟨[], rfl, rfl, fun j t ck hj => by simp at hj⟩
  | t :: ts, 0, k, h => by simp [lookupKeys] at h
  | t :: ts, F + 1, k, h => by
    rw [lookupKeys] at h
    cases h1 : lookupKey P F t with
    | none => rw [h1] at h; simp at h
    | some a =>
      cases h2 : lookupKeys P F ts with
      | none => rw [h1, h2] at h; simp at h
      | some b =>
        rw [h1, h2] at h
        simp only [Option.some.injEq] at h
        subst h
        obtain ⟨cks, rfl, hlen, hall⟩ := lookupKeys_split P ts F b h2
        refine ⟨a :: cks, by simp, by simp [hlen], fun j t' ck hj hc => ?_⟩
        cases j with
        | zero =>
          simp only [List.getElem?_cons_zero, Option.some.injEq] at hj hc
          subst hj hc
          exact ⟨F, h1⟩
        | succ j =>
          simp only [List.getElem?_cons_succ] at hj hc
          exact hall j t' ck hj hc

/-- A concatenation of codes splits in one way only. -/
theorem flatten_unique : ∀ (cks cks' : List Key), (∀ ck ∈ cks, Coded 1 ck) → (∀ ck ∈ cks', Coded 1 ck) →
    cks.length = cks'.length → cks.flatten = cks'.flatten → cks = cks'
  | [], [], _, _, _, _ => rfl
  | [], _ :: _, _, _, h, _ => by simp at h
  | _ :: _, [], _, _, h, _ => by simp at h
  | a :: as, b :: bs, ha, hb, hlen, h => by
    simp only [List.flatten_cons] at h
    obtain ⟨h1, h2⟩ := Coded.unique a 1 b _ _ (ha a (by simp)) (hb b (by simp)) h
    rw [h1, flatten_unique as bs (fun ck hck => ha ck (by simp [hck])) (fun ck hck => hb ck (by simp [hck]))
      (by simpa using hlen) h2]

/-! ### The fragment with generic records -/

/-- A generic record declaration. -/
def isGenRec (d : Decl) : Bool :=
  decide (d.nparams ≠ 0) && (match d.body with | .record _ => true | _ => false)

/-- As `nonOpt`; a record is plain whatever its arguments. -/
def nonOptG (P : Prog) : Nat → Ty → Bool
  | 0, _ => false
  | n + 1, t =>
    match Derive.peel t with
    | .unit | .option _ | .param _ | .ptr _ => false
    | .named id args =>
      match P[id]? with
      | none => false
      | some d =>
        match d.body with
        | .newtype fd =>
          args.isEmpty && fd.attr.logical.isNone &&
            (if isDirect fd .newtypeStruct then nonOptG P n fd.ty else decide (d.nparams = 0))
        | .record _ | .unitEnum _ => true
        | .union _ => false
    | _ => true

mutual
/-- Type expressions of the fragment with `n` type parameters in scope (`n = 0`: closed types).
    A generic record takes as many arguments as it has parameters, other declarations none;
    `Option<T>` needs `T` plain whatever the parameters are instantiated with (so not a bare
    parameter). -/
def tyOkG (P : Prog) (n : Nat) : Ty → Bool
  | .vec t => tyOkG P n t
  | .hashMap t => tyOkG P n t
  | .btreeMap t => tyOkG P n t
  | .ptr t => tyOkG P n t
  | .option t => tyOkG P n t && nonOptG P (P.size + 1) t
  | .named id args =>
    (match P[id]? with
      | none => false
      | some d => if isGenRec d then args.length == d.nparams else args.isEmpty) && tysOkG P n args
  | .param i => decide (i < n)
  | _ => true
def tysOkG (P : Prog) (n : Nat) : List Ty → Bool
  | [] => true
  | t :: ts => tyOkG P n t && tysOkG P n ts
end

theorem tysOkG_mem {P : Prog} {n : Nat} : ∀ {ts : List Ty}, tysOkG P n ts = true → ∀ t ∈ ts, tyOkG P n t = true
  | [], _, t, ht => by simp at ht
  | a :: as, h, t, ht => by
    simp only [tysOkG, Bool.and_eq_true] at h
    rcases List.mem_cons.mp ht with rfl | ht
    · exact h.1
    · exact tysOkG_mem h.2 t ht

theorem tysOkG_of_mem {P : Prog} {n : Nat} : ∀ {ts : List Ty}, (∀ t ∈ ts, tyOkG P n t = true) → tysOkG P n ts = true
  | [], _ => rfl
  | a :: as, h => by
    simp only [tysOkG, Bool.and_eq_true]
    exact ⟨h a (by simp), tysOkG_of_mem (fun t ht => h t (by simp [ht]))⟩

theorem substList_length (args : List Ty) : ∀ ts : List Ty, (substList args ts).length = ts.length
  | [] => by rw [substList]
  | t :: ts => by rw [substList]; simp [substList_length args ts]

/-- Leaves are not touched by substitution. -/
theorem subst_leaf {t : Ty} {x : RawNode} (h : leafNode t = some x) (args : List Ty) : subst args t = t := by
  cases t <;> simp only [leafNode, reduceCtorEq] at h <;> simp [subst]

theorem peel_subst (args : List Ty) : ∀ t : Ty,
    Derive.peel (subst args t) = Derive.peel (subst args (Derive.peel t))
  | .ptr t => by
    rw [subst]
    simp only [Derive.peel]
    exact peel_subst args t
  | .unit | .bool | .i8 | .i16 | .i32 | .i64 | .u16 | .u32 | .u64 | .usize | .f32 | .f64 | .string | .str
  | .byteVec | .byteSlice | .byteArray _ | .vec _ | .option _ | .hashMap _ | .btreeMap _ | .named _ _
  | .param _ => by simp [Derive.peel]

theorem nonOptG_subst {P : Prog} (args : List Ty) : ∀ (m : Nat) (t : Ty), nonOptG P m t = true →
    nonOptG P m (subst args t) = true := by
  intro m t h
  cases m with
  | zero => simp [nonOptG] at h
  | succ m =>
    unfold nonOptG at h ⊢
    rw [peel_subst]
    generalize Derive.peel t = u at h
    cases u with
    | unit => simp at h
    | option t => simp at h
    | param i => simp at h
    | ptr t => simp at h
    | named id as =>
      simp only [subst, Derive.peel]
      cases hd : P[id]? with
      | none => simp [hd] at h
      | some d =>
        simp only [hd] at h ⊢
        cases hb : d.body with
        | newtype fd =>
          simp only [hb, Bool.and_eq_true, List.isEmpty_iff] at h ⊢
          obtain ⟨⟨rfl, h1⟩, h2⟩ := h
          exact ⟨⟨by rw [substList], h1⟩, h2⟩
        | record fs => rfl
        | unitEnum vs => rfl
        | union vs => simp [hb] at h
    | _ => simp [subst, Derive.peel]

mutual
theorem tyOkG_subst {P : Prog} {n : Nat} {args : List Ty} (hargs : ∀ a ∈ args, tyOkG P 0 a = true)
    (hlen : args.length = n) : ∀ t : Ty, tyOkG P n t = true → tyOkG P 0 (subst args t) = true
  | .vec t, h => by
    rw [subst, tyOkG]; rw [tyOkG] at h; exact tyOkG_subst hargs hlen t h
  | .hashMap t, h => by
    rw [subst, tyOkG]; rw [tyOkG] at h; exact tyOkG_subst hargs hlen t h
  | .btreeMap t, h => by
    rw [subst, tyOkG]; rw [tyOkG] at h; exact tyOkG_subst hargs hlen t h
  | .ptr t, h => by
    rw [subst, tyOkG]; rw [tyOkG] at h; exact tyOkG_subst hargs hlen t h
  | .option t, h => by
    rw [subst, tyOkG]
    rw [tyOkG] at h
    simp only [Bool.and_eq_true] at h ⊢
    exact ⟨tyOkG_subst hargs hlen t h.1, nonOptG_subst args _ t h.2⟩
  | .named id as, h => by
    rw [subst, tyOkG]
    rw [tyOkG] at h
    simp only [Bool.and_eq_true] at h ⊢
    refine ⟨?_, tysOkG_subst hargs hlen as h.2⟩
    have h1 := h.1
    cases hd : P[id]? with
    | none => simp [hd] at h1
    | some d =>
      simp only [hd] at h1 ⊢
      split
      · rename_i hg; simpa [hg, substList_length] using h1
      · rename_i hg
        simp only [hg, Bool.false_eq_true, if_false, List.isEmpty_iff] at h1
        subst h1
        rw [substList]; rfl
  | .param i, h => by
    rw [tyOkG] at h
    have hi : i < args.length := by rw [hlen]; simpa using h
    rw [subst]
    simp only [List.getElem?_eq_getElem hi, Option.getD_some]
    exact hargs _ (List.getElem_mem hi)
  | .unit, _ | .bool, _ | .i8, _ | .i16, _ | .i32, _ | .i64, _ | .u16, _ | .u32, _ | .u64, _ | .usize, _
  | .f32, _ | .f64, _ | .string, _ | .str, _ | .byteVec, _ | .byteSlice, _ | .byteArray _, _ => by
    simp [subst, tyOkG]
theorem tysOkG_subst {P : Prog} {n : Nat} {args : List Ty} (hargs : ∀ a ∈ args, tyOkG P 0 a = true)
    (hlen : args.length = n) : ∀ ts : List Ty, tysOkG P n ts = true → tysOkG P 0 (substList args ts) = true
  | [], _ => by rw [substList]; rfl
  | t :: ts, h => by
    rw [substList, tysOkG]
    rw [tysOkG] at h
    simp only [Bool.and_eq_true] at h ⊢
    exact ⟨tyOkG_subst hargs hlen t h.1, tysOkG_subst hargs hlen ts h.2⟩
end

theorem tyOkG_peel (P : Prog) (n : Nat) : ∀ {t : Ty}, tyOkG P n t = true → tyOkG P n (Derive.peel t) = true
  | .ptr t, h => by
    have h' : tyOkG P n t = true := by simpa [tyOkG] using h
    exact (tyOkG_peel P n h' : tyOkG P n (Derive.peel t) = true)
  | .unit, h | .bool, h | .i8, h | .i16, h | .i32, h | .i64, h | .u16, h
  | .u32, h | .u64, h | .usize, h | .f32, h | .f64, h | .string, h | .str, h
  | .byteVec, h | .byteSlice, h | .byteArray _, h | .vec _, h | .option _, h
  | .hashMap _, h | .btreeMap _, h | .named _ _, h | .param _, h => by
    simpa [Derive.peel] using h

/-- Pointers in the field type as written are transparent after substitution too. -/
theorem _root_.Avro.Theorems.DeriveFits.KeyOf.subst_peel {P : Prog} (args : List Ty) : ∀ {t : Ty} {k : Key},
    KeyOf P (subst args (Derive.peel t)) k → KeyOf P (subst args t) k
  | .ptr t, k, h => by
    rw [subst]
    exact (Avro.Theorems.DeriveFits.KeyOf.subst_peel args (t := t) h).of_ptr
  | .unit, _, h | .bool, _, h | .i8, _, h | .i16, _, h | .i32, _, h | .i64, _, h | .u16, _, h
  | .u32, _, h | .u64, _, h | .usize, _, h | .f32, _, h | .f64, _, h | .string, _, h | .str, _, h
  | .byteVec, _, h | .byteSlice, _, h | .byteArray _, _, h | .vec _, _, h | .option _, _, h
  | .hashMap _, _, h | .btreeMap _, _, h | .named _ _, _, h | .param _, _, h => by
    simpa [Derive.peel] using h

theorem _root_.Avro.Theorems.DeriveFits.KeyOf.peel_subst {P : Prog} (args : List Ty) : ∀ {t : Ty} {k : Key},
    KeyOf P (subst args t) k → KeyOf P (subst args (Derive.peel t)) k
  | .ptr t, k, h => by
    rw [subst] at h
    exact Avro.Theorems.DeriveFits.KeyOf.peel_subst args (t := t) h.ptr
  | .unit, _, h | .bool, _, h | .i8, _, h | .i16, _, h | .i32, _, h | .i64, _, h | .u16, _, h
  | .u32, _, h | .u64, _, h | .usize, _, h | .f32, _, h | .f64, _, h | .string, _, h | .str, _, h
  | .byteVec, _, h | .byteSlice, _, h | .byteArray _, _, h | .vec _, _, h | .option _, _, h
  | .hashMap _, _, h | .btreeMap _, _, h | .named _ _, _, h | .param _, _, h => by
    simpa [Derive.peel] using h

def plainFieldOkG (P : Prog) (n : Nat) (fd : Field) : Bool := fd.attr.logical.isNone && tyOkG P n fd.ty

/-- What the builder needs of a struct field of a declaration with `n` parameters. -/
def buildFieldOkG (P : Prog) (n : Nat) (fd : Field) : Bool :=
  plainFieldOkG P n fd || (!fd.attr.logical.isNone && (leafNode (chosenTy fd)).isSome)

/-- Struct fields of a record with `n` parameters: as `fieldOk` (plain with a type over the
    parameters, or a logical-type attribute on a leaf type that the frozen node accepts). -/
def fieldOkG (P : Prog) (n : Nat) (d : Decl) (fd : Field) : Bool :=
  plainFieldOkG P n fd ||
    (!fd.attr.logical.isNone &&
      match logicalRaw d fd with
      | some raw => nodeAccepts (freezeNode raw) (Derive.peel fd.ty)
      | none => false)

theorem fieldOkG_build {P : Prog} {n : Nat} {d : Decl} {fd : Field} (h : fieldOkG P n d fd = true) :
    buildFieldOkG P n fd = true := by
  simp only [fieldOkG, Bool.or_eq_true, Bool.and_eq_true] at h
  simp only [buildFieldOkG, Bool.or_eq_true, Bool.and_eq_true]
  rcases h with h | ⟨h1, h2⟩
  · exact .inl h
  · refine .inr ⟨h1, ?_⟩
    unfold logicalRaw logicalRawAt at h2
    cases hx : leafNode (chosenTy fd) with
    | none => simp [hx] at h2
    | some x => rfl

/-- The name of an owned `fixed` does not matter for which values the node accepts. -/
theorem nodeAccepts_rename {t0 : Ty} {x : RawNode} (hx : leafNode t0 = some x) (l : Option LogicalType)
    (nm nm' : Name) (t : Ty) :
    nodeAccepts (freezeNode { type := renameNode x.type nm, logical := l }) t =
      nodeAccepts (freezeNode { type := renameNode x.type nm', logical := l }) t := by
  cases t0 <;> simp only [leafNode, Option.some.injEq, reduceCtorEq] at hx <;> subst hx <;>
    try rfl
  rename_i n
  simp only [plain, renameNode]
  cases l with
  | none => cases t <;> rfl
  | some lt =>
    cases lt <;> simp only [freezeNode] <;> (try split) <;> cases t <;> rfl

theorem nodeAccepts_leaf {n : Node} {t : Ty} (h : nodeAccepts n t = true) : ∃ x, leafNode t = some x := by
  cases t <;> simp only [nodeAccepts, Bool.false_eq_true] at h <;> exact ⟨_, rfl⟩

theorem peel_leaf {t : Ty} {x : RawNode} (h : leafNode t = some x) : Derive.peel t = t := by
  cases t <;> simp only [leafNode, reduceCtorEq] at h <;> rfl

/-- The node owned by a field with a logical-type attribute accepts the same leaf values whatever
    the runtime name of the enclosing record. -/
theorem logicalRawAt_accepts {d : Decl} {fd : Field} {name tn tn' : String} {raw raw' : RawNode}
    (h : logicalRawAt d fd name tn = some raw) (h' : logicalRawAt d fd name tn' = some raw') (t : Ty) :
    nodeAccepts (freezeNode raw) t = nodeAccepts (freezeNode raw') t := by
  unfold logicalRawAt at h h'
  cases hx : leafNode (chosenTy fd) with
  | none => simp [hx] at h
  | some x =>
    simp only [hx, Option.map_some, Option.some.injEq] at h h'
    subst h h'
    exact nodeAccepts_rename hx _ _ _ t

/-- Declarations of the fragment: as `declOk false`, plus generic records (plain fields have types
    over the record's parameters). -/
def declOkG (P : Prog) (d : Decl) : Bool :=
  match d.body with
  | .record fs =>
    decide (d.ident ≠ "Null") && fs.all (fieldOkG P d.nparams d)
  | .newtype fd =>
    decide (d.ident ≠ "Null") && plainFieldOkG P 0 fd &&
      (if isDirect fd .newtypeStruct then nonOptG P (P.size + 1) fd.ty else decide (d.nparams = 0))
  | .unitEnum _ => true
  | .union _ => false

/-- The fragment of programs covered by `C20_fits_generic`. -/
def FitWfG (P : Prog) (root : Ty) : Bool := P.all (declOkG P) && tyOkG P 0 root

/-! ### Builder invariants (as in `Lemmas/DeriveBuild.lean`, with the generic-record token) -/

/-- The node a finished lookup type owns, by the head token of its key; child keys are resolved
    through `reg`.  A generic record's key lists the keys of its (instantiated) field types. -/
def KeyNode (P : Prog) (reg : Key → Nat → Prop) (nodes : Array RawNode) : Key → Nat → Prop
  | [], _ => False
  | tok :: rest, i =>
    match tok with
    | .unit => nodes[i]? = some (plain .null)
    | .bool => nodes[i]? = some (plain .boolean)
    | .int => nodes[i]? = some (plain .int)
    | .long => nodes[i]? = some (plain .long)
    | .float => nodes[i]? = some (plain .float)
    | .double => nodes[i]? = some (plain .double)
    | .string => nodes[i]? = some (plain .string)
    | .bytes => nodes[i]? = some (plain .bytes)
    | .byteArray n => ∃ nm, nodes[i]? = some (plain (.fixed nm n))
    | .vec => ∃ c, nodes[i]? = some (plain (.array c)) ∧ reg rest c
    | .map => ∃ c, nodes[i]? = some (plain (.map c)) ∧ reg rest c
    | .option => ∃ a b, nodes[i]? = some (plain (.union [a, b])) ∧ reg [.unit] a ∧ reg rest b
    | .self id =>
      match P[id]? with
      | none => False
      | some d =>
        match d.body with
        | .record fields =>
          ∃ nm fs, nodes[i]? = some (plain (.record nm fs)) ∧ fs.length = fields.length ∧
            ∀ (j : Nat) (fd : Field) (p : String × Nat), fields[j]? = some fd → fs[j]? = some p →
              p.1 = fd.name ∧
                ((fd.attr.logical.isNone = true ∧ ∃ k, KeyOf P fd.ty k ∧ reg k p.2) ∨
                 (fd.attr.logical.isNone = false ∧
                    ∃ raw, logicalRaw d fd = some raw ∧ nodes[p.2]? = some raw))
        | .unitEnum vs => ∃ nm, nodes[i]? = some (plain (.enum nm vs))
        | .newtype fd =>
          isDirect fd .newtypeStruct = false ∧
            ∃ nm n, nodes[i]? = some (plain (.fixed nm n)) ∧ Derive.peel fd.ty = .byteArray n
        | .union _ => False
    | .generic id _ =>
      match P[id]? with
      | none => False
      | some d =>
        match d.body with
        | .record fields =>
          ∃ (nm : Name) (fs : List (String × Nat)) (cks : List Key),
            nodes[i]? = some (plain (.record nm fs)) ∧ fs.length = fields.length ∧
            cks.length = fields.length ∧ rest = cks.flatten ∧ (∀ ck ∈ cks, Coded 1 ck) ∧
            ∀ (j : Nat) (fd : Field) (p : String × Nat) (ck : Key), fields[j]? = some fd →
              fs[j]? = some p → cks[j]? = some ck →
              p.1 = fd.name ∧
                ((fd.attr.logical.isNone = true ∧ reg ck p.2) ∨
                 (fd.attr.logical.isNone = false ∧
                    ∃ tn raw, logicalRawAt d fd fd.name tn = some raw ∧ nodes[p.2]? = some raw))
        | _ => False

theorem KeyNode.mono {P : Prog} {reg reg' : Key → Nat → Prop} {nodes nodes' : Array RawNode}
    {k : Key} {i : Nat} (hreg : ∀ k c, reg k c → reg' k c) (hn : nodes'[i]? = nodes[i]?)
    (hown : ∀ (j : Nat) (x : RawNode), nodes[j]? = some x → x.logical ≠ none → nodes'[j]? = some x)
    (h : KeyNode P reg nodes k i) : KeyNode P reg' nodes' k i := by
  cases k with
  | nil => exact h
  | cons tok rest =>
    cases tok with
    | vec => obtain ⟨c, h1, h2⟩ := h; exact ⟨c, by rw [hn]; exact h1, hreg _ _ h2⟩
    | map => obtain ⟨c, h1, h2⟩ := h; exact ⟨c, by rw [hn]; exact h1, hreg _ _ h2⟩
    | option =>
      obtain ⟨a, b, h1, h2, h3⟩ := h
      exact ⟨a, b, by rw [hn]; exact h1, hreg _ _ h2, hreg _ _ h3⟩
    | byteArray n => obtain ⟨nm, h1⟩ := h; exact ⟨nm, by rw [hn]; exact h1⟩
    | generic id m =>
      simp only [KeyNode] at h ⊢
      cases hd : P[id]? with
      | none => rw [hd] at h; exact h
      | some d =>
        rw [hd] at h
        dsimp only at h ⊢
        cases hb : d.body with
        | record fields =>
          rw [hb] at h
          obtain ⟨nm, fs, cks, h1, h2, h3, h4, h5, h6⟩ := h
          refine ⟨nm, fs, cks, by rw [hn]; exact h1, h2, h3, h4, h5, fun j fd p ck hj hp hc => ?_⟩
          obtain ⟨h7, h8⟩ := h6 j fd p ck hj hp hc
          refine ⟨h7, ?_⟩
          rcases h8 with ⟨hl, h8⟩ | ⟨hl, tn, raw, h8, h9⟩
          · exact .inl ⟨hl, hreg _ _ h8⟩
          · exact .inr ⟨hl, tn, raw, h8, hown _ _ h9 (logicalRawAt_logical h8 hl)⟩
        | unitEnum vs => rw [hb] at h; exact h
        | newtype fd => rw [hb] at h; exact h
        | union vs => rw [hb] at h; exact h
    | self id =>
      simp only [KeyNode] at h ⊢
      cases hd : P[id]? with
      | none => rw [hd] at h; exact h
      | some d =>
        rw [hd] at h
        dsimp only at h ⊢
        cases hb : d.body with
        | record fields =>
          rw [hb] at h
          obtain ⟨nm, fs, h1, h2, h3⟩ := h
          refine ⟨nm, fs, by rw [hn]; exact h1, h2, fun j fd p hj hp => ?_⟩
          obtain ⟨h4, h5⟩ := h3 j fd p hj hp
          refine ⟨h4, ?_⟩
          rcases h5 with ⟨hl, k, h5, h6⟩ | ⟨hl, raw, h5, h6⟩
          · exact .inl ⟨hl, k, h5, hreg _ _ h6⟩
          · exact .inr ⟨hl, raw, h5, hown _ _ h6 (logicalRawAt_logical h5 hl)⟩
        | unitEnum vs =>
          rw [hb] at h
          obtain ⟨nm, h1⟩ := h
          exact ⟨nm, by rw [hn]; exact h1⟩
        | newtype fd =>
          rw [hb] at h
          obtain ⟨h0, nm, n, h1, h2⟩ := h
          exact ⟨h0, nm, n, by rw [hn]; exact h1, h2⟩
        | union vs => rw [hb] at h; exact h
    | _ => simp only [KeyNode] at h ⊢; rw [hn]; exact h

def Done (P : Prog) (s : BState) (k : Key) (i : Nat) : Prop := KeyNode P (Reg s) s.nodes k i

/-- Builder invariant: registered nodes exist, distinct lookup types own distinct nodes, and every
    registered lookup type is finished unless it is one of those being built (`pend`). -/
structure Inv (P : Prog) (pend : List Key) (s : BState) : Prop where
  bnd : ∀ k i, Reg s k i → i < s.nodes.size
  inj : ∀ k k' i, Reg s k i → Reg s k' i → k = k'
  done : ∀ k i, Reg s k i → k ∈ pend ∨ Done P s k i
  /-- registered nodes carry no logical type (unlike the nodes owned by logical-type fields) -/
  isPlain : ∀ k i, Reg s k i → ∃ X, s.nodes[i]? = some (plain X)

/-- The builder only appends nodes and registrations. -/
theorem Done.ext {P : Prog} {s s' : BState} {k : Key} {i : Nat} (he : BExt s s') (hi : i < s.nodes.size)
    (h : Done P s k i) : Done P s' k i :=
  KeyNode.mono he.built (he.nodes i hi) (fun j x hj _ => by
    have hlt : j < s.nodes.size := by
      rcases Nat.lt_or_ge j s.nodes.size with h | h
      · exact h
      · rw [Array.getElem?_eq_none h] at hj; cases hj
    rw [he.nodes j hlt, hj]) h

theorem Inv.empty (P : Prog) : Inv P [] {} :=
  ⟨fun k i h => by simp [Reg, List.lookup] at h, fun k k' i h => by simp [Reg, List.lookup] at h,
   fun k i h => by simp [Reg, List.lookup] at h, fun k i h => by simp [Reg, List.lookup] at h⟩

theorem Inv.register_push {P : Prog} {pend : List Key} {s : BState} (hinv : Inv P pend s)
    {key : Key} (hnew : s.built.lookup key = none) (x : RawNode) (hx : ∃ X, x = plain X) :
    Inv P (key :: pend) { nodes := s.nodes.push x, built := (key, s.nodes.size) :: s.built } ∧
      BExt s { nodes := s.nodes.push x, built := (key, s.nodes.size) :: s.built } := by
  have hext : BExt s { nodes := s.nodes.push x, built := (key, s.nodes.size) :: s.built } := by
    refine ⟨by simp, fun j hj => by simp [Array.getElem?_push, Nat.ne_of_lt hj], fun k i h => ?_⟩
    refine Reg.cons_iff.mpr (.inr ⟨?_, h⟩)
    intro hk
    subst hk
    rw [Reg, hnew] at h
    cases h
  refine ⟨⟨fun k i h => ?_, fun k k' i h h' => ?_, fun k i h => ?_, fun k i h => ?_⟩, hext⟩
  · rcases Reg.cons_iff.mp h with ⟨_, rfl⟩ | ⟨_, h⟩
    · simp
    · have := hinv.bnd k i h; simp; omega
  · rcases Reg.cons_iff.mp h with ⟨h1, h2⟩ | ⟨hk, h3⟩
    · rcases Reg.cons_iff.mp h' with ⟨h4, _⟩ | ⟨hk', h6⟩
      · rw [h1, h4]
      · rw [h2] at h6; exact absurd (hinv.bnd _ _ h6) (Nat.lt_irrefl _)
    · rcases Reg.cons_iff.mp h' with ⟨_, h5⟩ | ⟨hk', h6⟩
      · rw [h5] at h3; exact absurd (hinv.bnd _ _ h3) (Nat.lt_irrefl _)
      · exact hinv.inj _ _ _ h3 h6
  · rcases Reg.cons_iff.mp h with ⟨rfl, _⟩ | ⟨hk, h⟩
    · exact .inl (by simp)
    · rcases hinv.done k i h with hp | hd
      · exact .inl (by simp [hp])
      · exact .inr (hd.ext hext (hinv.bnd k i h))
  · rcases Reg.cons_iff.mp h with ⟨_, rfl⟩ | ⟨_, h⟩
    · obtain ⟨X, rfl⟩ := hx
      exact ⟨X, by simp⟩
    · obtain ⟨X, hX⟩ := hinv.isPlain k i h
      exact ⟨X, by rw [hext.nodes i (hinv.bnd k i h)]; exact hX⟩

/-- Pushing a node that no lookup type owns (the node of a logical-type field). -/
theorem Inv.push_owned {P : Prog} {pend : List Key} {s s' : BState} (hinv : Inv P pend s)
    (hb : s'.built = s.built) (hsz : s.nodes.size ≤ s'.nodes.size)
    (hn : ∀ j, j < s.nodes.size → s'.nodes[j]? = s.nodes[j]?) : Inv P pend s' ∧ BExt s s' := by
  have hreg : ∀ k i, Reg s' k i ↔ Reg s k i := fun k i => by unfold Reg; rw [hb]
  have hext : BExt s s' := ⟨hsz, hn, fun k i h => (hreg k i).mpr h⟩
  refine ⟨⟨fun k i h => ?_, fun k k' i h h' => ?_, fun k i h => ?_, fun k i h => ?_⟩, hext⟩
  · exact Nat.lt_of_lt_of_le (hinv.bnd k i ((hreg k i).mp h)) hsz
  · exact hinv.inj k k' i ((hreg k i).mp h) ((hreg k' i).mp h')
  · rcases hinv.done k i ((hreg k i).mp h) with hp | hd
    · exact .inl hp
    · exact .inr (hd.ext hext (hinv.bnd k i ((hreg k i).mp h)))
  · obtain ⟨X, hX⟩ := hinv.isPlain k i ((hreg k i).mp h)
    exact ⟨X, by rw [hn i (hinv.bnd k i ((hreg k i).mp h))]; exact hX⟩

/-- Filling a node owned by a pending lookup type. -/
theorem Inv.set {P : Prog} {pend : List Key} {s : BState} {key : Key} {n : Nat}
    (hinv : Inv P (key :: pend) s) (hreg : Reg s key n) (x : RawNode) (hx : ∃ X, x = plain X) :
    Inv P (key :: pend) { s with nodes := s.nodes.set! n x } := by
  refine ⟨fun k i h => by simpa using hinv.bnd k i h, fun k k' i h h' => hinv.inj k k' i h h',
    fun k i h => ?_, fun k i h => ?_⟩
  · by_cases hk : k = key
    · exact .inl (by simp [hk])
    · rcases hinv.done k i h with hp | hd
      · exact .inl hp
      · refine .inr (KeyNode.mono (fun _ _ h => h) ?_ ?_ hd)
        · have hne : n ≠ i := fun hni => hk (hinv.inj k key i h (hni ▸ hreg))
          simp [Array.set!_eq_setIfInBounds, hne]
        · intro j y hj hy
          have hne : n ≠ j := by
            intro hnj
            subst hnj
            obtain ⟨X, hX⟩ := hinv.isPlain key n hreg
            rw [hX] at hj
            cases hj
            exact hy rfl
          simp only [Array.set!_eq_setIfInBounds]
          rw [Array.getElem?_setIfInBounds_ne hne]
          exact hj
  · by_cases hni : n = i
    · subst hni
      obtain ⟨X, rfl⟩ := hx
      exact ⟨X, by simp [Array.set!_eq_setIfInBounds, hinv.bnd k n h]⟩
    · obtain ⟨X, hX⟩ := hinv.isPlain k i h
      exact ⟨X, by simp only [Array.set!_eq_setIfInBounds]; rw [Array.getElem?_setIfInBounds_ne hni]; exact hX⟩

theorem Inv.finish {P : Prog} {pend : List Key} {s : BState} {key : Key}
    (hinv : Inv P (key :: pend) s) (hdone : ∀ i, Reg s key i → Done P s key i) : Inv P pend s := by
  refine ⟨hinv.bnd, hinv.inj, fun k i h => ?_, hinv.isPlain⟩
  rcases hinv.done k i h with hp | hd
  · rcases List.mem_cons.mp hp with rfl | hp
    · exact .inr (hdone i h)
    · exact .inl hp
  · exact .inr hd

theorem app_leaf {P : Prog} {pend : List Key} {s : BState} {key : Key} (hinv : Inv P pend s)
    (hnew : s.built.lookup key = none) (x : RawNode) (hx : ∃ X, x = plain X)
    (hdone : ∀ (reg : Key → Nat → Prop) (nodes : Array RawNode), nodes[s.nodes.size]? = some x →
      KeyNode P reg nodes key s.nodes.size) :
    Inv P pend { nodes := s.nodes.push x, built := (key, s.nodes.size) :: s.built } ∧
      BExt s { nodes := s.nodes.push x, built := (key, s.nodes.size) :: s.built } ∧
      s.nodes.size < (s.nodes.push x).size ∧
      Reg { nodes := s.nodes.push x, built := (key, s.nodes.size) :: s.built } key s.nodes.size := by
  obtain ⟨h1, h2⟩ := hinv.register_push hnew x hx
  refine ⟨h1.finish (fun i hi => ?_), h2, by simp, Reg.cons_self _ _ _ _⟩
  have : i = s.nodes.size := Reg.functional hi (Reg.cons_self _ _ _ _)
  subst this
  exact hdone _ _ (by simp)

/-- A type whose node is reserved, then filled once its children are registered. -/
theorem app_fill {P : Prog} {pend : List Key} {s s3 : BState} {key : Key}
    (hinv3 : Inv P (key :: pend) s3) (hext : BExt s s3) (hreg : Reg s3 key s.nodes.size) (x : RawNode)
    (hx : ∃ X, x = plain X)
    (hdone : ∀ nodes : Array RawNode, nodes[s.nodes.size]? = some x →
      (∀ j, j ≠ s.nodes.size → nodes[j]? = s3.nodes[j]?) →
      KeyNode P (Reg s3) nodes key s.nodes.size) :
    Inv P pend { s3 with nodes := s3.nodes.set! s.nodes.size x } ∧
      BExt s { s3 with nodes := s3.nodes.set! s.nodes.size x } ∧
      s.nodes.size < (s3.nodes.set! s.nodes.size x).size ∧
      Reg { s3 with nodes := s3.nodes.set! s.nodes.size x } key s.nodes.size := by
  have hlt : s.nodes.size < s3.nodes.size := hinv3.bnd _ _ hreg
  refine ⟨(hinv3.set hreg x hx).finish (fun i hi => ?_), hext.set_after (Nat.le_refl _) x, by simpa using hlt, hreg⟩
  have : i = s.nodes.size := Reg.functional hi hreg
  subst this
  refine hdone _ (by simp [Array.set!_eq_setIfInBounds, hlt]) (fun j hj => ?_)
  simp only [Array.set!_eq_setIfInBounds]
  exact Array.getElem?_setIfInBounds_ne (fun h => hj h.symm)


/-! ### Equations of the builder, generic cases -/

section eqns
variable (P : Prog) (hash : Key → String) (F : Nat)

theorem appendSchema_record_gen {id : Nat} {args : List Ty} {d : Decl} {fields : List Field}
    (hd : P[id]? = some d) (hb : d.body = .record fields) (hn : d.nparams ≠ 0) (s : BState) :
    appendSchema P hash (F + 1) (.named id args) s =
      match lookupKey P F (.named id args) with
      | none => none
      | some k =>
        match recordFields P hash F d args (typeName d ++ "_" ++ hash k) fields
            { s with nodes := s.nodes.push (plain .null) } with
        | none => none
        | some (fs, s') =>
          setNode s.nodes.size (plain (.record (Name.ofFq (typeName d ++ "_" ++ hash k)) fs)) s' := by
  unfold appendSchema
  simp only [hd, hb, hn, if_false]
  cases lookupKey P F (.named id args) <;> rfl

theorem fieldInst_logicalG {d : Decl} {args : List Ty} {fd : Field} {kind : FieldKind} {tn : String}
    {x : RawNode} (hl : fd.attr.logical.isNone = false) (hx : leafNode (chosenTy fd) = some x)
    {s : BState} {c : Nat} {s' : BState}
    (h : fieldInst P hash F d args fd kind tn s = some (c, s')) :
    c = s.nodes.size ∧ s'.built = s.built ∧
      s'.nodes = (s.nodes.push x).set! s.nodes.size
        { type := renameNode x.type (Name.ofFq (ownedName d kind tn)), logical := logicalOf fd } := by
  cases F with
  | zero => rw [fieldInst_zero] at h; cases h
  | succ F =>
    unfold fieldInst at h
    cases hlt : logicalOf fd with
    | none => exact absurd hlt (logicalOf_ne_none hl)
    | some lt =>
      simp only [hlt, subst_leaf hx] at h
      cases F with
      | zero => rw [appendSchema_zero] at h; simp at h
      | succ F =>
        rw [appendSchema_leaf P hash F hx] at h
        simp only [Array.size_push, Nat.lt_add_one, if_true, Array.getElem?_push_size] at h
        simp only [Option.some.injEq, Prod.mk.injEq] at h
        obtain ⟨rfl, rfl⟩ := h
        exact ⟨rfl, rfl, rfl⟩

end eqns

theorem _root_.Avro.Theorems.DeriveFits.KeyOf.named_record_gen {P : Prog} {id : Nat} {args : List Ty} {k : Key} {d : Decl} {fs : List Field}
    (h : KeyOf P (.named id args) k) (hd : P[id]? = some d) (hb : d.body = .record fs)
    (hn : d.nparams ≠ 0) :
    ∃ F rest, k = .generic id fs.length :: rest ∧
      lookupKeys P F (fs.map fun f => subst args (chosenTy f)) = some rest := by
  obtain ⟨F, h⟩ := h.succ
  unfold lookupKey at h
  simp only [hd, hb, hn, if_false, Body.lookupFields] at h
  cases h1 : lookupKeys P F (fs.map fun f => subst args (chosenTy f)) with
  | none => rw [h1] at h; cases h
  | some rest =>
    rw [h1] at h
    exact ⟨F, rest, (Option.some.inj h).symm, h1⟩

/-! ### Specifications of the builder functions -/

section specs
variable (P : Prog) (hash : Key → String)

def FobSpec (F : Nat) : Prop :=
  ∀ (t : Ty) (s : BState) (c : Nat) (s' : BState) (pend : List Key), tyOkG P 0 t = true → Inv P pend s →
    findOrBuild P hash F t s = some (c, s') →
    Inv P pend s' ∧ BExt s s' ∧ ∃ key, KeyOf P t key ∧ Reg s' key c

def AppSpec (F : Nat) : Prop :=
  ∀ (t : Ty) (s : BState) (key : Key) (u : Unit) (s' : BState) (pend : List Key), tyOkG P 0 t = true →
    Inv P pend s → KeyOf P t key → s.built.lookup key = none →
    appendSchema P hash F t { nodes := s.nodes, built := (key, s.nodes.size) :: s.built } = some (u, s') →
    Inv P pend s' ∧ BExt s s' ∧ s.nodes.size < s'.nodes.size ∧ Reg s' key s.nodes.size

def FiSpec (F : Nat) : Prop :=
  ∀ (d : Decl) (args : List Ty) (tn : String) (fd : Field) (name : String) (s : BState) (c : Nat)
    (s' : BState) (pend : List Key), buildFieldOkG P args.length fd = true →
    (∀ a ∈ args, tyOkG P 0 a = true) → Inv P pend s →
    fieldInst P hash F d args fd (.structField name) tn s = some (c, s') →
    Inv P pend s' ∧ BExt s s' ∧ c < s'.nodes.size ∧
      ((fd.attr.logical.isNone = true ∧ ∃ k, KeyOf P (subst args fd.ty) k ∧ Reg s' k c) ∨
       (fd.attr.logical.isNone = false ∧
          ∃ raw, logicalRawAt d fd name tn = some raw ∧ s'.nodes[c]? = some raw))

def RecSpec (F : Nat) : Prop :=
  ∀ (d : Decl) (args : List Ty) (tn : String) (fields : List Field) (s : BState)
    (fs : List (String × Nat)) (s' : BState) (pend : List Key),
    (∀ fd ∈ fields, buildFieldOkG P args.length fd = true) → (∀ a ∈ args, tyOkG P 0 a = true) →
    Inv P pend s → recordFields P hash F d args tn fields s = some (fs, s') →
    Inv P pend s' ∧ BExt s s' ∧ fs.length = fields.length ∧
      ∀ (j : Nat) (fd : Field) (p : String × Nat), fields[j]? = some fd → fs[j]? = some p →
        p.1 = fd.name ∧
          ((fd.attr.logical.isNone = true ∧ ∃ k, KeyOf P (subst args fd.ty) k ∧ Reg s' k p.2) ∨
           (fd.attr.logical.isNone = false ∧
              ∃ raw, logicalRawAt d fd fd.name tn = some raw ∧ s'.nodes[p.2]? = some raw))

variable {P hash}

theorem fob_step {F : Nat} (happ : AppSpec P hash F) : FobSpec P hash (F + 1) := by
  intro t s c s' pend ht hinv h
  rw [findOrBuild_eq] at h
  cases hk : lookupKey P (F + 1) t with
  | none => simp [hk] at h
  | some key =>
    simp only [hk] at h
    cases hb : s.built.lookup key with
    | some idx =>
      simp only [hb, Option.some.injEq, Prod.mk.injEq] at h
      obtain ⟨rfl, rfl⟩ := h
      exact ⟨hinv, BExt.refl _, key, ⟨_, hk⟩, hb⟩
    | none =>
      simp only [hb] at h
      cases ha : appendSchema P hash F t { nodes := s.nodes, built := (key, s.nodes.size) :: s.built } with
      | none => simp [ha] at h
      | some r =>
        obtain ⟨u, s2⟩ := r
        simp only [ha] at h
        split at h
        · simp only [Option.some.injEq, Prod.mk.injEq] at h
          obtain ⟨rfl, rfl⟩ := h
          obtain ⟨h1, h2, _, h4⟩ := happ t s key u s2 pend ht hinv ⟨_, hk⟩ hb ha
          exact ⟨h1, h2, key, ⟨_, hk⟩, h4⟩
        · cases h

theorem fi_step {F : Nat} (hfob : FobSpec P hash F) : FiSpec P hash (F + 1) := by
  intro d args tn fd name s c s' pend hfd hargs hinv h
  cases hl : fd.attr.logical.isNone with
  | true =>
    simp only [buildFieldOkG, plainFieldOkG, hl, Bool.true_and, Bool.not_true, Bool.false_and,
      Bool.or_false] at hfd
    rw [fieldInst_plain P hash F hl] at h
    obtain ⟨h1, h2, key, h3, h4⟩ := hfob _ s c s' pend
      (tyOkG_subst hargs rfl _ (tyOkG_peel P _ hfd)) hinv h
    exact ⟨h1, h2, h1.bnd _ _ h4, .inl ⟨rfl, key, KeyOf.subst_peel args h3, h4⟩⟩
  | false =>
    simp only [buildFieldOkG, plainFieldOkG, hl, Bool.false_and, Bool.not_false, Bool.true_and,
      Bool.false_or, Option.isSome_iff_exists] at hfd
    obtain ⟨x, hx⟩ := hfd
    obtain ⟨rfl, hb, hn⟩ := fieldInst_logicalG P hash (F + 1) hl hx h
    have hsz : s'.nodes.size = s.nodes.size + 1 := by rw [hn]; simp [Array.set!_eq_setIfInBounds]
    have hold : ∀ j, j < s.nodes.size → s'.nodes[j]? = s.nodes[j]? := by
      intro j hj
      rw [hn]
      simp only [Array.set!_eq_setIfInBounds]
      rw [Array.getElem?_setIfInBounds_ne (by omega), Array.getElem?_push_lt hj]
      exact (Array.getElem?_eq_getElem hj).symm
    obtain ⟨h1, h2⟩ := hinv.push_owned hb (by omega) hold
    refine ⟨h1, h2, by omega, .inr ⟨rfl,
      { type := renameNode x.type (Name.ofFq (ownedName d (.structField name) tn)),
        logical := logicalOf fd }, ?_, ?_⟩⟩
    · unfold logicalRawAt
      rw [hx]
      rfl
    · rw [hn]
      simp [Array.set!_eq_setIfInBounds]

theorem rec_zero : RecSpec P hash 0 := by
  intro d args tn fields s fs s' pend _ _ hinv h
  cases fields with
  | nil =>
    rw [recordFields_nil] at h
    simp only [Option.some.injEq, Prod.mk.injEq] at h
    obtain ⟨rfl, rfl⟩ := h
    exact ⟨hinv, BExt.refl _, rfl, fun j fd p hj => by simp at hj⟩
  | cons fd rest => rw [recordFields_zero] at h; cases h

theorem rec_step {F : Nat} (hfi : FiSpec P hash F) (hrec : RecSpec P hash F) : RecSpec P hash (F + 1) := by
  intro d args tn fields s fs s' pend hok hargs hinv h
  cases fields with
  | nil =>
    rw [recordFields_nil] at h
    simp only [Option.some.injEq, Prod.mk.injEq] at h
    obtain ⟨rfl, rfl⟩ := h
    exact ⟨hinv, BExt.refl _, rfl, fun j fd p hj => by simp at hj⟩
  | cons fd rest =>
    rw [recordFields_cons] at h
    cases h1 : fieldInst P hash F d args fd (.structField fd.name) tn s with
    | none => simp [h1] at h
    | some r1 =>
      obtain ⟨c, s1⟩ := r1
      simp only [h1] at h
      cases h2 : recordFields P hash F d args tn rest s1 with
      | none => simp [h2] at h
      | some r2 =>
        obtain ⟨fs', s2⟩ := r2
        simp only [h2, Option.some.injEq, Prod.mk.injEq] at h
        obtain ⟨rfl, rfl⟩ := h
        obtain ⟨i1, e1, hc, hfield⟩ := hfi d args tn fd fd.name s c s1 pend (hok fd (by simp)) hargs hinv h1
        obtain ⟨i2, e2, hlen, hall⟩ := hrec d args tn rest s1 fs' s2 pend
          (fun fd' h' => hok fd' (by simp [h'])) hargs i1 h2
        refine ⟨i2, e1.trans e2, by simp [hlen], fun j fd' p hj hp => ?_⟩
        cases j with
        | zero =>
          simp only [List.getElem?_cons_zero, Option.some.injEq] at hj hp
          subst hj hp
          refine ⟨rfl, ?_⟩
          rcases hfield with ⟨hl, k, hk, hreg⟩ | ⟨hl, raw, hraw, hnode⟩
          · exact .inl ⟨hl, k, hk, e2.built _ _ hreg⟩
          · exact .inr ⟨hl, raw, hraw, by rw [e2.nodes c hc]; exact hnode⟩
        | succ j =>
          simp only [List.getElem?_cons_succ] at hj hp
          exact hall j fd' p hj hp

theorem leaf_keyNode {t : Ty} {tok : KTok} {x : RawNode} (h : leafTok t = some tok)
    (hx : leafNode t = some x) (reg : Key → Nat → Prop) (nodes : Array RawNode) (i : Nat)
    (hn : nodes[i]? = some x) : KeyNode P reg nodes [tok] i := by
  cases t <;> simp only [leafTok, Option.some.injEq, reduceCtorEq] at h <;>
    simp only [leafNode, Option.some.injEq] at hx <;> subst h <;> subst hx <;>
    first | exact hn | exact ⟨_, hn⟩

theorem app_step_leaf {F : Nat} {t : Ty} {tok : KTok} (h : leafTok t = some tok)
    (s : BState) (key : Key) (u : Unit) (s' : BState) (pend : List Key)
    (hinv : Inv P pend s) (hkey : KeyOf P t key) (hnew : s.built.lookup key = none)
    (ha : appendSchema P hash (F + 1) t { nodes := s.nodes, built := (key, s.nodes.size) :: s.built } =
      some (u, s')) :
    Inv P pend s' ∧ BExt s s' ∧ s.nodes.size < s'.nodes.size ∧ Reg s' key s.nodes.size := by
  obtain ⟨x, hx⟩ : ∃ x, leafNode t = some x := by
    cases t <;> simp only [leafTok, reduceCtorEq] at h <;> exact ⟨_, rfl⟩
  rw [appendSchema_leaf P hash F hx] at ha
  simp only [Option.some.injEq, Prod.mk.injEq] at ha
  obtain ⟨_, rfl⟩ := ha
  have hk : key = [tok] := hkey.leaf (lookupKey_leaf h)
  subst hk
  exact app_leaf hinv hnew x (leafNode_plain hx) (fun reg nodes hn => leaf_keyNode h hx reg nodes _ hn)

/-- `Vec<T>` and the two maps: reserve, register the element type, fill. -/
theorem app_step_container {F : Nat} (hfob : FobSpec P hash F) {t t0 : Ty} {tok : KTok}
    {mk : Nat → RegularType}
    (heq : ∀ s, appendSchema P hash (F + 1) t0 s =
      match findOrBuild P hash F t { s with nodes := s.nodes.push (plain .null) } with
      | none => none
      | some (k, s') => setNode s.nodes.size (plain (mk k)) s')
    (hkinv : ∀ key, KeyOf P t0 key → ∃ k', key = tok :: k' ∧ KeyOf P t k')
    (hnode : ∀ (reg : Key → Nat → Prop) (nodes : Array RawNode) (i c : Nat) (rest : Key),
      nodes[i]? = some (plain (mk c)) → reg rest c → KeyNode P reg nodes (tok :: rest) i)
    (ht : tyOkG P 0 t = true)
    (s : BState) (key : Key) (u : Unit) (s' : BState) (pend : List Key)
    (hinv : Inv P pend s) (hkey : KeyOf P t0 key) (hnew : s.built.lookup key = none)
    (ha : appendSchema P hash (F + 1) t0 { nodes := s.nodes, built := (key, s.nodes.size) :: s.built } =
      some (u, s')) :
    Inv P pend s' ∧ BExt s s' ∧ s.nodes.size < s'.nodes.size ∧ Reg s' key s.nodes.size := by
  rw [heq] at ha
  obtain ⟨hinv2, hext2⟩ := hinv.register_push hnew (plain .null) ⟨_, rfl⟩
  dsimp only at ha
  cases hf : findOrBuild P hash F t
      { nodes := s.nodes.push (plain .null), built := (key, s.nodes.size) :: s.built } with
  | none => simp [hf] at ha
  | some r =>
    obtain ⟨c, s3⟩ := r
    simp only [hf] at ha
    obtain ⟨hinv3, hext3, key', hk', hreg'⟩ := hfob t _ c s3 (key :: pend) ht hinv2 hf
    have hs' := setNode_some ha
    subst hs'
    obtain ⟨k', rfl, hk''⟩ := hkinv key hkey
    have := hk''.unique hk'
    subst this
    exact app_fill hinv3 (hext2.trans hext3) (hext3.built _ _ (Reg.cons_self _ _ _ _)) _ ⟨_, rfl⟩
      (fun nodes hn _ => hnode _ nodes _ c _ hn hreg')

theorem app_step_option {F : Nat} (hfob : FobSpec P hash F) {t : Ty} (ht : tyOkG P 0 t = true)
    (s : BState) (key : Key) (u : Unit) (s' : BState) (pend : List Key)
    (hinv : Inv P pend s) (hkey : KeyOf P (.option t) key) (hnew : s.built.lookup key = none)
    (ha : appendSchema P hash (F + 1) (.option t)
      { nodes := s.nodes, built := (key, s.nodes.size) :: s.built } = some (u, s')) :
    Inv P pend s' ∧ BExt s s' ∧ s.nodes.size < s'.nodes.size ∧ Reg s' key s.nodes.size := by
  rw [appendSchema_option] at ha
  obtain ⟨hinv2, hext2⟩ := hinv.register_push hnew (plain .null) ⟨_, rfl⟩
  dsimp only at ha
  cases hf : findOrBuild P hash F .unit
      { nodes := s.nodes.push (plain .null), built := (key, s.nodes.size) :: s.built } with
  | none => simp [hf] at ha
  | some r =>
    obtain ⟨a, s3⟩ := r
    simp only [hf] at ha
    obtain ⟨hinv3, hext3, keyu, hku, hrega⟩ := hfob .unit _ a s3 (key :: pend) (by simp [tyOkG]) hinv2 hf
    have : keyu = [.unit] := hku.leaf (lookupKey_leaf (t := .unit) rfl)
    subst this
    cases hf2 : findOrBuild P hash F t s3 with
    | none => simp [hf2] at ha
    | some r2 =>
      obtain ⟨b, s4⟩ := r2
      simp only [hf2] at ha
      obtain ⟨hinv4, hext4, key', hk', hregb⟩ := hfob t _ b s4 (key :: pend) ht hinv3 hf2
      have hs' := setNode_some ha
      subst hs'
      obtain ⟨k', rfl, hk''⟩ := hkey.option
      have := hk''.unique hk'
      subst this
      exact app_fill hinv4 ((hext2.trans hext3).trans hext4)
        (hext4.built _ _ (hext3.built _ _ (Reg.cons_self _ _ _ _))) _ ⟨_, rfl⟩
        (fun nodes hn _ => ⟨a, b, hn, hext4.built _ _ hrega, hregb⟩)


theorem app_step_named {F : Nat} (hP : ∀ (id : Nat) (d : Decl), P[id]? = some d → declOkG P d = true)
    (happ : AppSpec P hash F) (hrec : RecSpec P hash F)
    {id : Nat} {args : List Ty}
    (ht : tyOkG P 0 (.named id args) = true)
    (s : BState) (key : Key) (u : Unit) (s' : BState) (pend : List Key)
    (hinv : Inv P pend s) (hkey : KeyOf P (.named id args) key) (hnew : s.built.lookup key = none)
    (ha : appendSchema P hash (F + 1) (.named id args)
      { nodes := s.nodes, built := (key, s.nodes.size) :: s.built } = some (u, s')) :
    Inv P pend s' ∧ BExt s s' ∧ s.nodes.size < s'.nodes.size ∧ Reg s' key s.nodes.size := by
  rw [tyOkG] at ht
  simp only [Bool.and_eq_true] at ht
  obtain ⟨hhead, hargs⟩ := ht
  cases hd : P[id]? with
  | none => rw [appendSchema_named_none P hash F hd] at ha; cases ha
  | some d =>
    have hdok := hP id d hd
    simp only [hd] at hhead
    cases hb : d.body with
    | unitEnum vs =>
      rw [appendSchema_enum P hash F hd hb] at ha
      simp only [Option.some.injEq, Prod.mk.injEq] at ha
      obtain ⟨_, rfl⟩ := ha
      have hk := hkey.named_enum hd hb
      subst hk
      refine app_leaf hinv hnew _ ⟨_, rfl⟩ (fun reg nodes hn => ?_)
      simp only [KeyNode, hd, hb]
      exact ⟨_, hn⟩
    | newtype fd =>
      have hng : isGenRec d = false := by simp [isGenRec, hb]
      simp only [hng, Bool.false_eq_true, if_false, List.isEmpty_iff] at hhead
      subst hhead
      simp only [declOkG, hb, Bool.and_eq_true, decide_eq_true_eq, plainFieldOkG] at hdok
      obtain ⟨⟨_, hl, hty⟩, hrest⟩ := hdok
      cases hdir : isDirect fd .newtypeStruct with
      | true =>
        rw [appendSchema_newtype P hash F hd hb hdir, chosenTy_plain hl, subst_nil] at ha
        have hk := hkey.named_newtype hd hb hdir
        rw [chosenTy_plain hl, subst_nil] at hk
        exact happ _ s key u s' pend (tyOkG_peel P 0 hty) hinv hk hnew ha
      | false =>
        simp only [hdir, Bool.false_eq_true, if_false, decide_eq_true_eq] at hrest
        obtain ⟨n, hp⟩ := not_direct hl hdir
        obtain ⟨nm, rfl⟩ := appendSchema_newtype_nd P hash F hd hb hdir hl hp ha
        have hk := hkey.named_newtype_nd hd hb hdir hrest
        subst hk
        refine app_leaf hinv hnew _ ⟨_, rfl⟩ (fun reg nodes hn => ?_)
        simp only [KeyNode, hd, hb]
        exact ⟨hdir, nm, n, hn, hp⟩
    | record fields =>
      simp only [declOkG, hb, Bool.and_eq_true, decide_eq_true_eq] at hdok
      obtain ⟨_, hfields⟩ := hdok
      obtain ⟨hinv2, hext2⟩ := hinv.register_push hnew (plain .null) ⟨_, rfl⟩
      by_cases hn : d.nparams = 0
      · -- a non-generic record
        have hng : isGenRec d = false := by simp [isGenRec, hn]
        simp only [hng, Bool.false_eq_true, if_false, List.isEmpty_iff] at hhead
        subst hhead
        simp only [hn, List.all_eq_true] at hfields
        rw [appendSchema_record P hash F hd hb hn] at ha
        dsimp only at ha
        cases hf : recordFields P hash F d [] (typeName d) fields
            { nodes := s.nodes.push (plain .null), built := (key, s.nodes.size) :: s.built } with
        | none => simp [hf] at ha
        | some r =>
          obtain ⟨fs, s3⟩ := r
          simp only [hf] at ha
          obtain ⟨hinv3, hext3, hlen, hall⟩ := hrec d [] _ fields _ fs s3 (key :: pend)
            (fun fd hfd => fieldOkG_build (hfields fd hfd)) (by simp) hinv2 hf
          have hs' := setNode_some ha
          subst hs'
          have hk := hkey.named_record hd hb hn
          subst hk
          have hregn : Reg s3 [.self id] s.nodes.size := hext3.built _ _ (Reg.cons_self _ _ _ _)
          refine app_fill hinv3 (hext2.trans hext3) hregn _ ⟨_, rfl⟩ (fun nodes hnd hother => ?_)
          simp only [KeyNode, hd, hb]
          refine ⟨_, fs, hnd, hlen, fun j fd p hj hp => ?_⟩
          obtain ⟨h1, h2⟩ := hall j fd p hj hp
          refine ⟨h1, ?_⟩
          rw [subst_nil] at h2
          rcases h2 with h2 | ⟨hl, raw, hraw, hnode⟩
          · exact .inl h2
          · refine .inr ⟨hl, raw, hraw, ?_⟩
            rw [hother p.2 ?_]
            · exact hnode
            · intro hpn
              obtain ⟨X, hX⟩ := hinv3.isPlain _ _ hregn
              rw [hpn, hX] at hnode
              cases hnode
              exact logicalRawAt_logical hraw hl rfl
      · -- a generic record
        have hg : isGenRec d = true := by simp [isGenRec, hn, hb]
        simp only [hg, if_true, beq_iff_eq] at hhead
        simp only [List.all_eq_true] at hfields
        have hargs' : ∀ a ∈ args, tyOkG P 0 a = true := tysOkG_mem hargs
        rw [appendSchema_record_gen P hash F hd hb hn] at ha
        cases hk1 : lookupKey P F (.named id args) with
        | none => simp [hk1] at ha
        | some k1 =>
          have : k1 = key := KeyOf.unique ⟨_, hk1⟩ hkey
          subst this
          simp only [hk1] at ha
          cases hf : recordFields P hash F d args (typeName d ++ "_" ++ hash k1) fields
              { nodes := s.nodes.push (plain .null), built := (k1, s.nodes.size) :: s.built } with
          | none => simp [hf] at ha
          | some r =>
            obtain ⟨fs, s3⟩ := r
            simp only [hf] at ha
            have hfok : ∀ fd ∈ fields, buildFieldOkG P args.length fd = true := by
              intro fd hfd
              rw [hhead]
              exact fieldOkG_build (hfields fd hfd)
            obtain ⟨hinv3, hext3, hlen, hall⟩ := hrec d args _ fields _ fs s3 (k1 :: pend)
              hfok hargs' hinv2 hf
            have hs' := setNode_some ha
            subst hs'
            obtain ⟨F', rest, rfl, hrest⟩ := hkey.named_record_gen hd hb hn
            obtain ⟨cks, rfl, hclen, hcall⟩ := lookupKeys_split P _ F' rest hrest
            have hregn : Reg s3 (.generic id fields.length :: cks.flatten) s.nodes.size :=
              hext3.built _ _ (Reg.cons_self _ _ _ _)
            refine app_fill hinv3 (hext2.trans hext3) hregn _ ⟨_, rfl⟩ (fun nodes hnd hother => ?_)
            simp only [KeyNode, hd, hb]
            refine ⟨_, fs, cks, hnd, hlen, by simpa using hclen, rfl, fun ck hck => ?_,
              fun j fd p ck hj hp hc => ?_⟩
            · obtain ⟨j, hj⟩ := List.getElem?_of_mem hck
              have hjlt : j < fields.length := by
                have := (List.getElem?_eq_some_iff.mp hj).1
                simpa [hclen] using this
              exact (hcall j (subst args (chosenTy fields[j])) ck (by simp [List.getElem?_eq_getElem hjlt]) hj).coded
            · obtain ⟨h1, h2⟩ := hall j fd p hj hp
              refine ⟨h1, ?_⟩
              rcases h2 with ⟨hl, k, hk, hr⟩ | ⟨hl, raw, hraw, hnode⟩
              · have hck := hcall j (subst args (chosenTy fd)) ck (by simp [hj]) hc
                rw [chosenTy_plain hl] at hck
                have := (KeyOf.subst_peel args hck).unique hk
                subst this
                exact .inl ⟨hl, hr⟩
              · refine .inr ⟨hl, _, raw, hraw, ?_⟩
                rw [hother p.2 ?_]
                · exact hnode
                · intro hpn
                  obtain ⟨X, hX⟩ := hinv3.isPlain _ _ hregn
                  rw [hpn, hX] at hnode
                  cases hnode
                  exact logicalRawAt_logical hraw hl rfl
    | union vs => simp [declOkG, hb] at hdok

theorem app_step {F : Nat} (hP : ∀ (id : Nat) (d : Decl), P[id]? = some d → declOkG P d = true)
    (hfob : FobSpec P hash F) (happ : AppSpec P hash F) (hrec : RecSpec P hash F) : AppSpec P hash (F + 1) := by
  intro t s key u s' pend ht hinv hkey hnew ha
  cases t with
  | vec t =>
    exact app_step_container hfob (t := t) (tok := .vec) (mk := .array) (appendSchema_vec P hash F t)
      (fun _ h => h.vec) (fun reg nodes i c rest h1 h2 => ⟨c, h1, h2⟩)
      (by simpa [tyOkG] using ht) s key u s' pend hinv hkey hnew ha
  | hashMap t =>
    exact app_step_container hfob (t := t) (tok := .map) (mk := .map) (appendSchema_hashMap P hash F t)
      (fun _ h => h.hashMap) (fun reg nodes i c rest h1 h2 => ⟨c, h1, h2⟩)
      (by simpa [tyOkG] using ht) s key u s' pend hinv hkey hnew ha
  | btreeMap t =>
    exact app_step_container hfob (t := t) (tok := .map) (mk := .map) (appendSchema_btreeMap P hash F t)
      (fun _ h => h.btreeMap) (fun reg nodes i c rest h1 h2 => ⟨c, h1, h2⟩)
      (by simpa [tyOkG] using ht) s key u s' pend hinv hkey hnew ha
  | option t =>
    have ht' : tyOkG P 0 t = true := by
      simp only [tyOkG, Bool.and_eq_true] at ht; exact ht.1
    exact app_step_option hfob ht' s key u s' pend hinv hkey hnew ha
  | ptr t =>
    rw [appendSchema_ptr] at ha
    exact happ t s key u s' pend (by simpa [tyOkG] using ht) hinv hkey.ptr hnew ha
  | named id args => exact app_step_named hP happ hrec ht s key u s' pend hinv hkey hnew ha
  | param i => simp [tyOkG] at ht
  | unit => exact app_step_leaf (tok := .unit) rfl s key u s' pend hinv hkey hnew ha
  | bool => exact app_step_leaf (tok := .bool) rfl s key u s' pend hinv hkey hnew ha
  | i8 => exact app_step_leaf (tok := .int) rfl s key u s' pend hinv hkey hnew ha
  | i16 => exact app_step_leaf (tok := .int) rfl s key u s' pend hinv hkey hnew ha
  | i32 => exact app_step_leaf (tok := .int) rfl s key u s' pend hinv hkey hnew ha
  | u16 => exact app_step_leaf (tok := .int) rfl s key u s' pend hinv hkey hnew ha
  | i64 => exact app_step_leaf (tok := .long) rfl s key u s' pend hinv hkey hnew ha
  | u32 => exact app_step_leaf (tok := .long) rfl s key u s' pend hinv hkey hnew ha
  | u64 => exact app_step_leaf (tok := .long) rfl s key u s' pend hinv hkey hnew ha
  | usize => exact app_step_leaf (tok := .long) rfl s key u s' pend hinv hkey hnew ha
  | f32 => exact app_step_leaf (tok := .float) rfl s key u s' pend hinv hkey hnew ha
  | f64 => exact app_step_leaf (tok := .double) rfl s key u s' pend hinv hkey hnew ha
  | string => exact app_step_leaf (tok := .string) rfl s key u s' pend hinv hkey hnew ha
  | str => exact app_step_leaf (tok := .string) rfl s key u s' pend hinv hkey hnew ha
  | byteVec => exact app_step_leaf (tok := .bytes) rfl s key u s' pend hinv hkey hnew ha
  | byteSlice => exact app_step_leaf (tok := .bytes) rfl s key u s' pend hinv hkey hnew ha
  | byteArray n => exact app_step_leaf (tok := .byteArray n) rfl s key u s' pend hinv hkey hnew ha

/-- All four specifications, by induction on the fuel. -/
theorem builder_specs (hP : ∀ (id : Nat) (d : Decl), P[id]? = some d → declOkG P d = true) : ∀ F,
    FobSpec P hash F ∧ AppSpec P hash F ∧ FiSpec P hash F ∧ RecSpec P hash F
  | 0 => by
    refine ⟨?_, ?_, ?_, rec_zero⟩
    · intro t s c s' pend _ _ h; rw [findOrBuild_zero] at h; cases h
    · intro t s key u s' pend _ _ _ _ h; rw [appendSchema_zero] at h; cases h
    · intro d args tn fd name s c s' pend _ _ _ h; rw [fieldInst_zero] at h; cases h
  | F + 1 => by
    obtain ⟨h1, h2, h3, h4⟩ := builder_specs hP F
    exact ⟨fob_step h2, app_step hP h1 h2 h4, fi_step h1, rec_step h3 h4⟩

end specs

/-! ### The built schema realizes the types of the fragment -/

section heads
variable {P : Prog}

theorem nonOptG_head : ∀ (n : Nat) (t : Ty) (k : Key), nonOptG P n t = true → KeyOf P t k →
    ∃ tok rest, k = tok :: rest ∧ PlainTok P tok := by
  intro n
  induction n with
  | zero => intro t k h; simp [nonOptG] at h
  | succ n ih =>
    intro t k h hk
    have hk' := hk.to_peel
    unfold nonOptG at h
    generalize Derive.peel t = u at h hk'
    have leaf : ∀ tok, leafTok u = some tok → tok ≠ .unit → tok ≠ .option → (∀ id, tok ≠ .self id) →
        ∃ tok rest, k = tok :: rest ∧ PlainTok P tok := by
      intro tok h1 h2 h3 h4
      exact ⟨tok, [], hk'.leaf (lookupKey_leaf h1), h2, h3, fun id _ _ h => absurd h (h4 id)⟩
    cases u with
    | unit => simp at h
    | option t => simp at h
    | param i => simp at h
    | ptr t => simp at h
    | vec t => obtain ⟨k', h1, _⟩ := hk'.vec; exact ⟨_, _, h1, by plain_tok⟩
    | hashMap t => obtain ⟨k', h1, _⟩ := hk'.hashMap; exact ⟨_, _, h1, by plain_tok⟩
    | btreeMap t => obtain ⟨k', h1, _⟩ := hk'.btreeMap; exact ⟨_, _, h1, by plain_tok⟩
    | named id args =>
      cases hd : P[id]? with
      | none => simp [hd] at h
      | some d =>
        simp only [hd] at h
        cases hb : d.body with
        | newtype fd =>
          simp only [hb, Bool.and_eq_true, List.isEmpty_iff] at h
          obtain ⟨⟨rfl, hl⟩, hno⟩ := h
          cases hdir : isDirect fd .newtypeStruct with
          | true =>
            simp only [hdir, if_true] at hno
            have := hk'.named_newtype hd hb hdir
            rw [chosenTy_plain hl, subst_nil] at this
            exact ih fd.ty k hno this.of_peel
          | false =>
            simp only [hdir, Bool.false_eq_true, if_false, decide_eq_true_eq] at hno
            exact ⟨_, _, hk'.named_newtype_nd hd hb hdir hno,
              PlainTok.self hd (by intro vs; rw [hb]; simp)⟩
        | record fs => exact hk'.named_head hd (by intro fd; rw [hb]; simp) (by intro vs; rw [hb]; simp)
        | unitEnum vs => exact hk'.named_head hd (by intro fd; rw [hb]; simp) (by intro vs'; rw [hb]; simp)
        | union vs => simp [hb] at h
    | bool => exact leaf .bool rfl (by simp) (by simp) (by simp)
    | i8 => exact leaf .int rfl (by simp) (by simp) (by simp)
    | i16 => exact leaf .int rfl (by simp) (by simp) (by simp)
    | i32 => exact leaf .int rfl (by simp) (by simp) (by simp)
    | u16 => exact leaf .int rfl (by simp) (by simp) (by simp)
    | i64 => exact leaf .long rfl (by simp) (by simp) (by simp)
    | u32 => exact leaf .long rfl (by simp) (by simp) (by simp)
    | u64 => exact leaf .long rfl (by simp) (by simp) (by simp)
    | usize => exact leaf .long rfl (by simp) (by simp) (by simp)
    | f32 => exact leaf .float rfl (by simp) (by simp) (by simp)
    | f64 => exact leaf .double rfl (by simp) (by simp) (by simp)
    | string => exact leaf .string rfl (by simp) (by simp) (by simp)
    | str => exact leaf .string rfl (by simp) (by simp) (by simp)
    | byteVec => exact leaf .bytes rfl (by simp) (by simp) (by simp)
    | byteSlice => exact leaf .bytes rfl (by simp) (by simp) (by simp)
    | byteArray n => exact leaf (.byteArray n) rfl (by simp) (by simp) (by simp)

theorem plainAt_of_done {s : BState} {tok : KTok} {rest : Key} {b : Nat}
    (h : Done P s (tok :: rest) b) (hp : PlainTok P tok) :
    PlainAt (freezeNodes s.nodes) b := by
  obtain ⟨h1, h2, h3⟩ := hp
  unfold Done at h
  have mk : ∀ (X : RegularType), s.nodes[b]? = some (plain X) → X ≠ .null → (∀ vs, X ≠ .union vs) →
      PlainAt (freezeNodes s.nodes) b := by
    intro X hX hn hu
    refine ⟨freezeNode (plain X), freeze_get hX, ?_, ?_⟩
    · cases X <;> simp [freezeNode, plain] at hn ⊢
    · intro vs
      cases X <;> simp [freezeNode, plain] at hu ⊢
  cases tok with
  | unit => exact absurd rfl h1
  | option => exact absurd rfl h2
  | bool => exact mk _ h (by simp) (by simp)
  | int => exact mk _ h (by simp) (by simp)
  | long => exact mk _ h (by simp) (by simp)
  | float => exact mk _ h (by simp) (by simp)
  | double => exact mk _ h (by simp) (by simp)
  | string => exact mk _ h (by simp) (by simp)
  | bytes => exact mk _ h (by simp) (by simp)
  | byteArray n => obtain ⟨nm, h⟩ := h; exact mk _ h (by simp) (by simp)
  | vec => obtain ⟨c, h, _⟩ := h; exact mk _ h (by simp) (by simp)
  | map => obtain ⟨c, h, _⟩ := h; exact mk _ h (by simp) (by simp)
  | generic id m =>
    simp only [KeyNode] at h
    cases hd : P[id]? with
    | none => rw [hd] at h; exact h.elim
    | some d =>
      rw [hd] at h
      dsimp only at h
      cases hb : d.body with
      | record fields =>
        rw [hb] at h
        obtain ⟨nm, fs, cks, h, _⟩ := h
        exact mk _ h (by simp) (by simp)
      | unitEnum vs => rw [hb] at h; exact h.elim
      | newtype fd => rw [hb] at h; exact h.elim
      | union vs => rw [hb] at h; exact h.elim
  | self id =>
    simp only [KeyNode] at h
    cases hd : P[id]? with
    | none => rw [hd] at h; exact h.elim
    | some d =>
      rw [hd] at h
      dsimp only at h
      cases hb : d.body with
      | record fields =>
        rw [hb] at h
        obtain ⟨nm, fs, h, _⟩ := h
        exact mk _ h (by simp) (by simp)
      | unitEnum vs =>
        rw [hb] at h
        obtain ⟨nm, h⟩ := h
        exact mk _ h (by simp) (by simp)
      | newtype fd =>
        rw [hb] at h
        obtain ⟨_, nm, n, h, _⟩ := h
        exact mk _ h (by simp) (by simp)
      | union vs => exact absurd hb (h3 id d vs rfl hd)

theorem leaf_realizes {s : BState} {t : Ty} {tok : KTok} (htok : leafTok t = some tok) {i : Nat}
    (h : Done P s [tok] i) (f : Nat) : Realizes P (freezeNodes s.nodes) (f + 1) t i := by
  unfold Done at h
  cases t <;> simp only [leafTok, Option.some.injEq, reduceCtorEq] at htok <;> subst htok <;>
    first
    | exact freeze_get h
    | (obtain ⟨nm, h⟩ := h; exact ⟨nm, freeze_get h⟩)


end heads

section realizes
variable {P : Prog}

theorem realizes_of_inv (hP : ∀ (id : Nat) (d : Decl), P[id]? = some d → declOkG P d = true)
    {s : BState} (hinv : Inv P [] s) : ∀ (f : Nat) (t : Ty) (key : Key) (i : Nat),
    tyOkG P 0 t = true → KeyOf P t key → Reg s key i → Realizes P (freezeNodes s.nodes) f t i := by
  have hdone : ∀ k i, Reg s k i → Done P s k i := fun k i h => by
    rcases hinv.done k i h with h' | h'
    · cases h'
    · exact h'
  have hbnd : ∀ k i, Reg s k i → i < (freezeNodes s.nodes).size := fun k i h => by
    rw [freezeNodes_size]; exact hinv.bnd k i h
  intro f
  induction f with
  | zero => intro t key i _ _ _; exact trivial
  | succ f ih =>
    intro t key i ht hkey hreg
    have leaf : ∀ tok, leafTok t = some tok → Realizes P (freezeNodes s.nodes) (f + 1) t i := by
      intro tok htok
      have : key = [tok] := hkey.leaf (lookupKey_leaf htok)
      subst this
      exact leaf_realizes htok (hdone _ _ hreg) f
    cases t with
    | vec t =>
      obtain ⟨k', rfl, hk'⟩ := hkey.vec
      obtain ⟨c, hn, hc⟩ := hdone _ _ hreg
      exact ⟨c, freeze_get hn, hbnd _ _ hc, ih t k' c (by simpa [tyOkG] using ht) hk' hc⟩
    | hashMap t =>
      obtain ⟨k', rfl, hk'⟩ := hkey.hashMap
      obtain ⟨c, hn, hc⟩ := hdone _ _ hreg
      exact ⟨c, freeze_get hn, hbnd _ _ hc, ih t k' c (by simpa [tyOkG] using ht) hk' hc⟩
    | btreeMap t =>
      obtain ⟨k', rfl, hk'⟩ := hkey.btreeMap
      obtain ⟨c, hn, hc⟩ := hdone _ _ hreg
      exact ⟨c, freeze_get hn, hbnd _ _ hc, ih t k' c (by simpa [tyOkG] using ht) hk' hc⟩
    | option t =>
      simp only [tyOkG, Bool.and_eq_true] at ht
      obtain ⟨k', rfl, hk'⟩ := hkey.option
      obtain ⟨a, b, hn, ha, hb⟩ := hdone _ _ hreg
      obtain ⟨tok, rest, rfl, h1⟩ := nonOptG_head _ t k' ht.2 hk'
      have hna : s.nodes[a]? = some (plain .null) := hdone _ _ ha
      exact ⟨a, b, freeze_get hn, freeze_get hna, plainAt_of_done (hdone _ _ hb) h1,
        ih t _ b ht.1 hk' hb⟩
    | ptr t => exact ih t key i (by simpa [tyOkG] using ht) hkey.ptr hreg
    | param j => simp [tyOkG] at ht
    | named id args =>
      rw [tyOkG] at ht
      simp only [Bool.and_eq_true] at ht
      obtain ⟨hhead, hargs⟩ := ht
      cases hd : P[id]? with
      | none => simp [hd] at hhead
      | some d =>
      simp only [hd] at hhead
      have hdok := hP id _ hd
      unfold Realizes
      simp only [hd]
      cases hb : d.body with
      | unitEnum vs =>
        dsimp only
        have := hkey.named_enum hd hb
        subst this
        have h := hdone _ _ hreg
        simp only [Done, KeyNode, hd, hb] at h
        obtain ⟨nm, h⟩ := h
        exact ⟨nm, freeze_get h⟩
      | newtype fd =>
        dsimp only
        have hng : isGenRec d = false := by simp [isGenRec, hb]
        simp only [hng, Bool.false_eq_true, if_false, List.isEmpty_iff] at hhead
        subst hhead
        simp only [declOkG, hb, Bool.and_eq_true, decide_eq_true_eq, plainFieldOkG] at hdok
        obtain ⟨⟨hname, hl, hty⟩, hno⟩ := hdok
        rw [subst_nil]
        cases hdir : isDirect fd .newtypeStruct with
        | true =>
          simp only [hdir, if_true] at hno
          have hk := hkey.named_newtype hd hb hdir
          rw [chosenTy_plain hl, subst_nil] at hk
          have hk := hk.of_peel
          obtain ⟨tok, rest, rfl, h1⟩ := nonOptG_head _ fd.ty key hno hk
          exact ⟨hname, plainAt_of_done (hdone _ _ hreg) h1, ih fd.ty _ i hty hk hreg⟩
        | false =>
          simp only [hdir, Bool.false_eq_true, if_false, decide_eq_true_eq] at hno
          have := hkey.named_newtype_nd hd hb hdir hno
          subst this
          have hdn := hdone _ _ hreg
          have h := hdn
          simp only [Done, KeyNode, hd, hb] at h
          obtain ⟨_, nm, n, hnode, hp⟩ := h
          exact ⟨hname, plainAt_of_done hdn (PlainTok.self hd (by intro vs; rw [hb]; simp)),
            realizes_of_peel_fixed (freeze_get hnode) fd.ty hp f⟩
      | record fields =>
        dsimp only
        simp only [declOkG, hb, Bool.and_eq_true, decide_eq_true_eq] at hdok
        obtain ⟨hname, hfields⟩ := hdok
        by_cases hn : d.nparams = 0
        · have hng : isGenRec d = false := by simp [isGenRec, hn]
          simp only [hng, Bool.false_eq_true, if_false, List.isEmpty_iff] at hhead
          subst hhead
          simp only [hn, List.all_eq_true] at hfields
          have := hkey.named_record hd hb hn
          subst this
          have h := hdone _ _ hreg
          simp only [Done, KeyNode, hd, hb] at h
          obtain ⟨nm, fs, hnode, hlen, hall⟩ := h
          refine ⟨hname, nm, fs, freeze_get hnode, hlen, fun j fd p hj hp => ?_⟩
          obtain ⟨h1, h2⟩ := hall j fd p hj hp
          have hfd := hfields fd (List.mem_of_getElem? hj)
          rw [subst_nil]
          rcases h2 with ⟨hl, k, hk, hr⟩ | ⟨hl, raw, hraw, hrn⟩
          · simp only [fieldOkG, plainFieldOkG, hl, Bool.true_and, Bool.not_true, Bool.false_and,
              Bool.or_false] at hfd
            rw [if_pos hl]
            exact ⟨h1, hbnd _ _ hr, ih fd.ty k p.2 hfd hk hr⟩
          · simp only [fieldOkG, plainFieldOkG, hl, Bool.false_and, Bool.not_false, Bool.true_and,
              Bool.false_or, hraw] at hfd
            have hlt : p.2 < (freezeNodes s.nodes).size := by
              rw [freezeNodes_size]
              rcases Nat.lt_or_ge p.2 s.nodes.size with h | h
              · exact h
              · rw [Array.getElem?_eq_none h] at hrn; cases hrn
            rw [if_neg (by simp [hl])]
            exact ⟨h1, hlt, _, freeze_get hrn, hfd⟩
        · have hg : isGenRec d = true := by simp [isGenRec, hn, hb]
          simp only [hg, if_true, beq_iff_eq] at hhead
          simp only [List.all_eq_true] at hfields
          have hargs' : ∀ a ∈ args, tyOkG P 0 a = true := tysOkG_mem hargs
          obtain ⟨F', rest, rfl, hrest⟩ := hkey.named_record_gen hd hb hn
          obtain ⟨cks', rfl, hclen', hcall⟩ := lookupKeys_split P _ F' rest hrest
          have h := hdone _ _ hreg
          simp only [Done, KeyNode, hd, hb] at h
          obtain ⟨nm, fs, cks, hnode, hlen, hclen, hflat, hcoded, hall⟩ := h
          have hcoded' : ∀ ck ∈ cks', Coded 1 ck := by
            intro ck hck
            obtain ⟨j, hj⟩ := List.getElem?_of_mem hck
            have hjlt : j < fields.length := by
              have := (List.getElem?_eq_some_iff.mp hj).1
              simpa [hclen'] using this
            exact (hcall j (subst args (chosenTy fields[j])) ck
              (by simp [List.getElem?_eq_getElem hjlt]) hj).coded
          have hcks : cks' = cks :=
            flatten_unique cks' cks hcoded' hcoded (by simp [hclen, hclen']) hflat
          subst hcks
          refine ⟨hname, nm, fs, freeze_get hnode, hlen, fun j fd p hj hp => ?_⟩
          have hjlt : j < cks'.length := by
            rw [hclen]
            rcases Nat.lt_or_ge j fields.length with h | h
            · exact h
            · rw [List.getElem?_eq_none h] at hj; cases hj
          have hc : cks'[j]? = some cks'[j] := List.getElem?_eq_getElem hjlt
          obtain ⟨h1, h2⟩ := hall j fd p _ hj hp hc
          have hfd := hfields fd (List.mem_of_getElem? hj)
          rcases h2 with ⟨hl, h2⟩ | ⟨hl, tn, raw, hraw, hrn⟩
          · simp only [fieldOkG, plainFieldOkG, hl, Bool.true_and, Bool.not_true, Bool.false_and,
              Bool.or_false] at hfd
            have hck := hcall j (subst args (chosenTy fd)) _ (by simp [hj]) hc
            rw [chosenTy_plain hl] at hck
            rw [if_pos hl]
            exact ⟨h1, hbnd _ _ h2, ih _ _ p.2 (tyOkG_subst hargs' hhead _ hfd)
              (KeyOf.subst_peel args hck) h2⟩
          · simp only [fieldOkG, plainFieldOkG, hl, Bool.false_and, Bool.not_false, Bool.true_and,
              Bool.false_or] at hfd
            cases hraw0 : logicalRaw d fd with
            | none => simp [hraw0] at hfd
            | some raw0 =>
              simp only [hraw0] at hfd
              have hlt : p.2 < (freezeNodes s.nodes).size := by
                rw [freezeNodes_size]
                rcases Nat.lt_or_ge p.2 s.nodes.size with h | h
                · exact h
                · rw [Array.getElem?_eq_none h] at hrn; cases hrn
              rw [if_neg (by simp [hl])]
              refine ⟨h1, hlt, _, freeze_get hrn, ?_⟩
              obtain ⟨x, hx⟩ := nodeAccepts_leaf hfd
              rw [peel_subst, subst_leaf hx, peel_leaf hx, logicalRawAt_accepts hraw hraw0]
              exact hfd
      | union vs => simp [declOkG, hb] at hdok
    | unit => exact leaf .unit rfl
    | bool => exact leaf .bool rfl
    | i8 => exact leaf .int rfl
    | i16 => exact leaf .int rfl
    | i32 => exact leaf .int rfl
    | u16 => exact leaf .int rfl
    | i64 => exact leaf .long rfl
    | u32 => exact leaf .long rfl
    | u64 => exact leaf .long rfl
    | usize => exact leaf .long rfl
    | f32 => exact leaf .float rfl
    | f64 => exact leaf .double rfl
    | string => exact leaf .string rfl
    | str => exact leaf .string rfl
    | byteVec => exact leaf .bytes rfl
    | byteSlice => exact leaf .bytes rfl
    | byteArray n => exact leaf (.byteArray n) rfl

end realizes

end Avro.Theorems.DeriveG
